(* Model/IOFs.v -- field-level model of the FreeSurfer triangle surface format: lapy/_read_geometry.py (reader, 64-184), the layout
   nibabel's write_geometry produces (called by lapy/_tria_io.py write_fssurf, 500-517) and the header dictionary.
   A file is a stream of fields (3-byte magic, text line, big-endian int32, big-endian float32, "key = payload" text line);
   the byte encoding of a field and the text formatting of numbers are abstracted: [r32] is the conversion to float32 on writing,
   [fmt10] the "%.10g" formatting of header floats.  Definitions only. *)
From Coq Require Import List Arith Bool PeanoNat ZArith String.
From LaPyV Require Import Base.ListAux Model.TetMesh Model.TriaAdj.
Import ListNotations.
Open Scope string_scope.
Open Scope list_scope.

Section IOFs.
  Context {K : Type} (r32 fmt10 : K -> K).

  Inductive payload := PStr (s : string) | PInts (l : list Z) | PFloats (l : list K).
  Inductive field := FMagic (a b c : nat) | FLine (s : string) | FI32 (z : Z) | FF32 (x : K) | FKey (key : string) (p : payload).
  Definition fsfile := list field.

  Record fsinfo := { fs_head : list Z; fs_valid : string; fs_filename : string; fs_volume : list Z;
                     fs_voxelsize : list K; fs_xras : list K; fs_yras : list K; fs_zras : list K; fs_cras : list K }.

  (* ---------------------------------------------------------------- writer (nibabel layout) *)
  Definition write_info (i : fsinfo) : fsfile :=
    map FI32 (fs_head i) ++
    [FKey "valid" (PStr (fs_valid i)); FKey "filename" (PStr (fs_filename i)); FKey "volume" (PInts (fs_volume i));
     FKey "voxelsize" (PFloats (map fmt10 (fs_voxelsize i))); FKey "xras" (PFloats (map fmt10 (fs_xras i)));
     FKey "yras" (PFloats (map fmt10 (fs_yras i))); FKey "zras" (PFloats (map fmt10 (fs_zras i)));
     FKey "cras" (PFloats (map fmt10 (fs_cras i)))].
  Definition write_fs (stamp : string) (v : list (K * K * K)) (t : list tri) (info : option fsinfo) : fsfile :=
    [FMagic 255 255 254; FLine stamp; FLine EmptyString; FI32 (Z.of_nat (List.length v)); FI32 (Z.of_nat (List.length t))] ++
    flat_map (fun '(x, y, z) => [FF32 (r32 x); FF32 (r32 y); FF32 (r32 z)]) v ++
    flat_map (fun '(a, b, c) => [FI32 (Z.of_nat a); FI32 (Z.of_nat b); FI32 (Z.of_nat c)]) t ++
    match info with Some i => write_info i | None => [] end.

  (* ---------------------------------------------------------------- reader *)
  Inductive fserr := FsValueError | FsOSError.
  Inductive fsres (A : Type) := FsOk (a : A) | FsErr (e : fserr).
  Arguments FsOk {A} a. Arguments FsErr {A} e.

  (* np.fromfile(fobj, '>f4', n) / '>i4': as many fields of that kind as are there, at most n *)
  Fixpoint take_f32 (s : fsfile) (n : nat) : list K * fsfile :=
    match n, s with
    | S m, FF32 x :: tl => let '(l, r) := take_f32 tl m in (x :: l, r)
    | _, _ => ([], s)
    end.
  Fixpoint take_i32 (s : fsfile) (n : nat) : list Z * fsfile :=
    match n, s with
    | S m, FI32 z :: tl => let '(l, r) := take_i32 tl m in (z :: l, r)
    | _, _ => ([], s)
    end.
  Fixpoint chunk3z (l : list Z) : option (list tri) :=
    match l with
    | [] => Some []
    | a :: b :: c :: tl => match chunk3z tl with Some r => Some ((Z.to_nat a, Z.to_nat b, Z.to_nat c) :: r) | None => None end
    | _ => None
    end.
  Fixpoint chunk3k (l : list K) : option (list (K * K * K)) :=
    match l with
    | [] => Some []
    | a :: b :: c :: tl => match chunk3k tl with Some r => Some ((a, b, c) :: r) | None => None end
    | _ => None
    end.

  (* the eight "key = payload" lines, in this order; anything else is "Error parsing volume info" *)
  Definition read_keys (s : fsfile) (head : list Z) : fsres fsinfo :=
    match s with
    | FKey "valid" (PStr a) :: FKey "filename" (PStr b) :: FKey "volume" (PInts c) :: FKey "voxelsize" (PFloats d)
      :: FKey "xras" (PFloats e) :: FKey "yras" (PFloats f) :: FKey "zras" (PFloats g) :: FKey "cras" (PFloats h) :: _ =>
        FsOk {| fs_head := head; fs_valid := a; fs_filename := b; fs_volume := c; fs_voxelsize := d; fs_xras := e; fs_yras := f;
                fs_zras := g; fs_cras := h |}
    | _ => FsErr FsOSError
    end.
  Definition zl_eqb (a b : list Z) : bool := if list_eq_dec Z.eq_dec a b then true else false.
  (* _read_volume_info: None = no (recognised) volume information *)
  Definition read_volume_info (s : fsfile) : fsres (option fsinfo) :=
    let '(h1, r1) := take_i32 s 1 in
    if zl_eqb h1 [20%Z] then
      match read_keys r1 [20%Z] with FsOk i => FsOk (Some i) | FsErr e => FsErr e end
    else
      let '(h2, r2) := take_i32 r1 2 in
      let head := h1 ++ h2 in
      if zl_eqb head [2; 0; 20]%Z || zl_eqb head [2; 1; 20]%Z then
        match read_keys r2 [2; 0; 20]%Z with FsOk i => FsOk (Some i) | FsErr e => FsErr e end
      else FsOk None.

  Definition is_tria_magic (a b c : nat) : bool := Nat.eqb a 255 && Nat.eqb b 255 && Nat.eqb c 254.
  Definition read_fs (s : fsfile) : fsres (list (K * K * K) * list tri * option fsinfo * string) :=
    match s with
    | FMagic a b c :: tl =>
      if negb (is_tria_magic a b c) then FsErr FsValueError       (* not a triangle file *)
      else
      match tl with
      | FLine stamp :: rest =>
        let rest := match rest with FLine EmptyString :: r => r | _ => rest end in
        match rest with
        | FI32 vn :: FI32 fn :: body =>
            let '(cs, r1) := take_f32 body (Z.to_nat vn * 3) in
            if negb (Nat.eqb (List.length cs) (Z.to_nat vn * 3)) then FsErr FsValueError      (* reshape(vnum, 3) fails *)
            else
              let '(fs, r2) := take_i32 r1 (Z.to_nat fn * 3) in
              if negb (Nat.eqb (List.length fs) (Z.to_nat fn * 3)) then FsErr FsValueError
              else match chunk3k cs, chunk3z fs with
                   | Some v, Some t =>
                       match read_volume_info r2 with
                       | FsOk info => FsOk (v, t, info, stamp)
                       | FsErr e => FsErr e
                       end
                   | _, _ => FsErr FsValueError
                   end
        | _ => FsErr FsValueError               (* vnum / fnum missing: indexing an empty array *)
        end
      | _ => FsErr FsValueError
      end
    | _ => FsErr FsValueError
    end.
End IOFs.
Arguments FMagic {K} a b c. Arguments FLine {K} s. Arguments FI32 {K} z. Arguments PStr {K} s. Arguments PInts {K} l.
Arguments FsOk {A} a. Arguments FsErr {A} e.
