(* Model/Heat.v -- executable model of lapy/heat.py: diffusion (system matrix B_lumped + t A, t = m * avg_edge_length^2,
   indicator right-hand side; the LU solve is an oracle), kernel and diagonal (after fix b666ca9).  Definitions only. *)
From Coq Require Import List Arith Bool PeanoNat ZArith.
From LaPyV Require Import Base.Scalar Base.Vec3 Base.ListAux Base.Sparse Model.TetMesh Model.TriaAdj Model.Fem Model.TriaGeom.
Import ListNotations.

Section Heat.
  Context {K : Type} (o : Ops K).
  Local Notation "a + b" := (add o a b).
  Local Notation "a * b" := (mul o a b).

  Definition heat_time (m avg : K) : K := m * (avg * avg).
  (* hmat = fem.mass + t * fem.stiffness as triplets *)
  Definition heat_matrix (t : K) (A B : coo K) : coo K := B ++ coo_scale o t A.
  (* b0 = zeros(nv); b0[vids] = 1.0 *)
  Definition heat_rhs (n : nat) (vids : list nat) : list K :=
    map (fun k => if memn k vids then one o else zero o) (iota n).

  Definition tria_heat_system (v : list (vec3 K)) (ts : list tri) (m : K) : coo K :=
    heat_matrix (heat_time m (tria_avg_edge_length o v ts)) (fem_tria_A o v ts) (fem_tria_B o true v ts).
  Definition tet_heat_system (v : list (vec3 K)) (ts : list tet) (m : K) : coo K :=
    heat_matrix (heat_time m (tet_avg_edge_length o v ts)) (fem_tet_A o v ts) (fem_tet_B o true v ts).

  (* K_t(p, q) = sum_{j<n} exp(-lambda_j t) phi_j(p) phi_j(q); evecs as a list of rows (one per vertex) *)
  Definition kernel_at (t : K) (evals : list K) (rp rq : list K) (n : nat) : K :=
    fold_left (fun acc j => acc + expK o (opp o (nth j evals (zero o) * t)) * nth j rp (zero o) * nth j rq (zero o))
              (iota n) (zero o).
  (* kernel(t, vfix, evecs, evals, n): rows = vertices, columns = times *)
  Definition heat_kernel (ts : list K) (vfix : nat) (evecs : list (list K)) (evals : list K) (n : nat) : list (list K) :=
    map (fun rp => map (fun t => kernel_at t evals rp (nth vfix evecs []) n) ts) evecs.
  (* diagonal(t, x, evecs, evals, n): rows = selected vertices *)
  Definition heat_diagonal (ts : list K) (xs : list nat) (evecs : list (list K)) (evals : list K) (n : nat) : list (list K) :=
    map (fun x => map (fun t => kernel_at t evals (nth x evecs []) (nth x evecs []) n) ts) xs.
End Heat.
