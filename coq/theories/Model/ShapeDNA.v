(* Model/ShapeDNA.v -- executable model of lapy/shapedna.py apart from the eigen-solver: the dictionary fields of
   compute_shapedna, normalize_ev (all methods, both geometry types), reweight_ev, compute_distance.  The real power
   vol ** (2/3) is a parameter [pow23] (contract: pow23 x ^ 3 = x ^ 2, x > 0 -> pow23 x > 0).  Definitions only. *)
From Coq Require Import List Arith Bool PeanoNat ZArith.
From LaPyV Require Import Base.Scalar Base.Vec3 Base.ListAux Base.Sparse Model.TetMesh Model.TriaAdj Model.TriaOrient Model.Fem Model.TriaGeom.
Import ListNotations.

Inductive nmethod := MSurface | MVolume | MGeometry.

Section ShapeDNA.
  Context {K : Type} (o : Ops K) (pow23 : K -> K).

  (* Dimension, Elements, DoF, NumEW *)
  Definition dna_fields_tria (v : list (vec3 K)) (ts : list tri) (k : nat) : nat * nat * nat * nat := (2, length ts, length v, k).
  Definition dna_fields_tet (v : list (vec3 K)) (ts : list tet) (k : nat) : nat * nat * nat * nat := (3, length ts, length v, k).

  Definition scale_list (c : K) (l : list K) : list K := map (fun x => mul o x c) l.
  (* volume enclosed by a triangle mesh after orienting a copy (orient_ then volume()) *)
  Definition oriented_volume (v : list (vec3 K)) (ts : list tri) : result K :=
    match orient o v ts with
    | Err e => Err e
    | Ok (ts', _) => tria_volume o v ts'
    end.
  Definition normalize_ev_tria (v : list (vec3 K)) (ts : list tri) (evals : list K) (m : nmethod) : result (list K) :=
    match m with
    | MSurface | MGeometry => Ok (scale_list (area o v ts) evals)
    | MVolume => match oriented_volume v ts with Err e => Err e | Ok vol => Ok (scale_list (pow23 vol) evals) end
    end.
  Definition normalize_ev_tet (v : list (vec3 K)) (ts : list tet) (evals : list K) (m : nmethod) : result (list K) :=
    match m with
    | MSurface => Err OtherError      (* TetMesh has no area(): AttributeError *)
    | MVolume | MGeometry =>
        match oriented_volume v (tet_boundary_tria ts) with Err e => Err e | Ok vol => Ok (scale_list (pow23 vol) evals) end
    end.
  (* evals / arange(1, n+1) *)
  Definition reweight_ev (evals : list K) : list K :=
    map (fun '(i, x) => div o x (ofZ o (Z.of_nat (S i)))) (enumerate evals).
  Definition compute_distance (a b : list K) : K :=
    sqrtK o (sumK o (map (fun '(x, y) => mul o (sub o x y) (sub o x y)) (combine a b))).
End ShapeDNA.
