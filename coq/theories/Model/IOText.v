(* Model/IOText.v -- token-level model of the text mesh formats of lapy/_tria_io.py and lapy/_tet_io.py
   (write_vtk / read_vtk for triangle and tetra meshes, read_off) and of lapy/io.py (write_vfunc / read_vfunc).
   A file is a stream of tokens with end-of-line markers; number <-> text conversion (Python str / C strtod)
   is abstracted: a float token carries its value, and np.fromfile(..., "float32") is the parameter [round32].
   Definitions only. *)
From Coq Require Import List Arith Bool PeanoNat ZArith String.
From LaPyV Require Import Base.ListAux Model.TetMesh Model.TriaAdj.
Import ListNotations.
Open Scope string_scope.
Open Scope list_scope.

Section IOText.
  Context {K : Type} (round32 : K -> K).

  Inductive tok := TZ (z : Z) | TF (x : K) | TW (w : string).
  Inductive stok := Tok (t : tok) | EOL.
  Definition file := list stok.

  Definition line_of (l : list tok) : file := map Tok l ++ [EOL].
  Definition lines_of (ls : list (list tok)) : file := flat_map line_of ls.

  (* f.readline().split(): tokens up to the end of line (None at end of file) *)
  Fixpoint readline (s : file) : option (list tok * file) :=
    match s with
    | [] => None
    | EOL :: tl => Some ([], tl)
    | Tok t :: tl => match readline tl with
                     | Some (l, r) => Some (t :: l, r)
                     | None => Some ([t], [])
                     end
    end.
  Fixpoint drop_eols (s : file) : file := match s with EOL :: tl => drop_eols tl | _ => s end.

  (* np.fromfile(f, dtype, cnt, " "): up to cnt whitespace-separated numbers; stops at a token that is not a number;
     afterwards the position is behind the last number read and the white space following it *)
  Definition is_num (t : tok) : bool := match t with TZ _ | TF _ => true | TW _ => false end.
  Fixpoint take_nums (s : file) (cnt : nat) : list tok * file :=
    match cnt with
    | O => ([], drop_eols s)
    | S c =>
        match s with
        | [] => ([], [])
        | EOL :: tl => take_nums tl (S c)
        | Tok t :: tl => if is_num t then let '(l, r) := take_nums tl c in (t :: l, r) else ([], s)
        end
    end.

  Definition tokK (t : tok) : option K := match t with TF x => Some x | _ => None end.
  Definition tokZ (t : tok) : option Z := match t with TZ z => Some z | _ => None end.
  Definition tokW (t : tok) : option string := match t with TW w => Some w | _ => None end.
  Definition starts_with_word (l : list tok) (w : string) : bool :=
    match l with TW x :: _ => String.eqb x w | _ => false end.

  Fixpoint chunk3 {A} (l : list A) : option (list (A * A * A)) :=
    match l with
    | [] => Some []
    | a :: b :: c :: tl => match chunk3 tl with Some r => Some ((a, b, c) :: r) | None => None end
    | _ => None
    end.
  Fixpoint chunkn {A} (n : nat) (fuel : nat) (l : list A) : option (list (list A)) :=
    match fuel with
    | O => match l with [] => Some [] | _ => None end
    | S f => match l with
             | [] => Some []
             | _ => if Nat.ltb (List.length l) n then None
                    else match chunkn n f (skipn n l) with Some r => Some (firstn n l :: r) | None => None end
             end
    end.
  Fixpoint all_some {A} (l : list (option A)) : option (list A) :=
    match l with
    | [] => Some []
    | Some x :: tl => match all_some tl with Some r => Some (x :: r) | None => None end
    | None :: _ => None
    end.

  (* ---------------------------------------------------------------- writers *)
  Definition vtk_header : list (list tok) :=
    [[TW "#"; TW "vtk"; TW "DataFile"; TW "Version"; TW "1.0"]; [TW "vtk"; TW "output"]; [TW "ASCII"]; [TW "DATASET"; TW "POLYDATA"]].
  Definition write_vtk_tria (v : list (K * K * K)) (t : list tri) : file :=
    lines_of (vtk_header ++ [[TW "POINTS"; TZ (Z.of_nat (List.length v)); TW "float"]]
              ++ map (fun '(x, y, z) => [TF x; TF y; TF z]) v
              ++ [[TW "POLYGONS"; TZ (Z.of_nat (List.length t)); TZ (Z.of_nat (4 * List.length t))]]
              ++ map (fun '(a, b, c) => [TZ 3; TZ (Z.of_nat a); TZ (Z.of_nat b); TZ (Z.of_nat c)]) t).
  Definition write_vtk_tet (v : list (K * K * K)) (t : list tet) : file :=
    lines_of (vtk_header ++ [[TW "POINTS"; TZ (Z.of_nat (List.length v)); TW "float"]]
              ++ map (fun '(x, y, z) => [TF x; TF y; TF z]) v
              ++ [[TW "POLYGONS"; TZ (Z.of_nat (List.length t)); TZ (Z.of_nat (5 * List.length t))]]
              ++ map (fun '(a, b, c, d) => [TZ 4; TZ (Z.of_nat a); TZ (Z.of_nat b); TZ (Z.of_nat c); TZ (Z.of_nat d)]) t).

  (* ---------------------------------------------------------------- readers *)
  (* number tokens read with dtype float32: integers in the text are numbers too *)
  Definition numK (zK : Z -> K) (t : tok) : option K :=
    match t with TF x => Some (round32 x) | TZ z => Some (round32 (zK z)) | TW _ => None end.

  (* skip '#' comment lines, then look for ASCII within the next 5 lines *)
  Fixpoint skip_comments (fuel : nat) (s : file) : option (list tok * file) :=
    match fuel with
    | O => None
    | S f => match readline s with
             | None => None
             | Some (l, r) => if starts_with_word l "#" then skip_comments f r else Some (l, r)
             end
    end.
  Fixpoint find_ascii (cnt : nat) (l : list tok) (s : file) : option file :=
    if starts_with_word l "ASCII" then Some s
    else match cnt with
         | O => None
         | S c => match readline s with None => None | Some (l', r) => find_ascii c l' r end
         end.

  Definition read_points (zK : Z -> K) (s : file) : option (list (K * K * K) * file) :=
    match readline s with
    | Some ([TW "POINTS"; TZ n; TW kw], r) =>
        if negb (String.eqb kw "float" || String.eqb kw "double") then None
        else
          let '(nums, r') := take_nums r (3 * Z.to_nat n) in
          if negb (Nat.eqb (List.length nums) (3 * Z.to_nat n)) then None      (* v.shape = (pnum, 3) raises *)
          else match all_some (map (numK zK) nums) with
               | None => None
               | Some ks => match chunk3 ks with Some v => Some (v, r') | None => None end
               end
    | _ => None
    end.

  (* read_vtk up to and including the line that announces the cells: comments, ASCII, DATASET, POINTS section, next line *)
  Definition read_vtk_pre (zK : Z -> K) (s : file) : option (list (K * K * K) * list tok * file) :=
    match skip_comments (S (List.length s)) s with
    | None => None
    | Some (l, r) =>
      match find_ascii 5 l r with
      | None => None
      | Some r1 =>
        match readline r1 with
        | Some (TW "DATASET" :: TW ds :: _, r2) =>
          if negb (String.eqb ds "POLYDATA" || String.eqb ds "UNSTRUCTURED_GRID") then None
          else
            match read_points zK r2 with
            | None => None
            | Some (v, r3) =>
              match readline r3 with
              | Some (line, r4) => Some (v, line, r4)
              | None => None
              end
            end
        | _ => None
        end
      end
    end.
  (* POLYGONS / CELLS section with w vertices per cell (w = 3 triangles, w = 4 tetrahedra) *)
  Definition read_cells_body (w : nat) (line : list tok) (r4 : file) : option (list (list nat)) :=
    match line with
    | [TW kw; TZ tn; TZ ttn] =>
        if negb (String.eqb kw "POLYGONS" || String.eqb kw "CELLS") then None
        else if negb (Z.eqb ttn (Z.of_nat (S w) * tn)) then None             (* npt != w+1 *)
        else
          let '(nums, _) := take_nums r4 (Z.to_nat ttn) in
          if negb (Nat.eqb (List.length nums) (Z.to_nat ttn)) then None           (* t.shape = (tnum, w+1) raises *)
          else match all_some (map tokZ nums) with
               | None => None
               | Some zs =>
                 match chunkn (S w) (List.length zs) zs with
                 | None => None
                 | Some rows =>
                   match rows with [] => None | _ =>
                   if negb (Z.eqb (hd 0%Z (last rows [])) (Z.of_nat w)) then None      (* t[tnum-1][0] != w *)
                   else Some (map (fun row => map Z.to_nat (tl row)) rows)
                   end
                 end
               end
    | _ => None
    end.
  Definition read_vtk_cells (zK : Z -> K) (w : nat) (s : file) : option (list (K * K * K) * list (list nat)) :=
    match read_vtk_pre zK s with
    | Some (v, line, r4) => match read_cells_body w line r4 with Some rows => Some (v, rows) | None => None end
    | None => None
    end.

  (* TRIANGLE_STRIPS: a strip of n points p0 .. p(n-1) stands for the n-2 triangles (pj, pj+1, pj+2) with alternating winding *)
  Fixpoint strip_trias (even : bool) (l : list nat) : list tri :=
    match l with
    | a :: ((b :: c :: _) as tl) => (if even then (a, b, c) else (b, a, c)) :: strip_trias (negb even) tl
    | _ => []
    end.
  Fixpoint read_strips (cnt : nat) (s : file) : option (list tri) :=
    match cnt with
    | O => Some []
    | S c =>
        match readline s with
        | Some (TZ n :: ids, r) =>
            if negb (Nat.eqb (List.length ids) (Z.to_nat n)) || Z.ltb n 0 then None
            else match all_some (map tokZ ids), read_strips c r with
                 | Some zs, Some rest => Some (strip_trias true (map Z.to_nat zs) ++ rest)
                 | _, _ => None
                 end
        | _ => None
        end
    end.
  Definition rows3 (rows : list (list nat)) : option (list tri) :=
    all_some (map (fun r => match r with [a; b; c] => Some (a, b, c) | _ => None end) rows).
  Definition rows4 (rows : list (list nat)) : option (list tet) :=
    all_some (map (fun r => match r with [a; b; c; d] => Some (a, b, c, d) | _ => None end) rows).
  Definition read_vtk_tria (zK : Z -> K) (s : file) : option (list (K * K * K) * list tri) :=
    match read_vtk_pre zK s with
    | Some (v, line, r4) =>
        match line with
        | TW kw :: TZ tn :: _ =>
            if String.eqb kw "TRIANGLE_STRIPS" then
              match read_strips (Z.to_nat tn) r4 with
              | Some (t0 :: ts) => if Z.ltb tn 0 then None else Some (v, t0 :: ts)
              | _ => None
              end
            else match read_cells_body 3 line r4 with
                 | Some rows => match rows3 rows with Some t => Some (v, t) | None => None end
                 | None => None
                 end
        | _ => None
        end
    | None => None
    end.
  Definition read_vtk_tet (zK : Z -> K) (s : file) : option (list (K * K * K) * list tet) :=
    match read_vtk_cells zK 4 s with
    | Some (v, rows) => match rows4 rows with Some t => Some (v, t) | None => None end
    | None => None
    end.

  (* read_off: comments, OFF, "pnum tnum ...", 3*pnum floats, 4*tnum ints, max of first column must be 3 *)
  Definition read_off (zK : Z -> K) (s : file) : option (list (K * K * K) * list tri) :=
    match skip_comments (S (List.length s)) s with
    | None => None
    | Some (l, r) =>
      if negb (starts_with_word l "OFF") then None
      else match readline r with
           | Some (TZ pn :: TZ tn :: _, r2) =>
               let '(nums, r3) := take_nums r2 (3 * Z.to_nat pn) in
               if negb (Nat.eqb (List.length nums) (3 * Z.to_nat pn)) then None
               else match all_some (map (numK zK) nums) with
                    | None => None
                    | Some ks =>
                      match chunk3 ks with
                      | None => None
                      | Some v =>
                        let '(inums, _) := take_nums r3 (4 * Z.to_nat tn) in
                        if negb (Nat.eqb (List.length inums) (4 * Z.to_nat tn)) then None
                        else match all_some (map tokZ inums) with
                             | None => None
                             | Some zs =>
                               match chunkn 4 (List.length zs) zs with
                               | None => None
                               | Some rows =>
                                 if negb (Z.eqb (fold_right Z.max 0%Z (map (hd 0%Z) rows)) 3) then None
                                 else match rows3 (map (fun row => map Z.to_nat (tl row)) rows) with
                                      | Some t => Some (v, t)
                                      | None => None
                                      end
                               end
                             end
                      end
                    end
           | _ => None
           end
    end.

  (* read_gmsh (lapy/_tet_io.py 11-110): Gmsh 2 ASCII, tetrahedra only; node numbers are 1-based, the first column of the node
     block (node ids) is dropped *)
  Definition rows4_of (rows : list (list nat)) : option (list tet) := rows4 rows.
  Definition read_gmsh (zK : Z -> K) (s : file) : option (list (K * K * K) * list tet) :=
    match readline s with
    | Some (TW w0 :: _, r0) =>
      if negb (String.eqb w0 "$MeshFormat") then None else
      match readline r0 with
      | Some (_ :: TZ ftype :: _ :: _, r1) =>
        if negb (Z.eqb ftype 0) then None else
        match readline r1 with
        | Some (TW w1 :: _, r2) =>
          if negb (String.eqb w1 "$EndMeshFormat") then None else
          match readline r2 with
          | Some (TW w2 :: _, r3) =>
            if negb (String.eqb w2 "$Nodes") then None else
            match readline r3 with
            | Some ([TZ pn], r4) =>
              let '(nums, r5) := take_nums r4 (4 * Z.to_nat pn) in
              if negb (Nat.eqb (List.length nums) (4 * Z.to_nat pn)) then None else
              match all_some (map (numK zK) nums) with
              | None => None
              | Some ks =>
                match chunkn 4 (List.length ks) ks with
                | None => None
                | Some vrows =>
                  match all_some (map (fun r => match r with [_; x; y; z] => Some (x, y, z) | _ => None end) vrows) with
                  | None => None
                  | Some v =>
                    match readline r5 with
                    | Some (TW w3 :: _, r6) =>
                      if negb (String.eqb w3 "$EndNodes") then None else
                      match readline r6 with
                      | Some (TW w4 :: _, r7) =>
                        if negb (String.eqb w4 "$Elements") then None else
                        match readline r7 with
                        | Some ([TZ tn], r8) =>
                          match readline r8 with
                          | Some (first, _) =>
                            let w := List.length first in
                            match first with
                            | _ :: TZ ty :: _ =>
                              if negb (Z.eqb ty 4) then None else
                              let '(inums, r9) := take_nums r8 (Z.to_nat tn * w) in
                              if negb (Nat.eqb (List.length inums) (Z.to_nat tn * w)) then None else
                              match all_some (map tokZ inums) with
                              | None => None
                              | Some zs =>
                                match chunkn w (List.length zs) zs with
                                | None => None
                                | Some rows =>
                                  match readline r9 with
                                  | Some (TW w5 :: _, _) =>
                                    if negb (String.eqb w5 "$EndElements") then None else
                                    match rows4 (map (fun row => map (fun z => Z.to_nat (z - 1)) (skipn (w - 4) row)) rows) with
                                    | Some t => Some (v, t)
                                    | None => None
                                    end
                                  | _ => None
                                  end
                                end
                              end
                            | _ => None
                            end
                          | None => None
                          end
                        | _ => None
                        end
                      | _ => None
                      end
                    | _ => None
                    end
                  end
                end
              end
            | _ => None
            end
          | _ => None
          end
        | _ => None
        end
      | _ => None
      end
    | _ => None
    end.
End IOText.
Arguments TZ {K} z. Arguments TW {K} w. Arguments EOL {K}.
