(* Model/TriaRefine.v -- executable model of TriaMesh.refine_ (lapy/tria_mesh.py 862-896).  Definitions only. *)
From Coq Require Import List Arith Bool PeanoNat ZArith.
From LaPyV Require Import Base.Scalar Base.Vec3 Base.ListAux Model.TetMesh Model.TriaAdj.
Import ListNotations.

(* upper triangle of adj_sym in CSR (row-major) order: unordered edges as (i<j), lexicographic *)
Definition edge_list (ts : list tri) : list (nat * nat) :=
  filter (fun k => Nat.ltb (fst k) (snd k)) (unique_pairs (sym_keys ts)).
Fixpoint index_of (k : nat * nat) (l : list (nat * nat)) (i : nat) : option nat :=
  match l with
  | [] => None
  | x :: tl => if pair_eqb k x then Some i else index_of k tl (S i)
  end.
Definition ukey (a b : nat) : nat * nat := if Nat.ltb a b then (a, b) else (b, a).
(* (adjtriu + adjtriu.T)[a, b]: the new vertex index on edge {a,b} *)
Definition edge_idx (n : nat) (E : list (nat * nat)) (a b : nat) : nat :=
  match index_of (ukey a b) E 0 with Some i => n + i | None => 0 end.

Definition children (n : nat) (E : list (nat * nat)) (t : tri) : list tri :=
  let '(a, b, c) := t in
  let e1 := edge_idx n E a b in let e2 := edge_idx n E b c in let e3 := edge_idx n E c a in
  [(a, e1, e3); (b, e2, e1); (c, e3, e2); (e1, e2, e3)].

Section Refine.
  Context {K : Type} (o : Ops K).
  Definition midpoint (v : list (vec3 K)) (k : nat * nat) : vec3 K :=
    vscale o (frac o 1 2) (vadd o (getv o v (fst k)) (getv o v (snd k))).
  Definition refine1 (m : list (vec3 K) * list tri) : list (vec3 K) * list tri :=
    let '(v, ts) := m in
    let E := edge_list ts in
    (v ++ map (midpoint v) E, flat_map (children (length v) E) ts).
  Fixpoint refine (it : nat) (m : list (vec3 K) * list tri) : list (vec3 K) * list tri :=
    match it with O => m | S k => refine k (refine1 m) end.
End Refine.
