(* Model/Flow.v -- executable model of diffgeo.tria_mean_curvature_flow (377-453) and of the final part of
   diffgeo.tria_spherical_project (projection to radius 100 and the quality gates, 622-662).
   The sparse LU solve is a Section parameter [solve] (contract: it returns a solution of the system it is given).
   Definitions only. *)
From Coq Require Import List Arith Bool PeanoNat ZArith.
From LaPyV Require Import Base.Scalar Base.Vec3 Base.ListAux Base.Sparse Model.TetMesh Model.TriaAdj Model.TriaOrient Model.Fem
  Model.TriaGeom Model.TriaFunc.
Import ListNotations.

Section Flow.
  Context {K : Type} (o : Ops K).
  Context (solve : nat -> coo K -> list K -> result (list K)).
  Notation V := (list (vec3 K)).
  Local Notation "a + b" := (add o a b).
  Local Notation "a - b" := (sub o a b).
  Local Notation "a * b" := (mul o a b).
  Local Notation "a / b" := (div o a b).

  (* mass + step * a_mat *)
  Definition flow_matrix (step : K) (A0 M : coo K) : coo K := M ++ coo_scale o step A0.
  Definition col (c : nat) (v : V) : list K :=
    match c with 0 => map (vx (K:=K)) v | 1 => map (vy (K:=K)) v | _ => map (vz (K:=K)) v end.
  Definition flow_rhs (M : coo K) (v : V) (c : nat) : list K := mulvec o (length v) M (vfun o (col c v)).
  (* np.trace(np.square(dv^T (M dv))): sum over the three coordinates of (dv_c . M dv_c)^2 *)
  Definition flow_diff (M : coo K) (dv : V) : K :=
    let q c := bilin o (vfun o (col c dv)) M (vfun o (col c dv)) in
    q 0%nat * q 0%nat + q 1%nat * q 1%nat + q 2%nat * q 2%nat.

  (* one iteration from the current (normalised) vertices: the solver's answer, the new normalised vertices, the delta *)
  Definition flow_step (step : K) (A0 : coo K) (ts : list tri) (v : V) : result (V * V * K) :=
    let M := fem_tria_mass o true v ts in
    let S := flow_matrix step A0 M in
    match solve (length v) S (flow_rhs M v 0), solve (length v) S (flow_rhs M v 1), solve (length v) S (flow_rhs M v 2) with
    | Ok xs, Ok ys, Ok zs =>
        let X := v_of_cols [xs; ys; zs] in
        let v' := normalize o X ts in
        let dv := map (fun '(a, b) => vsub o a b) (combine v' v) in
        Ok (X, v', flow_diff M dv)
    | Err e, _, _ => Err e
    | _, Err e, _ => Err e
    | _, _, Err e => Err e
    end.
  Fixpoint flow_loop (iters : nat) (stop_eps step : K) (A0 : coo K) (ts : list tri) (v : V) : result V :=
    match iters with
    | O => Ok v
    | S m => match flow_step step A0 ts v with
             | Err e => Err e
             | Ok (_, v', d) => if ltb o d stop_eps then Ok v' else flow_loop m stop_eps step A0 ts v'
             end
    end.
  Definition mean_curvature_flow (v : V) (ts : list tri) (max_iter : nat) (stop_eps step : K) : result (V * list tri) :=
    let v0 := normalize o v ts in
    let A0 := fem_tria_A o v0 ts in
    match flow_loop max_iter stop_eps step A0 ts v0 with
    | Err e => Err e
    | Ok v' => Ok (v', ts)
    end.

  (* ------------------------------------------------------------- tria_spherical_project, after the flow *)
  Definition project100 (vn : V) : V := map (fun p => vscale o (ofZ o 100) (vdivs o p (norm o p))) vn.
  Definition flipped_area (v : V) (ts : list tri) : K :=
    sumK o (map (fun t => let '(p1, p2, p3) := tri_pts o v t in
                          let cr := cross o (vsub o p2 p1) (vsub o p3 p1) in
                          if ltb o (dot o p1 cr) (zero o) then frac o 1 2 * sqrtK o (dot o cr cr) else zero o) ts).
  (* 4 pi 10000 is handed over as [sph] *)
  Definition project_gates (sph spatvol : K) (vn : V) (ts : list tri) : result (V * list tri) :=
    let w := project100 vn in
    let svol := area o w ts / sph in
    let fl := flipped_area w ts / sph in
    if ltb o (frac o 95 100) fl then Err ValueError
    else if ltb o svol (frac o 99 100) then Err ValueError
    else if ltb o (frac o 8 10000) fl then Err ValueError
    else if ltb o spatvol (frac o 6 10) then Err ValueError
    else Ok (w, ts).

  (* ------------------------------------------------------------- tria_spherical_project, before the flow:
     from the three non-constant eigenfunctions (an oracle's output) to the spectral embedding *)
  Definition vmean (l : V) : vec3 K := vdivs o (fold_left (vadd o) l (zero3 o)) (ofZ o (Z.of_nat (length l))).
  Definition maxl1 (l : list K) : K := match l with [] => zero o | x :: tl => fold_left (fun m y => if ltb o m y then y else m) tl x end.
  Definition minl1 (l : list K) : K := match l with [] => zero o | x :: tl => fold_left (fun m y => if ltb o y m then y else m) tl x end.
  Definition half_ := frac o 1 2.
  (* mean position of the vertices where ev > 0.5 max(ev) / ev < 0.5 min(ev) *)
  Definition cmax_of (v : V) (ev : list K) : vec3 K :=
    vmean (map fst (filter (fun '(_, e) => ltb o (half_ * maxl1 ev) e) (combine v ev))).
  Definition cmin_of (v : V) (ev : list K) : vec3 K :=
    vmean (map fst (filter (fun '(_, e) => ltb o e (half_ * minl1 ev)) (combine v ev))).
  Definition coord (k : nat) (p : vec3 K) : K := match k with 0 => vx p | 1 => vy p | _ => vz p end.
  Definition negl (l : list K) : list K := map (fun x => opp o (one o) * x) l.
  (* ev[ev < 0] /= -min(ev); ev[ev > 0] /= max(ev)   (min and max taken before the division) *)
  Definition rescale_pm1 (ev : list K) : list K :=
    let mn := minl1 ev in let mx := maxl1 ev in
    map (fun x => let y := if ltb o x (zero o) then x / opp o mn else x in if ltb o (zero o) y then y / mx else y) ev.
  Definition unit3 (p : vec3 K) : vec3 K := vscale o (one o / sqrtK o (dot o p p)) p.

  Record embedding := { em_vn : V; em_spatvol : K; em_l : K * K * K; em_ev : list K * list K * list K }.
  Definition spectral_embedding (v : V) (ev1 ev2 ev3 : list K) : result embedding :=
    let cmax1 := cmax_of v ev1 in let cmin1 := cmin_of v ev1 in
    let cmax2 := cmax_of v ev2 in let cmin2 := cmin_of v ev2 in
    let cmax3 := cmax_of v ev3 in let cmin3 := cmin_of v ev3 in
    let l11 := absK o (coord 1 cmax1 - coord 1 cmin1) in
    let l21 := absK o (coord 1 cmax2 - coord 1 cmin2) in
    let l31 := absK o (coord 1 cmax3 - coord 1 cmin3) in
    if ltb o l11 l21 || ltb o l11 l31 then Err ValueError
    else
      let w1 := vsub o cmax1 cmin1 in
      let ev1' := if ltb o (coord 1 cmax1) (coord 1 cmin1) then negl ev1 else ev1 in
      let l22 := absK o (coord 2 cmax2 - coord 2 cmin2) in
      let l32 := absK o (coord 2 cmax3 - coord 2 cmin3) in
      let sw := ltb o l22 l32 in
      let '(e2, e3) := if sw then (ev3, ev2) else (ev2, ev3) in
      let '(cx2, cx3) := if sw then (cmax3, cmax2) else (cmax2, cmax3) in
      let '(cn2, cn3) := if sw then (cmin3, cmin2) else (cmin2, cmin3) in
      let w2 := vsub o cx2 cn2 in
      let ev2' := if ltb o (coord 2 cx2) (coord 2 cn2) then negl e2 else e2 in
      let w3 := vsub o cx3 cn3 in
      let ev3' := if ltb o (coord 0 cx3) (coord 0 cn3) then negl e3 else e3 in
      let spat := absK o (dot o (unit3 w1) (cross o (unit3 w2) (unit3 w3))) in
      let a := rescale_pm1 ev1' in let b := rescale_pm1 ev2' in let c := rescale_pm1 ev3' in
      Ok {| em_vn := map (fun '(x, (y, z)) => (x, y, z)) (combine c (combine a b));
            em_spatvol := spat;
            em_l := (l11, absK o (coord 2 cx2 - coord 2 cn2), absK o (coord 0 cx3 - coord 0 cn3));
            em_ev := (ev1', ev2', ev3') |}.
End Flow.
