(* Model/Flow.v -- executable model of diffgeo.tria_mean_curvature_flow (377-453) and of the final part of
   diffgeo.tria_spherical_project (projection to radius 100 and the quality gates, 622-662).
   The sparse LU solve is a Section parameter [solve] (contract: it returns a solution of the system it is given).
   Definitions only. *)
From Coq Require Import List Arith Bool PeanoNat ZArith.
From LaPyV Require Import Base.Scalar Base.Vec3 Base.ListAux Base.Sparse Model.TetMesh Model.TriaAdj Model.TriaOrient Model.Fem
  Model.TriaGeom Model.TriaFunc.
Import ListNotations.

Section Flow.
  Context {K : Type} (o : Ops K).
  Context (solve : nat -> coo K -> list K -> result (list K)).
  Notation V := (list (vec3 K)).
  Local Notation "a + b" := (add o a b).
  Local Notation "a - b" := (sub o a b).
  Local Notation "a * b" := (mul o a b).
  Local Notation "a / b" := (div o a b).

  (* mass + step * a_mat *)
  Definition flow_matrix (step : K) (A0 M : coo K) : coo K := M ++ coo_scale o step A0.
  Definition col (c : nat) (v : V) : list K :=
    match c with 0 => map (vx (K:=K)) v | 1 => map (vy (K:=K)) v | _ => map (vz (K:=K)) v end.
  Definition flow_rhs (M : coo K) (v : V) (c : nat) : list K := mulvec o (length v) M (vfun o (col c v)).
  (* np.trace(np.square(dv^T (M dv))): sum over the three coordinates of (dv_c . M dv_c)^2 *)
  Definition flow_diff (M : coo K) (dv : V) : K :=
    let q c := bilin o (vfun o (col c dv)) M (vfun o (col c dv)) in
    q 0%nat * q 0%nat + q 1%nat * q 1%nat + q 2%nat * q 2%nat.

  (* one iteration from the current (normalised) vertices: the solver's answer, the new normalised vertices, the delta *)
  Definition flow_step (step : K) (A0 : coo K) (ts : list tri) (v : V) : result (V * V * K) :=
    let M := fem_tria_mass o true v ts in
    let S := flow_matrix step A0 M in
    match solve (length v) S (flow_rhs M v 0), solve (length v) S (flow_rhs M v 1), solve (length v) S (flow_rhs M v 2) with
    | Ok xs, Ok ys, Ok zs =>
        let X := v_of_cols [xs; ys; zs] in
        let v' := normalize o X ts in
        let dv := map (fun '(a, b) => vsub o a b) (combine v' v) in
        Ok (X, v', flow_diff M dv)
    | Err e, _, _ => Err e
    | _, Err e, _ => Err e
    | _, _, Err e => Err e
    end.
  Fixpoint flow_loop (iters : nat) (stop_eps step : K) (A0 : coo K) (ts : list tri) (v : V) : result V :=
    match iters with
    | O => Ok v
    | S m => match flow_step step A0 ts v with
             | Err e => Err e
             | Ok (_, v', d) => if ltb o d stop_eps then Ok v' else flow_loop m stop_eps step A0 ts v'
             end
    end.
  Definition mean_curvature_flow (v : V) (ts : list tri) (max_iter : nat) (stop_eps step : K) : result (V * list tri) :=
    let v0 := normalize o v ts in
    let A0 := fem_tria_A o v0 ts in
    match flow_loop max_iter stop_eps step A0 ts v0 with
    | Err e => Err e
    | Ok v' => Ok (v', ts)
    end.

  (* ------------------------------------------------------------- tria_spherical_project, after the flow *)
  Definition project100 (vn : V) : V := map (fun p => vscale o (ofZ o 100) (vdivs o p (norm o p))) vn.
  Definition flipped_area (v : V) (ts : list tri) : K :=
    sumK o (map (fun t => let '(p1, p2, p3) := tri_pts o v t in
                          let cr := cross o (vsub o p2 p1) (vsub o p3 p1) in
                          if ltb o (dot o p1 cr) (zero o) then frac o 1 2 * sqrtK o (dot o cr cr) else zero o) ts).
  (* 4 pi 10000 is handed over as [sph] *)
  Definition project_gates (sph spatvol : K) (vn : V) (ts : list tri) : result (V * list tri) :=
    let w := project100 vn in
    let svol := area o w ts / sph in
    let fl := flipped_area w ts / sph in
    if ltb o (frac o 95 100) fl then Err ValueError
    else if ltb o svol (frac o 99 100) then Err ValueError
    else if ltb o (frac o 8 10000) fl then Err ValueError
    else if ltb o spatvol (frac o 6 10) then Err ValueError
    else Ok (w, ts).
End Flow.
