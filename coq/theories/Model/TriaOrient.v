(* Model/TriaOrient.v -- executable model of TriaMesh.orient_ and volume()
   (lapy/tria_mesh.py 302-324, 913-1024 after fixes 9148247 and c4eb84f: triangles are flipped by the sign of the flood vector).  Definitions only. *)
From Coq Require Import List Arith Bool PeanoNat ZArith.
From LaPyV Require Import Base.Scalar Base.Vec3 Base.ListAux Model.TetMesh Model.TriaAdj.
Import ListNotations.

(* ---- half-edge table: (min, max, triangle index, i<j) in stacking order *)
Definition he_row (i j k : nat) : nat * nat * nat * bool :=
  if Nat.ltb i j then (i, j, k, true) else (j, i, k, false).
Definition he_rows (ts : list tri) : list (nat * nat * nat * bool) :=
  flat_map (fun '(k, (a, b, c)) => [he_row a b k; he_row b c k; he_row c a k]) (enumerate ts).
Definition he_key (r : nat * nat * nat * bool) : nat * nat := let '(a, b, _, _) := r in (a, b).
Definition he_tri (r : nat * nat * nat * bool) : nat := let '(_, _, k, _) := r in k.
Definition he_dir (r : nat * nat * nat * bool) : bool := let '(_, _, _, d) := r in d.
Definition key_count (rows : list (nat * nat * nat * bool)) (k : nat * nat) : nat :=
  count_if (fun r => pair_eqb (he_key r) k) rows.

(* max(c) != 2 or min(c) < 1 -> ValueError *)
Definition counts_ok (rows : list (nat * nat * nat * bool)) : bool :=
  forallb (fun r => Nat.leb (key_count rows (he_key r)) 2) rows &&
  existsb (fun r => Nat.eqb (key_count rows (he_key r)) 2) rows.

(* np.lexsort((col0, col1)): primary key col1 (the larger vertex), secondary col0; stable *)
Definition lex_le (x y : nat * nat * nat * bool) : bool :=
  let '(a, b) := he_key x in let '(c, d) := he_key y in pair_leb (b, a) (d, c).
Fixpoint pair_up {A} (l : list A) : list (A * A) :=
  match l with
  | x :: y :: tl => (x, y) :: pair_up tl
  | _ => []
  end.
(* triangle-neighbour entries (a, b, sign), sign = +1 for opposite half-edges, -1 for parallel *)
Definition nb_entries (ts : list tri) : list (nat * nat * Z) :=
  let rows := he_rows ts in
  let inner := filter (fun r => Nat.eqb (key_count rows (he_key r)) 2) rows in
  let sorted := sort_by lex_le inner in
  flat_map (fun '(x, y) =>
      let s := if xorb (he_dir x) (he_dir y) then 1%Z else (-1)%Z in
      [(he_tri x, he_tri y, s)]) (pair_up sorted).
Definition nb_sym (ts : list tri) : list (nat * nat * Z) :=
  let e := nb_entries ts in e ++ map (fun '(a, b, s) => (b, a, s)) e.
Definition tdim_of (e : list (nat * nat * Z)) : nat :=
  S (fold_right (fun '(a, b, _) acc => Nat.max (Nat.max a b) acc) 0 e).
(* tmat = csc(entries) + eye *)
Definition tm_stored (e : list (nat * nat * Z)) (a b : nat) : bool :=
  Nat.eqb a b || existsb (fun '(a', b', _) => Nat.eqb a a' && Nat.eqb b b') e.
Definition tm_val (e : list (nat * nat * Z)) (a b : nat) : Z :=
  (fold_right (fun '(a', b', s) acc => if Nat.eqb a a' && Nat.eqb b b' then s + acc else acc) 0 e
   + (if Nat.eqb a b then 1 else 0))%Z.

Definition svec := list (option Z).
Definition nstored (v : svec) : nat := count_if (fun x => match x with Some _ => true | None => false end) v.
Definition column (e : list (nat * nat * Z)) (n b : nat) : svec :=
  map (fun a => if tm_stored e a b then Some (tm_val e a b) else None) (iota n).
Definition step_flood (e : list (nat * nat * Z)) (n : nat) (v : svec) : svec :=
  map (fun a =>
    let terms := filter (fun '(b, x) => match x with Some _ => tm_stored e a b | None => false end) (enumerate v) in
    match terms with
    | [] => None
    | _ => Some (Z.sgn (fold_right (fun '(b, x) acc => match x with Some y => tm_val e a b * y + acc | None => acc end) 0 terms))%Z
    end) (iota n).
Definition svec_add (u w : svec) : svec :=
  map (fun '(x, y) => match x, y with
                      | Some a, Some b => Some (a + b)%Z
                      | Some a, None => Some a
                      | None, Some b => Some b
                      | None, None => None
                      end) (combine u w).
Fixpoint first_none (v : svec) (i : nat) : option nat :=
  match v with [] => None | None :: _ => Some i | Some _ :: tl => first_none tl (S i) end.
Fixpoint flood (fuel : nat) (e : list (nat * nat * Z)) (n : nat) (v : svec) : result svec :=
  match fuel with
  | O => Err OutOfFuel
  | S f =>
      if Nat.ltb (nstored v) n then
        let vn := step_flood e n v in
        let vn' := if Nat.eqb (nstored vn) (nstored v)
                   then match first_none vn 0 with Some s => svec_add vn (column e n s) | None => vn end
                   else vn in
        flood f e n vn'
      else Ok v
  end.

Definition flip01 (t : tri) : tri := let '(a, b, c) := t in (b, a, c).
Definition flip12 (t : tri) : tri := let '(a, b, c) := t in (a, c, b).

Section Vol.
  Context {K : Type} (o : Ops K).
  Definition tri_spat (v : list (vec3 K)) (t : tri) : K :=
    let '(a, b, c) := t in
    let v0 := getv o v a in let v1 := getv o v b in let v2 := getv o v c in
    dot o v0 (cross o (vsub o v1 v0) (vsub o v2 v0)).
  (* volume(): 0 if open; ValueError if closed and unoriented; else sum/6 *)
  Definition tria_volume (v : list (vec3 K)) (ts : list tri) : result K :=
    if negb (is_closed ts) then Ok (zero o)
    else if negb (is_oriented ts) then Err ValueError
    else Ok (div o (sumK o (map (tri_spat v) ts)) (ofZ o 6)).

  (* orient_: (new triangles, number flipped) *)
  Definition orient_stage1 (ts : list tri) : result (list tri * nat) :=
    if is_oriented ts then Ok (ts, 0)
    else
      let rows := he_rows ts in
      if negb (counts_ok rows) then Err ValueError
      else
        let e := nb_sym ts in
        let n := tdim_of e in
        match flood (S n) e n (column e n 0) with
        | Err x => Err x
        | Ok v =>
            if negb (Nat.eqb n (length ts)) then Err IndexError
            else
              let flags := map (fun x => match x with Some z => Z.ltb z 0 | None => false end) v in
              Ok (map (fun '(t, f) => if (f : bool) then flip01 t else t) (combine ts flags),
                  count_if (fun f => f) flags)
        end.
  Definition orient (v : list (vec3 K)) (ts : list tri) : result (list tri * nat) :=
    match orient_stage1 ts with
    | Err x => Err x
    | Ok (ts1, fl) =>
        match tria_volume v ts1 with
        | Err x => Err x
        | Ok vol => if ltb o vol (zero o) then Ok (map flip12 ts1, length ts1 - fl) else Ok (ts1, fl)
        end
    end.
End Vol.
