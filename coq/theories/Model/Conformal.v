(* Model/Conformal.v -- executable model of lapy/conformal.py: stereographic / inverse_stereographic (451-495),
   beltrami_coefficient (255-313), the system assembled by linear_beltrami_solver (316-411) and the entry and exit of
   spherical_conformal_map (Euler gate, final inverse south-pole projection).  Complex numbers are pairs.
   The sparse LU solve is a parameter (contract: it returns a solution of the complex system it is given).
   Definitions only. *)
From Coq Require Import List Arith Bool PeanoNat ZArith.
From LaPyV Require Import Base.Scalar Base.Vec3 Base.ListAux Base.Sparse Model.TetMesh Model.TriaAdj.
Import ListNotations.

Section Conformal.
  Context {K : Type} (o : Ops K).
  Notation V := (list (vec3 K)).
  Local Notation "a + b" := (add o a b).
  Local Notation "a - b" := (sub o a b).
  Local Notation "a * b" := (mul o a b).
  Local Notation "a / b" := (div o a b).
  Definition C := (K * K)%type.
  Definition cadd (a b : C) : C := (fst a + fst b, snd a + snd b).
  Definition cmul (a b : C) : C := (fst a * fst b - snd a * snd b, fst a * snd b + snd a * fst b).
  Definition czero : C := (zero o, zero o).
  Definition two_ := one o + one o.

  (* ---------------------------------------------------------------- stereographic pair *)
  Definition stereographic1 (u : vec3 K) : C := (vx u / (one o - vz u), vy u / (one o - vz u)).
  Definition inverse_stereographic1 (w : C) : vec3 K :=
    let x := fst w in let y := snd w in
    let z := one o + x * x + y * y in
    (two_ * x / z, two_ * y / z, (opp o (one o) + x * x + y * y) / z).
  (* the last line of spherical_conformal_map: inverse of the SOUTH pole projection x / (1 + z) *)
  Definition inverse_south1 (w : C) : vec3 K :=
    let p := inverse_stereographic1 w in (vx p, vy p, opp o (vz p)).

  (* ---------------------------------------------------------------- beltrami_coefficient *)
  Definition maxl (d : K) (l : list K) : K := fold_left (fun m x => if ltb o m x then x else m) l d.
  Definition minl (d : K) (l : list K) : K := fold_left (fun m x => if ltb o x m then x else m) l d.
  Definition planar (v : V) : bool :=
    match v with
    | [] => true
    | p :: _ => negb (ltb o (frac o 1 1000) (maxl (vz p) (map (vz (K:=K)) v) - minl (vz p) (map (vz (K:=K)) v)))
    end.
  (* per triangle: gradient operators of the planar mesh applied to one coordinate function g *)
  Definition tri_dxdy (v : V) (t : tri) (g : nat -> K) : K * K :=
    let '(a, b, c) := t in
    let p0 := getv o v a in let p1 := getv o v b in let p2 := getv o v c in
    let e0x := vx p2 - vx p1 in let e0y := vy p2 - vy p1 in
    let e1x := vx p0 - vx p2 in let e1y := vy p0 - vy p2 in
    let e2x := vx p1 - vx p0 in let e2y := vy p1 - vy p0 in
    let a2 := e0x * e1y - e0y * e1x in
    (e0y / a2 * g a + e1y / a2 * g b + e2y / a2 * g c,
     opp o (e0x / a2) * g a + opp o (e1x / a2) * g b + opp o (e2x / a2) * g c).
  Definition beltrami1 (v : V) (m : V) (t : tri) : C :=
    let '(xu, xv) := tri_dxdy v t (fun i => vx (getv o m i)) in
    let '(yu, yv) := tri_dxdy v t (fun i => vy (getv o m i)) in
    let '(zu, zv) := tri_dxdy v t (fun i => vz (getv o m i)) in
    let E := xu * xu + yu * yu + zu * zu in
    let G := xv * xv + yv * yv + zv * zv in
    let F := xu * xv + yu * yv + zu * zv in
    let den := E + G + two_ * sqrtK o (E * G - F * F) in
    ((E - G) / den, two_ * F / den).
  Definition beltrami_coefficient (v : V) (ts : list tri) (m : V) : result (list C) :=
    if negb (planar v) then Err ValueError else Ok (map (beltrami1 v m) ts).

  (* ---------------------------------------------------------------- linear_beltrami_solver: the system *)
  Definition lbs_block (v : V) (t : tri) (mu : C) : coo K :=
    let '(a, b, c) := t in
    let p0 := getv o v a in let p1 := getv o v b in let p2 := getv o v c in
    let m2 := fst mu * fst mu + snd mu * snd mu in           (* |mu|^2 *)
    let af := (one o - two_ * fst mu + m2) / (one o - m2) in
    let bf := opp o two_ * snd mu / (one o - m2) in
    let gf := (one o + two_ * fst mu + m2) / (one o - m2) in
    let ux0 := vy p1 - vy p2 in let uy0 := vx p2 - vx p1 in
    let ux1 := vy p2 - vy p0 in let uy1 := vx p0 - vx p2 in
    let ux2 := vy p0 - vy p1 in let uy2 := vx p1 - vx p0 in
    let c0 := sqrtK o (ux0 * ux0 + uy0 * uy0) in
    let c1 := sqrtK o (ux1 * ux1 + uy1 * uy1) in
    let c2 := sqrtK o (ux2 * ux2 + uy2 * uy2) in
    let s := frac o 1 2 * (c0 + c1 + c2) in
    let area2 := two_ * sqrtK o (s * (s - c0) * (s - c1) * (s - c2)) in
    let v00 := (af * ux0 * ux0 + two_ * bf * ux0 * uy0 + gf * uy0 * uy0) / area2 in
    let v11 := (af * ux1 * ux1 + two_ * bf * ux1 * uy1 + gf * uy1 * uy1) / area2 in
    let v22 := (af * ux2 * ux2 + two_ * bf * ux2 * uy2 + gf * uy2 * uy2) / area2 in
    let v01 := (af * ux1 * ux0 + bf * ux1 * uy0 + bf * ux0 * uy1 + gf * uy1 * uy0) / area2 in
    let v12 := (af * ux2 * ux1 + bf * ux2 * uy1 + bf * ux1 * uy2 + gf * uy2 * uy1) / area2 in
    let v20 := (af * ux0 * ux2 + bf * ux0 * uy2 + bf * ux2 * uy0 + gf * uy0 * uy2) / area2 in
    [(a, a, v00); (b, b, v11); (c, c, v22); (a, b, v01); (b, a, v01); (b, c, v12); (c, b, v12); (c, a, v20); (a, c, v20)].
  Definition lbs_matrix (v : V) (ts : list tri) (mus : list C) : coo K :=
    flat_map (fun '(t, mu) => lbs_block v t mu) (combine ts mus).
  (* b = -A[:, landmark] * target, b[landmark] = target; rows and columns of landmarks cleared, unit diagonal *)
  Definition lbs_rhs (A : coo K) (lm : list (nat * C)) (i : nat) : C :=
    match find (fun p => Nat.eqb (fst p) i) lm with
    | Some (_, tg) => tg
    | None =>
        fold_left (fun acc '(l, tg) => (fst acc - entry o A i l * fst tg, snd acc - entry o A i l * snd tg)) lm czero
    end.
  Definition is_lm (lm : list (nat * C)) (i : nat) : bool := existsb (fun p => Nat.eqb (fst p) i) lm.
  Definition lbs_system (A : coo K) (lm : list (nat * C)) : coo K :=
    filter (fun '(i, j, _) => negb (is_lm lm i) && negb (is_lm lm j)) A ++ map (fun p => (fst p, fst p, one o)) lm.


  (* ---------------------------------------------------------------- spherical_conformal_map: north-pole stage *)
  (* np.argmax: index of the first maximum *)
  Fixpoint argmax_from (l : list K) (i : nat) (best : nat) (bv : K) : nat :=
    match l with [] => best | x :: tl => if ltb o bv x then argmax_from tl (S i) i x else argmax_from tl (S i) best bv end.
  Definition argmax_first (l : list K) : nat := match l with [] => 0 | x :: tl => argmax_from tl 1 0 x end.
  (* rows of the three corners of the big triangle replaced by unit rows *)
  Definition north_system (A : coo K) (fixed : list nat) : coo K :=
    filter (fun '(i, _, _) => negb (memn i fixed)) A ++ map (fun i => (i, i, one o)) fixed.
  (* planar position of the third corner: first two at (0,0), (1,0) *)
  Definition bigtri_third (p0 p1 p2 : vec3 K) : C :=
    let a := vsub o p1 p0 in let b := vsub o p2 p0 in
    let sin1 := norm o (cross o a b) / (norm o a * norm o b) in
    let ori_h := norm o b * sin1 in
    let ratio := one o / norm o a in
    let y2 := ori_h * ratio in
    (sqrtK o (norm o b * norm o b * (ratio * ratio) - y2 * y2), y2).
  Definition north_rhs (n p0 p1 p2 : nat) (third : C) : list C :=
    map (fun i => if Nat.eqb i p2 then third else if Nat.eqb i p1 then (one o, zero o) else czero) (iota n).
  Definition cabs (z : C) : K := sqrtK o (fst z * fst z + snd z * snd z).
  Definition csub (a b : C) : C := (fst a - fst b, snd a - snd b).
  Definition cmean (l : list C) : C :=
    let n := ofZ o (Z.of_nat (length l)) in (sumK o (map fst l) / n, sumK o (map snd l) / n).
  Definition south_plane1 (p : vec3 K) : C := (vx p / (one o + vz p), vy p / (one o + vz p)).
  Definition tri_side_mean (z : list C) (t : tri) : K :=
    let '(a, b, c) := t in
    let za := nth a z czero in let zb := nth b z czero in let zc := nth c z czero in
    (cabs (csub za zb) + cabs (csub zb zc) + cabs (csub zc za)) / ofZ o 3.
  (* first index of the smallest key among the triangles other than the big one *)
  Fixpoint argmin_skip (keys : list K) (skip : nat) (i : nat) (best : option (nat * K)) : nat :=
    match keys with
    | [] => match best with Some (b, _) => b | None => 0 end
    | x :: tl =>
        if Nat.eqb i skip then argmin_skip tl skip (S i) best
        else match best with
             | Some (b, bv) => if ltb o x bv then argmin_skip tl skip (S i) (Some (i, x)) else argmin_skip tl skip (S i) best
             | None => argmin_skip tl skip (S i) (Some (i, x))
             end
    end.
  (* from the solver's answer z (before centring) to the rescaled planar map and the sphere points *)
  Definition north_rescale (ts : list tri) (bigtri : nat) (z0 : list C) : list C * list (vec3 K) :=
    let m := cmean z0 in
    let z := map (fun w => csub w m) z0 in
    let S := map inverse_stereographic1 z in
    let w := map south_plane1 S in
    let keys := map (fun '(a, b, c) => cabs (nth a z czero) + cabs (nth b z czero) + cabs (nth c z czero)) ts in
    let inner := argmin_skip keys bigtri 0 None in
    let north := tri_side_mean z (nth bigtri ts (0, 0, 0)) in
    let south := tri_side_mean w (nth inner ts (0, 0, 0)) in
    let f := sqrtK o (north * south) / north in
    let z' := map (fun q => (fst q * f, snd q * f)) z in
    (z', map inverse_stereographic1 z').
  (* south-pole stage input: planar points P (third coordinate 0) and the number of landmarks max(round(nv/10), 3) *)
  Definition south_points (S : list (vec3 K)) : list (vec3 K) := map (fun p => (vx p / (one o + vz p), vy p / (one o + vz p), zero o)) S.
  Definition round_half_even_div10 (n : nat) : nat :=
    let q := Nat.div n 10 in let r := Nat.modulo n 10 in
    if Nat.ltb r 5 then q else if Nat.ltb 5 r then S q else (if Nat.even q then q else S q).
  Definition fixnum (nv : nat) : nat := Nat.min nv (Nat.max (round_half_even_div10 nv) 3).


  (* ---------------------------------------------------------------- mobius_area_correction_spherical: the returned map,
     given the parameters x found by the optimiser (an oracle): f(z) = ((x0 + i x1) z + (x2 + i x3)) / ((x4 + i x5) z + (x6 + i x7)) *)
  Definition cdiv (a b : C) : C :=
    let d := fst b * fst b + snd b * snd b in
    ((fst a * fst b + snd a * snd b) / d, (snd a * fst b - fst a * snd b) / d).
  Definition mobius1 (ca cb cc cd : C) (z : C) : C := cdiv (cadd (cmul ca z) cb) (cadd (cmul cc z) cd).
  Definition mobius_result (ca cb cc cd : C) (mapping : V) : V :=
    map (fun u => inverse_stereographic1 (mobius1 ca cb cc cd (stereographic1 u))) mapping.

  Context (csolve : nat -> coo K -> list C -> result (list C)).     (* real matrix, complex right-hand side *)
  Definition linear_beltrami_solver (v : V) (ts : list tri) (mus : list C) (lm : list (nat * C)) : result (list C) :=
    if negb (planar v) then Err ValueError
    else
      let A := lbs_matrix v ts mus in
      csolve (length v) (lbs_system A lm) (map (lbs_rhs A lm) (iota (length v))).

  (* ---------------------------------------------------------------- spherical_conformal_map: entry and exit *)
  Definition scm_gate (ts : list tri) : result unit := if Z.eqb (euler ts) 2 then Ok tt else Err ValueError.
  Definition scm_final (mapping : list C) : V := map inverse_south1 mapping.
End Conformal.
