(* Model/TetMesh.v -- executable model of lapy/tet_mesh.py (definitions only).
   is_oriented (122-160), orient_ (270-310), boundary_tria (177-228),
   rm_free_vertices_ (230-268), has_free_vertices, construct_adj_sym, avg_edge_length. *)
From Coq Require Import List Arith Bool PeanoNat.
From LaPyV Require Import Base.Scalar Base.Vec3 Base.ListAux.
Import ListNotations.

Definition tet := (nat * nat * nat * nat)%type.
Definition tri := (nat * nat * nat)%type.

Section TetMesh.
  Context {K : Type} (o : Ops K).
  Notation V := (list (vec3 K)).

  (* 6 * signed volume exactly as lines 139-148 / 287-296 compute it *)
  Definition tet_vol6 (v : V) (t : tet) : K :=
    let '(a, b, c, d) := t in
    let v0 := getv o v a in let v1 := getv o v b in
    let v2 := getv o v c in let v3 := getv o v d in
    let e0 := vsub o v1 v0 in let e2 := vsub o v2 v0 in let e3 := vsub o v3 v0 in
    dot o e3 (cross o e0 e2).

  (* np.max(vol) < 0 -> False ; np.min(vol) > 0 -> True ; otherwise False *)
  Definition tet_is_oriented (v : V) (ts : list tet) : bool :=
    let vols := map (tet_vol6 v) ts in
    if forallb (fun x => ltb o x (zero o)) vols then false
    else if forallb (fun x => ltb o (zero o) x) vols then true
    else false.

  Definition tet_swap12 (t : tet) : tet := let '(a, b, c, d) := t in (a, c, b, d).
  Definition tet_neg (v : V) (t : tet) : bool := ltb o (tet_vol6 v t) (zero o).
  (* orient_: returns (new tets, number flipped) *)
  Definition tet_orient (v : V) (ts : list tet) : list tet * nat :=
    (map (fun t => if tet_neg v t then tet_swap12 t else t) ts,
     count_if (tet_neg v) ts).

  (* faces in the code's order: block k holds face k of every tet *)
  Definition face0 (t : tet) : tri := let '(a, b, c, d) := t in (d, b, c).
  Definition face1 (t : tet) : tri := let '(a, b, c, d) := t in (c, a, d).
  Definition face2 (t : tet) : tri := let '(a, b, c, d) := t in (b, d, a).
  Definition face3 (t : tet) : tri := let '(a, b, c, d) := t in (a, c, b).
  Definition all_faces (ts : list tet) : list tri :=
    map face0 ts ++ map face1 ts ++ map face2 ts ++ map face3 ts.
End TetMesh.

Definition sort3 (f : tri) : tri :=
  let '(a, b, c) := f in
  let lo := Nat.min a (Nat.min b c) in
  let hi := Nat.max a (Nat.max b c) in
  (lo, (a + b + c) - lo - hi, hi).

(* np.unique(allts, axis=0, return_index, return_counts), then count == 1:
   result rows come in lexicographic order of the sorted triple *)
Definition keyed_faces (ts : list tet) : list (tri * nat) :=
  map (fun '(i, f) => (sort3 f, i)) (enumerate (all_faces ts)).
Definition face_groups (ts : list tet) : list (tri * nat * nat) :=
  group_sorted tri_eqb
    (sort_by (fun a b => tri_leb (fst a) (fst b)) (keyed_faces ts)).
Definition boundary_face_idx (ts : list tet) : list nat :=
  map (fun g => snd (fst g)) (filter (fun g => Nat.eqb (snd g) 1) (face_groups ts)).
Definition tet_boundary_tria (ts : list tet) : list tri :=
  map (fun i => nth i (all_faces ts) (0, 0, 0)) (boundary_face_idx ts).
(* owner tet of each boundary face: np.tile(arange(T),4)[index] = index mod T *)
Definition tet_boundary_owner (ts : list tet) : list nat :=
  map (fun i => i mod (length ts)) (boundary_face_idx ts).

(* rm_free_vertices_ / has_free_vertices (shared with the triangle model through
   the flattened index list) *)
Definition tet_flat (ts : list tet) : list nat :=
  flat_map (fun '(a, b, c, d) => [a; b; c; d]) ts.
Definition used_mask (vnum : nat) (flat : list nat) : list bool :=
  map (fun i => memn i flat) (iota vnum).
Definition vkeep_of (mask : list bool) : list nat :=
  map fst (filter snd (enumerate mask)).
Definition vdel_of (mask : list bool) : list nat :=
  map fst (filter (fun p => negb (snd p)) (enumerate mask)).
(* tlookup = cumsum(vkeep) - 1 *)
Fixpoint cumsum_mask (mask : list bool) (acc : nat) : list nat :=
  match mask with
  | [] => []
  | b :: tl => let acc' := if b then S acc else acc in (acc' - 1) :: cumsum_mask tl acc'
  end.
Definition has_free_vertices (vnum : nat) (flat : list nat) : bool :=
  negb (Nat.eqb vnum (length (unique_nat flat))).
