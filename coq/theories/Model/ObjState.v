(* Model/ObjState.v -- TriaMesh / TetMesh objects as state machines over the public in-place
   operations (definitions only).  The state records, besides v and t, the triangle list and vertex
   count from which the derived adjacency matrices were last built (adj_t, adj_n): an operation that
   ends in self.__init__ rebuilds them, one that only assigns self.v leaves them alone.  Which
   operations rebuild is read off the source on every run by harness/effects_extract.py (Gen/Effects.v). *)
From Coq Require Import List Arith Bool PeanoNat ZArith.
From LaPyV Require Import Base.Scalar Base.Vec3 Base.ListAux Base.Sparse Model.TetMesh Model.TriaAdj Model.TriaOrient
  Model.TriaRefine Model.Fem Model.TriaGeom Model.TriaFunc.
Import ListNotations.

(* ---- rm_free_vertices_ (identical code in both classes), on the flattened index list *)
Definition rm_free_plan (vnum : nat) (flat : list nat) : result (option (list bool * list nat * list nat * list nat)) :=
  (* None = nothing to delete; Some (mask, vkeep, vdel, tlookup) *)
  if Nat.leb vnum (maxn flat) then Err ValueError
  else
    let mask := used_mask vnum flat in
    let vdel := vdel_of mask in
    match vdel with
    | [] => Ok None
    | _ => Ok (Some (mask, vkeep_of mask, vdel, cumsum_mask mask 0))
    end.
Definition keep_by_mask {A} (mask : list bool) (l : list A) : list A :=
  map snd (filter (fun p => fst p) (combine mask l)).

Section Obj.
  Context {K : Type} (o : Ops K).
  Notation V := (list (vec3 K)).

  (* ---- constructor: np.array copies; transposition rule; the three ValueErrors *)
  (* inputs as row lists so that wrong widths and 3 x n layouts can be expressed *)
  Definition transpose_rows {A} (d : A) (rows : list (list A)) : list (list A) :=
    match rows with
    | [] => []
    | r0 :: _ => map (fun j => map (fun r => nth j r d) rows) (iota (length r0))
    end.
  Definition maybe_transpose {A} (d : A) (rows : list (list A)) : list (list A) :=
    match rows with
    | [] => []
    | r0 :: _ => if Nat.ltb (length rows) (length r0) then transpose_rows d rows else rows
    end.
  Definition tria_ctor (vrows : list (list K)) (trows : list (list nat)) : result (V * list tri) :=
    let v := maybe_transpose (zero o) vrows in
    let t := maybe_transpose 0 trows in
    let vnum := Nat.max (length v) (match v with r :: _ => length r | [] => 0 end) in
    if Nat.leb vnum (maxn (concat t)) then Err ValueError
    else if negb (forallb (fun r => Nat.eqb (length r) 3) t) then Err ValueError
    else if negb (forallb (fun r => Nat.eqb (length r) 3) v) then Err ValueError
    else Ok (map (fun r => (nth 0 r (zero o), nth 1 r (zero o), nth 2 r (zero o))) v,
             map (fun r => (nth 0 r 0, nth 1 r 0, nth 2 r 0)) t).

  (* ---- triangle mesh object *)
  Record tstate := mkT { sv : V; st : list tri; adj_t : list tri; adj_n : nat }.
  Definition tfresh (v : V) (t : list tri) : tstate := mkT v t t (length v).
  Inductive top := OOrient | ORefine (k : nat) | ORmFree | ONormalize | OSmooth (k : nat) | OOffset (d : K).
  Inductive tout := RNat (n : nat) | RKeep (keep del : list nat) | RNone.

  Definition tstep (s : tstate) (op : top) : result (tstate * tout) :=
    match op with
    | OOrient =>
        match orient o (sv s) (st s) with
        | Err e => Err e
        | Ok (t', n) =>
            (* orient_ calls self.__init__ after the flood (mesh was not oriented) and after the global
               flip (negative volume); otherwise nothing is assigned *)
            let reinit := negb (is_oriented (st s)) || negb (Nat.eqb n 0) in
            Ok (mkT (sv s) t' (if reinit then t' else adj_t s)
                    (if reinit then length (sv s) else adj_n s), RNat n)
        end
    | ORefine k =>
        match k with
        | O => Ok (s, RNone)
        | _ => let '(v', t') := refine o k (sv s, st s) in Ok (mkT v' t' t' (length v'), RNone)
        end
    | ORmFree =>
        match rm_free_plan (length (sv s)) (tri_flat (st s)) with
        | Err e => Err e
        | Ok None => Ok (s, RKeep (iota (length (sv s))) [])
        | Ok (Some (mask, vkeep, vdel, look)) =>
            let v' := keep_by_mask mask (sv s) in
            let t' := map (fun '(a, b, c) => (nth a look 0, nth b look 0, nth c look 0)) (st s) in
            Ok (mkT v' t' t' (length v'), RKeep vkeep vdel)
        end
    | ONormalize => Ok (mkT (normalize o (sv s) (st s)) (st s) (adj_t s) (adj_n s), RNone)
    | OSmooth k =>
        match smooth_mesh o (sv s) (st s) (adj_t s) k with
        | Err e => Err e
        | Ok v' => Ok (mkT v' (st s) (adj_t s) (adj_n s), RNone)
        end
    | OOffset d =>
        (* vertex_normals reads adj_dir (built from adj_t) for its orientation test *)
        if negb (is_oriented (adj_t s)) then Err ValueError
        else match normal_offset o d (sv s) (st s) with
             | Err e => Err e
             | Ok v' => Ok (mkT v' (st s) (adj_t s) (adj_n s), RNone)
             end
    end.

  (* queries as the live object answers them (from the stored adjacency) *)
  Definition q_closed (s : tstate) : bool := is_closed (adj_t s).
  Definition q_manifold (s : tstate) : bool := is_manifold (adj_t s).
  Definition q_oriented (s : tstate) : bool := is_oriented (adj_t s).
  Definition q_euler (s : tstate) : Z :=
    (Z.of_nat (length (unique_nat (tri_flat (st s)))) - Z.of_nat (length (unique_pairs (sym_keys (adj_t s))) / 2)
     + Z.of_nat (length (st s)))%Z.
  Definition q_vdeg (s : tstate) : list nat := vertex_degrees (adj_n s) (adj_t s).
  Definition q_loops (s : tstate) : result (list (list nat)) := boundary_loops (adj_t s).

  (* run a history; the first failing operation leaves the object as it was (all operations
     raise before they assign) *)
  Fixpoint trun (s : tstate) (ops : list top) : tstate * list (result tout) :=
    match ops with
    | [] => (s, [])
    | op :: tl =>
        match tstep s op with
        | Err e => let '(s', outs) := trun s tl in (s', Err e :: outs)
        | Ok (s1, r) => let '(s', outs) := trun s1 tl in (s', Ok r :: outs)
        end
    end.

  (* ---- tetra mesh object *)
  Record ttstate := mkTT { tv : V; tt : list tet; tadj_t : list tet; tadj_n : nat }.
  Definition ttfresh (v : V) (t : list tet) : ttstate := mkTT v t t (length v).
  Inductive ttop := TOrient | TRmFree.
  Definition ttstep (s : ttstate) (op : ttop) : result (ttstate * tout) :=
    match op with
    | TOrient =>
        let '(t', n) := tet_orient o (tv s) (tt s) in
        match n with
        | O => Ok (s, RNat 0)
        | _ => Ok (mkTT (tv s) t' t' (length (tv s)), RNat n)
        end
    | TRmFree =>
        match rm_free_plan (length (tv s)) (tet_flat (tt s)) with
        | Err e => Err e
        | Ok None => Ok (s, RKeep (iota (length (tv s))) [])
        | Ok (Some (mask, vkeep, vdel, look)) =>
            let v' := keep_by_mask mask (tv s) in
            let t' := map (fun '(a, b, c, d) => (nth a look 0, nth b look 0, nth c look 0, nth d look 0)) (tt s) in
            (* after fix 6f3c92a: self.__init__(vnew, tnew) *)
            Ok (mkTT v' t' t' (length v'), RKeep vkeep vdel)
        end
    end.
End Obj.
