(* Model/LevelSet.v -- executable model of TriaMesh.level_length (1134-1198), __reduce_edges_to_path (1200-1283),
   __resample_polygon / __iterative_resample_polygon (1285-1311) and level_path (1313-1400) of lapy/tria_mesh.py.
   Definitions only.  scipy.sparse.csgraph.shortest_path + argsort is modelled by a walk along the path graph
   (identical on every graph whose nodes have at most two neighbours; [max_degree] lets the caller see when that
   is not the case). *)
From Coq Require Import List Arith Bool PeanoNat ZArith.
From LaPyV Require Import Base.Scalar Base.Vec3 Base.ListAux Model.TetMesh Model.TriaAdj Model.TriaRefine.
Import ListNotations.

Section LevelSet.
  Context {K : Type} (o : Ops K).
  Notation V := (list (vec3 K)).
  Local Notation "a + b" := (add o a b).
  Local Notation "a - b" := (sub o a b).
  Local Notation "a * b" := (mul o a b).
  Local Notation "a / b" := (div o a b).

  Definition fval (f : list K) (i : nat) : K := nth i f (zero o).
  (* vfunc[i] > level *)
  Definition above (f : list K) (lvl : K) (i : nat) : bool := ltb o lvl (fval f i).
  Definition b2n (b : bool) : nat := if b then 1 else 0.

  (* a triangle is kept when one or two of its corners are above the level; rows with two are inverted,
     argmax picks the first True: the result is (isolated corner, its cyclic successor, the one after) *)
  Definition crossing (f : list K) (lvl : K) (t : tri) : option (nat * nat * nat) :=
    let '(a, b, c) := t in
    let ia := above f lvl a in let ib := above f lvl b in let ic := above f lvl c in
    let cnt := (b2n ia + b2n ib + b2n ic)%nat in
    if Nat.eqb cnt 1 || Nat.eqb cnt 2 then
      let inv := Nat.ltb 1 cnt in
      let ja := xorb inv ia in let jb := xorb inv ib in
      if ja then Some (a, b, c) else if jb then Some (b, c, a) else Some (c, a, b)
    else None.

  (* point at the level on the edge g0 -> g1 *)
  Definition edge_point (v : V) (f : list K) (lvl : K) (g0 g1 : nat) : vec3 K :=
    let xl := (lvl - fval f g0) / (fval f g1 - fval f g0) in
    vadd o (vscale o (one o - xl) (getv o v g0)) (vscale o xl (getv o v g1)).
  Definition dist (p q : vec3 K) : K := norm o (vsub o p q).

  Definition seg_len (v : V) (f : list K) (lvl : K) (g : nat * nat * nat) : K :=
    let '(g0, g1, g2) := g in dist (edge_point v f lvl g0 g1) (edge_point v f lvl g0 g2).
  Fixpoint crossings (f : list K) (lvl : K) (ts : list tri) : list (nat * nat * nat) :=
    match ts with
    | [] => []
    | t :: tl => match crossing f lvl t with Some g => g :: crossings f lvl tl | None => crossings f lvl tl end
    end.
  Definition level_length_one (v : V) (ts : list tri) (f : list K) (lvl : K) : K :=
    sumK o (map (seg_len v f lvl) (crossings f lvl ts)).
  (* one level or an array of levels; a function with more than one column is rejected *)
  Definition level_length (v : V) (ts : list tri) (ncols : nat) (f : list K) (lvls : list K) : result (list K) :=
    if negb (Nat.eqb ncols 1) then Err ValueError else Ok (map (level_length_one v ts f) lvls).

  (* ------------------------------------------------------------------ level_path *)
  Fixpoint crossings_idx (f : list K) (lvl : K) (ts : list tri) (i : nat) : list (nat * (nat * nat * nat)) :=
    match ts with
    | [] => []
    | t :: tl => match crossing f lvl t with
                 | Some g => (i, g) :: crossings_idx f lvl tl (S i)
                 | None => crossings_idx f lvl tl (S i)
                 end
    end.
  Definition skey (a b : nat) : nat * nat := if Nat.leb a b then (a, b) else (b, a).
  Definition idx_or0 (k : nat * nat) (l : list (nat * nat)) : nat := match index_of k l 0 with Some i => i | None => 0 end.

  (* neighbours of node x in the undirected multigraph given by the edge list *)
  Definition nbr_edges (edges : list (nat * nat)) (x : nat) : list nat :=
    flat_map (fun '(a, b) => (if Nat.eqb a x then [b] else []) ++ (if Nat.eqb b x then [a] else [])) edges.
  Definition degree (edges : list (nat * nat)) (x : nat) : nat := List.length (nbr_edges edges x).
  Definition n_nodes (edges : list (nat * nat)) : nat := S (maxn (flat_map (fun '(a, b) => [a; b]) edges)).
  Definition max_degree (edges : list (nat * nat)) : nat := maxn (map (degree edges) (iota (n_nodes edges))).
  Fixpoint walk (edges : list (nat * nat)) (fuel : nat) (cur : nat) (visited : list nat) : list nat :=
    match fuel with
    | O => []
    | S fu => match filter (fun y => negb (memn y visited)) (nbr_edges edges cur) with
              | [] => []
              | y :: _ => y :: walk edges fu y (y :: visited)
              end
    end.
  (* index of the edge joining two nodes *)
  Fixpoint edge_between (edges : list (nat * nat)) (x y : nat) (i : nat) : option nat :=
    match edges with
    | [] => None
    | (a, b) :: tl => if (Nat.eqb a x && Nat.eqb b y) || (Nat.eqb a y && Nat.eqb b x) then Some i
                      else edge_between tl x y (S i)
    end.
  Fixpoint consecutive {A} (l : list A) : list (A * A) :=
    match l with a :: ((b :: _) as tl) => (a, b) :: consecutive tl | _ => [] end.
  Definition reduce_edges_to_path (edges : list (nat * nat)) : result (list nat * list nat) :=
    let n := n_nodes edges in
    let endpoints := filter (fun x => Nat.eqb (degree edges x) 1) (iota n) in
    match endpoints with
    | [s; _] =>
        let path := s :: walk edges n s [s] in
        if negb (Nat.eqb (List.length path) n) then Err ValueError
        else Ok (path, map (fun '(x, y) => match edge_between edges x y 0 with Some i => i | None => 0 end) (consecutive path))
    | _ => Err ValueError
    end.

  (* np.interp with increasing xp: x below/above the range gives the end values *)
  Fixpoint interp1 (xp : list K) (fp : list K) (x : K) : K :=
    match xp, fp with
    | x0 :: ((x1 :: _) as xtl), f0 :: ((f1 :: _) as ftl) =>
        if ltb o x x1 then
          (if leb o x x0 then f0 else ((f1 - f0) / (x1 - x0)) * (x - x0) + f0)
        else interp1 xtl ftl x
    | _, f0 :: _ => f0
    | _, _ => zero o
    end.
  Definition linspace0 (stop : K) (n : nat) : list K :=
    match n with
    | O => []
    | S O => [zero o]
    | S m => let step := stop / ofZ o (Z.of_nat m) in
             map (fun i => ofZ o (Z.of_nat i) * step + zero o) (iota m) ++ [stop]
    end.
  Fixpoint cumsum (acc : K) (l : list K) : list K :=
    match l with [] => [] | x :: tl => (acc + x) :: cumsum (acc + x) tl end.
  Definition resample_polygon (p : V) (n : nat) : V :=
    let seg := map (fun '(a, b) => sqrtK o (norm2 o (vsub o b a))) (consecutive p) in
    let d := cumsum (zero o) (zero o :: seg) in
    let ds := linspace0 (last d (zero o)) n in
    map (fun x => (interp1 d (map (vx (K:=K)) p) x, interp1 d (map (vy (K:=K)) p) x, interp1 d (map (vz (K:=K)) p) x)) ds.
  Definition iterative_resample (p : V) (n : nat) : V := resample_polygon (resample_polygon (resample_polygon p n) n) n.

  Record lpath := { lp_points : V; lp_length : K; lp_tria : list nat; lp_maxdeg : nat }.

  (* everything up to the ordered, not yet merged path: points in path order, the triangle of every segment, the length *)
  Record lraw := { lr_points : V; lr_tria : list nat; lr_length : K; lr_maxdeg : nat }.
  Definition level_path_raw (v : V) (ts : list tri) (f : list K) (lvl : K) : result lraw :=
    let cr := crossings_idx f lvl ts 0 in
    let gg1 := map (fun '(_, (g0, g1, _)) => skey g0 g1) cr in
    let gg2 := map (fun '(_, (g0, _, g2)) => skey g0 g2) cr in
    let uniq := unique_pairs (gg1 ++ gg2) in
    let p := map (fun '(a, b) => edge_point v f lvl a b) uniq in
    let edges := map (fun '(k1, k2) => (idx_or0 k1 uniq, idx_or0 k2 uniq)) (combine gg1 gg2) in
    let llength := sumK o (map (fun '(i, j) => dist (getv o p i) (getv o p j)) edges) in
    match reduce_edges_to_path edges with
    | Err e => Err e
    | Ok (path, eidx) =>
        Ok {| lr_points := map (getv o p) path; lr_tria := map (fun e => fst (nth e cr (0, (0, 0, 0)))) eidx;
              lr_length := llength; lr_maxdeg := max_degree edges |}
    end.

  (* eps = 1e-6 on squared distances *)
  Definition level_path (eps : K) (v : V) (ts : list tri) (ncols : nat) (f : list K) (lvl : K) (get_tria_idx : bool) (n_points : nat)
    : result lpath :=
    if negb (Nat.eqb ncols 1) then Err ValueError
    else
      match level_path_raw v ts f lvl with
      | Err e => Err e
      | Ok r =>
          let path3d := lr_points r in
          let dd := map (fun '(a, b) => norm2 o (vsub o a b)) (consecutive path3d) ++ [one o] in
          let keep := map (fun d => ltb o eps d) dd in
          let pts := map fst (filter snd (combine path3d keep)) in
          let tri_kept := map fst (filter snd (combine (lr_tria r) keep)) in
          if get_tria_idx then
            (if Nat.eqb n_points 0 then Ok {| lp_points := pts; lp_length := lr_length r; lp_tria := tri_kept; lp_maxdeg := lr_maxdeg r |}
             else Err ValueError)
          else
            Ok {| lp_points := if Nat.eqb n_points 0 then pts else iterative_resample pts n_points;
                  lp_length := lr_length r; lp_tria := []; lp_maxdeg := lr_maxdeg r |}
      end.
End LevelSet.
