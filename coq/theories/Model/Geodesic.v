(* Model/Geodesic.v -- executable model of compute_geodesic_f / tria_compute_geodesic_f / tria_compute_rotated_f
   (lapy/diffgeo.py 101-165, 335-374): right-hand sides, the Poisson call with the mass replaced by the identity,
   the min-shift and the pin at vertex 0.  The sparse solve is the oracle of Model/Poisson.v.  Definitions only. *)
From Coq Require Import List Arith Bool PeanoNat ZArith.
From LaPyV Require Import Base.Scalar Base.Vec3 Base.ListAux Base.Sparse Model.TetMesh Model.TriaAdj Model.Fem Model.TriaGeom
  Model.DiffGeo Model.Poisson.
Import ListNotations.

Section Geodesic.
  Context {K : Type} (o : Ops K).
  Context (solve : nat -> coo K -> list K -> result (list K)).

  (* gradf / sqrt((gradf**2).sum(1)) followed by nan_to_num: a zero gradient (0/0) becomes 0 *)
  Definition unit_or_zero (g : vec3 K) : vec3 K :=
    let l := norm o g in if eqb o l (zero o) then zero3 o else vdivs o g l.
  Definition eye (n : nat) : coo K := map (fun i => (i, i, one o)) (iota n).
  Definition pad (n : nat) (l : list K) : list K := map (fun k => nth k l (zero o)) (iota n).

  Definition geodesic_rhs_tria (v : list (vec3 K)) (ts : list tri) (f : list K) : list K :=
    tria_compute_divergence o v ts (map (unit_or_zero) (tria_compute_gradient o v ts f)).
  Definition geodesic_rhs_tet (v : list (vec3 K)) (ts : list tet) (f : list K) : list K :=
    tet_compute_divergence o v ts (map (unit_or_zero) (tet_compute_gradient o v ts f)).
  Definition rotated_rhs (v : list (vec3 K)) (ts : list tri) (f : list K) : list K :=
    tria_compute_divergence o v ts
      (map (fun '(n, g) => cross o n g) (combine (tria_normals o v ts) (tria_compute_gradient o v ts f))).

  Definition min_list (l : list K) : K := match l with [] => zero o | x :: tl => fold_left (minK o) tl x end.
  Definition shift_min (l : list K) : list K := let m := min_list l in map (fun x => sub o x m) l.

  (* both entry points: Solver(geom) stiffness, mass := identity, poisson(divf), vf -= min(vf) *)
  Definition geodesic_tria (v : list (vec3 K)) (ts : list tri) (f : list K) : result (list K) :=
    let n := length v in
    match poisson o solve n (fem_tria_A o v ts) (eye n) (HVector (geodesic_rhs_tria v ts f)) None None with
    | Err e => Err e
    | Ok x => Ok (shift_min x)
    end.
  Definition geodesic_tet (v : list (vec3 K)) (ts : list tet) (f : list K) : result (list K) :=
    let n := length v in
    match poisson o solve n (fem_tet_A o v ts) (eye n) (HVector (geodesic_rhs_tet v ts f)) None None with
    | Err e => Err e
    | Ok x => Ok (shift_min x)
    end.
  (* rotated function: Dirichlet pin (vertex 0, value 0) *)
  Definition rotated_tria (v : list (vec3 K)) (ts : list tri) (f : list K) : result (list K) :=
    let n := length v in
    poisson o solve n (fem_tria_A o v ts) (eye n) (HVector (rotated_rhs v ts f)) (Some ([0], [zero o])) None.
End Geodesic.
