(* Model/TriaFunc.v -- executable model of map_tfunc_to_vfunc (1016-1053), map_vfunc_to_tfunc (1055-1074),
   smooth_vfunc (1076-1110), smooth_ (1112-1122) of lapy/tria_mesh.py.  Definitions only.
   Multi-column functions are lists of columns. *)
From Coq Require Import List Arith Bool PeanoNat ZArith.
From LaPyV Require Import Base.Scalar Base.Vec3 Base.ListAux Base.Sparse Model.TetMesh Model.TriaAdj
  Model.TriaOrient Model.Fem Model.TriaGeom.
Import ListNotations.

Section TriaFunc.
  Context {K : Type} (o : Ops K).
  Notation V := (list (vec3 K)).
  Local Notation "a + b" := (add o a b).
  Local Notation "a * b" := (mul o a b).
  Local Notation "a / b" := (div o a b).

  (* one column; n = number of vertices (v.shape[0]) *)
  Definition tfunc_to_vfunc_col (n : nat) (v : V) (ts : list tri) (weighted : bool) (f : list K) : list K :=
    let g := if weighted then map (fun '(x, a) => x * a) (combine f (tria_areas o v ts)) else f in
    let l := map (fun '(t, x) => let '(a, _, _) := t in (a, x)) (combine ts g) ++
             map (fun '(t, x) => let '(_, b, _) := t in (b, x)) (combine ts g) ++
             map (fun '(t, x) => let '(_, _, c) := t in (c, x)) (combine ts g) in
    map (fun k => fold_left (fun acc '(i, x) => if Nat.eqb i k then acc + x else acc) l (zero o) / ofZ o 3) (iota n).
  Definition map_tfunc_to_vfunc (n : nat) (v : V) (ts : list tri) (weighted : bool) (cols : list (list K)) : result (list (list K)) :=
    if existsb (fun c => negb (Nat.eqb (length c) (length ts))) cols then Err ValueError
    else Ok (map (tfunc_to_vfunc_col n v ts weighted) cols).

  Definition vfunc_to_tfunc_col (ts : list tri) (f : list K) : list K :=
    let g := map (fun x => x / ofZ o 3) f in
    map (fun '(a, b, c) => nth a g (zero o) + nth b g (zero o) + nth c g (zero o)) ts.
  Definition map_vfunc_to_tfunc (n : nat) (ts : list tri) (cols : list (list K)) : result (list (list K)) :=
    if existsb (fun c => negb (Nat.eqb (length c) n)) cols then Err ValueError
    else Ok (map (vfunc_to_tfunc_col ts) cols).

  (* smoothing operator rows: for vertex i the list of (j, weight) over its distinct neighbours j
     (stored keys of the adjacency the object holds), weight = a_i * (1 / sum_j a_i) *)
  Definition nbrs (adj : list tri) (i : nat) : list nat :=
    map snd (filter (fun k => Nat.eqb (fst k) i) (unique_pairs (sym_keys adj))).
  Definition smooth_row (va : list K) (adj : list tri) (i : nat) : list (nat * K) :=
    let a := nth i va (zero o) in
    let nb := nbrs adj i in
    let rowsum := sumK o (map (fun _ => one o * a) nb) in
    map (fun j => (j, (one o * a) * (one o / rowsum))) nb.
  Definition smooth_once (va : list K) (adj : list tri) (n : nat) (f : list K) : list K :=
    map (fun i => fold_left (fun acc '(j, w) => acc + w * nth j f (zero o)) (smooth_row va adj i) (zero o)) (iota n).
  Fixpoint iter_n {A} (k : nat) (g : A -> A) (x : A) : A := match k with O => x | S m => iter_n m g (g x) end.
  (* max(n,1) applications *)
  Definition smooth_col (va : list K) (adj : list tri) (n : nat) (k : nat) (f : list K) : list K :=
    iter_n (Nat.max k 1) (smooth_once va adj n) f.
  (* adj = triangles the adjacency was built from; ts = current triangles (vertex areas use current v, t) *)
  Definition smooth_vfunc (n : nat) (v : V) (ts adj : list tri) (k : nat) (cols : list (list K)) : result (list (list K)) :=
    if existsb (fun c => negb (Nat.eqb (length c) n)) cols then Err ValueError
    (* adj.multiply(areas): vertex_areas has max-index+1 entries; a shorter vector is an "inconsistent shapes" ValueError *)
    else if negb (Nat.eqb (S (maxn (tri_flat ts))) n) then Err ValueError
    else Ok (map (smooth_col (vertex_areas o v ts) adj n k) cols).
  Definition cols_of (v : V) : list (list K) := [map (vx (K:=K)) v; map (vy (K:=K)) v; map (vz (K:=K)) v].
  Definition v_of_cols (c : list (list K)) : V :=
    match c with
    | [xs; ys; zs] => map (fun '(x, (y, z)) => (x, y, z)) (combine xs (combine ys zs))
    | _ => []
    end.
  Definition smooth_mesh (v : V) (ts adj : list tri) (k : nat) : result V :=
    match smooth_vfunc (length v) v ts adj k (cols_of v) with
    | Err e => Err e
    | Ok c => Ok (v_of_cols c)
    end.
End TriaFunc.
