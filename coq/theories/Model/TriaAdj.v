(* Model/TriaAdj.v -- executable model of the connectivity queries of lapy/tria_mesh.py
   (definitions only): _construct_adj_sym/_dir (135-183), construct_adj_dir_tidx (185-209),
   is_closed/is_manifold/is_oriented (211-246), euler (248-265), vertex_degrees (326-335),
   has_free_vertices (447-457), boundary_loops (491-542), edges (573-622).
   Sparse matrices are key lists with "sum the values of equal keys" semantics. *)
From Coq Require Import List Arith Bool PeanoNat ZArith.
From LaPyV Require Import Base.ListAux Model.TetMesh.
Import ListNotations.

Inductive err := ValueError | IndexError | OutOfFuel | OtherError.
Inductive result (A : Type) := Ok (a : A) | Err (e : err).
Arguments Ok {A} a. Arguments Err {A} e.

Definition tri_verts (t : tri) : list nat := let '(a, b, c) := t in [a; b; c].
Definition tri_flat (ts : list tri) : list nat := flat_map tri_verts ts.
(* (i,j) keys of adj_dir in stacking order: (t0,t1),(t1,t2),(t2,t0) *)
Definition hedges1 (t : tri) : list (nat * nat) := let '(a, b, c) := t in [(a, b); (b, c); (c, a)].
Definition hedges (ts : list tri) : list (nat * nat) := flat_map hedges1 ts.
(* keys of adj_sym in stacking order *)
Definition sym1 (t : tri) : list (nat * nat) :=
  let '(a, b, c) := t in [(a, b); (b, a); (b, c); (c, b); (c, a); (a, c)].
Definition sym_keys (ts : list tri) : list (nat * nat) := flat_map sym1 ts.

Definition count_pair (k : nat * nat) (l : list (nat * nat)) : nat := count_if (pair_eqb k) l.
Definition dir_count (ts : list tri) (i j : nat) : nat := count_pair (i, j) (hedges ts).
Definition sym_count (ts : list tri) (i j : nat) : nat := count_pair (i, j) (sym_keys ts).

(* 1 not in adj_sym.data *)
Definition is_closed (ts : list tri) : bool :=
  negb (existsb (fun k => Nat.eqb (count_pair k (sym_keys ts)) 1) (sym_keys ts)).
(* np.max(adj_sym.data) <= 2 *)
Definition is_manifold (ts : list tri) : bool :=
  forallb (fun k => Nat.leb (count_pair k (sym_keys ts)) 2) (sym_keys ts).
(* np.max(adj_dir.data) == 1 *)
Definition is_oriented (ts : list tri) : bool :=
  match ts with
  | [] => false
  | _ => forallb (fun k => Nat.eqb (count_pair k (hedges ts)) 1) (hedges ts)
  end.

(* distinct keys, lexicographically sorted (sparse structure) *)
Fixpoint dedup_pairs (l : list (nat * nat)) : list (nat * nat) :=
  match l with
  | [] => []
  | x :: tl => match tl with
               | [] => [x]
               | y :: _ => if pair_eqb x y then dedup_pairs tl else x :: dedup_pairs tl
               end
  end.
Definition unique_pairs (l : list (nat * nat)) : list (nat * nat) := dedup_pairs (PairSort.sort l).

(* euler: len(unique(t)) - int(nnz/2) + T *)
Definition euler (ts : list tri) : Z :=
  (Z.of_nat (length (unique_nat (tri_flat ts))) - Z.of_nat (length (unique_pairs (sym_keys ts)) / 2)
   + Z.of_nat (length ts))%Z.

(* vertex_degrees (after fix cdab18b): stored entries per column of adj_sym, length n *)
Definition vertex_degrees (n : nat) (ts : list tri) : list nat :=
  let keys := unique_pairs (sym_keys ts) in
  map (fun j => count_if (fun k => Nat.eqb (snd k) j) keys) (iota n).

Definition tria_has_free_vertices (n : nat) (ts : list tri) : bool := has_free_vertices n (tri_flat ts).

(* ---- boundary_loops *)
Definition min_opt (l : list nat) : option nat :=
  match l with [] => None | x :: tl => Some (fold_right Nat.min x tl) end.
(* first stored row of CSC column c = smallest i with (i,c) stored *)
Definition col_first (adj : list (nat * nat)) (c : nat) : option nat :=
  min_opt (map fst (filter (fun k => Nat.eqb (snd k) c) adj)).
Definition first_col (adj : list (nat * nat)) : option nat := min_opt (map snd adj).
Fixpoint remove_pair (k : nat * nat) (l : list (nat * nat)) : list (nat * nat) :=
  match l with [] => [] | x :: tl => if pair_eqb k x then tl else x :: remove_pair k tl end.

(* inner while: walk predecessors until back at the start; visited = entries zeroed *)
Fixpoint walk_loop (fuel : nat) (adj : list (nat * nat)) (start cur : nat) (acc : list nat)
    (visited : list (nat * nat)) : result (list nat * list (nat * nat)) :=
  match fuel with
  | O => Err OutOfFuel
  | S f =>
      if Nat.eqb cur start then Ok (rev acc, visited)
      else match col_first adj cur with
           | None => Err IndexError
           | Some p => walk_loop f adj start p (cur :: acc) ((p, cur) :: visited)
           end
  end.
Fixpoint loops_from (fuel : nat) (adj : list (nat * nat)) (acc : list (list nat)) : result (list (list nat)) :=
  match fuel with
  | O => Err OutOfFuel
  | S f =>
      match first_col adj with
      | None => Ok (rev acc)
      | Some c0 =>
          match col_first adj c0 with
          | None => Err IndexError
          | Some p0 =>
              match walk_loop (S (length adj)) adj c0 p0 [c0] [(p0, c0)] with
              | Err e => Err e
              | Ok (loop, visited) =>
                  loops_from f (fold_left (fun a k => remove_pair k a) visited adj) (loop :: acc)
              end
          end
      end
  end.
Definition boundary_loops (ts : list tri) : result (list (list nat)) :=
  if negb (is_manifold ts) then Err ValueError
  else if is_closed ts then Ok []
  else if negb (is_oriented ts) then Err ValueError
  else
    let adj := filter (fun k => negb (Nat.eqb (count_pair k (sym_keys ts)) 2)) (unique_pairs (hedges ts)) in
    loops_from (S (length adj)) adj [].

(* ---- edges() on oriented meshes *)
(* triangle index holding half-edge (i,j) (first occurrence; unique when oriented) *)
Fixpoint find_tri (k : nat * nat) (ts : list tri) (idx : nat) : option nat :=
  match ts with
  | [] => None
  | t :: tl => if existsb (pair_eqb k) (hedges1 t) then Some idx else find_tri k tl (S idx)
  end.
Definition swap_pair (k : nat * nat) : nat * nat := (snd k, fst k).
Definition edges_inner (ts : list tri) : result (list (nat * nat) * list (nat * nat)) :=
  if negb (is_oriented ts) then Err ValueError
  else
    let keys := filter (fun k => Nat.ltb (fst k) (snd k) && Nat.eqb (count_pair k (sym_keys ts)) 2)
                       (unique_pairs (hedges ts)) in
    Ok (keys, map (fun k => (match find_tri k ts 0 with Some a => a | None => 0 end,
                             match find_tri (swap_pair k) ts 0 with Some a => a | None => 0 end)) keys).
(* boundary half-edges in the order np.nonzero lists the mask adj_sym == 1 (row-major, i.e.
   lexicographic in (source, target)) with their triangle *)
Definition edges_boundary (ts : list tri) : list (nat * nat) * list nat :=
  let b := filter (fun k => Nat.eqb (count_pair k (sym_keys ts)) 1) (unique_pairs (hedges ts)) in
  (b, map (fun k => match find_tri k ts 0 with Some a => a | None => 0 end) b).
