(* Model/DiffGeo.v -- executable model of the gradient / divergence operators of lapy/diffgeo.py
   (tria_compute_gradient 169, tria_compute_divergence 223, tria_compute_divergence2 282,
    tet_compute_gradient 665, tet_compute_divergence 724 -- after fix e9245f1).  Definitions only. *)
From Coq Require Import List Arith Bool PeanoNat ZArith.
From LaPyV Require Import Base.Scalar Base.Vec3 Base.ListAux Base.Sparse Model.TetMesh Model.TriaAdj Model.Fem Model.TriaGeom.
Import ListNotations.

Section DiffGeo.
  Context {K : Type} (o : Ops K).
  Notation V := (list (vec3 K)).
  Local Notation "a + b" := (add o a b).
  Local Notation "a - b" := (sub o a b).
  Local Notation "a * b" := (mul o a b).
  Local Notation "a / b" := (div o a b).

  Definition tri_edges (v : V) (t : tri) : vec3 K * vec3 K * vec3 K :=
    let '(p0, p1, p2) := tri_pts o v t in (vsub o p2 p1, vsub o p0 p2, vsub o p1 p0).   (* e0, e1, e2 *)

  (* ln[ln == 0] = 1 / vol[vol == 0] = 1 (after fix 841e03d: only an exactly vanishing measure is replaced) *)
  Definition guard_zero (x : K) : K := if eqb o x (zero o) then one o else x.
  Definition tria_grad1 (v : V) (f : nat -> K) (t : tri) : vec3 K :=
    let '(a, b, c) := t in
    let '(e0, e1, e2) := tri_edges v t in
    let n := cross o e2 (vneg o e1) in
    let ln := guard_zero (norm o n) in
    let lni := one o / ln in
    let nn := vscale o lni n in
    let s := vadd o (vadd o (vscale o (f a) e0) (vscale o (f b) e1)) (vscale o (f c) e2) in
    vscale o lni (cross o nn s).
  Definition tria_compute_gradient (v : V) (ts : list tri) (f : list K) : list (vec3 K) :=
    map (tria_grad1 v (vfun o f)) ts.

  (* per-triangle contributions (x0, x1, x2) before the scatter and the factor 0.5 *)
  Definition tria_div1 (v : V) (t : tri) (X : vec3 K) : K * K * K :=
    let '(e0, e1, e2) := tri_edges v t in
    let n := cross o e2 (vneg o e1) in
    let ln := guard_zero (norm o n) in
    let cot0 := dot o e2 (vneg o e1) / ln in
    let cot1 := dot o e0 (vneg o e2) / ln in
    let cot2 := dot o e1 (vneg o e0) / ln in
    let c0 := vscale o cot0 e0 in let c1 := vscale o cot1 e1 in let c2 := vscale o cot2 e2 in
    (dot o (vsub o c2 c1) X, dot o (vsub o c0 c2) X, dot o (vsub o c1 c0) X).
  Definition tria_div2_1 (v : V) (t : tri) (X : vec3 K) : K * K * K :=
    let '(e0, e1, e2) := tri_edges v t in
    let n := cross o e2 (vneg o e1) in
    let ln := guard_zero (norm o n) in
    let nn := vscale o (one o / ln) n in
    (dot o (cross o e0 nn) X, dot o (cross o e1 nn) X, dot o (cross o e2 nn) X).
  Definition corner_triples (ts : list tri) (xs : list (K * K * K)) : list (nat * K) :=
    flat_map (fun '(t, x) => let '(a, b, c) := t in let '(x0, x1, x2) := x in [(a, x0); (b, x1); (c, x2)]) (combine ts xs).
  (* length = max index + 1 (shape of the sparse column that is densified) *)
  Definition div_len (flat : list nat) : nat := S (maxn flat).
  Definition tria_compute_divergence (v : V) (ts : list tri) (X : list (vec3 K)) : list K :=
    map (fun x => frac o 1 2 * x)
        (scatter o (div_len (tri_flat ts)) (corner_triples ts (map (fun '(t, x) => tria_div1 v t x) (combine ts X)))).
  Definition tria_compute_divergence2 (v : V) (ts : list tri) (X : list (vec3 K)) : list K :=
    map (fun x => frac o 1 2 * x)
        (scatter o (div_len (tri_flat ts)) (corner_triples ts (map (fun '(t, x) => tria_div2_1 v t x) (combine ts X)))).

  (* ---- tetrahedra *)
  Definition guard_abs (x : K) : K := guard_zero x.
  Definition tet_grad1 (v : V) (f : nat -> K) (t : tet) : vec3 K :=
    let '(a, b, c, d) := t in
    let '(p0, p1, p2, p3) := tet_pts o v t in
    let e0 := vsub o p1 p0 in let e2 := vsub o p0 p2 in let e3 := vsub o p3 p0 in
    let e4 := vsub o p3 p1 in let e5 := vsub o p3 p2 in
    let vol := guard_abs (dot o e3 (cross o e0 e2)) in
    let voli := one o / vol in
    let c1 := vscale o (f b - f a) (cross o e2 e5) in
    let c2 := vscale o (f c - f a) (cross o e3 e4) in
    let c3 := vscale o (f d - f a) (cross o (vneg o e2) e0) in
    vscale o voli (vadd o (vadd o c1 c2) c3).
  Definition tet_compute_gradient (v : V) (ts : list tet) (f : list K) : list (vec3 K) :=
    map (tet_grad1 v (vfun o f)) ts.

  Definition signK (x : K) : K := if ltb o (zero o) x then one o else if ltb o x (zero o) then opp o (one o) else zero o.
  Definition tet_div1 (v : V) (t : tet) (X : vec3 K) : K * K * K * K :=
    let '(p0, p1, p2, p3) := tet_pts o v t in
    let e0 := vsub o p1 p0 in let e1 := vsub o p2 p1 in let e2 := vsub o p2 p0 in
    let e3 := vsub o p3 p0 in let e4 := vsub o p3 p1 in
    let n0 := cross o e1 e4 in let n1 := cross o e3 e2 in let n2 := cross o e0 e3 in let n3 := cross o e2 e0 in
    let sgn := opp o (signK (dot o e3 (cross o e0 e2))) in
    (sgn * dot o n0 X, sgn * dot o n1 X, sgn * dot o n2 X, sgn * dot o n3 X).
  Definition corner_quads (ts : list tet) (xs : list (K * K * K * K)) : list (nat * K) :=
    flat_map (fun '(t, x) => let '(a, b, c, d) := t in let '(x0, x1, x2, x3) := x in [(a, x0); (b, x1); (c, x2); (d, x3)])
             (combine ts xs).
  Definition tet_compute_divergence (v : V) (ts : list tet) (X : list (vec3 K)) : list K :=
    map (fun x => opp o (frac o 1 6 * x))
        (scatter o (div_len (tet_flat ts)) (corner_quads ts (map (fun '(t, x) => tet_div1 v t x) (combine ts X)))).
End DiffGeo.
