(* Model/Curvature.v -- executable model of TriaMesh.curvature (627-752) and curvature_tria (754-813) of lapy/tria_mesh.py.
   Definitions only.  np.linalg.eig is an oracle: the model is split into [curv_mats] (everything before the call: the 3x3
   symmetric tensors handed to eig) and [curv_post] (everything after it, applied to whatever eig returned).
   arccos is a Section parameter. *)
From Coq Require Import List Arith Bool PeanoNat ZArith.
From LaPyV Require Import Base.Scalar Base.Vec3 Base.ListAux Base.Sparse Model.TetMesh Model.TriaAdj Model.TriaOrient Model.Fem
  Model.TriaGeom Model.TriaFunc.
Import ListNotations.

Section Curvature.
  Context {K : Type} (o : Ops K) (acosK : K -> K).
  Notation V := (list (vec3 K)).
  Local Notation "a + b" := (add o a b).
  Local Notation "a - b" := (sub o a b).
  Local Notation "a * b" := (mul o a b).
  Local Notation "a / b" := (div o a b).

  Definition signK (x : K) : K := if ltb o (zero o) x then one o else if ltb o x (zero o) then opp o (one o) else zero o.
  Definition minus1 : K := opp o (one o).

  (* ---------------------------------------------------------------- before eig *)
  (* per inner edge: guarded length, unit edge vector, signed dihedral angle *)
  Definition edge_data (v : V) (tn : V) (k : nat * nat) (tp : nat * nat) : K * vec3 K * K :=
    let n1 := getv o tn (fst tp) in let n2 := getv o tn (snd tp) in
    let sprod := dot o n1 n2 in
    let angle := acosK (minK o (maxK o sprod minus1) (one o)) in
    let ev := vsub o (getv o v (snd k)) (getv o v (fst k)) in
    let elen := norm o ev in
    let si := opp o (signK (dot o (cross o n1 n2) ev)) in
    let elen' := guard_len o elen in
    (elen', vdivs o ev elen', angle * si).
  (* six upper-triangular entries xx xy xz yy yz zz *)
  Definition sym6 (e : vec3 K) (w : K) : list K :=
    [vx e * vx e * w; vx e * vy e * w; vx e * vz e * w; vy e * vy e * w; vy e * vz e * w; vz e * vz e * w].
  Definition scatter_col (l : list (nat * K)) (n : nat) : list K :=
    map (fun k => fold_left (fun acc '(i, x) => if Nat.eqb i k then acc + x else acc) l (zero o)) (iota n).

  Definition curv_cols (n : nat) (v : V) (ts : list tri) (smoothit : nat) : result (list (list K)) :=
    match edges_inner ts with
    | Err e => Err e
    | Ok (vids, tids) =>
        let tn := tria_normals o v ts in
        let ed := map (fun '(k, tp) => edge_data v tn k tp) (combine vids tids) in
        let meanlen := sumK o (map (fun '(l, _, _) => l) ed) / ofZ o (Z.of_nat (length ed)) in
        let ee := map (fun '(l, e, a) => sym6 e (a * (l / meanlen))) ed in
        let col c := let vals := map (fun r => nth c r (zero o)) ee in
                     scatter_col (combine (map fst vids) vals ++ combine (map snd vids) vals) n in
        let deg := map (fun k => count_if (fun '(a, b) => Nat.eqb a k) vids + count_if (fun '(a, b) => Nat.eqb b k) vids)%nat (iota n) in
        let degK := map (fun d => if Nat.eqb d 0 then one o else ofZ o (Z.of_nat d)) deg in
        let cols := map (fun c => map (fun '(x, d) => x / d) (combine (col c) degK)) (iota 6) in
        smooth_vfunc o n v ts ts smoothit cols
    end.

  (* ---------------------------------------------------------------- after eig *)
  (* argsort of three keys: insertion sort (what numpy runs on short rows), NaN last, stable *)
  Definition nanlt (a b : K) : bool := ltb o a b || (negb (eqb o b b) && eqb o a a).
  Fixpoint ins (x : K * nat) (l : list (K * nat)) : list (K * nat) :=
    match l with
    | [] => [x]
    | y :: tl => if nanlt (fst x) (fst y) then x :: y :: tl else y :: ins x tl
    end.
  Definition argsort3 (k0 k1 k2 : K) : nat * nat * nat :=
    match map snd (ins (k2, 2) (ins (k1, 1) [(k0, 0)])) with
    | [a; b; c] => (a, b, c)
    | _ => (0, 1, 2)
    end.

  Record eig3 := { ev0 : K; ev1 : K; ev2 : K; ec0 : vec3 K; ec1 : vec3 K; ec2 : vec3 K }.   (* eigenvalues, eigenvector columns *)
  Definition evalj (e : eig3) (j : nat) : K := match j with 0 => ev0 e | 1 => ev1 e | _ => ev2 e end.
  Definition ecolj (e : eig3) (j : nat) : vec3 K := match j with 0 => ec0 e | 1 => ec1 e | _ => ec2 e end.

  Record curv1 := { u_min : vec3 K; u_max : vec3 K; c_min : K; c_max : K; c_mean : K; c_gauss : K; nrm : vec3 K }.

  Definition curv_post1 (e : eig3) (vn : vec3 K) : curv1 :=
    let key j := opp o (absK o (dot o (ecolj e j) vn)) in
    let '(i0, i1, i2) := argsort3 (key 0%nat) (key 1%nat) (key 2%nat) in
    let umin := ecolj e i2 in let umax := ecolj e i1 in
    let cmin := evalj e i1 in let cmax := evalj e i2 in
    let normal := ecolj e i0 in
    let mean := (cmin + cmax) / two o in
    let gauss := cmin * cmax in
    let sw := ltb o cmax cmin in
    let '(cmin, cmax) := if sw then (cmax, cmin) else (cmin, cmax) in
    let '(umin, umax) := if sw then (umax, umin) else (umin, umax) in
    let normal := vscale o (signK (dot o normal vn)) normal in
    let d := dot o (cross o umin umax) normal in
    let umax := if ltb o d (zero o) then vneg o umax else umax in
    {| u_min := umin; u_max := umax; c_min := cmin; c_max := cmax; c_mean := mean; c_gauss := gauss; nrm := normal |}.

  Definition curv_post (es : list eig3) (vns : V) : list curv1 := map (fun '(e, vn) => curv_post1 e vn) (combine es vns).

  (* ---------------------------------------------------------------- curvature_tria, after curvature() *)
  Definition tiny8 : K := frac o 1 100000000.
  Definition third (a b c : K) : K := a / ofZ o 3 + b / ofZ o 3 + c / ofZ o 3.
  Definition third3 (a b c : vec3 K) : vec3 K := (third (vx a) (vx b) (vx c), third (vy a) (vy b) (vy c), third (vz a) (vz b) (vz c)).
  Definition tria_frame (p0 p1 p2 : vec3 K) (tumin : vec3 K) : vec3 K * vec3 K :=
    let tn0 := cross o (vsub o p1 p0) (vsub o p2 p0) in
    let tn := vdivs o tn0 (maxK o (norm o tn0) tiny8) in
    let w0 := vsub o tumin (vscale o (dot o tn tumin) tn) in
    (* no component in the plane: fall back to the first edge *)
    let w := if ltb o (norm o w0) tiny8 then vsub o p1 p0 else w0 in
    let u := vdivs o w (maxK o (norm o w) tiny8) in
    (u, cross o tn u).
  Definition curvature_tria (v : V) (ts : list tri) (cs : list curv1) : list (vec3 K * vec3 K * K * K) :=
    let um i := u_min (nth i cs {| u_min := zero3 o; u_max := zero3 o; c_min := zero o; c_max := zero o; c_mean := zero o; c_gauss := zero o; nrm := zero3 o |}) in
    let cmn i := c_min (nth i cs {| u_min := zero3 o; u_max := zero3 o; c_min := zero o; c_max := zero o; c_mean := zero o; c_gauss := zero o; nrm := zero3 o |}) in
    let cmx i := c_max (nth i cs {| u_min := zero3 o; u_max := zero3 o; c_min := zero o; c_max := zero o; c_mean := zero o; c_gauss := zero o; nrm := zero3 o |}) in
    map (fun '(a, b, c) =>
           let '(u, w) := tria_frame (getv o v a) (getv o v b) (getv o v c) (third3 (um a) (um b) (um c)) in
           (u, w, third (cmn a) (cmn b) (cmn c), third (cmx a) (cmx b) (cmx c))) ts.
End Curvature.
