(* Model/Poisson.v -- executable model of Solver.poisson (lapy/solver.py 662-785): validation, right-hand side
   B(h - n) - A d, masking, reduced system, re-insertion.  The sparse LU solve is a parameter [solve]
   (contract: it returns a solution of the system it is given).  Definitions only. *)
From Coq Require Import List Arith Bool PeanoNat ZArith.
From LaPyV Require Import Base.Scalar Base.ListAux Base.Sparse Model.TriaAdj.
Import ListNotations.

Fixpoint has_dup (l : list nat) : bool :=
  match l with [] => false | x :: tl => memn x tl || has_dup tl end.
Fixpoint pos_of (x : nat) (l : list nat) (i : nat) : option nat :=
  match l with [] => None | y :: tl => if Nat.eqb x y then Some i else pos_of x tl (S i) end.

Inductive hspec (K : Type) := HScalar (c : K) | HVector (l : list K).
Arguments HScalar {K} c. Arguments HVector {K} l.

Section Poisson.
  Context {K : Type} (o : Ops K).
  Context (solve : nat -> coo K -> list K -> result (list K)).
  Local Notation "a + b" := (add o a b).
  Local Notation "a - b" := (sub o a b).
  Local Notation "a * b" := (mul o a b).

  Definition free_list (dim : nat) (didx : list nat) : list nat := filter (fun k => negb (memn k didx)) (iota dim).
  (* A[:, mask][mask, :] with rows/cols renumbered by their position among the free vertices *)
  Definition restrict (M : coo K) (free : list nat) : coo K :=
    flat_map (fun '(i, j, a) => match pos_of i free 0, pos_of j free 0 with
                                | Some pi, Some pj => [(pi, pj, a)]
                                | _, _ => []
                                end) M.
  Definition hfun (dim : nat) (h : hspec K) : nat -> K :=
    match h with HScalar c => fun _ => c | HVector l => vfun o l end.
  (* full right-hand side before masking: (B (h - n))_k - (A d)_k *)
  Definition poisson_rhs (A B : coo K) (hf : nat -> K) (d n : list (nat * K)) (k : nat) : K :=
    mulvec_at o B (fun j => hf j - scatter_at o n j) k - mulvec_at o A (scatter_at o d) k.

  Definition poisson (dim : nat) (A B : coo K) (h : hspec K)
             (dtup : option (list nat * list K)) (ntup : option (list nat * list K)) : result (list K) :=
    let r0 : result unit := match h with
                            | HVector l => if negb (Nat.eqb (length l) dim) then Err ValueError else Ok tt
                            | HScalar _ => Ok tt
                            end in
    match r0 with
    | Err e => Err e
    | Ok _ =>
      let dchk := match dtup with
                  | None => Ok ([], [])
                  | Some (didx, ddat) =>
                      if has_dup didx then Err ValueError
                      else if negb (Nat.ltb 0 (length didx) && Nat.eqb (length didx) (length ddat)) then Err ValueError
                      else Ok (didx, ddat)
                  end in
      match dchk with
      | Err e => Err e
      | Ok (didx, ddat) =>
        let nchk := match ntup with
                    | None => Ok ([], [])
                    | Some (nidx, ndat) =>
                        if negb (Nat.ltb 0 (length nidx) && Nat.eqb (length nidx) (length ndat)) then Err ValueError
                        else Ok (nidx, ndat)
                    end in
        match nchk with
        | Err e => Err e
        | Ok (nidx, ndat) =>
          let d := combine didx ddat in
          let n := combine nidx ndat in
          let rhs := poisson_rhs A B (hfun dim h) d n in
          match didx with
          | [] => solve dim A (map rhs (iota dim))
          | _ =>
            let free := free_list dim didx in
            match solve (length free) (restrict A free) (map rhs free) with
            | Err e => Err e
            | Ok x => Ok (map (fun k => match pos_of k didx 0 with
                                        | Some p => nth p ddat (zero o)
                                        | None => match pos_of k free 0 with Some q => nth q x (zero o) | None => zero o end
                                        end) (iota dim))
            end
          end
        end
      end
    end.
End Poisson.
