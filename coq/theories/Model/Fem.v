(* Model/Fem.v -- executable model of the FEM assembly in lapy/solver.py (definitions only).
   _fem_tria (96-177), _fem_tria_aniso (180-280), fem_tria_mass (283-345), _fem_tetra (348-492).
   Matrices are triplet lists in exactly the order the code stacks them. *)
From Coq Require Import List Arith Bool PeanoNat ZArith.
From LaPyV Require Import Base.Scalar Base.Vec3 Base.ListAux Base.Sparse Model.TetMesh.
Import ListNotations.

Section Fem.
  Context {K : Type} (o : Ops K).
  Notation V := (list (vec3 K)).
  Local Notation "a + b" := (add o a b).
  Local Notation "a - b" := (sub o a b).
  Local Notation "a * b" := (mul o a b).
  Local Notation "a / b" := (div o a b).
  Local Notation "- a" := (opp o a).

  Definition meanK (l : list K) : K := div o (sumK o l) (ofZ o (Z.of_nat (length l))).

  (* ------------------------------------------------------------ triangles *)
  Definition tri_pts (v : V) (t : tri) : vec3 K * vec3 K * vec3 K :=
    let '(a, b, c) := t in (getv o v a, getv o v b, getv o v c).

  (* vol = 2*sqrt(sum(cr*cr)) with cr = cross(v3-v2, v1-v3)   (4 * area) *)
  Definition tria_vol4_raw (v : V) (t : tri) : K :=
    let '(p1, p2, p3) := tri_pts v t in
    let cr := cross o (vsub o p3 p2) (vsub o p1 p3) in
    two o * sqrtK o (dot o cr cr).
  (* vol[vol < eps] = 0.0001 * mean(vol) *)
  (* vol[vol == 0] = 0.0001 * mean(vol)   (after fix 72e7cef: exact-zero test, as in _fem_tetra) *)
  Definition fix_small (thr : K) (repl : K) (x : K) : K := if eqb o x (zero o) then repl else x.
  Definition tria_vols4 (v : V) (ts : list tri) : list K :=
    let raw := map (tria_vol4_raw v) ts in
    let vm := frac o 1 10000 * meanK raw in
    map (fix_small (eps52 o) vm) raw.

  (* off-diagonal cotangent entries of one triangle *)
  Definition tria_cots (v : V) (t : tri) (vol : K) : K * K * K :=
    let '(p1, p2, p3) := tri_pts v t in
    let v2mv1 := vsub o p2 p1 in let v3mv2 := vsub o p3 p2 in let v1mv3 := vsub o p1 p3 in
    (dot o v3mv2 v1mv3 / vol, dot o v1mv3 v2mv1 / vol, dot o v2mv1 v3mv2 / vol).

  Definition block9 (t : tri) (a12 a23 a31 a11 a22 a33 : K) : coo K :=
    let '(t1, t2, t3) := t in
    [(t1, t2, a12); (t2, t1, a12); (t2, t3, a23); (t3, t2, a23); (t3, t1, a31); (t1, t3, a31);
     (t1, t1, a11); (t2, t2, a22); (t3, t3, a33)].
  Definition stiff_block (t : tri) (c : K * K * K) : coo K :=
    let '(a12, a23, a31) := c in
    block9 t a12 a23 a31 (- a12 - a31) (- a12 - a23) (- a31 - a23).
  Definition diag3 (t : tri) (b : K) : coo K :=
    let '(t1, t2, t3) := t in [(t1, t1, b); (t2, t2, b); (t3, t3, b)].

  Definition fem_tria_A (v : V) (ts : list tri) : coo K :=
    flat_map (fun '(t, vol) => stiff_block t (tria_cots v t vol)) (combine ts (tria_vols4 v ts)).
  Definition fem_tria_B (lump : bool) (v : V) (ts : list tri) : coo K :=
    flat_map (fun '(t, vol) =>
      if lump then diag3 t (vol / ofZ o 12)
      else let bij := vol / ofZ o 48 in let bii := vol / ofZ o 24 in block9 t bij bij bij bii bii bii)
      (combine ts (tria_vols4 v ts)).

  (* Solver.fem_tria_mass: vol = 0.5*sqrt(..) (the area), guard vol == 0 -> 0.001*mean *)
  Definition tria_area_raw (v : V) (t : tri) : K :=
    let '(p1, p2, p3) := tri_pts v t in
    let cr := cross o (vsub o p3 p2) (vsub o p1 p3) in
    frac o 1 2 * sqrtK o (dot o cr cr).
  Definition tria_areas_mass (v : V) (ts : list tri) : list K :=
    let raw := map (tria_area_raw v) ts in
    let vm := frac o 1 1000 * meanK raw in
    map (fun x => if eqb o x (zero o) then vm else x) raw.
  Definition fem_tria_mass (lump : bool) (v : V) (ts : list tri) : coo K :=
    flat_map (fun '(t, vol) =>
      if lump then diag3 t (vol / ofZ o 3)
      else let bij := vol / ofZ o 12 in let bii := vol / ofZ o 6 in block9 t bij bij bij bii bii bii)
      (combine ts (tria_areas_mass v ts)).

  (* anisotropic: u1,u2 per triangle, aniso_mat = (m0, m1) per triangle *)
  Definition aniso_cots (v : V) (t : tri) (u1 u2 : vec3 K) (m : K * K) (vol : K) : K * K * K :=
    let '(p1, p2, p3) := tri_pts v t in
    let v2mv1 := vsub o p2 p1 in let v3mv2 := vsub o p3 p2 in let v1mv3 := vsub o p1 p3 in
    let pr e := (dot o u1 e, dot o u2 e) in
    let w x y := (fst x * fst m * fst y) + (snd x * snd m * snd y) in
    (w (pr v3mv2) (pr v1mv3) / vol, w (pr v1mv3) (pr v2mv1) / vol, w (pr v2mv1) (pr v3mv2) / vol).
  Definition fem_aniso_A (v : V) (ts : list tri) (u1 u2 : list (vec3 K)) (am : list (K * K)) : coo K :=
    flat_map (fun '(t, (vol, (a, (b, m)))) => stiff_block t (aniso_cots v t a b m vol))
             (combine ts (combine (tria_vols4 v ts) (combine u1 (combine u2 am)))).
  (* Solver.__init__ 73-80: aniso_mat[:,1]=exp(-aniso1*|c1|), aniso_mat[:,0]=exp(-aniso0*|c2|) *)
  Definition aniso_weights (a0 a1 : K) (c1 c2 : list K) : list (K * K) :=
    map (fun '(x1, x2) => (expK o (- a0 * absK o x2), expK o (- a1 * absK o x1))) (combine c1 c2).

  (* ------------------------------------------------------------ tetrahedra *)
  Definition tet_pts (v : V) (t : tet) :=
    let '(a, b, c, d) := t in (getv o v a, getv o v b, getv o v c, getv o v d).
  Definition tet_edges (v : V) (t : tet) :=
    let '(p1, p2, p3, p4) := tet_pts v t in
    (vsub o p2 p1, vsub o p3 p2, vsub o p1 p3, vsub o p4 p1, vsub o p4 p2, vsub o p4 p3).
  Definition tetra_vol6_raw (v : V) (t : tet) : K :=
    let '(e1, e2, e3, e4, e5, e6) := tet_edges v t in
    absK o (dot o e4 (cross o e1 e3)).
  Definition tetra_vols6 (v : V) (ts : list tet) : list K :=
    let raw := map (tetra_vol6_raw v) ts in
    let vm := frac o 1 10000 * meanK raw in
    map (fun x => if eqb o x (zero o) then vm else x) raw.
  (* a12 a13 a14 a23 a24 a34 (before the division by 6) *)
  Definition tetra_offdiag (v : V) (t : tet) (vol : K) : K * K * K * K * K * K :=
    let '(e1, e2, e3, e4, e5, e6) := tet_edges v t in
    let e11 := dot o e1 e1 in let e22 := dot o e2 e2 in let e33 := dot o e3 e3 in
    let e44 := dot o e4 e4 in let e55 := dot o e5 e5 in let e66 := dot o e6 e6 in
    let e12 := dot o e1 e2 in let e13 := dot o e1 e3 in let e14 := dot o e1 e4 in
    let e15 := dot o e1 e5 in let e23 := dot o e2 e3 in let e25 := dot o e2 e5 in
    let e26 := dot o e2 e6 in let e34 := dot o e3 e4 in let e36 := dot o e3 e6 in
    ( ((- e36) * e26 + e23 * e66) / vol,
      ((- e15) * e25 + e12 * e55) / vol,
      (e23 * e26 - e36 * e22) / vol,
      ((- e14) * e34 + e13 * e44) / vol,
      (e13 * e34 - e14 * e33) / vol,
      ((- e14) * e13 + e11 * e34) / vol ).
  Definition block16 (t : tet) (a12 a23 a13 a14 a24 a34 a11 a22 a33 a44 : K) : coo K :=
    let '(t1, t2, t3, t4) := t in
    [(t1, t2, a12); (t2, t1, a12); (t2, t3, a23); (t3, t2, a23); (t3, t1, a13); (t1, t3, a13);
     (t1, t4, a14); (t4, t1, a14); (t2, t4, a24); (t4, t2, a24); (t3, t4, a34); (t4, t3, a34);
     (t1, t1, a11); (t2, t2, a22); (t3, t3, a33); (t4, t4, a44)].
  Definition tet_stiff_block (t : tet) (c : K * K * K * K * K * K) : coo K :=
    let '(a12, a13, a14, a23, a24, a34) := c in
    let a11 := - a12 - a13 - a14 in let a22 := - a12 - a23 - a24 in
    let a33 := - a13 - a23 - a34 in let a44 := - a14 - a24 - a34 in
    let s := ofZ o 6 in
    block16 t (a12 / s) (a23 / s) (a13 / s) (a14 / s) (a24 / s) (a34 / s)
              (a11 / s) (a22 / s) (a33 / s) (a44 / s).
  Definition diag4 (t : tet) (b : K) : coo K :=
    let '(t1, t2, t3, t4) := t in [(t1, t1, b); (t2, t2, b); (t3, t3, b); (t4, t4, b)].
  Definition fem_tet_A (v : V) (ts : list tet) : coo K :=
    flat_map (fun '(t, vol) => tet_stiff_block t (tetra_offdiag v t vol)) (combine ts (tetra_vols6 v ts)).
  Definition fem_tet_B (lump : bool) (v : V) (ts : list tet) : coo K :=
    flat_map (fun '(t, vol) =>
      if lump then diag4 t (vol / ofZ o 24)
      else let bij := vol / ofZ o 120 in let bii := vol / ofZ o 60 in
           block16 t bij bij bij bij bij bij bii bii bii bii)
      (combine ts (tetra_vols6 v ts)).
End Fem.
