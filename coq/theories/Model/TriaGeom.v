(* Model/TriaGeom.v -- executable model of the geometric measures of lapy/tria_mesh.py
   (tria_areas 267, area 291, vertex_areas 337, avg_edge_length 357, tria_normals 372,
   vertex_normals 399, tria_qualities 459, centroid 544, normalize_ 815, normal_offset_ 898)
   and TetMesh.avg_edge_length.  Definitions only. *)
From Coq Require Import List Arith Bool PeanoNat ZArith.
From LaPyV Require Import Base.Scalar Base.Vec3 Base.ListAux Base.Sparse Model.TetMesh Model.TriaAdj
  Model.TriaOrient Model.Fem.
Import ListNotations.

Section TriaGeom.
  Context {K : Type} (o : Ops K).
  Notation V := (list (vec3 K)).
  Local Notation "a + b" := (add o a b).
  Local Notation "a - b" := (sub o a b).
  Local Notation "a * b" := (mul o a b).
  Local Notation "a / b" := (div o a b).

  (* Heron *)
  Definition heron_area (v : V) (t : tri) : K :=
    let '(p0, p1, p2) := tri_pts o v t in
    let a := norm o (vsub o p1 p0) in let b := norm o (vsub o p2 p1) in let c := norm o (vsub o p0 p2) in
    let ph := frac o 1 2 * (a + b + c) in
    sqrtK o (ph * (ph - a) * (ph - b) * (ph - c)).
  Definition tria_areas (v : V) (ts : list tri) : list K := map (heron_area v) ts.
  Definition area (v : V) (ts : list tri) : K := sumK o (tria_areas v ts).

  (* 0.5*|cross(v1-v0, v2-v0)| *)
  Definition cross_area (v : V) (t : tri) : K :=
    let '(p0, p1, p2) := tri_pts o v t in
    frac o 1 2 * norm o (cross o (vsub o p1 p0) (vsub o p2 p0)).
  (* np.bincount(t.flat, weights)/3: length is max index + 1 *)
  Definition vertex_areas (v : V) (ts : list tri) : list K :=
    map (fun x => x / ofZ o 3)
        (scatter o (S (maxn (tri_flat ts))) (flat_map (fun t => let '(a, b, c) := t in let w := cross_area v t in [(a, w); (b, w); (c, w)]) ts)).

  (* unique undirected edges (i<j) from triu(adj_sym, 1) *)
  Definition edge_len (v : V) (k : nat * nat) : K := norm o (vsub o (getv o v (fst k)) (getv o v (snd k))).
  Definition avg_edge_length_keys (v : V) (keys : list (nat * nat)) : K :=
    let E := filter (fun k => Nat.ltb (fst k) (snd k)) (unique_pairs keys) in
    meanK o (map (edge_len v) E).
  Definition tria_avg_edge_length (v : V) (ts : list tri) : K := avg_edge_length_keys v (sym_keys ts).
  Definition tet_sym1 (t : tet) : list (nat * nat) :=
    let '(a, b, c, d) := t in
    [(a, b); (b, a); (b, c); (c, b); (c, a); (a, c); (a, d); (d, a); (b, d); (d, b); (c, d); (d, c)].
  Definition tet_avg_edge_length (v : V) (ts : list tet) : K := avg_edge_length_keys v (flat_map tet_sym1 ts).

  Definition guard_len (x : K) : K := if ltb o x (eps52 o) then one o else x.
  (* ln[ln == 0] = 1 in tria_normals / vertex_normals (after fixes 4785e9e and the relative test for vertex sums that followed) *)
  Definition guard_zero_len (x : K) : K := if eqb o x (zero o) then one o else x.
  Definition tria_normal (v : V) (t : tri) : vec3 K :=
    let '(p0, p1, p2) := tri_pts o v t in
    let n := cross o (vsub o p1 p0) (vsub o p2 p0) in
    vdivs o n (guard_zero_len (norm o n)).
  Definition tria_normals (v : V) (ts : list tri) : list (vec3 K) := map (tria_normal v) ts.

  (* scatter-add of 3-vectors: np.add.at(n, t[:,k], crk) for k = 0,1,2 in that order *)
  Definition scatter3_at (l : list (nat * vec3 K)) (k : nat) : vec3 K :=
    fold_left (fun acc '(i, w) => if Nat.eqb i k then vadd o acc w else acc) l (zero3 o).
  Definition vertex_normal_sums (n : nat) (v : V) (ts : list tri) : list (vec3 K) :=
    let cr k t := let '(p0, p1, p2) := tri_pts o v t in
                  let v1mv0 := vsub o p1 p0 in let v2mv1 := vsub o p2 p1 in let v0mv2 := vsub o p0 p2 in
                  match k with
                  | 0 => cross o v1mv0 (vneg o v0mv2)
                  | 1 => cross o v2mv1 (vneg o v1mv0)
                  | _ => cross o v0mv2 (vneg o v2mv1)
                  end in
    let l := map (fun t => let '(a, _, _) := t in (a, cr 0 t)) ts ++
             map (fun t => let '(_, b, _) := t in (b, cr 1 t)) ts ++
             map (fun t => let '(_, _, c) := t in (c, cr 2 t)) ts in
    map (scatter3_at l) (iota n).
  Definition vertex_normals (n : nat) (v : V) (ts : list tri) : result (list (vec3 K)) :=
    if negb (is_oriented ts) then Err ValueError
    else
      (* ln[ln <= eps * max(ln)] = 1: a sum of cross products that cancels to rounding level (relative to the longest one) is
         left as it is, every other one is normalised -- in any length unit *)
      let sums := vertex_normal_sums n v ts in
      let mx := fold_left (fun m s => let l := norm o s in if ltb o m l then l else m) sums (zero o) in
      Ok (map (fun s => let l := norm o s in vdivs o s (if ltb o (eps52 o * mx) l then l else one o)) sums).

  Definition tria_quality (v : V) (t : tri) : K :=
    let '(p0, p1, p2) := tri_pts o v t in
    let v1mv0 := vsub o p1 p0 in let v2mv1 := vsub o p2 p1 in let v0mv2 := vsub o p0 p2 in
    let ln := norm o (cross o v1mv0 (vneg o v0mv2)) in
    let q := two o * sqrtK o (ofZ o 3) * ln in
    let es := dot o v1mv0 v1mv0 + dot o v2mv1 v2mv1 + dot o v0mv2 v0mv2 in
    q / es.
  Definition tria_qualities (v : V) (ts : list tri) : list K := map (tria_quality v) ts.

  (* centroid(): (sum_t (area_t/total) * centre_t, total) with areas from cross(v2-v1, v0-v2) *)
  Definition cen_area (v : V) (t : tri) : K :=
    let '(p0, p1, p2) := tri_pts o v t in
    frac o 1 2 * norm o (cross o (vsub o p2 p1) (vsub o p0 p2)).
  Definition tri_centre (v : V) (t : tri) : vec3 K :=
    let '(p0, p1, p2) := tri_pts o v t in vscale o (frac o 1 3) (vadd o (vadd o p0 p1) p2).
  Definition vsum (l : list (vec3 K)) : vec3 K := fold_left (vadd o) l (zero3 o).
  Definition centroid (v : V) (ts : list tri) : vec3 K * K :=
    let areas := map (cen_area v) ts in
    let total := sumK o areas in
    (vsum (map (fun '(t, a) => vscale o (a / total) (tri_centre v t)) (combine ts areas)), total).
  Definition normalize (v : V) (ts : list tri) : V :=
    let '(c, a) := centroid v ts in
    map (fun p => vscale o (one o / sqrtK o a) (vsub o p c)) v.
  Definition normal_offset (d : K) (v : V) (ts : list tri) : result V :=
    match vertex_normals (length v) v ts with
    | Err e => Err e
    | Ok n => Ok (map (fun '(p, q) => vadd o p (vscale o d q)) (combine v n))
    end.
End TriaGeom.
