(* Props/C12.v -- the statements claimed for property C12 (tetra orientation and
   boundary extraction), about Model/TetMesh.v at exact real arithmetic.
   Nothing but statements closed by [exact]; proofs live in Proofs/TetMeshP.v. *)
From Coq Require Import List Reals Permutation.
From LaPyV Require Import Base.Scalar Base.Vec3 Base.ListAux Model.TetMesh Model.TriaAdj Proofs.TetMeshP Proofs.TriaAdjP Proofs.TetBoundaryP Proofs.InvarianceP Proofs.VolumeScaleP Proofs.TetRigidP.
Import ListNotations.
Open Scope R_scope.

(* is_oriented is true iff all signed volumes are positive *)
Theorem C12_is_oriented_iff_all_positive : forall v ts,
  tet_is_oriented Rops v ts = true <-> ts <> [] /\ Forall (fun t => 0 < tet_vol6 Rops v t) ts.
Proof. exact tet_is_oriented_iff. Qed.
Print Assumptions C12_is_oriented_iff_all_positive.

(* orient_ swaps two vertices of exactly the negatively oriented tetrahedra, in place *)
Theorem C12_orient_changes_exactly_negative : forall v ts i t,
  nth_error ts i = Some t ->
  (tet_vol6 Rops v t < 0 -> nth_error (fst (tet_orient Rops v ts)) i = Some (tet_swap12 t)) /\
  (~ tet_vol6 Rops v t < 0 -> nth_error (fst (tet_orient Rops v ts)) i = Some t).
Proof. exact tet_orient_changes_exactly_negative. Qed.
Print Assumptions C12_orient_changes_exactly_negative.

(* vertex sets and order of tetrahedra are unchanged *)
Theorem C12_orient_keeps_vertex_sets : forall v ts,
  Forall2 (fun t t' => Permutation (tet_verts t') (tet_verts t)) ts (fst (tet_orient Rops v ts)).
Proof. exact tet_orient_sets. Qed.
Print Assumptions C12_orient_keeps_vertex_sets.

(* it returns the number of negatively oriented tetrahedra *)
Theorem C12_orient_returns_negative_count : forall v ts,
  snd (tet_orient Rops v ts) = length (filter (fun t => Rltb (tet_vol6 Rops v t) 0) ts).
Proof. exact tet_orient_count. Qed.
Print Assumptions C12_orient_returns_negative_count.

(* on a non-degenerate mesh the result is oriented *)
Theorem C12_orient_result_is_oriented : forall v ts,
  ts <> [] -> Forall (fun t => tet_vol6 Rops v t <> 0) ts ->
  tet_is_oriented Rops v (fst (tet_orient Rops v ts)) = true.
Proof. exact tet_orient_result_oriented. Qed.
Print Assumptions C12_orient_result_is_oriented.

(* boundary_tria: exactly the faces whose vertex set occurs once among all faces ... *)
Theorem C12_boundary_exactly_single_faces : forall ts f,
  In f (tet_boundary_tria ts) <->
  In f (all_faces ts) /\ facekey_count (sort3 f) (all_faces ts) = 1%nat.
Proof. exact tet_boundary_spec. Qed.
Print Assumptions C12_boundary_exactly_single_faces.

(* ... each listed once *)
Theorem C12_boundary_each_once : forall ts, NoDup (map sort3 (tet_boundary_tria ts)).
Proof. exact tet_boundary_each_once. Qed.
Print Assumptions C12_boundary_each_once.

(* the per-tetra function value handed to a boundary face comes from a tetrahedron owning it *)
Theorem C12_boundary_owner_contains_face : forall ts,
  Forall2 (fun f k => exists t, nth_error ts k = Some t /\ face_of t f)
          (tet_boundary_tria ts) (tet_boundary_owner ts).
Proof. exact tet_boundary_owner_contains. Qed.
Print Assumptions C12_boundary_owner_contains_face.

(* divergence identity per tetrahedron: 6V = sum of the cones over its four listed faces *)
Theorem C12_volume_is_sum_of_face_cones : forall v t,
  tet_vol6 Rops v t = cone6 v (face0 t) + cone6 v (face1 t) + cone6 v (face2 t) + cone6 v (face3 t).
Proof. exact tet_vol6_faces. Qed.
Print Assumptions C12_volume_is_sum_of_face_cones.

(* ---- the boundary surface is closed.  For every tetrahedral mesh (four distinct vertices per tetrahedron) in which no face --
   as a vertex set -- belongs to more than two tetrahedra, every edge lies in an EVEN number of boundary faces ... *)
Theorem C12_boundary_edges_lie_in_an_even_number_of_faces : forall ts i j,
  Forall distinct_tet ts -> face_manifold ts -> i <> j -> exists m, tri_count (tet_boundary_tria ts) i j = (2 * m)%nat.
Proof. exact tet_boundary_even. Qed.
Print Assumptions C12_boundary_edges_lie_in_an_even_number_of_faces.

(* ... so TriaMesh.is_closed of the extracted surface is true *)
Theorem C12_boundary_surface_is_closed : forall ts,
  Forall distinct_tet ts -> face_manifold ts -> is_closed (tet_boundary_tria ts) = true.
Proof. exact tet_boundary_closed. Qed.
Print Assumptions C12_boundary_surface_is_closed.

(* the hypotheses hold for concrete meshes: three tetrahedra around the edge 1-2, with four interior and ... boundary faces *)
Example C12_boundary_hypotheses_are_satisfiable :
  let ts := [(0, 1, 2, 3); (1, 2, 3, 4); (1, 2, 4, 5)]%nat in
  Forall distinct_tet ts /\ face_manifold ts /\ length (tet_boundary_tria ts) = 8%nat.
Proof.
  cbv zeta. split; [apply distinct_tet_b_ok; vm_compute; reflexivity|]. split; [apply face_manifold_b_ok; vm_compute; reflexivity|].
  vm_compute. reflexivity.
Qed.

(* a second orient_ changes nothing and returns 0, for every mesh (degenerate tetrahedra included) *)
Theorem C12_orient_is_idempotent : forall v ts,
  tet_orient Rops v (fst (tet_orient Rops v ts)) = (fst (tet_orient Rops v ts), 0%nat).
Proof. exact tet_orient_idempotent. Qed.
Print Assumptions C12_orient_is_idempotent.

(* is_oriented and orient_ (which tetrahedra are swapped, and how many) do not change under proper rigid motions p -> Q p + b
   (det Q = 1) nor under positive scalings; a reflection (det Q = -1) negates every signed volume *)
Theorem C12_orientation_invariant_under_proper_rigid_motion : forall Q b v ts, det3 Q = 1 -> tets_in_range (length v) ts ->
  tet_is_oriented Rops (map (rigid Q b) v) ts = tet_is_oriented Rops v ts /\
  tet_orient Rops (map (rigid Q b) v) ts = tet_orient Rops v ts.
Proof. exact tet_orientation_rigid_invariant. Qed.
Print Assumptions C12_orientation_invariant_under_proper_rigid_motion.

Theorem C12_orientation_invariant_under_positive_scaling : forall s v ts, 0 < s -> tets_in_range (length v) ts ->
  tet_is_oriented Rops (map (vscaleR s) v) ts = tet_is_oriented Rops v ts /\
  tet_orient Rops (map (vscaleR s) v) ts = tet_orient Rops v ts.
Proof. exact tet_orientation_scale_invariant. Qed.
Print Assumptions C12_orientation_invariant_under_positive_scaling.

Theorem C12_reflection_negates_signed_volumes : forall Q b v ts, det3 Q = -1 -> tets_in_range (length v) ts ->
  forall t, In t ts -> tet_vol6 Rops (map (rigid Q b) v) t = - tet_vol6 Rops v t.
Proof. exact tet_reflection_negates. Qed.
Print Assumptions C12_reflection_negates_signed_volumes.

(* so a reflected oriented mesh is reported unoriented, and orient_ then swaps every one of its tetrahedra *)
Theorem C12_reflected_oriented_mesh_is_unoriented_and_fully_repaired : forall Q b v ts, det3 Q = -1 -> tets_in_range (length v) ts ->
  tet_is_oriented Rops v ts = true ->
  tet_is_oriented Rops (map (rigid Q b) v) ts = false /\ snd (tet_orient Rops (map (rigid Q b) v) ts) = length ts.
Proof. exact tet_reflection_unorients. Qed.
Print Assumptions C12_reflected_oriented_mesh_is_unoriented_and_fully_repaired.
