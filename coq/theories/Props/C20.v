(* Props/C20.v -- statements claimed for C20 (object consistency over histories), about Model/ObjState.v.
   The companion theorem over the effects table regenerated from the source on every run lives in
   gen/C20/Effects.v (C20_effects_table_ok / C20_effects_table_spec, rules in Chk/EffectsRules.v). *)
From Coq Require Import List Arith ZArith.
From LaPyV Require Import Base.Scalar Base.Vec3 Base.ListAux Model.TetMesh Model.TriaAdj Model.ObjState
  Proofs.ObjStateP Chk.EffectsRules.
Import ListNotations.

(* a freshly constructed object is consistent, and every operation preserves consistency *)
Theorem C20_fresh_object_consistent : forall (K : Type) (v : list (vec3 K)) t, TInv (tfresh v t).
Proof. exact @tfresh_inv. Qed.
Print Assumptions C20_fresh_object_consistent.

Theorem C20_every_operation_preserves_consistency : forall (K : Type) (o : Ops K) s op s' r,
  TInv s -> tstep o s op = Ok (s', r) -> TInv s'.
Proof. exact @tstep_inv. Qed.
Print Assumptions C20_every_operation_preserves_consistency.

(* after ANY history of in-place operations (failing ones included) every query on the live object equals
   the query on a mesh freshly constructed from its current vertices and elements *)
Theorem C20_any_history_queries_equal_fresh : forall (K : Type) (o : Ops K) v t ops,
  let s := fst (trun o (tfresh v t) ops) in
  q_closed s = q_closed (tfresh (sv s) (st s)) /\ q_manifold s = q_manifold (tfresh (sv s) (st s)) /\
  q_oriented s = q_oriented (tfresh (sv s) (st s)) /\ q_euler s = q_euler (tfresh (sv s) (st s)) /\
  q_vdeg s = q_vdeg (tfresh (sv s) (st s)) /\ q_loops s = q_loops (tfresh (sv s) (st s)).
Proof. exact @history_queries_equal_fresh. Qed.
Print Assumptions C20_any_history_queries_equal_fresh.

Theorem C20_tet_operations_preserve_consistency : forall (K : Type) (o : Ops K) s op s' r,
  TTInv s -> ttstep o s op = Ok (s', r) -> TTInv s'.
Proof. exact @ttstep_inv. Qed.
Print Assumptions C20_tet_operations_preserve_consistency.

(* rm_free_vertices_: keeps exactly the used vertices, deletes exactly the unused ones *)
Theorem C20_rm_free_keeps_exactly_used : forall vnum flat mask vkeep vdel look,
  rm_free_plan vnum flat = Ok (Some (mask, vkeep, vdel, look)) ->
  (forall i, In i vkeep <-> (i < vnum /\ In i flat)) /\
  (forall i, In i vdel <-> (i < vnum /\ ~ In i flat)) /\
  vdel <> [] /\ Forall (fun i => i < vnum) flat.
Proof. exact rm_free_plan_spec. Qed.
Print Assumptions C20_rm_free_keeps_exactly_used.

(* ... and the renumbered index of a used vertex points at the same coordinates: geometry unchanged *)
Theorem C20_rm_free_geometry_unchanged : forall (A : Type) (d : A) mask (v : list A) i,
  length v = length mask -> nth i mask false = true -> i < length mask ->
  nth (nth i (cumsum_mask mask 0) 0) (keep_by_mask mask v) d = nth i v d.
Proof. exact @rm_free_lookup_preserves. Qed.
Print Assumptions C20_rm_free_geometry_unchanged.

(* meaning of the effects-table decision procedure *)
Theorem C20_effects_rules_sound : forall tbl, effects_ok tbl = true -> Forall entry_spec tbl.
Proof. exact effects_ok_sound. Qed.
Print Assumptions C20_effects_rules_sound.
