(* Props/C09.v -- statements claimed for C09 (connectivity queries vs brute-force counting). *)
From Coq Require Import List Arith.
From LaPyV Require Import Base.ListAux Model.TetMesh Model.TriaAdj Proofs.TriaAdjP.
Import ListNotations.

(* the symmetric adjacency value of (i,j) is the number of triangles containing both *)
Theorem C09_adjacency_counts_triangles : forall ts i j, Forall distinct_tri ts -> i <> j ->
  sym_count ts i j = tri_count ts i j.
Proof. exact sym_count_is_tri_count. Qed.
Print Assumptions C09_adjacency_counts_triangles.

Theorem C09_directed_adjacency_counts_half_edges : forall ts i j, Forall distinct_tri ts ->
  dir_count ts i j = hedge_count ts i j.
Proof. exact dir_count_is_hedge_count. Qed.
Print Assumptions C09_directed_adjacency_counts_half_edges.

Theorem C09_is_closed_iff : forall ts, Forall distinct_tri ts ->
  (is_closed ts = true <-> forall i j, i <> j -> tri_count ts i j <> 1).
Proof. exact is_closed_iff. Qed.
Print Assumptions C09_is_closed_iff.

Theorem C09_is_manifold_iff : forall ts, Forall distinct_tri ts ->
  (is_manifold ts = true <-> forall i j, i <> j -> tri_count ts i j <= 2).
Proof. exact is_manifold_iff. Qed.
Print Assumptions C09_is_manifold_iff.

Theorem C09_is_oriented_iff : forall ts, Forall distinct_tri ts -> ts <> [] ->
  (is_oriented ts = true <-> forall i j, hedge_count ts i j <= 1).
Proof. exact is_oriented_iff. Qed.
Print Assumptions C09_is_oriented_iff.

Theorem C09_has_free_vertices_iff : forall n flat, Forall (fun i => i < n) flat ->
  (has_free_vertices n flat = true <-> exists k, k < n /\ ~ In k flat).
Proof. exact has_free_vertices_iff. Qed.
Print Assumptions C09_has_free_vertices_iff.
