(* Props/C09.v -- statements claimed for C09 (connectivity queries vs brute-force counting). *)
From Coq Require Import List Arith ZArith Permutation.
From LaPyV Require Import Base.ListAux Model.TetMesh Model.TriaAdj Proofs.TriaAdjP Proofs.LoopsP Proofs.LoopsDegP.
Import ListNotations.

(* the symmetric adjacency value of (i,j) is the number of triangles containing both *)
Theorem C09_adjacency_counts_triangles : forall ts i j, Forall distinct_tri ts -> i <> j ->
  sym_count ts i j = tri_count ts i j.
Proof. exact sym_count_is_tri_count. Qed.
Print Assumptions C09_adjacency_counts_triangles.

Theorem C09_directed_adjacency_counts_half_edges : forall ts i j, Forall distinct_tri ts ->
  dir_count ts i j = hedge_count ts i j.
Proof. exact dir_count_is_hedge_count. Qed.
Print Assumptions C09_directed_adjacency_counts_half_edges.

Theorem C09_is_closed_iff : forall ts, Forall distinct_tri ts ->
  (is_closed ts = true <-> forall i j, i <> j -> tri_count ts i j <> 1).
Proof. exact is_closed_iff. Qed.
Print Assumptions C09_is_closed_iff.

Theorem C09_is_manifold_iff : forall ts, Forall distinct_tri ts ->
  (is_manifold ts = true <-> forall i j, i <> j -> tri_count ts i j <= 2).
Proof. exact is_manifold_iff. Qed.
Print Assumptions C09_is_manifold_iff.

Theorem C09_is_oriented_iff : forall ts, Forall distinct_tri ts -> ts <> [] ->
  (is_oriented ts = true <-> forall i j, hedge_count ts i j <= 1).
Proof. exact is_oriented_iff. Qed.
Print Assumptions C09_is_oriented_iff.

Theorem C09_has_free_vertices_iff : forall n flat, Forall (fun i => i < n) flat ->
  (has_free_vertices n flat = true <-> exists k, k < n /\ ~ In k flat).
Proof. exact has_free_vertices_iff. Qed.
Print Assumptions C09_has_free_vertices_iff.

(* vertex_degrees: the number of distinct neighbours of a vertex; euler: V - E + F with E the number of undirected edges;
   edges() on oriented meshes: every inner edge (i < j, in exactly two triangles) once, with triangles that carry its two half-edges *)
Theorem C09_vertex_degrees_count_distinct_neighbours : forall n ts j, j < n ->
  exists nb, NoDup nb /\ (forall i, In i nb <-> In (i, j) (sym_keys ts)) /\ nth j (vertex_degrees n ts) 0 = length nb.
Proof. exact vertex_degrees_count_neighbours. Qed.
Print Assumptions C09_vertex_degrees_count_distinct_neighbours.
Theorem C09_euler_is_V_minus_E_plus_F : forall ts, Forall distinct_tri ts ->
  euler ts = (Z.of_nat (length (unique_nat (tri_flat ts)))
              - Z.of_nat (length (filter (fun k => Nat.ltb (fst k) (snd k)) (unique_pairs (sym_keys ts))))
              + Z.of_nat (length ts))%Z.
Proof. exact euler_is_V_minus_E_plus_F. Qed.
Print Assumptions C09_euler_is_V_minus_E_plus_F.
Theorem C09_edges_lists_inner_edges_with_their_triangles : forall ts keys tids, edges_inner ts = Ok (keys, tids) ->
  NoDup keys /\
  (forall i j, In (i, j) keys <-> i < j /\ In (i, j) (hedges ts) /\ count_pair (i, j) (sym_keys ts) = 2) /\
  length tids = length keys /\
  Forall (fun '((i, j), (a, b)) =>
            (In (i, j) (hedges ts) -> exists t, nth_error ts a = Some t /\ In (i, j) (hedges1 t)) /\
            (In (j, i) (hedges ts) -> exists t, nth_error ts b = Some t /\ In (j, i) (hedges1 t))) (combine keys tids).
Proof. exact edges_inner_spec. Qed.
Print Assumptions C09_edges_lists_inner_edges_with_their_triangles.

(* ---- boundary_loops.  The table the walk runs on is the set of boundary half-edges ... *)
Theorem C09_boundary_table_is_the_set_of_boundary_half_edges : forall ts i j, Forall distinct_tri ts -> i <> j ->
  (In (i, j) (boundary_table ts) <-> hedge_count ts i j >= 1 /\ tri_count ts i j <> 2).
Proof. exact boundary_table_in. Qed.
Print Assumptions C09_boundary_table_is_the_set_of_boundary_half_edges.

(* ... and on every manifold, open, oriented mesh whose boundary half-edges form a permutation of the boundary vertices ([FG]:
   each vertex of the table has exactly one outgoing and one incoming boundary half-edge) the walk terminates within its fuel and
   returns simple cycles (no vertex repeated) whose half-edges ([loop_edges]: each listed vertex is entered from the next one,
   the first from the last) are, taken together, exactly the boundary half-edges, each used once *)
Theorem C09_boundary_loops_are_simple_cycles_using_every_boundary_half_edge_once : forall ts,
  is_manifold ts = true -> is_closed ts = false -> is_oriented ts = true -> FG (boundary_table ts) ->
  exists loops, boundary_loops ts = Ok loops /\ Forall (fun l => l <> [] /\ NoDup l) loops /\
                Permutation (flat_map loop_edges loops) (boundary_table ts).
Proof. exact boundary_loops_ok. Qed.
Print Assumptions C09_boundary_loops_are_simple_cycles_using_every_boundary_half_edge_once.

(* In an oriented mesh (no half-edge twice) a boundary half-edge is a half-edge whose reverse does not occur, and every vertex has
   as many incoming as outgoing boundary half-edges (each triangle at v contributes one half-edge leaving v and one entering it) *)
Theorem C09_boundary_half_edges_enter_and_leave_every_vertex_equally_often : forall ts, Forall distinct_tri ts ->
  (forall i j, hedge_count ts i j <= 1) -> forall v,
  count_if (fun e => Nat.eqb (snd e) v) (boundary_table ts) = count_if (fun e => Nat.eqb (fst e) v) (boundary_table ts).
Proof. exact boundary_degree_balance. Qed.
Print Assumptions C09_boundary_half_edges_enter_and_leave_every_vertex_equally_often.

(* ... so the permutation hypothesis [FG] above follows from its first part alone: on every manifold, open, oriented mesh in which
   no vertex has two outgoing boundary half-edges (the boundary is vertex-manifold: no two boundary fans meet in a point)
   boundary_loops terminates and returns simple cycles using every boundary half-edge exactly once *)
Theorem C09_boundary_loops_correct_whenever_no_vertex_has_two_outgoing_boundary_half_edges : forall ts, Forall distinct_tri ts ->
  is_manifold ts = true -> is_closed ts = false -> is_oriented ts = true -> succ_unique (boundary_table ts) ->
  exists loops, boundary_loops ts = Ok loops /\ Forall (fun l => l <> [] /\ NoDup l) loops /\
                Permutation (flat_map loop_edges loops) (boundary_table ts).
Proof. exact boundary_loops_ok_vertex_manifold. Qed.
Print Assumptions C09_boundary_loops_correct_whenever_no_vertex_has_two_outgoing_boundary_half_edges.

Example C09_vertex_manifold_hypotheses_are_satisfiable :
  Forall distinct_tri c09_square /\ is_manifold c09_square = true /\ is_closed c09_square = false /\ is_oriented c09_square = true /\
  succ_unique (boundary_table c09_square).
Proof. exact vertex_manifold_hypotheses_satisfiable. Qed.

Theorem C09_boundary_loops_none_for_closed_meshes : forall ts, is_manifold ts = true -> is_closed ts = true -> boundary_loops ts = Ok [].
Proof. exact boundary_loops_closed. Qed.
Print Assumptions C09_boundary_loops_none_for_closed_meshes.

Theorem C09_boundary_loops_rejects_nonmanifold_or_unoriented : forall ts,
  is_manifold ts = false \/ (is_closed ts = false /\ is_oriented ts = false) -> boundary_loops ts = Err ValueError.
Proof. exact boundary_loops_rejects. Qed.
Print Assumptions C09_boundary_loops_rejects_nonmanifold_or_unoriented.

Example C09_boundary_loops_hypotheses_are_satisfiable :
  is_manifold c09_square = true /\ is_closed c09_square = false /\ is_oriented c09_square = true /\ FG (boundary_table c09_square).
Proof. exact loops_hypotheses_satisfiable. Qed.
