(* Props/C03.v -- statements claimed for C03 (eigs), about the FEM pencil of Model/Fem.v over R.  ARPACK and SuperLU are
   oracles: convergence, ordering and completeness of the Lanczos iteration are not theorems (certificate-checked instead). *)
From Coq Require Import List Arith Reals.
From LaPyV Require Import Base.Scalar Base.Vec3 Base.ListAux Base.Sparse Model.TetMesh Model.TriaAdj Model.Fem
  Proofs.SparseP Proofs.FemTriaP Proofs.PoissonP Proofs.EigsP Proofs.KernelP.
Import ListNotations.
Open Scope R_scope.

(* the mass matrix is positive definite (on the used vertices), both variants *)
Theorem C03_mass_positive_definite : forall lump v ts (u : nat -> R), tria_nondeg v ts ->
  (exists a b c, In (a, b, c) ts /\ (u a <> 0 \/ u b <> 0 \/ u c <> 0)) ->
  0 < bilin Rops u (fem_tria_B Rops lump v ts) u.
Proof. exact tria_mass_positive_definite. Qed.
Print Assumptions C03_mass_positive_definite.

(* every eigenvalue of the pencil is >= 0; constants give the eigenvalue 0 *)
Theorem C03_eigenvalues_nonnegative : forall lump n v ts lam x, tria_nondeg v ts ->
  in_range n (fem_tria_A Rops v ts) -> in_range n (fem_tria_B Rops lump v ts) ->
  eigpair n (fem_tria_A Rops v ts) (fem_tria_B Rops lump v ts) lam x ->
  (exists a b c, In (a, b, c) ts /\ (x a <> 0 \/ x b <> 0 \/ x c <> 0)) -> 0 <= lam.
Proof. exact tria_eigenvalues_nonneg. Qed.
Print Assumptions C03_eigenvalues_nonnegative.
Theorem C03_constants_are_zero_eigenvectors : forall lump n v ts c,
  eigpair n (fem_tria_A Rops v ts) (fem_tria_B Rops lump v ts) 0 (fun _ => c).
Proof. exact tria_constant_is_zero_eigenvector. Qed.
Print Assumptions C03_constants_are_zero_eigenvectors.

(* eigenvectors of distinct eigenvalues are orthogonal in the mass inner product *)
Theorem C03_eigenvectors_B_orthogonal : forall lump n v ts l1 l2 x y,
  in_range n (fem_tria_A Rops v ts) -> in_range n (fem_tria_B Rops lump v ts) ->
  eigpair n (fem_tria_A Rops v ts) (fem_tria_B Rops lump v ts) l1 x ->
  eigpair n (fem_tria_A Rops v ts) (fem_tria_B Rops lump v ts) l2 y -> l1 <> l2 ->
  bilin Rops x (fem_tria_B Rops lump v ts) y = 0.
Proof. exact tria_eigenvectors_B_orthogonal. Qed.
Print Assumptions C03_eigenvectors_B_orthogonal.

(* the shift-invert operator used by eigs (sigma = -0.01 < 0) is positive definite, and its eigenpairs map back to the pencil *)
Theorem C03_shifted_operator_positive_definite : forall A B sigma x, sigma < 0 ->
  0 <= bilin Rops x A x -> 0 < bilin Rops x B x -> 0 < bilin Rops x (A ++ coo_scale Rops (- sigma) B) x.
Proof. exact shifted_operator_positive_definite. Qed.
Print Assumptions C03_shifted_operator_positive_definite.
Theorem C03_shift_invert_relation : forall n A B sigma nu (x : nat -> R), nu <> 0 ->
  (forall k, (k < n)%nat -> mulvec_at Rops (A ++ coo_scale Rops (- sigma) B) (fun j => nu * x j) k = mulvec_at Rops B x k) ->
  eigpair n A B (sigma + 1 / nu) x.
Proof. exact shift_invert_relation. Qed.
Print Assumptions C03_shift_invert_relation.

(* ---- one zero eigenvalue per connected component, with eigenvectors constant on components.  A vertex function that is constant
   on every triangle (hence on every connected component) is annihilated by the stiffness matrix, row by row, whatever the geometry ... *)
Theorem C03_functions_constant_on_components_are_in_the_kernel : forall v ts u i,
  const_on_triangles ts u -> mulvec_at Rops (fem_tria_A Rops v ts) u i = 0.
Proof. exact componentwise_constant_rows. Qed.
Print Assumptions C03_functions_constant_on_components_are_in_the_kernel.

(* ... and on non-degenerate meshes nothing else is: the kernel of A is exactly the set of functions constant on every triangle,
   so the multiplicity of the eigenvalue 0 is the number of connected components *)
Theorem C03_stiffness_kernel_is_exactly_the_componentwise_constants : forall v ts u, tria_nondeg v ts ->
  ((forall f, bilin Rops f (fem_tria_A Rops v ts) u = 0) <-> const_on_triangles ts u).
Proof. exact stiffness_kernel_characterised. Qed.
Print Assumptions C03_stiffness_kernel_is_exactly_the_componentwise_constants.
