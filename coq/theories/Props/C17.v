(* Props/C17.v -- statements claimed for C17 (curvature), about Model/Curvature.v over R.
   The eigen-solver is an oracle: the statements hold for EVERY result [e] it may hand back (values) and for every
   result with orthonormal eigenvector columns (frame) -- which is what the symmetric solver guarantees. *)
From Coq Require Import List Arith Reals.
From LaPyV Require Import Base.Scalar Base.Vec3 Base.ListAux Model.TetMesh Model.TriaAdj Model.Curvature Proofs.FemTriaP Proofs.CurvatureP.
Import ListNotations.
Open Scope R_scope.

Theorem C17_values_ordered_mean_gauss : forall e vn, let r := curv_post1 Rops e vn in
  c_min r <= c_max r /\ c_mean r = (c_min r + c_max r) / 2 /\ c_gauss r = c_min r * c_max r.
Proof. exact post_values. Qed.
Print Assumptions C17_values_ordered_mean_gauss.

(* unit, mutually orthogonal, normal on the side of the vertex normal, right-handed *)
Theorem C17_principal_frame : forall e vn, ortho3 (ec0 e) (ec1 e) (ec2 e) ->
  let r := curv_post1 Rops e vn in
  dot Rops (u_min r) (u_min r) = 1 /\ dot Rops (u_max r) (u_max r) = 1 /\ dot Rops (u_min r) (u_max r) = 0 /\
  dot Rops (u_min r) (nrm r) = 0 /\ dot Rops (u_max r) (nrm r) = 0 /\
  0 <= dot Rops (nrm r) vn /\ 0 <= dot Rops (cross Rops (u_min r) (u_max r)) (nrm r).
Proof. exact post_frame. Qed.
Print Assumptions C17_principal_frame.

Theorem C17_directions_are_solver_eigenvectors_up_to_sign : forall e vn, let r := curv_post1 Rops e vn in
  let cols := [ec0 e; ec1 e; ec2 e] in
  In (u_min r) cols /\ (In (u_max r) cols \/ In (vneg Rops (u_max r)) cols).
Proof. exact post_directions_are_eigenvectors. Qed.
Print Assumptions C17_directions_are_solver_eigenvectors_up_to_sign.

(* curvature_tria: on every triangle that is not degenerate (normal and first edge longer than the code's 1e-8 guard) the two
   returned directions are unit, orthogonal to each other and lie in the triangle plane, whatever direction was pooled from the
   vertices (after fix f3ef02f: fall-back to the first edge when the pooled direction has no component in the plane) *)
Theorem C17_triangle_frame_in_plane : forall p0 p1 p2 tumin,
  let tn0 := cross Rops (vsub Rops p1 p0) (vsub Rops p2 p0) in
  tiny8 Rops <= norm Rops tn0 -> tiny8 Rops <= norm Rops (vsub Rops p1 p0) ->
  let '(u, w) := tria_frame Rops p0 p1 p2 tumin in
  dot Rops u u = 1 /\ dot Rops w w = 1 /\ dot Rops u w = 0 /\ dot Rops u tn0 = 0 /\ dot Rops w tn0 = 0.
Proof. exact tria_frame_in_plane. Qed.
Print Assumptions C17_triangle_frame_in_plane.
