(* Props/C13.v -- statements claimed for C13 (geometric measures), about Model/TriaGeom.v over R. *)
From Coq Require Import List Arith Reals.
From LaPyV Require Import Base.Scalar Base.Vec3 Base.ListAux Base.Sparse Model.TetMesh Model.TriaAdj Model.TriaOrient
  Model.Fem Model.TriaGeom Proofs.SparseP Proofs.FemTriaP Proofs.TriaGeomP Proofs.TriaOrientP Proofs.TriaAdjP Proofs.InvarianceP Proofs.VolumeTransP Proofs.VolumeScaleP Proofs.QualityInvarP Proofs.FlowP Proofs.CentroidAffP Proofs.TetRigidP Proofs.EdgeLenInvarP Proofs.VertexAreasInvarP Proofs.NormalsTransP Proofs.NormalsScaleP Proofs.NormalOffsetP Proofs.AreaInvarP.
Import ListNotations.
Open Scope R_scope.

(* Heron's formula, as coded, is half the cross-product length, for every triangle *)
Theorem C13_heron_is_half_cross_norm : forall v t, heron_area Rops v t = cross_area Rops v t.
Proof. exact heron_is_half_cross. Qed.
Print Assumptions C13_heron_is_half_cross_norm.

(* area = sum of triangle areas = sum of vertex areas *)
Theorem C13_area_is_sum_of_triangle_areas : forall v ts, area Rops v ts = Rsum (cross_area Rops v) ts.
Proof. exact area_is_sum_of_cross_areas. Qed.
Print Assumptions C13_area_is_sum_of_triangle_areas.
Theorem C13_vertex_areas_sum_to_area : forall v ts,
  Rsum (fun x => x) (vertex_areas Rops v ts) = Rsum (cross_area Rops v) ts.
Proof. exact vertex_areas_sum_to_area. Qed.
Print Assumptions C13_vertex_areas_sum_to_area.
(* the same per-triangle number is the area used by centroid() and by the mass matrix (C02) *)
Theorem C13_centroid_area_is_same_area : forall v t, cen_area Rops v t = cross_area Rops v t.
Proof. exact cen_area_is_cross_area. Qed.
Print Assumptions C13_centroid_area_is_same_area.
Theorem C13_area_is_mass_matrix_area : forall v i j k,
  let '(p1, p2, p3) := tri_pts Rops v (i, j, k) in cross_area Rops v (i, j, k) = tri_area p1 p2 p3.
Proof. exact cross_area_is_tri_area. Qed.
Print Assumptions C13_area_is_mass_matrix_area.

(* vertex normals (any length unit): every returned vector is unit, or is a raw sum of cross products whose length is at rounding
   level (machine epsilon) relative to the longest sum of the mesh -- e.g. at an unused vertex or where the incident faces cancel *)
Theorem C13_vertex_normals_unit_or_negligible : forall n v ts l, vertex_normals Rops n v ts = Ok l ->
  Forall (fun w => dot Rops w w = 1 \/ norm Rops w <= eps52 Rops * vn_max n v ts) l.
Proof. exact vertex_normals_unit_or_negligible. Qed.
Print Assumptions C13_vertex_normals_unit_or_negligible.

(* triangle normals: unit, orthogonal to the triangle, following the winding, for every triangle of non-zero area (any length unit) *)
Theorem C13_tria_normals_unit_orthogonal_winding : forall v i j k,
  let '(p0, p1, p2) := tri_pts Rops v (i, j, k) in
  let n := cross Rops (vsub Rops p1 p0) (vsub Rops p2 p0) in
  0 < norm Rops n ->
  dot Rops (tria_normal Rops v (i, j, k)) (tria_normal Rops v (i, j, k)) = 1 /\
  dot Rops (tria_normal Rops v (i, j, k)) (vsub Rops p1 p0) = 0 /\
  dot Rops (tria_normal Rops v (i, j, k)) (vsub Rops p2 p0) = 0 /\
  0 < dot Rops (tria_normal Rops v (i, j, k)) n.
Proof. exact tria_normal_unit_orthogonal. Qed.
Print Assumptions C13_tria_normals_unit_orthogonal_winding.

(* qualities lie in (0,1] on non-degenerate triangles, and equal 1 for equilateral ones *)
Theorem C13_quality_in_unit_interval : forall v i j k,
  let '(p0, p1, p2) := tri_pts Rops v (i, j, k) in
  0 < dot Rops (cross Rops (vsub Rops p1 p0) (vsub Rops p2 p0)) (cross Rops (vsub Rops p1 p0) (vsub Rops p2 p0)) ->
  0 < tria_quality Rops v (i, j, k) <= 1.
Proof. exact tria_quality_range. Qed.
Print Assumptions C13_quality_in_unit_interval.
Theorem C13_quality_one_for_equilateral : forall v i j k,
  let '(p0, p1, p2) := tri_pts Rops v (i, j, k) in
  let A2 := dot Rops (vsub Rops p1 p0) (vsub Rops p1 p0) in
  dot Rops (vsub Rops p2 p1) (vsub Rops p2 p1) = A2 -> dot Rops (vsub Rops p0 p2) (vsub Rops p0 p2) = A2 -> 0 < A2 ->
  tria_quality Rops v (i, j, k) = 1.
Proof. exact tria_quality_equilateral. Qed.
Print Assumptions C13_quality_one_for_equilateral.

(* volume: sign flips with global re-orientation (branch structure 0 / ValueError / sum is the model's definition) *)
Theorem C13_volume_sign_flips_with_orientation : forall v ts,
  sumK Rops (map (tri_spat Rops v) (map flip12 ts)) = - sumK Rops (map (tri_spat Rops v) ts).
Proof. exact volume_sum_flip_all. Qed.
Print Assumptions C13_volume_sign_flips_with_orientation.

(* volume() is translation invariant for every mesh with in-range indices and distinct corners: when the mesh is closed and
   oriented the extra terms c . (v_i x v_j) cancel between each half-edge and its reverse; an open mesh gives 0 and a closed
   unoriented one ValueError whatever the coordinates *)
Theorem C13_volume_is_translation_invariant : forall c v ts, Forall distinct_tri ts -> tris_in_range (length v) ts ->
  tria_volume Rops (translate c v) ts = tria_volume Rops v ts.
Proof. exact tria_volume_translation_invariant. Qed.
Print Assumptions C13_volume_is_translation_invariant.

Example C13_volume_translation_example : is_closed vt_ts = true /\ is_oriented vt_ts = true /\ tria_volume Rops vt_v vt_ts = Ok (1 / 6) /\
  tria_volume Rops (translate (5, -3, 2) vt_v) vt_ts = Ok (1 / 6).
Proof. exact volume_example. Qed.

(* normal_offset_(d): the mesh keeps its size, vertex i becomes v_i + d * n_i with n the vertex normals before the move, and the
   displacement has length exactly |d| (squared: d^2) -- or the vertex normal there is a negligible raw sum (previous theorem) *)
Theorem C13_normal_offset_moves_every_vertex_by_d_along_its_normal : forall d v ts v', normal_offset Rops d v ts = Ok v' ->
  exists nl, vertex_normals Rops (length v) v ts = Ok nl /\ length nl = length v /\ length v' = length v /\
    forall i, (i < length v)%nat ->
      getv Rops v' i = vadd Rops (getv Rops v i) (vscale Rops d (getv Rops nl i)) /\
      (dot Rops (getv Rops nl i) (getv Rops nl i) = 1 ->
       dot Rops (vsub Rops (getv Rops v' i) (getv Rops v i)) (vsub Rops (getv Rops v' i) (getv Rops v i)) = d * d).
Proof. exact normal_offset_spec. Qed.
Print Assumptions C13_normal_offset_moves_every_vertex_by_d_along_its_normal.

Theorem C13_normal_offset_distance_is_d_or_normal_negligible : forall d v ts v', normal_offset Rops d v ts = Ok v' ->
  length v' = length v /\
  forall i, (i < length v)%nat ->
    dot Rops (vsub Rops (getv Rops v' i) (getv Rops v i)) (vsub Rops (getv Rops v' i) (getv Rops v i)) = d * d \/
    exists w, getv Rops v' i = vadd Rops (getv Rops v i) (vscale Rops d w) /\ norm Rops w <= eps52 Rops * vn_max (length v) v ts.
Proof. exact normal_offset_moves_by_d. Qed.
Print Assumptions C13_normal_offset_distance_is_d_or_normal_negligible.

(* the premise holds for every oriented mesh and for no other *)
Theorem C13_normal_offset_defined_iff_oriented : forall d v ts,
  (is_oriented ts = true -> exists v', normal_offset Rops d v ts = Ok v') /\
  (is_oriented ts = false -> normal_offset Rops d v ts = Err ValueError).
Proof. exact normal_offset_defined_iff_oriented. Qed.
Print Assumptions C13_normal_offset_defined_iff_oriented.

(* area: invariant under every rigid motion p -> Q p + b with Q^T Q = I (reflections included), and multiplied by s^2 under p -> s p *)
Theorem C13_area_invariant_under_rigid_motion : forall Q b v ts, orthogonal Q -> tris_in_range (length v) ts ->
  area Rops (map (rigid Q b) v) ts = area Rops v ts.
Proof. exact area_rigid_invariant. Qed.
Print Assumptions C13_area_invariant_under_rigid_motion.

Theorem C13_area_scales_with_the_square : forall s v ts, tris_in_range (length v) ts ->
  area Rops (map (vscaleR s) v) ts = s * s * area Rops v ts.
Proof. exact area_scales_with_square. Qed.
Print Assumptions C13_area_scales_with_the_square.

(* volume: multiplied by s^3 under p -> s p, by det M under any linear map p -> M p, hence kept by every proper rigid motion
   p -> Q p + b (det Q = 1) and negated by improper ones (an orthogonal Q has det^2 = 1); the ValueError of a closed unoriented
   mesh does not depend on the coordinates *)
Theorem C13_volume_scales_with_the_cube : forall s v ts, tris_in_range (length v) ts ->
  forall x, tria_volume Rops v ts = Ok x -> tria_volume Rops (map (vscaleR s) v) ts = Ok (s * s * s * x).
Proof. exact tria_volume_scales_with_cube. Qed.
Print Assumptions C13_volume_scales_with_the_cube.

Theorem C13_volume_under_rigid_motion_is_multiplied_by_det : forall Q b v ts, Forall distinct_tri ts -> tris_in_range (length v) ts ->
  forall x, tria_volume Rops v ts = Ok x -> tria_volume Rops (map (rigid Q b) v) ts = Ok (det3 Q * x).
Proof. exact tria_volume_rigid. Qed.
Print Assumptions C13_volume_under_rigid_motion_is_multiplied_by_det.

Theorem C13_volume_invariant_under_proper_rigid_motion : forall Q b v ts, det3 Q = 1 -> Forall distinct_tri ts -> tris_in_range (length v) ts ->
  forall x, tria_volume Rops v ts = Ok x -> tria_volume Rops (map (rigid Q b) v) ts = Ok x.
Proof. exact tria_volume_rotation_invariant. Qed.
Print Assumptions C13_volume_invariant_under_proper_rigid_motion.

Theorem C13_orthogonal_matrix_has_unit_det_square : forall Q, orthogonal Q -> det3 Q * det3 Q = 1.
Proof. exact orthogonal_det_sq. Qed.
Print Assumptions C13_orthogonal_matrix_has_unit_det_square.

Theorem C13_volume_error_is_coordinate_independent : forall Q b v ts e,
  tria_volume Rops v ts = Err e -> tria_volume Rops (map (rigid Q b) v) ts = Err e.
Proof. exact tria_volume_rigid_err. Qed.
Print Assumptions C13_volume_error_is_coordinate_independent.

Example C13_volume_scale_rotation_example : tria_volume Rops (map (vscaleR 2) vt_v) vt_ts = Ok (2 * 2 * 2 * (1 / 6)) /\
  orthogonal quarter_z /\ det3 quarter_z = 1 /\ tria_volume Rops (map (rigid quarter_z (5, -3, 2)) vt_v) vt_ts = Ok (1 / 6).
Proof. exact volume_scale_example. Qed.

(* qualities: unchanged by every rigid motion (reflections included) and by uniform scaling with any s <> 0, for every mesh
   (degenerate triangles included: the same quotient is formed) *)
Theorem C13_qualities_invariant_under_rigid_motion : forall Q b v ts, orthogonal Q -> tris_in_range (length v) ts ->
  tria_qualities Rops (map (rigid Q b) v) ts = tria_qualities Rops v ts.
Proof. exact tria_qualities_rigid_invariant. Qed.
Print Assumptions C13_qualities_invariant_under_rigid_motion.

Theorem C13_qualities_invariant_under_scaling : forall s v ts, s <> 0 -> tris_in_range (length v) ts ->
  tria_qualities Rops (map (vscaleR s) v) ts = tria_qualities Rops v ts.
Proof. exact tria_qualities_scale_invariant. Qed.
Print Assumptions C13_qualities_invariant_under_scaling.

(* centroid(): under p -> s (p - c) with s > 0 the returned centre moves the same way and the returned total area is multiplied
   by s^2, for every mesh of non-zero area (translation: s = 1) *)
Theorem C13_centroid_equivariant_under_translation_and_scaling : forall s c v ts, 0 < s -> tris_in_range (length v) ts -> 0 < total_area v ts ->
  centroid Rops (map (aff s c) v) ts = (aff s c (fst (centroid Rops v ts)), s * s * snd (centroid Rops v ts)).
Proof. exact centroid_aff. Qed.
Print Assumptions C13_centroid_equivariant_under_translation_and_scaling.

Theorem C13_centroid_follows_translation : forall c v ts, tris_in_range (length v) ts -> 0 < total_area v ts ->
  centroid Rops (map (fun p => vsub Rops p c) v) ts = (vsub Rops (fst (centroid Rops v ts)) c, snd (centroid Rops v ts)).
Proof. exact centroid_translation. Qed.
Print Assumptions C13_centroid_follows_translation.

(* avg_edge_length (triangle and tetra meshes): unchanged by every rigid motion (reflections included), multiplied by s under
   scaling with s >= 0 *)
Theorem C13_tria_avg_edge_length_rigid_invariant_and_scales : forall Q b s v ts, orthogonal Q -> 0 <= s -> tris_in_range (length v) ts ->
  tria_avg_edge_length Rops (map (rigid Q b) v) ts = tria_avg_edge_length Rops v ts /\
  tria_avg_edge_length Rops (map (vscaleR s) v) ts = s * tria_avg_edge_length Rops v ts.
Proof. exact tria_avg_edge_length_rigid_scale. Qed.
Print Assumptions C13_tria_avg_edge_length_rigid_invariant_and_scales.

Theorem C13_tet_avg_edge_length_rigid_invariant_and_scales : forall Q b s v ts, orthogonal Q -> 0 <= s -> tets_in_range (length v) ts ->
  tet_avg_edge_length Rops (map (rigid Q b) v) ts = tet_avg_edge_length Rops v ts /\
  tet_avg_edge_length Rops (map (vscaleR s) v) ts = s * tet_avg_edge_length Rops v ts.
Proof. exact tet_avg_edge_length_rigid_scale. Qed.
Print Assumptions C13_tet_avg_edge_length_rigid_invariant_and_scales.

(* tria_areas and vertex_areas, as whole lists: unchanged by every rigid motion, every entry multiplied by s^2 under scaling *)
Theorem C13_area_lists_invariant_under_rigid_motion : forall Q b v ts, orthogonal Q -> tris_in_range (length v) ts ->
  tria_areas Rops (map (rigid Q b) v) ts = tria_areas Rops v ts /\ vertex_areas Rops (map (rigid Q b) v) ts = vertex_areas Rops v ts.
Proof. exact areas_rigid_invariant. Qed.
Print Assumptions C13_area_lists_invariant_under_rigid_motion.

Theorem C13_area_lists_scale_with_the_square : forall s v ts, tris_in_range (length v) ts ->
  tria_areas Rops (map (vscaleR s) v) ts = map (fun x => s * s * x) (tria_areas Rops v ts) /\
  vertex_areas Rops (map (vscaleR s) v) ts = map (fun x => s * s * x) (vertex_areas Rops v ts).
Proof. exact areas_scale. Qed.
Print Assumptions C13_area_lists_scale_with_the_square.

(* tria_normals: the whole list (degenerate triangles included) is unchanged by translation *)
Theorem C13_tria_normals_translation_invariant : forall c v ts, tris_in_range (length v) ts ->
  tria_normals Rops (translate c v) ts = tria_normals Rops v ts.
Proof. exact tria_normals_translation_invariant. Qed.
Print Assumptions C13_tria_normals_translation_invariant.

(* ... and by every positive uniform scaling *)
Theorem C13_tria_normals_scale_invariant : forall s v ts, 0 < s -> tris_in_range (length v) ts ->
  tria_normals Rops (map (vscaleR s) v) ts = tria_normals Rops v ts.
Proof. exact tria_normals_scale_invariant. Qed.
Print Assumptions C13_tria_normals_scale_invariant.
