(* Props/C19.v -- statements claimed for C19 (curvature flow / spherical projection), about Model/Flow.v and
   Model/TriaGeom.v over R, for EVERY sparse solver that returns a solution of the system it is given. *)
From Coq Require Import List Arith Reals.
From LaPyV Require Import Base.Scalar Base.Vec3 Base.ListAux Base.Sparse Model.TetMesh Model.TriaAdj Model.Fem Model.TriaGeom Model.Flow
  Proofs.SparseP Proofs.PoissonP Proofs.InvarianceP Proofs.FlowP.
Import ListNotations.
Open Scope R_scope.

(* normalize_: unit surface area and centroid at the origin, for every mesh of positive area *)
Theorem C19_normalize_unit_area_centroid_origin : forall v ts, tris_in_range (length v) ts -> 0 < total_area v ts ->
  area Rops (normalize Rops v ts) ts = 1 /\ centroid Rops (normalize Rops v ts) ts = ((0, 0, 0), 1).
Proof.
  intros v ts Hr HA. split; [apply normalize_area_one; assumption|].
  destruct (normalize_unit_area_zero_centroid v ts Hr HA) as [H1 H2].
  destruct (centroid Rops (normalize Rops v ts) ts) as [c a]. cbn [fst snd] in *. subst. reflexivity.
Qed.
Print Assumptions C19_normalize_unit_area_centroid_origin.

(* the flow returns the input connectivity and a normalised solver answer (hence unit area and centred, by the theorem above) *)
Theorem C19_flow_returns_same_connectivity_normalised : forall solve, solve_contract solve ->
  forall v ts max_iter stop_eps step w ts',
  mean_curvature_flow Rops solve v ts max_iter stop_eps step = Ok (w, ts') ->
  ts' = ts /\ exists X, w = normalize Rops X ts.
Proof. exact flow_result. Qed.
Print Assumptions C19_flow_returns_same_connectivity_normalised.

(* each iteration: (M + step A0) X = M V coordinate-wise, M the lumped mass of the current iterate; then re-normalisation *)
Theorem C19_iteration_solves_flow_system : forall solve, solve_contract solve ->
  forall step A0 ts v X v' d, flow_step Rops solve step A0 ts v = Ok (X, v', d) ->
  v' = normalize Rops X ts /\
  forall c, (c < 3)%nat -> forall i, (i < length v)%nat ->
    mulvec_at Rops (flow_matrix Rops step A0 (fem_tria_mass Rops true v ts)) (vfun Rops (col c X)) i
    = mulvec_at Rops (fem_tria_mass Rops true v ts) (vfun Rops (col c v)) i.
Proof. exact flow_step_equation. Qed.
Print Assumptions C19_iteration_solves_flow_system.

Theorem C19_zero_iterations_returns_normalised_copy : forall solve v ts stop_eps step,
  mean_curvature_flow Rops solve v ts 0 stop_eps step = Ok (normalize Rops v ts, ts).
Proof. exact flow_zero_iterations. Qed.
Print Assumptions C19_zero_iterations_returns_normalised_copy.

(* tria_spherical_project: a returned mesh has the input connectivity, passed the gates, and every vertex at distance 100 *)
Theorem C19_projection_radius_100_and_gates : forall sph spatvol vn ts w ts', project_gates Rops sph spatvol vn ts = Ok (w, ts') ->
  ts' = ts /\ w = project100 Rops vn /\
  99 / 100 <= area Rops w ts / sph /\ flipped_area Rops w ts / sph <= 8 / 10000 /\ 6 / 10 <= spatvol /\
  ((forall p, In p vn -> dot Rops p p <> 0) -> Forall (fun q => norm Rops q = 100) w).
Proof. exact project_gates_ok. Qed.
Print Assumptions C19_projection_radius_100_and_gates.

(* ... and therefore the returned mesh has unit surface area and its centroid at the origin (whenever the last answer of the
   solver spans a positive area) *)
Theorem C19_flow_result_unit_area_centroid_origin : forall solve, solve_contract solve ->
  forall v ts max_iter stop_eps step w ts', tris_in_range (length v) ts ->
  mean_curvature_flow Rops solve v ts max_iter stop_eps step = Ok (w, ts') ->
  exists X, w = normalize Rops X ts /\ length X = length v /\
    (0 < total_area X ts -> area Rops w ts = 1 /\ centroid Rops w ts = ((0, 0, 0), 1)).
Proof. exact flow_result_unit_area. Qed.
Print Assumptions C19_flow_result_unit_area_centroid_origin.

(* tria_spherical_project, from the eigenfunctions (an oracle's output) to the spectral embedding: every coordinate lies in
   [-1, 1]; and after the sign choices each eigenfunction is positively aligned with its axis: the mean position of the vertices
   where it is large lies at least as far along that axis (y for the first, z for the second, x for the third) as the mean
   position of the vertices where it is small *)
Theorem C19_embedding_in_unit_cube : forall v ev1 ev2 ev3 e, spectral_embedding Rops v ev1 ev2 ev3 = Ok e ->
  Forall (fun p => -1 <= vx p <= 1 /\ -1 <= vy p <= 1 /\ -1 <= vz p <= 1) (em_vn e).
Proof. exact embedding_in_cube. Qed.
Print Assumptions C19_embedding_in_unit_cube.
Theorem C19_embedding_axes_positively_aligned : forall v ev1 ev2 ev3 e, ev1 <> [] -> ev2 <> [] -> ev3 <> [] ->
  spectral_embedding Rops v ev1 ev2 ev3 = Ok e ->
  let '(a, b, c) := em_ev e in aligned v a 1 /\ aligned v b 2 /\ aligned v c 0.
Proof. exact embedding_axes_aligned. Qed.
Print Assumptions C19_embedding_axes_positively_aligned.
