(* Props/C02.v -- statements claimed for C02 (mass matrix = exact PL L2 product). *)
From Coq Require Import List Reals Permutation.
From LaPyV Require Import Base.Scalar Base.Vec3 Base.ListAux Base.Sparse Model.TetMesh Model.Fem
  Proofs.SparseP Proofs.TetMeshP Proofs.FemTriaP Proofs.FemTetP Proofs.FemMassEqP Proofs.FemInvarP Proofs.FemTetInvarP Proofs.MassInvarP.
Import ListNotations.
Open Scope R_scope.

Theorem C02_tria_symmetric : forall lump v ts i j,
  entry Rops (fem_tria_B Rops lump v ts) i j = entry Rops (fem_tria_B Rops lump v ts) j i.
Proof. exact fem_tria_B_sym. Qed.
Print Assumptions C02_tria_symmetric.

Theorem C02_tria_stored_entries_positive : forall lump v ts, tria_nondeg v ts ->
  Forall (fun '(_, _, a) => 0 < a) (fem_tria_B Rops lump v ts).
Proof. intros lump v ts H. exact (fem_tria_B_stored_positive lump v ts (tria_nondeg_vol4_pos v ts H)). Qed.
Print Assumptions C02_tria_stored_entries_positive.

(* entries sum to the total area (vol4/4 is the triangle area on non-degenerate meshes) *)
Theorem C02_tria_entries_sum_to_area : forall lump v ts,
  coo_sum_all Rops (fem_tria_B Rops lump v ts) = Rsum (fun t => tria_vol4_fn v ts t / 4) ts.
Proof. exact fem_tria_B_total. Qed.
Print Assumptions C02_tria_entries_sum_to_area.

Theorem C02_tria_vol4_is_four_areas : forall v t1 t2 t3,
  let '(p1, p2, p3) := tri_pts Rops v (t1, t2, t3) in tria_vol4_raw Rops v (t1, t2, t3) / 4 = tri_area p1 p2 p3.
Proof. exact tria_vol4_raw_area. Qed.
Print Assumptions C02_tria_vol4_is_four_areas.

(* x.B.y is the exact integral of the product of the interpolants: closed form ... *)
Theorem C02_tria_l2_closed_form : forall v ts f g,
  bilin Rops f (fem_tria_B Rops false v ts) g = Rsum (fun t => tria_mass_form f g (tria_vol4_fn v ts t / 4) t) ts.
Proof. exact fem_tria_B_full_form. Qed.
Print Assumptions C02_tria_l2_closed_form.

(* ... which equals the edge-midpoint quadrature (exact for quadratics) of the product *)
Theorem C02_tria_closed_form_is_midpoint_quadrature : forall f g a t,
  tria_mass_form f g a t = tria_mass_midpoint f g a t.
Proof. exact tria_mass_form_midpoint. Qed.
Print Assumptions C02_tria_closed_form_is_midpoint_quadrature.

(* lumped = diagonal matrix of the row sums of the full one *)
Theorem C02_tria_lumped_rowsums : forall v ts f,
  bilin Rops f (fem_tria_B Rops true v ts) (fun _ => 1) = bilin Rops f (fem_tria_B Rops false v ts) (fun _ => 1).
Proof. exact fem_tria_B_lumped_is_rowsum. Qed.
Print Assumptions C02_tria_lumped_rowsums.
Theorem C02_tria_lumped_diagonal : forall v ts i j, i <> j -> entry Rops (fem_tria_B Rops true v ts) i j = 0.
Proof. exact fem_tria_B_lumped_diagonal. Qed.
Print Assumptions C02_tria_lumped_diagonal.

(* tetrahedra *)
Theorem C02_tet_symmetric : forall lump v ts i j,
  entry Rops (fem_tet_B Rops lump v ts) i j = entry Rops (fem_tet_B Rops lump v ts) j i.
Proof. exact fem_tet_B_sym. Qed.
Print Assumptions C02_tet_symmetric.
Theorem C02_tet_stored_entries_positive : forall lump v ts, tet_nondeg v ts ->
  Forall (fun '(_, _, a) => 0 < a) (fem_tet_B Rops lump v ts).
Proof. intros lump v ts H. exact (fem_tet_B_stored_positive lump v ts (tet_nondeg_vols_pos v ts H)). Qed.
Print Assumptions C02_tet_stored_entries_positive.
Theorem C02_tet_entries_sum_to_volume : forall lump v ts,
  coo_sum_all Rops (fem_tet_B Rops lump v ts) = Rsum (fun t => tetra_vol6_fn v ts t / 6) ts.
Proof. exact fem_tet_B_total. Qed.
Print Assumptions C02_tet_entries_sum_to_volume.
Theorem C02_tet_l2_closed_form : forall v ts f g,
  bilin Rops f (fem_tet_B Rops false v ts) g = Rsum (fun t => tet_mass_form f g (tetra_vol6_fn v ts t / 6) t) ts.
Proof. exact fem_tet_B_full_form. Qed.
Print Assumptions C02_tet_l2_closed_form.
Theorem C02_tet_lumped_rowsums : forall v ts f,
  bilin Rops f (fem_tet_B Rops true v ts) (fun _ => 1) = bilin Rops f (fem_tet_B Rops false v ts) (fun _ => 1).
Proof. exact fem_tet_B_lumped_is_rowsum. Qed.
Print Assumptions C02_tet_lumped_rowsums.

(* the stand-alone routine Solver.fem_tria_mass (area from 0.5 sqrt, guard == 0) returns, entry by entry, the mass matrix that
   Solver(...) assembles (4 area from 2 sqrt, guard < eps), on every mesh without a degenerate triangle *)
Theorem C02_fem_tria_mass_equals_solver_mass : forall lump v ts, tria_nondeg v ts ->
  fem_tria_mass Rops lump v ts = fem_tria_B Rops lump v ts.
Proof. exact fem_tria_mass_is_solver_mass. Qed.
Print Assumptions C02_fem_tria_mass_equals_solver_mass.

(* ---- invariance under the way the mesh is written down (full and lumped): any of the six orders of the indices of each triangle
   and any reordering of the triangles ... *)
Theorem C02_tria_mass_invariant_under_index_order : forall lump v ts ts' f g, tria_nondeg v ts -> Forall2 variant ts ts' ->
  tria_nondeg v ts' /\ bil f (fem_tria_B Rops lump v ts') g = bil f (fem_tria_B Rops lump v ts) g.
Proof. exact tria_mass_invariant_under_index_order. Qed.
Print Assumptions C02_tria_mass_invariant_under_index_order.

Theorem C02_tria_mass_invariant_under_element_reordering : forall lump v ts ts' f g, tria_nondeg v ts -> Permutation ts ts' ->
  tria_nondeg v ts' /\ bil f (fem_tria_B Rops lump v ts') g = bil f (fem_tria_B Rops lump v ts) g.
Proof. exact tria_mass_invariant_under_element_order. Qed.
Print Assumptions C02_tria_mass_invariant_under_element_reordering.

(* ... and any of the 24 orders of the indices of each tetrahedron (either orientation), any reordering of the tetrahedra *)
Theorem C02_tet_mass_invariant_under_index_order : forall lump v ts ts' f g, tet_nondeg v ts -> Forall2 tvariant ts ts' ->
  tet_nondeg v ts' /\ bil f (fem_tet_B Rops lump v ts') g = bil f (fem_tet_B Rops lump v ts) g.
Proof. exact tet_mass_invariant_under_index_order. Qed.
Print Assumptions C02_tet_mass_invariant_under_index_order.

Theorem C02_tet_mass_invariant_under_element_reordering : forall lump v ts ts' f g, tet_nondeg v ts -> Permutation ts ts' ->
  tet_nondeg v ts' /\ bil f (fem_tet_B Rops lump v ts') g = bil f (fem_tet_B Rops lump v ts) g.
Proof. exact tet_mass_invariant_under_element_order. Qed.
Print Assumptions C02_tet_mass_invariant_under_element_reordering.
