(* Props/C06.v -- statements claimed for C06 (gradient / divergence), about Model/DiffGeo.v over R. *)
From Coq Require Import List Arith Reals.
From LaPyV Require Import Base.Scalar Base.Vec3 Base.ListAux Base.Sparse Model.TetMesh Model.TriaAdj Model.Fem Model.TriaGeom
  Model.DiffGeo Proofs.SparseP Proofs.FemTriaP Proofs.FemTetP Proofs.DiffGeoP Proofs.TetDivP Proofs.FemInvarP Proofs.FemTetInvarP Proofs.GradInvarP.
Import ListNotations.
Open Scope R_scope.

(* triangle gradient = gradient of the linear interpolant (the spec gradient characterised in C01), any orientation *)
Theorem C06_tria_gradient_is_interpolant_gradient : forall v f a b c, tri_guard_off v (a, b, c) ->
  let '(p0, p1, p2) := tri_pts Rops v (a, b, c) in
  tria_grad1 Rops v f (a, b, c) = tri_grad p0 p1 p2 (f a) (f b) (f c).
Proof. exact tria_grad1_is_spec. Qed.
Print Assumptions C06_tria_gradient_is_interpolant_gradient.

(* for affine data a.x+b it is the projection of a onto the triangle plane; it is always tangent (C01 characterisation) *)
Theorem C06_tria_gradient_of_affine_is_projection : forall p0 p1 p2 (a : vec3 R) b0, tri_NN p0 p1 p2 <> 0 ->
  tri_grad p0 p1 p2 (dot Rops a p0 + b0) (dot Rops a p1 + b0) (dot Rops a p2 + b0)
  = vsub Rops a (vscale Rops (dot Rops a (tri_N p0 p1 p2) / tri_NN p0 p1 p2) (tri_N p0 p1 p2)).
Proof. exact tri_grad_affine. Qed.
Print Assumptions C06_tria_gradient_of_affine_is_projection.

(* both divergence implementations are the negative adjoint, per element, for every field X *)
Theorem C06_tria_divergence_element_adjoint : forall v f a b c X, tri_guard_off v (a, b, c) ->
  let '(p0, p1, p2) := tri_pts Rops v (a, b, c) in
  let '(x0, x1, x2) := tria_div1 Rops v (a, b, c) X in
  1 / 2 * (f a * x0 + f b * x1 + f c * x2) = - (tri_area p0 p1 p2 * dot Rops X (tri_grad p0 p1 p2 (f a) (f b) (f c))).
Proof. exact tria_div1_adjoint. Qed.
Print Assumptions C06_tria_divergence_element_adjoint.
Theorem C06_tria_divergence2_element_adjoint : forall v f a b c X, tri_guard_off v (a, b, c) ->
  let '(p0, p1, p2) := tri_pts Rops v (a, b, c) in
  let '(x0, x1, x2) := tria_div2_1 Rops v (a, b, c) X in
  1 / 2 * (f a * x0 + f b * x1 + f c * x2) = - (tri_area p0 p1 p2 * dot Rops X (tri_grad p0 p1 p2 (f a) (f b) (f c))).
Proof. exact tria_div2_adjoint. Qed.
Print Assumptions C06_tria_divergence2_element_adjoint.

(* assembled: sum_i f_i div(X)_i = - sum_t area_t X_t . grad_t f for all f, all X, all meshes *)
Theorem C06_tria_divergence_is_negative_adjoint : forall v ts (f : nat -> R) (X : list (vec3 R)),
  Forall (tri_guard_off v) ts ->
  Rsum (fun k => f k * nth k (tria_compute_divergence Rops v ts X) 0) (iota (div_len (tri_flat ts)))
  = - Rsum (tria_pairing_rhs v f) (combine ts X).
Proof. exact tria_divergence_adjoint. Qed.
Print Assumptions C06_tria_divergence_is_negative_adjoint.

Theorem C06_tria_divergence_sums_to_zero : forall v ts (X : list (vec3 R)), Forall (tri_guard_off v) ts ->
  Rsum (fun k => nth k (tria_compute_divergence Rops v ts X) 0) (iota (div_len (tri_flat ts))) = 0.
Proof. exact tria_divergence_sums_to_zero. Qed.
Print Assumptions C06_tria_divergence_sums_to_zero.

(* div(grad g) = - A g with A the stiffness matrix of C01 *)
Theorem C06_tria_div_grad_is_minus_stiffness : forall v ts (f g : nat -> R),
  Forall (tri_guard_off v) ts -> tria_nondeg v ts ->
  Rsum (fun k => f k * nth k (tria_compute_divergence Rops v ts (map (tria_grad1 Rops v g) ts)) 0) (iota (div_len (tri_flat ts)))
  = - bilin Rops f (fem_tria_A Rops v ts) g.
Proof. exact tria_div_grad_is_minus_A. Qed.
Print Assumptions C06_tria_div_grad_is_minus_stiffness.

(* tetrahedra (code after fix e9245f1): gradient of the interpolant for EITHER orientation, exact on affine data *)
Theorem C06_tet_gradient_is_interpolant_gradient : forall v f a b c d, tet_guard_off v (a, b, c, d) ->
  let '(p0, p1, p2, p3) := tet_pts Rops v (a, b, c, d) in
  tet_grad1 Rops v f (a, b, c, d) = tet_grad p0 p1 p2 p3 (f a) (f b) (f c) (f d).
Proof. exact tet_grad1_is_spec. Qed.
Print Assumptions C06_tet_gradient_is_interpolant_gradient.
Theorem C06_tet_gradient_exact_on_affine : forall p0 p1 p2 p3 (a : vec3 R) b0, tet_det p0 p1 p2 p3 <> 0 ->
  tet_grad p0 p1 p2 p3 (dot Rops a p0 + b0) (dot Rops a p1 + b0) (dot Rops a p2 + b0) (dot Rops a p3 + b0) = a.
Proof. exact tet_grad_affine. Qed.
Print Assumptions C06_tet_gradient_exact_on_affine.
Theorem C06_tet_divergence_element_adjoint : forall v f a b c d X, tet_guard_off v (a, b, c, d) ->
  let '(p0, p1, p2, p3) := tet_pts Rops v (a, b, c, d) in
  let '(x0, x1, x2, x3) := tet_div1 Rops v (a, b, c, d) X in
  - (1 / 6 * (f a * x0 + f b * x1 + f c * x2 + f d * x3)) =
  - (tet_volume p0 p1 p2 p3 * dot Rops X (tet_grad p0 p1 p2 p3 (f a) (f b) (f c) (f d))).
Proof. exact tet_div1_adjoint. Qed.
Print Assumptions C06_tet_divergence_element_adjoint.

(* ---- tetrahedra, assembled: sum_i f_i div(X)_i = - sum_t vol_t X_t . grad_t f for all f and X, whatever the element orientation *)
Theorem C06_tet_divergence_is_negative_adjoint_of_gradient : forall v ts (f : nat -> R) (X : list V3),
  Forall (tet_guard_off v) ts ->
  Rsum (fun k => f k * nth k (tet_compute_divergence Rops v ts X) 0) (iota (div_len (tet_flat ts)))
  = - Rsum (tet_pairing_rhs v f) (combine ts X).
Proof. exact tet_divergence_adjoint. Qed.
Print Assumptions C06_tet_divergence_is_negative_adjoint_of_gradient.

(* div(grad g) = - A g on tetrahedral meshes, tested against every f *)
Theorem C06_tet_div_grad_is_minus_stiffness : forall v ts (f g : nat -> R),
  Forall (tet_guard_off v) ts -> tet_nondeg v ts ->
  Rsum (fun k => f k * nth k (tet_compute_divergence Rops v ts (map (tet_grad1 Rops v g) ts)) 0) (iota (div_len (tet_flat ts)))
  = - bil f (fem_tet_A Rops v ts) g.
Proof. exact tet_div_grad_is_minus_A. Qed.
Print Assumptions C06_tet_div_grad_is_minus_stiffness.

(* ---- the gradient of an element does not depend on how its indices are listed: any of the six orders of a non-degenerate triangle
   (either winding) and any of the 24 orders of a non-degenerate tetrahedron (either orientation) give the same vector *)
Theorem C06_tria_gradient_independent_of_index_order : forall v f t t', tri_guard_off v t -> variant t t' ->
  tri_guard_off v t' /\ tria_grad1 Rops v f t' = tria_grad1 Rops v f t.
Proof. exact tria_gradient_invariant_under_index_order. Qed.
Print Assumptions C06_tria_gradient_independent_of_index_order.

Theorem C06_tet_gradient_independent_of_index_order : forall v f t t', tet_guard_off v t -> tvariant t t' ->
  tet_guard_off v t' /\ tet_grad1 Rops v f t' = tet_grad1 Rops v f t.
Proof. exact tet_gradient_invariant_under_index_order. Qed.
Print Assumptions C06_tet_gradient_independent_of_index_order.
