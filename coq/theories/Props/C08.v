(* Props/C08.v -- statements claimed for C08 (geodesic and rotated functions), about Model/Geodesic.v over R, for every
   sparse solver meeting the contract of Proofs/PoissonP.v.  Whether SuperLU returns at all on the singular system is
   runtime behaviour outside any theorem (known finding F17). *)
From Coq Require Import List Arith Reals.
From LaPyV Require Import Base.Scalar Base.Vec3 Base.ListAux Base.Sparse Model.TetMesh Model.TriaAdj Model.Fem
  Model.DiffGeo Model.Poisson Model.Geodesic Proofs.PoissonP Proofs.GeodesicP.
Import ListNotations.
Open Scope R_scope.

Theorem C08_tria_geodesic_solves_system_and_has_min_zero : forall solve, solve_contract solve ->
  forall v ts f g, geodesic_tria Rops solve v ts f = Ok g -> v <> [] ->
  in_range (length v) (fem_tria_A Rops v ts) ->
  (forall k, (k < length v)%nat ->
     mulvec_at Rops (fem_tria_A Rops v ts) (vfun Rops g) k = nth k (geodesic_rhs_tria Rops v ts f) 0) /\
  Forall (fun x => 0 <= x) g /\ In 0 g.
Proof. exact geodesic_tria_spec. Qed.
Print Assumptions C08_tria_geodesic_solves_system_and_has_min_zero.

Theorem C08_tet_geodesic_solves_system_and_has_min_zero : forall solve, solve_contract solve ->
  forall v ts f g, geodesic_tet Rops solve v ts f = Ok g -> v <> [] ->
  in_range (length v) (fem_tet_A Rops v ts) ->
  (forall k, (k < length v)%nat ->
     mulvec_at Rops (fem_tet_A Rops v ts) (vfun Rops g) k = nth k (geodesic_rhs_tet Rops v ts f) 0) /\
  Forall (fun x => 0 <= x) g /\ In 0 g.
Proof. exact geodesic_tet_spec. Qed.
Print Assumptions C08_tet_geodesic_solves_system_and_has_min_zero.

Theorem C08_rotated_function_pinned_and_solves_system : forall solve, solve_contract solve ->
  forall v ts f r, rotated_tria Rops solve v ts f = Ok r -> (0 < length v)%nat ->
  in_range (length v) (fem_tria_A Rops v ts) ->
  nth 0 r 0 = 0 /\
  forall k, (0 < k < length v)%nat ->
    mulvec_at Rops (fem_tria_A Rops v ts) (vfun Rops r) k = nth k (rotated_rhs Rops v ts f) 0.
Proof. exact rotated_tria_spec. Qed.
Print Assumptions C08_rotated_function_pinned_and_solves_system.

(* the shift by the minimum yields a non-negative function attaining 0 *)
Theorem C08_min_shift : forall l, l <> [] -> Forall (fun x => 0 <= x) (shift_min Rops l) /\ In 0 (shift_min Rops l).
Proof. exact shift_min_spec. Qed.
Print Assumptions C08_min_shift.
