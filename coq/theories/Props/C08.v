(* Props/C08.v -- statements claimed for C08 (geodesic and rotated functions), about Model/Geodesic.v over R, for every
   sparse solver meeting the contract of Proofs/PoissonP.v.  Whether SuperLU returns at all on the singular system is
   runtime behaviour outside any theorem (known finding F17). *)
From Coq Require Import List Arith Reals.
From LaPyV Require Import Base.Scalar Base.Vec3 Base.ListAux Base.Sparse Model.TetMesh Model.TriaAdj Model.Fem
  Model.DiffGeo Model.Poisson Model.Geodesic Proofs.SparseP Proofs.FemTriaP Proofs.DiffGeoP Proofs.PoissonP Proofs.FemTetP Proofs.GeodesicP Proofs.GeodesicAffineP Proofs.TetDivP Model.TriaGeom Proofs.RotatedAffineP.
Import ListNotations.
Open Scope R_scope.

Theorem C08_tria_geodesic_solves_system_and_has_min_zero : forall solve, solve_contract solve ->
  forall v ts f g, geodesic_tria Rops solve v ts f = Ok g -> v <> [] ->
  in_range (length v) (fem_tria_A Rops v ts) ->
  (forall k, (k < length v)%nat ->
     mulvec_at Rops (fem_tria_A Rops v ts) (vfun Rops g) k = nth k (geodesic_rhs_tria Rops v ts f) 0) /\
  Forall (fun x => 0 <= x) g /\ In 0 g.
Proof. exact geodesic_tria_spec. Qed.
Print Assumptions C08_tria_geodesic_solves_system_and_has_min_zero.

Theorem C08_tet_geodesic_solves_system_and_has_min_zero : forall solve, solve_contract solve ->
  forall v ts f g, geodesic_tet Rops solve v ts f = Ok g -> v <> [] ->
  in_range (length v) (fem_tet_A Rops v ts) ->
  (forall k, (k < length v)%nat ->
     mulvec_at Rops (fem_tet_A Rops v ts) (vfun Rops g) k = nth k (geodesic_rhs_tet Rops v ts f) 0) /\
  Forall (fun x => 0 <= x) g /\ In 0 g.
Proof. exact geodesic_tet_spec. Qed.
Print Assumptions C08_tet_geodesic_solves_system_and_has_min_zero.

Theorem C08_rotated_function_pinned_and_solves_system : forall solve, solve_contract solve ->
  forall v ts f r, rotated_tria Rops solve v ts f = Ok r -> (0 < length v)%nat ->
  in_range (length v) (fem_tria_A Rops v ts) ->
  nth 0 r 0 = 0 /\
  forall k, (0 < k < length v)%nat ->
    mulvec_at Rops (fem_tria_A Rops v ts) (vfun Rops r) k = nth k (rotated_rhs Rops v ts f) 0.
Proof. exact rotated_tria_spec. Qed.
Print Assumptions C08_rotated_function_pinned_and_solves_system.

(* the shift by the minimum yields a non-negative function attaining 0 *)
Theorem C08_min_shift : forall l, l <> [] -> Forall (fun x => 0 <= x) (shift_min Rops l) /\ In 0 (shift_min Rops l).
Proof. exact shift_min_spec. Qed.
Print Assumptions C08_min_shift.

(* ---- exactness for affine functions on flat triangle meshes.  If f = a.x + b0 at the vertices of every triangle and the
   direction a lies in the plane of every triangle, the normalised gradient field is, triangle by triangle, the gradient of the
   unit-slope affine function u = (a/|a|).x ... *)
Theorem C08_normalised_gradient_of_affine_function_is_gradient_of_unit_slope_function : forall v ts a b0 (f : nat -> R),
  a <> (0, 0, 0) -> Forall (tri_guard_off v) ts -> Forall (affine_on v a b0 f) ts -> Forall (in_plane v a) ts ->
  map (unit_or_zero Rops) (map (tria_grad1 Rops v f) ts)
  = map (tria_grad1 Rops v (fun i => dotR (unit_dir a) (getv Rops v i))) ts.
Proof. exact geodesic_field_is_gradient_of_unit_slope. Qed.
Print Assumptions C08_normalised_gradient_of_affine_function_is_gradient_of_unit_slope_function.

(* ... so the right-hand side handed to the solver is -A u (tested against every phi): the unit-slope affine function decreasing
   along grad f, -u + const, satisfies the solved system A g = div(grad f / |grad f|) exactly *)
Theorem C08_affine_on_flat_mesh_right_hand_side_is_minus_A_u : forall v ts a b0 (fl : list R) (phi : nat -> R),
  a <> (0, 0, 0) -> Forall (tri_guard_off v) ts -> tria_nondeg v ts ->
  Forall (affine_on v a b0 (vfun Rops fl)) ts -> Forall (in_plane v a) ts ->
  Rsum (fun k => phi k * nth k (geodesic_rhs_tria Rops v ts fl) 0) (iota (div_len (tri_flat ts)))
  = - bil phi (fem_tria_A Rops v ts) (fun i => dotR (unit_dir a) (getv Rops v i)).
Proof. exact geodesic_rhs_of_affine_on_flat_mesh. Qed.
Print Assumptions C08_affine_on_flat_mesh_right_hand_side_is_minus_A_u.

(* ---- the rotated function of an affine function on a flat mesh (every triangle has the unit normal n, as tria_normals computes
   it): the field n x grad f whose divergence is taken is, triangle by triangle, the gradient of the affine function
   u = (n x a).x ... *)
Theorem C08_rotated_field_of_affine_function_is_gradient_of_quarter_turned_function : forall v ts n a b0 (f : nat -> R),
  Forall (tri_guard_off v) ts -> Forall (affine_on v a b0 f) ts -> Forall (in_plane v a) ts -> Forall (has_normal v n) ts ->
  map (fun '(m, g) => cross Rops m g) (combine (tria_normals Rops v ts) (map (tria_grad1 Rops v f) ts))
  = map (tria_grad1 Rops v (rot_u v n a)) ts.
Proof. exact rotated_field_is_gradient. Qed.
Print Assumptions C08_rotated_field_of_affine_function_is_gradient_of_quarter_turned_function.

(* ... whose slope n x a is orthogonal to a (and to n) and exactly as long as a: the level sets are turned by a quarter turn ... *)
Theorem C08_rotated_slope_is_orthogonal_to_and_as_long_as_the_gradient : forall v ts n a b0 (f : nat -> R),
  Forall (tri_guard_off v) ts -> Forall (affine_on v a b0 f) ts -> Forall (in_plane v a) ts -> Forall (has_normal v n) ts -> ts <> [] ->
  dotR (quarter_turn n a) a = 0 /\ dotR (quarter_turn n a) n = 0 /\ dotR (quarter_turn n a) (quarter_turn n a) = dotR a a.
Proof. exact rotated_slope_quarter_turn. Qed.
Print Assumptions C08_rotated_slope_is_orthogonal_to_and_as_long_as_the_gradient.

(* ... and the right-hand side handed to the solver is -A u (tested against every phi), so -u + u(vertex 0), an affine function whose
   gradient is orthogonal to and as long as grad f, satisfies the pinned system of compute_rotated_f exactly *)
Theorem C08_rotated_right_hand_side_of_affine_function_is_minus_A_u : forall v ts n a b0 (fl : list R) (phi : nat -> R),
  Forall (tri_guard_off v) ts -> tria_nondeg v ts -> Forall (affine_on v a b0 (vfun Rops fl)) ts -> Forall (in_plane v a) ts ->
  Forall (has_normal v n) ts ->
  Rsum (fun k => phi k * nth k (rotated_rhs Rops v ts fl) 0) (iota (div_len (tri_flat ts)))
  = - bil phi (fem_tria_A Rops v ts) (rot_u v n a).
Proof. exact rotated_rhs_of_affine_on_flat_mesh. Qed.
Print Assumptions C08_rotated_right_hand_side_of_affine_function_is_minus_A_u.

Example C08_rotated_hypotheses_are_satisfiable :
  Forall (tri_guard_off sq_v) sq_ts /\ tria_nondeg sq_v sq_ts /\ Forall (affine_on sq_v (1, 0, 0) 0 (vfun Rops [0; 1; 0; 1])) sq_ts /\
  Forall (in_plane sq_v (1, 0, 0)) sq_ts /\ Forall (has_normal sq_v (0, 0, 1)) sq_ts /\ quarter_turn (0, 0, 1) (1, 0, 0) = (0, 1, 0).
Proof. exact rotated_hypotheses_satisfiable. Qed.

(* ---- the same on ANY tetrahedral mesh, whatever the orientation of its elements: for f = a.x + b0 the normalised gradient
   field is the gradient of u = (a/|a|).x and the right-hand side is -A u *)
Theorem C08_tet_normalised_gradient_of_affine_function : forall v ts a b0 (f : nat -> R),
  a <> (0, 0, 0) -> Forall (tet_guard_off v) ts -> Forall (affine_on_tet v a b0 f) ts ->
  map (unit_or_zero Rops) (map (tet_grad1 Rops v f) ts)
  = map (tet_grad1 Rops v (fun i => dotR (unit_dir a) (getv Rops v i))) ts.
Proof. exact tet_geodesic_field_is_gradient_of_unit_slope. Qed.
Print Assumptions C08_tet_normalised_gradient_of_affine_function.

Theorem C08_tet_affine_right_hand_side_is_minus_A_u : forall v ts a b0 (fl : list R) (phi : nat -> R),
  a <> (0, 0, 0) -> Forall (tet_guard_off v) ts -> tet_nondeg v ts -> Forall (affine_on_tet v a b0 (vfun Rops fl)) ts ->
  Rsum (fun k => phi k * nth k (geodesic_rhs_tet Rops v ts fl) 0) (iota (div_len (tet_flat ts)))
  = - bil phi (fem_tet_A Rops v ts) (fun i => dotR (unit_dir a) (getv Rops v i)).
Proof. exact tet_geodesic_rhs_of_affine. Qed.
Print Assumptions C08_tet_affine_right_hand_side_is_minus_A_u.

Example C08_tet_affine_hypotheses_are_satisfiable :
  (1, 0, 0) <> ((0, 0, 0) : V3) /\ Forall (tet_guard_off ex_v) ex_ts /\ tet_nondeg ex_v ex_ts /\
  Forall (affine_on_tet ex_v (1, 0, 0) 0 (vfun Rops [0; 1; 0; 0])) ex_ts.
Proof. exact tet_affine_hypotheses_satisfiable. Qed.
