(* Props/C14.v -- statements claimed for C14 (what LaPy writes, LaPy reads back), about the token-level file model
   Model/IOText.v: a file is a stream of tokens and end-of-line markers; conversion between numbers and their text is
   abstracted (a float token carries its value), reading coordinates with dtype float32 is the parameter [round32].
   All statements hold for every vertex list, every connectivity list, every [round32] and every scalar type. *)
From Coq Require Import List Arith ZArith.
From LaPyV Require Import Base.ListAux Model.TetMesh Model.TriaAdj Model.IOText Proofs.IOTextP.
From LaPyV Require Model.IOFs Proofs.IOFsP.
Import ListNotations.

(* write_vtk then read_vtk: identical connectivity (values, order, winding), coordinates rounded to single precision *)
Theorem C14_vtk_tria_round_trip : forall (K : Type) (round32 : K -> K) (zK : Z -> K) (v : list (K * K * K)) (t : list tri),
  t <> [] -> read_vtk_tria round32 zK (write_vtk_tria v t) = Some (map (r3 round32) v, t).
Proof. exact @vtk_tria_round_trip. Qed.
Print Assumptions C14_vtk_tria_round_trip.
Theorem C14_vtk_tet_round_trip : forall (K : Type) (round32 : K -> K) (zK : Z -> K) (v : list (K * K * K)) (t : list tet),
  t <> [] -> read_vtk_tet round32 zK (write_vtk_tet v t) = Some (map (r3 round32) v, t).
Proof. exact @vtk_tet_round_trip. Qed.
Print Assumptions C14_vtk_tet_round_trip.

(* every proper line-prefix of a written file (truncation in the header, inside the vertex section, between the
   sections or inside the element section) yields no mesh *)
Theorem C14_vtk_tria_every_truncation_rejected : forall (K : Type) (round32 : K -> K) (zK : Z -> K) (v : list (K * K * K)) (t : list tri) n,
  write_vtk_tria v t = lines_of (vtk_lines tline 3 v t) /\
  (n < length (vtk_lines tline 3 v t) -> read_vtk_tria round32 zK (lines_of (firstn n (vtk_lines tline 3 v t))) = None).
Proof. intros. split; [apply write_vtk_tria_lines | apply vtk_tria_truncated]. Qed.
Print Assumptions C14_vtk_tria_every_truncation_rejected.
Theorem C14_vtk_tet_every_truncation_rejected : forall (K : Type) (round32 : K -> K) (zK : Z -> K) (v : list (K * K * K)) (t : list tet) n,
  write_vtk_tet v t = lines_of (vtk_lines qline 4 v t) /\
  (n < length (vtk_lines qline 4 v t) -> read_vtk_tet round32 zK (lines_of (firstn n (vtk_lines qline 4 v t))) = None).
Proof. intros. split; [apply write_vtk_tet_lines | apply vtk_tet_truncated]. Qed.
Print Assumptions C14_vtk_tet_every_truncation_rejected.

(* non-vacuity: a concrete file *)
Example C14_example : read_vtk_tria (fun x : Z => x) (fun z => z) (write_vtk_tria [(0, 0, 0); (1, 0, 0); (0, 1, 0)]%Z [(0, 1, 2); (2, 1, 0)])
  = Some ([(0, 0, 0); (1, 0, 0); (0, 1, 0)]%Z, [(0, 1, 2); (2, 1, 0)]).
Proof. vm_compute. reflexivity. Qed.

(* OFF files written by other tools per the format definition (any number of leading comment lines, "OFF", counts, vertex lines,
   faces "3 a b c") load to the mesh they describe, zero-based, coordinates rounded to single precision *)
Theorem C14_off_file_loads_to_described_mesh : forall (K : Type) (round32 : K -> K) (zK : Z -> K) comments (v : list (K * K * K)) (t : list tri),
  t <> [] -> read_off round32 zK (lines_of (off_lines comments v t)) = Some (map (r3 round32) v, t).
Proof. exact @off_file_loads. Qed.
Print Assumptions C14_off_file_loads_to_described_mesh.

(* files of the wrong kind yield no mesh *)
Theorem C14_wrong_kind_rejected : forall (K : Type) (round32 : K -> K) (zK : Z -> K) (v : list (K * K * K)),
  (forall t : list tet, t <> [] -> read_vtk_tria round32 zK (write_vtk_tet v t) = None) /\
  (forall t : list tri, t <> [] -> read_vtk_tet round32 zK (write_vtk_tria v t) = None) /\
  (forall t : list tri, read_off round32 zK (write_vtk_tria v t) = None).
Proof.
  intros. split; [intros; apply vtk_tet_file_rejected_by_tria_reader; assumption|].
  split; [intros; apply vtk_tria_file_rejected_by_tet_reader; assumption|intros; apply vtk_file_rejected_by_off_reader].
Qed.
Print Assumptions C14_wrong_kind_rejected.

(* FreeSurfer triangle surfaces (field-level model of the layout nibabel writes and of lapy/_read_geometry.py): what write_fssurf
   writes, read_fssurf reads back -- identical connectivity, coordinates as single precision, header information preserved
   (floats as formatted, head [20] or [2,0,20]); every prefix that ends before the end of the element section is rejected;
   a file that does not start with the triangle magic number is rejected *)
Theorem C14_freesurfer_round_trip : forall (K : Type) (r32 fmt10 : K -> K) stamp (v : list (K * K * K)) (t : list tri) info,
  match info with Some i => IOFsP.valid_head i | None => True end ->
  IOFs.read_fs (IOFs.write_fs r32 fmt10 stamp v t info)
  = IOFs.FsOk (map (IOFsP.r3 r32) v, t, option_map (IOFsP.info_back fmt10) info, stamp).
Proof. exact @IOFsP.fs_round_trip. Qed.
Print Assumptions C14_freesurfer_round_trip.
Theorem C14_freesurfer_truncation_rejected : forall (K : Type) (r32 fmt10 : K -> K) stamp (v : list (K * K * K)) (t : list tri) info n,
  IOFs.write_fs r32 fmt10 stamp v t info
    = IOFsP.fs_body r32 stamp v t ++ match info with Some i => IOFs.write_info fmt10 i | None => [] end /\
  (n < length (IOFsP.fs_body r32 stamp v t) -> exists e, IOFs.read_fs (firstn n (IOFsP.fs_body r32 stamp v t)) = IOFs.FsErr e).
Proof. intros. split; [apply IOFsP.write_fs_body|apply IOFsP.fs_truncated]. Qed.
Print Assumptions C14_freesurfer_truncation_rejected.
Theorem C14_freesurfer_wrong_magic_rejected : forall (K : Type) a b c (rest : IOFs.fsfile (K:=K)),
  IOFs.is_tria_magic a b c = false -> IOFs.read_fs (IOFs.FMagic a b c :: rest) = IOFs.FsErr IOFs.FsValueError.
Proof. exact @IOFsP.fs_wrong_magic. Qed.
Print Assumptions C14_freesurfer_wrong_magic_rejected.

(* Gmsh 2 ASCII tetrahedral files written by other tools per the format definition (arbitrary node / element ids and tag
   values, any constant number of tags, 1-based node numbers) load to the mesh they describe with zero-based indices *)
Theorem C14_gmsh_file_loads_zero_based : forall (K : Type) (round32 : K -> K) (zK : Z -> K) ver dsize
  (ns : list (Z * (K * K * K))) (es : list (Z * list Z * tet)) ntags,
  es <> [] -> Forall (fun e => length (snd (fst e)) = ntags) es ->
  read_gmsh round32 zK (lines_of (gmsh_lines ver dsize ns es)) = Some (map (fun n => r3 round32 (snd n)) ns, map snd es).
Proof. exact @gmsh_file_loads. Qed.
Print Assumptions C14_gmsh_file_loads_zero_based.

(* VTK files with TRIANGLE_STRIPS written by other tools load to the triangles the format definition assigns to every strip
   (strip_spec: triangle j of a strip is (pj, pj+1, pj+2), with the first two corners exchanged for odd j) *)
Theorem C14_vtk_triangle_strips_load : forall (K : Type) (round32 : K -> K) (zK : Z -> K) (v : list (K * K * K)) (ss : list (list nat)) total,
  concat (map strip_spec ss) <> [] ->
  read_vtk_tria round32 zK (lines_of (strips_file v ss total)) = Some (map (r3 round32) v, concat (map strip_spec ss)).
Proof. exact @vtk_strips_file_loads. Qed.
Print Assumptions C14_vtk_triangle_strips_load.
