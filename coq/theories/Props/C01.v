(* Props/C01.v -- statements claimed for C01 (stiffness matrix = exact PL Dirichlet form),
   about Model/Fem.v at exact real arithmetic.  Only statements closed by [exact]. *)
From Coq Require Import Permutation List Reals.
From LaPyV Require Import Base.Scalar Base.Vec3 Base.ListAux Base.Sparse Model.TetMesh Model.Fem
  Proofs.SparseP Proofs.TetMeshP Proofs.FemTriaP Proofs.FemTetP Proofs.FemAnisoP Proofs.FemInvarP Proofs.FemTetInvarP.
Import ListNotations.
Open Scope R_scope.

(* ---- triangles: symmetric, constants to zero (any geometry, any index pattern) *)
Theorem C01_tria_symmetric : forall v ts i j,
  entry Rops (fem_tria_A Rops v ts) i j = entry Rops (fem_tria_A Rops v ts) j i.
Proof. exact fem_tria_A_sym. Qed.
Print Assumptions C01_tria_symmetric.

Theorem C01_tria_constants_to_zero : forall v ts c i,
  mulvec_at Rops (fem_tria_A Rops v ts) (fun _ => c) i = 0.
Proof. exact fem_tria_A_rowsum. Qed.
Print Assumptions C01_tria_constants_to_zero.

(* ---- the spec gradient is the gradient of the linear interpolant *)
Theorem C01_tria_spec_gradient_characterised : forall p1 p2 p3 f1 f2 f3, tri_NN p1 p2 p3 <> 0 ->
  dot Rops (tri_grad p1 p2 p3 f1 f2 f3) (vsub Rops p2 p1) = f2 - f1 /\
  dot Rops (tri_grad p1 p2 p3 f1 f2 f3) (vsub Rops p3 p1) = f3 - f1 /\
  dot Rops (tri_grad p1 p2 p3 f1 f2 f3) (tri_N p1 p2 p3) = 0.
Proof. exact tri_grad_char. Qed.
Print Assumptions C01_tria_spec_gradient_characterised.

(* ---- f.A.g = sum over triangles of area * grad f . grad g, for all f g, all non-degenerate meshes *)
Theorem C01_tria_dirichlet_form : forall v ts f g, tria_nondeg v ts ->
  bilin Rops f (fem_tria_A Rops v ts) g = Rsum (tria_energy v f g) ts.
Proof. exact fem_tria_A_energy. Qed.
Print Assumptions C01_tria_dirichlet_form.

Theorem C01_tria_positive_semidefinite : forall v ts f, tria_nondeg v ts ->
  0 <= bilin Rops f (fem_tria_A Rops v ts) f.
Proof. exact fem_tria_A_psd. Qed.
Print Assumptions C01_tria_positive_semidefinite.

(* ---- finite entries: no division by zero in exact arithmetic *)
Theorem C01_tria_denominators_nonzero : forall v ts, tria_nondeg v ts ->
  Forall (fun vol => vol <> 0) (tria_vols4 Rops v ts).
Proof. exact fem_tria_A_denominators. Qed.
Print Assumptions C01_tria_denominators_nonzero.

(* ---- tetrahedra *)
Theorem C01_tet_symmetric : forall v ts i j,
  entry Rops (fem_tet_A Rops v ts) i j = entry Rops (fem_tet_A Rops v ts) j i.
Proof. exact fem_tet_A_sym. Qed.
Print Assumptions C01_tet_symmetric.

Theorem C01_tet_constants_to_zero : forall v ts c i,
  mulvec_at Rops (fem_tet_A Rops v ts) (fun _ => c) i = 0.
Proof. exact fem_tet_A_rowsum. Qed.
Print Assumptions C01_tet_constants_to_zero.

Theorem C01_tet_spec_gradient_characterised : forall p1 p2 p3 p4 f1 f2 f3 f4, tet_det p1 p2 p3 p4 <> 0 ->
  dot Rops (tet_grad p1 p2 p3 p4 f1 f2 f3 f4) (vsub Rops p2 p1) = f2 - f1 /\
  dot Rops (tet_grad p1 p2 p3 p4 f1 f2 f3 f4) (vsub Rops p3 p1) = f3 - f1 /\
  dot Rops (tet_grad p1 p2 p3 p4 f1 f2 f3 f4) (vsub Rops p4 p1) = f4 - f1.
Proof. exact tet_grad_char. Qed.
Print Assumptions C01_tet_spec_gradient_characterised.

Theorem C01_tet_dirichlet_form : forall v ts f g, tet_nondeg v ts ->
  bilin Rops f (fem_tet_A Rops v ts) g = Rsum (tet_energy v f g) ts.
Proof. exact fem_tet_A_energy. Qed.
Print Assumptions C01_tet_dirichlet_form.

Theorem C01_tet_positive_semidefinite : forall v ts f, tet_nondeg v ts ->
  0 <= bilin Rops f (fem_tet_A Rops v ts) f.
Proof. exact fem_tet_A_psd. Qed.
Print Assumptions C01_tet_positive_semidefinite.

Theorem C01_tet_denominators_nonzero : forall v ts, tet_nondeg v ts ->
  Forall (fun vol => vol <> 0) (tetra_vols6 Rops v ts).
Proof. exact fem_tet_A_denominators. Qed.
Print Assumptions C01_tet_denominators_nonzero.

(* ---- anisotropic variant *)
Theorem C01_aniso_symmetric : forall v ts u1 u2 am i j,
  entry Rops (fem_aniso_A Rops v ts u1 u2 am) i j = entry Rops (fem_aniso_A Rops v ts u1 u2 am) j i.
Proof. exact fem_aniso_A_sym. Qed.
Print Assumptions C01_aniso_symmetric.

Theorem C01_aniso_constants_to_zero : forall v ts u1 u2 am f c,
  bilin Rops f (fem_aniso_A Rops v ts u1 u2 am) (fun _ => c) = 0.
Proof. exact fem_aniso_A_const. Qed.
Print Assumptions C01_aniso_constants_to_zero.

Theorem C01_aniso_positive_semidefinite : forall v ts u1 u2 am f,
  Forall (fun x => 0 < x) (tria_vols4 Rops v ts) -> Forall (fun m => 0 <= fst m /\ 0 <= snd m) am ->
  0 <= bilin Rops f (fem_aniso_A Rops v ts u1 u2 am) f.
Proof. exact fem_aniso_A_psd. Qed.
Print Assumptions C01_aniso_positive_semidefinite.

(* weights produced from a non-negative anisotropy are in (0,1] *)
Theorem C01_aniso_weights_in_unit_interval : forall a0 a1 c1 c2, 0 <= a0 -> 0 <= a1 ->
  Forall (fun m => 0 < fst m <= 1 /\ 0 < snd m <= 1) (aniso_weights Rops a0 a1 c1 c2).
Proof. exact aniso_weights_range. Qed.
Print Assumptions C01_aniso_weights_in_unit_interval.

(* anisotropy 0 (weights 1,1) with an orthonormal in-plane frame: the element block is the isotropic one *)
Theorem C01_aniso_zero_is_isotropic_elementwise : forall v t1 t2 t3 u1 u2 vol f g, vol <> 0 ->
  let '(p1, p2, p3) := tri_pts Rops v (t1, t2, t3) in
  orthonormal2 u1 u2 -> in_span u1 u2 (vsub Rops p3 p2) -> in_span u1 u2 (vsub Rops p1 p3) ->
  bilin Rops f (stiff_block Rops (t1, t2, t3) (aniso_cots Rops v (t1, t2, t3) u1 u2 (1, 1) vol)) g =
  bilin Rops f (stiff_block Rops (t1, t2, t3) (tria_cots Rops v (t1, t2, t3) vol)) g.
Proof. exact aniso_elem_unit_weights. Qed.
Print Assumptions C01_aniso_zero_is_isotropic_elementwise.

(* weights in [0,1]: element energy never exceeds the isotropic element energy *)
Theorem C01_aniso_energy_le_isotropic_elementwise : forall v t1 t2 t3 u1 u2 m0 m1 vol f,
  0 < vol -> 0 <= m0 <= 1 -> 0 <= m1 <= 1 ->
  let '(p1, p2, p3) := tri_pts Rops v (t1, t2, t3) in
  orthonormal2 u1 u2 -> in_span u1 u2 (vsub Rops p3 p2) -> in_span u1 u2 (vsub Rops p1 p3) ->
  bilin Rops f (stiff_block Rops (t1, t2, t3) (aniso_cots Rops v (t1, t2, t3) u1 u2 (m0, m1) vol)) f <=
  bilin Rops f (stiff_block Rops (t1, t2, t3) (tria_cots Rops v (t1, t2, t3) vol)) f.
Proof. exact aniso_elem_le_iso. Qed.
Print Assumptions C01_aniso_energy_le_isotropic_elementwise.

(* non-vacuity of the non-degeneracy hypothesis *)
Theorem C01_nondegenerate_mesh_exists : tria_nondeg [(0, 0, 0); (1, 0, 0); (0, 1, 0)] [(0, 1, 2)%nat].
Proof. exact tria_nondeg_example. Qed.
Print Assumptions C01_nondegenerate_mesh_exists.

(* ---- invariance under the way the mesh is written down: any of the six orders of the three indices of each triangle
   (cyclic rotations and flips of the winding) ... *)
Theorem C01_stiffness_invariant_under_rotation_and_flip_of_index_triples : forall v ts ts' f g,
  tria_nondeg v ts -> Forall2 variant ts ts' ->
  tria_nondeg v ts' /\ bil f (fem_tria_A Rops v ts') g = bil f (fem_tria_A Rops v ts) g.
Proof. exact stiffness_form_invariant_under_index_order. Qed.
Print Assumptions C01_stiffness_invariant_under_rotation_and_flip_of_index_triples.

(* ... and any reordering of the triangles *)
Theorem C01_stiffness_invariant_under_element_reordering : forall v ts ts' f g,
  tria_nondeg v ts -> Permutation ts ts' ->
  tria_nondeg v ts' /\ bil f (fem_tria_A Rops v ts') g = bil f (fem_tria_A Rops v ts) g.
Proof. exact stiffness_form_invariant_under_element_order. Qed.
Print Assumptions C01_stiffness_invariant_under_element_reordering.

(* ---- the same for tetrahedra: any of the 24 orders of the four indices of each tetrahedron (generated by the three adjacent
   transpositions; either orientation) ... *)
Theorem C01_tetra_stiffness_invariant_under_any_order_of_index_quadruples : forall v ts ts' f g,
  tet_nondeg v ts -> Forall2 tvariant ts ts' ->
  tet_nondeg v ts' /\ bil f (fem_tet_A Rops v ts') g = bil f (fem_tet_A Rops v ts) g.
Proof. exact tet_stiffness_form_invariant_under_index_order. Qed.
Print Assumptions C01_tetra_stiffness_invariant_under_any_order_of_index_quadruples.

(* ... and any reordering of the tetrahedra *)
Theorem C01_tetra_stiffness_invariant_under_element_reordering : forall v ts ts' f g,
  tet_nondeg v ts -> Permutation ts ts' ->
  tet_nondeg v ts' /\ bil f (fem_tet_A Rops v ts') g = bil f (fem_tet_A Rops v ts) g.
Proof. exact tet_stiffness_form_invariant_under_element_order. Qed.
Print Assumptions C01_tetra_stiffness_invariant_under_element_reordering.

Example C01_tetra_orders_reach_reversal_and_cyclic_shift : forall a b c d : nat,
  tvariant (a, b, c, d) (d, c, b, a) /\ tvariant (a, b, c, d) (b, c, d, a).
Proof. exact tvariant_examples. Qed.
