(* Props/C11.v -- statements claimed for C11 (refine_), about Model/TriaRefine.v. *)
From Coq Require Import List Arith Reals.
From LaPyV Require Import Base.Scalar Base.Vec3 Base.ListAux Model.TetMesh Model.TriaAdj Model.TriaRefine
  Proofs.TriaAdjP Proofs.TriaRefineP Proofs.RefineTopoP.
Import ListNotations.
Close Scope R_scope.

(* existing vertices keep their indices and coordinates *)
Theorem C11_keeps_existing_vertices : forall (K : Type) (o : Ops K) v ts i, i < length v ->
  nth_error (fst (refine1 o (v, ts))) i = nth_error v i.
Proof. exact @refine1_keeps_old_vertices. Qed.
Print Assumptions C11_keeps_existing_vertices.

(* exactly one new vertex per unordered edge: the edge list is duplicate-free, contains every edge of every
   triangle, and the k-th new vertex is the midpoint of the k-th edge *)
Theorem C11_edge_list_duplicate_free : forall ts, NoDup (edge_list ts).
Proof. exact edge_list_nodup. Qed.
Print Assumptions C11_edge_list_duplicate_free.
Theorem C11_every_edge_listed : forall ts t a b, In t ts -> In (a, b) (sym1 t) -> a <> b -> In (ukey a b) (edge_list ts).
Proof. exact edge_in_list. Qed.
Print Assumptions C11_every_edge_listed.
Theorem C11_new_vertex_is_edge_midpoint : forall (K : Type) (o : Ops K) v ts k e, nth_error (edge_list ts) k = Some e ->
  nth_error (fst (refine1 o (v, ts))) (length v + k) = Some (midpoint o v e).
Proof. exact @refine1_new_vertex_is_midpoint. Qed.
Print Assumptions C11_new_vertex_is_edge_midpoint.
Theorem C11_vertex_count_grows_by_edge_count : forall (K : Type) (o : Ops K) v ts,
  length (fst (refine1 o (v, ts))) = length v + length (edge_list ts).
Proof. exact @refine1_vertex_count. Qed.
Print Assumptions C11_vertex_count_grows_by_edge_count.

(* the triangle count quadruples; the children of parent k sit at 4k..4k+3 *)
Theorem C11_triangle_count_quadruples : forall (K : Type) (o : Ops K) v ts,
  length (snd (refine1 o (v, ts))) = 4 * length ts.
Proof. exact @refine1_triangle_count. Qed.
Print Assumptions C11_triangle_count_quadruples.
Theorem C11_children_follow_parent_order : forall (K : Type) (o : Ops K) v ts k t, nth_error ts k = Some t ->
  firstn 4 (skipn (4 * k) (snd (refine1 o (v, ts)))) = children (length v) (edge_list ts) t.
Proof. exact @refine1_children_of_parent. Qed.
Print Assumptions C11_children_follow_parent_order.

(* the vertex used by a child on edge {a,b} is that edge's midpoint vertex *)
Theorem C11_child_edge_vertex_is_midpoint : forall (K : Type) (o : Ops K) v ts t a b,
  In t ts -> In (a, b) (sym1 t) -> a <> b ->
  exists k, edge_idx (length v) (edge_list ts) a b = length v + k /\
            nth_error (fst (refine1 o (v, ts))) (length v + k) = Some (midpoint o v (ukey a b)).
Proof. exact @edge_vertex_position. Qed.
Print Assumptions C11_child_edge_vertex_is_midpoint.

(* geometry: each of the four children (in the code's vertex order) has exactly a quarter of the parent's
   cross product: coplanar, same winding, areas sum to the parent's *)
Theorem C11_children_have_quarter_cross_product : forall pa pb pc,
  let e1 := mid pa pb in let e2 := mid pb pc in let e3 := mid pc pa in
  crossR3 pa e1 e3 = quarter (crossR3 pa pb pc) /\
  crossR3 pb e2 e1 = quarter (crossR3 pa pb pc) /\
  crossR3 pc e3 e2 = quarter (crossR3 pa pb pc) /\
  crossR3 e1 e2 e3 = quarter (crossR3 pa pb pc).
Proof. exact children_cross_quarter. Qed.
Print Assumptions C11_children_have_quarter_cross_product.

(* enclosed volume: the children's cones from the origin sum to the parent's *)
Theorem C11_children_cone_volumes_sum : forall pa pb pc,
  let e1 := mid pa pb in let e2 := mid pb pc in let e3 := mid pc pa in
  (cone pa e1 e3 + cone pb e2 e1 + cone pc e3 e2 + cone e1 e2 e3 = cone pa pb pc)%R.
Proof. exact children_cones_sum. Qed.
Print Assumptions C11_children_cone_volumes_sum.

(* centroid: the children's (equal-area) centres sum to four times the parent's *)
Theorem C11_children_centres_sum : forall pa pb pc,
  let e1 := mid pa pb in let e2 := mid pb pc in let e3 := mid pc pa in
  vadd Rops (vadd Rops (vadd Rops (vadd Rops (vadd Rops pa e1) e3) (vadd Rops (vadd Rops pb e2) e1))
                       (vadd Rops (vadd Rops pc e3) e2)) (vadd Rops (vadd Rops e1 e2) e3)
  = vscale Rops 4%R (vadd Rops (vadd Rops pa pb) pc).
Proof. exact children_centres_sum. Qed.
Print Assumptions C11_children_centres_sum.

(* refine_(it) is it successive single steps *)
Theorem C11_refine_is_iterated_single_step : forall (K : Type) (o : Ops K) a b m,
  refine o (a + b) m = refine o b (refine o a m).
Proof. exact @refine_iter. Qed.
Print Assumptions C11_refine_is_iterated_single_step.
Theorem C11_refine_zero_is_identity : forall (K : Type) (o : Ops K) m, refine o 0 m = m.
Proof. exact @refine_zero. Qed.
Print Assumptions C11_refine_zero_is_identity.

(* ---- topology.  For every mesh (any topology, several components, boundary or not) with distinct vertices per triangle, all
   indices below the vertex count, and no two triangles on the same three vertices ([simplicial]): the refined mesh is oriented /
   edge-manifold / closed exactly when the original is.  Proved through exact half-edge counts of the children (RefineTopoP). *)
Theorem C11_refinement_keeps_orientedness_manifoldness_closedness : forall (K : Type) (o : Ops K) v ts,
  Forall distinct_tri ts -> in_range (length v) ts -> simplicial ts ->
  is_oriented (snd (refine1 o (v, ts))) = is_oriented ts /\
  is_manifold (snd (refine1 o (v, ts))) = is_manifold ts /\
  is_closed (snd (refine1 o (v, ts))) = is_closed ts.
Proof. exact @refine1_topology. Qed.
Print Assumptions C11_refinement_keeps_orientedness_manifoldness_closedness.

(* closedness needs no hypothesis on repeated vertex sets *)
Theorem C11_refinement_keeps_closedness : forall (K : Type) (o : Ops K) v ts,
  Forall distinct_tri ts -> in_range (length v) ts -> is_closed (snd (refine1 o (v, ts))) = is_closed ts.
Proof. exact @refine1_closed. Qed.
Print Assumptions C11_refinement_keeps_closedness.

(* the half-edge from an old vertex x to the new vertex on the parent edge {x, q} is traversed as often as x -> q *)
Theorem C11_half_edges_of_children : forall n ts, Forall distinct_tri ts -> in_range n ts -> forall x y, x < n -> n <= y ->
  hedge_count (flat_map (children n (edge_list ts)) ts) x y =
    match nth_error (edge_list ts) (y - n) with
    | Some k => match other_end k x with Some q => hedge_count ts x q | None => 0 end
    | None => 0
    end.
Proof. exact hedge_old_new. Qed.
Print Assumptions C11_half_edges_of_children.

(* the hypothesis [simplicial] cannot be dropped: the tetrahedron + pillow mesh of finding F25 is closed, manifold and oriented,
   its refinement is neither manifold nor oriented *)
Theorem C11_topology_unchanged_without_simplicial_refuted :
  exists ts n, Forall distinct_tri ts /\ in_range n ts /\ is_manifold ts = true /\ is_oriented ts = true /\
    is_manifold (flat_map (children n (edge_list ts)) ts) = false /\ is_oriented (flat_map (children n (edge_list ts)) ts) = false.
Proof. exact pillow_refinement_refuted. Qed.
Print Assumptions C11_topology_unchanged_without_simplicial_refuted.

(* the hypotheses hold for concrete meshes, e.g. the tetrahedron surface with one flipped triangle *)
Example C11_topology_hypotheses_are_satisfiable : Forall distinct_tri c11_tetra /\ in_range 4 c11_tetra /\ simplicial c11_tetra.
Proof. exact topology_hypotheses_satisfiable. Qed.
