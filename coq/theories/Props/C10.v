(* Props/C10.v -- statements claimed for C10 (orient_), about Model/TriaOrient.v. *)
From Coq Require Import List Arith Permutation Reals.
From LaPyV Require Import Base.Scalar Base.Vec3 Base.ListAux Model.TetMesh Model.TriaAdj Model.TriaOrient
  Proofs.TriaAdjP Proofs.TriaOrientP.
Import ListNotations.
Close Scope R_scope.

(* triangle order and each triangle's vertex set are unchanged (any scalar arithmetic) *)
Theorem C10_keeps_order_and_vertex_sets : forall (K : Type) (o : Ops K) v ts ts' n,
  orient o v ts = Ok (ts', n) ->
  Forall2 (fun t t' => Permutation (tri_verts t') (tri_verts t)) ts ts'.
Proof. exact @orient_keeps_order_and_sets. Qed.
Print Assumptions C10_keeps_order_and_vertex_sets.

(* the result is the input with one transposition on flagged triangles, then possibly one on all;
   the return value counts the triangles that received an odd number (winding changed) *)
Theorem C10_return_value_counts_changed_windings : forall (K : Type) (o : Ops K) v ts ts' n,
  orient o v ts = Ok (ts', n) ->
  exists gl flags, length flags = length ts /\ ts' = apply_flags gl ts flags /\
                   n = count_if (fun f => xorb f gl) flags.
Proof. exact @orient_structure. Qed.
Print Assumptions C10_return_value_counts_changed_windings.

(* flipping every triangle negates the enclosed volume ... *)
Theorem C10_global_flip_negates_volume : forall v ts,
  sumK Rops (map (tri_spat Rops v) (map flip12 ts)) = (- sumK Rops (map (tri_spat Rops v) ts))%R.
Proof. exact volume_sum_flip_all. Qed.
Print Assumptions C10_global_flip_negates_volume.

(* ... so whenever orient_ evaluated the volume of a closed oriented stage-1 result, the mesh it returns
   has non-negative enclosed volume *)
Theorem C10_closed_result_volume_nonneg : forall v ts ts' n, orient Rops v ts = Ok (ts', n) ->
  exists ts1, (ts' = ts1 \/ ts' = map flip12 ts1) /\
              (is_closed ts1 = true -> is_oriented ts1 = true ->
               (0 <= sumK Rops (map (tri_spat Rops v) ts') / 6)%R).
Proof. exact orient_volume_nonneg. Qed.
Print Assumptions C10_closed_result_volume_nonneg.

(* an edge in more than two triangles is rejected with ValueError *)
Theorem C10_rejects_edge_in_three_triangles : forall (K : Type) (o : Ops K) v ts i j,
  Forall distinct_tri ts -> i < j -> tri_count ts i j >= 3 -> orient o v ts = Err ValueError.
Proof. exact @orient_rejects_nonmanifold. Qed.
Print Assumptions C10_rejects_edge_in_three_triangles.

(* an oriented mesh (open, or closed with non-negative enclosed volume) is a fixed point of orient_: unchanged, 0 returned *)
Theorem C10_oriented_mesh_is_fixed_point : forall v ts, is_oriented ts = true ->
  (is_closed ts = false \/ (0 <= sumK Rops (map (tri_spat Rops v) ts) / 6)%R) ->
  orient Rops v ts = Ok (ts, 0).
Proof. exact orient_fixed_point. Qed.
Print Assumptions C10_oriented_mesh_is_fixed_point.
