(* Props/C10.v -- statements claimed for C10 (orient_), about Model/TriaOrient.v. *)
From Coq Require Import List Arith Permutation Reals.
From LaPyV Require Import Base.Scalar Base.Vec3 Base.ListAux Model.TetMesh Model.TriaAdj Model.TriaOrient
  Proofs.TriaAdjP Proofs.TriaOrientP Proofs.FloodP Proofs.OrientCorrectP.
Import ListNotations.
Close Scope R_scope.

(* triangle order and each triangle's vertex set are unchanged (any scalar arithmetic) *)
Theorem C10_keeps_order_and_vertex_sets : forall (K : Type) (o : Ops K) v ts ts' n,
  orient o v ts = Ok (ts', n) ->
  Forall2 (fun t t' => Permutation (tri_verts t') (tri_verts t)) ts ts'.
Proof. exact @orient_keeps_order_and_sets. Qed.
Print Assumptions C10_keeps_order_and_vertex_sets.

(* the result is the input with one transposition on flagged triangles, then possibly one on all;
   the return value counts the triangles that received an odd number (winding changed) *)
Theorem C10_return_value_counts_changed_windings : forall (K : Type) (o : Ops K) v ts ts' n,
  orient o v ts = Ok (ts', n) ->
  exists gl flags, length flags = length ts /\ ts' = apply_flags gl ts flags /\
                   n = count_if (fun f => xorb f gl) flags.
Proof. exact @orient_structure. Qed.
Print Assumptions C10_return_value_counts_changed_windings.

(* flipping every triangle negates the enclosed volume ... *)
Theorem C10_global_flip_negates_volume : forall v ts,
  sumK Rops (map (tri_spat Rops v) (map flip12 ts)) = (- sumK Rops (map (tri_spat Rops v) ts))%R.
Proof. exact volume_sum_flip_all. Qed.
Print Assumptions C10_global_flip_negates_volume.

(* ... so whenever orient_ evaluated the volume of a closed oriented stage-1 result, the mesh it returns
   has non-negative enclosed volume *)
Theorem C10_closed_result_volume_nonneg : forall v ts ts' n, orient Rops v ts = Ok (ts', n) ->
  exists ts1, (ts' = ts1 \/ ts' = map flip12 ts1) /\
              (is_closed ts1 = true -> is_oriented ts1 = true ->
               (0 <= sumK Rops (map (tri_spat Rops v) ts') / 6)%R).
Proof. exact orient_volume_nonneg. Qed.
Print Assumptions C10_closed_result_volume_nonneg.

(* an edge in more than two triangles is rejected with ValueError *)
Theorem C10_rejects_edge_in_three_triangles : forall (K : Type) (o : Ops K) v ts i j,
  Forall distinct_tri ts -> i < j -> tri_count ts i j >= 3 -> orient o v ts = Err ValueError.
Proof. exact @orient_rejects_nonmanifold. Qed.
Print Assumptions C10_rejects_edge_in_three_triangles.

(* an oriented mesh (open, or closed with non-negative enclosed volume) is a fixed point of orient_: unchanged, 0 returned *)
Theorem C10_oriented_mesh_is_fixed_point : forall v ts, is_oriented ts = true ->
  (is_closed ts = false \/ (0 <= sumK Rops (map (tri_spat Rops v) ts) / 6)%R) ->
  orient Rops v ts = Ok (ts, 0).
Proof. exact orient_fixed_point. Qed.
Print Assumptions C10_oriented_mesh_is_fixed_point.

(* ---- the central claim.  For every edge-manifold ([manifold]: no edge in more than two triangles), orientable ([orientable]: some
   choice of triangles to flip makes every directed half-edge unique) mesh in which each triangle shares an edge with another one
   ([shares_edge]), one or several components, any pattern of flipped triangles, any triangle numbering, two-triangle pillows
   included: orient_ terminates within its fuel, raises nothing, and the triangles it returns are consistently oriented.
   The hypotheses are the brute-force definitions of Proofs/TriaAdjP.v, not the model's own sparse-matrix queries. *)
Theorem C10_orient_terminates_and_result_is_oriented : forall (K : Type) (o : Ops K) v ts,
  Forall distinct_tri ts -> ts <> [] -> manifold ts -> shares_edge ts -> orientable ts ->
  exists ts' n, orient o v ts = Ok (ts', n) /\ is_oriented ts' = true.
Proof. exact @orient_correct. Qed.
Print Assumptions C10_orient_terminates_and_result_is_oriented.

(* the flood itself, for every symmetric sign-consistent neighbour table (several components, repeated entries): within S n
   iterations every triangle carries a positive multiple of sg a * kappa a with kappa constant along every entry *)
Theorem C10_flood_reaches_every_triangle_with_a_consistent_sign : forall (e : list (nat * nat * Z)) n (sg : nat -> Z),
  (forall a, sg a = 1%Z \/ sg a = (-1)%Z) ->
  (forall a b s, In (a, b, s) e -> In (b, a, s) e) ->
  (forall a b s, In (a, b, s) e -> a <> b /\ a < n /\ b < n /\ s = (sg a * sg b)%Z) ->
  0 < n ->
  exists v kap, flood (S n) e n (column e n 0) = Ok v /\ length v = n /\ kconst e kap /\
    forall a, a < n -> exists x m, val v a = Some x /\ (m > 0)%Z /\ x = (m * (sg a * kap a))%Z.
Proof. exact flood_correct. Qed.
Print Assumptions C10_flood_reaches_every_triangle_with_a_consistent_sign.

(* a second call returns 0 and changes nothing *)
Theorem C10_second_call_returns_zero_and_changes_nothing : forall v ts ts' n,
  Forall distinct_tri ts -> ts <> [] -> manifold ts -> shares_edge ts -> orientable ts ->
  orient Rops v ts = Ok (ts', n) -> orient Rops v ts' = Ok (ts', 0).
Proof. exact orient_idempotent. Qed.
Print Assumptions C10_second_call_returns_zero_and_changes_nothing.

(* if the mesh is closed, the returned mesh encloses a non-negative volume (one closed component: normals point outward) *)
Theorem C10_closed_result_encloses_nonnegative_volume : forall v ts ts' n,
  Forall distinct_tri ts -> ts <> [] -> manifold ts -> shares_edge ts -> orientable ts -> is_closed ts = true ->
  orient Rops v ts = Ok (ts', n) -> (0 <= sumK Rops (map (tri_spat Rops v) ts') / 6)%R.
Proof. exact orient_closed_volume_nonneg. Qed.
Print Assumptions C10_closed_result_encloses_nonnegative_volume.

(* the hypotheses are met by concrete meshes (here: a tetrahedron with one flipped triangle followed by a pillow whose two
   triangles run the same way -- the input on which the unrepaired code raised ValueError, finding F24) *)
Definition c10_witness : list tri := [(0, 2, 1); (0, 3, 1); (1, 2, 3); (2, 0, 3); (4, 5, 6); (4, 5, 6)].
Example C10_hypotheses_are_satisfiable :
  Forall distinct_tri c10_witness /\ c10_witness <> [] /\ manifold c10_witness /\ shares_edge c10_witness /\ orientable c10_witness /\
  is_oriented c10_witness = false.
Proof.
  assert (Hd : Forall distinct_tri c10_witness) by (apply distinct_b_ok; vm_compute; reflexivity).
  split; [exact Hd|]. split; [discriminate|]. split; [apply manifold_b_ok; [exact Hd|vm_compute; reflexivity]|].
  split; [apply shares_edge_b_ok; vm_compute; reflexivity|].
  split; [|vm_compute; reflexivity].
  apply (orientable_b_ok c10_witness [false; true; false; false; false; true] Hd); [discriminate|reflexivity|vm_compute; reflexivity].
Qed.
