(* Props/C05.v -- statements claimed for C05 (Poisson solver), about Model/Poisson.v over R, for EVERY
   solve routine meeting the contract "returns a solution of the system it is given". *)
From Coq Require Import List Arith Reals.
From LaPyV Require Import Base.Scalar Base.ListAux Base.Sparse Model.TriaAdj Model.Poisson Proofs.PoissonP Proofs.PoissonSuperP.
Import ListNotations.
Open Scope R_scope.

(* (holds for any solver at all: the prescribed values are written after the solve) *)
Theorem C05_dirichlet_values_exact : forall solve dim A B h didx ddat ntup X p,
  poisson Rops solve dim A B h (Some (didx, ddat)) ntup = Ok X ->
  Forall (fun i => (i < dim)%nat) didx -> (p < length didx)%nat ->
  nth (nth p didx 0%nat) X 0 = nth p ddat 0.
Proof. exact poisson_dirichlet_exact. Qed.
Print Assumptions C05_dirichlet_values_exact.

Theorem C05_equation_at_every_other_vertex : forall solve, solve_contract solve ->
  forall dim A B h didx ddat ntup X k,
  poisson Rops solve dim A B h (Some (didx, ddat)) ntup = Ok X ->
  in_range dim A -> (k < dim)%nat -> ~ In k didx ->
  mulvec_at Rops A (vfun Rops X) k =
  mulvec_at Rops B (fun j => hfun Rops dim h j - scatter_at Rops (match ntup with Some (i, d) => combine i d | None => [] end) j) k.
Proof. exact poisson_equation_at_free_vertices. Qed.
Print Assumptions C05_equation_at_every_other_vertex.

Theorem C05_rejects_duplicate_dirichlet_indices : forall solve dim A B h didx ddat ntup,
  has_dup didx = true -> (match h with HVector l => length l = dim | HScalar _ => True end) ->
  poisson Rops solve dim A B h (Some (didx, ddat)) ntup = Err ValueError.
Proof. exact poisson_rejects_duplicates. Qed.
Print Assumptions C05_rejects_duplicate_dirichlet_indices.

Theorem C05_rejects_mismatched_lengths : forall solve dim A B h didx ddat ntup,
  length didx <> length ddat -> poisson Rops solve dim A B h (Some (didx, ddat)) ntup = Err ValueError.
Proof. exact poisson_rejects_length_mismatch. Qed.
Print Assumptions C05_rejects_mismatched_lengths.

Theorem C05_rejects_wrong_size_rhs : forall solve dim A B l dtup ntup,
  length l <> dim -> poisson Rops solve dim A B (HVector l) dtup ntup = Err ValueError.
Proof. exact poisson_rejects_wrong_size_h. Qed.
Print Assumptions C05_rejects_wrong_size_rhs.

(* ---- linear dependence on (right-hand side, Dirichlet data, Neumann data).  Whenever the Dirichlet problem on the free
   vertices has only the trivial solution ([dirichlet_problem_unique]: at least one pinned vertex per component of a stiffness
   matrix), three successful calls whose Dirichlet data and right-hand sides B (h - n) combine linearly return vectors that combine
   in the same way -- for every solver meeting the contract *)
Theorem C05_result_depends_linearly_on_the_data : forall solve, solve_contract solve ->
  forall dim A B didx h1 h2 h3 d1 d2 d3 n1 n2 n3 X1 X2 X3 (a b : R),
  poisson Rops solve dim A B h1 (Some (didx, d1)) n1 = Ok X1 ->
  poisson Rops solve dim A B h2 (Some (didx, d2)) n2 = Ok X2 ->
  poisson Rops solve dim A B h3 (Some (didx, d3)) n3 = Ok X3 ->
  in_range dim A -> Forall (fun i => (i < dim)%nat) didx ->
  (forall p, (p < length didx)%nat -> nth p d3 0 = a * nth p d1 0 + b * nth p d2 0) ->
  (forall k, (k < dim)%nat -> ~ In k didx -> rhs_of dim B h3 n3 k = a * rhs_of dim B h1 n1 k + b * rhs_of dim B h2 n2 k) ->
  dirichlet_problem_unique dim A didx ->
  forall k, (k < dim)%nat -> nth k X3 0 = a * nth k X1 0 + b * nth k X2 0.
Proof. exact poisson_superposition. Qed.
Print Assumptions C05_result_depends_linearly_on_the_data.

(* the right-hand sides do combine linearly, e.g. for per-vertex vectors without Neumann data *)
Theorem C05_right_hand_sides_combine_linearly : forall dim B (l1 l2 l3 : list R) a b k,
  (forall j, nth j l3 0 = a * nth j l1 0 + b * nth j l2 0) ->
  rhs_of dim B (HVector l3) None k = a * rhs_of dim B (HVector l1) None k + b * rhs_of dim B (HVector l2) None k.
Proof. exact rhs_of_vectors. Qed.
Print Assumptions C05_right_hand_sides_combine_linearly.

Example C05_uniqueness_hypothesis_is_satisfiable : dirichlet_problem_unique 2 c05_A [0%nat].
Proof. exact uniqueness_hypothesis_satisfiable. Qed.
