(* Props/C05.v -- statements claimed for C05 (Poisson solver), about Model/Poisson.v over R, for EVERY
   solve routine meeting the contract "returns a solution of the system it is given". *)
From Coq Require Import List Arith Reals.
From LaPyV Require Import Base.Scalar Base.ListAux Base.Sparse Model.TriaAdj Model.Poisson Proofs.PoissonP.
Import ListNotations.
Open Scope R_scope.

(* (holds for any solver at all: the prescribed values are written after the solve) *)
Theorem C05_dirichlet_values_exact : forall solve dim A B h didx ddat ntup X p,
  poisson Rops solve dim A B h (Some (didx, ddat)) ntup = Ok X ->
  Forall (fun i => (i < dim)%nat) didx -> (p < length didx)%nat ->
  nth (nth p didx 0%nat) X 0 = nth p ddat 0.
Proof. exact poisson_dirichlet_exact. Qed.
Print Assumptions C05_dirichlet_values_exact.

Theorem C05_equation_at_every_other_vertex : forall solve, solve_contract solve ->
  forall dim A B h didx ddat ntup X k,
  poisson Rops solve dim A B h (Some (didx, ddat)) ntup = Ok X ->
  in_range dim A -> (k < dim)%nat -> ~ In k didx ->
  mulvec_at Rops A (vfun Rops X) k =
  mulvec_at Rops B (fun j => hfun Rops dim h j - scatter_at Rops (match ntup with Some (i, d) => combine i d | None => [] end) j) k.
Proof. exact poisson_equation_at_free_vertices. Qed.
Print Assumptions C05_equation_at_every_other_vertex.

Theorem C05_rejects_duplicate_dirichlet_indices : forall solve dim A B h didx ddat ntup,
  has_dup didx = true -> (match h with HVector l => length l = dim | HScalar _ => True end) ->
  poisson Rops solve dim A B h (Some (didx, ddat)) ntup = Err ValueError.
Proof. exact poisson_rejects_duplicates. Qed.
Print Assumptions C05_rejects_duplicate_dirichlet_indices.

Theorem C05_rejects_mismatched_lengths : forall solve dim A B h didx ddat ntup,
  length didx <> length ddat -> poisson Rops solve dim A B h (Some (didx, ddat)) ntup = Err ValueError.
Proof. exact poisson_rejects_length_mismatch. Qed.
Print Assumptions C05_rejects_mismatched_lengths.

Theorem C05_rejects_wrong_size_rhs : forall solve dim A B l dtup ntup,
  length l <> dim -> poisson Rops solve dim A B (HVector l) dtup ntup = Err ValueError.
Proof. exact poisson_rejects_wrong_size_h. Qed.
Print Assumptions C05_rejects_wrong_size_rhs.
