(* Props/C18.v -- statements claimed for C18 (conformal maps), about Model/Conformal.v over R. *)
From Coq Require Import List Arith ZArith Reals.
From LaPyV Require Import Base.Scalar Base.Vec3 Base.ListAux Base.Sparse Model.TetMesh Model.TriaAdj Model.Conformal Proofs.ConformalP.
Import ListNotations.
Open Scope R_scope.

(* stereographic / inverse_stereographic: unit sphere, mutually inverse (away from the pole) *)
Theorem C18_inverse_stereographic_on_unit_sphere : forall w : R * R,
  dot Rops (inverse_stereographic1 Rops w) (inverse_stereographic1 Rops w) = 1.
Proof. exact inverse_stereographic_on_sphere. Qed.
Print Assumptions C18_inverse_stereographic_on_unit_sphere.
Theorem C18_stereographic_pair_mutually_inverse :
  (forall w : R * R, stereographic1 Rops (inverse_stereographic1 Rops w) = w) /\
  (forall u, dot Rops u u = 1 -> vz u <> 1 -> inverse_stereographic1 Rops (stereographic1 Rops u) = u).
Proof. split; [exact stereographic_inverts_inverse|exact inverse_inverts_stereographic]. Qed.
Print Assumptions C18_stereographic_pair_mutually_inverse.

(* Beltrami coefficient of z -> a z + b conj z (|b| < |a|) followed by ANY isometric embedding of the plane: b / a on every
   non-degenerate triangle *)
Theorem C18_beltrami_of_affine_map_is_b_over_a : forall v m ia ib ic (a b : R * R) e1 e2 o3,
  let p0 := getv Rops v ia in let p1 := getv Rops v ib in let p2 := getv Rops v ic in
  (vx p2 - vx p1) * (vy p0 - vy p2) - (vy p2 - vy p1) * (vx p0 - vx p2) <> 0 ->
  dot Rops e1 e1 = 1 -> dot Rops e2 e2 = 1 -> dot Rops e1 e2 = 0 ->
  fst b * fst b + snd b * snd b < fst a * fst a + snd a * snd a ->
  getv Rops m ia = embed e1 e2 o3 (affine_c a b p0) -> getv Rops m ib = embed e1 e2 o3 (affine_c a b p1) ->
  getv Rops m ic = embed e1 e2 o3 (affine_c a b p2) ->
  beltrami1 Rops v m (ia, ib, ic)
  = ((fst b * fst a + snd b * snd a) / (fst a * fst a + snd a * snd a),
     (snd b * fst a - fst b * snd a) / (fst a * fst a + snd a * snd a)).
Proof. exact beltrami_of_affine_map. Qed.
Print Assumptions C18_beltrami_of_affine_map_is_b_over_a.

(* linear_beltrami_solver reproduces every landmark exactly, for every solver meeting its contract *)
Theorem C18_landmarks_reproduced_exactly : forall csolve, csolve_contract csolve ->
  forall v ts mus lm x l tg, linear_beltrami_solver Rops csolve v ts mus lm = Ok x ->
  NoDup (map fst lm) -> In (l, tg) lm -> (l < length v)%nat -> nth l x (0, 0) = tg.
Proof. exact lbs_landmarks_exact. Qed.
Print Assumptions C18_landmarks_reproduced_exactly.

(* spherical_conformal_map: ValueError exactly for Euler characteristic <> 2; the final step returns unit vectors and is
   the inverse of the south-pole projection x / (1 + z) (orientation kept, not the mirror image) *)
Theorem C18_euler_gate : forall ts, scm_gate ts = Err ValueError <-> euler ts <> 2%Z.
Proof. exact scm_gate_spec. Qed.
Print Assumptions C18_euler_gate.
Theorem C18_final_step_unit_and_inverse_of_south_projection : forall mapping,
  Forall (fun p => dot Rops p p = 1) (scm_final Rops mapping) /\
  forall w : R * R, let p := inverse_south1 Rops w in (vx p / (1 + vz p), vy p / (1 + vz p)) = w.
Proof. intros mapping. split; [apply scm_final_unit|exact inverse_south_inverts_south_projection]. Qed.
Print Assumptions C18_final_step_unit_and_inverse_of_south_projection.
