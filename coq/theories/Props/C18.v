(* Props/C18.v -- statements claimed for C18 (conformal maps), about Model/Conformal.v over R. *)
From Coq Require Import List Arith ZArith Reals.
From LaPyV Require Import Base.Scalar Base.Vec3 Base.ListAux Base.Sparse Model.TetMesh Model.TriaAdj Model.Conformal Proofs.ConformalP.
From Coquelicot Require Complex.
Import ListNotations.
Open Scope R_scope.

(* stereographic / inverse_stereographic: unit sphere, mutually inverse (away from the pole) *)
Theorem C18_inverse_stereographic_on_unit_sphere : forall w : R * R,
  dot Rops (inverse_stereographic1 Rops w) (inverse_stereographic1 Rops w) = 1.
Proof. exact inverse_stereographic_on_sphere. Qed.
Print Assumptions C18_inverse_stereographic_on_unit_sphere.
Theorem C18_stereographic_pair_mutually_inverse :
  (forall w : R * R, stereographic1 Rops (inverse_stereographic1 Rops w) = w) /\
  (forall u, dot Rops u u = 1 -> vz u <> 1 -> inverse_stereographic1 Rops (stereographic1 Rops u) = u).
Proof. split; [exact stereographic_inverts_inverse|exact inverse_inverts_stereographic]. Qed.
Print Assumptions C18_stereographic_pair_mutually_inverse.

(* Beltrami coefficient of z -> a z + b conj z (|b| < |a|) followed by ANY isometric embedding of the plane: b / a on every
   non-degenerate triangle *)
Theorem C18_beltrami_of_affine_map_is_b_over_a : forall v m ia ib ic (a b : R * R) e1 e2 o3,
  let p0 := getv Rops v ia in let p1 := getv Rops v ib in let p2 := getv Rops v ic in
  (vx p2 - vx p1) * (vy p0 - vy p2) - (vy p2 - vy p1) * (vx p0 - vx p2) <> 0 ->
  dot Rops e1 e1 = 1 -> dot Rops e2 e2 = 1 -> dot Rops e1 e2 = 0 ->
  fst b * fst b + snd b * snd b < fst a * fst a + snd a * snd a ->
  getv Rops m ia = embed e1 e2 o3 (affine_c a b p0) -> getv Rops m ib = embed e1 e2 o3 (affine_c a b p1) ->
  getv Rops m ic = embed e1 e2 o3 (affine_c a b p2) ->
  beltrami1 Rops v m (ia, ib, ic)
  = ((fst b * fst a + snd b * snd a) / (fst a * fst a + snd a * snd a),
     (snd b * fst a - fst b * snd a) / (fst a * fst a + snd a * snd a)).
Proof. exact beltrami_of_affine_map. Qed.
Print Assumptions C18_beltrami_of_affine_map_is_b_over_a.

(* linear_beltrami_solver reproduces every landmark exactly, for every solver meeting its contract *)
Theorem C18_landmarks_reproduced_exactly : forall csolve, csolve_contract csolve ->
  forall v ts mus lm x l tg, linear_beltrami_solver Rops csolve v ts mus lm = Ok x ->
  NoDup (map fst lm) -> In (l, tg) lm -> (l < length v)%nat -> nth l x (0, 0) = tg.
Proof. exact lbs_landmarks_exact. Qed.
Print Assumptions C18_landmarks_reproduced_exactly.

(* spherical_conformal_map: ValueError exactly for Euler characteristic <> 2; the final step returns unit vectors and is
   the inverse of the south-pole projection x / (1 + z) (orientation kept, not the mirror image) *)
Theorem C18_euler_gate : forall ts, scm_gate ts = Err ValueError <-> euler ts <> 2%Z.
Proof. exact scm_gate_spec. Qed.
Print Assumptions C18_euler_gate.
Theorem C18_final_step_unit_and_inverse_of_south_projection : forall mapping,
  Forall (fun p => dot Rops p p = 1) (scm_final Rops mapping) /\
  forall w : R * R, let p := inverse_south1 Rops w in (vx p / (1 + vz p), vy p / (1 + vz p)) = w.
Proof. intros mapping. split; [apply scm_final_unit|exact inverse_south_inverts_south_projection]. Qed.
Print Assumptions C18_final_step_unit_and_inverse_of_south_projection.

(* north-pole stage of spherical_conformal_map: the big triangle is laid out in the plane with the first side from (0,0) to (1,0)
   and the third corner at (|a.b|, |a x b|) / |a|^2 -- similar to the triangle itself whenever its angle at the first corner is not
   obtuse -- and every solver meeting its contract reproduces these three positions exactly *)
Theorem C18_big_triangle_layout : forall p0 p1 p2 : vec3 R,
  let a := vsub Rops p1 p0 in let b := vsub Rops p2 p0 in
  dot Rops a a <> 0 -> dot Rops b b <> 0 ->
  bigtri_third Rops p0 p1 p2 = (Rabs (dot Rops a b) / dot Rops a a, sqrt (dot Rops (cross Rops a b) (cross Rops a b)) / dot Rops a a).
Proof. exact bigtri_layout_similar. Qed.
Print Assumptions C18_big_triangle_layout.
Theorem C18_big_triangle_corners_pinned : forall csolve, csolve_contract csolve ->
  forall (A : coo R) n p0 p1 p2 (third : R * R) x,
  NoDup [p0; p1; p2] -> (p0 < n)%nat -> (p1 < n)%nat -> (p2 < n)%nat ->
  csolve n (north_system Rops A [p0; p1; p2]) (north_rhs Rops n p0 p1 p2 third) = Ok x ->
  nth p0 x (0, 0) = (0, 0) /\ nth p1 x (0, 0) = (1, 0) /\ nth p2 x (0, 0) = third.
Proof. exact north_corners_pinned. Qed.
Print Assumptions C18_big_triangle_corners_pinned.

(* mobius_area_correction_spherical returns, for whatever parameters the optimiser finds, a Moebius image of its input:
   unit vectors, and the cross-ratio (in the stereographic plane) of any four input points is kept *)
Theorem C18_mobius_result_on_unit_sphere : forall ca cb cc cd mapping,
  Forall (fun p => dot Rops p p = 1) (mobius_result Rops ca cb cc cd mapping).
Proof. exact mobius_result_unit. Qed.
Print Assumptions C18_mobius_result_on_unit_sphere.
Theorem C18_mobius_result_keeps_cross_ratios : forall (ca cb cc cd : R * R) (u1 u2 u3 u4 : vec3 R),
  let st := stereographic1 Rops in
  let im u := inverse_stereographic1 Rops (mobius1 Rops ca cb cc cd (st u)) in
  Complex.Cminus (Complex.Cmult ca cd) (Complex.Cmult cb cc) <> Complex.RtoC 0 ->
  Complex.Cplus (Complex.Cmult cc (st u1)) cd <> Complex.RtoC 0 -> Complex.Cplus (Complex.Cmult cc (st u2)) cd <> Complex.RtoC 0 ->
  Complex.Cplus (Complex.Cmult cc (st u3)) cd <> Complex.RtoC 0 -> Complex.Cplus (Complex.Cmult cc (st u4)) cd <> Complex.RtoC 0 ->
  st u1 <> st u4 -> st u2 <> st u3 ->
  cross_ratio (st (im u1)) (st (im u2)) (st (im u3)) (st (im u4)) = cross_ratio (st u1) (st u2) (st u3) (st u4).
Proof. exact mobius_result_cross_ratio. Qed.
Print Assumptions C18_mobius_result_keeps_cross_ratios.
