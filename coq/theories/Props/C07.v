(* Props/C07.v -- statements claimed for C07 (heat diffusion and kernel), about Model/Heat.v over R. *)
From Coq Require Import List Arith Reals.
From LaPyV Require Import Base.Scalar Base.Vec3 Base.ListAux Base.Sparse Model.TetMesh Model.TriaAdj Model.Fem Model.Heat
  Proofs.SparseP Proofs.FemTriaP Proofs.FemTetP Proofs.PoissonP Proofs.HeatP Proofs.HeatAddP.
Import ListNotations.
Open Scope R_scope.

(* conservation: any solution u of (B + tA) u = b has total heat sum_ij B_ij u_j = sum_k b_k, for every symmetric A that kills constants *)
Theorem C07_total_heat_conserved : forall n t A B (u b : nat -> R),
  (forall f g, bilin Rops f A g = bilin Rops g A f) -> (forall f c, bilin Rops f A (fun _ => c) = 0) ->
  in_range n (heat_matrix Rops t A B) ->
  (forall k, (k < n)%nat -> mulvec_at Rops (heat_matrix Rops t A B) u k = b k) ->
  bilin Rops (fun _ => 1) B u = Rsum b (iota n).
Proof. exact heat_conservation. Qed.
Print Assumptions C07_total_heat_conserved.

(* the triangle and tetra stiffness matrices satisfy those two hypotheses (C01) *)
Theorem C07_tria_stiffness_symmetric : forall v ts f g, bilin Rops f (fem_tria_A Rops v ts) g = bilin Rops g (fem_tria_A Rops v ts) f.
Proof. exact fem_tria_A_bilin_sym. Qed.
Print Assumptions C07_tria_stiffness_symmetric.
Theorem C07_tria_stiffness_kills_constants : forall v ts f c, bilin Rops f (fem_tria_A Rops v ts) (fun _ => c) = 0.
Proof. exact fem_tria_A_const. Qed.
Print Assumptions C07_tria_stiffness_kills_constants.
Theorem C07_tet_stiffness_symmetric : forall v ts f g, bilin Rops f (fem_tet_A Rops v ts) g = bilin Rops g (fem_tet_A Rops v ts) f.
Proof. exact fem_tet_A_bilin_sym. Qed.
Print Assumptions C07_tet_stiffness_symmetric.
Theorem C07_tet_stiffness_kills_constants : forall v ts f c, bilin Rops f (fem_tet_A Rops v ts) (fun _ => c) = 0.
Proof. exact fem_tet_A_const. Qed.
Print Assumptions C07_tet_stiffness_kills_constants.

(* the indicator right-hand side sums to the number of distinct seeded vertices *)
Theorem C07_indicator_sums_to_number_of_seeds : forall n vids,
  Rsum (fun k => nth k (heat_rhs Rops n vids) 0) (iota n) = INR (length (filter (fun k => memn k vids) (iota n))).
Proof. exact heat_rhs_total. Qed.
Print Assumptions C07_indicator_sums_to_number_of_seeds.

(* B + tA is positive definite for t >= 0 on non-degenerate triangle meshes, so the solution is unique
   (hence additive over disjoint seed sets) *)
Theorem C07_tria_system_positive_definite : forall v ts t (u : nat -> R), tria_nondeg v ts -> 0 <= t ->
  (exists a b c, In (a, b, c) ts /\ (u a <> 0 \/ u b <> 0 \/ u c <> 0)) ->
  0 < bilin Rops u (heat_matrix Rops t (fem_tria_A Rops v ts) (fem_tria_B Rops true v ts)) u.
Proof. exact tria_heat_system_positive_definite. Qed.
Print Assumptions C07_tria_system_positive_definite.
Theorem C07_tria_solution_unique : forall v ts t n (u w b : nat -> R), tria_nondeg v ts -> 0 <= t ->
  let H := heat_matrix Rops t (fem_tria_A Rops v ts) (fem_tria_B Rops true v ts) in
  in_range n H ->
  (forall k, (k < n)%nat -> mulvec_at Rops H u k = b k) -> (forall k, (k < n)%nat -> mulvec_at Rops H w k = b k) ->
  forall a b' c, In (a, b', c) ts -> u a = w a /\ u b' = w b' /\ u c = w c.
Proof. exact tria_heat_solution_unique. Qed.
Print Assumptions C07_tria_solution_unique.

(* kernel symmetric in (p, q); diagonal = kernel at p = q = x *)
Theorem C07_kernel_symmetric : forall t evals (evecs : list (list R)) n p q,
  kernel_at Rops t evals (nth p evecs []) (nth q evecs []) n = kernel_at Rops t evals (nth q evecs []) (nth p evecs []) n.
Proof. exact heat_kernel_value_symmetric. Qed.
Print Assumptions C07_kernel_symmetric.
Theorem C07_diagonal_is_kernel_at_p_eq_q : forall ts xs evecs evals n,
  heat_diagonal Rops ts xs evecs evals n = map (fun x => map (fun t => kernel_at Rops t evals (nth x evecs []) (nth x evecs []) n) ts) xs.
Proof. exact heat_diagonal_is_kernel_diagonal. Qed.
Print Assumptions C07_diagonal_is_kernel_at_p_eq_q.

(* additive over seed sets: solutions for b1, b2 and b1 + b2 (e.g. indicators of disjoint seed sets), from any solver, satisfy
   u12 = u1 + u2 on every vertex of the mesh *)
Theorem C07_diffusion_additive_over_seed_sets : forall v ts t n (u1 u2 u12 b1 b2 : nat -> R), tria_nondeg v ts -> 0 <= t ->
  let H := heat_matrix Rops t (fem_tria_A Rops v ts) (fem_tria_B Rops true v ts) in
  in_range n H ->
  (forall k, (k < n)%nat -> mulvec_at Rops H u1 k = b1 k) -> (forall k, (k < n)%nat -> mulvec_at Rops H u2 k = b2 k) ->
  (forall k, (k < n)%nat -> mulvec_at Rops H u12 k = b1 k + b2 k) ->
  forall a b c, In (a, b, c) ts -> u12 a = u1 a + u2 a /\ u12 b = u1 b + u2 b /\ u12 c = u1 c + u2 c.
Proof. exact tria_heat_additive. Qed.
Print Assumptions C07_diffusion_additive_over_seed_sets.
