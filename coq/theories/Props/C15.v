(* Props/C15.v -- statements claimed for C15 (function transfer and smoothing), about Model/TriaFunc.v over R. *)
From Coq Require Import List Arith Reals.
From LaPyV Require Import Base.Scalar Base.Vec3 Base.ListAux Base.Sparse Model.TetMesh Model.TriaAdj Model.TriaOrient
  Model.Fem Model.TriaGeom Model.TriaFunc Proofs.SparseP Proofs.TriaGeomP Proofs.TriaFuncP Proofs.TfuncAreasP Proofs.TfuncLinearP.
Import ListNotations.
Open Scope R_scope.

(* map_tfunc_to_vfunc conserves totals: sum over vertices = sum over triangles of f (weighted: of f * area) *)
Theorem C15_tfunc_to_vfunc_conserves_totals : forall n v ts w f, Forall (fun i => (i < n)%nat) (tri_flat ts) ->
  Rsum (fun x => x) (tfunc_to_vfunc_col Rops n v ts w f) =
  Rsum snd (combine ts (if w then map (fun '(x, a) => x * a) (combine f (tria_areas Rops v ts)) else f)).
Proof. exact tfunc_to_vfunc_total. Qed.
Print Assumptions C15_tfunc_to_vfunc_conserves_totals.

(* the areas used by the weighted variant are the true triangle areas (Heron = |cross|/2, C13) *)
Theorem C15_weights_are_triangle_areas : forall v ts, tria_areas Rops v ts = map (cross_area Rops v) ts.
Proof. exact tria_areas_are_cross_areas. Qed.
Print Assumptions C15_weights_are_triangle_areas.

(* map_vfunc_to_tfunc returns the mean of the three corner values and maps constants to constants *)
Theorem C15_vfunc_to_tfunc_is_corner_mean : forall ts f k a b c, nth_error ts k = Some (a, b, c) ->
  nth_error (vfunc_to_tfunc_col Rops ts f) k = Some ((nth a f 0 + nth b f 0 + nth c f 0) / 3).
Proof. exact vfunc_to_tfunc_mean. Qed.
Print Assumptions C15_vfunc_to_tfunc_is_corner_mean.
Theorem C15_vfunc_to_tfunc_constants : forall ts n c, Forall (fun i => (i < n)%nat) (tri_flat ts) ->
  vfunc_to_tfunc_col Rops ts (repeat c n) = repeat c (length ts).
Proof. exact vfunc_to_tfunc_constant. Qed.
Print Assumptions C15_vfunc_to_tfunc_constants.

(* one smoothing step is the plain mean over the distinct edge neighbours (vertex areas cancel exactly):
   weights non-negative, summing to one, supported on the neighbours *)
Theorem C15_smoothing_step_is_neighbour_mean : forall va adj n f i,
  (i < n)%nat -> nth i va 0 <> 0 -> nbrs adj i <> [] ->
  nth i (smooth_once Rops va adj n f) 0 = Rsum (fun j => nth j f 0) (nbrs adj i) / INR (length (nbrs adj i)).
Proof. exact smooth_once_is_neighbour_mean. Qed.
Print Assumptions C15_smoothing_step_is_neighbour_mean.

Theorem C15_smoothing_step_linear : forall va adj n f g a b i,
  (i < n)%nat -> nth i va 0 <> 0 -> nbrs adj i <> [] -> length f = length g ->
  nth i (smooth_once Rops va adj n (map (fun '(x, y) => a * x + b * y) (combine f g))) 0 =
  a * nth i (smooth_once Rops va adj n f) 0 + b * nth i (smooth_once Rops va adj n g) 0.
Proof. exact smooth_once_linear. Qed.
Print Assumptions C15_smoothing_step_linear.

Theorem C15_smoothing_fixes_constants : forall va adj n c i,
  (i < n)%nat -> nth i va 0 <> 0 -> nbrs adj i <> [] -> (forall j, In j (nbrs adj i) -> (j < n)%nat) ->
  nth i (smooth_once Rops va adj n (repeat c n)) 0 = c.
Proof. exact smooth_once_constant. Qed.
Print Assumptions C15_smoothing_fixes_constants.

(* smooth_vfunc(f, k) = max(k,1) applications and never leaves [min f, max f] *)
Theorem C15_smooth_vfunc_stays_in_range : forall va adj n k f lo hi, smooth_good va adj n ->
  (forall j, (j < n)%nat -> lo <= nth j f 0 <= hi) ->
  forall i, (i < n)%nat -> lo <= nth i (smooth_col Rops va adj n k f) 0 <= hi.
Proof. exact smooth_col_range. Qed.
Print Assumptions C15_smooth_vfunc_stays_in_range.

(* known finding F13, as a theorem about the faithful model: the clause "constants map to constants" is REFUTED on the 3-fan
   (valences 3,1,2,2,1): the constant 1 is mapped to (1, 1/3, 2/3, 2/3, 1/3), whatever the vertex coordinates *)
Theorem C15_constants_to_constants_refuted : forall v,
  map_tfunc_to_vfunc Rops 5 v [(0, 1, 2); (0, 2, 3); (0, 3, 4)]%nat false [[1; 1; 1]] = Ok [[1; 1 / 3; 2 / 3; 2 / 3; 1 / 3]].
Proof.
  intros v. unfold map_tfunc_to_vfunc. cbn [existsb length Nat.eqb negb orb map].
  unfold tfunc_to_vfunc_col. cbn [combine map app iota iota_from fold_left Nat.eqb add div zero ofZ Rops].
  do 2 f_equal. repeat (apply f_equal2; [field|]). reflexivity.
Qed.
Print Assumptions C15_constants_to_constants_refuted.

(* with weighted=True the constant 1 on triangles is mapped to exactly the list vertex_areas() returns, for every mesh *)
Theorem C15_weighted_constant_one_maps_to_vertex_areas : forall v ts,
  tfunc_to_vfunc_col Rops (S (maxn (tri_flat ts))) v ts true (repeat 1 (length ts)) = vertex_areas Rops v ts.
Proof. exact weighted_one_maps_to_vertex_areas. Qed.
Print Assumptions C15_weighted_constant_one_maps_to_vertex_areas.

(* map_vfunc_to_tfunc is linear in the vertex function, on every triangle of every mesh *)
Theorem C15_vfunc_to_tfunc_is_linear : forall ts (f g h : list R) al be k a b c, nth_error ts k = Some (a, b, c) ->
  (forall i, nth i h 0 = al * nth i f 0 + be * nth i g 0) ->
  nth k (vfunc_to_tfunc_col Rops ts h) 0 = al * nth k (vfunc_to_tfunc_col Rops ts f) 0 + be * nth k (vfunc_to_tfunc_col Rops ts g) 0.
Proof. exact vfunc_to_tfunc_linear. Qed.
Print Assumptions C15_vfunc_to_tfunc_is_linear.
