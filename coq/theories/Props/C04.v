(* Props/C04.v -- statements claimed for C04 (ShapeDNA invariances), about Model/Fem.v and Model/ShapeDNA.v over R.
   Together with the eigen-solver contract of C03 ("returns the k smallest solutions of A x = lambda B x") they yield the
   invariance of the spectrum; the reliance on that contract is explicit. *)
From Coq Require Import List Arith Reals.
From LaPyV Require Import Base.Scalar Base.Vec3 Base.ListAux Base.Sparse Model.TetMesh Model.TriaAdj Model.Fem Model.ShapeDNA
  Proofs.InvarianceP Proofs.ShapeDNAP.
Import ListNotations.
Open Scope R_scope.

(* rotation, translation AND reflection (any Q with Q^T Q = I): the pencil is literally the same *)
Theorem C04_stiffness_invariant_under_isometry : forall Q b, orthogonal Q -> forall v ts,
  tris_in_range (length v) ts -> fem_tria_A Rops (map (rigid Q b) v) ts = fem_tria_A Rops v ts.
Proof. exact fem_tria_A_rigid. Qed.
Print Assumptions C04_stiffness_invariant_under_isometry.
Theorem C04_mass_invariant_under_isometry : forall Q b, orthogonal Q -> forall lump v ts,
  tris_in_range (length v) ts -> fem_tria_B Rops lump (map (rigid Q b) v) ts = fem_tria_B Rops lump v ts.
Proof. exact fem_tria_B_rigid. Qed.
Print Assumptions C04_mass_invariant_under_isometry.

(* scaling: 4*area scales by s^2, cotangent entries are unchanged; so eigenvalues scale by 1/s^2 *)
Theorem C04_area_scales_with_s_squared : forall s v a b c, (a < length v /\ b < length v /\ c < length v)%nat ->
  tria_vol4_raw Rops (map (vscaleR s) v) (a, b, c) = s * s * tria_vol4_raw Rops v (a, b, c).
Proof. exact tria_vol4_raw_scale. Qed.
Print Assumptions C04_area_scales_with_s_squared.
Theorem C04_stiffness_entries_scale_free : forall s v a b c vol, s <> 0 -> vol <> 0 ->
  (a < length v /\ b < length v /\ c < length v)%nat ->
  tria_cots Rops (map (vscaleR s) v) (a, b, c) (s * s * vol) = tria_cots Rops v (a, b, c) vol.
Proof. exact tria_cots_scale. Qed.
Print Assumptions C04_stiffness_entries_scale_free.
Theorem C04_eigenvalues_scale_as_inverse_square : forall Ax Bx lam s, s <> 0 ->
  (Ax = lam * Bx <-> Ax = (lam / (s * s)) * (s * s * Bx)).
Proof. exact scaled_pencil_eigenvalue. Qed.
Print Assumptions C04_eigenvalues_scale_as_inverse_square.

(* normalised spectra of scaled copies coincide (surface: area; volume: vol^(2/3), for any real power function
   characterised by pow23 x ^ 3 = x ^ 2 and positivity) *)
Theorem C04_surface_normalisation_scale_free : forall lam area s, s <> 0 -> (lam / (s * s)) * (s * s * area) = lam * area.
Proof. exact surface_normalisation_scale_free. Qed.
Print Assumptions C04_surface_normalisation_scale_free.
Theorem C04_volume_normalisation_scale_free : forall (pow23 : R -> R) lam vol s, 0 < s -> 0 < vol ->
  (forall x, 0 < x -> 0 < pow23 x /\ pow23 x * pow23 x * pow23 x = x * x) ->
  (lam / (s * s)) * pow23 (s * s * s * vol) = lam * pow23 vol.
Proof. exact volume_normalisation_scale_free. Qed.
Print Assumptions C04_volume_normalisation_scale_free.

(* reweight_ev and compute_distance *)
Theorem C04_reweight_divides_ith_value_by_i : forall l i x, nth_error l i = Some x ->
  nth_error (reweight_ev Rops l) i = Some (x / INR (S i)).
Proof. exact reweight_ev_nth. Qed.
Print Assumptions C04_reweight_divides_ith_value_by_i.
Theorem C04_distance_nonnegative : forall a b, 0 <= compute_distance Rops a b.
Proof. exact compute_distance_nonneg. Qed.
Print Assumptions C04_distance_nonnegative.
Theorem C04_distance_symmetric : forall a b, compute_distance Rops a b = compute_distance Rops b a.
Proof. exact compute_distance_sym. Qed.
Print Assumptions C04_distance_symmetric.
Theorem C04_distance_zero_iff_equal : forall a b, length a = length b -> (compute_distance Rops a b = 0 <-> a = b).
Proof. exact compute_distance_zero_iff. Qed.
Print Assumptions C04_distance_zero_iff_equal.
