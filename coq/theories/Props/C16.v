(* Props/C16.v -- statements claimed for C16 (level sets), about Model/LevelSet.v over R.
   [seg_spec] is the independent description of the level set of the piecewise-linear interpolant in one triangle:
   the segment between the points on its two crossed edges (edges whose end points lie on different sides of the level). *)
From Coq Require Import List Arith Reals.
From LaPyV Require Import Base.Scalar Base.Vec3 Base.ListAux Model.TetMesh Model.TriaAdj Model.LevelSet Proofs.SparseP Proofs.LevelSetP.
Import ListNotations.
Open Scope R_scope.

(* level_length, one level or an array of levels, = sum over the triangles of the length of that segment; non-scalar input raises *)
Theorem C16_level_length_is_length_of_pl_level_set : forall v ts ncols f lvls,
  level_length Rops v ts ncols f lvls =
    if Nat.eqb ncols 1 then Ok (map (fun lvl => Rsum (seg_spec v f lvl) ts) lvls) else Err ValueError.
Proof. exact level_length_levels. Qed.
Print Assumptions C16_level_length_is_length_of_pl_level_set.

(* the corner picked in a crossed triangle is the isolated one; triangles with all corners on one side are skipped *)
Theorem C16_isolated_corner_chosen : forall f lvl t g0 g1 g2, crossing Rops f lvl t = Some (g0, g1, g2) ->
  rotation_of (g0, g1, g2) t /\ above Rops f lvl g1 = above Rops f lvl g2 /\ above Rops f lvl g0 <> above Rops f lvl g1.
Proof. exact crossing_some. Qed.
Print Assumptions C16_isolated_corner_chosen.
Theorem C16_uncrossed_triangles_skipped : forall f lvl a b c, crossing Rops f lvl (a, b, c) = None ->
  above Rops f lvl a = above Rops f lvl b /\ above Rops f lvl b = above Rops f lvl c.
Proof. exact crossing_none. Qed.
Print Assumptions C16_uncrossed_triangles_skipped.

(* every computed point is p = (1-x) v[g0] + x v[g1] on a mesh edge with 0 < x < 1, where the interpolant has the level value;
   it does not depend on the direction in which the edge is traversed *)
Theorem C16_point_on_edge_at_level : forall v f lvl g0 g1,
  above Rops f lvl g0 <> above Rops f lvl g1 -> fval Rops f g0 <> lvl -> fval Rops f g1 <> lvl ->
  edge_point Rops v f lvl g0 g1 = vadd Rops (vscale Rops (1 - xl f lvl g0 g1) (getv Rops v g0)) (vscale Rops (xl f lvl g0 g1) (getv Rops v g1))
  /\ 0 < xl f lvl g0 g1 < 1
  /\ (1 - xl f lvl g0 g1) * fval Rops f g0 + xl f lvl g0 g1 * fval Rops f g1 = lvl
  /\ edge_point Rops v f lvl g0 g1 = edge_point Rops v f lvl g1 g0.
Proof.
  intros v f lvl g0 g1 H H0 H1. split; [apply edge_point_is_convex_combination|]. split; [apply edge_point_inside; assumption|].
  split; [apply edge_point_value|apply edge_point_sym]; apply (sides_differ f lvl); exact H.
Qed.
Print Assumptions C16_point_on_edge_at_level.

(* level_path returns the same length as level_length, whatever options; non-scalar input raises *)
Theorem C16_level_path_length_equals_level_length : forall eps v ts ncols f lvl gt np m,
  level_path Rops eps v ts ncols f lvl gt np = Ok m -> lp_length m = Rsum (seg_spec v f lvl) ts.
Proof. intros. rewrite <- level_length_one_is_pl_length. eapply level_path_length; eassumption. Qed.
Print Assumptions C16_level_path_length_equals_level_length.
Theorem C16_level_path_non_scalar_raises : forall eps v ts ncols f lvl gt np, ncols <> 1%nat ->
  level_path Rops eps v ts ncols f lvl gt np = Err ValueError.
Proof. exact level_path_non_scalar. Qed.
Print Assumptions C16_level_path_non_scalar_raises.

(* level_path, in path order (before near-duplicates are merged): the points are pairwise distinct nodes of a walk, every segment
   joins the two crossing points of ONE crossed mesh triangle, and that triangle is the one reported for the segment *)
Theorem C16_segments_lie_in_reported_triangles : forall v ts f lvl r, level_path_raw Rops v ts f lvl = Ok r ->
  length (lr_tria r) = length (consecutive (lr_points r)) /\
  Forall (fun '((a, b), T) => exists t g0 g1 g2,
            nth_error ts T = Some t /\ crossing Rops f lvl t = Some (g0, g1, g2) /\
            ((a = edge_point Rops v f lvl g0 g1 /\ b = edge_point Rops v f lvl g0 g2) \/
             (a = edge_point Rops v f lvl g0 g2 /\ b = edge_point Rops v f lvl g0 g1)))
         (combine (consecutive (lr_points r)) (lr_tria r)).
Proof. exact raw_segments. Qed.
Print Assumptions C16_segments_lie_in_reported_triangles.
Theorem C16_path_visits_every_node_once_along_edges : forall edges path eidx, reduce_edges_to_path edges = Ok (path, eidx) ->
  NoDup path /\ length path = n_nodes edges /\
  Forall (fun '(x, y) => In y (nbr_edges edges x)) (consecutive path) /\
  length eidx = length (consecutive path) /\
  Forall (fun '((x, y), e) => nth_error edges e = Some (x, y) \/ nth_error edges e = Some (y, x)) (combine (consecutive path) eidx).
Proof. exact reduce_path_spec. Qed.
Print Assumptions C16_path_visits_every_node_once_along_edges.

(* n_points: n points, first and last point unchanged (all three resampling rounds) *)
Theorem C16_resampling_keeps_end_points : forall q rest n, (2 <= n)%nat ->
  let r := iterative_resample Rops (q :: rest) n in
  length r = n /\ hd (zero3 Rops) r = q /\ last r (zero3 Rops) = last (q :: rest) (zero3 Rops).
Proof. exact iterative_resample_endpoints. Qed.
Print Assumptions C16_resampling_keeps_end_points.
