(* Base/Sparse.v -- scipy.sparse.csc_matrix((data,(i,j))) as a triplet list with
   "sum the values of equal keys" semantics (definitions only). *)
From Coq Require Import List Arith Bool PeanoNat.
From LaPyV Require Import Base.Scalar Base.ListAux.
Import ListNotations.

Section Sparse.
  Context {K : Type} (o : Ops K).
  Definition coo := list (nat * nat * K).
  Definition entry (M : coo) (i j : nat) : K :=
    fold_right (fun '(i', j', a) acc => if Nat.eqb i' i && Nat.eqb j' j then add o a acc else acc) (zero o) M.
  Definition bilin (f : nat -> K) (M : coo) (g : nat -> K) : K :=
    fold_right (fun '(i, j, a) acc => add o (mul o (mul o (f i) a) (g j)) acc) (zero o) M.
  Definition mulvec_at (M : coo) (x : nat -> K) (i : nat) : K :=
    fold_right (fun '(i', j, a) acc => if Nat.eqb i' i then add o (mul o a (x j)) acc else acc) (zero o) M.
  Definition mulvec (n : nat) (M : coo) (x : nat -> K) : list K := map (mulvec_at M x) (iota n).
  Definition delta (i : nat) : nat -> K := fun k => if Nat.eqb k i then one o else zero o.
  Definition vfun (l : list K) : nat -> K := fun i => nth i l (zero o).
  Definition coo_keys (M : coo) : list (nat * nat) := map fst M.
  (* dimension scipy infers when no shape is given *)
  Definition coo_dim (M : coo) : nat :=
    S (fold_right (fun '(i, j, _) acc => Nat.max (Nat.max i j) acc) 0 M).
  Definition coo_scale (s : K) (M : coo) : coo := map (fun '(i, j, a) => (i, j, mul o s a)) M.
  Definition coo_sum_all (M : coo) : K := fold_right (fun '(_, _, a) acc => add o a acc) (zero o) M.
  (* np.bincount(idx, weights) / np.add.at on a zero vector: value at k *)
  Definition scatter_at (l : list (nat * K)) (k : nat) : K :=
    fold_right (fun '(i, a) acc => if Nat.eqb i k then add o a acc else acc) (zero o) l.
  Definition scatter (n : nat) (l : list (nat * K)) : list K := map (scatter_at l) (iota n).
End Sparse.
Arguments coo K : clear implicits.
