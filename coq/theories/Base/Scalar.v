(* Scalar.v -- one record of scalar operations, two instances.
   Rops : exact real arithmetic, used by every theorem.
   Fops : Coq primitive binary64, used by the correspondence runs (vm_compute).
   Model functions are written once against [Ops K]. *)
From Coq Require Import ZArith Reals PrimFloat Uint63 List Bool.
Import ListNotations.

Record Ops (K : Type) := mkOps {
  zero : K; one : K;
  add : K -> K -> K; sub : K -> K -> K; mul : K -> K -> K; div : K -> K -> K;
  opp : K -> K; sqrtK : K -> K; absK : K -> K; expK : K -> K;
  ltb : K -> K -> bool; leb : K -> K -> bool; eqb : K -> K -> bool;
  ofZ : Z -> K
}.
Arguments zero {K}. Arguments one {K}. Arguments add {K}. Arguments sub {K}.
Arguments mul {K}. Arguments div {K}. Arguments opp {K}. Arguments sqrtK {K}.
Arguments absK {K}. Arguments expK {K}. Arguments ltb {K}. Arguments leb {K}.
Arguments eqb {K}. Arguments ofZ {K}.

(* ---------------------------------------------------------------- reals *)
Definition Rltb (a b : R) : bool := if Rlt_dec a b then true else false.
Definition Rleb (a b : R) : bool := if Rle_dec a b then true else false.
Definition Reqb (a b : R) : bool := if Req_EM_T a b then true else false.

Definition Rops : Ops R :=
  {| zero := 0%R; one := 1%R; add := Rplus; sub := Rminus; mul := Rmult; div := Rdiv;
     opp := Ropp; sqrtK := R_sqrt.sqrt; absK := Rbasic_fun.Rabs; expK := Rtrigo_def.exp;
     ltb := Rltb; leb := Rleb; eqb := Reqb; ofZ := IZR |}.

(* --------------------------------------------------------------- floats *)
Definition float_of_Z (z : Z) : float :=
  match z with
  | Z0 => 0%float
  | Zpos _ => PrimFloat.of_uint63 (Uint63.of_Z z)
  | Zneg p => PrimFloat.opp (PrimFloat.of_uint63 (Uint63.of_Z (Zpos p)))
  end.

(* exp for binary64: range reduction x = k*ln2 + r, |r| <= ln2/2, degree-14
   Taylor polynomial for exp r (relative error < 1e-15), then scaling by 2^k.
   Only used where the implementation calls np.exp; compared at tolerances
   of 1e-9 or coarser, never bit-exactly. *)
Definition ln2f : float := 0x1.62e42fefa39efp-1%float.
Fixpoint pow2f_pos (n : nat) (acc : float) : float :=
  match n with O => acc | S m => pow2f_pos m (PrimFloat.mul acc 2%float) end.
Fixpoint pow2f_neg (n : nat) (acc : float) : float :=
  match n with O => acc | S m => pow2f_neg m (PrimFloat.mul acc 0.5%float) end.
Fixpoint taylor_exp (n : nat) (k : float) (r term acc : float) : float :=
  match n with
  | O => acc
  | S m => let term' := PrimFloat.div (PrimFloat.mul term r) k in
           taylor_exp m (PrimFloat.add k 1%float) r term' (PrimFloat.add acc term')
  end.
(* nearest integer to q for |q| < 2048 (saturating beyond): greedy binary
   decomposition of floor(|q| + 1/2); every step is exact in binary64. *)
Fixpoint floor_bits (bits : list (Z * float)) (rem : float) (acc : Z) : Z :=
  match bits with
  | [] => acc
  | (z, f) :: tl => if PrimFloat.leb f rem then floor_bits tl (PrimFloat.sub rem f) (acc + z)%Z
                    else floor_bits tl rem acc
  end.
Definition bit_table : list (Z * float) :=
  [(1024%Z, 1024%float); (512%Z, 512%float); (256%Z, 256%float); (128%Z, 128%float);
   (64%Z, 64%float); (32%Z, 32%float); (16%Z, 16%float); (8%Z, 8%float);
   (4%Z, 4%float); (2%Z, 2%float); (1%Z, 1%float)].
Definition round_to_Z (q : float) : Z :=
  let a := PrimFloat.abs q in
  if PrimFloat.ltb 2000%float a then (if PrimFloat.ltb q 0%float then -2000 else 2000)%Z
  else
    let m := floor_bits bit_table (PrimFloat.add a 0.5%float) 0%Z in
    if PrimFloat.ltb q 0%float then (- m)%Z else m.
Definition float_exp (x : float) : float :=
  if PrimFloat.eqb x x then
    let k := round_to_Z (PrimFloat.div x ln2f) in
    let r := PrimFloat.sub x (PrimFloat.mul (float_of_Z k) ln2f) in
    let p := taylor_exp 18 1%float r 1%float 1%float in
    match k with
    | Z0 => p
    | Zpos q => pow2f_pos (Pos.to_nat q) p
    | Zneg q => pow2f_neg (Pos.to_nat q) p
    end
  else x.

Definition Fops : Ops float :=
  {| zero := 0%float; one := 1%float;
     add := PrimFloat.add; sub := PrimFloat.sub; mul := PrimFloat.mul; div := PrimFloat.div;
     opp := PrimFloat.opp; sqrtK := PrimFloat.sqrt; absK := PrimFloat.abs; expK := float_exp;
     ltb := PrimFloat.ltb; leb := PrimFloat.leb; eqb := PrimFloat.eqb; ofZ := float_of_Z |}.

(* ------------------------------------------------- generic derived forms *)
Section Derived.
  Context {K : Type} (o : Ops K).
  Definition two := add o (one o) (one o).
  Definition half (x : K) := div o x (two).
  Definition frac (p q : Z) : K := div o (ofZ o p) (ofZ o q).
  (* sys.float_info.epsilon = 2^-52 *)
  Definition eps52 : K := frac 1 4503599627370496.
  Definition sumK (l : list K) : K := fold_left (add o) l (zero o).
  Definition maxK (a b : K) : K := if ltb o a b then b else a.
  Definition minK (a b : K) : K := if ltb o b a then b else a.
End Derived.
