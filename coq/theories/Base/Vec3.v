(* Vec3.v -- 3-vectors over an arbitrary scalar record, in the operation order
   numpy uses (np.cross component formulas, np.sum(x*y,axis=1) left to right). *)
From Coq Require Import List.
From LaPyV Require Import Base.Scalar.
Import ListNotations.

Section Vec3.
  Context {K : Type} (o : Ops K).
  Definition vec3 := (K * K * K)%type.
  Definition vx (a : vec3) : K := fst (fst a).
  Definition vy (a : vec3) : K := snd (fst a).
  Definition vz (a : vec3) : K := snd a.
  Definition mk3 (x y z : K) : vec3 := (x, y, z).
  Definition zero3 : vec3 := (zero o, zero o, zero o).
  Definition vadd (a b : vec3) : vec3 :=
    (add o (vx a) (vx b), add o (vy a) (vy b), add o (vz a) (vz b)).
  Definition vsub (a b : vec3) : vec3 :=
    (sub o (vx a) (vx b), sub o (vy a) (vy b), sub o (vz a) (vz b)).
  Definition vneg (a : vec3) : vec3 := (opp o (vx a), opp o (vy a), opp o (vz a)).
  Definition vscale (s : K) (a : vec3) : vec3 :=
    (mul o s (vx a), mul o s (vy a), mul o s (vz a)).
  Definition vmulc (a b : vec3) : vec3 :=
    (mul o (vx a) (vx b), mul o (vy a) (vy b), mul o (vz a) (vz b)).
  Definition vdivs (a : vec3) (s : K) : vec3 :=
    (div o (vx a) s, div o (vy a) s, div o (vz a) s).
  (* np.sum(a*b, axis=1): ((x + y) + z) *)
  Definition dot (a b : vec3) : K :=
    add o (add o (mul o (vx a) (vx b)) (mul o (vy a) (vy b))) (mul o (vz a) (vz b)).
  (* np.cross *)
  Definition cross (a b : vec3) : vec3 :=
    (sub o (mul o (vy a) (vz b)) (mul o (vz a) (vy b)),
     sub o (mul o (vz a) (vx b)) (mul o (vx a) (vz b)),
     sub o (mul o (vx a) (vy b)) (mul o (vy a) (vx b))).
  Definition norm2 (a : vec3) : K := dot a a.
  Definition norm (a : vec3) : K := sqrtK o (norm2 a).
  Definition getv (v : list vec3) (i : nat) : vec3 := nth i v zero3.
End Vec3.
Arguments vec3 K : clear implicits.
