(* Base/FloatFun.v -- binary64 stand-in for np.arccos used by correspondence runs only (never bit-exact:
   compared at 1e-9 or coarser).  acos x = 2 atan (sqrt ((1-x)/(1+x))); atan by two half-angle reductions
   and an alternating Taylor polynomial of degree 29 on [0, 0.2]. *)
From Coq Require Import List PrimFloat.
Import ListNotations.
Open Scope float_scope.

Definition pi_f : float := 0x1.921fb54442d18p+1.
Definition odd_recips : list float := [29; 27; 25; 23; 21; 19; 17; 15; 13; 11; 9; 7; 5; 3; 1].
(* Horner in z = y^2 of sum (-1)^k z^k / (2k+1), highest degree first *)
Fixpoint horner_alt (cs : list float) (z acc : float) : float :=
  match cs with
  | [] => acc
  | c :: tl => horner_alt tl z (1 / c - z * acc)
  end.
Definition atan_small (y : float) : float := y * horner_alt odd_recips (y * y) 0.
Definition halfarg (y : float) : float := y / (1 + sqrt (1 + y * y)).
Definition atan_le1 (y : float) : float := 4 * atan_small (halfarg (halfarg y)).
Definition atan_pos (y : float) : float := if 1 <? y then pi_f / 2 - atan_le1 (1 / y) else atan_le1 y.
Definition float_acos (x : float) : float :=
  if x <=? -1 then pi_f else if 1 <=? x then 0 else 2 * atan_pos (sqrt ((1 - x) / (1 + x))).
