(* ListAux.v -- small list utilities shared by the models (definitions only). *)
From Coq Require Import List Arith Bool PeanoNat Sorting.Mergesort Orders.
Import ListNotations.

Definition sumn (l : list nat) : nat := fold_right Nat.add 0 l.
Definition count_if {A} (p : A -> bool) (l : list A) : nat := length (filter p l).
Fixpoint iota_from (s n : nat) : list nat :=
  match n with O => [] | S m => s :: iota_from (S s) m end.
Definition iota (n : nat) : list nat := iota_from 0 n.
Definition enumerate {A} (l : list A) : list (nat * A) := combine (iota (length l)) l.
Definition maxn (l : list nat) : nat := fold_right Nat.max 0 l.
Definition minn (d : nat) (l : list nat) : nat :=
  match l with [] => d | x :: tl => fold_right Nat.min x tl end.
Definition memn (x : nat) (l : list nat) : bool := existsb (Nat.eqb x) l.

(* sorted, duplicate-free list of the naturals occurring in l (np.unique on 1-D ints) *)
Module NatOrder <: TotalLeBool.
  Definition t := nat.
  Definition leb := Nat.leb.
  Theorem leb_total : forall a b, leb a b = true \/ leb b a = true.
  Proof. intros a b. unfold leb. destruct (Nat.leb_spec a b); [left; reflexivity|right].
         apply Nat.leb_le. apply Nat.lt_le_incl. assumption. Qed.
End NatOrder.
Module NatSort := Sort NatOrder.

Fixpoint dedup_sorted (l : list nat) : list nat :=
  match l with
  | [] => []
  | x :: tl => match tl with
               | [] => [x]
               | y :: _ => if Nat.eqb x y then dedup_sorted tl else x :: dedup_sorted tl
               end
  end.
Definition unique_nat (l : list nat) : list nat := dedup_sorted (NatSort.sort l).

(* lexicographic order on pairs and triples of naturals *)
Definition pair_leb (a b : nat * nat) : bool :=
  if Nat.ltb (fst a) (fst b) then true
  else if Nat.eqb (fst a) (fst b) then Nat.leb (snd a) (snd b) else false.
Definition pair_eqb (a b : nat * nat) : bool :=
  Nat.eqb (fst a) (fst b) && Nat.eqb (snd a) (snd b).
Definition tri_leb (a b : nat * nat * nat) : bool :=
  let '(a0, a1, a2) := a in let '(b0, b1, b2) := b in
  if Nat.ltb a0 b0 then true
  else if Nat.eqb a0 b0 then pair_leb (a1, a2) (b1, b2) else false.
Definition tri_eqb (a b : nat * nat * nat) : bool :=
  let '(a0, a1, a2) := a in let '(b0, b1, b2) := b in
  Nat.eqb a0 b0 && Nat.eqb a1 b1 && Nat.eqb a2 b2.

Module PairOrder <: TotalLeBool.
  Definition t := (nat * nat)%type.
  Definition leb := pair_leb.
  Theorem leb_total : forall a b, leb a b = true \/ leb b a = true.
  Proof.
    intros [a0 a1] [b0 b1]. unfold leb, pair_leb. cbn [fst snd].
    destruct (Nat.ltb_spec a0 b0) as [H|H]; [left; reflexivity|].
    destruct (Nat.ltb_spec b0 a0) as [H'|H']; [right; reflexivity|].
    assert (E : a0 = b0) by (apply Nat.le_antisymm; assumption). subst b0.
    rewrite Nat.eqb_refl. destruct (Nat.leb_spec a1 b1); [left; reflexivity|right].
    apply Nat.leb_le, Nat.lt_le_incl. assumption.
  Qed.
End PairOrder.
Module PairSort := Sort PairOrder.

(* insertion sort keyed by a boolean order; stable; used where the key order is a
   parameter (lexsort over rows).  [insert_by] places x after equal keys. *)
Section InsSort.
  Context {A : Type} (le : A -> A -> bool).
  Fixpoint insert_by (x : A) (l : list A) : list A :=
    match l with
    | [] => [x]
    | y :: tl => if le y x then y :: insert_by x tl else x :: l
    end.
  Definition sort_by (l : list A) : list A := fold_left (fun acc x => insert_by x acc) l [].
End InsSort.

(* np.unique(rows, axis=0, return_index, return_counts) over keyed items:
   groups of equal keys in key order, each with first index and count. *)
Section Groups.
  Context {A : Type} (eqA : A -> A -> bool).
  Fixpoint group_sorted (l : list (A * nat)) : list (A * nat * nat) :=
    (* input sorted by key then index; output (key, first index, count) *)
    match l with
    | [] => []
    | (k, i) :: tl =>
        match group_sorted tl with
        | (k', i', c') :: rest => if eqA k k' then (k, i, S c') :: rest
                                   else (k, i, 1) :: (k', i', c') :: rest
        | [] => [(k, i, 1)]
        end
    end.
End Groups.

Definition nth_opt {A} (l : list A) (i : nat) : option A := nth_error l i.
Fixpoint update_nth {A} (l : list A) (i : nat) (x : A) : list A :=
  match l, i with
  | [], _ => []
  | _ :: tl, O => x :: tl
  | y :: tl, S j => y :: update_nth tl j x
  end.
