(* Proofs/VolumeTransP.v -- C13: volume() is invariant under translation, for every mesh (closed and oriented: the boundary terms
   cancel in pairs of opposite half-edges; otherwise the result does not depend on the coordinates at all). *)
From Coq Require Import List Arith Bool PeanoNat Lia Permutation Reals Lra.
From LaPyV Require Import Base.Scalar Base.Vec3 Base.ListAux Base.Sparse Model.TetMesh Model.TriaAdj Model.TriaOrient
  Proofs.SortP Proofs.SparseP Proofs.TetMeshP Proofs.TriaAdjP Proofs.LoopsP Proofs.LoopsDegP Proofs.InvarianceP Proofs.TriaGeomP.
Import ListNotations.
Open Scope R_scope.
Local Notation V3 := (vec3 R).

Definition translate (c : V3) (v : list V3) : list V3 := map (fun p => vadd Rops p c) v.
(* c . (v_i x v_j): antisymmetric in (i, j) *)
Definition gterm (c : V3) (v : list V3) (e : nat * nat) : R := dot Rops c (cross Rops (getv Rops v (fst e)) (getv Rops v (snd e))).
Definition swap (e : nat * nat) : nat * nat := (snd e, fst e).

Lemma gterm_swap c v e : gterm c v (swap e) = - gterm c v e.
Proof.
  unfold gterm, swap. cbn [fst snd]. generalize (getv Rops v (fst e)) (getv Rops v (snd e)). intros p q.
  r3 c; r3 p; r3 q. unfold dot, cross, vx, vy, vz. cbn. ring.
Qed.

Lemma tri_spat_translate c v a b d : (a < length v)%nat -> (b < length v)%nat -> (d < length v)%nat ->
  tri_spat Rops (translate c v) (a, b, d) = tri_spat Rops v (a, b, d) + Rsum (gterm c v) (hedges1 (a, b, d)).
Proof.
  intros Ha Hb Hd. unfold tri_spat, translate. rewrite !getv_map by assumption. cbn [hedges1 Rsum]. unfold gterm. cbn [fst snd].
  generalize (getv Rops v a) (getv Rops v b) (getv Rops v d). intros p0 p1 p2.
  r3 c; r3 p0; r3 p1; r3 p2. unfold dot, cross, vsub, vadd, vx, vy, vz. cbn. ring.
Qed.

Lemma sum_spat_translate c v ts : tris_in_range (length v) ts ->
  Rsum (tri_spat Rops (translate c v)) ts = Rsum (tri_spat Rops v) ts + Rsum (gterm c v) (hedges ts).
Proof.
  intros H. unfold hedges. rewrite Rsum_flat_map, <- Rsum_plus. apply Rsum_ext. intros [[a b] d] Hin.
  unfold tris_in_range in H. rewrite Forall_forall in H. specialize (H _ Hin). cbn in H. destruct H as (Ha & Hb & Hd).
  apply tri_spat_translate; assumption.
Qed.

Lemma swap_inj e e' : swap e = swap e' -> e = e'.
Proof. destruct e, e'. unfold swap. cbn. intros E. inversion E. reflexivity. Qed.

(* antisymmetric terms cancel over a duplicate-free list closed under reversal *)
Lemma antisym_sum_zero (g : nat * nat -> R) (l : list (nat * nat)) : NoDup l -> (forall e, In e l -> In (swap e) l) ->
  (forall e, g (swap e) = - g e) -> Rsum g l = 0.
Proof.
  intros Hn Hc Hg.
  assert (P : Permutation l (map swap l)).
  { apply NoDup_Permutation; [exact Hn| |].
    - apply FinFun.Injective_map_NoDup; [intros x y; apply swap_inj|exact Hn].
    - intros e. rewrite in_map_iff. split.
      + intros H. exists (swap e). split; [destruct e; reflexivity|apply Hc; exact H].
      + intros (x & <- & Hx). apply Hc. exact Hx. }
  pose proof (Rsum_perm g _ _ P) as E. rewrite Rsum_map in E.
  assert (E2 : Rsum (fun x => g (swap x)) l = - Rsum g l).
  { clear -Hg. induction l as [|x l IH]; cbn [Rsum]; [ring|]. rewrite IH, Hg. ring. }
  lra.
Qed.

Lemma closed_oriented_reversal ts : Forall distinct_tri ts -> is_closed ts = true -> (forall i j, (hedge_count ts i j <= 1)%nat) ->
  forall e, In e (hedges ts) -> In (swap e) (hedges ts).
Proof.
  intros Hd Hc Ho [i j] Hin. unfold swap. cbn [fst snd].
  pose proof (hedge_distinct ts Hd i j Hin) as Hij.
  apply (hedge_in ts Hd) in Hin. apply (hedge_in ts Hd).
  pose proof (proj1 (is_closed_iff ts Hd) Hc i j Hij) as H1. rewrite (tri_count_split' ts i j Hd Hij) in H1. pose proof (Ho i j). lia.
Qed.

Theorem tria_volume_translation_invariant c v ts : Forall distinct_tri ts -> tris_in_range (length v) ts ->
  tria_volume Rops (translate c v) ts = tria_volume Rops v ts.
Proof.
  intros Hd Hr. unfold tria_volume. destruct (is_closed ts) eqn:Hc; cbn [negb]; [|reflexivity].
  destruct (is_oriented ts) eqn:Ho; cbn [negb]; [|reflexivity]. f_equal. f_equal.
  rewrite !sumK_Rsum, !Rsum_map. 
  change (Rsum (tri_spat Rops (translate c v)) ts = Rsum (tri_spat Rops v) ts).
  rewrite (sum_spat_translate c v ts Hr).
  assert (Hne : ts <> []).
  { intros ->. vm_compute in Ho. discriminate. }
  pose proof (proj1 (is_oriented_iff ts Hd Hne) Ho) as Ho'.
  rewrite (antisym_sum_zero (gterm c v) (hedges ts)); [ring| | |].
  - apply hedges_nodup; assumption.
  - apply closed_oriented_reversal; assumption.
  - apply gterm_swap.
Qed.

(* non-vacuity: the regular tetrahedron surface is closed and oriented, its volume is not 0 and a translation keeps it *)
Definition vt_v : list V3 := [(0, 0, 0); (1, 0, 0); (0, 1, 0); (0, 0, 1)].
Definition vt_ts : list tri := [(0, 2, 1); (0, 1, 3); (1, 2, 3); (0, 3, 2)]%nat.
Lemma volume_example : is_closed vt_ts = true /\ is_oriented vt_ts = true /\ tria_volume Rops vt_v vt_ts = Ok (1 / 6) /\
  tria_volume Rops (translate (5, -3, 2) vt_v) vt_ts = Ok (1 / 6).
Proof.
  assert (E : tria_volume Rops vt_v vt_ts = Ok (1 / 6)).
  { unfold tria_volume. replace (is_closed vt_ts) with true by (vm_compute; reflexivity).
    replace (is_oriented vt_ts) with true by (vm_compute; reflexivity). cbn [negb]. f_equal.
    unfold vt_ts, vt_v, tri_spat, getv, sumK. cbn [map nth fold_left]. unfold dot, cross, vsub, vx, vy, vz. cbn. field. }
  split; [vm_compute; reflexivity|]. split; [vm_compute; reflexivity|]. split; [exact E|].
  rewrite tria_volume_translation_invariant; [exact E|repeat constructor; cbn; lia|repeat constructor].
Qed.
