(* Proofs/FemMassEqP.v -- the stand-alone Solver.fem_tria_mass and the mass matrix assembled by Solver(...) are the same matrix
   on every non-degenerate triangle mesh (C02). *)
From Coq Require Import List Arith Bool Reals Lra.
From LaPyV Require Import Base.Scalar Base.Vec3 Base.ListAux Base.Sparse Model.TetMesh Model.TriaAdj Model.Fem Proofs.SparseP
  Proofs.TetMeshP Proofs.FemTriaP.
Import ListNotations.
Open Scope R_scope.

Lemma area_raw_quarter v t : tria_area_raw Rops v t = tria_vol4_raw Rops v t / 4.
Proof.
  destruct t as [[a b] c]. unfold tria_area_raw, tria_vol4_raw, tri_pts, frac, two. cbn [mul div ofZ add one Rops]. field.
Qed.

Lemma areas_mass_nondeg v ts : tria_nondeg v ts -> tria_areas_mass Rops v ts = map (fun x => x / 4) (map (tria_vol4_raw Rops v) ts).
Proof.
  intros H. unfold tria_areas_mass. rewrite !map_map. apply map_ext_in. intros t Ht.
  unfold tria_nondeg in H. rewrite Forall_forall in H. specialize (H t Ht). cbv beta in H.
  rewrite area_raw_quarter. cbn [eqb zero Rops].
  destruct (Reqb (tria_vol4_raw Rops v t / 4) 0) eqn:Q; [apply Reqb_true in Q; lra|reflexivity].
Qed.

Theorem fem_tria_mass_is_solver_mass lump v ts : tria_nondeg v ts -> fem_tria_mass Rops lump v ts = fem_tria_B Rops lump v ts.
Proof.
  intros H. unfold fem_tria_mass, fem_tria_B. rewrite (areas_mass_nondeg v ts H), (tria_vols4_nondeg v ts H).
  generalize (map (tria_vol4_raw Rops v) ts). intros vols. revert vols.
  induction ts as [|[[a b] c] ts IH]; intros [|x vols]; cbn [map combine flat_map]; try reflexivity.
  inversion H as [|? ? Ht H']; subst. rewrite (IH H' vols). f_equal.
  destruct lump; unfold diag3, block9; cbn [div ofZ Rops]; repeat (f_equal; try field).
Qed.
