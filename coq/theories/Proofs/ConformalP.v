(* Proofs/ConformalP.v -- theorems about the building blocks of lapy/conformal.py (C18) over R. *)
From Coq Require Import List Arith Bool PeanoNat ZArith Lia Reals Lra.
From LaPyV Require Import Base.Scalar Base.Vec3 Base.ListAux Base.Sparse Model.TetMesh Model.TriaAdj Model.Conformal
  Proofs.SparseP Proofs.TetMeshP Proofs.FemTriaP Proofs.TriaAdjP Proofs.TriaGeomP Proofs.DiffGeoP Proofs.PoissonP Proofs.EigsP Proofs.InvarianceP.
Import ListNotations.
Open Scope R_scope.

Notation CR := (C (K:=R)).
Notation st1 := (stereographic1 Rops).
Notation inv1 := (inverse_stereographic1 Rops).

(* ------------------------------------------------------------------ stereographic pair *)
Lemma two_is_2 : two_ Rops = 2.
Proof. unfold two_. cbn [add one Rops]. ring. Qed.

Theorem inverse_stereographic_on_sphere (w : CR) : dotR (inv1 w) (inv1 w) = 1.
Proof.
  destruct w as [x y]. unfold inverse_stereographic1, dot, vx, vy, vz. rewrite two_is_2.
  cbn [fst snd add sub mul div opp one Rops].
  assert (H : 1 + x * x + y * y <> 0) by nra. field. exact H.
Qed.
Theorem stereographic_inverts_inverse (w : CR) : st1 (inv1 w) = w.
Proof.
  destruct w as [x y]. unfold stereographic1, inverse_stereographic1, vx, vy, vz. rewrite two_is_2.
  cbn [fst snd add sub mul div opp one Rops].
  assert (H : 1 + x * x + y * y <> 0) by nra.
  f_equal; field; split; try exact H; nra.
Qed.
Theorem inverse_inverts_stereographic (u : V3) : dotR u u = 1 -> vz u <> 1 -> inv1 (st1 u) = u.
Proof.
  r3 u. unfold dot, stereographic1, inverse_stereographic1, vx, vy, vz. rewrite two_is_2.
  cbn [fst snd add sub mul div opp one Rops]. intros H Hz.
  assert (H1 : 1 - z <> 0) by lra.
  assert (E : x * x + y * y = (1 - z) * (1 + z)) by nra.
  assert (D : 1 + x / (1 - z) * (x / (1 - z)) + y / (1 - z) * (y / (1 - z)) = 2 / (1 - z)).
  { transitivity (1 + (x * x + y * y) / ((1 - z) * (1 - z))); [field; exact H1|]. rewrite E. field. exact H1. }
  assert (N : - (1) + x / (1 - z) * (x / (1 - z)) + y / (1 - z) * (y / (1 - z)) = 2 * z / (1 - z)).
  { transitivity (- (1) + (x * x + y * y) / ((1 - z) * (1 - z))); [field; exact H1|]. rewrite E. field. exact H1. }
  rewrite D, N. f_equal; [f_equal|]; field; exact H1.
Qed.
(* the last step of spherical_conformal_map: unit vectors; it inverts the south-pole projection x / (1 + z) *)
Theorem inverse_south_on_sphere (w : CR) : dotR (inverse_south1 Rops w) (inverse_south1 Rops w) = 1.
Proof.
  pose proof (inverse_stereographic_on_sphere w) as H. unfold inverse_south1.
  destruct (inv1 w) as [[a b] c]. unfold dot, vx, vy, vz in *. cbn [fst snd add mul opp Rops] in *. lra.
Qed.
Theorem inverse_south_inverts_south_projection (w : CR) :
  let p := inverse_south1 Rops w in (vx p / (1 + vz p), vy p / (1 + vz p)) = w.
Proof.
  destruct w as [x y]. unfold inverse_south1, inverse_stereographic1, vx, vy, vz. rewrite two_is_2.
  cbn [fst snd add sub mul div opp one Rops].
  assert (H : 1 + x * x + y * y <> 0) by nra.
  f_equal; field; split; try exact H; nra.
Qed.

(* ------------------------------------------------------------------ Beltrami coefficient of an affine map *)
(* the discrete derivative operators are exact on affine functions (with the code's sign convention: both are
   minus the partial derivatives; only products of two of them are used) *)
Lemma tri_dxdy_affine v a b c (g : nat -> R) al be ga :
  let p0 := getv Rops v a in let p1 := getv Rops v b in let p2 := getv Rops v c in
  (vx p2 - vx p1) * (vy p0 - vy p2) - (vy p2 - vy p1) * (vx p0 - vx p2) <> 0 ->
  g a = al * vx p0 + be * vy p0 + ga -> g b = al * vx p1 + be * vy p1 + ga -> g c = al * vx p2 + be * vy p2 + ga ->
  tri_dxdy Rops v (a, b, c) g = (- al, - be).
Proof.
  intros p0 p1 p2 H Ha Hb Hc. unfold tri_dxdy. fold p0 p1 p2. rewrite Ha, Hb, Hc.
  destruct p0 as [[x0 y0] z0]. destruct p1 as [[x1 y1] z1]. destruct p2 as [[x2 y2] z2].
  unfold vx, vy in *. cbn [fst snd add sub mul div opp Rops] in *.
  apply f_equal2; field; exact H.
Qed.

(* z -> a z + b conj z, as a map of the plane, followed by an isometric embedding of the plane into space *)
Definition affine_c (a b : CR) (p : V3) : CR :=
  ((fst a + fst b) * vx p + (snd b - snd a) * vy p, (snd a + snd b) * vx p + (fst a - fst b) * vy p).
Definition embed (e1 e2 o3 : V3) (w : CR) : V3 :=
  (vx o3 + fst w * vx e1 + snd w * vx e2, vy o3 + fst w * vy e1 + snd w * vy e2, vz o3 + fst w * vz e1 + snd w * vz e2).

Theorem beltrami_of_affine_map v m ia ib ic (a b : CR) e1 e2 o3 :
  let p0 := getv Rops v ia in let p1 := getv Rops v ib in let p2 := getv Rops v ic in
  (vx p2 - vx p1) * (vy p0 - vy p2) - (vy p2 - vy p1) * (vx p0 - vx p2) <> 0 ->
  dotR e1 e1 = 1 -> dotR e2 e2 = 1 -> dotR e1 e2 = 0 ->
  fst b * fst b + snd b * snd b < fst a * fst a + snd a * snd a ->
  getv Rops m ia = embed e1 e2 o3 (affine_c a b p0) -> getv Rops m ib = embed e1 e2 o3 (affine_c a b p1) ->
  getv Rops m ic = embed e1 e2 o3 (affine_c a b p2) ->
  beltrami1 Rops v m (ia, ib, ic)
  = ((fst b * fst a + snd b * snd a) / (fst a * fst a + snd a * snd a),
     (snd b * fst a - fst b * snd a) / (fst a * fst a + snd a * snd a)).
Proof.
  intros p0 p1 p2 Hdeg H11 H22 H12 Hab M0 M1 M2. subst p0 p1 p2.
  destruct a as [ar ai]. destruct b as [br bi]. cbn [fst snd] in *.
  set (P := ar + br). set (Q := ai + bi). set (R_ := bi - ai). set (S_ := ar - br).
  unfold beltrami1.
  assert (DX : forall pr : V3 -> R, forall k1 k2 k3 : R,
             (forall w, pr (embed e1 e2 o3 w) = k3 + fst w * k1 + snd w * k2) ->
             tri_dxdy Rops v (ia, ib, ic) (fun i => pr (getv Rops m i)) = (- (k1 * P + k2 * Q), - (k1 * R_ + k2 * S_))).
  { intros pr k1 k2 k3 Hpr.
    apply (tri_dxdy_affine v ia ib ic _ (k1 * P + k2 * Q) (k1 * R_ + k2 * S_) k3); [exact Hdeg| | |];
      cbv beta; [rewrite M0|rewrite M1|rewrite M2]; rewrite Hpr; unfold affine_c, P, Q, R_, S_; cbn [fst snd]; ring. }
  rewrite (DX (fun p => vx p) (vx e1) (vx e2) (vx o3)) by (intros w; reflexivity).
  rewrite (DX (fun p => vy p) (vy e1) (vy e2) (vy o3)) by (intros w; reflexivity).
  rewrite (DX (fun p => vz p) (vz e1) (vz e2) (vz o3)) by (intros w; reflexivity).
  rewrite two_is_2. cbn [add sub mul div sqrtK Rops].
  destruct e1 as [[e1x e1y] e1z]. destruct e2 as [[e2x e2y] e2z]. unfold dot, vx, vy, vz in *. cbn [fst snd add mul Rops] in *.
  set (E := - (e1x * P + e2x * Q) * - (e1x * P + e2x * Q) + - (e1y * P + e2y * Q) * - (e1y * P + e2y * Q) + - (e1z * P + e2z * Q) * - (e1z * P + e2z * Q)).
  set (G := - (e1x * R_ + e2x * S_) * - (e1x * R_ + e2x * S_) + - (e1y * R_ + e2y * S_) * - (e1y * R_ + e2y * S_) + - (e1z * R_ + e2z * S_) * - (e1z * R_ + e2z * S_)).
  set (F := - (e1x * P + e2x * Q) * - (e1x * R_ + e2x * S_) + - (e1y * P + e2y * Q) * - (e1y * R_ + e2y * S_) + - (e1z * P + e2z * Q) * - (e1z * R_ + e2z * S_)).
  assert (HE : E = P * P + Q * Q).
  { unfold E. transitivity (P * P * (e1x * e1x + e1y * e1y + e1z * e1z) + 2 * P * Q * (e1x * e2x + e1y * e2y + e1z * e2z)
                           + Q * Q * (e2x * e2x + e2y * e2y + e2z * e2z)); [ring|]. rewrite H11, H22, H12. ring. }
  assert (HG : G = R_ * R_ + S_ * S_).
  { unfold G. transitivity (R_ * R_ * (e1x * e1x + e1y * e1y + e1z * e1z) + 2 * R_ * S_ * (e1x * e2x + e1y * e2y + e1z * e2z)
                           + S_ * S_ * (e2x * e2x + e2y * e2y + e2z * e2z)); [ring|]. rewrite H11, H22, H12. ring. }
  assert (HF : F = P * R_ + Q * S_).
  { unfold F. transitivity (P * R_ * (e1x * e1x + e1y * e1y + e1z * e1z) + (P * S_ + Q * R_) * (e1x * e2x + e1y * e2y + e1z * e2z)
                           + Q * S_ * (e2x * e2x + e2y * e2y + e2z * e2z)); [ring|]. rewrite H11, H22, H12. ring. }
  set (D := ar * ar + ai * ai - (br * br + bi * bi)).
  assert (HD : 0 < D) by (unfold D; lra).
  assert (Hs : sqrt (E * G - F * F) = D).
  { rewrite HE, HG, HF. replace ((P * P + Q * Q) * (R_ * R_ + S_ * S_) - (P * R_ + Q * S_) * (P * R_ + Q * S_)) with (D * D)
      by (unfold D, P, Q, R_, S_; ring). apply sqrt_square. lra. }
  rewrite Hs, HE, HG, HF.
  assert (Ha : ar * ar + ai * ai <> 0) by nra.
  unfold D, P, Q, R_, S_. f_equal; field; nra.
Qed.

(* ------------------------------------------------------------------ linear_beltrami_solver: landmarks *)
Definition csolve_contract (csolve : nat -> coo R -> list CR -> result (list CR)) : Prop :=
  forall n S b x, csolve n S b = Ok x -> length x = n /\
    forall i, (i < n)%nat -> mulvec_at Rops S (vfun Rops (map fst x)) i = fst (nth i b (0, 0)) /\
                             mulvec_at Rops S (vfun Rops (map snd x)) i = snd (nth i b (0, 0)).

Lemma mv_app (M N : coo R) x i : mv (M ++ N) x i = mv M x i + mv N x i.
Proof.
  induction M as [|[[i' j] a] M IH]; cbn [app]; [rewrite mv_nil; ring|]. rewrite !mv_cons, IH. ring.
Qed.
Lemma mv_filter_rows (M : coo R) (keep : nat * nat * R -> bool) x i :
  (forall j a, keep (i, j, a) = false) -> mv (filter keep M) x i = 0.
Proof.
  intros H. induction M as [|[[i' j] a] M IH]; [apply mv_nil|]. cbn [filter].
  destruct (keep (i', j, a)) eqn:E; [|exact IH].
  rewrite mv_cons, IH. destruct (Nat.eqb i' i) eqn:E2; [|ring]. apply Nat.eqb_eq in E2. subst. rewrite H in E. discriminate.
Qed.
Lemma mv_unit_rows (lm : list (nat * CR)) x l : NoDup (map fst lm) -> In l (map fst lm) ->
  mv (map (fun p : nat * CR => (fst p, fst p, 1)) lm) x l = x l.
Proof.
  induction lm as [|[k tg] lm IH]; intros ND Hin; [destruct Hin|].
  cbn [map fst] in ND. inversion ND as [|? ? Hnot ND']; subst.
  cbn [map fst]. rewrite mv_cons.
  destruct (Nat.eqb k l) eqn:E.
  - apply Nat.eqb_eq in E. subst k.
    assert (Z : mv (map (fun p : nat * CR => (fst p, fst p, 1)) lm) x l = 0).
    { clear -Hnot. induction lm as [|[k tg] lm IH]; [apply mv_nil|]. cbn [map fst]. rewrite mv_cons.
      cbn [map fst] in Hnot. destruct (Nat.eqb k l) eqn:E; [apply Nat.eqb_eq in E; subst; exfalso; apply Hnot; left; reflexivity|].
      rewrite IH; [ring|]. intros H. apply Hnot. right. exact H. }
    rewrite Z. ring.
  - rewrite IH; [ring|exact ND'|]. destruct Hin as [H|H]; [cbn in H; subst; rewrite Nat.eqb_refl in E; discriminate|exact H].
Qed.

Lemma lbs_rhs_landmark (A : coo R) lm l tg : NoDup (map fst lm) -> In (l, tg) lm -> lbs_rhs Rops A lm l = tg.
Proof.
  intros ND Hin. unfold lbs_rhs.
  assert (F : find (fun p : nat * CR => Nat.eqb (fst p) l) lm = Some (l, tg)).
  { induction lm as [|[k t0] lm IH]; [destruct Hin|]. cbn [find fst]. cbn [map fst] in ND. inversion ND as [|? ? Hnot ND']; subst.
    destruct Hin as [H|H].
    - inversion H; subst. rewrite Nat.eqb_refl. reflexivity.
    - destruct (Nat.eqb k l) eqn:E.
      + apply Nat.eqb_eq in E. subst. exfalso. apply Hnot. apply (in_map fst) in H. exact H.
      + apply IH; assumption. }
  rewrite F. reflexivity.
Qed.

Theorem lbs_landmarks_exact csolve (HC : csolve_contract csolve) v ts mus lm x l tg :
  linear_beltrami_solver Rops csolve v ts mus lm = Ok x ->
  NoDup (map fst lm) -> In (l, tg) lm -> (l < length v)%nat -> nth l x (0, 0) = tg.
Proof.
  unfold linear_beltrami_solver. destruct (negb (planar Rops v)); [discriminate|].
  intros H ND Hin Hl. apply HC in H. destruct H as [Hlen H]. destruct (H l Hl) as [Hre Him]. clear H.
  assert (Hrow : forall y, mulvec_at Rops (lbs_system Rops (lbs_matrix Rops v ts mus) lm) y l = y l).
  { intros y. unfold lbs_system. rewrite mv_app, mv_filter_rows, mv_unit_rows.
    - ring.
    - exact ND.
    - apply (in_map fst) in Hin. exact Hin.
    - intros j a. assert (E : is_lm lm l = true).
      { unfold is_lm. apply existsb_exists. exists (l, tg). split; [exact Hin|apply Nat.eqb_refl]. }
      rewrite E. reflexivity. }
  rewrite !Hrow in *.
  assert (Hb : nth l (map (lbs_rhs Rops (lbs_matrix Rops v ts mus) lm) (iota (length v))) (0, 0) = tg).
  { rewrite (nth_indep _ (0, 0) (lbs_rhs Rops (lbs_matrix Rops v ts mus) lm 0)) by (rewrite map_length, iota_length; exact Hl).
    rewrite map_nth. replace (nth l (iota (length v)) 0%nat) with l.
    - apply lbs_rhs_landmark; assumption.
    - symmetry. apply (nth_map_iota (fun k => k) 0%nat (length v) l) in Hl. rewrite map_id in Hl. exact Hl. }
  rewrite Hb in Hre, Him.
  unfold vfun in Hre, Him. cbn [zero Rops] in Hre, Him.
  assert (L : (l < length x)%nat) by lia.
  rewrite (nth_indep _ 0 (fst (0, 0))) in Hre by (rewrite map_length; exact L). rewrite map_nth in Hre.
  rewrite (nth_indep _ 0 (snd (0, 0))) in Him by (rewrite map_length; exact L). rewrite map_nth in Him.
  apply injective_projections; [exact Hre|exact Him].
Qed.

(* ------------------------------------------------------------------ entry and exit of spherical_conformal_map *)
Theorem scm_gate_spec ts : scm_gate ts = Err ValueError <-> euler ts <> 2%Z.
Proof.
  unfold scm_gate. destruct (Z.eqb (euler ts) 2) eqn:E.
  - apply Z.eqb_eq in E. split; [discriminate|intros H; contradiction].
  - apply Z.eqb_neq in E. split; [intros _; exact E|reflexivity].
Qed.
Theorem scm_final_unit mapping : Forall (fun p => dotR p p = 1) (scm_final Rops mapping).
Proof. unfold scm_final. apply Forall_forall. intros p Hp. apply in_map_iff in Hp. destruct Hp as (w & <- & _). apply inverse_south_on_sphere. Qed.

(* ---- north-pole stage: the big triangle is laid out in the plane similar to itself, and the solver must reproduce it *)
Theorem bigtri_layout_similar (p0 p1 p2 : V3) :
  let a := subR p1 p0 in let b := subR p2 p0 in
  dotR a a <> 0 -> dotR b b <> 0 ->
  bigtri_third Rops p0 p1 p2 = (Rabs (dotR a b) / dotR a a, sqrt (dotR (crossR a b) (crossR a b)) / dotR a a).
Proof.
  intros a b Ha Hb. unfold bigtri_third. fold a b. unfold norm, norm2. cbn [sqrtK add sub mul div one Rops].
  set (A := dotR a a) in *. set (B := dotR b b) in *. set (X := dotR (crossR a b) (crossR a b)).
  assert (PA : 0 < A) by (pose proof (dot_self_nonneg a); unfold A in *; lra).
  assert (PB : 0 < B) by (pose proof (dot_self_nonneg b); unfold B in *; lra).
  assert (PX : 0 <= X) by apply dot_self_nonneg.
  assert (SA : sqrt A * sqrt A = A) by (apply sqrt_sqrt; lra).
  assert (SB : sqrt B * sqrt B = B) by (apply sqrt_sqrt; lra).
  assert (SX : sqrt X * sqrt X = X) by (apply sqrt_sqrt; lra).
  assert (sA : 0 < sqrt A) by (apply sqrt_lt_R0; exact PA). assert (sB : 0 < sqrt B) by (apply sqrt_lt_R0; exact PB).
  assert (Y : sqrt B * (sqrt X / (sqrt A * sqrt B)) * (1 / sqrt A) = sqrt X / A).
  { rewrite <- SA at 3. field. split; lra. }
  rewrite Y. f_equal.
  assert (L : X = A * B - dotR a b * dotR a b) by (unfold X, A, B; apply lagrange).
  replace (sqrt B * sqrt B * (1 / sqrt A * (1 / sqrt A)) - sqrt X / A * (sqrt X / A)) with ((dotR a b / A) * (dotR a b / A)).
  - change ((dotR a b / A) * (dotR a b / A)) with (Rsqr (dotR a b / A)). rewrite sqrt_Rsqr_abs. unfold Rdiv. rewrite Rabs_mult, (Rabs_right (/ A)); [reflexivity|]. apply Rle_ge, Rlt_le, Rinv_0_lt_compat. exact PA.
  - assert (iA : 1 / sqrt A * (1 / sqrt A) = / A).
    { replace (/ A) with (/ (sqrt A * sqrt A)) by (rewrite SA; reflexivity). field. lra. }
    assert (iX : sqrt X / A * (sqrt X / A) = X / (A * A)).
    { replace (X / (A * A)) with (sqrt X * sqrt X / (A * A)) by (rewrite SX; reflexivity). field. lra. }
    rewrite SB, iA, iX, L. field. lra.
Qed.


Theorem north_corners_pinned csolve (HC : csolve_contract csolve) (A : coo R) n p0 p1 p2 (third : CR) x :
  NoDup [p0; p1; p2] -> (p0 < n)%nat -> (p1 < n)%nat -> (p2 < n)%nat ->
  csolve n (north_system Rops A [p0; p1; p2]) (north_rhs Rops n p0 p1 p2 third) = Ok x ->
  nth p0 x (0, 0) = (0, 0) /\ nth p1 x (0, 0) = (1, 0) /\ nth p2 x (0, 0) = third.
Proof.
  intros ND H0 H1 H2 H. apply HC in H. destruct H as [Hlen H].
  set (fixed := [p0; p1; p2]) in *.
  assert (Hrow : forall l y, In l fixed -> mv (north_system Rops A fixed) y l = y l).
  { intros l y Hl. unfold north_system. rewrite mv_app, mv_filter_rows.
    - replace (map (fun i : nat => (i, i, one Rops)) fixed) with (map (fun p : nat * CR => (fst p, fst p, 1)) (map (fun i => (i, (0, 0))) fixed))
        by (rewrite map_map; reflexivity).
      rewrite mv_unit_rows; [ring| rewrite map_map; cbn [fst]; rewrite map_id; exact ND | rewrite map_map; cbn [fst]; rewrite map_id; exact Hl].
    - intros j a. assert (E : memn l fixed = true) by (unfold memn; apply existsb_exists; exists l; split; [exact Hl|apply Nat.eqb_refl]).
      rewrite E. reflexivity. }
  assert (Hb : forall l, (l < n)%nat -> nth l (north_rhs Rops n p0 p1 p2 third) (0, 0)
                = if Nat.eqb l p2 then third else if Nat.eqb l p1 then (1, 0) else (0, 0)).
  { intros l Hl. unfold north_rhs. rewrite (nth_map_iota _ (0, 0) n l Hl). reflexivity. }
  assert (G : forall l, In l fixed -> (l < n)%nat ->
              nth l x (0, 0) = if Nat.eqb l p2 then third else if Nat.eqb l p1 then (1, 0) else (0, 0)).
  { intros l Hl Hn. destruct (H l Hn) as [Hre Him]. rewrite !Hrow in Hre, Him by exact Hl. rewrite Hb in Hre, Him by exact Hn.
    unfold vfun in Hre, Him. cbn [zero Rops] in Hre, Him.
    assert (L : (l < length x)%nat) by lia.
    rewrite (nth_indep _ 0 (fst (0, 0))) in Hre by (rewrite map_length; exact L). rewrite map_nth in Hre.
    rewrite (nth_indep _ 0 (snd (0, 0))) in Him by (rewrite map_length; exact L). rewrite map_nth in Him.
    apply injective_projections; assumption. }
  inversion ND as [|? ? N0 ND1]; subst. inversion ND1 as [|? ? N1 ND2]; subst.
  assert (p0 <> p1 /\ p0 <> p2 /\ p1 <> p2).
  { split; [|split]; intros E; subst; [apply N0; left; reflexivity|apply N0; right; left; reflexivity|apply N1; left; reflexivity]. }
  destruct H3 as (D01 & D02 & D12).
  split; [|split].
  - rewrite (G p0) by (unfold fixed; cbn; tauto || exact H0). apply Nat.eqb_neq in D02, D01. rewrite D02, D01. reflexivity.
  - rewrite (G p1) by (unfold fixed; cbn; tauto || exact H1). apply Nat.eqb_neq in D12. rewrite D12, Nat.eqb_refl. reflexivity.
  - rewrite (G p2) by (unfold fixed; cbn; tauto || exact H2). rewrite Nat.eqb_refl. reflexivity.
Qed.

From Coquelicot Require Import Complex.
(* ---- Moebius correction: the returned map is a Moebius image of the input: unit vectors, cross-ratios kept *)
Local Open Scope C_scope.
Definition mob (a b c d z : C) : C := (a * z + b) / (c * z + d).
Definition cross_ratio (z1 z2 z3 z4 : C) : C := ((z1 - z3) * (z2 - z4)) / ((z1 - z4) * (z2 - z3)).
Lemma mob_diff a b c d z w : c * z + d <> RtoC 0 -> c * w + d <> RtoC 0 ->
  mob a b c d z - mob a b c d w = (a * d - b * c) * (z - w) / ((c * z + d) * (c * w + d)).
Proof. intros H1 H2. unfold mob. field. split; assumption. Qed.
Lemma mobius_keeps_cross_ratio a b c d z1 z2 z3 z4 :
  a * d - b * c <> RtoC 0 -> c * z1 + d <> RtoC 0 -> c * z2 + d <> RtoC 0 -> c * z3 + d <> RtoC 0 -> c * z4 + d <> RtoC 0 ->
  z1 <> z4 -> z2 <> z3 ->
  cross_ratio (mob a b c d z1) (mob a b c d z2) (mob a b c d z3) (mob a b c d z4) = cross_ratio z1 z2 z3 z4.
Proof.
  intros HD H1 H2 H3 H4 N14 N23. unfold cross_ratio.
  rewrite !mob_diff by assumption. field.
  repeat split; try assumption; apply Cminus_eq_contra; assumption.
Qed.
Local Close Scope C_scope.
Open Scope R_scope.

(* the model's complex operations are those of the complex field *)
Lemma cmul_is_Cmult (a b : R * R) : cmul Rops a b = Cmult a b.
Proof. reflexivity. Qed.
Lemma cadd_is_Cplus (a b : R * R) : cadd Rops a b = Cplus a b.
Proof. reflexivity. Qed.
Lemma cdiv_is_Cdiv (a b : R * R) : b <> RtoC 0 -> cdiv Rops a b = Cdiv a b.
Proof.
  intros Hb. destruct a as [ar ai]. destruct b as [br bi].
  assert (D : br * br + bi * bi <> 0).
  { intros E. apply Hb. assert (br = 0 /\ bi = 0) by nra. destruct H as [-> ->]. reflexivity. }
  unfold cdiv, Cdiv, Cmult, Cinv. cbn [fst snd add sub mul div Rops].
  apply injective_projections; cbn [fst snd]; field; try exact D; intros E; apply D; rewrite <- E; ring.
Qed.
Lemma mobius1_is_mob ca cb cc cd z : Cplus (Cmult cc z) cd <> RtoC 0 -> mobius1 Rops ca cb cc cd z = mob ca cb cc cd z.
Proof. intros H. unfold mobius1, mob. rewrite !cmul_is_Cmult, !cadd_is_Cplus. apply cdiv_is_Cdiv. exact H. Qed.

Theorem mobius_result_unit ca cb cc cd mapping : Forall (fun p => dotR p p = 1) (mobius_result Rops ca cb cc cd mapping).
Proof. unfold mobius_result. apply Forall_forall. intros p Hp. apply in_map_iff in Hp. destruct Hp as (u & <- & _). apply inverse_stereographic_on_sphere. Qed.

(* four points of the input and their images: same cross-ratio in the stereographic plane *)
Theorem mobius_result_cross_ratio ca cb cc cd (u1 u2 u3 u4 : V3) :
  let st := stereographic1 Rops in
  let im u := inverse_stereographic1 Rops (mobius1 Rops ca cb cc cd (st u)) in
  Cminus (Cmult ca cd) (Cmult cb cc) <> RtoC 0 ->
  Cplus (Cmult cc (st u1)) cd <> RtoC 0 -> Cplus (Cmult cc (st u2)) cd <> RtoC 0 ->
  Cplus (Cmult cc (st u3)) cd <> RtoC 0 -> Cplus (Cmult cc (st u4)) cd <> RtoC 0 ->
  st u1 <> st u4 -> st u2 <> st u3 ->
  cross_ratio (st (im u1)) (st (im u2)) (st (im u3)) (st (im u4)) = cross_ratio (st u1) (st u2) (st u3) (st u4).
Proof.
  intros st im HD H1 H2 H3 H4 N14 N23. unfold im.
  rewrite !stereographic_inverts_inverse. fold st.
  rewrite !mobius1_is_mob by assumption. apply mobius_keeps_cross_ratio; assumption.
Qed.
