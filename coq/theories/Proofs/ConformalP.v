(* Proofs/ConformalP.v -- theorems about the building blocks of lapy/conformal.py (C18) over R. *)
From Coq Require Import List Arith Bool PeanoNat ZArith Lia Reals Lra.
From LaPyV Require Import Base.Scalar Base.Vec3 Base.ListAux Base.Sparse Model.TetMesh Model.TriaAdj Model.Conformal
  Proofs.SparseP Proofs.TetMeshP Proofs.FemTriaP Proofs.TriaAdjP Proofs.TriaGeomP Proofs.DiffGeoP Proofs.PoissonP Proofs.EigsP.
Import ListNotations.
Open Scope R_scope.

Notation CR := (C (K:=R)).
Notation st1 := (stereographic1 Rops).
Notation inv1 := (inverse_stereographic1 Rops).

(* ------------------------------------------------------------------ stereographic pair *)
Lemma two_is_2 : two_ Rops = 2.
Proof. unfold two_. cbn [add one Rops]. ring. Qed.

Theorem inverse_stereographic_on_sphere (w : CR) : dotR (inv1 w) (inv1 w) = 1.
Proof.
  destruct w as [x y]. unfold inverse_stereographic1, dot, vx, vy, vz. rewrite two_is_2.
  cbn [fst snd add sub mul div opp one Rops].
  assert (H : 1 + x * x + y * y <> 0) by nra. field. exact H.
Qed.
Theorem stereographic_inverts_inverse (w : CR) : st1 (inv1 w) = w.
Proof.
  destruct w as [x y]. unfold stereographic1, inverse_stereographic1, vx, vy, vz. rewrite two_is_2.
  cbn [fst snd add sub mul div opp one Rops].
  assert (H : 1 + x * x + y * y <> 0) by nra.
  f_equal; field; split; try exact H; nra.
Qed.
Theorem inverse_inverts_stereographic (u : V3) : dotR u u = 1 -> vz u <> 1 -> inv1 (st1 u) = u.
Proof.
  r3 u. unfold dot, stereographic1, inverse_stereographic1, vx, vy, vz. rewrite two_is_2.
  cbn [fst snd add sub mul div opp one Rops]. intros H Hz.
  assert (H1 : 1 - z <> 0) by lra.
  assert (E : x * x + y * y = (1 - z) * (1 + z)) by nra.
  assert (D : 1 + x / (1 - z) * (x / (1 - z)) + y / (1 - z) * (y / (1 - z)) = 2 / (1 - z)).
  { transitivity (1 + (x * x + y * y) / ((1 - z) * (1 - z))); [field; exact H1|]. rewrite E. field. exact H1. }
  assert (N : - (1) + x / (1 - z) * (x / (1 - z)) + y / (1 - z) * (y / (1 - z)) = 2 * z / (1 - z)).
  { transitivity (- (1) + (x * x + y * y) / ((1 - z) * (1 - z))); [field; exact H1|]. rewrite E. field. exact H1. }
  rewrite D, N. f_equal; [f_equal|]; field; exact H1.
Qed.
(* the last step of spherical_conformal_map: unit vectors; it inverts the south-pole projection x / (1 + z) *)
Theorem inverse_south_on_sphere (w : CR) : dotR (inverse_south1 Rops w) (inverse_south1 Rops w) = 1.
Proof.
  pose proof (inverse_stereographic_on_sphere w) as H. unfold inverse_south1.
  destruct (inv1 w) as [[a b] c]. unfold dot, vx, vy, vz in *. cbn [fst snd add mul opp Rops] in *. lra.
Qed.
Theorem inverse_south_inverts_south_projection (w : CR) :
  let p := inverse_south1 Rops w in (vx p / (1 + vz p), vy p / (1 + vz p)) = w.
Proof.
  destruct w as [x y]. unfold inverse_south1, inverse_stereographic1, vx, vy, vz. rewrite two_is_2.
  cbn [fst snd add sub mul div opp one Rops].
  assert (H : 1 + x * x + y * y <> 0) by nra.
  f_equal; field; split; try exact H; nra.
Qed.

(* ------------------------------------------------------------------ Beltrami coefficient of an affine map *)
(* the discrete derivative operators are exact on affine functions (with the code's sign convention: both are
   minus the partial derivatives; only products of two of them are used) *)
Lemma tri_dxdy_affine v a b c (g : nat -> R) al be ga :
  let p0 := getv Rops v a in let p1 := getv Rops v b in let p2 := getv Rops v c in
  (vx p2 - vx p1) * (vy p0 - vy p2) - (vy p2 - vy p1) * (vx p0 - vx p2) <> 0 ->
  g a = al * vx p0 + be * vy p0 + ga -> g b = al * vx p1 + be * vy p1 + ga -> g c = al * vx p2 + be * vy p2 + ga ->
  tri_dxdy Rops v (a, b, c) g = (- al, - be).
Proof.
  intros p0 p1 p2 H Ha Hb Hc. unfold tri_dxdy. fold p0 p1 p2. rewrite Ha, Hb, Hc.
  destruct p0 as [[x0 y0] z0]. destruct p1 as [[x1 y1] z1]. destruct p2 as [[x2 y2] z2].
  unfold vx, vy in *. cbn [fst snd add sub mul div opp Rops] in *.
  apply f_equal2; field; exact H.
Qed.

(* z -> a z + b conj z, as a map of the plane, followed by an isometric embedding of the plane into space *)
Definition affine_c (a b : CR) (p : V3) : CR :=
  ((fst a + fst b) * vx p + (snd b - snd a) * vy p, (snd a + snd b) * vx p + (fst a - fst b) * vy p).
Definition embed (e1 e2 o3 : V3) (w : CR) : V3 :=
  (vx o3 + fst w * vx e1 + snd w * vx e2, vy o3 + fst w * vy e1 + snd w * vy e2, vz o3 + fst w * vz e1 + snd w * vz e2).

Theorem beltrami_of_affine_map v m ia ib ic (a b : CR) e1 e2 o3 :
  let p0 := getv Rops v ia in let p1 := getv Rops v ib in let p2 := getv Rops v ic in
  (vx p2 - vx p1) * (vy p0 - vy p2) - (vy p2 - vy p1) * (vx p0 - vx p2) <> 0 ->
  dotR e1 e1 = 1 -> dotR e2 e2 = 1 -> dotR e1 e2 = 0 ->
  fst b * fst b + snd b * snd b < fst a * fst a + snd a * snd a ->
  getv Rops m ia = embed e1 e2 o3 (affine_c a b p0) -> getv Rops m ib = embed e1 e2 o3 (affine_c a b p1) ->
  getv Rops m ic = embed e1 e2 o3 (affine_c a b p2) ->
  beltrami1 Rops v m (ia, ib, ic)
  = ((fst b * fst a + snd b * snd a) / (fst a * fst a + snd a * snd a),
     (snd b * fst a - fst b * snd a) / (fst a * fst a + snd a * snd a)).
Proof.
  intros p0 p1 p2 Hdeg H11 H22 H12 Hab M0 M1 M2. subst p0 p1 p2.
  destruct a as [ar ai]. destruct b as [br bi]. cbn [fst snd] in *.
  set (P := ar + br). set (Q := ai + bi). set (R_ := bi - ai). set (S_ := ar - br).
  unfold beltrami1.
  assert (DX : forall pr : V3 -> R, forall k1 k2 k3 : R,
             (forall w, pr (embed e1 e2 o3 w) = k3 + fst w * k1 + snd w * k2) ->
             tri_dxdy Rops v (ia, ib, ic) (fun i => pr (getv Rops m i)) = (- (k1 * P + k2 * Q), - (k1 * R_ + k2 * S_))).
  { intros pr k1 k2 k3 Hpr.
    apply (tri_dxdy_affine v ia ib ic _ (k1 * P + k2 * Q) (k1 * R_ + k2 * S_) k3); [exact Hdeg| | |];
      cbv beta; [rewrite M0|rewrite M1|rewrite M2]; rewrite Hpr; unfold affine_c, P, Q, R_, S_; cbn [fst snd]; ring. }
  rewrite (DX (fun p => vx p) (vx e1) (vx e2) (vx o3)) by (intros w; reflexivity).
  rewrite (DX (fun p => vy p) (vy e1) (vy e2) (vy o3)) by (intros w; reflexivity).
  rewrite (DX (fun p => vz p) (vz e1) (vz e2) (vz o3)) by (intros w; reflexivity).
  rewrite two_is_2. cbn [add sub mul div sqrtK Rops].
  destruct e1 as [[e1x e1y] e1z]. destruct e2 as [[e2x e2y] e2z]. unfold dot, vx, vy, vz in *. cbn [fst snd add mul Rops] in *.
  set (E := - (e1x * P + e2x * Q) * - (e1x * P + e2x * Q) + - (e1y * P + e2y * Q) * - (e1y * P + e2y * Q) + - (e1z * P + e2z * Q) * - (e1z * P + e2z * Q)).
  set (G := - (e1x * R_ + e2x * S_) * - (e1x * R_ + e2x * S_) + - (e1y * R_ + e2y * S_) * - (e1y * R_ + e2y * S_) + - (e1z * R_ + e2z * S_) * - (e1z * R_ + e2z * S_)).
  set (F := - (e1x * P + e2x * Q) * - (e1x * R_ + e2x * S_) + - (e1y * P + e2y * Q) * - (e1y * R_ + e2y * S_) + - (e1z * P + e2z * Q) * - (e1z * R_ + e2z * S_)).
  assert (HE : E = P * P + Q * Q).
  { unfold E. transitivity (P * P * (e1x * e1x + e1y * e1y + e1z * e1z) + 2 * P * Q * (e1x * e2x + e1y * e2y + e1z * e2z)
                           + Q * Q * (e2x * e2x + e2y * e2y + e2z * e2z)); [ring|]. rewrite H11, H22, H12. ring. }
  assert (HG : G = R_ * R_ + S_ * S_).
  { unfold G. transitivity (R_ * R_ * (e1x * e1x + e1y * e1y + e1z * e1z) + 2 * R_ * S_ * (e1x * e2x + e1y * e2y + e1z * e2z)
                           + S_ * S_ * (e2x * e2x + e2y * e2y + e2z * e2z)); [ring|]. rewrite H11, H22, H12. ring. }
  assert (HF : F = P * R_ + Q * S_).
  { unfold F. transitivity (P * R_ * (e1x * e1x + e1y * e1y + e1z * e1z) + (P * S_ + Q * R_) * (e1x * e2x + e1y * e2y + e1z * e2z)
                           + Q * S_ * (e2x * e2x + e2y * e2y + e2z * e2z)); [ring|]. rewrite H11, H22, H12. ring. }
  set (D := ar * ar + ai * ai - (br * br + bi * bi)).
  assert (HD : 0 < D) by (unfold D; lra).
  assert (Hs : sqrt (E * G - F * F) = D).
  { rewrite HE, HG, HF. replace ((P * P + Q * Q) * (R_ * R_ + S_ * S_) - (P * R_ + Q * S_) * (P * R_ + Q * S_)) with (D * D)
      by (unfold D, P, Q, R_, S_; ring). apply sqrt_square. lra. }
  rewrite Hs, HE, HG, HF.
  assert (Ha : ar * ar + ai * ai <> 0) by nra.
  unfold D, P, Q, R_, S_. f_equal; field; nra.
Qed.

(* ------------------------------------------------------------------ linear_beltrami_solver: landmarks *)
Definition csolve_contract (csolve : nat -> coo R -> list CR -> result (list CR)) : Prop :=
  forall n S b x, csolve n S b = Ok x -> length x = n /\
    forall i, (i < n)%nat -> mulvec_at Rops S (vfun Rops (map fst x)) i = fst (nth i b (0, 0)) /\
                             mulvec_at Rops S (vfun Rops (map snd x)) i = snd (nth i b (0, 0)).

Lemma mv_app (M N : coo R) x i : mv (M ++ N) x i = mv M x i + mv N x i.
Proof.
  induction M as [|[[i' j] a] M IH]; cbn [app]; [rewrite mv_nil; ring|]. rewrite !mv_cons, IH. ring.
Qed.
Lemma mv_filter_rows (M : coo R) (keep : nat * nat * R -> bool) x i :
  (forall j a, keep (i, j, a) = false) -> mv (filter keep M) x i = 0.
Proof.
  intros H. induction M as [|[[i' j] a] M IH]; [apply mv_nil|]. cbn [filter].
  destruct (keep (i', j, a)) eqn:E; [|exact IH].
  rewrite mv_cons, IH. destruct (Nat.eqb i' i) eqn:E2; [|ring]. apply Nat.eqb_eq in E2. subst. rewrite H in E. discriminate.
Qed.
Lemma mv_unit_rows (lm : list (nat * CR)) x l : NoDup (map fst lm) -> In l (map fst lm) ->
  mv (map (fun p : nat * CR => (fst p, fst p, 1)) lm) x l = x l.
Proof.
  induction lm as [|[k tg] lm IH]; intros ND Hin; [destruct Hin|].
  cbn [map fst] in ND. inversion ND as [|? ? Hnot ND']; subst.
  cbn [map fst]. rewrite mv_cons.
  destruct (Nat.eqb k l) eqn:E.
  - apply Nat.eqb_eq in E. subst k.
    assert (Z : mv (map (fun p : nat * CR => (fst p, fst p, 1)) lm) x l = 0).
    { clear -Hnot. induction lm as [|[k tg] lm IH]; [apply mv_nil|]. cbn [map fst]. rewrite mv_cons.
      cbn [map fst] in Hnot. destruct (Nat.eqb k l) eqn:E; [apply Nat.eqb_eq in E; subst; exfalso; apply Hnot; left; reflexivity|].
      rewrite IH; [ring|]. intros H. apply Hnot. right. exact H. }
    rewrite Z. ring.
  - rewrite IH; [ring|exact ND'|]. destruct Hin as [H|H]; [cbn in H; subst; rewrite Nat.eqb_refl in E; discriminate|exact H].
Qed.

Lemma lbs_rhs_landmark (A : coo R) lm l tg : NoDup (map fst lm) -> In (l, tg) lm -> lbs_rhs Rops A lm l = tg.
Proof.
  intros ND Hin. unfold lbs_rhs.
  assert (F : find (fun p : nat * CR => Nat.eqb (fst p) l) lm = Some (l, tg)).
  { induction lm as [|[k t0] lm IH]; [destruct Hin|]. cbn [find fst]. cbn [map fst] in ND. inversion ND as [|? ? Hnot ND']; subst.
    destruct Hin as [H|H].
    - inversion H; subst. rewrite Nat.eqb_refl. reflexivity.
    - destruct (Nat.eqb k l) eqn:E.
      + apply Nat.eqb_eq in E. subst. exfalso. apply Hnot. apply (in_map fst) in H. exact H.
      + apply IH; assumption. }
  rewrite F. reflexivity.
Qed.

Theorem lbs_landmarks_exact csolve (HC : csolve_contract csolve) v ts mus lm x l tg :
  linear_beltrami_solver Rops csolve v ts mus lm = Ok x ->
  NoDup (map fst lm) -> In (l, tg) lm -> (l < length v)%nat -> nth l x (0, 0) = tg.
Proof.
  unfold linear_beltrami_solver. destruct (negb (planar Rops v)); [discriminate|].
  intros H ND Hin Hl. apply HC in H. destruct H as [Hlen H]. destruct (H l Hl) as [Hre Him]. clear H.
  assert (Hrow : forall y, mulvec_at Rops (lbs_system Rops (lbs_matrix Rops v ts mus) lm) y l = y l).
  { intros y. unfold lbs_system. rewrite mv_app, mv_filter_rows, mv_unit_rows.
    - ring.
    - exact ND.
    - apply (in_map fst) in Hin. exact Hin.
    - intros j a. assert (E : is_lm lm l = true).
      { unfold is_lm. apply existsb_exists. exists (l, tg). split; [exact Hin|apply Nat.eqb_refl]. }
      rewrite E. reflexivity. }
  rewrite !Hrow in *.
  assert (Hb : nth l (map (lbs_rhs Rops (lbs_matrix Rops v ts mus) lm) (iota (length v))) (0, 0) = tg).
  { rewrite (nth_indep _ (0, 0) (lbs_rhs Rops (lbs_matrix Rops v ts mus) lm 0)) by (rewrite map_length, iota_length; exact Hl).
    rewrite map_nth. replace (nth l (iota (length v)) 0%nat) with l.
    - apply lbs_rhs_landmark; assumption.
    - symmetry. apply (nth_map_iota (fun k => k) 0%nat (length v) l) in Hl. rewrite map_id in Hl. exact Hl. }
  rewrite Hb in Hre, Him.
  unfold vfun in Hre, Him. cbn [zero Rops] in Hre, Him.
  assert (L : (l < length x)%nat) by lia.
  rewrite (nth_indep _ 0 (fst (0, 0))) in Hre by (rewrite map_length; exact L). rewrite map_nth in Hre.
  rewrite (nth_indep _ 0 (snd (0, 0))) in Him by (rewrite map_length; exact L). rewrite map_nth in Him.
  apply injective_projections; [exact Hre|exact Him].
Qed.

(* ------------------------------------------------------------------ entry and exit of spherical_conformal_map *)
Theorem scm_gate_spec ts : scm_gate ts = Err ValueError <-> euler ts <> 2%Z.
Proof.
  unfold scm_gate. destruct (Z.eqb (euler ts) 2) eqn:E.
  - apply Z.eqb_eq in E. split; [discriminate|intros H; contradiction].
  - apply Z.eqb_neq in E. split; [intros _; exact E|reflexivity].
Qed.
Theorem scm_final_unit mapping : Forall (fun p => dotR p p = 1) (scm_final Rops mapping).
Proof. unfold scm_final. apply Forall_forall. intros p Hp. apply in_map_iff in Hp. destruct Hp as (w & <- & _). apply inverse_south_on_sphere. Qed.
