(* Proofs/CentroidAffP.v -- C13: centroid() is equivariant under translation and positive uniform scaling: for p -> s (p - c), s > 0,
   the returned centre is mapped the same way and the returned total area is multiplied by s^2 (any mesh of non-zero area). *)
From Coq Require Import List Arith Bool PeanoNat Lia Reals Lra.
From LaPyV Require Import Base.Scalar Base.Vec3 Base.ListAux Base.Sparse Model.TetMesh Model.TriaAdj Model.TriaOrient
  Model.Fem Model.TriaGeom Model.Flow Proofs.SparseP Proofs.TetMeshP Proofs.TriaAdjP Proofs.FemTriaP Proofs.InvarianceP Proofs.TriaGeomP Proofs.FlowP.
Import ListNotations.
Open Scope R_scope.
Local Notation V3 := (vec3 R).

Lemma total_area_aff s c v ts : 0 <= s -> tris_in_range (length v) ts -> total_area (map (aff s c) v) ts = s * s * total_area v ts.
Proof.
  intros Hs Hr. unfold total_area. rewrite (Rsum_in_range _ (fun t => s * s * cen_area Rops v t) (length v) ts Hr).
  - apply Rsum_scal.
  - intros a b d H. apply cen_area_aff; assumption.
Qed.

Theorem centroid_aff s c v ts : 0 < s -> tris_in_range (length v) ts -> 0 < total_area v ts ->
  centroid Rops (map (aff s c) v) ts = (aff s c (fst (centroid Rops v ts)), s * s * snd (centroid Rops v ts)).
Proof.
  intros Hs Hr HA.
  rewrite (surjective_pairing (centroid Rops (map (aff s c) v) ts)). rewrite !centroid_snd, total_area_aff by (assumption || lra).
  f_equal. rewrite !centroid_fst, total_area_aff by (assumption || lra). set (A := total_area v ts) in *.
  assert (G : forall (pr : V3 -> R), (forall s0 c0 p, pr (aff s0 c0 p) = s0 * (pr p - pr c0)) ->
             Rsum (fun t => cen_area Rops (map (aff s c) v) t / (s * s * A) * pr (tri_centre Rops (map (aff s c) v) t)) ts =
             s * (Rsum (fun t => cen_area Rops v t / A * pr (tri_centre Rops v t)) ts - pr c)).
  { intros pr Hpr.
    rewrite (Rsum_in_range _ (fun t => s * (cen_area Rops v t / A * pr (tri_centre Rops v t)) - (s * pr c / A) * cen_area Rops v t)
                           (length v) ts Hr).
    - rewrite Rsum_plus_minus. rewrite !Rsum_scal. fold (total_area v ts). fold A. field. lra.
    - intros a b d H. rewrite cen_area_aff, tri_centre_aff by (assumption || lra). rewrite Hpr. field. split; lra. }
  assert (Px : forall s0 c0 p, vx (aff s0 c0 p) = s0 * (vx p - vx c0)) by (intros s0 c0 p; r3 p; r3 c0; reflexivity).
  assert (Py : forall s0 c0 p, vy (aff s0 c0 p) = s0 * (vy p - vy c0)) by (intros s0 c0 p; r3 p; r3 c0; reflexivity).
  assert (Pz : forall s0 c0 p, vz (aff s0 c0 p) = s0 * (vz p - vz c0)) by (intros s0 c0 p; r3 p; r3 c0; reflexivity).
  rewrite (G (fun p => vx p) Px), (G (fun p => vy p) Py), (G (fun p => vz p) Pz).
  set (cx := Rsum _ ts). set (cy := Rsum _ ts). set (cz := Rsum _ ts). r3 c.
  unfold aff, vscale, vsub, vx, vy, vz. cbn [fst snd sub mul Rops]. reflexivity.
Qed.

(* special cases: pure translation (s = 1) and pure scaling (c = 0) *)
Corollary centroid_translation c v ts : tris_in_range (length v) ts -> 0 < total_area v ts ->
  centroid Rops (map (fun p => vsub Rops p c) v) ts = (vsub Rops (fst (centroid Rops v ts)) c, snd (centroid Rops v ts)).
Proof.
  intros Hr HA. pose proof (centroid_aff 1 c v ts Rlt_0_1 Hr HA) as H.
  assert (E : forall p, aff 1 c p = vsub Rops p c).
  { intros p. r3 p; r3 c. unfold aff, vscale, vsub, vx, vy, vz. cbn [fst snd sub mul Rops]. f_equal; [f_equal|]; ring. }
  rewrite (map_ext _ _ E) in H. rewrite H, E. f_equal. ring.
Qed.
