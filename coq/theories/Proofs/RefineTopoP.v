(* Proofs/RefineTopoP.v -- one refinement step and the half-edge structure: orientedness, manifoldness and closedness of the
   refined mesh (C11).  Exact half-edge counts of the children in terms of the parents. *)
From Coq Require Import List Arith Bool PeanoNat Lia Permutation.
From LaPyV Require Import Base.Scalar Base.Vec3 Base.ListAux Model.TetMesh Model.TriaAdj Model.TriaRefine Proofs.SortP Proofs.TriaAdjP Proofs.TriaRefineP
  Proofs.TriaOrientP Proofs.OrientPairP Proofs.OrientCorrectP.
Import ListNotations.

Lemma index_of_nth k l i : NoDup l -> nth_error l i = Some k -> index_of k l 0 = Some i.
Proof.
  intros Hnd Hn. assert (Hin : In k l) by (apply nth_error_In in Hn; exact Hn).
  destruct (index_of_in k l 0 Hin) as (j & Hj). rewrite Hj. f_equal.
  apply index_of_spec in Hj. rewrite Nat.sub_0_r in Hj. destruct Hj as [_ Hj].
  apply (proj1 (NoDup_nth_error l) Hnd); [apply nth_error_Some; congruence|congruence].
Qed.
Lemma ukey_cases a b : (a < b /\ ukey a b = (a, b)) \/ (b <= a /\ ukey a b = (b, a)).
Proof. unfold ukey. destruct (Nat.ltb_spec a b); auto. Qed.
Lemma ukey_eq a b c d : a <> b -> c <> d -> ukey a b = ukey c d -> (a = c /\ b = d) \/ (a = d /\ b = c).
Proof.
  intros Hab Hcd H. destruct (ukey_cases a b) as [[L1 E1]|[L1 E1]], (ukey_cases c d) as [[L2 E2]|[L2 E2]];
    rewrite E1, E2 in H; inversion H; subst; auto.
Qed.

Section Refine.
  Context (n : nat) (ts : list tri).
  Context (Hd : Forall distinct_tri ts).
  Context (Hn : forall t i, In t ts -> tri_has t i = true -> i < n).
  Notation E := (edge_list ts).
  Notation idx := (edge_idx n (edge_list ts)).

  Lemma in_distinct t : In t ts -> distinct_tri t.
  Proof. rewrite Forall_forall in Hd. apply Hd. Qed.

  (* the new vertex on an edge of a triangle of the mesh *)
  Lemma idx_spec t p q : In t ts -> In (p, q) (sym1 t) -> p <> q ->
    exists k, idx p q = n + k /\ nth_error E k = Some (ukey p q).
  Proof.
    intros Ht Hpq Hne. assert (Hin := edge_in_list ts t p q Ht Hpq Hne).
    destruct (index_of_in _ _ 0 Hin) as (k & Hk). exists k. unfold edge_idx. rewrite Hk. split; [reflexivity|].
    apply index_of_spec in Hk. rewrite Nat.sub_0_r in Hk. apply Hk.
  Qed.
  Lemma idx_of_key k p q : nth_error E k = Some (ukey p q) -> idx p q = n + k.
  Proof. intros H. unfold edge_idx. rewrite (index_of_nth _ _ k (edge_list_nodup ts) H). reflexivity. Qed.
  Lemma idx_inj t1 t2 p q p' q' : In t1 ts -> In t2 ts -> In (p, q) (sym1 t1) -> In (p', q') (sym1 t2) -> p <> q -> p' <> q' ->
    idx p q = idx p' q' -> ukey p q = ukey p' q'.
  Proof.
    intros H1 H2 Hs1 Hs2 Hne1 Hne2 Heq.
    destruct (idx_spec t1 p q H1 Hs1 Hne1) as (k & Ek & Nk). destruct (idx_spec t2 p' q' H2 Hs2 Hne2) as (k' & Ek' & Nk').
    assert (k = k') by lia. subst k'. congruence.
  Qed.

  (* ---- the three midpoints of a parent *)
  Lemma parent_mids a b c : In (a, b, c) ts ->
    exists k1 k2 k3, idx a b = n + k1 /\ idx b c = n + k2 /\ idx c a = n + k3 /\
      nth_error E k1 = Some (ukey a b) /\ nth_error E k2 = Some (ukey b c) /\ nth_error E k3 = Some (ukey c a) /\
      k1 <> k2 /\ k2 <> k3 /\ k3 <> k1 /\ a < n /\ b < n /\ c < n /\ a <> b /\ b <> c /\ c <> a.
  Proof.
    intros Ht. destruct (in_distinct _ Ht) as (Hab & Hbc & Hca).
    destruct (idx_spec _ a b Ht) as (k1 & E1 & N1); [cbn; auto|exact Hab|].
    destruct (idx_spec _ b c Ht) as (k2 & E2 & N2); [cbn; auto|exact Hbc|].
    destruct (idx_spec _ c a Ht) as (k3 & E3 & N3); [cbn; auto 7|exact Hca|].
    exists k1, k2, k3. repeat split; auto.
    - intros ->. rewrite N1 in N2. inversion N2 as [K]. apply ukey_eq in K; auto. destruct K as [[? ?]|[? ?]]; congruence.
    - intros ->. rewrite N2 in N3. inversion N3 as [K]. apply ukey_eq in K; auto. destruct K as [[? ?]|[? ?]]; congruence.
    - intros ->. rewrite N3 in N1. inversion N1 as [K]. apply ukey_eq in K; auto. destruct K as [[? ?]|[? ?]]; congruence.
    - apply (Hn _ a Ht). unfold tri_has. rewrite Nat.eqb_refl. reflexivity.
    - apply (Hn _ b Ht). unfold tri_has. rewrite Nat.eqb_refl, orb_true_r. reflexivity.
    - apply (Hn _ c Ht). unfold tri_has. rewrite Nat.eqb_refl, !orb_true_r. reflexivity.
  Qed.

  (* ---- half-edges of the four children of one parent *)
  Definition on_b (t : tri) (x y : nat) : bool :=
    let '(a, b, c) := t in (Nat.eqb a x && Nat.eqb (idx a b) y) || (Nat.eqb b x && Nat.eqb (idx b c) y) || (Nat.eqb c x && Nat.eqb (idx c a) y).
  Definition no_b (t : tri) (x y : nat) : bool :=
    let '(a, b, c) := t in (Nat.eqb (idx c a) x && Nat.eqb a y) || (Nat.eqb (idx a b) x && Nat.eqb b y) || (Nat.eqb (idx b c) x && Nat.eqb c y).
  Definition mid_in (t : tri) (x : nat) : bool :=
    let '(a, b, c) := t in Nat.eqb (idx a b) x || Nat.eqb (idx b c) x || Nat.eqb (idx c a) x.

  Lemma hedge4 a b c x y : hedge_count (children n E (a, b, c)) x y =
    (if tri_hedge (a, idx a b, idx c a) x y then 1 else 0) + (if tri_hedge (b, idx b c, idx a b) x y then 1 else 0)
    + (if tri_hedge (c, idx c a, idx b c) x y then 1 else 0) + (if tri_hedge (idx a b, idx b c, idx c a) x y then 1 else 0).
  Proof. unfold hedge_count, children. rewrite !count_if_cons. unfold count_if. cbn [filter length]. lia. Qed.

  Ltac eqb_false u w := let H := fresh "F" in assert (H : Nat.eqb u w = false) by (apply Nat.eqb_neq; lia); rewrite ?H; clear H.
  Ltac split3 x a b c :=
    destruct (Nat.eqb_spec a x) as [?|?]; [subst x; eqb_false b a; eqb_false c a|
    destruct (Nat.eqb_spec b x) as [?|?]; [subst x; eqb_false c b|destruct (Nat.eqb_spec c x) as [?|?]; [subst x|]]].

  Lemma children_old_new t x y : In t ts -> x < n -> n <= y ->
    hedge_count (children n E t) x y = if on_b t x y then 1 else 0.
  Proof.
    destruct t as [[a b] c]. intros Ht Hx Hy.
    destruct (parent_mids a b c Ht) as (k1 & k2 & k3 & E1 & E2 & E3 & _ & _ & _ & D1 & D2 & D3 & La & Lb & Lc & Hab & Hbc & Hca).
    rewrite hedge4. unfold on_b, tri_hedge. rewrite E1, E2, E3.
    eqb_false (n + k1) x. eqb_false (n + k2) x. eqb_false (n + k3) x. eqb_false a y. eqb_false b y. eqb_false c y.
    rewrite ?andb_false_r, ?andb_false_l, ?orb_false_r, ?orb_false_l.
    split3 x a b c; rewrite ?andb_true_l, ?andb_false_l, ?orb_false_r, ?orb_false_l;
      repeat match goal with |- context [Nat.eqb ?u ?w] => destruct (Nat.eqb u w) end; reflexivity.
  Qed.
  Lemma children_new_old t x y : In t ts -> n <= x -> y < n ->
    hedge_count (children n E t) x y = if no_b t x y then 1 else 0.
  Proof.
    destruct t as [[a b] c]. intros Ht Hx Hy.
    destruct (parent_mids a b c Ht) as (k1 & k2 & k3 & E1 & E2 & E3 & _ & _ & _ & D1 & D2 & D3 & La & Lb & Lc & Hab & Hbc & Hca).
    rewrite hedge4. unfold no_b, tri_hedge. rewrite E1, E2, E3.
    eqb_false (n + k1) y. eqb_false (n + k2) y. eqb_false (n + k3) y. eqb_false a x. eqb_false b x. eqb_false c x.
    rewrite ?andb_false_r, ?andb_false_l, ?orb_false_r, ?orb_false_l.
    split3 y a b c; rewrite ?andb_true_r, ?andb_false_r, ?orb_false_r, ?orb_false_l;
      repeat match goal with |- context [Nat.eqb ?u ?w] => destruct (Nat.eqb u w) end; reflexivity.
  Qed.
  Lemma children_old_old t x y : In t ts -> x < n -> y < n -> hedge_count (children n E t) x y = 0.
  Proof.
    destruct t as [[a b] c]. intros Ht Hx Hy.
    destruct (parent_mids a b c Ht) as (k1 & k2 & k3 & E1 & E2 & E3 & _ & _ & _ & D1 & D2 & D3 & La & Lb & Lc & Hab & Hbc & Hca).
    rewrite hedge4. unfold tri_hedge. rewrite E1, E2, E3.
    eqb_false (n + k1) x. eqb_false (n + k2) x. eqb_false (n + k3) x. eqb_false (n + k1) y. eqb_false (n + k2) y. eqb_false (n + k3) y.
    rewrite ?andb_false_r, ?andb_false_l, ?orb_false_r, ?orb_false_l. reflexivity.
  Qed.
  Lemma children_new_new t x y : In t ts -> n <= x -> n <= y -> x <> y ->
    hedge_count (children n E t) x y = if mid_in t x && mid_in t y then 1 else 0.
  Proof.
    destruct t as [[a b] c]. intros Ht Hx Hy Hxy.
    destruct (parent_mids a b c Ht) as (k1 & k2 & k3 & E1 & E2 & E3 & _ & _ & _ & D1 & D2 & D3 & La & Lb & Lc & Hab & Hbc & Hca).
    rewrite hedge4. unfold mid_in, tri_hedge. rewrite E1, E2, E3.
    eqb_false a x. eqb_false b x. eqb_false c x. eqb_false a y. eqb_false b y. eqb_false c y.
    rewrite ?andb_false_r, ?andb_false_l, ?orb_false_r, ?orb_false_l.
    split3 x (n + k1) (n + k2) (n + k3); rewrite ?andb_true_l, ?andb_false_l, ?orb_false_r, ?orb_false_l, ?orb_true_l;
      try (eqb_false (n + k1) y); try (eqb_false (n + k2) y); try (eqb_false (n + k3) y);
      rewrite ?andb_true_l, ?andb_false_l, ?orb_false_r, ?orb_false_l, ?orb_true_l;
      repeat match goal with |- context [Nat.eqb ?u ?w] => destruct (Nat.eqb_spec u w); try lia end; reflexivity.
  Qed.
  Lemma children_distinct t : In t ts -> Forall distinct_tri (children n E t).
  Proof.
    destruct t as [[a b] c]. intros Ht.
    destruct (parent_mids a b c Ht) as (k1 & k2 & k3 & E1 & E2 & E3 & _ & _ & _ & D1 & D2 & D3 & La & Lb & Lc & Hab & Hbc & Hca).
    unfold children. rewrite E1, E2, E3. repeat constructor; cbn; lia.
  Qed.

  (* ---- summing over the parents *)
  Notation ts' := (flat_map (children n E) ts).
  Lemma count_flat_indicator {B} (p : B -> bool) (f : tri -> list B) (g : tri -> bool) : forall l,
    (forall t, In t l -> count_if p (f t) = if g t then 1 else 0) -> count_if p (flat_map f l) = count_if g l.
  Proof.
    induction l as [|t l IH]; intros H; [reflexivity|]. cbn [flat_map]. rewrite count_if_app, count_if_cons, IH.
    - rewrite (H t (or_introl eq_refl)). reflexivity.
    - intros u Hu. apply H. right. exact Hu.
  Qed.
  Lemma count_flat_zero {B} (p : B -> bool) (f : tri -> list B) : forall l,
    (forall t, In t l -> count_if p (f t) = 0) -> count_if p (flat_map f l) = 0.
  Proof.
    induction l as [|t l IH]; intros H; [reflexivity|]. cbn [flat_map]. rewrite count_if_app, IH, (H t (or_introl eq_refl)); [reflexivity|].
    intros u Hu. apply H. right. exact Hu.
  Qed.
  Lemma refined_distinct : Forall distinct_tri ts'.
  Proof.
    rewrite Forall_forall. intros c Hc. apply in_flat_map in Hc. destruct Hc as (t & Ht & Hc).
    pose proof (children_distinct t Ht) as F. rewrite Forall_forall in F. apply F. exact Hc.
  Qed.

  Lemma total_old_new x y : x < n -> n <= y -> hedge_count ts' x y = count_if (fun t => on_b t x y) ts.
  Proof. intros Hx Hy. unfold hedge_count. apply count_flat_indicator. intros t Ht. apply (children_old_new t x y Ht Hx Hy). Qed.
  Lemma total_new_old x y : n <= x -> y < n -> hedge_count ts' x y = count_if (fun t => no_b t x y) ts.
  Proof. intros Hx Hy. unfold hedge_count. apply count_flat_indicator. intros t Ht. apply (children_new_old t x y Ht Hx Hy). Qed.
  Lemma total_old_old x y : x < n -> y < n -> hedge_count ts' x y = 0.
  Proof. intros Hx Hy. unfold hedge_count. apply count_flat_zero. intros t Ht. apply (children_old_old t x y Ht Hx Hy). Qed.
  Lemma total_new_new x y : n <= x -> n <= y -> x <> y -> hedge_count ts' x y = count_if (fun t => mid_in t x && mid_in t y) ts.
  Proof. intros Hx Hy Hxy. unfold hedge_count. apply count_flat_indicator. intros t Ht. apply (children_new_new t x y Ht Hx Hy Hxy). Qed.

  Lemma hedges1_sym1 t p q : In (p, q) (hedges1 t) -> In (p, q) (sym1 t) /\ (distinct_tri t -> p <> q).
  Proof.
    destruct t as [[a b] c]. cbn. intros [E|[E|[E|[]]]]; inversion E; subst; (split; [auto 8|]); intros (H1 & H2 & H3); congruence.
  Qed.


  (* ---- old -> new half-edges are halves of the parents' half-edges *)
  Definition other_end (k : nat * nat) (x : nat) : option nat :=
    if Nat.eqb x (fst k) then Some (snd k) else if Nat.eqb x (snd k) then Some (fst k) else None.
  Lemma edge_lt k u w : nth_error E k = Some (u, w) -> u < w.
  Proof.
    intros Ny. assert (Hin : In (u, w) E) by (apply nth_error_In in Ny; exact Ny). unfold edge_list in Hin. apply filter_In in Hin.
    destruct Hin as [_ Hlt]. apply Nat.ltb_lt in Hlt. exact Hlt.
  Qed.
  Lemma other_end_iff u w x q : u < w -> (other_end (u, w) x = Some q <-> x <> q /\ ukey x q = (u, w)).
  Proof.
    intros Huw. unfold other_end. cbn [fst snd]. split.
    - destruct (Nat.eqb_spec x u) as [->|Hxu]; [|destruct (Nat.eqb_spec x w) as [->|Hxw]]; intros H; inversion H; subst.
      + split; [lia|]. unfold ukey. destruct (Nat.ltb_spec u q); [reflexivity|lia].
      + split; [lia|]. unfold ukey. destruct (Nat.ltb_spec w q); [lia|reflexivity].
    - intros [Hxq K]. destruct (ukey_cases x q) as [[L K']|[L K']]; rewrite K' in K; inversion K; subst.
      + rewrite Nat.eqb_refl. reflexivity.
      + destruct (Nat.eqb_spec w u); [lia|]. rewrite Nat.eqb_refl. reflexivity.
  Qed.
  Lemma match_end_iff k x (P : nat -> bool) :
    (match nth_error E k with
     | Some kk => match other_end kk x with Some q => P q | None => false end
     | None => false
     end) = true <-> exists q, x <> q /\ nth_error E k = Some (ukey x q) /\ P q = true.
  Proof.
    destruct (nth_error E k) as [[u w]|] eqn:Nk.
    - pose proof (edge_lt _ _ _ Nk) as Huw. destruct (other_end (u, w) x) as [q|] eqn:Oe.
      + apply (other_end_iff u w x q Huw) in Oe. destruct Oe as [Hxq K]. split.
        * intros HP. exists q. rewrite K. auto.
        * intros (q' & Hxq' & K' & HP). inversion K' as [K'']. rewrite <- K in K''. apply ukey_eq in K''; auto.
          destruct K'' as [[_ ->]|[-> <-]]; [exact HP|congruence].
      + split; [discriminate|]. intros (q' & Hxq' & K' & _). inversion K' as [K''].
        assert (other_end (u, w) x = Some q') by (apply other_end_iff; auto). congruence.
    - split; [discriminate|]. intros (q' & _ & K' & _). discriminate.
  Qed.
  Lemma tri_hedge_in t i j : tri_hedge t i j = true <-> In (i, j) (hedges1 t).
  Proof.
    destruct t as [[a b] c]. rewrite tri_hedge_iff. cbn [hedges1 In]. split.
    - intros [[-> ->]|[[-> ->]|[-> ->]]]; auto.
    - intros [H|[H|[H|[]]]]; inversion H; subst; auto.
  Qed.
  Lemma idx_at t p q y : In t ts -> In (p, q) (hedges1 t) -> n <= y -> (idx p q = y <-> nth_error E (y - n) = Some (ukey p q)).
  Proof.
    intros Ht Hpq Hy. destruct (hedges1_sym1 t p q Hpq) as [Hs Hne]. specialize (Hne (in_distinct t Ht)).
    destruct (idx_spec t p q Ht Hs Hne) as (k & Ek & Nk). split.
    - intros <-. rewrite Ek. replace (n + k - n) with k by lia. exact Nk.
    - intros H. rewrite (idx_of_key _ _ _ H). lia.
  Qed.
  Lemma on_b_iff t x y : on_b t x y = true <-> exists q, In (x, q) (hedges1 t) /\ idx x q = y.
  Proof.
    destruct t as [[a b] c]. unfold on_b. rewrite !orb_true_iff, !andb_true_iff, !Nat.eqb_eq. cbn [hedges1 In]. split.
    - intros [[[-> H]|[-> H]]|[-> H]]; eexists; split; eauto.
    - intros (q & [H|[H|[H|[]]]] & Hq); inversion H; subst; auto.
  Qed.
  Lemma no_b_iff t x y : no_b t x y = true <-> exists p, In (p, y) (hedges1 t) /\ idx p y = x.
  Proof.
    destruct t as [[a b] c]. unfold no_b. rewrite !orb_true_iff, !andb_true_iff, !Nat.eqb_eq. cbn [hedges1 In]. split.
    - intros [[[H ->]|[H ->]]|[H ->]]; eexists; split; eauto 6.
    - intros (p & [H|[H|[H|[]]]] & Hp); inversion H; subst; auto.
  Qed.

  Lemma on_b_hedge t x y : In t ts -> n <= y ->
    on_b t x y = match nth_error E (y - n) with
                 | Some k => match other_end k x with Some q => tri_hedge t x q | None => false end
                 | None => false
                 end.
  Proof.
    intros Ht Hy. apply eq_true_iff_eq. rewrite on_b_iff, (match_end_iff (y - n) x (fun q => tri_hedge t x q)). split.
    - intros (q & Hin & Hq). exists q. destruct (hedges1_sym1 t x q Hin) as [_ Hne]. split; [apply Hne, in_distinct, Ht|].
      split; [apply (idx_at t x q y Ht Hin Hy); exact Hq|apply tri_hedge_in; exact Hin].
    - intros (q & Hne & Nk & Hh). apply tri_hedge_in in Hh. exists q. split; [exact Hh|apply (idx_at t x q y Ht Hh Hy); exact Nk].
  Qed.
  (* ---- new -> old half-edges likewise *)
  Lemma no_b_hedge t x y : In t ts -> n <= x ->
    no_b t x y = match nth_error E (x - n) with
                 | Some k => match other_end k y with Some q => tri_hedge t q y | None => false end
                 | None => false
                 end.
  Proof.
    intros Ht Hx. apply eq_true_iff_eq. rewrite no_b_iff, (match_end_iff (x - n) y (fun q => tri_hedge t q y)). split.
    - intros (p & Hin & Hp). exists p. destruct (hedges1_sym1 t p y Hin) as [_ Hne]. split; [intros E'; apply (Hne (in_distinct t Ht)); congruence|].
      split; [rewrite ukey_sym; apply (idx_at t p y x Ht Hin Hx); exact Hp|apply tri_hedge_in; exact Hin].
    - intros (p & Hne & Nk & Hh). apply tri_hedge_in in Hh. exists p. split; [exact Hh|].
      apply (idx_at t p y x Ht Hh Hx). rewrite ukey_sym. exact Nk.
  Qed.

  Lemma count_if_ext_in {A} (f g : A -> bool) l : (forall x, In x l -> f x = g x) -> count_if f l = count_if g l.
  Proof.
    induction l as [|x l IH]; intros H; [reflexivity|]. rewrite !count_if_cons, (H x (or_introl eq_refl)), IH; [reflexivity|].
    intros y Hy. apply H. right. exact Hy.
  Qed.
  Lemma count_if_false {A} (l : list A) : count_if (fun _ => false) l = 0.
  Proof. induction l; [reflexivity|]. rewrite count_if_cons. assumption. Qed.

  Theorem hedge_old_new x y : x < n -> n <= y ->
    hedge_count ts' x y = match nth_error E (y - n) with
                          | Some k => match other_end k x with Some q => hedge_count ts x q | None => 0 end
                          | None => 0
                          end.
  Proof.
    intros Hx Hy. rewrite (total_old_new x y Hx Hy).
    rewrite (count_if_ext_in _ _ ts (fun t Ht => on_b_hedge t x y Ht Hy)).
    destruct (nth_error E (y - n)) as [k|]; [|apply count_if_false]. destruct (other_end k x) as [q|]; [reflexivity|apply count_if_false].
  Qed.
  Theorem hedge_new_old x y : n <= x -> y < n ->
    hedge_count ts' x y = match nth_error E (x - n) with
                          | Some k => match other_end k y with Some q => hedge_count ts q y | None => 0 end
                          | None => 0
                          end.
  Proof.
    intros Hx Hy. rewrite (total_new_old x y Hx Hy).
    rewrite (count_if_ext_in _ _ ts (fun t Ht => no_b_hedge t x y Ht Hx)).
    destruct (nth_error E (x - n)) as [k|]; [|apply count_if_false]. destruct (other_end k y) as [q|]; [reflexivity|apply count_if_false].
  Qed.

  (* ---- two midpoints of one parent determine its vertex set *)
  Definition mem4 (i p q p' q' : nat) : bool := Nat.eqb p i || Nat.eqb q i || Nat.eqb p' i || Nat.eqb q' i.
  Lemma two_edges_verts t p q p' q' i : distinct_tri t -> In (p, q) (hedges1 t) -> In (p', q') (hedges1 t) -> (p, q) <> (p', q') ->
    tri_has t i = mem4 i p q p' q'.
  Proof.
    destruct t as [[a b] c]. intros (Hab & Hbc & Hca). cbn [hedges1 In]. unfold tri_has, mem4.
    intros [E1|[E1|[E1|[]]]] [E2|[E2|[E2|[]]]] Hne; inversion E1; inversion E2; subst p q p' q'; try congruence;
      destruct (Nat.eqb a i), (Nat.eqb b i), (Nat.eqb c i); reflexivity.
  Qed.
  Lemma mid_in_edge t x : In t ts -> mid_in t x = true -> exists p q, In (p, q) (hedges1 t) /\ idx p q = x.
  Proof.
    destruct t as [[a b] c]. intros Ht H. unfold mid_in in H. apply orb_true_iff in H. destruct H as [H|H]; [apply orb_true_iff in H; destruct H as [H|H]|];
      apply Nat.eqb_eq in H; [exists a, b|exists b, c|exists c, a]; cbn; auto.
  Qed.
  Definition simplicial : Prop := forall k1 k2 t1 t2, k1 <> k2 -> nth_error ts k1 = Some t1 -> nth_error ts k2 = Some t2 ->
    ~ (forall i, tri_has t1 i = tri_has t2 i).

  Lemma mid_pair_le1 x y : simplicial -> x <> y -> count_if (fun t => mid_in t x && mid_in t y) ts <= 1.
  Proof.
    intros Hs Hxy. destruct (Nat.le_gt_cases (count_if (fun t => mid_in t x && mid_in t y) ts) 1) as [L|G]; [exact L|exfalso].
    destruct (count_ge2_pos _ _ G) as (k1 & k2 & t1 & t2 & Hne & N1 & N2 & P1 & P2).
    assert (I1 : In t1 ts) by (apply nth_error_In in N1; exact N1). assert (I2 : In t2 ts) by (apply nth_error_In in N2; exact N2).
    apply andb_true_iff in P1, P2. destruct P1 as [P1x P1y], P2 as [P2x P2y].
    destruct (mid_in_edge t1 x I1 P1x) as (p1 & q1 & H1 & X1). destruct (mid_in_edge t1 y I1 P1y) as (p1' & q1' & H1' & Y1).
    destruct (mid_in_edge t2 x I2 P2x) as (p2 & q2 & H2 & X2). destruct (mid_in_edge t2 y I2 P2y) as (p2' & q2' & H2' & Y2).
    assert (D1 := in_distinct t1 I1). assert (D2 := in_distinct t2 I2).
    destruct (hedges1_sym1 t1 p1 q1 H1) as [S1 Q1]. destruct (hedges1_sym1 t1 p1' q1' H1') as [S1' Q1'].
    destruct (hedges1_sym1 t2 p2 q2 H2) as [S2 Q2]. destruct (hedges1_sym1 t2 p2' q2' H2') as [S2' Q2'].
    specialize (Q1 D1). specialize (Q1' D1). specialize (Q2 D2). specialize (Q2' D2).
    assert (Kx : ukey p1 q1 = ukey p2 q2) by (apply (idx_inj t1 t2); auto; congruence).
    assert (Ky : ukey p1' q1' = ukey p2' q2') by (apply (idx_inj t1 t2); auto; congruence).
    apply (Hs k1 k2 t1 t2 Hne N1 N2). intros i.
    rewrite (two_edges_verts t1 p1 q1 p1' q1' i D1 H1 H1') by (intros E'; inversion E'; subst; congruence).
    rewrite (two_edges_verts t2 p2 q2 p2' q2' i D2 H2 H2') by (intros E'; inversion E'; subst; congruence).
    apply ukey_eq in Kx; auto. apply ukey_eq in Ky; auto. unfold mem4.
    destruct Kx as [[-> ->]|[-> ->]], Ky as [[-> ->]|[-> ->]];
      destruct (Nat.eqb p2 i), (Nat.eqb q2 i), (Nat.eqb p2' i), (Nat.eqb q2' i); reflexivity.
  Qed.

  Lemma hedge_same l x : Forall distinct_tri l -> hedge_count l x x = 0.
  Proof.
    intros H. unfold hedge_count. induction l as [|t l IH]; [reflexivity|]. inversion H as [|? ? Ht H']; subst.
    rewrite count_if_cons, (IH H'). destruct (tri_hedge t x x) eqn:Q; [|reflexivity].
    exfalso. apply (tri_hedge_distinct t x x Ht Q). reflexivity.
  Qed.
  Lemma other_end_neq k u w x q : nth_error E k = Some (u, w) -> other_end (u, w) x = Some q -> q <> x.
  Proof.
    intros Nk H. pose proof (edge_lt _ _ _ Nk). unfold other_end in H. cbn [fst snd] in H.
    destruct (Nat.eqb_spec x u); [inversion H; lia|]. destruct (Nat.eqb_spec x w); [inversion H; lia|discriminate].
  Qed.

  (* ---- the three theorems *)
  Theorem refined_oriented : simplicial -> (forall i j, hedge_count ts i j <= 1) -> forall x y, hedge_count ts' x y <= 1.
  Proof.
    intros Hs Ho x y. destruct (Nat.lt_ge_cases x n) as [Hx|Hx], (Nat.lt_ge_cases y n) as [Hy|Hy].
    - rewrite total_old_old by assumption. lia.
    - rewrite hedge_old_new by assumption. destruct (nth_error E (y - n)) as [k|]; [|lia]. destruct (other_end k x); [apply Ho|lia].
    - rewrite hedge_new_old by assumption. destruct (nth_error E (x - n)) as [k|]; [|lia]. destruct (other_end k y); [apply Ho|lia].
    - destruct (Nat.eq_dec x y) as [->|Hxy]; [rewrite (hedge_same _ _ refined_distinct); lia|].
      rewrite total_new_new by assumption. apply mid_pair_le1; assumption.
  Qed.

  Lemma refined_tri_count x y : x <> y -> tri_count ts' x y = hedge_count ts' x y + hedge_count ts' y x.
  Proof. intros Hxy. apply tri_count_split; [apply refined_distinct|exact Hxy]. Qed.

  (* edges between an old and a new vertex: as many triangles as at the parent edge *)
  Lemma refined_tri_count_old_new x y : x < n -> n <= y ->
    tri_count ts' x y = match nth_error E (y - n) with
                        | Some k => match other_end k x with Some q => tri_count ts x q | None => 0 end
                        | None => 0
                        end.
  Proof.
    intros Hx Hy. rewrite refined_tri_count by lia. rewrite hedge_old_new, hedge_new_old by assumption.
    destruct (nth_error E (y - n)) as [[u w]|] eqn:Nk; [|reflexivity]. destruct (other_end (u, w) x) as [q|] eqn:Oe; [|reflexivity].
    pose proof (other_end_neq _ _ _ _ _ Nk Oe). symmetry. apply tri_count_split; [exact Hd|congruence].
  Qed.
  Lemma refined_tri_count_new_new x y : n <= x -> n <= y -> x <> y ->
    tri_count ts' x y = 2 * count_if (fun t => mid_in t x && mid_in t y) ts.
  Proof.
    intros Hx Hy Hxy. rewrite refined_tri_count by exact Hxy. rewrite (total_new_new x y), (total_new_new y x) by auto.
    rewrite (count_if_ext_in (fun t => mid_in t y && mid_in t x) (fun t => mid_in t x && mid_in t y)); [lia|].
    intros t _. apply andb_comm.
  Qed.
  Lemma tri_count_sym l x y : tri_count l x y = tri_count l y x.
  Proof. apply tri_count_comm. Qed.

  Theorem refined_manifold : simplicial -> (forall i j, i <> j -> tri_count ts i j <= 2) -> forall x y, x <> y -> tri_count ts' x y <= 2.
  Proof.
    intros Hs Hm x y Hxy. destruct (Nat.lt_ge_cases x n) as [Hx|Hx], (Nat.lt_ge_cases y n) as [Hy|Hy].
    - rewrite refined_tri_count, !total_old_old by assumption. lia.
    - rewrite refined_tri_count_old_new by assumption. destruct (nth_error E (y - n)) as [[u w]|] eqn:Nk; [|lia].
      destruct (other_end (u, w) x) as [q|] eqn:Oe; [|lia]. apply Hm. pose proof (other_end_neq _ _ _ _ _ Nk Oe). congruence.
    - rewrite tri_count_sym, refined_tri_count_old_new by assumption. destruct (nth_error E (x - n)) as [[u w]|] eqn:Nk; [|lia].
      destruct (other_end (u, w) y) as [q|] eqn:Oe; [|lia]. apply Hm. pose proof (other_end_neq _ _ _ _ _ Nk Oe). congruence.
    - rewrite refined_tri_count_new_new by assumption. pose proof (mid_pair_le1 x y Hs Hxy). lia.
  Qed.
  Theorem refined_closed : (forall i j, i <> j -> tri_count ts i j <> 1) -> forall x y, x <> y -> tri_count ts' x y <> 1.
  Proof.
    intros Hc x y Hxy. destruct (Nat.lt_ge_cases x n) as [Hx|Hx], (Nat.lt_ge_cases y n) as [Hy|Hy].
    - rewrite refined_tri_count, !total_old_old by assumption. lia.
    - rewrite refined_tri_count_old_new by assumption. destruct (nth_error E (y - n)) as [[u w]|] eqn:Nk; [|lia].
      destruct (other_end (u, w) x) as [q|] eqn:Oe; [|lia]. apply Hc. pose proof (other_end_neq _ _ _ _ _ Nk Oe). congruence.
    - rewrite tri_count_sym, refined_tri_count_old_new by assumption. destruct (nth_error E (x - n)) as [[u w]|] eqn:Nk; [|lia].
      destruct (other_end (u, w) y) as [q|] eqn:Oe; [|lia]. apply Hc. pose proof (other_end_neq _ _ _ _ _ Nk Oe). congruence.
    - rewrite refined_tri_count_new_new by assumption. lia.
  Qed.

  (* ---- and conversely: every edge of the old mesh is visible in the new one *)
  Lemma tri_has_sym1 t i j : distinct_tri t -> tri_has t i = true -> tri_has t j = true -> i <> j -> In (i, j) (sym1 t).
  Proof.
    destruct t as [[a b] c]. intros (Hab & Hbc & Hca) Hi Hj Hij. unfold tri_has in *. cbn [sym1 In].
    apply orb_true_iff in Hi, Hj. destruct Hi as [Hi|Hi], Hj as [Hj|Hj]; try (apply orb_true_iff in Hi; destruct Hi as [Hi|Hi]);
      try (apply orb_true_iff in Hj; destruct Hj as [Hj|Hj]); apply Nat.eqb_eq in Hi, Hj; subst; try congruence; auto 10.
  Qed.
  Lemma other_end_ukey i j : i <> j -> other_end (ukey i j) i = Some j.
  Proof.
    intros Hij. unfold other_end. destruct (ukey_cases i j) as [[L ->]|[L ->]]; cbn [fst snd].
    - rewrite Nat.eqb_refl. reflexivity.
    - destruct (Nat.eqb_spec i j); [congruence|]. rewrite Nat.eqb_refl. reflexivity.
  Qed.
  Lemma old_edge_visible i j : i <> j -> tri_count ts i j >= 1 ->
    exists y, i < n /\ n <= y /\ hedge_count ts' i y = hedge_count ts i j /\ tri_count ts' i y = tri_count ts i j.
  Proof.
    intros Hij Hc. unfold tri_count in Hc. apply count_if_pos_iff in Hc. destruct Hc as (t & Ht & Hb).
    apply andb_true_iff in Hb. destruct Hb as [Hi Hj].
    assert (Hs := tri_has_sym1 t i j (in_distinct t Ht) Hi Hj Hij).
    destruct (idx_spec t i j Ht Hs Hij) as (k & Ek & Nk).
    assert (Li : i < n) by (apply (Hn t i Ht Hi)).
    exists (n + k). split; [exact Li|]. split; [lia|]. split.
    - rewrite hedge_old_new by lia. replace (n + k - n) with k by lia. rewrite Nk, (other_end_ukey i j Hij). reflexivity.
    - rewrite refined_tri_count_old_new by lia. replace (n + k - n) with k by lia. rewrite Nk, (other_end_ukey i j Hij). reflexivity.
  Qed.
  Theorem refined_oriented_conv : (forall x y, hedge_count ts' x y <= 1) -> forall i j, hedge_count ts i j <= 1.
  Proof.
    intros H i j. destruct (Nat.eq_dec i j) as [->|Hij]; [rewrite (hedge_same _ _ Hd); lia|].
    destruct (Nat.le_gt_cases (hedge_count ts i j) 0) as [L|G]; [lia|].
    assert (Hc : tri_count ts i j >= 1) by (rewrite (tri_count_split ts i j Hd Hij); lia).
    destruct (old_edge_visible i j Hij Hc) as (y & _ & _ & E1 & _). rewrite <- E1. apply H.
  Qed.
  Theorem refined_manifold_conv : (forall x y, x <> y -> tri_count ts' x y <= 2) -> forall i j, i <> j -> tri_count ts i j <= 2.
  Proof.
    intros H i j Hij. destruct (Nat.le_gt_cases (tri_count ts i j) 0) as [L|G]; [lia|].
    destruct (old_edge_visible i j Hij G) as (y & Li & Ly & _ & E2). rewrite <- E2. apply H. lia.
  Qed.
  Theorem refined_closed_conv : (forall x y, x <> y -> tri_count ts' x y <> 1) -> forall i j, i <> j -> tri_count ts i j <> 1.
  Proof.
    intros H i j Hij Hc. destruct (old_edge_visible i j Hij ltac:(lia)) as (y & Li & Ly & _ & E2). apply (H i y ltac:(lia)). lia.
  Qed.
End Refine.

(* ------------------------------------------------------------------ in terms of the model's queries *)
Definition in_range (n : nat) (ts : list tri) : Prop := forall t i, In t ts -> tri_has t i = true -> i < n.
Lemma refined_nonempty n ts : ts <> [] -> flat_map (children n (edge_list ts)) ts <> [].
Proof. destruct ts as [|[[a b] c] l]; [congruence|]. intros _. cbn [flat_map children app]. discriminate. Qed.

Theorem refine_is_oriented n ts : Forall distinct_tri ts -> in_range n ts -> simplicial ts ->
  is_oriented (flat_map (children n (edge_list ts)) ts) = is_oriented ts.
Proof.
  intros Hd Hn Hs. destruct ts as [|t0 l] eqn:Ets; [reflexivity|]. rewrite <- Ets in *. assert (Hne : ts <> []) by (rewrite Ets; discriminate).
  apply eq_true_iff_eq.
  rewrite (is_oriented_iff _ (refined_distinct n ts Hd Hn) (refined_nonempty n ts Hne)), (is_oriented_iff ts Hd Hne). split.
  - apply (refined_oriented_conv n ts Hd Hn).
  - apply (refined_oriented n ts Hd Hn Hs).
Qed.
Theorem refine_is_manifold n ts : Forall distinct_tri ts -> in_range n ts -> simplicial ts ->
  is_manifold (flat_map (children n (edge_list ts)) ts) = is_manifold ts.
Proof.
  intros Hd Hn Hs. apply eq_true_iff_eq.
  rewrite (is_manifold_iff _ (refined_distinct n ts Hd Hn)), (is_manifold_iff ts Hd). split.
  - apply (refined_manifold_conv n ts Hd Hn).
  - apply (refined_manifold n ts Hd Hn Hs).
Qed.
Theorem refine_is_closed n ts : Forall distinct_tri ts -> in_range n ts ->
  is_closed (flat_map (children n (edge_list ts)) ts) = is_closed ts.
Proof.
  intros Hd Hn. apply eq_true_iff_eq.
  rewrite (is_closed_iff _ (refined_distinct n ts Hd Hn)), (is_closed_iff ts Hd). split.
  - apply (refined_closed_conv n ts Hd Hn).
  - apply (refined_closed n ts Hd Hn).
Qed.

(* boolean form of the simplicial hypothesis *)
Definition same_verts_b (t1 t2 : tri) : bool := forallb (tri_has t2) (tri_verts t1) && forallb (tri_has t1) (tri_verts t2).
Fixpoint simplicial_b (ts : list tri) : bool :=
  match ts with [] => true | t :: l => forallb (fun u => negb (same_verts_b t u)) l && simplicial_b l end.
Lemma simplicial_b_ok ts : simplicial_b ts = true -> simplicial ts.
Proof.
  intros H k1 k2 t1 t2 Hne N1 N2 Hall.
  assert (G : forall l a b u w, a < b -> simplicial_b l = true -> nth_error l a = Some u -> nth_error l b = Some w ->
              (forall i, tri_has u i = tri_has w i) -> False).
  { clear. induction l as [|t l IH]; intros a b u w Hab Hb Na Nb Hall; [destruct a; discriminate|].
    cbn [simplicial_b] in Hb. apply andb_true_iff in Hb. destruct Hb as [Hb1 Hb2].
    destruct a as [|a], b as [|b]; try lia.
    - cbn in Na. inversion Na; subst. cbn [nth_error] in Nb. apply nth_error_In in Nb.
      rewrite forallb_forall in Hb1. specialize (Hb1 w Nb). apply negb_true_iff in Hb1.
      assert (same_verts_b u w = true); [|congruence].
      unfold same_verts_b. apply andb_true_iff. split; apply forallb_forall; intros i Hi.
      + rewrite <- Hall. destruct u as [[x y] z]. cbn in Hi. unfold tri_has. destruct Hi as [<-|[<-|[<-|[]]]]; rewrite Nat.eqb_refl, ?orb_true_r; reflexivity.
      + rewrite Hall. destruct w as [[x y] z]. cbn in Hi. unfold tri_has. destruct Hi as [<-|[<-|[<-|[]]]]; rewrite Nat.eqb_refl, ?orb_true_r; reflexivity.
    - cbn [nth_error] in Na, Nb. apply (IH a b u w); auto. lia. }
  destruct (Nat.lt_ge_cases k1 k2) as [L|L].
  - apply (G ts k1 k2 t1 t2 L H N1 N2 Hall).
  - apply (G ts k2 k1 t2 t1 ltac:(lia) H N2 N1). intros i. symmetry. apply Hall.
Qed.

(* ------------------------------------------------------------------ stated for refine1 *)
Theorem refine1_topology {K} (o : Ops K) v ts : Forall distinct_tri ts -> in_range (length v) ts -> simplicial ts ->
  is_oriented (snd (refine1 o (v, ts))) = is_oriented ts /\
  is_manifold (snd (refine1 o (v, ts))) = is_manifold ts /\
  is_closed (snd (refine1 o (v, ts))) = is_closed ts.
Proof.
  intros Hd Hn Hs. cbn [refine1 snd]. split; [apply refine_is_oriented; assumption|].
  split; [apply refine_is_manifold; assumption|apply refine_is_closed; assumption].
Qed.
Theorem refine1_closed {K} (o : Ops K) v ts : Forall distinct_tri ts -> in_range (length v) ts ->
  is_closed (snd (refine1 o (v, ts))) = is_closed ts.
Proof. intros Hd Hn. cbn [refine1 snd]. apply refine_is_closed; assumption. Qed.

Lemma in_range_b_ok n ts : forallb (fun '(a, b, c) => Nat.ltb a n && Nat.ltb b n && Nat.ltb c n) ts = true -> in_range n ts.
Proof.
  rewrite forallb_forall. intros H [[a b] c] i Ht Hi. specialize (H _ Ht). cbn in H.
  apply andb_true_iff in H. destruct H as [H H3]. apply andb_true_iff in H. destruct H as [H1 H2]. apply Nat.ltb_lt in H1, H2, H3.
  unfold tri_has in Hi. apply orb_true_iff in Hi. destruct Hi as [Hi|Hi]; [apply orb_true_iff in Hi; destruct Hi as [Hi|Hi]|]; apply Nat.eqb_eq in Hi; lia.
Qed.

(* the hypothesis [simplicial] cannot be dropped: tetrahedron + pillow (finding F25) *)
Definition c11_pillow : list tri := [(0, 2, 1); (0, 1, 3); (1, 2, 3); (2, 0, 3); (4, 5, 6); (4, 6, 5)].
Theorem pillow_refinement_refuted :
  exists ts n, Forall distinct_tri ts /\ in_range n ts /\ is_manifold ts = true /\ is_oriented ts = true /\
    is_manifold (flat_map (children n (edge_list ts)) ts) = false /\ is_oriented (flat_map (children n (edge_list ts)) ts) = false.
Proof.
  exists c11_pillow, 7. split; [apply distinct_b_ok; vm_compute; reflexivity|]. split; [apply in_range_b_ok; vm_compute; reflexivity|].
  repeat split; vm_compute; reflexivity.
Qed.
Definition c11_tetra : list tri := [(0, 2, 1); (0, 3, 1); (1, 2, 3); (2, 0, 3)].
Lemma topology_hypotheses_satisfiable : Forall distinct_tri c11_tetra /\ in_range 4 c11_tetra /\ simplicial c11_tetra.
Proof.
  split; [apply distinct_b_ok; vm_compute; reflexivity|]. split; [apply in_range_b_ok; vm_compute; reflexivity|].
  apply simplicial_b_ok. vm_compute. reflexivity.
Qed.
