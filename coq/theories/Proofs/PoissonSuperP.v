(* Proofs/PoissonSuperP.v -- superposition for the Poisson solver (C05): when the Dirichlet problem on the free vertices has only
   the trivial solution, the result depends linearly on (right-hand side, Dirichlet data, Neumann data), for every solver meeting
   the contract. *)
From Coq Require Import List Arith Reals Lra.
From LaPyV Require Import Base.Scalar Base.ListAux Base.Sparse Model.TriaAdj Model.Poisson Proofs.SparseP Proofs.PoissonP.
Import ListNotations.
Open Scope R_scope.

Lemma bil_comb f M (x y z : nat -> R) a b :
  bil f M (fun j => a * x j + b * y j - z j) = a * bil f M x + b * bil f M y - bil f M z.
Proof. induction M as [|[[i j] c] M IH]; [rewrite !bilin_nil; ring|]. rewrite !bilin_cons, IH. ring. Qed.
Lemma mv_comb M (x y z : nat -> R) a b k :
  mulvec_at Rops M (fun j => a * x j + b * y j - z j) k = a * mulvec_at Rops M x k + b * mulvec_at Rops M y k - mulvec_at Rops M z k.
Proof. rewrite !mulvec_bilin. apply bil_comb. Qed.

(* the right-hand side B (h - n) of the equation at the free vertices *)
Definition rhs_of (dim : nat) (B : coo R) (h : hspec R) (ntup : option (list nat * list R)) (k : nat) : R :=
  mulvec_at Rops B (fun j => hfun Rops dim h j - scatter_at Rops (match ntup with Some (i, d) => combine i d | None => [] end) j) k.
(* only the zero function vanishes on the Dirichlet vertices and is discretely harmonic at all the others *)
Definition dirichlet_problem_unique (dim : nat) (A : coo R) (didx : list nat) : Prop :=
  forall Y : nat -> R, (forall i, In i didx -> Y i = 0) ->
    (forall k, (k < dim)%nat -> ~ In k didx -> mulvec_at Rops A Y k = 0) -> forall k, (k < dim)%nat -> Y k = 0.

Theorem poisson_superposition solve : solve_contract solve ->
  forall dim A B didx h1 h2 h3 d1 d2 d3 n1 n2 n3 X1 X2 X3 (a b : R),
  poisson Rops solve dim A B h1 (Some (didx, d1)) n1 = Ok X1 ->
  poisson Rops solve dim A B h2 (Some (didx, d2)) n2 = Ok X2 ->
  poisson Rops solve dim A B h3 (Some (didx, d3)) n3 = Ok X3 ->
  in_range dim A -> Forall (fun i => (i < dim)%nat) didx ->
  (forall p, (p < length didx)%nat -> nth p d3 0 = a * nth p d1 0 + b * nth p d2 0) ->
  (forall k, (k < dim)%nat -> ~ In k didx -> rhs_of dim B h3 n3 k = a * rhs_of dim B h1 n1 k + b * rhs_of dim B h2 n2 k) ->
  dirichlet_problem_unique dim A didx ->
  forall k, (k < dim)%nat -> nth k X3 0 = a * nth k X1 0 + b * nth k X2 0.
Proof.
  intros HC dim A B didx h1 h2 h3 d1 d2 d3 n1 n2 n3 X1 X2 X3 a b P1 P2 P3 HA Hr Hd Hrhs Hu k Hk.
  set (Y := fun j => a * vfun Rops X1 j + b * vfun Rops X2 j - vfun Rops X3 j).
  assert (HY : Y k = 0); [|unfold Y, vfun in HY; cbn [zero Rops] in HY; lra].
  apply Hu; [| |exact Hk].
  - intros i Hi. apply In_nth with (d := 0%nat) in Hi. destruct Hi as (p & Hp & <-). unfold Y, vfun. cbn [zero Rops].
    rewrite (poisson_dirichlet_exact solve dim A B h1 didx d1 n1 X1 p P1 Hr Hp),
            (poisson_dirichlet_exact solve dim A B h2 didx d2 n2 X2 p P2 Hr Hp),
            (poisson_dirichlet_exact solve dim A B h3 didx d3 n3 X3 p P3 Hr Hp), (Hd p Hp). ring.
  - intros j Hj Hfree. unfold Y. rewrite mv_comb.
    rewrite (poisson_equation_at_free_vertices solve HC dim A B h1 didx d1 n1 X1 j P1 HA Hj Hfree),
            (poisson_equation_at_free_vertices solve HC dim A B h2 didx d2 n2 X2 j P2 HA Hj Hfree),
            (poisson_equation_at_free_vertices solve HC dim A B h3 didx d3 n3 X3 j P3 HA Hj Hfree).
    fold (rhs_of dim B h1 n1 j). fold (rhs_of dim B h2 n2 j). fold (rhs_of dim B h3 n3 j). rewrite (Hrhs j Hj Hfree). ring.
Qed.

(* the right-hand sides do combine linearly when the three calls pass vectors and no Neumann data *)
Lemma rhs_of_vectors dim B (l1 l2 l3 : list R) a b k :
  (forall j, nth j l3 0 = a * nth j l1 0 + b * nth j l2 0) ->
  rhs_of dim B (HVector l3) None k = a * rhs_of dim B (HVector l1) None k + b * rhs_of dim B (HVector l2) None k.
Proof.
  intros H. unfold rhs_of. cbn [hfun]. rewrite !mulvec_bilin.
  assert (E : forall f M (x y z : nat -> R), (forall j, z j = a * x j + b * y j) -> bil f M z = a * bil f M x + b * bil f M y).
  { intros f M x y z Hz. induction M as [|[[i j] c] M IH]; [rewrite !bilin_nil; ring|]. rewrite !bilin_cons, IH, Hz. ring. }
  apply E. intros j. unfold vfun, scatter_at. cbn [zero sub Rops]. cbn. rewrite H. ring.
Qed.

(* the uniqueness hypothesis holds e.g. for one edge with one end pinned *)
Definition c05_A : coo R := [(0%nat, 0%nat, 1); (0%nat, 1%nat, -(1)); (1%nat, 0%nat, -(1)); (1%nat, 1%nat, 1)].
Lemma uniqueness_hypothesis_satisfiable : dirichlet_problem_unique 2 c05_A [0%nat].
Proof.
  intros Y H0 H1 k Hk. assert (Y0 : Y 0%nat = 0) by (apply H0; left; reflexivity).
  destruct k as [|k]; [exact Y0|]. destruct k as [|k]; [|exfalso; do 2 apply Nat.succ_lt_mono in Hk; inversion Hk].
  assert (Hlt : (1 < 2)%nat) by auto.
  assert (Hni : ~ In 1%nat [0%nat]) by (intros [E|[]]; discriminate).
  assert (E := H1 1%nat Hlt Hni).
  rewrite mulvec_bilin in E. unfold c05_A in E. rewrite !bilin_cons, bilin_nil in E. unfold delta in E. cbn in E. rewrite Y0 in E. lra.
Qed.
