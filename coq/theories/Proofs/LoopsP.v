(* Proofs/LoopsP.v -- the boundary walk of boundary_loops: on every half-edge table that is a permutation of its vertices (each
   vertex exactly one incoming and one outgoing boundary half-edge) the walk terminates within its fuel and returns simple cycles
   that use every half-edge exactly once (C09). *)
From Coq Require Import List Arith Bool PeanoNat Lia Permutation.
From LaPyV Require Import Base.ListAux Model.TetMesh Model.TriaAdj Proofs.SortP Proofs.TriaAdjP.
Import ListNotations.

Notation edge := (nat * nat)%type.

(* ---- min_opt *)
Lemma fold_min_in x l : In (fold_right Nat.min x l) (x :: l).
Proof.
  induction l as [|y l IH]; [left; reflexivity|]. cbn [fold_right].
  destruct (Nat.min_spec y (fold_right Nat.min x l)) as [[_ E]|[_ E]]; rewrite E.
  - right. left. reflexivity.
  - destruct IH as [IH|IH]; [left; exact IH|right; right; exact IH].
Qed.
Lemma min_opt_in l m : min_opt l = Some m -> In m l.
Proof. destruct l as [|x l]; [discriminate|]. cbn. intros H. inversion H. apply fold_min_in. Qed.
Lemma min_opt_some l : l <> [] -> exists m, min_opt l = Some m.
Proof. destruct l; [congruence|]. intros _. eexists. reflexivity. Qed.
Lemma min_opt_const l p : l <> [] -> (forall x, In x l -> x = p) -> min_opt l = Some p.
Proof.
  intros Hne H. destruct (min_opt_some l Hne) as (m & Hm). rewrite Hm. f_equal. apply H. apply min_opt_in. exact Hm.
Qed.

Lemma cols_nodup_gen (l : list edge) : NoDup l -> (forall i i' j, In (i, j) l -> In (i', j) l -> i = i') -> NoDup (map snd l).
Proof.
  induction l as [|[i j] l IH]; intros Hnd Hp; [constructor|]. inversion Hnd as [|? ? Hx Hnd']; subst. cbn [map snd]. constructor.
  - intros Hin. apply in_map_iff in Hin. destruct Hin as ([i' j'] & E & Hin). cbn in E. subst j'.
    assert (i' = i) by (apply (Hp i' i j); [right; exact Hin|left; reflexivity]). subst i'. contradiction.
  - apply IH; [exact Hnd'|]. intros a b c H1 H2. apply (Hp a b c); right; assumption.
Qed.

Section Walk.
  Context (adj : list edge).
  (* every vertex of the table has exactly one outgoing and exactly one incoming half-edge *)
  Definition succ_unique : Prop := forall i j j', In (i, j) adj -> In (i, j') adj -> j = j'.
  Definition pred_unique : Prop := forall i i' j, In (i, j) adj -> In (i', j) adj -> i = i'.
  Definition pred_exists : Prop := forall i j, In (i, j) adj -> exists h, In (h, i) adj.
  Context (Hnd : NoDup adj) (Hs : succ_unique) (Hp : pred_unique) (He : pred_exists).

  Lemma col_first_pred p c : In (p, c) adj -> col_first adj c = Some p.
  Proof.
    intros H. unfold col_first. apply min_opt_const.
    - intros E. assert (Hin : In p (map fst (filter (fun k => Nat.eqb (snd k) c) adj))).
      { apply in_map_iff. exists (p, c). split; [reflexivity|]. apply filter_In. split; [exact H|cbn; apply Nat.eqb_refl]. }
      rewrite E in Hin. exact Hin.
    - intros x Hx. apply in_map_iff in Hx. destruct Hx as ([i j] & <- & Hf). apply filter_In in Hf. destruct Hf as [Hin Hj].
      cbn in Hj. apply Nat.eqb_eq in Hj. subst j. cbn. apply (Hp i p c Hin H).
  Qed.
  Lemma first_col_in c0 : first_col adj = Some c0 -> exists p, In (p, c0) adj.
  Proof.
    unfold first_col. intros H. apply min_opt_in in H. apply in_map_iff in H. destruct H as ([p c] & E & Hin). cbn in E. subst c.
    exists p. exact Hin.
  Qed.
  Lemma cols_nodup : NoDup (map snd adj).
  Proof. apply cols_nodup_gen; assumption. Qed.

  (* ---- the inner walk.  acc = [c_{k-1}; ...; c_0] with c_0 = start and c_{m+1} the predecessor of c_m; cur = c_k *)
  Definition chain (cur : nat) (acc : list nat) : list edge := combine (cur :: acc) acc.
  Definition walk_inv (start cur : nat) (acc : list nat) (visited : list edge) : Prop :=
    acc <> [] /\ last acc 0 = start /\ NoDup acc /\ visited = chain cur acc /\ (forall e, In e visited -> In e adj).

  Lemma chain_cons cur a acc : chain cur (a :: acc) = (cur, a) :: chain a acc.
  Proof. reflexivity. Qed.
  Lemma chain_in_succ cur acc x : In x acc -> x <> last acc 0 -> exists y, In (x, y) (chain cur acc) /\ In y (tl acc).
  Proof.
    revert cur. induction acc as [|a acc IH]; intros cur Hx Hl; [contradiction|].
    destruct acc as [|b acc'].
    - cbn in Hl. destruct Hx as [->|[]]. congruence.
    - rewrite chain_cons. destruct Hx as [->|Hx].
      + exists b. split; [right; rewrite chain_cons; left; reflexivity|left; reflexivity].
      + destruct (IH a Hx) as (y & Hy & Hy'); [exact Hl|]. exists y. split; [right; exact Hy|right; exact Hy'].
  Qed.
  Lemma chain_fst_in cur acc e : In e (chain cur acc) -> In (snd e) acc.
  Proof.
    revert cur. induction acc as [|a acc IH]; intros cur H; [contradiction|]. rewrite chain_cons in H.
    destruct H as [<-|H]; [left; reflexivity|right; apply (IH a); exact H].
  Qed.

  Lemma acc_cols start cur acc visited : walk_inv start cur acc visited -> incl acc (map snd adj).
  Proof.
    intros (Hne & Hl & Hn & -> & Hin) x Hx. revert cur Hin. induction acc as [|a acc IH]; intros cur Hin; [contradiction|].
    rewrite chain_cons in Hin. destruct Hx as [->|Hx].
    - apply in_map_iff. exists (cur, x). split; [reflexivity|]. apply Hin. left. reflexivity.
    - destruct acc as [|b acc']; [contradiction|]. apply (IH ltac:(discriminate) Hl ltac:(inversion Hn; assumption) Hx a).
      intros e He'. apply Hin. right. exact He'.
  Qed.

  Lemma chain_snd cur acc : map snd (chain cur acc) = acc.
  Proof. revert cur. induction acc as [|a acc IH]; intros cur; [reflexivity|]. rewrite chain_cons. cbn [map snd]. rewrite IH. reflexivity. Qed.
  Lemma acc_length start cur acc visited : walk_inv start cur acc visited -> length acc <= length adj.
  Proof.
    intros H. pose proof (acc_cols _ _ _ _ H) as Hi. destruct H as (_ & _ & Hn & _).
    rewrite <- (map_length snd adj). apply NoDup_incl_length; assumption.
  Qed.

  Lemma walk_ok : forall fuel start cur acc visited, walk_inv start cur acc visited -> length adj + 2 <= fuel + length acc ->
    exists acc', walk_loop fuel adj start cur acc visited = Ok (rev acc', chain start acc') /\ walk_inv start start acc' (chain start acc').
  Proof.
    induction fuel as [|f IH]; intros start cur acc visited Hinv Hf.
    - pose proof (acc_length _ _ _ _ Hinv). lia.
    - cbn [walk_loop]. destruct (Nat.eqb_spec cur start) as [->|Hne].
      + exists acc. destruct Hinv as (H1 & H2 & H3 & -> & H5). split; [reflexivity|]. repeat split; auto.
      + pose proof (acc_length _ _ _ _ Hinv) as Hlen. destruct Hinv as (H1 & H2 & H3 & H4 & H5).
        destruct acc as [|a acc0]; [congruence|].
        assert (Hfirst : In (cur, a) adj) by (apply H5; rewrite H4, chain_cons; left; reflexivity).
        destruct (He cur a Hfirst) as (h & Hh). rewrite (col_first_pred h cur Hh).
        apply IH; [|cbn [length] in *; lia].
        split; [discriminate|]. split; [exact H2|]. split; [|split].
        * constructor; [|exact H3]. intros Hin.
          destruct (chain_in_succ cur (a :: acc0) cur Hin ltac:(rewrite H2; exact Hne)) as (y & Hy & Hy').
          assert (Hya : y = a) by (apply (Hs cur y a); [apply H5; rewrite H4; exact Hy|exact Hfirst]).
          subst y. cbn [tl] in Hy'. inversion H3; contradiction.
        * rewrite H4. reflexivity.
        * intros e [<-|He']; [exact Hh|apply H5; exact He'].
  Qed.
End Walk.

(* ---- removing the visited half-edges *)
Lemma remove_pair_perm k l : In k l -> Permutation l (k :: remove_pair k l).
Proof.
  induction l as [|x l IH]; intros H; [contradiction|]. cbn [remove_pair]. destruct (pair_eqb k x) eqn:E.
  - apply pair_eqb_spec in E. subst. reflexivity.
  - destruct H as [->|H]; [rewrite pair_eqb_refl in E; discriminate|]. rewrite (IH H) at 1. apply perm_swap.
Qed.
Lemma remove_pair_in k l e : In e l -> e <> k -> In e (remove_pair k l).
Proof.
  induction l as [|x l IH]; intros H Hne; [contradiction|]. cbn [remove_pair]. destruct (pair_eqb k x) eqn:E.
  - apply pair_eqb_spec in E. subst. destruct H as [->|H]; [congruence|exact H].
  - destruct H as [->|H]; [left; reflexivity|right; apply IH; assumption].
Qed.
Lemma remove_all_perm : forall vis l, NoDup vis -> (forall e, In e vis -> In e l) ->
  Permutation l (vis ++ fold_left (fun a k => remove_pair k a) vis l).
Proof.
  induction vis as [|k vs IH]; intros l Hn Hin; [reflexivity|]. inversion Hn as [|? ? Hk Hn']; subst. cbn [fold_left app].
  rewrite (remove_pair_perm k l (Hin k (or_introl eq_refl))) at 1. apply perm_skip. apply IH; [exact Hn'|].
  intros e He. apply remove_pair_in; [apply Hin; right; exact He|intros ->; contradiction].
Qed.

Lemma nodup_app_inv {A} (l m : list A) : NoDup (l ++ m) -> NoDup m /\ (forall x, In x l -> In x m -> False).
Proof.
  induction l as [|a l IH]; intros H; [split; [exact H|intros x []]|]. cbn [app] in H. inversion H as [|? ? Ha H']; subst.
  destruct (IH H') as [N D]. split; [exact N|]. intros x [->|Hx] Hm; [apply Ha; apply in_or_app; right; exact Hm|apply (D x Hx Hm)].
Qed.
Definition FG (adj : list edge) : Prop := NoDup adj /\ succ_unique adj /\ pred_unique adj /\ pred_exists adj.
Definition loop_edges (l : list nat) : list edge := chain (hd 0 l) (rev l).

Lemma last_rev_hd (m : list nat) : last (rev m) 0 = hd 0 m.
Proof. destruct m as [|a m]; [reflexivity|]. cbn [rev hd]. apply last_last. Qed.
Lemma hd_rev_last (l : list nat) : hd 0 (rev l) = last l 0.
Proof. rewrite <- (rev_involutive l) at 2. rewrite last_rev_hd. reflexivity. Qed.
Lemma chain_nodup cur acc : NoDup acc -> NoDup (chain cur acc).
Proof. intros H. apply (NoDup_map_inv snd). rewrite chain_snd. exact H. Qed.

Lemma first_col_none (adj : list edge) : first_col adj = None -> adj = [].
Proof. unfold first_col. destruct adj; [reflexivity|discriminate]. Qed.

(* one round of the outer loop *)
Lemma one_loop adj c0 : FG adj -> first_col adj = Some c0 ->
  exists p0 acc', col_first adj c0 = Some p0 /\
    walk_loop (S (length adj)) adj c0 p0 [c0] [(p0, c0)] = Ok (rev acc', chain c0 acc') /\
    acc' <> [] /\ NoDup acc' /\ last acc' 0 = c0 /\
    let adj' := fold_left (fun a k => remove_pair k a) (chain c0 acc') adj in
    Permutation adj (chain c0 acc' ++ adj') /\ FG adj'.
Proof.
  intros (Hnd & Hs & Hp & He) Hc. destruct (first_col_in adj c0 Hc) as (p0 & Hp0).
  exists p0. destruct (walk_ok adj Hs Hp He (S (length adj)) c0 p0 [c0] [(p0, c0)]) as (acc' & W & Inv).
  { split; [discriminate|]. split; [reflexivity|]. split; [repeat constructor; intros []|]. split; [reflexivity|].
    intros e [<-|[]]. exact Hp0. }
  { cbn [length]. lia. }
  exists acc'. split; [apply (col_first_pred adj Hp); exact Hp0|]. split; [exact W|].
  destruct Inv as (I1 & I2 & I3 & _ & I5). split; [exact I1|]. split; [exact I3|]. split; [exact I2|].
  set (vis := chain c0 acc') in *. cbv zeta. set (adj' := fold_left _ vis adj).
  assert (P : Permutation adj (vis ++ adj')) by (apply remove_all_perm; [apply chain_nodup; exact I3|exact I5]).
  split; [exact P|].
  assert (Hnd' : NoDup (vis ++ adj')) by (apply (Permutation_NoDup P); exact Hnd).
  assert (Hsub : forall e, In e adj' -> In e adj) by (intros e H; apply (Permutation_in _ (Permutation_sym P)); apply in_or_app; right; exact H).
  destruct (nodup_app_inv _ _ Hnd') as [Hnd'' Hdisj]. split; [exact Hnd''|]. split; [intros i j j' H1 H2; apply (Hs i j j'); auto|].
  split; [intros i i' j H1 H2; apply (Hp i i' j); auto|].
  intros i j Hij. destruct (He i j (Hsub _ Hij)) as (h & Hh).
  apply (Permutation_in _ P) in Hh. apply in_app_or in Hh. destruct Hh as [Hv|Hr]; [|exists h; exact Hr]. exfalso.
  (* i lies on the cycle, so its outgoing half-edge (i, j) was visited *)
  assert (Hi : In i acc') by (apply (chain_fst_in c0 acc' (h, i)) in Hv; exact Hv).
  assert (Hout : exists y, In (i, y) vis).
  { destruct (Nat.eq_dec i c0) as [->|Hne].
    - destruct acc' as [|a acc0]; [congruence|]. exists a. unfold vis. rewrite chain_cons. left. reflexivity.
    - destruct (chain_in_succ c0 acc' i Hi ltac:(rewrite I2; exact Hne)) as (y & Hy & _). exists y. exact Hy. }
  destruct Hout as (y & Hy). assert (y = j) by (apply (Hs i y j); [apply I5; exact Hy|apply Hsub; exact Hij]). subst y.
  apply (Hdisj (i, j)); assumption.
Qed.

Lemma chain_length cur acc : length (chain cur acc) = length acc.
Proof. rewrite <- (chain_snd cur acc) at 2. rewrite map_length. reflexivity. Qed.

Theorem loops_ok : forall fuel adj acc, FG adj -> length adj < fuel ->
  exists loops, loops_from fuel adj acc = Ok (rev acc ++ loops) /\
                Forall (fun l => l <> [] /\ NoDup l) loops /\ Permutation (flat_map loop_edges loops) adj.
Proof.
  induction fuel as [|f IH]; intros adj acc Hfg Hf; [lia|]. cbn [loops_from].
  destruct (first_col adj) as [c0|] eqn:Hc.
  - destruct (one_loop adj c0 Hfg Hc) as (p0 & acc' & Hcf & W & Hne & Hnd & Hl & P & Hfg').
    rewrite Hcf, W. set (adj' := fold_left _ (chain c0 acc') adj) in *.
    assert (Hlen : length adj' < f).
    { apply Permutation_length in P. rewrite app_length, chain_length in P. destruct acc'; [congruence|]. cbn [length] in P. lia. }
    destruct (IH adj' (rev acc' :: acc) Hfg' Hlen) as (loops & E & Fa & Pl).
    exists (rev acc' :: loops). split; [rewrite E; cbn [rev]; rewrite <- app_assoc; reflexivity|]. split.
    + constructor; [|exact Fa]. split; [intros E'; apply Hne; rewrite <- (rev_involutive acc'), E'; reflexivity|apply NoDup_rev; exact Hnd].
    + cbn [flat_map]. unfold loop_edges at 1. rewrite rev_involutive, hd_rev_last, Hl. rewrite P. apply Permutation_app_head. exact Pl.
  - apply first_col_none in Hc. subst adj. exists []. split; [rewrite app_nil_r; reflexivity|]. split; [constructor|reflexivity].
Qed.

(* ---- boundary_loops of the model *)
Definition boundary_table (ts : list tri) : list edge :=
  filter (fun k => negb (Nat.eqb (count_pair k (sym_keys ts)) 2)) (unique_pairs (hedges ts)).
Lemma boundary_table_in ts i j : Forall distinct_tri ts -> i <> j ->
  (In (i, j) (boundary_table ts) <-> hedge_count ts i j >= 1 /\ tri_count ts i j <> 2).
Proof.
  intros Hd Hij. unfold boundary_table. rewrite filter_In, unique_pairs_in, negb_true_iff, Nat.eqb_neq.
  rewrite <- (dir_count_is_hedge_count ts i j Hd), <- (sym_count_is_tri_count ts i j Hd Hij). unfold dir_count, sym_count.
  rewrite <- count_pair_pos_iff. tauto.
Qed.

Theorem boundary_loops_ok ts : is_manifold ts = true -> is_closed ts = false -> is_oriented ts = true -> FG (boundary_table ts) ->
  exists loops, boundary_loops ts = Ok loops /\ Forall (fun l => l <> [] /\ NoDup l) loops /\
                Permutation (flat_map loop_edges loops) (boundary_table ts).
Proof.
  intros Hm Hc Ho Hfg. unfold boundary_loops. rewrite Hm, Hc, Ho. cbn [negb]. fold (boundary_table ts).
  destruct (loops_ok (S (length (boundary_table ts))) (boundary_table ts) [] Hfg ltac:(lia)) as (loops & E & F & P).
  exists loops. cbn [rev app] in E. auto.
Qed.
Theorem boundary_loops_closed ts : is_manifold ts = true -> is_closed ts = true -> boundary_loops ts = Ok [].
Proof. intros Hm Hc. unfold boundary_loops. rewrite Hm, Hc. reflexivity. Qed.
Theorem boundary_loops_rejects ts : is_manifold ts = false \/ (is_closed ts = false /\ is_oriented ts = false) ->
  boundary_loops ts = Err ValueError.
Proof.
  unfold boundary_loops. intros [Hm|[Hc Ho]]; [rewrite Hm; reflexivity|]. destruct (is_manifold ts); [|reflexivity].
  rewrite Hc, Ho. reflexivity.
Qed.

(* boolean form of FG for concrete tables *)
Definition fg_b (adj : list edge) : bool :=
  forallb (fun e => Nat.eqb (count_if (fun e' => Nat.eqb (fst e') (fst e)) adj) 1 && Nat.eqb (count_if (fun e' => Nat.eqb (snd e') (snd e)) adj) 1
                    && existsb (fun e' => Nat.eqb (snd e') (fst e)) adj) adj.
Lemma count_one_unique {A} (p : A -> bool) l x y : count_if p l = 1 -> In x l -> In y l -> p x = true -> p y = true -> x = y.
Proof.
  induction l as [|z l IH]; intros Hc Hx Hy Px Py; [contradiction|]. rewrite count_if_cons in Hc.
  assert (Z : forall u, In u l -> p u = true -> count_if p l >= 1) by (intros u Hu Pu; apply count_if_pos_iff; exists u; auto).
  destruct Hx as [->|Hx], Hy as [->|Hy]; [reflexivity| | |].
  - rewrite Px in Hc. specialize (Z y Hy Py). lia.
  - rewrite Py in Hc. specialize (Z x Hx Px). lia.
  - destruct (p z); [specialize (Z x Hx Px); lia|]. apply IH; auto.
Qed.
Lemma fg_b_ok adj : NoDup adj -> fg_b adj = true -> FG adj.
Proof.
  intros Hnd H. unfold fg_b in H. rewrite forallb_forall in H. split; [exact Hnd|]. split; [|split].
  - intros i j j' H1 H2. specialize (H _ H1). apply andb_true_iff in H. destruct H as [H _]. apply andb_true_iff in H. destruct H as [H _].
    apply Nat.eqb_eq in H. cbn [fst] in H.
    assert (E : (i, j) = (i, j')) by (apply (count_one_unique _ adj (i, j) (i, j') H H1 H2); cbn; apply Nat.eqb_refl). congruence.
  - intros i i' j H1 H2. specialize (H _ H1). apply andb_true_iff in H. destruct H as [H _]. apply andb_true_iff in H. destruct H as [_ H].
    apply Nat.eqb_eq in H. cbn [snd] in H.
    assert (E : (i, j) = (i', j)) by (apply (count_one_unique _ adj (i, j) (i', j) H H1 H2); cbn; apply Nat.eqb_refl). congruence.
  - intros i j H1. specialize (H _ H1). apply andb_true_iff in H. destruct H as [_ H]. apply existsb_exists in H.
    destruct H as ([h i'] & Hin & E). cbn in E. apply Nat.eqb_eq in E. subst i'. exists h. exact Hin.
Qed.

(* the hypotheses hold for concrete meshes: a square of two triangles *)
Definition c09_square : list tri := [(0, 1, 2); (1, 3, 2)].
Lemma loops_hypotheses_satisfiable :
  is_manifold c09_square = true /\ is_closed c09_square = false /\ is_oriented c09_square = true /\ FG (boundary_table c09_square).
Proof.
  split; [vm_compute; reflexivity|]. split; [vm_compute; reflexivity|]. split; [vm_compute; reflexivity|].
  apply fg_b_ok; [|vm_compute; reflexivity]. unfold boundary_table. apply NoDup_filter. apply unique_pairs_nodup.
Qed.
