(* Proofs/IOFsP.v -- codec theorems for the FreeSurfer triangle surface format (C14). *)
From Coq Require Import List Arith Bool PeanoNat ZArith String Lia.
From LaPyV Require Import Base.ListAux Model.TetMesh Model.TriaAdj Model.IOFs.
Import ListNotations.
Open Scope list_scope.

Section P.
  Context {K : Type} (r32 fmt10 : K -> K).
  Notation field := (field (K:=K)).
  Notation fsfile := (fsfile (K:=K)).

  Definition r3 (p : K * K * K) : K * K * K := let '(x, y, z) := p in (r32 x, r32 y, r32 z).
  Definition vfields (v : list (K * K * K)) : fsfile := flat_map (fun '(x, y, z) => [FF32 (r32 x); FF32 (r32 y); FF32 (r32 z)]) v.
  Definition tfields (t : list tri) : fsfile := flat_map (fun '(a, b, c) => [FI32 (Z.of_nat a); FI32 (Z.of_nat b); FI32 (Z.of_nat c)]) t.
  Definition vflat (v : list (K * K * K)) : list K := flat_map (fun '(x, y, z) => [r32 x; r32 y; r32 z]) v.
  Definition tflat (t : list tri) : list Z := flat_map (fun '(a, b, c) => [Z.of_nat a; Z.of_nat b; Z.of_nat c]) t.

  Lemma vfields_map v : vfields v = map (FF32 (K:=K)) (vflat v).
  Proof. induction v as [|[[x y] z] v IH]; [reflexivity|]. unfold vfields, vflat in *. cbn [flat_map map app]. rewrite IH. reflexivity. Qed.
  Lemma tfields_map t : tfields t = map (FI32 (K:=K)) (tflat t).
  Proof. induction t as [|[[a b] c] t IH]; [reflexivity|]. unfold tfields, tflat in *. cbn [flat_map map app]. rewrite IH. reflexivity. Qed.
  Lemma vflat_len v : List.length (vflat v) = (List.length v * 3)%nat.
  Proof. induction v as [|[[x y] z] v IH]; [reflexivity|]. unfold vflat in *. cbn [flat_map app List.length]. rewrite IH. lia. Qed.
  Lemma tflat_len t : List.length (tflat t) = (List.length t * 3)%nat.
  Proof. induction t as [|[[a b] c] t IH]; [reflexivity|]. unfold tflat in *. cbn [flat_map app List.length]. rewrite IH. lia. Qed.

  Lemma take_f32_exact (l : list K) rest : take_f32 (map (FF32 (K:=K)) l ++ rest) (List.length l) = (l, rest).
  Proof. induction l as [|x l IH]; [destruct rest as [|f rest']; [reflexivity|destruct f; reflexivity]|]. cbn [map app List.length take_f32]. rewrite IH. reflexivity. Qed.
  Lemma take_i32_exact (l : list Z) rest : take_i32 (map (FI32 (K:=K)) l ++ rest) (List.length l) = (l, rest).
  Proof. induction l as [|x l IH]; [destruct rest as [|f rest']; [reflexivity|destruct f; reflexivity]|]. cbn [map app List.length take_i32]. rewrite IH. reflexivity. Qed.
  (* fewer fields than asked for: fewer values *)
  Lemma take_f32_le (s : fsfile) : forall n, (List.length (fst (take_f32 s n)) <= List.length s)%nat.
  Proof.
    induction s as [|f s IH]; intros n; destruct n as [|m]; cbn [take_f32 fst List.length]; try lia.
    destruct f; cbn [fst List.length]; try lia. specialize (IH m). destruct (take_f32 s m). cbn [fst List.length] in *. lia.
  Qed.
  Lemma take_i32_le (s : fsfile) : forall n, (List.length (fst (take_i32 s n)) <= List.length s)%nat.
  Proof.
    induction s as [|f s IH]; intros n; destruct n as [|m]; cbn [take_i32 fst List.length]; try lia.
    destruct f; cbn [fst List.length]; try lia. specialize (IH m). destruct (take_i32 s m). cbn [fst List.length] in *. lia.
  Qed.

  Lemma chunk3k_vflat v : chunk3k (vflat v) = Some (map r3 v).
  Proof. induction v as [|[[x y] z] v IH]; [reflexivity|]. unfold vflat in *. cbn [flat_map app chunk3k map r3]. rewrite IH. reflexivity. Qed.
  Lemma chunk3z_tflat t : chunk3z (tflat t) = Some t.
  Proof. induction t as [|[[a b] c] t IH]; [reflexivity|]. unfold tflat in *. cbn [flat_map app chunk3z]. rewrite IH, !Nat2Z.id. reflexivity. Qed.

  (* header dictionary as it comes back: floats formatted with %.10g *)
  Definition info_back (i : fsinfo (K:=K)) : fsinfo (K:=K) :=
    {| fs_head := fs_head i; fs_valid := fs_valid i; fs_filename := fs_filename i; fs_volume := fs_volume i;
       fs_voxelsize := map fmt10 (fs_voxelsize i); fs_xras := map fmt10 (fs_xras i); fs_yras := map fmt10 (fs_yras i);
       fs_zras := map fmt10 (fs_zras i); fs_cras := map fmt10 (fs_cras i) |}.
  Definition valid_head (i : fsinfo (K:=K)) : Prop := fs_head i = [20%Z] \/ fs_head i = [2; 0; 20]%Z.

  Lemma read_info_written i : valid_head i -> read_volume_info (write_info fmt10 i) = FsOk (Some (info_back i)).
  Proof.
    intros [H|H]; unfold write_info, read_volume_info, info_back; rewrite H; cbn [map app take_i32]; reflexivity.
  Qed.
  Lemma read_info_none : read_volume_info ([] : fsfile) = FsOk None.
  Proof. reflexivity. Qed.

  (* ---- what write_fssurf (nibabel layout) writes, read_fssurf reads back: connectivity identical, coordinates as single
          precision, header information preserved *)
  Theorem fs_round_trip stamp v t info : match info with Some i => valid_head i | None => True end ->
    read_fs (write_fs r32 fmt10 stamp v t info) = FsOk (map r3 v, t, option_map info_back info, stamp).
  Proof.
    intros Hi. unfold write_fs, read_fs. cbn [app].
    fold (vfields v). fold (tfields t). rewrite !Nat2Z.id.
    rewrite vfields_map, tfields_map, <- vflat_len, take_f32_exact, Nat.eqb_refl. cbn [negb].
    rewrite <- tflat_len, take_i32_exact, Nat.eqb_refl. cbn [negb].
    rewrite chunk3k_vflat, chunk3z_tflat.
    destruct info as [i|]; cbn [option_map].
    - rewrite (read_info_written i Hi). reflexivity.
    - rewrite read_info_none. reflexivity.
  Qed.

  (* ---- truncation: every prefix that ends before the end of the element section yields no mesh *)
  Definition fs_body stamp v t : fsfile :=
    [FMagic 255 255 254; FLine stamp; FLine EmptyString; FI32 (Z.of_nat (List.length v)); FI32 (Z.of_nat (List.length t))]
      ++ vfields v ++ tfields t.
  Lemma write_fs_body stamp v t info : write_fs r32 fmt10 stamp v t info
    = fs_body stamp v t ++ match info with Some i => write_info fmt10 i | None => [] end.
  Proof. unfold write_fs, fs_body. rewrite <- !app_assoc. reflexivity. Qed.

  Theorem fs_truncated stamp v t n : (n < List.length (fs_body stamp v t))%nat ->
    exists e, read_fs (firstn n (fs_body stamp v t)) = FsErr e.
  Proof.
    intros Hn. unfold fs_body in *. rewrite vfields_map, tfields_map in *.
    destruct n as [|[|[|[|[|m]]]]]; cbn [app firstn read_fs]; try (eexists; reflexivity).
    rewrite !Nat2Z.id.
    cbn [List.length app] in Hn. rewrite !app_length, !map_length, vflat_len, tflat_len in Hn.
    rewrite firstn_app, map_length, vflat_len.
    destruct (Nat.lt_ge_cases m (List.length v * 3)) as [Hlt|Hge].
    - (* cut inside the vertex section *)
      replace (m - List.length v * 3)%nat with 0%nat by lia. cbn [firstn]. rewrite app_nil_r.
      pose proof (take_f32_le (firstn m (map (FF32 (K:=K)) (vflat v))) (List.length v * 3)) as L.
      rewrite firstn_length, map_length, vflat_len in L.
      destruct (take_f32 (firstn m (map (FF32 (K:=K)) (vflat v))) (List.length v * 3)) as [cs r1]. cbn [fst] in L.
      assert (E : Nat.eqb (List.length cs) (List.length v * 3) = false) by (apply Nat.eqb_neq; lia).
      rewrite E. cbn [negb]. eexists; reflexivity.
    - (* vertex section complete, cut inside the element section *)
      rewrite firstn_all2 by (rewrite map_length, vflat_len; lia).
      rewrite <- vflat_len, take_f32_exact, Nat.eqb_refl. cbn [negb].
      rewrite vflat_len in *.
      set (j := (m - List.length v * 3)%nat) in *.
      pose proof (take_i32_le (firstn j (map (FI32 (K:=K)) (tflat t))) (List.length t * 3)) as L.
      rewrite firstn_length, map_length, tflat_len in L.
      destruct (take_i32 (firstn j (map (FI32 (K:=K)) (tflat t))) (List.length t * 3)) as [fs r2]. cbn [fst] in L.
      assert (E : Nat.eqb (List.length fs) (List.length t * 3) = false) by (apply Nat.eqb_neq; lia).
      rewrite E. cbn [negb]. eexists; reflexivity.
  Qed.

  (* ---- wrong kind: anything that does not start with the triangle magic number is rejected *)
  Theorem fs_wrong_magic a b c rest : is_tria_magic a b c = false -> read_fs (FMagic a b c :: rest : fsfile) = FsErr FsValueError.
  Proof. intros H. unfold read_fs. rewrite H. reflexivity. Qed.
End P.
