(* Proofs/LoopsDegP.v -- C09: in an oriented edge-manifold mesh every vertex has as many incoming as outgoing boundary half-edges.
   Hence the hypothesis FG of the boundary_loops theorem reduces to "no vertex has two outgoing boundary half-edges". *)
From Coq Require Import List Arith Bool PeanoNat Lia Permutation.
From LaPyV Require Import Base.ListAux Model.TetMesh Model.TriaAdj Proofs.SortP Proofs.TriaAdjP Proofs.LoopsP.
Import ListNotations.

(* ---- list facts *)
Definition memb (x : nat) (l : list nat) : bool := existsb (Nat.eqb x) l.
Lemma memb_in x l : memb x l = true <-> In x l.
Proof.
  unfold memb. rewrite existsb_exists. split.
  - intros (y & Hy & E). apply Nat.eqb_eq in E. subst. exact Hy.
  - intros H. exists x. split; [exact H|apply Nat.eqb_refl].
Qed.
Lemma memb_notin x l : memb x l = false <-> ~ In x l.
Proof. rewrite <- memb_in. destruct (memb x l); split; intros; congruence. Qed.

Lemma filter_split_length {A} (p : A -> bool) l : length l = length (filter p l) + length (filter (fun x => negb (p x)) l).
Proof. induction l as [|x l IH]; [reflexivity|]. cbn [filter]. destruct (p x); cbn [negb length]; lia. Qed.

Lemma diff_length l m : NoDup l -> NoDup m -> length l = length m ->
  length (filter (fun x => negb (memb x m)) l) = length (filter (fun x => negb (memb x l)) m).
Proof.
  intros Hl Hm E.
  pose proof (filter_split_length (fun x => memb x m) l) as E1. pose proof (filter_split_length (fun x => memb x l) m) as E2.
  assert (P : Permutation (filter (fun x => memb x m) l) (filter (fun x => memb x l) m)).
  { apply NoDup_Permutation; [apply NoDup_filter; exact Hl|apply NoDup_filter; exact Hm|].
    intros x. rewrite !filter_In, !memb_in. tauto. }
  apply Permutation_length in P. lia.
Qed.

Lemma nodup_all_equal_length (l : list nat) : NoDup l -> (forall x y, In x l -> In y l -> x = y) -> length l <= 1.
Proof.
  intros Hn H. destruct l as [|a [|b l]]; cbn [length]; [lia|lia|]. exfalso.
  assert (a = b) by (apply H; [left; reflexivity|right; left; reflexivity]). subst b.
  inversion Hn as [|? ? Ha _]. apply Ha. left. reflexivity.
Qed.
Lemma length_le1_equal (l : list nat) x y : length l <= 1 -> In x l -> In y l -> x = y.
Proof. destruct l as [|a [|b l]]; cbn [length]; intros H Hx Hy; [contradiction| |lia]. destruct Hx as [<-|[]], Hy as [<-|[]]. reflexivity. Qed.

Lemma count_le1_nodup (l : list edge) : (forall k, count_pair k l <= 1) -> NoDup l.
Proof.
  induction l as [|x l IH]; intros H; constructor.
  - intros Hin. apply count_pair_pos_iff in Hin. specialize (H x). unfold count_pair in *. rewrite count_if_cons, pair_eqb_refl in H. lia.
  - apply IH. intros k. specialize (H k). unfold count_pair in *. rewrite count_if_cons in H. lia.
Qed.

(* ---- outgoing and incoming neighbours of a vertex *)
Definition outs (l : list edge) (v : nat) : list nat := map snd (filter (fun e => Nat.eqb (fst e) v) l).
Definition ins (l : list edge) (v : nat) : list nat := map fst (filter (fun e => Nat.eqb (snd e) v) l).

Lemma outs_in l v j : In j (outs l v) <-> In (v, j) l.
Proof.
  unfold outs. rewrite in_map_iff. split.
  - intros ([a b] & E & Hf). apply filter_In in Hf. destruct Hf as [Hin Ha]. cbn in E, Ha. apply Nat.eqb_eq in Ha. subst. exact Hin.
  - intros H. exists (v, j). split; [reflexivity|]. apply filter_In. split; [exact H|cbn; apply Nat.eqb_refl].
Qed.
Lemma ins_in l v j : In j (ins l v) <-> In (j, v) l.
Proof.
  unfold ins. rewrite in_map_iff. split.
  - intros ([a b] & E & Hf). apply filter_In in Hf. destruct Hf as [Hin Ha]. cbn in E, Ha. apply Nat.eqb_eq in Ha. subst. exact Hin.
  - intros H. exists (j, v). split; [reflexivity|]. apply filter_In. split; [exact H|cbn; apply Nat.eqb_refl].
Qed.
Lemma outs_nodup l v : NoDup l -> NoDup (outs l v).
Proof.
  intros H. unfold outs. induction l as [|[a b] l IH]; [constructor|]. inversion H as [|? ? Hx Hn]; subst. cbn [filter fst].
  destruct (Nat.eqb_spec a v) as [->|Hne]; [|apply IH; exact Hn]. cbn [map snd]. constructor; [|apply IH; exact Hn].
  intros Hin. apply (outs_in l v b) in Hin. contradiction.
Qed.
Lemma ins_nodup l v : NoDup l -> NoDup (ins l v).
Proof.
  intros H. unfold ins. induction l as [|[a b] l IH]; [constructor|]. inversion H as [|? ? Hx Hn]; subst. cbn [filter snd].
  destruct (Nat.eqb_spec b v) as [->|Hne]; [|apply IH; exact Hn]. cbn [map fst]. constructor; [|apply IH; exact Hn].
  intros Hin. apply (ins_in l v a) in Hin. contradiction.
Qed.

(* every triangle contributes as many half-edges leaving v as entering v *)
Lemma outs_ins_length ts v : length (outs (hedges ts) v) = length (ins (hedges ts) v).
Proof.
  unfold outs, ins, hedges. rewrite !map_length.
  induction ts as [|[[a b] c] ts IH]; [reflexivity|]. cbn [flat_map hedges1]. rewrite !filter_app, !app_length, IH. f_equal.
  cbn [filter fst snd app]. destruct (Nat.eqb a v), (Nat.eqb b v), (Nat.eqb c v); reflexivity.
Qed.

Lemma tri_count_split' ts i j : Forall distinct_tri ts -> i <> j ->
  tri_count ts i j = hedge_count ts i j + hedge_count ts j i.
Proof.
  intros H Hij. unfold tri_count, hedge_count.
  induction ts as [|[[a b] c] l IH]; [reflexivity|]. inversion H as [|? ? Hd H']; subst. cbn in Hd. destruct Hd as (Hab & Hbc & Hca).
  rewrite !count_if_cons, IH by assumption.
  assert ((if tri_has (a, b, c) i && tri_has (a, b, c) j then 1 else 0) =
          (if tri_hedge (a, b, c) i j then 1 else 0) + (if tri_hedge (a, b, c) j i then 1 else 0)); [|lia].
  unfold tri_has, tri_hedge.
  destruct (Nat.eqb_spec a i), (Nat.eqb_spec b i), (Nat.eqb_spec c i),
           (Nat.eqb_spec a j), (Nat.eqb_spec b j), (Nat.eqb_spec c j); subst; cbn; try reflexivity; try lia; congruence.
Qed.

Section Degrees.
  Context (ts : list tri).
  Context (Hd : Forall distinct_tri ts).
  Context (Ho : forall i j, hedge_count ts i j <= 1).

  Lemma hedges_nodup : NoDup (hedges ts).
  Proof. apply count_le1_nodup. intros [i j]. fold (dir_count ts i j). rewrite dir_count_is_hedge_count by exact Hd. apply Ho. Qed.
  Lemma hedge_in i j : In (i, j) (hedges ts) <-> hedge_count ts i j >= 1.
  Proof. rewrite <- dir_count_is_hedge_count by exact Hd. unfold dir_count. rewrite count_pair_pos_iff. tauto. Qed.
  Lemma hedge_distinct i j : In (i, j) (hedges ts) -> i <> j.
  Proof.
    intros Hin. unfold hedges in Hin. apply in_flat_map in Hin. destruct Hin as ([[a b] c] & Ht & Hin).
    rewrite Forall_forall in Hd. destruct (Hd _ Ht) as (Hab & Hbc & Hca).
    cbn in Hin. repeat (destruct Hin as [Hin|Hin]; [inversion Hin; subst; congruence|]). destruct Hin.
  Qed.

  (* a boundary half-edge is a half-edge whose reverse does not occur *)
  Lemma boundary_iff i j : In (i, j) (boundary_table ts) <-> In (i, j) (hedges ts) /\ ~ In (j, i) (hedges ts).
  Proof.
    split.
    - intros H. assert (Hin : In (i, j) (hedges ts)).
      { unfold boundary_table in H. apply filter_In in H. destruct H as [H _]. apply (proj1 (unique_pairs_in _ _)) in H. exact H. }
      pose proof (hedge_distinct i j Hin) as Hij. apply (boundary_table_in ts i j Hd Hij) in H. destruct H as [H1 H2].
      split; [exact Hin|]. intros Hr. apply hedge_in in Hr. rewrite (tri_count_split' ts i j Hd Hij) in H2.
      pose proof (Ho i j). pose proof (Ho j i). lia.
    - intros [Hin Hr]. pose proof (hedge_distinct i j Hin) as Hij. apply (boundary_table_in ts i j Hd Hij).
      rewrite (tri_count_split' ts i j Hd Hij). apply hedge_in in Hin.
      assert (hedge_count ts j i = 0) by (destruct (hedge_count ts j i) eqn:E; [reflexivity|exfalso; apply Hr; apply hedge_in; lia]).
      pose proof (Ho i j). lia.
  Qed.

  Definition out_b (v : nat) : list nat := filter (fun x => negb (memb x (ins (hedges ts) v))) (outs (hedges ts) v).
  Definition in_b (v : nat) : list nat := filter (fun x => negb (memb x (outs (hedges ts) v))) (ins (hedges ts) v).
  Lemma out_b_in v j : In j (out_b v) <-> In (v, j) (boundary_table ts).
  Proof. unfold out_b. rewrite filter_In, negb_true_iff, memb_notin, outs_in, ins_in, boundary_iff. tauto. Qed.
  Lemma in_b_in v j : In j (in_b v) <-> In (j, v) (boundary_table ts).
  Proof. unfold in_b. rewrite filter_In, negb_true_iff, memb_notin, outs_in, ins_in, boundary_iff. tauto. Qed.

  (* the degree balance *)
  Theorem boundary_in_out_degree v : length (in_b v) = length (out_b v).
  Proof.
    unfold in_b, out_b. symmetry. apply diff_length.
    - apply outs_nodup. exact hedges_nodup.
    - apply ins_nodup. exact hedges_nodup.
    - apply outs_ins_length.
  Qed.

  (* the same, read off the table itself *)
  Theorem boundary_degree_balance v :
    count_if (fun e => Nat.eqb (snd e) v) (boundary_table ts) = count_if (fun e => Nat.eqb (fst e) v) (boundary_table ts).
  Proof.
    assert (Hn : NoDup (boundary_table ts)) by (unfold boundary_table; apply NoDup_filter; apply unique_pairs_nodup).
    assert (Hh := hedges_nodup).
    unfold count_if. rewrite <- (map_length fst (filter (fun e => Nat.eqb (snd e) v) _)), <- (map_length snd (filter (fun e => Nat.eqb (fst e) v) _)).
    fold (ins (boundary_table ts) v). fold (outs (boundary_table ts) v).
    assert (P1 : Permutation (ins (boundary_table ts) v) (in_b v)).
    { apply NoDup_Permutation; [apply ins_nodup; exact Hn|apply NoDup_filter; apply ins_nodup; exact Hh|].
      intros x. rewrite ins_in, in_b_in. tauto. }
    assert (P2 : Permutation (outs (boundary_table ts) v) (out_b v)).
    { apply NoDup_Permutation; [apply outs_nodup; exact Hn|apply NoDup_filter; apply outs_nodup; exact Hh|].
      intros x. rewrite outs_in, out_b_in. tauto. }
    rewrite (Permutation_length P1), (Permutation_length P2). apply boundary_in_out_degree.
  Qed.

  Theorem fg_of_succ_unique : succ_unique (boundary_table ts) -> FG (boundary_table ts).
  Proof.
    intros Hs.
    assert (Hn : forall v, NoDup (out_b v) /\ NoDup (in_b v)).
    { intros v. split; apply NoDup_filter; [apply outs_nodup|apply ins_nodup]; exact hedges_nodup. }
    assert (Hle : forall v, length (in_b v) <= 1).
    { intros v. rewrite boundary_in_out_degree. apply nodup_all_equal_length; [apply Hn|].
      intros x y Hx Hy. apply out_b_in in Hx. apply out_b_in in Hy. apply (Hs v x y Hx Hy). }
    split; [unfold boundary_table; apply NoDup_filter; apply unique_pairs_nodup|]. split; [exact Hs|]. split.
    - intros i i' j H1 H2. apply in_b_in in H1. apply in_b_in in H2. apply (length_le1_equal (in_b j) i i' (Hle j) H1 H2).
    - intros i j H. apply out_b_in in H.
      assert (L : length (in_b i) >= 1) by (rewrite boundary_in_out_degree; destruct (out_b i); [contradiction|cbn [length]; lia]).
      destruct (in_b i) as [|h r] eqn:E; [cbn [length] in L; lia|]. exists h. apply in_b_in. rewrite E. left. reflexivity.
  Qed.
End Degrees.

Theorem boundary_loops_ok_vertex_manifold ts : Forall distinct_tri ts ->
  is_manifold ts = true -> is_closed ts = false -> is_oriented ts = true -> succ_unique (boundary_table ts) ->
  exists loops, boundary_loops ts = Ok loops /\ Forall (fun l => l <> [] /\ NoDup l) loops /\
                Permutation (flat_map loop_edges loops) (boundary_table ts).
Proof.
  intros Hd Hm Hc Ho Hs. apply boundary_loops_ok; [exact Hm|exact Hc|exact Ho|].
  assert (Hne : ts <> []) by (intros ->; vm_compute in Hc; discriminate).
  apply fg_of_succ_unique; [exact Hd| |exact Hs].
  apply (proj1 (is_oriented_iff ts Hd Hne)). exact Ho.
Qed.

(* the hypotheses hold for a concrete mesh with two boundary loops' worth of structure: the square of LoopsP *)
Lemma vertex_manifold_hypotheses_satisfiable :
  Forall distinct_tri c09_square /\ is_manifold c09_square = true /\ is_closed c09_square = false /\ is_oriented c09_square = true /\
  succ_unique (boundary_table c09_square).
Proof.
  split; [repeat constructor; cbn; lia|]. split; [vm_compute; reflexivity|]. split; [vm_compute; reflexivity|]. split; [vm_compute; reflexivity|].
  destruct loops_hypotheses_satisfiable as (_ & _ & _ & (_ & Hs & _)). exact Hs.
Qed.
