(* Proofs/FemAnisoP.v -- anisotropic triangle stiffness (C01 clauses on aniso) over R. *)
From Coq Require Import List Arith Bool PeanoNat Lia Reals Lra.
From LaPyV Require Import Base.Scalar Base.Vec3 Base.ListAux Base.Sparse Model.TetMesh Model.Fem
  Proofs.SparseP Proofs.TetMeshP Proofs.FemTriaP.
Import ListNotations.
Open Scope R_scope.

(* directional form of one triangle: S_u(f,g) = (b*y_f - a*z_f)(b*y_g - a*z_g),
   a = u.(v3-v2), b = u.(v1-v3), y = f2-f3, z = f3-f1 *)
Definition dir_form (u p1 p2 p3 : V3) (f1 f2 f3 g1 g2 g3 : R) : R :=
  let a := dotR u (subR p3 p2) in let b := dotR u (subR p1 p3) in
  (b * (f2 - f3) - a * (f3 - f1)) * (b * (g2 - g3) - a * (g3 - g1)).

Lemma edges_sum_zero u p1 p2 p3 : dotR u (subR p2 p1) = - (dotR u (subR p3 p2) + dotR u (subR p1 p3)).
Proof. r3 u; r3 p1; r3 p2; r3 p3. unfold dot, vsub, vx, vy, vz. cbn. ring. Qed.

Lemma aniso_block_form v t1 t2 t3 u1 u2 m0 m1 vol f g : vol <> 0 ->
  let '(p1, p2, p3) := tri_pts Rops v (t1, t2, t3) in
  bil f (stiff_block Rops (t1, t2, t3) (aniso_cots Rops v (t1, t2, t3) u1 u2 (m0, m1) vol)) g =
  (m0 * dir_form u1 p1 p2 p3 (f t1) (f t2) (f t3) (g t1) (g t2) (g t3)
   + m1 * dir_form u2 p1 p2 p3 (f t1) (f t2) (f t3) (g t1) (g t2) (g t3)) / vol.
Proof.
  intros Hv. unfold tri_pts, aniso_cots, tri_pts.
  set (p1 := getv Rops v t1). set (p2 := getv Rops v t2). set (p3 := getv Rops v t3).
  rewrite stiff_block_bilin. unfold dir_form. cbn [fst snd add mul div Rops].
  rewrite (edges_sum_zero u1 p1 p2 p3), (edges_sum_zero u2 p1 p2 p3).
  generalize (dotR u1 (subR p3 p2)) (dotR u1 (subR p1 p3)) (dotR u2 (subR p3 p2)) (dotR u2 (subR p1 p3)).
  intros a1 b1 a2 b2. field. exact Hv.
Qed.

Lemma dir_form_sym u p1 p2 p3 f1 f2 f3 g1 g2 g3 :
  dir_form u p1 p2 p3 f1 f2 f3 g1 g2 g3 = dir_form u p1 p2 p3 g1 g2 g3 f1 f2 f3.
Proof. unfold dir_form. ring. Qed.
Lemma dir_form_nonneg u p1 p2 p3 f1 f2 f3 : 0 <= dir_form u p1 p2 p3 f1 f2 f3 f1 f2 f3.
Proof. unfold dir_form. apply Rle_0_sqr. Qed.

(* the isotropic block in the same shape *)
Lemma iso_block_form v t1 t2 t3 vol f g : vol <> 0 ->
  let '(p1, p2, p3) := tri_pts Rops v (t1, t2, t3) in
  bil f (stiff_block Rops (t1, t2, t3) (tria_cots Rops v (t1, t2, t3) vol)) g =
  tri_P p1 p2 p3 (f t1) (f t2) (f t3) (g t1) (g t2) (g t3) / vol.
Proof.
  intros Hv. unfold tri_pts, tria_cots, tri_pts, tri_P.
  set (p1 := getv Rops v t1). set (p2 := getv Rops v t2). set (p3 := getv Rops v t3).
  rewrite stiff_block_bilin. cbn [div Rops]. field. exact Hv.
Qed.

(* edges in the span of an orthonormal pair: Parseval in the plane *)
Definition in_span (u1 u2 x : V3) : Prop :=
  exists a b, x = vadd Rops (vscale Rops a u1) (vscale Rops b u2).
Definition orthonormal2 (u1 u2 : V3) : Prop := dotR u1 u1 = 1 /\ dotR u2 u2 = 1 /\ dotR u1 u2 = 0.

Lemma parseval_plane u1 u2 x y : orthonormal2 u1 u2 -> in_span u1 u2 x -> in_span u1 u2 y ->
  dotR u1 x * dotR u1 y + dotR u2 x * dotR u2 y = dotR x y.
Proof.
  intros (H11 & H22 & H12) (a & b & ->) (c & d & ->).
  assert (L : forall w a b, dotR w (vadd Rops (vscale Rops a u1) (vscale Rops b u2)) = a * dotR w u1 + b * dotR w u2).
  { intros w a' b'. r3 w; r3 u1; r3 u2. unfold dot, vadd, vscale, vx, vy, vz. cbn. ring. }
  assert (C : forall p q, dotR p q = dotR q p).
  { intros p q. r3 p; r3 q. unfold dot, vx, vy, vz. cbn. ring. }
  rewrite !L. rewrite (C (vadd Rops (vscale Rops a u1) (vscale Rops b u2)) u1), (C (vadd Rops (vscale Rops a u1) (vscale Rops b u2)) u2).
  rewrite !L. rewrite (C u2 u1), H11, H22, H12. ring.
Qed.

(* the sum of the two directional forms is the isotropic numerator *)
Lemma dir_forms_sum_iso u1 u2 p1 p2 p3 f1 f2 f3 g1 g2 g3 :
  orthonormal2 u1 u2 -> in_span u1 u2 (subR p3 p2) -> in_span u1 u2 (subR p1 p3) ->
  dir_form u1 p1 p2 p3 f1 f2 f3 g1 g2 g3 + dir_form u2 p1 p2 p3 f1 f2 f3 g1 g2 g3 =
  tri_P p1 p2 p3 f1 f2 f3 g1 g2 g3.
Proof.
  intros Ho Ha Hb. unfold dir_form, tri_P.
  assert (Pab := parseval_plane u1 u2 _ _ Ho Ha Hb).
  assert (Paa := parseval_plane u1 u2 _ _ Ho Ha Ha).
  assert (Pbb := parseval_plane u1 u2 _ _ Ho Hb Hb).
  assert (E : forall w, dotR w (subR p2 p1) = - (dotR w (subR p3 p2) + dotR w (subR p1 p3))) by (intros; apply edges_sum_zero).
  assert (C : forall p q, dotR p q = dotR q p).
  { intros p q. r3 p; r3 q. unfold dot, vx, vy, vz. cbn. ring. }
  (* express the three isotropic dot products through a.a, a.b, b.b *)
  assert (D1 : dotR (subR p1 p3) (subR p2 p1) = - (dotR (subR p3 p2) (subR p1 p3) + dotR (subR p1 p3) (subR p1 p3))).
  { rewrite E. rewrite (C (subR p1 p3) (subR p3 p2)). reflexivity. }
  assert (D2 : dotR (subR p2 p1) (subR p3 p2) = - (dotR (subR p3 p2) (subR p3 p2) + dotR (subR p3 p2) (subR p1 p3))).
  { rewrite (C (subR p2 p1) (subR p3 p2)), E. reflexivity. }
  rewrite D1, D2, <- Pab, <- Paa, <- Pbb. ring.
Qed.

(* C01 aniso clauses, element level, for weights m0 m1 and vol > 0 *)
Theorem aniso_elem_sym v t u1 u2 m vol f g :
  bil f (stiff_block Rops t (aniso_cots Rops v t u1 u2 m vol)) g =
  bil g (stiff_block Rops t (aniso_cots Rops v t u1 u2 m vol)) f.
Proof.
  destruct t as [[t1 t2] t3]. destruct (aniso_cots Rops v (t1, t2, t3) u1 u2 m vol) as [[a12 a23] a31].
  rewrite !stiff_block_bilin. ring.
Qed.
Theorem aniso_elem_const v t u1 u2 m vol f c :
  bil f (stiff_block Rops t (aniso_cots Rops v t u1 u2 m vol)) (fun _ => c) = 0.
Proof.
  destruct t as [[t1 t2] t3]. destruct (aniso_cots Rops v (t1, t2, t3) u1 u2 m vol) as [[a12 a23] a31].
  rewrite !stiff_block_bilin. ring.
Qed.
Theorem aniso_elem_psd v t1 t2 t3 u1 u2 m0 m1 vol f : 0 < vol -> 0 <= m0 -> 0 <= m1 ->
  0 <= bil f (stiff_block Rops (t1, t2, t3) (aniso_cots Rops v (t1, t2, t3) u1 u2 (m0, m1) vol)) f.
Proof.
  intros Hv H0 H1. assert (F := aniso_block_form v t1 t2 t3 u1 u2 m0 m1 vol f f).
  destruct (tri_pts Rops v (t1, t2, t3)) as [[p1 p2] p3]. rewrite F by lra.
  assert (A := dir_form_nonneg u1 p1 p2 p3 (f t1) (f t2) (f t3)).
  assert (B := dir_form_nonneg u2 p1 p2 p3 (f t1) (f t2) (f t3)).
  apply Rmult_le_pos; [|apply Rlt_le, Rinv_0_lt_compat; assumption]. nra.
Qed.
(* weights (1,1): the anisotropic block IS the isotropic block *)
Theorem aniso_elem_unit_weights v t1 t2 t3 u1 u2 vol f g : vol <> 0 ->
  let '(p1, p2, p3) := tri_pts Rops v (t1, t2, t3) in
  orthonormal2 u1 u2 -> in_span u1 u2 (subR p3 p2) -> in_span u1 u2 (subR p1 p3) ->
  bil f (stiff_block Rops (t1, t2, t3) (aniso_cots Rops v (t1, t2, t3) u1 u2 (1, 1) vol)) g =
  bil f (stiff_block Rops (t1, t2, t3) (tria_cots Rops v (t1, t2, t3) vol)) g.
Proof.
  intros Hv. assert (F := aniso_block_form v t1 t2 t3 u1 u2 1 1 vol f g Hv).
  assert (G := iso_block_form v t1 t2 t3 vol f g Hv).
  destruct (tri_pts Rops v (t1, t2, t3)) as [[p1 p2] p3]. intros Ho Ha Hb.
  rewrite F, G, <- (dir_forms_sum_iso u1 u2 p1 p2 p3 _ _ _ _ _ _ Ho Ha Hb). field. exact Hv.
Qed.
(* weights in [0,1]: energy between 0 and the isotropic energy *)
Theorem aniso_elem_le_iso v t1 t2 t3 u1 u2 m0 m1 vol f : 0 < vol -> 0 <= m0 <= 1 -> 0 <= m1 <= 1 ->
  let '(p1, p2, p3) := tri_pts Rops v (t1, t2, t3) in
  orthonormal2 u1 u2 -> in_span u1 u2 (subR p3 p2) -> in_span u1 u2 (subR p1 p3) ->
  bil f (stiff_block Rops (t1, t2, t3) (aniso_cots Rops v (t1, t2, t3) u1 u2 (m0, m1) vol)) f <=
  bil f (stiff_block Rops (t1, t2, t3) (tria_cots Rops v (t1, t2, t3) vol)) f.
Proof.
  intros Hv H0 H1. assert (Hv' : vol <> 0) by lra.
  assert (F := aniso_block_form v t1 t2 t3 u1 u2 m0 m1 vol f f Hv').
  assert (G := iso_block_form v t1 t2 t3 vol f f Hv').
  destruct (tri_pts Rops v (t1, t2, t3)) as [[p1 p2] p3]. intros Ho Ha Hb.
  rewrite F, G, <- (dir_forms_sum_iso u1 u2 p1 p2 p3 _ _ _ _ _ _ Ho Ha Hb).
  assert (A := dir_form_nonneg u1 p1 p2 p3 (f t1) (f t2) (f t3)).
  assert (B := dir_form_nonneg u2 p1 p2 p3 (f t1) (f t2) (f t3)).
  apply Rmult_le_compat_r; [apply Rlt_le, Rinv_0_lt_compat; assumption|]. nra.
Qed.

(* the weights built by Solver.__init__ from a non-negative anisotropy lie in (0,1] *)
Lemma exp_neg_le_1 x : 0 <= x -> 0 < exp (- x) <= 1.
Proof.
  intros H. split; [apply exp_pos|].
  destruct (Req_dec x 0) as [->|Hn]; [rewrite Ropp_0, exp_0; lra|].
  rewrite <- exp_0. apply Rlt_le, exp_increasing. lra.
Qed.
Theorem aniso_weights_range a0 a1 c1 c2 : 0 <= a0 -> 0 <= a1 ->
  Forall (fun m => 0 < fst m <= 1 /\ 0 < snd m <= 1) (aniso_weights Rops a0 a1 c1 c2).
Proof.
  intros H0 H1. unfold aniso_weights. apply Forall_forall. intros m Hm. apply in_map_iff in Hm.
  destruct Hm as ([x1 x2] & <- & _). cbn [fst snd expK absK mul opp Rops].
  split.
  - replace (- a0 * Rabs x2) with (- (a0 * Rabs x2)) by ring. apply exp_neg_le_1.
    apply Rmult_le_pos; [assumption|apply Rabs_pos].
  - replace (- a1 * Rabs x1) with (- (a1 * Rabs x1)) by ring. apply exp_neg_le_1.
    apply Rmult_le_pos; [assumption|apply Rabs_pos].
Qed.

(* assembled: symmetric and constant-annihilating for every choice of directions and weights *)
Theorem fem_aniso_A_bilin_sym v ts u1 u2 am f g :
  bil f (fem_aniso_A Rops v ts u1 u2 am) g = bil g (fem_aniso_A Rops v ts u1 u2 am) f.
Proof.
  unfold fem_aniso_A. rewrite !bilin_flat_map. apply Rsum_ext. intros [t [vol [a [b m]]]] _. apply aniso_elem_sym.
Qed.
Theorem fem_aniso_A_sym v ts u1 u2 am i j :
  ent (fem_aniso_A Rops v ts u1 u2 am) i j = ent (fem_aniso_A Rops v ts u1 u2 am) j i.
Proof. apply entry_sym_of_bilin_sym. intros; apply fem_aniso_A_bilin_sym. Qed.
Theorem fem_aniso_A_const v ts u1 u2 am f c : bil f (fem_aniso_A Rops v ts u1 u2 am) (fun _ => c) = 0.
Proof.
  unfold fem_aniso_A. rewrite bilin_flat_map. apply Rsum_zero. intros [t [vol [a [b m]]]] _. apply aniso_elem_const.
Qed.
Theorem fem_aniso_A_psd v ts u1 u2 am f :
  Forall (fun x => 0 < x) (tria_vols4 Rops v ts) -> Forall (fun m => 0 <= fst m /\ 0 <= snd m) am ->
  0 <= bil f (fem_aniso_A Rops v ts u1 u2 am) f.
Proof.
  intros Hv Hm. unfold fem_aniso_A. rewrite bilin_flat_map. apply Rsum_nonneg.
  intros [[[t1 t2] t3] [vol [a [b [m0 m1]]]]] Hin.
  assert (Hvol : In vol (tria_vols4 Rops v ts)).
  { apply in_combine_r in Hin. apply in_combine_l in Hin. exact Hin. }
  assert (Hmm : In (m0, m1) am).
  { apply in_combine_r in Hin. apply in_combine_r in Hin. apply in_combine_r in Hin. apply in_combine_r in Hin. exact Hin. }
  rewrite Forall_forall in Hv, Hm. destruct (Hm _ Hmm) as [M0 M1]. cbn [fst snd] in M0, M1.
  apply aniso_elem_psd; [apply Hv; assumption|assumption|assumption].
Qed.
