(* Proofs/AreaInvarP.v -- C13: triangle areas and the total area are invariant under every rigid motion (Q^T Q = I, any
   translation; reflections included) and scale with s^2 under uniform scaling. *)
From Coq Require Import List Arith Bool PeanoNat Lia Reals Lra.
From LaPyV Require Import Base.Scalar Base.Vec3 Base.ListAux Base.Sparse Model.TetMesh Model.TriaAdj Model.TriaOrient
  Model.Fem Model.TriaGeom Proofs.SparseP Proofs.TetMeshP Proofs.TriaAdjP Proofs.FemTriaP Proofs.InvarianceP Proofs.TriaGeomP.
Import ListNotations.
Open Scope R_scope.

Lemma cross_area_rigid Q b v t : orthogonal Q -> (let '(a, b0, c) := t in (a < length v /\ b0 < length v /\ c < length v)%nat) ->
  cross_area Rops (map (rigid Q b) v) t = cross_area Rops v t.
Proof.
  destruct t as [[a b0] c]. intros HQ H. unfold cross_area. rewrite (tri_pts_rigid Q b v a b0 c H). unfold tri_pts.
  fold (subR (rigid Q b (getv Rops v b0)) (rigid Q b (getv Rops v a))). fold (subR (rigid Q b (getv Rops v c)) (rigid Q b (getv Rops v a))).
  rewrite !rigid_sub. unfold norm, norm2. fold (crossR (mapply Q (subR (getv Rops v b0) (getv Rops v a))) (mapply Q (subR (getv Rops v c) (getv Rops v a)))).
  rewrite (orth_cross_norm2 Q _ _ HQ). reflexivity.
Qed.

Lemma cross_area_scale s v t : (let '(a, b0, c) := t in (a < length v /\ b0 < length v /\ c < length v)%nat) ->
  cross_area Rops (map (vscaleR s) v) t = s * s * cross_area Rops v t.
Proof.
  destruct t as [[a b0] c]. intros (Ha & Hb & Hc). unfold cross_area, tri_pts. rewrite !getv_map by assumption.
  fold (subR (vscaleR s (getv Rops v b0)) (vscaleR s (getv Rops v a))). fold (subR (vscaleR s (getv Rops v c)) (vscaleR s (getv Rops v a))).
  rewrite !scale_sub. unfold norm, norm2.
  fold (crossR (vscaleR s (subR (getv Rops v b0) (getv Rops v a))) (vscaleR s (subR (getv Rops v c) (getv Rops v a)))).
  rewrite scale_cross_norm2. cbn [sqrtK frac div ofZ mul Rops].
  set (NN := dotR _ _).
  assert (HN : 0 <= NN) by (unfold NN; generalize (cross Rops (vsub Rops (getv Rops v b0) (getv Rops v a)) (vsub Rops (getv Rops v c) (getv Rops v a))); intros n; r3 n; unfold dot, vx, vy, vz; cbn; nra).
  rewrite sqrt_mult by nra. rewrite sqrt_square by nra. ring.
Qed.

Theorem area_rigid_invariant Q b v ts : orthogonal Q -> tris_in_range (length v) ts ->
  area Rops (map (rigid Q b) v) ts = area Rops v ts.
Proof.
  intros HQ Hr. rewrite !area_is_sum_of_cross_areas. apply Rsum_ext. intros t Ht.
  unfold tris_in_range in Hr. rewrite Forall_forall in Hr. apply cross_area_rigid; [exact HQ|exact (Hr t Ht)].
Qed.
Theorem area_scales_with_square s v ts : tris_in_range (length v) ts ->
  area Rops (map (vscaleR s) v) ts = s * s * area Rops v ts.
Proof.
  intros Hr. rewrite !area_is_sum_of_cross_areas, <- Rsum_scal. apply Rsum_ext. intros t Ht.
  unfold tris_in_range in Hr. rewrite Forall_forall in Hr. apply cross_area_scale. exact (Hr t Ht).
Qed.
