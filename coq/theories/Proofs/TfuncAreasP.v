(* Proofs/TfuncAreasP.v -- C15: with weighted=True the constant 1 on triangles is mapped to the vertex areas (the same list that
   vertex_areas() returns), for every mesh. *)
From Coq Require Import List Arith Bool PeanoNat Lia Reals Lra.
From LaPyV Require Import Base.Scalar Base.Vec3 Base.ListAux Base.Sparse Model.TetMesh Model.TriaAdj Model.TriaOrient
  Model.Fem Model.TriaGeom Model.TriaFunc Proofs.SparseP Proofs.TriaGeomP Proofs.TriaFuncP.
Import ListNotations.
Open Scope R_scope.

Lemma combine_repeat_one (l : list R) : map (fun '(x, a) => x * a) (combine (repeat 1 (length l)) l) = l.
Proof. induction l as [|a l IH]; [reflexivity|]. cbn [length repeat combine map]. rewrite IH. f_equal. ring. Qed.

Lemma combine_map_self {A B} (h : A -> B) l : combine l (map h l) = map (fun x => (x, h x)) l.
Proof. induction l as [|x l IH]; [reflexivity|]. cbn [map combine]. rewrite IH. reflexivity. Qed.

Theorem weighted_one_maps_to_vertex_areas v ts :
  tfunc_to_vfunc_col Rops (S (maxn (tri_flat ts))) v ts true (repeat 1 (length ts)) = vertex_areas Rops v ts.
Proof.
  rewrite tfunc_col_form. unfold vertex_areas, scatter. rewrite map_map. apply map_ext. intros k.
  cbn [div ofZ Rops]. f_equal. rewrite scatter_at_Rsum.
  replace (length ts) with (length (tria_areas Rops v ts)) by (unfold tria_areas; apply map_length).
  rewrite combine_repeat_one, tria_areas_are_cross_areas.
  unfold corner_list. rewrite combine_map_self, !Rsum_app, !Rsum_map, Rsum_flat_map, <- !Rsum_plus.
  apply Rsum_ext. intros [[a b] c] _. cbn [Rsum fst snd]. ring.
Qed.
