(* Proofs/VertexAreasInvarP.v -- C13: tria_areas and vertex_areas (the whole returned lists) are unchanged by every rigid motion
   and multiplied by s^2 under uniform scaling. *)
From Coq Require Import List Arith Bool PeanoNat Lia Reals Lra.
From LaPyV Require Import Base.Scalar Base.Vec3 Base.ListAux Base.Sparse Model.TetMesh Model.TriaAdj Model.TriaOrient
  Model.Fem Model.TriaGeom Proofs.SparseP Proofs.TetMeshP Proofs.TriaAdjP Proofs.FemTriaP Proofs.InvarianceP Proofs.TriaGeomP Proofs.AreaInvarP.
Import ListNotations.
Open Scope R_scope.
Local Notation V3 := (vec3 R).

Lemma flat_map_ext_in' {A B} (f g : A -> list B) l : (forall x, In x l -> f x = g x) -> flat_map f l = flat_map g l.
Proof. induction l as [|x l IH]; intros H; [reflexivity|]. cbn [flat_map]. rewrite (H x (or_introl eq_refl)), IH; [reflexivity|]. intros y Hy; apply H; right; exact Hy. Qed.

Section Factor.
  Context (c : R) (v v' : list V3) (ts : list tri).
  Context (H : forall t, In t ts -> cross_area Rops v' t = c * cross_area Rops v t).
  Lemma tria_areas_factor : tria_areas Rops v' ts = map (fun x => c * x) (tria_areas Rops v ts).
  Proof. rewrite !tria_areas_are_cross_areas, map_map. apply map_ext_in. exact H. Qed.
  Lemma vertex_areas_factor : vertex_areas Rops v' ts = map (fun x => c * x) (vertex_areas Rops v ts).
  Proof.
    unfold vertex_areas, scatter. rewrite !map_map. apply map_ext. intros k. rewrite !scatter_at_Rsum, !Rsum_flat_map.
    cbn [div ofZ Rops]. unfold Rdiv. rewrite <- Rmult_assoc. f_equal. rewrite <- Rsum_scal. apply Rsum_ext. intros [[a b] d] Ht.
    rewrite (H _ Ht). cbn [Rsum fst snd]. destruct (Nat.eqb a k), (Nat.eqb b k), (Nat.eqb d k); ring.
  Qed.
End Factor.

Lemma map_one_mul (l : list R) : map (fun x => 1 * x) l = l.
Proof. induction l as [|x l IH]; [reflexivity|]. cbn [map]. rewrite IH. f_equal. ring. Qed.

Theorem areas_rigid_invariant Q b v ts : orthogonal Q -> tris_in_range (length v) ts ->
  tria_areas Rops (map (rigid Q b) v) ts = tria_areas Rops v ts /\ vertex_areas Rops (map (rigid Q b) v) ts = vertex_areas Rops v ts.
Proof.
  intros HQ Hr.
  assert (H : forall t, In t ts -> cross_area Rops (map (rigid Q b) v) t = 1 * cross_area Rops v t).
  { intros t Ht. unfold tris_in_range in Hr. rewrite Forall_forall in Hr. rewrite (cross_area_rigid Q b v t HQ (Hr t Ht)). ring. }
  split; [rewrite (tria_areas_factor 1 v _ ts H)|rewrite (vertex_areas_factor 1 v _ ts H)]; apply map_one_mul.
Qed.
Theorem areas_scale s v ts : tris_in_range (length v) ts ->
  tria_areas Rops (map (vscaleR s) v) ts = map (fun x => s * s * x) (tria_areas Rops v ts) /\
  vertex_areas Rops (map (vscaleR s) v) ts = map (fun x => s * s * x) (vertex_areas Rops v ts).
Proof.
  intros Hr.
  assert (H : forall t, In t ts -> cross_area Rops (map (vscaleR s) v) t = s * s * cross_area Rops v t).
  { intros t Ht. unfold tris_in_range in Hr. rewrite Forall_forall in Hr. apply cross_area_scale. exact (Hr t Ht). }
  split; [apply (tria_areas_factor _ v _ ts H)|apply (vertex_areas_factor _ v _ ts H)].
Qed.
