(* Proofs/VolumeScaleP.v -- C13: volume() under linear maps: multiplied by s^3 under uniform scaling p -> s p, multiplied by
   det M under any linear map p -> M p, hence unchanged by every proper rigid motion p -> Q p + b (Q^T Q = I, det Q = 1)
   and negated by every improper one (det Q = -1).  Open / unoriented meshes give the same 0 / ValueError whatever the coordinates. *)
From Coq Require Import List Arith Bool PeanoNat Lia Reals Lra Nsatz.
From LaPyV Require Import Base.Scalar Base.Vec3 Base.ListAux Base.Sparse Model.TetMesh Model.TriaAdj Model.TriaOrient
  Proofs.SparseP Proofs.TetMeshP Proofs.TriaAdjP Proofs.InvarianceP Proofs.TriaGeomP Proofs.VolumeTransP.
Import ListNotations.
Open Scope R_scope.
Local Notation V3 := (vec3 R).

Definition det3 (M : mat3) : R := let '(r1, r2, r3) := M in dot Rops r1 (cross Rops r2 r3).

Lemma tri_spat_linear M v a b d : (a < length v)%nat -> (b < length v)%nat -> (d < length v)%nat ->
  tri_spat Rops (map (mapply M) v) (a, b, d) = det3 M * tri_spat Rops v (a, b, d).
Proof.
  intros Ha Hb Hd. unfold tri_spat. rewrite !getv_map by assumption.
  generalize (getv Rops v a) (getv Rops v b) (getv Rops v d). intros p0 p1 p2.
  destruct M as [[r1 r2] r3]. r3 r1; r3 r2; r3 r3; r3 p0; r3 p1; r3 p2.
  unfold det3, mapply, dot, cross, vsub, vx, vy, vz. cbn. ring.
Qed.

Lemma tri_spat_scale s v a b d : (a < length v)%nat -> (b < length v)%nat -> (d < length v)%nat ->
  tri_spat Rops (map (vscaleR s) v) (a, b, d) = s * s * s * tri_spat Rops v (a, b, d).
Proof.
  intros Ha Hb Hd. unfold tri_spat. rewrite !getv_map by assumption.
  generalize (getv Rops v a) (getv Rops v b) (getv Rops v d). intros p0 p1 p2.
  r3 p0; r3 p1; r3 p2. unfold vscaleR, vscale, dot, cross, vsub, vx, vy, vz. cbn. ring.
Qed.

(* the shape shared by both laws: if every per-triangle term is multiplied by c, so is the volume (and the 0 / ValueError
   branches do not look at the coordinates) *)
Lemma tria_volume_factor c v v' ts : (forall t, In t ts -> tri_spat Rops v' t = c * tri_spat Rops v t) ->
  forall x, tria_volume Rops v ts = Ok x -> tria_volume Rops v' ts = Ok (if is_closed ts then c * x else x).
Proof.
  intros H x. unfold tria_volume. destruct (is_closed ts) eqn:Hc; cbn [negb]; [|intros E; exact E].
  destruct (is_oriented ts) eqn:Ho; cbn [negb]; [|discriminate]. intros E. injection E as <-. f_equal.
  rewrite !sumK_Rsum, !Rsum_map.
  set (S' := Rsum (fun x : tri => tri_spat Rops v' x) ts). set (S := Rsum (fun x : tri => tri_spat Rops v x) ts).
  assert (HS : S' = c * S).
  { unfold S', S. rewrite <- Rsum_scal. apply Rsum_ext. exact H. }
  rewrite HS. cbn [div mul ofZ Rops]. field.
Qed.
Lemma tria_volume_err v v' ts e : tria_volume Rops v ts = Err e -> tria_volume Rops v' ts = Err e.
Proof.
  unfold tria_volume. destruct (is_closed ts); cbn [negb]; [|discriminate]. destruct (is_oriented ts); cbn [negb]; [discriminate|]. intros E; exact E.
Qed.

Theorem tria_volume_scales_with_cube s v ts : tris_in_range (length v) ts ->
  forall x, tria_volume Rops v ts = Ok x -> tria_volume Rops (map (vscaleR s) v) ts = Ok (s * s * s * x).
Proof.
  intros Hr x E. rewrite (tria_volume_factor (s * s * s) v _ ts) with (x := x); [|
    intros [[a b] d] Hin; unfold tris_in_range in Hr; rewrite Forall_forall in Hr; specialize (Hr _ Hin); cbn in Hr; destruct Hr as (Ha & Hb & Hd);
    apply tri_spat_scale; assumption | exact E].
  destruct (is_closed ts) eqn:Hc; [reflexivity|]. f_equal.
  unfold tria_volume in E. rewrite Hc in E. cbn [negb] in E. injection E as <-. cbn [zero Rops]. ring.
Qed.

Theorem tria_volume_linear_map M v ts : tris_in_range (length v) ts ->
  forall x, tria_volume Rops v ts = Ok x -> tria_volume Rops (map (mapply M) v) ts = Ok (det3 M * x).
Proof.
  intros Hr x E. rewrite (tria_volume_factor (det3 M) v _ ts) with (x := x); [|
    intros [[a b] d] Hin; unfold tris_in_range in Hr; rewrite Forall_forall in Hr; specialize (Hr _ Hin); cbn in Hr; destruct Hr as (Ha & Hb & Hd);
    apply tri_spat_linear; assumption | exact E].
  destruct (is_closed ts) eqn:Hc; [reflexivity|]. f_equal.
  unfold tria_volume in E. rewrite Hc in E. cbn [negb] in E. injection E as <-. cbn [zero Rops]. ring.
Qed.

Lemma rigid_is_translate_of_linear Q b v : map (rigid Q b) v = translate b (map (mapply Q) v).
Proof. unfold translate. rewrite map_map. reflexivity. Qed.

(* rigid motion: volume is multiplied by det Q (= 1 for rotations, -1 for reflections) *)
Theorem tria_volume_rigid Q b v ts : Forall distinct_tri ts -> tris_in_range (length v) ts ->
  forall x, tria_volume Rops v ts = Ok x -> tria_volume Rops (map (rigid Q b) v) ts = Ok (det3 Q * x).
Proof.
  intros Hd Hr x E. rewrite rigid_is_translate_of_linear, tria_volume_translation_invariant; [|exact Hd|rewrite map_length; exact Hr].
  apply tria_volume_linear_map; assumption.
Qed.
Theorem tria_volume_rotation_invariant Q b v ts : det3 Q = 1 -> Forall distinct_tri ts -> tris_in_range (length v) ts ->
  forall x, tria_volume Rops v ts = Ok x -> tria_volume Rops (map (rigid Q b) v) ts = Ok x.
Proof. intros HQ Hd Hr x E. rewrite (tria_volume_rigid Q b v ts Hd Hr x E), HQ. f_equal. ring. Qed.
Theorem tria_volume_rigid_err Q b v ts e : tria_volume Rops v ts = Err e -> tria_volume Rops (map (rigid Q b) v) ts = Err e.
Proof. apply tria_volume_err. Qed.

(* an orthogonal matrix has det^2 = 1, so "multiplied by det Q" means: kept or negated *)
Lemma orthogonal_det_sq Q : orthogonal Q -> det3 Q * det3 Q = 1.
Proof.
  destruct Q as [[r1 r2] r3]. r3 r1; r3 r2; r3 r3. unfold orthogonal, det3, dot, cross, vx, vy, vz. cbn [fst snd add sub mul Rops].
  intros (H1 & H2 & H3 & H4 & H5 & H6). nsatz.
Qed.

(* non-vacuity: the unit tetrahedron surface (volume 1/6), doubled: 8/6; turned a quarter about z and moved: 1/6 *)
Definition quarter_z : mat3 := ((0, -1, 0), (1, 0, 0), (0, 0, 1)).
Lemma volume_scale_example : tria_volume Rops (map (vscaleR 2) vt_v) vt_ts = Ok (2 * 2 * 2 * (1 / 6)) /\
  orthogonal quarter_z /\ det3 quarter_z = 1 /\ tria_volume Rops (map (rigid quarter_z (5, -3, 2)) vt_v) vt_ts = Ok (1 / 6).
Proof.
  destruct volume_example as (_ & _ & E & _).
  assert (Hd : Forall distinct_tri vt_ts) by (unfold vt_ts; repeat (apply Forall_cons; [cbn; repeat split; discriminate|]); apply Forall_nil).
  assert (Hr : tris_in_range (length vt_v) vt_ts) by (unfold tris_in_range, vt_ts, vt_v; cbn [length]; repeat (apply Forall_cons; [repeat split; lia|]); apply Forall_nil).
  assert (HD : det3 quarter_z = 1) by (unfold det3, quarter_z, dot, cross, vx, vy, vz; cbn; ring).
  split; [apply tria_volume_scales_with_cube; assumption|]. split; [|split; [exact HD|]].
  - unfold orthogonal, quarter_z, vx, vy, vz. cbn. repeat split; ring.
  - apply tria_volume_rotation_invariant; assumption.
Qed.
