(* Proofs/OrientCorrectP.v -- orient_ terminates on every orientable edge-manifold mesh in which each triangle has an inner edge,
   and its result is consistently oriented (C10). *)
From Coq Require Import List Arith Bool PeanoNat Lia ZArith Permutation Sorted Reals Lra.
From LaPyV Require Import Base.Scalar Base.Vec3 Base.ListAux Model.TetMesh Model.TriaAdj Model.TriaOrient Proofs.SortP Proofs.TriaAdjP
  Proofs.TetMeshP Proofs.TriaOrientP Proofs.FloodP Proofs.OrientPairP.
Import ListNotations.
Close Scope R_scope.

Definition flipped (ts : list tri) (flags : list bool) : list tri :=
  map (fun '(t, f) => if (f : bool) then flip01 t else t) (combine ts flags).
Definition sgb (b : bool) : Z := if b then (-1)%Z else 1%Z.

Lemma flipped_nth : forall ts flags k t, length flags = length ts -> nth_error ts k = Some t ->
  nth_error (flipped ts flags) k = Some (if nth k flags false then flip01 t else t).
Proof.
  induction ts as [|t0 ts IH]; intros [|f fl] k t Hl Hn; cbn [length] in Hl; try discriminate; destruct k as [|k]; try discriminate.
  - cbn in Hn. inversion Hn; subst. reflexivity.
  - cbn [nth_error] in Hn. unfold flipped. cbn [combine map nth_error nth]. apply IH; [lia|exact Hn].
Qed.
Lemma flipped_length ts flags : length flags = length ts -> length (flipped ts flags) = length ts.
Proof. intros H. unfold flipped. rewrite map_length, combine_length, H. apply Nat.min_id. Qed.
Lemma tri_hedge_flip01 t i j : tri_hedge (flip01 t) i j = tri_hedge t j i.
Proof.
  destruct t as [[a b] c]. unfold flip01, tri_hedge.
  destruct (Nat.eqb a i), (Nat.eqb b i), (Nat.eqb c i), (Nat.eqb a j), (Nat.eqb b j), (Nat.eqb c j); reflexivity.
Qed.
Lemma distinct_flip01 t : distinct_tri t -> distinct_tri (flip01 t).
Proof. destruct t as [[a b] c]. cbn. intros (H1 & H2 & H3). repeat split; congruence. Qed.
Lemma flipped_distinct : forall ts flags, Forall distinct_tri ts -> Forall distinct_tri (flipped ts flags).
Proof.
  induction ts as [|t ts IH]; intros [|f fl] H; try constructor.
  - inversion H; subst. destruct f; [apply distinct_flip01|]; assumption.
  - inversion H; subst. apply IH. assumption.
Qed.
Lemma tri_hedge_distinct t i j : distinct_tri t -> tri_hedge t i j = true -> i <> j.
Proof. destruct t as [[a b] c]. intros (H1 & H2 & H3) H. apply tri_hedge_iff in H. intros ->. destruct H as [[? ?]|[[? ?]|[? ?]]]; congruence. Qed.
Lemma tri_hedge_both t i j : distinct_tri t -> tri_hedge t i j = true -> tri_hedge t j i = true -> False.
Proof.
  destruct t as [[a b] c]. intros (H1 & H2 & H3) Ha Hb. apply tri_hedge_iff in Ha, Hb.
  destruct Ha as [[? ?]|[[? ?]|[? ?]]], Hb as [[? ?]|[[? ?]|[? ?]]]; congruence.
Qed.
Lemma tri_hedge_has t i j : tri_hedge t i j = true -> tri_has t i = true /\ tri_has t j = true.
Proof.
  destruct t as [[a b] c]. intros H. apply tri_hedge_iff in H. unfold tri_has.
  destruct H as [[-> ->]|[[-> ->]|[-> ->]]]; rewrite !Nat.eqb_refl, ?orb_true_r; auto.
Qed.

Lemma count_pos_two {A} (p : A -> bool) : forall l k1 k2 x1 x2, k1 <> k2 -> nth_error l k1 = Some x1 -> nth_error l k2 = Some x2 ->
  p x1 = true -> p x2 = true -> count_if p l >= 2.
Proof.
  induction l as [|x l IH]; intros k1 k2 x1 x2 Hne H1 H2 P1 P2; [destruct k1; discriminate|].
  rewrite count_if_cons. destruct k1 as [|k1], k2 as [|k2]; [congruence| | |].
  - cbn in H1. inversion H1; subst. rewrite P1. cbn [nth_error] in H2. apply nth_error_In in H2.
    assert (count_if p l >= 1) by (apply count_if_pos_iff; exists x2; auto). lia.
  - cbn in H2. inversion H2; subst. rewrite P2. cbn [nth_error] in H1. apply nth_error_In in H1.
    assert (count_if p l >= 1) by (apply count_if_pos_iff; exists x1; auto). lia.
  - cbn [nth_error] in H1, H2. specialize (IH k1 k2 x1 x2 ltac:(lia) H1 H2 P1 P2). lia.
Qed.
Lemma count_ge2_pos {A} (p : A -> bool) : forall l, count_if p l >= 2 ->
  exists k1 k2 x1 x2, k1 <> k2 /\ nth_error l k1 = Some x1 /\ nth_error l k2 = Some x2 /\ p x1 = true /\ p x2 = true.
Proof.
  induction l as [|x l IH]; intros H; [cbn in H; lia|]. rewrite count_if_cons in H. destruct (p x) eqn:Px.
  - assert (H1 : count_if p l >= 1) by lia. apply count_if_pos_iff in H1. destruct H1 as (y & Hy & Py).
    apply In_nth_error in Hy. destruct Hy as (k & Hk). exists 0, (S k), x, y. repeat split; auto.
  - destruct (IH ltac:(lia)) as (k1 & k2 & x1 & x2 & Hne & H1 & H2 & P1 & P2). exists (S k1), (S k2), x1, x2. repeat split; auto.
Qed.
Lemma count_two_other {A} (p : A -> bool) l x : NoDup l -> In x l -> p x = true -> count_if p l = 2 -> exists y, In y l /\ y <> x /\ p y = true.
Proof.
  intros Hnd. induction l as [|z l IH]; intros Hx Px Hc; [contradiction|].
  inversion Hnd as [|? ? Hz Hnd']; subst. rewrite count_if_cons in Hc. destruct Hx as [->|Hx].
  - rewrite Px in Hc. assert (H1 : count_if p l >= 1) by lia. apply count_if_pos_iff in H1. destruct H1 as (y & Hy & Py).
    exists y. split; [right; exact Hy|]. split; [intros ->; contradiction|exact Py].
  - destruct (p z) eqn:Pz.
    + exists z. split; [left; reflexivity|]. split; [intros ->; contradiction|exact Pz].
    + destruct (IH Hnd' Hx Px ltac:(lia)) as (y & Hy & Hne & Py). exists y. split; [right; exact Hy|auto].
Qed.

Lemma tri_count_comm ts i j : tri_count ts i j = tri_count ts j i.
Proof. unfold tri_count, count_if. f_equal. apply filter_ext. intros t. apply andb_comm. Qed.

(* ------------------------------------------------------------------ rows and half-edges of the mesh *)
Section Mesh.
  Context (ts : list tri).
  Context (Hd : Forall distinct_tri ts).

  Lemma nth_distinct k t : nth_error ts k = Some t -> distinct_tri t.
  Proof. intros H. apply nth_error_In in H. rewrite Forall_forall in Hd. apply Hd. exact H. Qed.

  (* triangle k traverses x -> y  iff  the table has the row (min, max, k, x < y) *)
  Lemma hedge_row k t x y : nth_error ts k = Some t -> tri_hedge t x y = true ->
    In (Nat.min x y, Nat.max x y, k, Nat.ltb x y) (he_rows ts) /\ Nat.min x y < Nat.max x y.
  Proof.
    intros Hn Hh. assert (Ht := nth_distinct k t Hn). assert (Hxy := tri_hedge_distinct t x y Ht Hh).
    destruct (Nat.ltb_spec x y) as [L|L]; [rewrite Nat.min_l, Nat.max_r by lia|rewrite Nat.min_r, Nat.max_l by lia];
      (split; [|lia]); apply in_he_rows; exists k, t; (split; [exact Hn|]); (apply rows_of_iff; [exact Ht|]);
      (split; [reflexivity|]); (split; [lia|]); exact Hh.
  Qed.
  Lemma row_hedge r : In r (he_rows ts) -> exists i j k d t, r = (i, j, k, d) /\ i < j /\ nth_error ts k = Some t /\
    tri_hedge t (if d then i else j) (if d then j else i) = true.
  Proof.
    intros H. apply in_he_rows in H. destruct H as (k & t & Hn & Hr). destruct r as [[[i j] k'] d].
    apply rows_of_iff in Hr; [|apply (nth_distinct k t Hn)]. destruct Hr as (-> & Hij & Hh).
    exists i, j, k, d, t. auto.
  Qed.
  Lemma row_key_count r : In r (he_rows ts) -> key_count (he_rows ts) (he_key r) = tri_count ts (fst (he_key r)) (snd (he_key r)).
  Proof.
    intros H. destruct (row_hedge r H) as (i & j & k & d & t & -> & Hij & _). cbn [he_key fst snd]. apply he_rows_count; assumption.
  Qed.
  Lemma row_tri_lt r : In r (he_rows ts) -> he_tri r < length ts.
  Proof. intros H. destruct (row_hedge r H) as (i & j & k & d & t & -> & _ & Hn & _). cbn [he_tri]. apply nth_error_Some. congruence. Qed.

  Definition manifold : Prop := forall i j, i <> j -> tri_count ts i j <= 2.
  Definition shares_edge : Prop := forall k t, nth_error ts k = Some t -> exists i j, tri_hedge t i j = true /\ tri_count ts i j = 2.
  Definition orientable : Prop := exists phi, length phi = length ts /\ forall i j, hedge_count (flipped ts phi) i j <= 1.

  Context (Hm : manifold).

  Lemma two_rows_count r1 r2 : In r1 (he_rows ts) -> In r2 (he_rows ts) -> r1 <> r2 -> he_key r1 = he_key r2 ->
    key_count (he_rows ts) (he_key r1) = 2.
  Proof.
    intros H1 H2 Hne Hk.
    assert (G : key_count (he_rows ts) (he_key r1) >= 2).
    { rewrite key_count_same. apply (count_if_two _ _ r1 r2); auto using he_rows_nodup; apply same_key_iff; auto. }
    rewrite (row_key_count r1 H1) in *. destruct (row_hedge r1 H1) as (i & j & k & d & t & -> & Hij & _). cbn [he_key fst snd] in *.
    assert (L := Hm i j ltac:(lia)). lia.
  Qed.

  (* two different rows with the same key belong to different triangles *)
  Lemma same_key_tri r1 r2 : In r1 (he_rows ts) -> In r2 (he_rows ts) -> r1 <> r2 -> he_key r1 = he_key r2 -> he_tri r1 <> he_tri r2.
  Proof.
    intros H1 H2 Hne Hk Ht.
    destruct (row_hedge r1 H1) as (i & j & k1 & d1 & t1 & -> & Hij & Hn1 & Hh1).
    destruct (row_hedge r2 H2) as (i' & j' & k2 & d2 & t2 & -> & _ & Hn2 & Hh2).
    cbn [he_key he_tri] in Hk, Ht. inversion Hk; subst i' j' k2. rewrite Hn1 in Hn2. inversion Hn2; subst t2.
    assert (Hdd : d1 <> d2) by (intros ->; apply Hne; reflexivity).
    assert (Hdt := nth_distinct _ _ Hn1).
    destruct d1, d2; try congruence; [apply (tri_hedge_both t1 i j)|apply (tri_hedge_both t1 j i)]; assumption.
  Qed.

  (* ---- orientation of the mesh after flipping the triangles selected by [flags], read off the rows *)
  Lemma flipped_row_dir flags i j k d : length flags = length ts -> In (i, j, k, d) (he_rows ts) ->
    exists t', nth_error (flipped ts flags) k = Some t' /\
               tri_hedge t' (if xorb d (nth k flags false) then i else j) (if xorb d (nth k flags false) then j else i) = true.
  Proof.
    intros Hl Hr.
    destruct (row_hedge _ Hr) as (i0 & j0 & k0 & d0 & t0 & E0 & Hij & Hn0 & Hh). inversion E0; subst i0 j0 k0 d0.
    eexists. split; [apply flipped_nth; [exact Hl|exact Hn0]|].
    destruct (nth k flags false); [rewrite tri_hedge_flip01|]; destruct d; cbn [xorb negb]; exact Hh.
  Qed.

  (* if the mesh flipped by [flags] is oriented, every entry carries the product of the two signs *)
  Lemma oriented_entry_sign flags x y s : length flags = length ts -> (forall i j, hedge_count (flipped ts flags) i j <= 1) ->
    In (x, y, s) (nb_entries ts) -> s = (sgb (nth x flags false) * sgb (nth y flags false))%Z /\ x <> y /\ x < length ts /\ y < length ts.
  Proof.
    intros Hl Ho Hin. destruct (entry_rows ts Hd x y s Hin) as (rx & ry & Hx & Hy & Hne & Hk & Hc & -> & -> & ->).
    assert (Hxy := same_key_tri rx ry Hx Hy Hne Hk).
    split; [|split; [exact Hxy|split; apply row_tri_lt; assumption]].
    destruct (row_hedge rx Hx) as (i & j & kx & dx & tx & Ex & Hij & Hnx & _).
    destruct (row_hedge ry Hy) as (i' & j' & ky & dy & ty & Ey & _ & Hny & _). subst rx ry.
    cbn [he_key he_tri he_dir] in *. inversion Hk; subst i' j'.
    destruct (flipped_row_dir flags i j kx dx Hl Hx) as (tx' & Hnx' & Hhx).
    destruct (flipped_row_dir flags i j ky dy Hl Hy) as (ty' & Hny' & Hhy).
    unfold sgn_of. cbn [he_dir].
    set (fx := nth kx flags false) in *. set (fy := nth ky flags false) in *.
    destruct (Bool.bool_dec (xorb dx fx) (xorb dy fy)) as [E|E].
    - exfalso. rewrite E in Hhx.
      assert (G : hedge_count (flipped ts flags) (if xorb dy fy then i else j) (if xorb dy fy then j else i) >= 2).
      { unfold hedge_count. apply (count_pos_two _ _ kx ky tx' ty'); assumption. }
      specialize (Ho (if xorb dy fy then i else j) (if xorb dy fy then j else i)). lia.
    - destruct dx, dy, fx, fy; cbn in E |- *; try reflexivity; exfalso; apply E; reflexivity.
  Qed.
End Mesh.

Lemma nb_sym_in ts a b s : In (a, b, s) (nb_sym ts) <-> In (a, b, s) (nb_entries ts) \/ In (b, a, s) (nb_entries ts).
Proof.
  unfold nb_sym. rewrite in_app_iff, in_map_iff. split.
  - intros [H|([[a' b'] s'] & E & H)]; [left; exact H|right]. inversion E; subst. exact H.
  - intros [H|H]; [left; exact H|right]. exists (b, a, s). auto.
Qed.
Lemma tdim_in : forall e a b s, In (a, b, s) e -> a < tdim_of e /\ b < tdim_of e.
Proof.
  unfold tdim_of. induction e as [|[[a' b'] s'] e IH]; intros a b s H; [contradiction|]. cbn [fold_right].
  destruct H as [H|H]; [inversion H; subst; lia|]. specialize (IH a b s H). lia.
Qed.
Lemma tdim_bound : forall e L, 0 < L -> (forall a b s, In (a, b, s) e -> a < L /\ b < L) -> tdim_of e <= L.
Proof.
  unfold tdim_of. induction e as [|[[a' b'] s'] e IH]; intros L HL H; cbn [fold_right]; [lia|].
  specialize (IH L HL (fun a b s Hin => H a b s (or_intror Hin))). destruct (H a' b' s' (or_introl eq_refl)). lia.
Qed.

Lemma flipped_hedge_row ts k t (f : bool) i j : Forall distinct_tri ts -> nth_error ts k = Some t ->
  tri_hedge (if f then flip01 t else t) i j = true ->
  In (Nat.min i j, Nat.max i j, k, xorb (Nat.ltb i j) f) (he_rows ts) /\ i <> j.
Proof.
  intros Hd Hn Hh. destruct f.
  - rewrite tri_hedge_flip01 in Hh. destruct (hedge_row ts Hd k t j i Hn Hh) as [Hr Hlt].
    assert (Hij : i <> j) by (intros ->; lia). split; [|exact Hij].
    rewrite Nat.min_comm, Nat.max_comm in Hr.
    replace (xorb (Nat.ltb i j) true) with (Nat.ltb j i); [exact Hr|].
    destruct (Nat.ltb_spec i j), (Nat.ltb_spec j i); cbn; try reflexivity; lia.
  - destruct (hedge_row ts Hd k t i j Hn Hh) as [Hr Hlt]. split; [|intros ->; lia]. rewrite xorb_false_r. exact Hr.
Qed.

Theorem stage1_oriented ts : Forall distinct_tri ts -> ts <> [] -> manifold ts -> shares_edge ts -> orientable ts ->
  exists ts1 fl, orient_stage1 ts = Ok (ts1, fl) /\ is_oriented ts1 = true.
Proof.
  intros Hd Hne Hm Hs (phi & Hlphi & Hphi).
  unfold orient_stage1. destruct (is_oriented ts) eqn:O; [exists ts, 0; auto|].
  assert (HL : 0 < length ts) by (destruct ts; [congruence|cbn; lia]).
  assert (Hrow_of_tri : forall k, k < length ts ->
            exists r, In r (he_rows ts) /\ he_tri r = k /\ key_count (he_rows ts) (he_key r) = 2).
  { intros k Hk. destruct (nth_error ts k) as [t|] eqn:Hn; [|apply nth_error_None in Hn; lia].
    destruct (Hs k t Hn) as (i & j & Hh & Hc).
    destruct (hedge_row ts Hd k t i j Hn Hh) as [Hr Hlt].
    eexists. split; [exact Hr|]. split; [reflexivity|]. cbn [he_key]. rewrite he_rows_count by assumption.
    destruct (Nat.le_ge_cases i j); [rewrite Nat.min_l, Nat.max_r by lia|rewrite Nat.min_r, Nat.max_l by lia; rewrite tri_count_comm]; exact Hc. }
  assert (C : counts_ok (he_rows ts) = true).
  { unfold counts_ok. apply andb_true_iff. split.
    - apply forallb_forall. intros r Hr. apply Nat.leb_le. rewrite (row_key_count ts Hd r Hr).
      destruct (row_hedge ts Hd r Hr) as (i & j & k & d & t & -> & Hij & _). cbn [he_key fst snd]. apply Hm. lia.
    - apply existsb_exists. destruct (Hrow_of_tri 0 HL) as (r & Hr & _ & Hc). exists r. split; [exact Hr|apply Nat.eqb_eq; exact Hc]. }
  rewrite C. cbn [negb].
  set (e := nb_sym ts). set (n := tdim_of e).
  assert (Hent : forall a b s, In (a, b, s) e ->
            s = (sgb (nth a phi false) * sgb (nth b phi false))%Z /\ a <> b /\ a < length ts /\ b < length ts).
  { intros a b s H. apply nb_sym_in in H. destruct H as [H|H];
      apply (oriented_entry_sign ts Hd phi _ _ _ Hlphi Hphi) in H; destruct H as (Es & Hab & Ha & Hb); repeat split; auto.
    rewrite Es. ring. }
  assert (En : n = length ts).
  { apply Nat.le_antisymm.
    - apply tdim_bound; [exact HL|]. intros a b s H. apply Hent in H. tauto.
    - destruct (Hrow_of_tri (length ts - 1) ltac:(lia)) as (r & Hr & Ht & Hc).
      destruct (count_two_other (same_key r) (he_rows ts) r) as (r' & Hr' & Hne' & Sk);
        [apply he_rows_nodup; exact Hd|exact Hr|apply same_key_iff; reflexivity|rewrite <- key_count_same; exact Hc|].
      apply same_key_iff in Sk.
      assert (G : exists b s, In (he_tri r, b, s) e).
      { destruct (rows_entry ts Hd r r' Hr Hr' ltac:(congruence) ltac:(congruence) Hc) as [H|H];
          eexists; eexists; apply nb_sym_in; [left|right]; exact H. }
      destruct G as (b & s & G). apply tdim_in in G. fold n in G. lia. }
  destruct (flood_correct e n (fun a => sgb (nth a phi false))) as (v & kap & F & Hlv & [Hk1 Hk2] & Hv).
  { intros a. unfold sgb. destruct (nth a phi false); auto. }
  { intros a b s H. apply nb_sym_in in H. apply nb_sym_in. tauto. }
  { intros a b s H. apply Hent in H. rewrite En. tauto. }
  { lia. }
  rewrite F, En, Nat.eqb_refl. cbn [negb].
  eexists. eexists. split; [reflexivity|].
  set (flags := map (fun x : option Z => match x with Some z => Z.ltb z 0 | None => false end) v).
  assert (Hlf : length flags = length ts) by (unfold flags; rewrite map_length; congruence).
  change (is_oriented (flipped ts flags) = true).
  assert (Hflag : forall k, k < length ts -> exists m, (m > 0)%Z /\
            nth k flags false = Z.ltb (m * (sgb (nth k phi false) * kap k)) 0).
  { intros k Hk. destruct (Hv k ltac:(lia)) as (x & m & Ex & Hm0 & ->). exists m. split; [exact Hm0|].
    unfold flags. change false with ((fun x : option Z => match x with Some z => Z.ltb z 0 | None => false end) None).
    rewrite map_nth. unfold val in Ex. rewrite Ex. reflexivity. }
  apply is_oriented_iff; [apply flipped_distinct; exact Hd| |].
  { intros E. apply (f_equal (@length _)) in E. rewrite flipped_length in E by exact Hlf. cbn in E. lia. }
  intros i j. destruct (Nat.le_gt_cases (hedge_count (flipped ts flags) i j) 1) as [L|G]; [exact L|exfalso].
  destruct (count_ge2_pos _ _ G) as (k1 & k2 & t1' & t2' & Hne12 & N1 & N2 & P1 & P2).
  assert (Hk1lt : k1 < length ts) by (rewrite <- (flipped_length ts flags Hlf); apply nth_error_Some; congruence).
  assert (Hk2lt : k2 < length ts) by (rewrite <- (flipped_length ts flags Hlf); apply nth_error_Some; congruence).
  destruct (nth_error ts k1) as [t1|] eqn:M1; [|apply nth_error_None in M1; lia].
  destruct (nth_error ts k2) as [t2|] eqn:M2; [|apply nth_error_None in M2; lia].
  rewrite (flipped_nth ts flags k1 t1 Hlf M1) in N1. inversion N1; subst t1'.
  rewrite (flipped_nth ts flags k2 t2 Hlf M2) in N2. inversion N2; subst t2'.
  destruct (flipped_hedge_row ts k1 t1 _ i j Hd M1 P1) as [R1 Hij].
  destruct (flipped_hedge_row ts k2 t2 _ i j Hd M2 P2) as [R2 _].
  set (r1 := (Nat.min i j, Nat.max i j, k1, xorb (Nat.ltb i j) (nth k1 flags false))) in *.
  set (r2 := (Nat.min i j, Nat.max i j, k2, xorb (Nat.ltb i j) (nth k2 flags false))) in *.
  assert (Hr12 : r1 <> r2) by (unfold r1, r2; intros E; inversion E; congruence).
  assert (Hc := two_rows_count ts Hd Hm r1 r2 R1 R2 Hr12 eq_refl).
  assert (Hin : In (k1, k2, sgn_of r1 r2) e).
  { apply nb_sym_in. apply (rows_entry ts Hd r1 r2 R1 R2 Hr12 eq_refl Hc). }
  assert (Ekap := Hk2 _ _ _ Hin). apply Hent in Hin. destruct Hin as (Es & _).
  destruct (Hflag k1 Hk1lt) as (m1 & Hm1 & F1). destruct (Hflag k2 Hk2lt) as (m2 & Hm2 & F2).
  unfold sgn_of, r1, r2 in Es. cbn [he_dir] in Es. rewrite F1, F2, Ekap in Es.
  unfold sgb in Es.
  destruct (Nat.ltb i j), (nth k1 phi false), (nth k2 phi false), (Hk1 k2) as [K|K]; rewrite K in Es;
    repeat match type of Es with context [Z.ltb ?a 0] => destruct (Z.ltb_spec a 0) end; cbn in Es; lia.
Qed.

(* ------------------------------------------------------------------ the whole of orient_ *)
Lemma tri_hedge_flip12 t i j : tri_hedge (flip12 t) i j = tri_hedge t j i.
Proof.
  destruct t as [[a b] c]. unfold flip12, tri_hedge.
  destruct (Nat.eqb a i), (Nat.eqb b i), (Nat.eqb c i), (Nat.eqb a j), (Nat.eqb b j), (Nat.eqb c j); reflexivity.
Qed.
Lemma hedge_count_flip12 ts i j : hedge_count (map flip12 ts) i j = hedge_count ts j i.
Proof.
  unfold hedge_count. induction ts as [|t ts IH]; [reflexivity|]. cbn [map]. rewrite !count_if_cons, IH, tri_hedge_flip12. reflexivity.
Qed.
Lemma distinct_flip12 t : distinct_tri t -> distinct_tri (flip12 t).
Proof. destruct t as [[a b] c]. cbn. intros (H1 & H2 & H3). repeat split; congruence. Qed.
Lemma is_oriented_flip12 ts : Forall distinct_tri ts -> is_oriented ts = true -> is_oriented (map flip12 ts) = true.
Proof.
  intros Hd Ho. assert (Hne : ts <> []) by (intros ->; discriminate).
  apply is_oriented_iff.
  - rewrite Forall_forall in *. intros t Ht. apply in_map_iff in Ht. destruct Ht as (t0 & <- & Ht0). apply distinct_flip12. apply Hd. exact Ht0.
  - destruct ts; [congruence|discriminate].
  - intros i j. rewrite hedge_count_flip12. apply (proj1 (is_oriented_iff ts Hd Hne) Ho).
Qed.

Theorem orient_correct {K} (o : Ops K) v ts : Forall distinct_tri ts -> ts <> [] -> manifold ts -> shares_edge ts -> orientable ts ->
  exists ts' n, orient o v ts = Ok (ts', n) /\ is_oriented ts' = true.
Proof.
  intros Hd Hne Hm Hs Ho. destruct (stage1_oriented ts Hd Hne Hm Hs Ho) as (ts1 & fl & S1 & O1).
  unfold orient. rewrite S1. unfold tria_volume. rewrite O1. cbn [negb].
  assert (Hd1 : Forall distinct_tri ts1).
  { destruct (stage1_structure ts ts1 fl S1) as (flags & _ & -> & _). apply (flipped_distinct ts flags Hd). }
  destruct (is_closed ts1); cbn [negb];
    match goal with |- context [ltb o ?x ?y] => destruct (ltb o x y) end;
    eexists; eexists; (split; [reflexivity|]); try exact O1; apply is_oriented_flip12; assumption.
Qed.

Open Scope R_scope.
(* second call: nothing changes and 0 is returned *)
Theorem orient_idempotent v ts ts' n : Forall distinct_tri ts -> ts <> [] -> manifold ts -> shares_edge ts -> orientable ts ->
  orient Rops v ts = Ok (ts', n) -> orient Rops v ts' = Ok (ts', 0%nat).
Proof.
  intros Hd Hne Hm Hs Ho H.
  destruct (stage1_oriented ts Hd Hne Hm Hs Ho) as (ts1 & fl & S1 & O1).
  assert (Hd1 : Forall distinct_tri ts1).
  { destruct (stage1_structure ts ts1 fl S1) as (flags & _ & -> & _). apply (flipped_distinct ts flags Hd). }
  unfold orient in H. rewrite S1 in H. unfold tria_volume in H. rewrite O1 in H. cbn [negb] in H.
  destruct (is_closed ts1) eqn:C1; cbn [negb] in H.
  - cbn [ltb div ofZ zero Rops] in H.
    destruct (Rltb (sumK Rops (map (tri_spat Rops v) ts1) / 6) 0) eqn:L; inversion H; subst; clear H.
    + apply orient_fixed_point; [apply is_oriented_flip12; assumption|]. right.
      rewrite volume_sum_flip_all. apply Rltb_true in L. lra.
    + apply orient_fixed_point; [exact O1|]. right. apply Rltb_false in L. lra.
  - cbn [ltb zero Rops] in H. destruct (Rltb 0 0) eqn:L; [apply Rltb_true in L; lra|].
    inversion H; subst. apply orient_fixed_point; [exact O1|left; exact C1].
Qed.
Close Scope R_scope.

(* ------------------------------------------------------------------ the hypotheses are decidable: boolean forms *)
Definition shares_edge_b (ts : list tri) : bool :=
  forallb (fun t => existsb (fun k => Nat.eqb (tri_count ts (fst k) (snd k)) 2) (hedges1 t)) ts.
Lemma shares_edge_b_ok ts : shares_edge_b ts = true -> shares_edge ts.
Proof.
  unfold shares_edge_b. rewrite forallb_forall. intros H k t Hn. apply nth_error_In in Hn. specialize (H t Hn).
  apply existsb_exists in H. destruct H as ([i j] & Hin & Hc). cbn [fst snd] in Hc. apply Nat.eqb_eq in Hc.
  exists i, j. split; [|exact Hc]. destruct t as [[a b] c]. cbn [hedges1 In] in Hin. apply tri_hedge_iff.
  destruct Hin as [E|[E|[E|[]]]]; inversion E; subst; auto.
Qed.
Lemma manifold_b_ok ts : Forall distinct_tri ts -> is_manifold ts = true -> manifold ts.
Proof. intros Hd H. exact (proj1 (is_manifold_iff ts Hd) H). Qed.
Lemma orientable_b_ok ts phi : Forall distinct_tri ts -> ts <> [] -> length phi = length ts ->
  is_oriented (flipped ts phi) = true -> orientable ts.
Proof.
  intros Hd Hne Hl H. exists phi. split; [exact Hl|].
  assert (Hne' : flipped ts phi <> []).
  { intros E. apply (f_equal (@length _)) in E. rewrite flipped_length in E by exact Hl. destruct ts; [congruence|discriminate]. }
  exact (proj1 (is_oriented_iff _ (flipped_distinct ts phi Hd) Hne') H).
Qed.
Definition distinct_b (ts : list tri) : bool :=
  forallb (fun '(a, b, c) => negb (Nat.eqb a b) && negb (Nat.eqb b c) && negb (Nat.eqb c a)) ts.
Lemma distinct_b_ok ts : distinct_b ts = true -> Forall distinct_tri ts.
Proof.
  unfold distinct_b. rewrite forallb_forall, Forall_forall. intros H [[a b] c] Hin. specialize (H _ Hin). cbn in H.
  apply andb_true_iff in H. destruct H as [H H3]. apply andb_true_iff in H. destruct H as [H1 H2].
  apply negb_true_iff, Nat.eqb_neq in H1, H2, H3. cbn. auto.
Qed.

(* ------------------------------------------------------------------ closed meshes: the result encloses a non-negative volume *)
Lemma tri_has_flip01 t i : tri_has (flip01 t) i = tri_has t i.
Proof. destruct t as [[a b] c]. unfold flip01, tri_has. destruct (Nat.eqb a i), (Nat.eqb b i), (Nat.eqb c i); reflexivity. Qed.
Lemma tri_count_flipped : forall ts flags i j, length flags = length ts -> tri_count (flipped ts flags) i j = tri_count ts i j.
Proof.
  unfold tri_count. induction ts as [|t ts IH]; intros [|f fl] i j Hl; cbn [length] in Hl; try discriminate; [reflexivity|].
  unfold flipped. cbn [combine map]. fold (flipped ts fl). rewrite !count_if_cons, (IH fl i j ltac:(lia)).
  destruct f; rewrite ?tri_has_flip01; reflexivity.
Qed.
Lemma is_closed_flipped ts flags : Forall distinct_tri ts -> length flags = length ts -> is_closed (flipped ts flags) = is_closed ts.
Proof.
  intros Hd Hl. apply eq_true_iff_eq. rewrite (is_closed_iff _ (flipped_distinct ts flags Hd)), (is_closed_iff ts Hd).
  split; intros H i j Hij; [rewrite <- (tri_count_flipped ts flags i j Hl)|rewrite (tri_count_flipped ts flags i j Hl)]; apply H; exact Hij.
Qed.

Open Scope R_scope.
Theorem orient_closed_volume_nonneg v ts ts' n : Forall distinct_tri ts -> ts <> [] -> manifold ts -> shares_edge ts -> orientable ts ->
  is_closed ts = true -> orient Rops v ts = Ok (ts', n) -> 0 <= sumK Rops (map (tri_spat Rops v) ts') / 6.
Proof.
  intros Hd Hne Hm Hs Ho Hc H.
  destruct (stage1_oriented ts Hd Hne Hm Hs Ho) as (ts1 & fl & S1 & O1).
  destruct (stage1_structure ts ts1 fl S1) as (flags & Hl & E1 & _).
  assert (C1 : is_closed ts1 = true) by (rewrite E1; change (is_closed (flipped ts flags) = true); rewrite is_closed_flipped; assumption).
  unfold orient in H. rewrite S1 in H. unfold tria_volume in H. rewrite C1, O1 in H. cbn [negb ltb div ofZ zero Rops] in H.
  destruct (Rltb (sumK Rops (map (tri_spat Rops v) ts1) / 6) 0) eqn:L; inversion H; subst; clear H.
  - rewrite volume_sum_flip_all. apply Rltb_true in L. lra.
  - apply Rltb_false in L. lra.
Qed.
Close Scope R_scope.
