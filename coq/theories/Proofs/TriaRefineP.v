(* Proofs/TriaRefineP.v -- theorems about the refine_ model (C11). *)
From Coq Require Import List Arith Bool PeanoNat Permutation Lia Reals Lra.
From LaPyV Require Import Base.Scalar Base.Vec3 Base.ListAux Model.TetMesh Model.TriaAdj Model.TriaRefine
  Proofs.SortP Proofs.TetMeshP Proofs.TriaAdjP.
Import ListNotations.
Close Scope R_scope.

(* ------------------------------------------------------------------ counts, prefix, iteration *)
Theorem refine1_vertices {K} (o : Ops K) v ts :
  fst (refine1 o (v, ts)) = v ++ map (midpoint o v) (edge_list ts).
Proof. reflexivity. Qed.

Theorem refine1_keeps_old_vertices {K} (o : Ops K) v ts i : i < length v ->
  nth_error (fst (refine1 o (v, ts))) i = nth_error v i.
Proof. intros H. cbn [refine1 fst]. apply nth_error_app1. exact H. Qed.

Theorem refine1_new_vertex_is_midpoint {K} (o : Ops K) v ts k e : nth_error (edge_list ts) k = Some e ->
  nth_error (fst (refine1 o (v, ts))) (length v + k) = Some (midpoint o v e).
Proof.
  intros H. cbn [refine1 fst]. rewrite nth_error_app2 by lia.
  replace (length v + k - length v) with k by lia. rewrite nth_error_map, H. reflexivity.
Qed.

Theorem refine1_vertex_count {K} (o : Ops K) v ts :
  length (fst (refine1 o (v, ts))) = length v + length (edge_list ts).
Proof. cbn [refine1 fst]. rewrite app_length, map_length. reflexivity. Qed.

Theorem refine1_triangle_count {K} (o : Ops K) v ts : length (snd (refine1 o (v, ts))) = 4 * length ts.
Proof.
  cbn [refine1 snd].
  assert (L : forall t0, length (children (length v) (edge_list ts) t0) = 4) by (intros [[a b] c]; reflexivity).
  revert L. generalize (children (length v) (edge_list ts)). intros ch L.
  induction ts as [|t l IH]; [reflexivity|].
  cbn [flat_map]. rewrite app_length, IH, L. cbn [length]. lia.
Qed.

(* the four children of the k-th parent occupy positions 4k .. 4k+3 *)
Theorem refine1_children_of_parent {K} (o : Ops K) v ts k t : nth_error ts k = Some t ->
  firstn 4 (skipn (4 * k) (snd (refine1 o (v, ts)))) = children (length v) (edge_list ts) t.
Proof.
  cbn [refine1 snd].
  assert (L : forall t0, length (children (length v) (edge_list ts) t0) = 4) by (intros [[a b] c]; reflexivity).
  revert L. generalize (children (length v) (edge_list ts)). intros ch L.
  revert k. induction ts as [|t0 l IH]; intros k H; [destruct k; discriminate|].
  destruct k as [|k]; cbn in H.
  - inversion H; subst. replace (4 * 0) with 0 by lia. cbn [flat_map skipn]. rewrite firstn_app, (L t), Nat.sub_diag, firstn_O, app_nil_r.
    apply firstn_all2. rewrite L. lia.
  - cbn [flat_map]. replace (4 * S k) with (length (ch t0) + 4 * k) by (rewrite L; lia).
    rewrite skipn_app, skipn_all2 by lia. cbn [app].
    replace (length (ch t0) + 4 * k - length (ch t0)) with (4 * k) by lia. apply IH. exact H.
Qed.

Theorem refine_zero {K} (o : Ops K) m : refine o 0 m = m.
Proof. reflexivity. Qed.
Theorem refine_succ {K} (o : Ops K) it m : refine o (S it) m = refine o it (refine1 o m).
Proof. reflexivity. Qed.
Theorem refine_iter {K} (o : Ops K) a b m : refine o (a + b) m = refine o b (refine o a m).
Proof. revert m. induction a as [|a IH]; intros m; [reflexivity|]. cbn [Nat.add refine]. apply IH. Qed.

(* ------------------------------------------------------------------ one new vertex per unordered edge *)
Lemma edge_list_nodup ts : NoDup (edge_list ts).
Proof. unfold edge_list. apply NoDup_filter, unique_pairs_nodup. Qed.

Lemma ukey_lt a b : a <> b -> fst (ukey a b) < snd (ukey a b).
Proof. intros H. unfold ukey. destruct (Nat.ltb_spec a b); cbn; lia. Qed.
Lemma ukey_sym a b : ukey a b = ukey b a.
Proof. unfold ukey. destruct (Nat.ltb_spec a b), (Nat.ltb_spec b a); try reflexivity; try lia. assert (a = b) by lia. subst. reflexivity. Qed.

Lemma sym1_in_both t a b : In (a, b) (sym1 t) -> In (b, a) (sym1 t).
Proof.
  destruct t as [[x y] z]. cbn. intros H.
  repeat (destruct H as [H|H]; [inversion H; subst; tauto|]). destruct H.
Qed.

(* every edge of every triangle is in the edge list, as (min,max) *)
Lemma edge_in_list ts t a b : In t ts -> In (a, b) (sym1 t) -> a <> b -> In (ukey a b) (edge_list ts).
Proof.
  intros Ht Hab Hne. unfold edge_list. apply filter_In. split.
  - apply unique_pairs_in. unfold sym_keys. apply in_flat_map. exists t. split; [assumption|].
    unfold ukey. destruct (Nat.ltb a b); [assumption|apply sym1_in_both; assumption].
  - apply Nat.ltb_lt. apply ukey_lt. assumption.
Qed.

Lemma index_of_spec k l : forall s i, index_of k l s = Some i -> s <= i /\ nth_error l (i - s) = Some k.
Proof.
  induction l as [|x l IH]; intros s i H; cbn [index_of] in H; [discriminate|].
  destruct (pair_eqb k x) eqn:E.
  - inversion H; subst. apply pair_eqb_spec in E. subst. rewrite Nat.sub_diag. split; [lia|reflexivity].
  - apply IH in H. destruct H as [H1 H2]. split; [lia|]. replace (i - s) with (S (i - S s)) by lia. exact H2.
Qed.
Lemma index_of_in k l s : In k l -> exists i, index_of k l s = Some i.
Proof.
  revert s. induction l as [|x l IH]; intros s H; [destruct H|]. cbn [index_of].
  destruct (pair_eqb k x) eqn:E; [eauto|]. destruct H as [->|H]; [rewrite pair_eqb_refl in E; discriminate|].
  apply IH. exact H.
Qed.

(* position of the new vertex of an edge *)
Theorem edge_vertex_position {K} (o : Ops K) v ts t a b : In t ts -> In (a, b) (sym1 t) -> a <> b ->
  exists k, edge_idx (length v) (edge_list ts) a b = length v + k /\
            nth_error (fst (refine1 o (v, ts))) (length v + k) = Some (midpoint o v (ukey a b)).
Proof.
  intros Ht Hab Hne. assert (Hin := edge_in_list ts t a b Ht Hab Hne).
  destruct (index_of_in _ _ 0 Hin) as (k & Hk). exists k. unfold edge_idx. rewrite Hk. split; [reflexivity|].
  apply refine1_new_vertex_is_midpoint. apply index_of_spec in Hk. rewrite Nat.sub_0_r in Hk. apply Hk.
Qed.

(* ------------------------------------------------------------------ geometry over R *)
Open Scope R_scope.
Notation V3 := (vec3 R).

Definition mid (p q : V3) : V3 := vscale Rops (1 / 2) (vadd Rops p q).
Definition crossR3 (p q r : V3) : V3 := cross Rops (vsub Rops q p) (vsub Rops r p).
Definition cone (p q r : V3) : R := dot Rops p (cross Rops q r).
Definition quarter (w : V3) : V3 := vscale Rops (1 / 4) w.

(* each child has a quarter of the parent's cross product: same plane, same winding, quarter area *)
Theorem children_cross_quarter pa pb pc :
  let e1 := mid pa pb in let e2 := mid pb pc in let e3 := mid pc pa in
  crossR3 pa e1 e3 = quarter (crossR3 pa pb pc) /\
  crossR3 pb e2 e1 = quarter (crossR3 pa pb pc) /\
  crossR3 pc e3 e2 = quarter (crossR3 pa pb pc) /\
  crossR3 e1 e2 e3 = quarter (crossR3 pa pb pc).
Proof.
  r3 pa; r3 pb; r3 pc. unfold crossR3, quarter, mid, cross, vsub, vadd, vscale, vx, vy, vz.
  cbn [fst snd add sub mul Rops]. repeat split; (f_equal; [f_equal|]; field).
Qed.

(* cone volumes (origin-based) of the children sum to the parent's: enclosed volume is preserved *)
Theorem children_cones_sum pa pb pc :
  let e1 := mid pa pb in let e2 := mid pb pc in let e3 := mid pc pa in
  cone pa e1 e3 + cone pb e2 e1 + cone pc e3 e2 + cone e1 e2 e3 = cone pa pb pc.
Proof.
  r3 pa; r3 pb; r3 pc. unfold cone, mid, dot, cross, vadd, vscale, vx, vy, vz.
  cbn [fst snd add sub mul Rops]. field.
Qed.

(* area-weighted centres: with equal areas (a quarter each) the children's centres average to the parent's *)
Theorem children_centres_sum pa pb pc :
  let e1 := mid pa pb in let e2 := mid pb pc in let e3 := mid pc pa in
  vadd Rops (vadd Rops (vadd Rops (vadd Rops (vadd Rops pa e1) e3) (vadd Rops (vadd Rops pb e2) e1))
                       (vadd Rops (vadd Rops pc e3) e2)) (vadd Rops (vadd Rops e1 e2) e3)
  = vscale Rops 4 (vadd Rops (vadd Rops pa pb) pc).
Proof.
  r3 pa; r3 pb; r3 pc. unfold mid, vadd, vscale, vx, vy, vz.
  cbn [fst snd add mul Rops]. f_equal; [f_equal|]; field.
Qed.

Lemma midpoint_mid v a b : midpoint Rops v (a, b) = mid (getv Rops v a) (getv Rops v b).
Proof. unfold midpoint, mid, frac. cbn [fst snd div ofZ Rops]. reflexivity. Qed.
Lemma mid_comm p q : mid p q = mid q p.
Proof. r3 p; r3 q. unfold mid, vadd, vscale, vx, vy, vz. cbn [fst snd add mul Rops]. f_equal; [f_equal|]; ring. Qed.
Lemma midpoint_ukey v a b : midpoint Rops v (ukey a b) = mid (getv Rops v a) (getv Rops v b).
Proof. unfold ukey. destruct (Nat.ltb a b); rewrite midpoint_mid; [reflexivity|apply mid_comm]. Qed.
