(* Proofs/KernelP.v -- the kernel of the triangle stiffness matrix: exactly the vertex functions that are constant on every
   triangle, i.e. constant on connected components (C03: one zero eigenvalue per component, eigenvector constant on components). *)
From Coq Require Import List Arith Bool Reals Lra.
From LaPyV Require Import Base.Scalar Base.Vec3 Base.ListAux Base.Sparse Model.TetMesh Model.TriaAdj Model.Fem Proofs.SparseP
  Proofs.TetMeshP Proofs.FemTriaP.
Import ListNotations.
Open Scope R_scope.

Definition const_on_triangles (ts : list tri) (u : nat -> R) : Prop :=
  Forall (fun '(a, b, c) => u a = u b /\ u b = u c) ts.

(* any geometry: a function that is constant on every triangle is annihilated (tested against every f; row by row) *)
Theorem componentwise_constant_in_kernel v ts f u : const_on_triangles ts u -> bil f (fem_tria_A Rops v ts) u = 0.
Proof.
  intros H. unfold fem_tria_A. rewrite bilin_flat_map. apply Rsum_zero. intros [[[t1 t2] t3] vol] Hin.
  apply in_combine_l in Hin. unfold const_on_triangles in H. rewrite Forall_forall in H. destruct (H _ Hin) as [E1 E2].
  destruct (tria_cots Rops v (t1, t2, t3) vol) as [[a12 a23] a31]. rewrite stiff_block_bilin, E1, E2. ring.
Qed.
Theorem componentwise_constant_rows v ts u i : const_on_triangles ts u -> mulvec_at Rops (fem_tria_A Rops v ts) u i = 0.
Proof. intros H. rewrite mulvec_bilin. apply componentwise_constant_in_kernel. exact H. Qed.

Lemma Rsum_nonneg_zero {X} (h : X -> R) xs : (forall x, In x xs -> 0 <= h x) -> Rsum h xs = 0 -> forall x, In x xs -> h x = 0.
Proof.
  induction xs as [|y xs IH]; intros Hp Hs x Hx; [contradiction|]. cbn [Rsum] in Hs.
  assert (P0 : 0 <= h y) by (apply Hp; left; reflexivity).
  assert (P1 : 0 <= Rsum h xs) by (apply Rsum_nonneg; intros z Hz; apply Hp; right; exact Hz).
  destruct Hx as [->|Hx]; [lra|]. apply IH; [intros z Hz; apply Hp; right; exact Hz|lra|exact Hx].
Qed.

(* non-degenerate meshes: zero Dirichlet energy forces the function to be constant on every triangle *)
Theorem zero_energy_constant_on_triangles v ts u : tria_nondeg v ts -> bil u (fem_tria_A Rops v ts) u = 0 -> const_on_triangles ts u.
Proof.
  intros Hn H0. rewrite fem_tria_A_energy in H0 by exact Hn. unfold const_on_triangles. rewrite Forall_forall.
  intros [[a b] c] Hin.
  assert (Hpos : forall t, In t ts -> 0 <= tria_energy v u u t).
  { intros [[t1 t2] t3] _. unfold tria_energy. destruct (tri_pts Rops v (t1, t2, t3)) as [[p1 p2] p3]. apply Rmult_le_pos.
    - unfold tri_area. assert (0 <= sqrt (tri_NN p1 p2 p3)) by apply sqrt_pos. lra.
    - generalize (tri_grad p1 p2 p3 (u t1) (u t2) (u t3)). intros g. r3 g. unfold dot, vx, vy, vz. cbn. nra. }
  pose proof (Rsum_nonneg_zero _ _ Hpos H0 _ Hin) as E. unfold tria_energy in E.
  unfold tria_nondeg in Hn. rewrite Forall_forall in Hn. pose proof (tria_nondeg_NN v a b c (Hn _ Hin)) as NN.
  unfold tri_pts in *. set (p1 := getv Rops v a) in *. set (p2 := getv Rops v b) in *. set (p3 := getv Rops v c) in *.
  assert (Harea : 0 < tri_area p1 p2 p3) by (unfold tri_area; assert (0 < sqrt (tri_NN p1 p2 p3)) by (apply sqrt_lt_R0; exact NN); lra).
  assert (G0 : dotR (tri_grad p1 p2 p3 (u a) (u b) (u c)) (tri_grad p1 p2 p3 (u a) (u b) (u c)) = 0) by nra.
  destruct (tri_grad_char p1 p2 p3 (u a) (u b) (u c) ltac:(lra)) as (C1 & C2 & _).
  assert (Gz : tri_grad p1 p2 p3 (u a) (u b) (u c) = (0, 0, 0)).
  { revert G0. generalize (tri_grad p1 p2 p3 (u a) (u b) (u c)). intros g. r3 g. unfold dot, vx, vy, vz. cbn [fst snd add mul Rops].
    intros G0. assert (x = 0) by nra. assert (y = 0) by nra. assert (z = 0) by nra. subst. reflexivity. }
  rewrite Gz in C1, C2. revert C1 C2. generalize (subR p2 p1) (subR p3 p1). intros e1 e2. r3 e1; r3 e2.
  unfold dot, vx, vy, vz. cbn [fst snd add mul Rops]. intros C1 C2. split; lra.
Qed.

(* the kernel, characterised *)
Theorem stiffness_kernel_characterised v ts u : tria_nondeg v ts ->
  ((forall f, bil f (fem_tria_A Rops v ts) u = 0) <-> const_on_triangles ts u).
Proof.
  intros Hn. split.
  - intros H. apply (zero_energy_constant_on_triangles v ts u Hn). apply H.
  - intros H f. apply componentwise_constant_in_kernel. exact H.
Qed.
