(* Proofs/FemTetInvarP.v -- the assembled tetrahedral stiffness form does not depend on the order of the tetrahedra nor on the order
   (hence the orientation) of the four indices inside a tetrahedron (C01). *)
From Coq Require Import List Arith Bool Reals Lra Permutation.
From LaPyV Require Import Base.Scalar Base.Vec3 Base.ListAux Base.Sparse Model.TetMesh Model.TriaAdj Model.Fem Proofs.SparseP
  Proofs.TetMeshP Proofs.FemTriaP Proofs.FemTetP.
Import ListNotations.
Open Scope R_scope.

(* the three adjacent transpositions generate all 24 orders *)
Definition sw01 (t : tet) : tet := let '(a, b, c, d) := t in (b, a, c, d).
Definition sw12 (t : tet) : tet := let '(a, b, c, d) := t in (a, c, b, d).
Definition sw23 (t : tet) : tet := let '(a, b, c, d) := t in (a, b, d, c).

Lemma det_sw01 p1 p2 p3 p4 : tet_det p2 p1 p3 p4 = - tet_det p1 p2 p3 p4.
Proof. r3 p1; r3 p2; r3 p3; r3 p4. unft. ring. Qed.
Lemma det_sw12 p1 p2 p3 p4 : tet_det p1 p3 p2 p4 = - tet_det p1 p2 p3 p4.
Proof. r3 p1; r3 p2; r3 p3; r3 p4. unft. ring. Qed.
Lemma det_sw23 p1 p2 p3 p4 : tet_det p1 p2 p4 p3 = - tet_det p1 p2 p3 p4.
Proof. r3 p1; r3 p2; r3 p3; r3 p4. unft. ring. Qed.

Lemma num_sw01 p1 p2 p3 p4 f1 f2 f3 f4 : tet_gradnum p2 p1 p3 p4 f2 f1 f3 f4 = vneg Rops (tet_gradnum p1 p2 p3 p4 f1 f2 f3 f4).
Proof. r3 p1; r3 p2; r3 p3; r3 p4. unft. unfold vneg, vx, vy, vz. cbn [fst snd opp Rops]. f_equal; [f_equal|]; ring. Qed.
Lemma num_sw12 p1 p2 p3 p4 f1 f2 f3 f4 : tet_gradnum p1 p3 p2 p4 f1 f3 f2 f4 = vneg Rops (tet_gradnum p1 p2 p3 p4 f1 f2 f3 f4).
Proof. r3 p1; r3 p2; r3 p3; r3 p4. unft. unfold vneg, vx, vy, vz. cbn [fst snd opp Rops]. f_equal; [f_equal|]; ring. Qed.
Lemma num_sw23 p1 p2 p3 p4 f1 f2 f3 f4 : tet_gradnum p1 p2 p4 p3 f1 f2 f4 f3 = vneg Rops (tet_gradnum p1 p2 p3 p4 f1 f2 f3 f4).
Proof. r3 p1; r3 p2; r3 p3; r3 p4. unft. unfold vneg, vx, vy, vz. cbn [fst snd opp Rops]. f_equal; [f_equal|]; ring. Qed.

Lemma vdivs_neg_neg (w : V3) (D : R) : D <> 0 -> vdivs Rops (vneg Rops w) (- D) = vdivs Rops w D.
Proof. intros H. r3 w. unfold vdivs, vneg, vx, vy, vz. cbn [fst snd opp div Rops]. f_equal; [f_equal|]; field; exact H. Qed.

Lemma grad_sw01 p1 p2 p3 p4 f1 f2 f3 f4 : tet_det p1 p2 p3 p4 <> 0 -> tet_grad p2 p1 p3 p4 f2 f1 f3 f4 = tet_grad p1 p2 p3 p4 f1 f2 f3 f4.
Proof. intros H. unfold tet_grad. rewrite det_sw01, num_sw01. apply vdivs_neg_neg. exact H. Qed.
Lemma grad_sw12 p1 p2 p3 p4 f1 f2 f3 f4 : tet_det p1 p2 p3 p4 <> 0 -> tet_grad p1 p3 p2 p4 f1 f3 f2 f4 = tet_grad p1 p2 p3 p4 f1 f2 f3 f4.
Proof. intros H. unfold tet_grad. rewrite det_sw12, num_sw12. apply vdivs_neg_neg. exact H. Qed.
Lemma grad_sw23 p1 p2 p3 p4 f1 f2 f3 f4 : tet_det p1 p2 p3 p4 <> 0 -> tet_grad p1 p2 p4 p3 f1 f2 f4 f3 = tet_grad p1 p2 p3 p4 f1 f2 f3 f4.
Proof. intros H. unfold tet_grad. rewrite det_sw23, num_sw23. apply vdivs_neg_neg. exact H. Qed.

Definition tet_det_of (v : list V3) (t : tet) : R := let '(p1, p2, p3, p4) := tet_pts Rops v t in tet_det p1 p2 p3 p4.

Lemma vol6_is_abs_det v t : tetra_vol6_raw Rops v t = Rabs (tet_det_of v t).
Proof. destruct t as [[[a b] c] d]. exact (tetra_vol6_raw_det v a b c d). Qed.

Lemma det_of_sw01 v t : tet_det_of v (sw01 t) = - tet_det_of v t.
Proof. destruct t as [[[a b] c] d]. unfold tet_det_of, sw01, tet_pts. apply det_sw01. Qed.
Lemma det_of_sw12 v t : tet_det_of v (sw12 t) = - tet_det_of v t.
Proof. destruct t as [[[a b] c] d]. unfold tet_det_of, sw12, tet_pts. apply det_sw12. Qed.
Lemma det_of_sw23 v t : tet_det_of v (sw23 t) = - tet_det_of v t.
Proof. destruct t as [[[a b] c] d]. unfold tet_det_of, sw23, tet_pts. apply det_sw23. Qed.

Lemma energy_sw01 v f g t : tet_det_of v t <> 0 -> tet_energy v f g (sw01 t) = tet_energy v f g t.
Proof.
  destruct t as [[[a b] c] d]. unfold tet_det_of, tet_energy, sw01, tet_pts. intros H. unfold tet_volume.
  rewrite det_sw01, Rabs_Ropp, (grad_sw01 _ _ _ _ (f a) (f b) (f c) (f d) H), (grad_sw01 _ _ _ _ (g a) (g b) (g c) (g d) H). reflexivity.
Qed.
Lemma energy_sw12 v f g t : tet_det_of v t <> 0 -> tet_energy v f g (sw12 t) = tet_energy v f g t.
Proof.
  destruct t as [[[a b] c] d]. unfold tet_det_of, tet_energy, sw12, tet_pts. intros H. unfold tet_volume.
  rewrite det_sw12, Rabs_Ropp, (grad_sw12 _ _ _ _ (f a) (f b) (f c) (f d) H), (grad_sw12 _ _ _ _ (g a) (g b) (g c) (g d) H). reflexivity.
Qed.
Lemma energy_sw23 v f g t : tet_det_of v t <> 0 -> tet_energy v f g (sw23 t) = tet_energy v f g t.
Proof.
  destruct t as [[[a b] c] d]. unfold tet_det_of, tet_energy, sw23, tet_pts. intros H. unfold tet_volume.
  rewrite det_sw23, Rabs_Ropp, (grad_sw23 _ _ _ _ (f a) (f b) (f c) (f d) H), (grad_sw23 _ _ _ _ (g a) (g b) (g c) (g d) H). reflexivity.
Qed.

(* t' is t with its four indices in another order (any of the 24) *)
Inductive tvariant : tet -> tet -> Prop :=
| tvar_refl t : tvariant t t
| tvar_01 t t' : tvariant t t' -> tvariant t (sw01 t')
| tvar_12 t t' : tvariant t t' -> tvariant t (sw12 t')
| tvar_23 t t' : tvariant t t' -> tvariant t (sw23 t').

Lemma tvariant_absdet v t t' : tvariant t t' -> Rabs (tet_det_of v t') = Rabs (tet_det_of v t).
Proof.
  induction 1 as [t|t t' V IH|t t' V IH|t t' V IH]; [reflexivity| | |].
  - rewrite det_of_sw01, Rabs_Ropp. exact IH.
  - rewrite det_of_sw12, Rabs_Ropp. exact IH.
  - rewrite det_of_sw23, Rabs_Ropp. exact IH.
Qed.
Lemma absdet_nonzero x y : Rabs x = Rabs y -> y <> 0 -> x <> 0.
Proof. intros E Hy Hx. subst x. rewrite Rabs_R0 in E. symmetry in E. apply Rabs_no_R0 in Hy. contradiction. Qed.
Lemma tvariant_energy v f g t t' : tet_det_of v t <> 0 -> tvariant t t' -> tet_energy v f g t' = tet_energy v f g t.
Proof.
  intros H V. induction V as [t|t t' V IH|t t' V IH|t t' V IH]; [reflexivity| | |].
  - rewrite energy_sw01; [exact (IH H)|]. apply (absdet_nonzero _ _ (tvariant_absdet v t t' V) H).
  - rewrite energy_sw12; [exact (IH H)|]. apply (absdet_nonzero _ _ (tvariant_absdet v t t' V) H).
  - rewrite energy_sw23; [exact (IH H)|]. apply (absdet_nonzero _ _ (tvariant_absdet v t t' V) H).
Qed.
Lemma nondeg_det v t : Reqb (tetra_vol6_raw Rops v t) 0 = false <-> tet_det_of v t <> 0.
Proof.
  rewrite Reqb_false, vol6_is_abs_det. split.
  - intros H Hz. apply H. rewrite Hz. apply Rabs_R0.
  - intros H. apply Rabs_no_R0. exact H.
Qed.

Theorem tet_stiffness_form_invariant_under_index_order v ts ts' f g : tet_nondeg v ts -> Forall2 tvariant ts ts' ->
  tet_nondeg v ts' /\ bil f (fem_tet_A Rops v ts') g = bil f (fem_tet_A Rops v ts) g.
Proof.
  intros Hn HV.
  assert (Hn' : tet_nondeg v ts').
  { unfold tet_nondeg in *. induction HV as [|t t' l l' Vt Vl IH]; [constructor|]. inversion Hn as [|? ? Ht Hl]; subst.
    constructor; [|apply IH; exact Hl]. apply nondeg_det. apply nondeg_det in Ht.
    apply (absdet_nonzero _ _ (tvariant_absdet v t t' Vt) Ht). }
  split; [exact Hn'|]. rewrite !fem_tet_A_energy by assumption.
  unfold tet_nondeg in Hn. induction HV as [|t t' l l' Vt Vl IH]; [reflexivity|]. inversion Hn as [|? ? Ht Hl]; subst.
  inversion Hn' as [|? ? Ht' Hl']; subst. cbn [Rsum]. apply nondeg_det in Ht.
  rewrite (tvariant_energy v f g t t' Ht Vt), (IH Hl Hl'). reflexivity.
Qed.
Theorem tet_stiffness_form_invariant_under_element_order v ts ts' f g : tet_nondeg v ts -> Permutation ts ts' ->
  tet_nondeg v ts' /\ bil f (fem_tet_A Rops v ts') g = bil f (fem_tet_A Rops v ts) g.
Proof.
  intros Hn P. assert (Hn' : tet_nondeg v ts') by (unfold tet_nondeg in *; apply (Permutation_Forall P); exact Hn).
  split; [exact Hn'|]. rewrite !fem_tet_A_energy by assumption. symmetry. apply Rsum_perm. exact P.
Qed.

(* all 24 orders are reached: e.g. the reversal (d, c, b, a) and the cyclic shift (b, c, d, a) *)
Lemma tvariant_examples a b c d : tvariant (a, b, c, d) (d, c, b, a) /\ tvariant (a, b, c, d) (b, c, d, a).
Proof.
  split.
  - change (d, c, b, a) with (sw01 (sw12 (sw23 (sw01 (sw12 (sw01 (a, b, c, d))))))). repeat constructor.
  - change (b, c, d, a) with (sw23 (sw12 (sw01 (a, b, c, d)))). repeat constructor.
Qed.
