(* Proofs/TriaGeomP.v -- theorems about the geometric measures (C13) over R. *)
From Coq Require Import List Arith Bool PeanoNat Lia Reals Lra.
From LaPyV Require Import Base.Scalar Base.Vec3 Base.ListAux Base.Sparse Model.TetMesh Model.TriaAdj Model.TriaOrient
  Model.Fem Model.TriaGeom Proofs.SparseP Proofs.TetMeshP Proofs.FemTriaP Proofs.TriaAdjP.
Import ListNotations.
Open Scope R_scope.

Lemma dot_self_nonneg (a : V3) : 0 <= dotR a a.
Proof. r3 a. unfold dot, vx, vy, vz. cbn. nra. Qed.

Lemma sqrt_quarter x : 0 <= x -> sqrt (x / 4) = / 2 * sqrt x.
Proof.
  intros H. replace (x / 4) with (x * (/ 2 * / 2)) by field.
  rewrite sqrt_mult by lra. rewrite sqrt_square by lra. ring.
Qed.

(* ------------------------------------------------------------------ Heron = |cross| / 2 *)
Theorem heron_is_half_cross v t : heron_area Rops v t = cross_area Rops v t.
Proof.
  destruct t as [[i j] k]. unfold heron_area, cross_area, tri_pts.
  generalize (getv Rops v i) (getv Rops v j) (getv Rops v k). intros p0 p1 p2.
  unfold norm, norm2. cbn [sqrtK add sub mul Rops]. unfold frac. cbn [div ofZ Rops].
  set (A2 := dotR (subR p1 p0) (subR p1 p0)). set (B2 := dotR (subR p2 p1) (subR p2 p1)).
  set (C2 := dotR (subR p0 p2) (subR p0 p2)).
  set (NN := dotR (crossR (subR p1 p0) (subR p2 p0)) (crossR (subR p1 p0) (subR p2 p0))).
  assert (HA : 0 <= A2) by apply dot_self_nonneg. assert (HB : 0 <= B2) by apply dot_self_nonneg.
  assert (HC : 0 <= C2) by apply dot_self_nonneg. assert (HN : 0 <= NN) by apply dot_self_nonneg.
  set (a := sqrt A2). set (b := sqrt B2). set (c := sqrt C2).
  assert (Ha : a * a = A2) by (apply sqrt_sqrt; assumption).
  assert (Hb : b * b = B2) by (apply sqrt_sqrt; assumption).
  assert (Hc : c * c = C2) by (apply sqrt_sqrt; assumption).
  assert (HY : 2 * A2 * B2 + 2 * B2 * C2 + 2 * C2 * A2 - A2 * A2 - B2 * B2 - C2 * C2 = 4 * NN).
  { unfold A2, B2, C2, NN. r3 p0; r3 p1; r3 p2. unfold dot, cross, vsub, vx, vy, vz. cbn [fst snd add sub mul Rops]. ring. }
  assert (HX : 1 / 2 * (a + b + c) * (1 / 2 * (a + b + c) - a) * (1 / 2 * (a + b + c) - b) * (1 / 2 * (a + b + c) - c) = NN / 4).
  { transitivity ((2 * (a * a) * (b * b) + 2 * (b * b) * (c * c) + 2 * (c * c) * (a * a)
                   - (a * a) * (a * a) - (b * b) * (b * b) - (c * c) * (c * c)) / 16); [field|].
    rewrite Ha, Hb, Hc, HY. field. }
  rewrite HX, sqrt_quarter by assumption. field.
Qed.

Theorem tria_areas_are_cross_areas v ts : tria_areas Rops v ts = map (cross_area Rops v) ts.
Proof. unfold tria_areas. apply map_ext. intros t. apply heron_is_half_cross. Qed.

(* the three area formulas used in the file agree: vertex_areas/centroid/mass use the same number *)
Lemma cen_area_is_cross_area v t : cen_area Rops v t = cross_area Rops v t.
Proof.
  destruct t as [[i j] k]. unfold cen_area, cross_area, tri_pts.
  generalize (getv Rops v i) (getv Rops v j) (getv Rops v k). intros p0 p1 p2.
  unfold norm, norm2. f_equal. cbn [sqrtK Rops]. f_equal.
  r3 p0; r3 p1; r3 p2. unfold dot, cross, vsub, vx, vy, vz. cbn [fst snd add sub mul Rops]. ring.
Qed.
Lemma cross_area_is_tri_area v i j k :
  let '(p1, p2, p3) := tri_pts Rops v (i, j, k) in cross_area Rops v (i, j, k) = tri_area p1 p2 p3.
Proof.
  unfold cross_area, tri_pts, tri_area, tri_NN, tri_N.
  generalize (getv Rops v i) (getv Rops v j) (getv Rops v k). intros p0 p1 p2.
  unfold norm, norm2, frac. cbn [sqrtK mul div ofZ Rops].
  replace (dotR (crossR (subR p1 p0) (subR p2 p0)) (crossR (subR p1 p0) (subR p2 p0)))
    with (dotR (crossR (subR p2 p1) (subR p0 p2)) (crossR (subR p2 p1) (subR p0 p2))); [field|].
  r3 p0; r3 p1; r3 p2. unfold dot, cross, vsub, vx, vy, vz. cbn [fst snd add sub mul Rops]. ring.
Qed.

(* ------------------------------------------------------------------ sums: area = sum of vertex areas *)
Lemma sumK_Rsum l : sumK Rops l = Rsum (fun x => x) l.
Proof.
  unfold sumK. cbn [add zero Rops].
  assert (G : forall acc, fold_left Rplus l acc = acc + Rsum (fun x => x) l).
  { induction l as [|x l IH]; intros acc; cbn [fold_left Rsum]; [ring|]. rewrite IH. ring. }
  rewrite G. ring.
Qed.

Lemma scatter_at_Rsum (l : list (nat * R)) k :
  scatter_at Rops l k = Rsum (fun p => if Nat.eqb (fst p) k then snd p else 0) l.
Proof. induction l as [|[i a] l IH]; [reflexivity|]. cbn [scatter_at fold_right Rsum fst snd]. fold (scatter_at Rops l k). rewrite IH. cbn [add Rops]. destruct (Nat.eqb i k); ring. Qed.

Lemma Rsum_swap {X Y} (h : X -> Y -> R) xs ys :
  Rsum (fun x => Rsum (fun y => h x y) ys) xs = Rsum (fun y => Rsum (fun x => h x y) xs) ys.
Proof.
  induction xs as [|x xs IH]; cbn [Rsum].
  - symmetry. apply Rsum_zero. reflexivity.
  - rewrite IH, <- Rsum_plus. reflexivity.
Qed.
Lemma Rsum_indicator n i a : (i < n)%nat -> Rsum (fun k => if Nat.eqb i k then a else 0) (iota n) = a.
Proof.
  intros Hi. unfold iota.
  assert (G : forall s m, Rsum (fun k => if Nat.eqb i k then a else 0) (iota_from s m)
                          = if (Nat.leb s i && Nat.ltb i (s + m))%bool then a else 0).
  { intros s m. revert s. induction m as [|m IHm]; intros s; cbn [iota_from Rsum].
    - replace (s + 0)%nat with s by lia. destruct (Nat.leb_spec s i), (Nat.ltb_spec i s); cbn; try reflexivity; lia.
    - rewrite IHm. destruct (Nat.eqb_spec i s) as [->|Hne].
      + destruct (Nat.leb_spec (S s) s); [lia|]. cbn [andb].
        destruct (Nat.leb_spec s s); [|lia]. destruct (Nat.ltb_spec s (s + S m)); [|lia]. cbn. ring.
      + destruct (Nat.leb_spec (S s) i), (Nat.leb_spec s i), (Nat.ltb_spec i (S s + m)), (Nat.ltb_spec i (s + S m)); cbn [andb]; try ring; lia. }
  rewrite G. destruct (Nat.leb_spec 0 i); [|lia]. destruct (Nat.ltb_spec i (0 + n)); [reflexivity|lia].
Qed.

(* total of a scatter-add = total of the scattered weights, when all indices are in range *)
Theorem scatter_total n (l : list (nat * R)) : Forall (fun p => (fst p < n)%nat) l ->
  Rsum (fun x => x) (scatter Rops n l) = Rsum snd l.
Proof.
  intros H. unfold scatter. rewrite Rsum_map.
  rewrite (Rsum_ext _ (fun k => Rsum (fun p => if Nat.eqb (fst p) k then snd p else 0) l)) by (intros; apply scatter_at_Rsum).
  rewrite Rsum_swap. apply Rsum_ext. intros [i a] Hin. rewrite Forall_forall in H. specialize (H _ Hin). cbn [fst snd] in *.
  apply Rsum_indicator. exact H.
Qed.

Lemma maxn_ge l x : In x l -> (x <= maxn l)%nat.
Proof. induction l as [|y l IH]; intros H; [destruct H|]. cbn [maxn fold_right]. destruct H as [->|H]; [lia|]. specialize (IH H). unfold maxn in IH. lia. Qed.

Lemma Rsum_flat_map {X Y} (h : Y -> R) (g : X -> list Y) xs : Rsum h (flat_map g xs) = Rsum (fun x => Rsum h (g x)) xs.
Proof. induction xs as [|x xs IH]; [reflexivity|]. cbn [flat_map Rsum]. rewrite Rsum_app, IH. reflexivity. Qed.

Theorem vertex_areas_sum_to_area v ts :
  Rsum (fun x => x) (vertex_areas Rops v ts) = Rsum (cross_area Rops v) ts.
Proof.
  unfold vertex_areas. rewrite Rsum_map. cbn [div ofZ Rops].
  rewrite (Rsum_ext _ (fun x => / 3 * x)) by (intros; field). rewrite Rsum_scal.
  rewrite (scatter_total (S (maxn (tri_flat ts)))).
  - rewrite Rsum_flat_map.
    rewrite (Rsum_ext _ (fun t => 3 * cross_area Rops v t)).
    + rewrite Rsum_scal. field.
    + intros [[a b] c] _. cbn [Rsum snd]. ring.
  - apply Forall_forall. intros [i w] Hin. apply in_flat_map in Hin. destruct Hin as ([[a b] c] & Ht & Hin). cbn [fst].
    assert (In i (tri_flat ts)).
    { unfold tri_flat. apply in_flat_map. exists (a, b, c). split; [assumption|]. cbn in Hin. cbn.
      destruct Hin as [H|[H|[H|[]]]]; inversion H; subst; tauto. }
    apply maxn_ge in H. lia.
Qed.

Theorem area_is_sum_of_cross_areas v ts : area Rops v ts = Rsum (cross_area Rops v) ts.
Proof. unfold area. rewrite sumK_Rsum, tria_areas_are_cross_areas, Rsum_map. reflexivity. Qed.

(* ------------------------------------------------------------------ triangle normals *)
Theorem tria_normal_unit_orthogonal v i j k :
  let '(p0, p1, p2) := tri_pts Rops v (i, j, k) in
  let n := crossR (subR p1 p0) (subR p2 p0) in
  0 < norm Rops n ->
  dotR (tria_normal Rops v (i, j, k)) (tria_normal Rops v (i, j, k)) = 1 /\
  dotR (tria_normal Rops v (i, j, k)) (subR p1 p0) = 0 /\
  dotR (tria_normal Rops v (i, j, k)) (subR p2 p0) = 0 /\
  0 < dotR (tria_normal Rops v (i, j, k)) n.
Proof.
  unfold tria_normal, tri_pts. generalize (getv Rops v i) (getv Rops v j) (getv Rops v k). intros p0 p1 p2.
  cbv zeta. intros Hg. unfold guard_zero_len. cbn [eqb zero one Rops].
  destruct (Reqb (norm Rops (crossR (subR p1 p0) (subR p2 p0))) 0) eqn:Eg; [apply Reqb_true in Eg; lra|]. clear Eg.
  set (n := crossR (subR p1 p0) (subR p2 p0)) in *.
  unfold norm, norm2 in *. cbn [sqrtK Rops] in *.
  assert (HN : 0 <= dotR n n) by apply dot_self_nonneg.
  set (L := sqrt (dotR n n)) in *. assert (HL : L * L = dotR n n) by (apply sqrt_sqrt; assumption).
  assert (HLp : 0 < L) by lra.
  assert (O1 : dotR n (subR p1 p0) = 0) by (unfold n; r3 p0; r3 p1; r3 p2; unfold dot, cross, vsub, vx, vy, vz; cbn; ring).
  assert (O2 : dotR n (subR p2 p0) = 0) by (unfold n; r3 p0; r3 p1; r3 p2; unfold dot, cross, vsub, vx, vy, vz; cbn; ring).
  assert (D : forall w, dotR (vdivs Rops n L) w = dotR n w / L).
  { intros w. r3 n; r3 w. unfold dot, vdivs, vx, vy, vz. cbn [fst snd add mul div Rops]. field. lra. }
  repeat split.
  - rewrite D. assert (C : dotR n (vdivs Rops n L) = dotR n n / L).
    { r3 n. unfold dot, vdivs, vx, vy, vz. cbn [fst snd add mul div Rops]. field. lra. }
    rewrite C, <- HL. field. lra.
  - rewrite D, O1. field. lra.
  - rewrite D, O2. field. lra.
  - rewrite D, <- HL. replace (L * L / L) with L by (field; lra). exact HLp.
Qed.

(* ------------------------------------------------------------------ qualities *)
Theorem tria_quality_range v i j k :
  let '(p0, p1, p2) := tri_pts Rops v (i, j, k) in
  0 < dotR (crossR (subR p1 p0) (subR p2 p0)) (crossR (subR p1 p0) (subR p2 p0)) ->
  0 < tria_quality Rops v (i, j, k) <= 1.
Proof.
  unfold tria_quality, tri_pts. generalize (getv Rops v i) (getv Rops v j) (getv Rops v k). intros p0 p1 p2.
  intros Hpos. unfold norm, norm2. cbn [two one sqrtK add mul div ofZ Rops].
  set (NN := dotR (crossR (subR p1 p0) (vneg Rops (subR p0 p2))) (crossR (subR p1 p0) (vneg Rops (subR p0 p2)))).
  assert (EN : NN = dotR (crossR (subR p1 p0) (subR p2 p0)) (crossR (subR p1 p0) (subR p2 p0))).
  { unfold NN. r3 p0; r3 p1; r3 p2. unfold dot, cross, vsub, vneg, vx, vy, vz. cbn [fst snd add sub mul opp Rops]. ring. }
  rewrite <- EN in Hpos.
  set (S := dotR (subR p1 p0) (subR p1 p0) + dotR (subR p2 p1) (subR p2 p1) + dotR (subR p0 p2) (subR p0 p2)).
  set (L := sqrt NN). assert (HL : L * L = NN) by (apply sqrt_sqrt; lra). assert (HLp : 0 < L) by (apply sqrt_lt_R0; assumption).
  set (r3_ := sqrt 3). assert (H3 : r3_ * r3_ = 3) by (apply sqrt_sqrt; lra). assert (H3p : 0 < r3_) by (apply sqrt_lt_R0; lra).
  (* Weitzenboeck: S^2 - 12 NN = 2[(A-B)^2+(B-C)^2+(C-A)^2] >= 0 *)
  assert (W : 12 * NN <= S * S).
  { set (A2 := dotR (subR p1 p0) (subR p1 p0)). set (B2 := dotR (subR p2 p1) (subR p2 p1)). set (C2 := dotR (subR p0 p2) (subR p0 p2)).
    assert (HY : 4 * NN = 2 * A2 * B2 + 2 * B2 * C2 + 2 * C2 * A2 - A2 * A2 - B2 * B2 - C2 * C2).
    { rewrite EN. unfold A2, B2, C2. r3 p0; r3 p1; r3 p2. unfold dot, cross, vsub, vx, vy, vz. cbn [fst snd add sub mul Rops]. ring. }
    unfold S. fold A2 B2 C2.
    assert (Hsq : 0 <= (A2 - B2) * (A2 - B2) + (B2 - C2) * (B2 - C2) + (C2 - A2) * (C2 - A2)).
    { pose proof (Rle_0_sqr (A2 - B2)). pose proof (Rle_0_sqr (B2 - C2)). pose proof (Rle_0_sqr (C2 - A2)). unfold Rsqr in *. lra. }
    assert (E12 : 12 * NN = 3 * (2 * A2 * B2 + 2 * B2 * C2 + 2 * C2 * A2 - A2 * A2 - B2 * B2 - C2 * C2)) by lra.
    assert (ES : (A2 + B2 + C2) * (A2 + B2 + C2) - 12 * NN
                 = 2 * ((A2 - B2) * (A2 - B2) + (B2 - C2) * (B2 - C2) + (C2 - A2) * (C2 - A2))) by (rewrite E12; ring).
    lra. }
  assert (Sp : 0 < S).
  { assert (0 <= S) by (unfold S; assert (A := dot_self_nonneg (subR p1 p0)); assert (B := dot_self_nonneg (subR p2 p1));
                       assert (C := dot_self_nonneg (subR p0 p2)); lra). nra. }
  split.
  - apply Rdiv_lt_0_compat; [|exact Sp]. apply Rmult_lt_0_compat; [|exact HLp]. lra.
  - apply (Rmult_le_reg_r S); [exact Sp|]. replace ((1 + 1) * r3_ * L / S * S) with ((1 + 1) * r3_ * L) by (field; lra).
    rewrite Rmult_1_l.
    (* both sides non-negative: compare squares *)
    assert (Q : ((1 + 1) * r3_ * L) * ((1 + 1) * r3_ * L) = 12 * NN) by (replace (((1 + 1) * r3_ * L) * ((1 + 1) * r3_ * L)) with (4 * (r3_ * r3_) * (L * L)) by ring; rewrite H3, HL; ring).
    assert (P : 0 <= (1 + 1) * r3_ * L) by (apply Rmult_le_pos; [lra|lra]).
    destruct (Rle_or_lt ((1 + 1) * r3_ * L) S) as [?|Hc]; [assumption|]. exfalso. nra.
Qed.

(* equal edge lengths give quality exactly 1 *)
Theorem tria_quality_equilateral v i j k :
  let '(p0, p1, p2) := tri_pts Rops v (i, j, k) in
  let A2 := dotR (subR p1 p0) (subR p1 p0) in
  dotR (subR p2 p1) (subR p2 p1) = A2 -> dotR (subR p0 p2) (subR p0 p2) = A2 -> 0 < A2 ->
  tria_quality Rops v (i, j, k) = 1.
Proof.
  unfold tria_quality, tri_pts. generalize (getv Rops v i) (getv Rops v j) (getv Rops v k). intros p0 p1 p2.
  cbv zeta. intros HB HC HA. unfold norm, norm2. cbn [two one sqrtK add mul div ofZ Rops].
  set (A2 := dotR (subR p1 p0) (subR p1 p0)) in *.
  set (NN := dotR (crossR (subR p1 p0) (vneg Rops (subR p0 p2))) (crossR (subR p1 p0) (vneg Rops (subR p0 p2)))).
  assert (HY : 4 * NN = 3 * A2 * A2).
  { transitivity (2 * A2 * dotR (subR p2 p1) (subR p2 p1) + 2 * dotR (subR p2 p1) (subR p2 p1) * dotR (subR p0 p2) (subR p0 p2)
                  + 2 * dotR (subR p0 p2) (subR p0 p2) * A2 - A2 * A2 - dotR (subR p2 p1) (subR p2 p1) * dotR (subR p2 p1) (subR p2 p1)
                  - dotR (subR p0 p2) (subR p0 p2) * dotR (subR p0 p2) (subR p0 p2)).
    - unfold NN, A2. r3 p0; r3 p1; r3 p2. unfold dot, cross, vsub, vneg, vx, vy, vz. cbn [fst snd add sub mul opp Rops]. ring.
    - rewrite HB, HC. ring. }
  rewrite HB, HC.
  assert (EN : NN = 3 / 4 * (A2 * A2)) by lra.
  rewrite EN. replace (3 / 4 * (A2 * A2)) with (3 * ((A2 / 2) * (A2 / 2))) by field.
  rewrite sqrt_mult by nra. rewrite sqrt_square by lra.
  assert (H3 : sqrt 3 * sqrt 3 = 3) by (apply sqrt_sqrt; lra).
  replace ((1 + 1) * sqrt 3 * (sqrt 3 * (A2 / 2)) / (A2 + A2 + A2)) with ((sqrt 3 * sqrt 3) * A2 / (3 * A2)) by (field; lra).
  rewrite H3. field. lra.
Qed.

(* ------------------------------------------------------------------ vertex normals (after fixes 4785e9e / 524c983): every returned
   vector is unit, or is a raw sum of cross products whose length is at rounding level relative to the longest sum -- whatever the
   length unit of the mesh *)
Definition vn_max (n : nat) (v : list V3) (ts : list tri) : R :=
  fold_left (fun m s => let l := norm Rops s in if ltb Rops m l then l else m) (vertex_normal_sums Rops n v ts) 0.
Lemma fold_max_nonneg (l : list V3) : forall m0, 0 <= m0 ->
  0 <= fold_left (fun m s => let l := norm Rops s in if ltb Rops m l then l else m) l m0.
Proof.
  induction l as [|s l IH]; intros m0 H; [exact H|]. cbn [fold_left]. apply IH. cbv zeta. cbn [ltb Rops].
  destruct (Rltb m0 (norm Rops s)) eqn:E; [apply Rltb_true in E; lra|exact H].
Qed.
Lemma unit_of_positive (s : V3) : 0 < norm Rops s -> dotR (vdivs Rops s (norm Rops s)) (vdivs Rops s (norm Rops s)) = 1.
Proof.
  intros Hn. unfold norm, norm2 in *. cbn [sqrtK Rops] in *. pose proof (dot_self_nonneg s) as P.
  set (L := sqrt (dotR s s)) in *. assert (HL : L * L = dotR s s) by (apply sqrt_sqrt; exact P).
  r3 s. unfold dot, vdivs, vx, vy, vz in *. cbn [fst snd add mul div Rops] in *.
  transitivity ((x * x + y * y + z * z) / (L * L)); [field; lra|]. rewrite HL. field. rewrite <- HL. nra.
Qed.
Lemma vn_map_spec (sums : list V3) mx : 0 <= mx ->
  Forall (fun w => dotR w w = 1 \/ norm Rops w <= eps52 Rops * mx)
         (map (fun s => vdivs Rops s (if Rltb (eps52 Rops * mx) (norm Rops s) then norm Rops s else 1)) sums).
Proof.
  intros Hm. apply Forall_forall. intros w Hw. apply in_map_iff in Hw. destruct Hw as (s & <- & _).
  destruct (Rltb (eps52 Rops * mx) (norm Rops s)) eqn:E.
  - left. apply Rltb_true in E. apply unit_of_positive. pose proof eps52_pos. nra.
  - right. apply Rltb_false in E.
    assert (Ew : vdivs Rops s 1 = s) by (r3 s; unfold vdivs, vx, vy, vz; cbn [fst snd div Rops]; f_equal; [f_equal|]; field).
    rewrite Ew. lra.
Qed.
Lemma vertex_normals_spec n v ts :
  match vertex_normals Rops n v ts with
  | Ok l => Forall (fun w => dotR w w = 1 \/ norm Rops w <= eps52 Rops * vn_max n v ts) l
  | Err _ => True
  end.
Proof.
  unfold vertex_normals. destruct (negb (is_oriented ts)); [exact I|]. cbv zeta.
  apply (vn_map_spec (vertex_normal_sums Rops n v ts) (vn_max n v ts)). apply fold_max_nonneg. lra.
Qed.
Theorem vertex_normals_unit_or_negligible n v ts l : vertex_normals Rops n v ts = Ok l ->
  Forall (fun w => dotR w w = 1 \/ norm Rops w <= eps52 Rops * vn_max n v ts) l.
Proof. intros H. pose proof (vertex_normals_spec n v ts) as S. rewrite H in S. exact S. Qed.
