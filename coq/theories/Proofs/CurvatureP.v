(* Proofs/CurvatureP.v -- theorems about the part of curvature() after the eigen-decomposition and about the triangle
   frame of curvature_tria (C17), over R, for every result the eigen-solver may return. *)
From Coq Require Import List Arith Bool PeanoNat Lia Reals Lra.
From LaPyV Require Import Base.Scalar Base.Vec3 Base.ListAux Model.TetMesh Model.TriaAdj Model.Curvature
  Proofs.TetMeshP Proofs.FemTriaP Proofs.TriaGeomP.
Import ListNotations.
Open Scope R_scope.

Notation negR := (vneg Rops).
Notation scaleR := (vscale Rops).

(* ---------------------------------------------------------------- values *)
Theorem post_values e vn :
  let r := curv_post1 Rops e vn in
  c_min r <= c_max r /\ c_mean r = (c_min r + c_max r) / 2 /\ c_gauss r = c_min r * c_max r.
Proof.
  cbv zeta. unfold curv_post1. destruct (argsort3 Rops _ _ _) as [[i0 i1] i2].
  set (a := evalj e i1). set (b := evalj e i2). cbn [ltb Rops].
  destruct (Rltb b a) eqn:E; cbn [c_min c_max c_mean c_gauss add mul div Rops]; unfold two; cbn [add one Rops].
  - apply Rltb_true in E. split; [lra|split; [field|ring]].
  - apply Rltb_false in E. split; [lra|split; [field|ring]].
Qed.

(* ---------------------------------------------------------------- the frame *)
Definition ortho3 (a b c : V3) : Prop :=
  dotR a a = 1 /\ dotR b b = 1 /\ dotR c c = 1 /\ dotR a b = 0 /\ dotR a c = 0 /\ dotR b c = 0.
Lemma dot_comm (a b : V3) : dotR a b = dotR b a.
Proof. r3 a; r3 b. unfold dot, vx, vy, vz. cbn. ring. Qed.

Lemma argsort3_perm k0 k1 k2 :
  In (argsort3 Rops k0 k1 k2) [(0, 1, 2); (0, 2, 1); (1, 0, 2); (1, 2, 0); (2, 0, 1); (2, 1, 0)]%nat.
Proof.
  unfold argsort3. cbn [ins fst snd].
  destruct (nanlt Rops k1 k0); cbn [ins fst snd map].
  - destruct (nanlt Rops k2 k1); cbn [ins fst snd map]; [simpl; tauto|].
    destruct (nanlt Rops k2 k0); cbn [ins fst snd map]; simpl; tauto.
  - destruct (nanlt Rops k2 k0); cbn [ins fst snd map]; [simpl; tauto|].
    destruct (nanlt Rops k2 k1); cbn [ins fst snd map]; simpl; tauto.
Qed.

(* last three steps of the post-processing, applied to the directions picked so far *)
Definition finish (a b c vn : V3) : V3 * V3 * V3 :=
  let n := scaleR (signK Rops (dotR c vn)) c in
  let d := dotR (crossR a b) n in
  (a, (if Rltb d 0 then negR b else b), n).

Lemma signK_cases x : (0 < x /\ signK Rops x = 1) \/ (x < 0 /\ signK Rops x = -1) \/ (x = 0 /\ signK Rops x = 0).
Proof.
  unfold signK. cbn [ltb zero one opp Rops].
  destruct (Rltb 0 x) eqn:E1.
  - apply Rltb_true in E1. left. split; [exact E1|reflexivity].
  - apply Rltb_false in E1. destruct (Rltb x 0) eqn:E2.
    + apply Rltb_true in E2. right; left. split; [exact E2|reflexivity].
    + apply Rltb_false in E2. right; right. split; [lra|reflexivity].
Qed.

Lemma finish_frame a b c vn : ortho3 a b c ->
  let '(u1, u2, n) := finish a b c vn in
  dotR u1 u1 = 1 /\ dotR u2 u2 = 1 /\ dotR u1 u2 = 0 /\ dotR u1 n = 0 /\ dotR u2 n = 0 /\
  0 <= dotR n vn /\ (dotR c vn <> 0 -> dotR n n = 1) /\ 0 <= dotR (crossR u1 u2) n.
Proof.
  intros (Ha & Hb & Hc & Hab & Hac & Hbc). unfold finish.
  set (s := signK Rops (dotR c vn)).
  assert (Hs : (s = 1 \/ s = -1 \/ s = 0) /\ 0 <= s * dotR c vn /\ (dotR c vn <> 0 -> s * s = 1)).
  { unfold s. destruct (signK_cases (dotR c vn)) as [[H1 ->]|[[H1 ->]|[H1 ->]]].
    - split; [tauto|]. split; [lra|]. intros; ring.
    - split; [tauto|]. split; [lra|]. intros; ring.
    - split; [tauto|]. split; [lra|]. intros H; contradiction. }
  destruct Hs as (_ & Hs1 & Hs2).
  assert (Dn : forall x : V3, dotR x (scaleR s c) = s * dotR x c).
  { intros x. r3 x; r3 c. unfold dot, vscale, vx, vy, vz. cbn [fst snd add mul Rops]. ring. }
  assert (Dneg : forall x y : V3, dotR (negR x) y = - dotR x y).
  { intros x y. r3 x; r3 y. unfold dot, vneg, vx, vy, vz. cbn [fst snd add mul opp Rops]. ring. }
  assert (Dneg2 : forall x y : V3, dotR x (negR y) = - dotR x y).
  { intros x y. rewrite dot_comm, Dneg, dot_comm. reflexivity. }
  assert (Cneg : forall x y z : V3, dotR (crossR x (negR y)) z = - dotR (crossR x y) z).
  { intros x y z. r3 x; r3 y; r3 z. unfold dot, cross, vneg, vx, vy, vz. cbn [fst snd add sub mul opp Rops]. ring. }
  assert (Nvn : dotR (scaleR s c) vn = s * dotR c vn).
  { r3 c; r3 vn. unfold dot, vscale, vx, vy, vz. cbn [fst snd add mul Rops]. ring. }
  assert (Nn : dotR (scaleR s c) (scaleR s c) = s * s * dotR c c).
  { r3 c. unfold dot, vscale, vx, vy, vz. cbn [fst snd add mul Rops]. ring. }
  destruct (Rltb (dotR (crossR a b) (scaleR s c)) 0) eqn:E.
  - apply Rltb_true in E. rewrite Dn in E. rewrite ?Cneg, ?Dneg, ?Dneg2, ?Nn, ?Nvn, ?Dn, ?Dneg, ?Ha, ?Hb, ?Hc, ?Hab, ?Hac, ?Hbc.
    repeat split; try lra; try ring; try (intros H; rewrite (Hs2 H); ring).
  - apply Rltb_false in E. rewrite Dn in E. rewrite ?Nn, ?Nvn, ?Dn, ?Ha, ?Hb, ?Hc, ?Hab, ?Hac, ?Hbc.
    repeat split; try lra; try ring; try (intros H; rewrite (Hs2 H); ring).
Qed.

Lemma ortho3_perms a b c : ortho3 a b c ->
  ortho3 a c b /\ ortho3 b a c /\ ortho3 b c a /\ ortho3 c a b /\ ortho3 c b a.
Proof.
  intros (Ha & Hb & Hc & Hab & Hac & Hbc). unfold ortho3.
  rewrite (dot_comm b a), (dot_comm c a), (dot_comm c b). tauto.
Qed.

(* curv_post1 = finish applied to a permutation of the eigenvector columns *)
Lemma post_is_finish e vn : exists a b c,
  (ortho3 (ec0 e) (ec1 e) (ec2 e) -> ortho3 a b c) /\
  (u_min (curv_post1 Rops e vn), u_max (curv_post1 Rops e vn), nrm (curv_post1 Rops e vn)) = finish a b c vn.
Proof.
  unfold curv_post1.
  pose proof (argsort3_perm (opp Rops (absK Rops (dotR (ecolj e 0) vn))) (opp Rops (absK Rops (dotR (ecolj e 1) vn)))
                            (opp Rops (absK Rops (dotR (ecolj e 2) vn)))) as HP.
  destruct (argsort3 Rops _ _ _) as [[i0 i1] i2].
  cbn [In] in HP.
  destruct (ltb Rops (evalj e i2) (evalj e i1)) eqn:SW.
  - exists (ecolj e i1), (ecolj e i2), (ecolj e i0). split.
    + intros H. pose proof (ortho3_perms _ _ _ H) as (P1 & P2 & P3 & P4 & P5).
      destruct HP as [E|[E|[E|[E|[E|[E|[]]]]]]]; inversion E; subst; cbn [ecolj]; assumption.
    + cbn [u_min u_max nrm]. unfold finish. cbn [ltb zero Rops]. reflexivity.
  - exists (ecolj e i2), (ecolj e i1), (ecolj e i0). split.
    + intros H. pose proof (ortho3_perms _ _ _ H) as (P1 & P2 & P3 & P4 & P5).
      destruct HP as [E|[E|[E|[E|[E|[E|[]]]]]]]; inversion E; subst; cbn [ecolj]; assumption.
    + cbn [u_min u_max nrm]. unfold finish. cbn [ltb zero Rops]. reflexivity.
Qed.

Theorem post_frame e vn : ortho3 (ec0 e) (ec1 e) (ec2 e) ->
  let r := curv_post1 Rops e vn in
  dotR (u_min r) (u_min r) = 1 /\ dotR (u_max r) (u_max r) = 1 /\ dotR (u_min r) (u_max r) = 0 /\
  dotR (u_min r) (nrm r) = 0 /\ dotR (u_max r) (nrm r) = 0 /\
  0 <= dotR (nrm r) vn /\ 0 <= dotR (crossR (u_min r) (u_max r)) (nrm r).
Proof.
  intros H r. destruct (post_is_finish e vn) as (a & b & c & Ho & E). specialize (Ho H).
  pose proof (finish_frame a b c vn Ho) as F. fold r in E. rewrite <- E in F. tauto.
Qed.

(* every returned direction is, up to sign, one of the eigenvectors handed back by the solver *)
Theorem post_directions_are_eigenvectors e vn :
  let r := curv_post1 Rops e vn in
  let cols := [ec0 e; ec1 e; ec2 e] in
  In (u_min r) cols /\ (In (u_max r) cols \/ In (negR (u_max r)) cols).
Proof.
  intros r cols. unfold r, curv_post1.
  pose proof (argsort3_perm (opp Rops (absK Rops (dotR (ecolj e 0) vn))) (opp Rops (absK Rops (dotR (ecolj e 1) vn)))
                            (opp Rops (absK Rops (dotR (ecolj e 2) vn)))) as HP.
  destruct (argsort3 Rops _ _ _) as [[i0 i1] i2]. cbn [In] in HP.
  assert (Hc : forall j, In (ecolj e j) cols).
  { intros j. unfold cols. destruct j as [|[|j]]; cbn [ecolj In]; tauto. }
  assert (NN : forall x : V3, negR (negR x) = x).
  { intros x. r3 x. unfold vneg, vx, vy, vz. cbn [fst snd opp Rops]. repeat f_equal; ring. }
  destruct (ltb Rops (evalj e i2) (evalj e i1)); cbn [u_min u_max];
    (split; [apply Hc|]); match goal with |- context [if ?b then _ else _] => destruct b end;
    try (left; apply Hc); right; rewrite NN; apply Hc.
Qed.

(* ---------------------------------------------------------------- curvature_tria: frame in the triangle plane *)
Lemma tiny8_pos : 0 < tiny8 Rops.
Proof. unfold tiny8, frac. cbn [div ofZ Rops]. lra. Qed.

Lemma cross_dot_l (a b : V3) : dotR (crossR a b) a = 0.
Proof. r3 a; r3 b. unfold dot, cross, vx, vy, vz. cbn [fst snd add sub mul Rops]. ring. Qed.
Lemma cross_dot_r (a b : V3) : dotR (crossR a b) b = 0.
Proof. r3 a; r3 b. unfold dot, cross, vx, vy, vz. cbn [fst snd add sub mul Rops]. ring. Qed.
Lemma lagrange (a b : V3) : dotR (crossR a b) (crossR a b) = dotR a a * dotR b b - dotR a b * dotR a b.
Proof. r3 a; r3 b. unfold dot, cross, vx, vy, vz. cbn [fst snd add sub mul Rops]. ring. Qed.
Lemma dot_divs_l (a b : V3) s : s <> 0 -> dotR (vdivs Rops a s) b = dotR a b / s.
Proof. intros H. r3 a; r3 b. unfold dot, vdivs, vx, vy, vz. cbn [fst snd add mul div Rops]. field. exact H. Qed.
Lemma dot_divs_r (a b : V3) s : s <> 0 -> dotR a (vdivs Rops b s) = dotR a b / s.
Proof. intros H. rewrite dot_comm, dot_divs_l, dot_comm by exact H. reflexivity. Qed.

Lemma proj_orth (t n : V3) q : dotR (subR t (scaleR q n)) n = dotR t n - q * dotR n n.
Proof. r3 t; r3 n. unfold dot, vsub, vscale, vx, vy, vz. cbn [fst snd add sub mul Rops]. ring. Qed.

(* any vector w of the triangle plane that is not tiny yields an orthonormal in-plane frame *)
Lemma frame_generic (tn0 wv : V3) : tiny8 Rops <= norm Rops tn0 -> dotR wv tn0 = 0 -> tiny8 Rops <= norm Rops wv ->
  let tn := vdivs Rops tn0 (norm Rops tn0) in
  let u := vdivs Rops wv (maxK Rops (norm Rops wv) (tiny8 Rops)) in
  let w := crossR tn u in
  dotR u u = 1 /\ dotR w w = 1 /\ dotR u w = 0 /\ dotR u tn0 = 0 /\ dotR w tn0 = 0.
Proof.
  intros H1 Hp H2. pose proof tiny8_pos as T. cbv zeta.
  assert (M2 : maxK Rops (norm Rops wv) (tiny8 Rops) = norm Rops wv).
  { unfold maxK. cbn [ltb Rops]. destruct (Rltb (norm Rops wv) (tiny8 Rops)) eqn:E; [apply Rltb_true in E; lra|reflexivity]. }
  rewrite M2. set (N := norm Rops tn0) in *. set (tn := vdivs Rops tn0 N). set (M := norm Rops wv) in *.
  assert (HN : N * N = dotR tn0 tn0) by (unfold N, norm, norm2; cbn [sqrtK Rops]; apply sqrt_sqrt, dot_self_nonneg).
  assert (HM : M * M = dotR wv wv) by (unfold M, norm, norm2; cbn [sqrtK Rops]; apply sqrt_sqrt, dot_self_nonneg).
  assert (N0 : N <> 0) by lra. assert (M0 : M <> 0) by lra.
  assert (Tn : dotR tn tn = 1).
  { unfold tn. rewrite dot_divs_l, dot_divs_r by exact N0. rewrite <- HN. field. exact N0. }
  assert (Wn : dotR wv tn = 0).
  { unfold tn. rewrite dot_divs_r by exact N0. rewrite Hp. field. exact N0. }
  assert (Uu : dotR (vdivs Rops wv M) (vdivs Rops wv M) = 1).
  { rewrite dot_divs_l, dot_divs_r by exact M0. rewrite <- HM. field. exact M0. }
  assert (Ut : dotR tn (vdivs Rops wv M) = 0).
  { rewrite dot_divs_r by exact M0. rewrite (dot_comm tn wv), Wn. field. exact M0. }
  assert (Z : forall x : V3, dotR x tn = 0 -> dotR x tn0 = 0).
  { intros x Hx. unfold tn in Hx. rewrite dot_divs_r in Hx by exact N0.
    replace (dotR x tn0) with (dotR x tn0 / N * N) by (field; exact N0). rewrite Hx. ring. }
  repeat split.
  - exact Uu.
  - rewrite lagrange, Tn, Uu, Ut. ring.
  - rewrite dot_comm. apply cross_dot_r.
  - apply Z. rewrite dot_comm. exact Ut.
  - apply Z. apply cross_dot_l.
Qed.

(* curvature_tria: on every triangle that is not degenerate (normal and first edge longer than 1e-8) the two returned directions
   are unit, orthogonal and lie in the triangle plane -- whatever direction was pooled from the vertices *)
Theorem tria_frame_in_plane p0 p1 p2 tumin :
  let tn0 := crossR (subR p1 p0) (subR p2 p0) in
  tiny8 Rops <= norm Rops tn0 -> tiny8 Rops <= norm Rops (subR p1 p0) ->
  let '(u, w) := tria_frame Rops p0 p1 p2 tumin in
  dotR u u = 1 /\ dotR w w = 1 /\ dotR u w = 0 /\ dotR u tn0 = 0 /\ dotR w tn0 = 0.
Proof.
  intros tn0 H1 He. unfold tria_frame. fold tn0.
  pose proof tiny8_pos as T.
  assert (M1 : maxK Rops (norm Rops tn0) (tiny8 Rops) = norm Rops tn0).
  { unfold maxK. cbn [ltb Rops]. destruct (Rltb (norm Rops tn0) (tiny8 Rops)) eqn:E; [apply Rltb_true in E; lra|reflexivity]. }
  rewrite M1. set (tn := vdivs Rops tn0 (norm Rops tn0)).
  set (w0 := subR tumin (scaleR (dotR tn tumin) tn)).
  assert (N0 : norm Rops tn0 <> 0) by lra.
  assert (Tn : dotR tn tn = 1).
  { unfold tn. rewrite dot_divs_l, dot_divs_r by exact N0.
    assert (HN : norm Rops tn0 * norm Rops tn0 = dotR tn0 tn0) by (unfold norm, norm2; cbn [sqrtK Rops]; apply sqrt_sqrt, dot_self_nonneg).
    rewrite <- HN. field. exact N0. }
  cbn [ltb Rops]. destruct (Rltb (norm Rops w0) (tiny8 Rops)) eqn:E.
  - (* fallback: the first edge, which lies in the plane *)
    apply (frame_generic tn0 (subR p1 p0)); [exact H1| |exact He]. unfold tn0. rewrite dot_comm. apply cross_dot_l.
  - apply Rltb_false in E. apply (frame_generic tn0 w0); [exact H1| |lra].
    assert (W : dotR w0 tn = 0) by (unfold w0; rewrite proj_orth, Tn, (dot_comm tn tumin); ring).
    unfold tn in W. rewrite dot_divs_r in W by exact N0.
    replace (dotR w0 tn0) with (dotR w0 tn0 / norm Rops tn0 * norm Rops tn0) by (field; exact N0). rewrite W. ring.
Qed.
