(* Proofs/NormalOffsetP.v -- C13: normal_offset_(d) moves vertex i to v_i + d * n_i with n the vertex normals of the mesh before
   the move; the displacement has length exactly |d| wherever the vertex normal is unit. *)
From Coq Require Import List Arith Bool PeanoNat Lia Reals Lra.
From LaPyV Require Import Base.Scalar Base.Vec3 Base.ListAux Base.Sparse Model.TetMesh Model.TriaAdj Model.TriaOrient
  Model.Fem Model.TriaGeom Proofs.SparseP Proofs.TetMeshP Proofs.TriaAdjP Proofs.FemTriaP Proofs.TriaGeomP.
Import ListNotations.
Open Scope R_scope.
Local Notation V3 := (vec3 R).

Lemma vertex_normals_length n v ts l : vertex_normals Rops n v ts = Ok l -> length l = n.
Proof.
  unfold vertex_normals. destruct (negb (is_oriented ts)); [discriminate|]. cbv zeta. intros H.
  assert (E : length (vertex_normal_sums Rops n v ts) = n) by (unfold vertex_normal_sums; cbv zeta; rewrite map_length; apply iota_length).
  set (s0 := vertex_normal_sums Rops n v ts) in *.
  match type of H with Ok ?x = Ok l => assert (El : x = l) by congruence end. rewrite <- El, map_length. exact E.
Qed.

Lemma offset_length_sq (d : R) (p q : V3) : dotR q q = 1 ->
  dotR (vsub Rops (vadd Rops p (vscale Rops d q)) p) (vsub Rops (vadd Rops p (vscale Rops d q)) p) = d * d.
Proof.
  r3 p; r3 q. unfold dot, vsub, vadd, vscale, vx, vy, vz. cbn. intros H.
  match goal with |- ?L = _ => replace L with (d * d * (x0 * x0 + y0 * y0 + z0 * z0)) by ring end. rewrite H. ring.
Qed.

Theorem normal_offset_spec d v ts v' : normal_offset Rops d v ts = Ok v' ->
  exists nl, vertex_normals Rops (length v) v ts = Ok nl /\ length nl = length v /\ length v' = length v /\
    forall i, (i < length v)%nat ->
      getv Rops v' i = vadd Rops (getv Rops v i) (vscale Rops d (getv Rops nl i)) /\
      (dotR (getv Rops nl i) (getv Rops nl i) = 1 ->
       dotR (vsub Rops (getv Rops v' i) (getv Rops v i)) (vsub Rops (getv Rops v' i) (getv Rops v i)) = d * d).
Proof.
  unfold normal_offset. destruct (vertex_normals Rops (length v) v ts) as [nl|e] eqn:E; [|discriminate]. intros H.
  assert (Ev : map (fun '(p, q) => vadd Rops p (vscale Rops d q)) (combine v nl) = v') by congruence. clear H.
  pose proof (vertex_normals_length _ _ _ _ E) as Ln.
  exists nl. split; [reflexivity|]. split; [exact Ln|]. split; [rewrite <- Ev, map_length, combine_length; lia|].
  intros i Hi.
  assert (G : getv Rops v' i = vadd Rops (getv Rops v i) (vscale Rops d (getv Rops nl i))).
  { rewrite <- Ev. unfold getv.
    match goal with |- context [map ?g (combine v nl)] => set (f := g) end.
    rewrite (nth_indep _ (zero3 Rops) (f (zero3 Rops, zero3 Rops))) by (rewrite map_length, combine_length; lia).
    rewrite (map_nth f). rewrite combine_nth by (symmetry; exact Ln). reflexivity. }
  split; [exact G|]. intros Hu. rewrite G. apply offset_length_sq. exact Hu.
Qed.

(* together with the unit-or-negligible theorem: every vertex moves by exactly |d|, or its normal is a negligible raw sum *)
Theorem normal_offset_moves_by_d d v ts v' : normal_offset Rops d v ts = Ok v' ->
  length v' = length v /\
  forall i, (i < length v)%nat ->
    dotR (vsub Rops (getv Rops v' i) (getv Rops v i)) (vsub Rops (getv Rops v' i) (getv Rops v i)) = d * d \/
    exists w, getv Rops v' i = vadd Rops (getv Rops v i) (vscale Rops d w) /\ norm Rops w <= eps52 Rops * vn_max (length v) v ts.
Proof.
  intros H. destruct (normal_offset_spec d v ts v' H) as (nl & En & Ln & Lv & Hi). split; [exact Lv|]. intros i Hlt.
  destruct (Hi i Hlt) as [G U].
  pose proof (vertex_normals_unit_or_negligible _ _ _ _ En) as F. rewrite Forall_forall in F.
  assert (Hin : In (getv Rops nl i) nl) by (unfold getv; apply nth_In; lia).
  destruct (F _ Hin) as [Hu|Hs]; [left; apply U; exact Hu|right; exists (getv Rops nl i); split; assumption].
Qed.

(* the premise is met by every oriented mesh, and only by those *)
Lemma normal_offset_total d v ts : is_oriented ts = true -> exists v', normal_offset Rops d v ts = Ok v'.
Proof. unfold normal_offset, vertex_normals. intros ->. cbn [negb]. cbv zeta. eexists. reflexivity. Qed.
Lemma normal_offset_rejects_unoriented d v ts : is_oriented ts = false -> normal_offset Rops d v ts = Err ValueError.
Proof. unfold normal_offset, vertex_normals. intros ->. reflexivity. Qed.
Lemma normal_offset_defined_iff_oriented d v ts :
  (is_oriented ts = true -> exists v', normal_offset Rops d v ts = Ok v') /\
  (is_oriented ts = false -> normal_offset Rops d v ts = Err ValueError).
Proof. split; [apply normal_offset_total|apply normal_offset_rejects_unoriented]. Qed.
