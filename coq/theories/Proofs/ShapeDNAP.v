(* Proofs/ShapeDNAP.v -- reweighting, distance and normalisation facts for shapedna.py (C04). *)
From Coq Require Import List Arith Bool PeanoNat Lia Reals Lra ZArith.
From LaPyV Require Import Base.Scalar Base.Vec3 Base.ListAux Base.Sparse Model.TetMesh Model.TriaAdj Model.TriaOrient Model.Fem
  Model.TriaGeom Model.ShapeDNA Proofs.SparseP Proofs.TetMeshP Proofs.FemTriaP Proofs.TriaAdjP Proofs.TriaGeomP.
Import ListNotations.
Open Scope R_scope.

(* reweight_ev divides the i-th value (1-based) by i *)
Theorem reweight_ev_nth l i x : nth_error l i = Some x ->
  nth_error (reweight_ev Rops l) i = Some (x / INR (S i)).
Proof.
  intros H. unfold reweight_ev. rewrite nth_error_map.
  assert (E' : nth_error (enumerate l) i = Some (i, x)).
  { unfold enumerate, iota.
    assert (G : forall s i, nth_error l i = Some x -> nth_error (combine (iota_from s (length l)) l) i = Some ((s + i)%nat, x)).
    { clear. induction l as [|y l IH]; intros s i H; [destruct i; discriminate|]. destruct i as [|i]; cbn [length iota_from combine nth_error] in *.
      - inversion H; subst. f_equal. f_equal. lia.
      - rewrite (IH (S s) i H). f_equal. f_equal. lia. }
    rewrite (G 0%nat i H). reflexivity. }
  rewrite E'. cbn [option_map div ofZ Rops]. f_equal. f_equal. rewrite INR_IZR_INZ. reflexivity.
Qed.

(* compute_distance is the Euclidean distance: non-negative, symmetric, zero exactly for equal vectors *)
Definition sqdist (a b : list R) : R := Rsum (fun p => (fst p - snd p) * (fst p - snd p)) (combine a b).
Lemma compute_distance_form a b : compute_distance Rops a b = sqrt (sqdist a b).
Proof.
  unfold compute_distance, sqdist. cbn [sqrtK Rops]. f_equal. rewrite sumK_Rsum, Rsum_map. apply Rsum_ext. intros [x y] _. reflexivity.
Qed.
Lemma sqdist_nonneg a b : 0 <= sqdist a b.
Proof. unfold sqdist. apply Rsum_nonneg. intros [x y] _. cbn [fst snd]. pose proof (Rle_0_sqr (x - y)) as H. unfold Rsqr in H. exact H. Qed.
Theorem compute_distance_nonneg a b : 0 <= compute_distance Rops a b.
Proof. rewrite compute_distance_form. apply sqrt_pos. Qed.
Theorem compute_distance_sym a b : compute_distance Rops a b = compute_distance Rops b a.
Proof.
  rewrite !compute_distance_form. f_equal. unfold sqdist. revert b. induction a as [|x a IH]; intros [|y b]; cbn [combine Rsum fst snd]; try reflexivity.
  rewrite IH. ring.
Qed.
Theorem compute_distance_zero_iff a b : length a = length b -> (compute_distance Rops a b = 0 <-> a = b).
Proof.
  intros Hl. rewrite compute_distance_form. split.
  - intros H. apply sqrt_eq_0 in H; [|apply sqdist_nonneg]. revert b Hl H. induction a as [|x a IH]; intros [|y b] Hl H; try discriminate; [reflexivity|].
    unfold sqdist in H. cbn [combine Rsum fst snd] in H. fold (sqdist a b) in H.
    assert (0 <= sqdist a b) by apply sqdist_nonneg. assert (0 <= (x - y) * (x - y)) by (pose proof (Rle_0_sqr (x - y)) as Q; unfold Rsqr in Q; exact Q).
    assert ((x - y) * (x - y) = 0) by lra. assert (sqdist a b = 0) by lra.
    f_equal; [apply Rmult_integral in H2; destruct H2; lra|]. apply IH; [cbn in Hl; lia|assumption].
  - intros ->. replace (sqdist b b) with 0; [apply sqrt_0|]. unfold sqdist. symmetry. apply Rsum_zero.
    intros [x y] Hin. cbn [fst snd].
    assert (x = y).
    { clear - Hin. induction b as [|z b IH]; [destruct Hin|]. cbn [combine In] in Hin. destruct Hin as [H|H]; [inversion H; reflexivity|apply IH; exact H]. }
    subst. ring.
Qed.

(* normalisation of scaled copies coincides: if the spectrum scales by 1/s^2, the area by s^2 and the volume by s^3,
   then evals * area and evals * pow23 vol are unchanged (pow23 x ^ 3 = x ^ 2 and positivity pin pow23 down) *)
Theorem surface_normalisation_scale_free (lam area s : R) : s <> 0 -> (lam / (s * s)) * (s * s * area) = lam * area.
Proof. intros. field. assumption. Qed.
Theorem volume_normalisation_scale_free (pow23 : R -> R) (lam vol s : R) : 0 < s -> 0 < vol ->
  (forall x, 0 < x -> 0 < pow23 x /\ pow23 x * pow23 x * pow23 x = x * x) ->
  (lam / (s * s)) * pow23 (s * s * s * vol) = lam * pow23 vol.
Proof.
  intros Hs Hv Hp.
  assert (Hsv : 0 < s * s * s * vol) by (apply Rmult_lt_0_compat; [apply Rmult_lt_0_compat; [nra|assumption]|assumption]).
  destruct (Hp vol Hv) as [P1 C1]. destruct (Hp _ Hsv) as [P2 C2].
  (* cube roots are unique among positive numbers: pow23 (s^3 vol) = s^2 pow23 vol *)
  assert (E : pow23 (s * s * s * vol) = s * s * pow23 vol).
  { set (a := pow23 (s * s * s * vol)) in *. set (c := s * s * pow23 vol).
    assert (Pc : 0 < c) by (unfold c; apply Rmult_lt_0_compat; [nra|assumption]).
    assert (Cc : c * c * c = a * a * a).
    { unfold c. rewrite C2. replace (s * s * pow23 vol * (s * s * pow23 vol) * (s * s * pow23 vol))
        with ((s * s * s) * (s * s * s) * (pow23 vol * pow23 vol * pow23 vol)) by ring. rewrite C1. ring. }
    destruct (Rtotal_order a c) as [Hlt|[Heq|Hgt]]; [exfalso|exact Heq|exfalso].
    - assert (a * a * a < c * c * c) by (assert (a * a < c * c) by nra; nra). lra.
    - assert (c * c * c < a * a * a) by (assert (c * c < a * a) by nra; nra). lra. }
  rewrite E. field. lra.
Qed.
