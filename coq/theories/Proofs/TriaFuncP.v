(* Proofs/TriaFuncP.v -- theorems about function transfer and smoothing (C15) over R. *)
From Coq Require Import List Arith Bool PeanoNat Lia Reals Lra.
From LaPyV Require Import Base.Scalar Base.Vec3 Base.ListAux Base.Sparse Model.TetMesh Model.TriaAdj Model.TriaOrient
  Model.Fem Model.TriaGeom Model.TriaFunc Proofs.SparseP Proofs.TetMeshP Proofs.FemTriaP Proofs.TriaAdjP Proofs.TriaGeomP.
Import ListNotations.
Open Scope R_scope.

Lemma nth_repeat_lt {A} (c d : A) n i : (i < n)%nat -> nth i (repeat c n) d = c.
Proof. revert i. induction n as [|n IH]; intros i H; [lia|]. destruct i; cbn; [reflexivity|apply IH; lia]. Qed.

(* ------------------------------------------------------------------ scatter by fold_left *)
Lemma fold_scatter (l : list (nat * R)) k a0 :
  fold_left (fun acc '(i, x) => if Nat.eqb i k then acc + x else acc) l a0
  = a0 + Rsum (fun p => if Nat.eqb (fst p) k then snd p else 0) l.
Proof.
  revert a0. induction l as [|[i x] l IH]; intros a0; cbn [fold_left Rsum fst snd]; [ring|].
  rewrite IH. destruct (Nat.eqb i k); ring.
Qed.

Definition corner_list (ts : list tri) (g : list R) : list (nat * R) :=
  map (fun '(t, x) => let '(a, _, _) := t in (a, x)) (combine ts g) ++
  map (fun '(t, x) => let '(_, b, _) := t in (b, x)) (combine ts g) ++
  map (fun '(t, x) => let '(_, _, c) := t in (c, x)) (combine ts g).

Lemma corner_list_total ts g : Rsum snd (corner_list ts g) = 3 * Rsum snd (combine ts g).
Proof.
  unfold corner_list. rewrite !Rsum_app, !Rsum_map.
  assert (E : forall (h : tri * R -> nat * R), (forall p, snd (h p) = snd p) ->
              Rsum (fun x => snd (h x)) (combine ts g) = Rsum snd (combine ts g)).
  { intros h Hh. apply Rsum_ext. intros; apply Hh. }
  rewrite !E by (intros [[[a b] c] x]; reflexivity). ring.
Qed.
Lemma corner_list_range n ts g : Forall (fun i => (i < n)%nat) (tri_flat ts) ->
  Forall (fun p => (fst p < n)%nat) (corner_list ts g).
Proof.
  intros H. rewrite Forall_forall in H. apply Forall_forall. intros [i x] Hin. cbn [fst].
  unfold corner_list in Hin. rewrite !in_app_iff, !in_map_iff in Hin.
  assert (G : forall a b c y, In ((a, b, c), y) (combine ts g) -> (a < n /\ b < n /\ c < n)%nat).
  { intros a b c y Hc. apply in_combine_l in Hc.
    assert (Hf : forall w, In w [a; b; c] -> In w (tri_flat ts)).
    { intros w Hw. unfold tri_flat. apply in_flat_map. exists (a, b, c). split; [assumption|exact Hw]. }
    repeat split; apply H, Hf; cbn; tauto. }
  destruct Hin as [([[[a b] c] y] & E & Hc)|[([[[a b] c] y] & E & Hc)|([[[a b] c] y] & E & Hc)]]; inversion E; subst;
    destruct (G _ _ _ _ Hc) as (A & B & C); assumption.
Qed.

(* the model's column in closed form *)
Lemma tfunc_col_form n v ts w f :
  tfunc_to_vfunc_col Rops n v ts w f =
  map (fun k => Rsum (fun p => if Nat.eqb (fst p) k then snd p else 0)
                     (corner_list ts (if w then map (fun '(x, a) => x * a) (combine f (tria_areas Rops v ts)) else f)) / 3) (iota n).
Proof.
  unfold tfunc_to_vfunc_col. apply map_ext. intros k. cbn [add mul div zero ofZ Rops].
  fold (corner_list ts (if w then map (fun '(x, a) => x * a) (combine f (tria_areas Rops v ts)) else f)).
  rewrite fold_scatter. field.
Qed.

(* C15: totals are conserved: sum over vertices = sum over triangles of the (weighted) values *)
Theorem tfunc_to_vfunc_total n v ts w f : Forall (fun i => (i < n)%nat) (tri_flat ts) ->
  Rsum (fun x => x) (tfunc_to_vfunc_col Rops n v ts w f) =
  Rsum snd (combine ts (if w then map (fun '(x, a) => x * a) (combine f (tria_areas Rops v ts)) else f)).
Proof.
  intros H. rewrite tfunc_col_form, Rsum_map.
  set (g := if w then _ else f).
  rewrite (Rsum_ext _ (fun k => / 3 * Rsum (fun p => if Nat.eqb (fst p) k then snd p else 0) (corner_list ts g))) by (intros; field).
  rewrite Rsum_scal, Rsum_swap.
  rewrite (Rsum_ext _ snd).
  - rewrite corner_list_total. field.
  - intros [i x] Hin. cbn [fst snd]. apply Rsum_indicator.
    assert (R := corner_list_range n ts g H). rewrite Forall_forall in R. apply (R (i, x) Hin).
Qed.

(* map_vfunc_to_tfunc: mean of the three corner values; constants go to constants *)
Theorem vfunc_to_tfunc_mean ts f k a b c : nth_error ts k = Some (a, b, c) ->
  nth_error (vfunc_to_tfunc_col Rops ts f) k = Some ((nth a f 0 + nth b f 0 + nth c f 0) / 3).
Proof.
  intros H. unfold vfunc_to_tfunc_col. rewrite nth_error_map, H. cbn [option_map add div zero ofZ Rops]. f_equal.
  assert (G : forall i, nth i (map (fun x => x / 3) f) 0 = nth i f 0 / 3).
  { intros i. replace 0 with (0 / 3) at 1 by field. exact (map_nth (fun x => x / 3) f 0 i). }
  rewrite !G. field.
Qed.
Theorem vfunc_to_tfunc_constant ts n c : Forall (fun i => (i < n)%nat) (tri_flat ts) ->
  vfunc_to_tfunc_col Rops ts (repeat c n) = repeat c (length ts).
Proof.
  intros H. unfold vfunc_to_tfunc_col. induction ts as [|[[a b] d] l IH]; [reflexivity|].
  cbn [map length repeat]. f_equal.
  - cbn [add div zero ofZ Rops].
    assert (G : forall i, (i < n)%nat -> nth i (map (fun x => x / 3) (repeat c n)) 0 = c / 3).
    { intros i Hi. replace 0 with (0 / 3) at 1 by field. rewrite (map_nth (fun x => x / 3) (repeat c n) 0 i). f_equal. apply nth_repeat_lt. exact Hi. }
    unfold tri_flat in H. cbn [flat_map tri_verts app] in H.
    inversion H as [|? ? Ha H1]; subst. inversion H1 as [|? ? Hb H2]; subst. inversion H2 as [|? ? Hd H3]; subst.
    rewrite !G by assumption. field.
  - apply IH. unfold tri_flat in *. cbn [flat_map tri_verts app] in H.
    inversion H as [|? ? _ H1]; subst. inversion H1 as [|? ? _ H2]; subst. inversion H2; assumption.
Qed.

(* ------------------------------------------------------------------ smoothing operator *)
Lemma sumK_const (l : list nat) c : sumK Rops (map (fun _ => c) l) = INR (length l) * c.
Proof.
  rewrite sumK_Rsum, Rsum_map. induction l as [|x l IH]; [cbn; ring|].
  cbn [Rsum length]. rewrite IH, S_INR. ring.
Qed.

Lemma fold_weights (row : list (nat * R)) (f : list R) a0 :
  fold_left (fun acc '(j, w) => acc + w * nth j f 0) row a0 = a0 + Rsum (fun p => snd p * nth (fst p) f 0) row.
Proof. revert a0. induction row as [|[j w] l IH]; intros a0; cbn [fold_left Rsum fst snd]; [ring|]. rewrite IH. ring. Qed.

(* one smoothing step at vertex i is the plain mean over its neighbours: areas cancel exactly *)
Theorem smooth_once_is_neighbour_mean va adj n f i : (i < n)%nat -> nth i va 0 <> 0 -> nbrs adj i <> [] ->
  nth i (smooth_once Rops va adj n f) 0 = Rsum (fun j => nth j f 0) (nbrs adj i) / INR (length (nbrs adj i)).
Proof.
  intros Hi Ha Hnb. unfold smooth_once.
  assert (E : nth i (map (fun i0 => fold_left (fun acc '(j, w) => add Rops acc (mul Rops w (nth j f (zero Rops))))
                                              (smooth_row Rops va adj i0) (zero Rops)) (iota n)) 0
              = fold_left (fun acc '(j, w) => acc + w * nth j f 0) (smooth_row Rops va adj i) 0).
  { assert (Hn : nth_error (iota n) i = Some i).
    { unfold iota. assert (G : forall s m k, (k < m)%nat -> nth_error (iota_from s m) k = Some (s + k)%nat).
      { intros s m. revert s. induction m as [|m IH]; intros s k Hk; [lia|]. destruct k as [|k]; cbn [iota_from nth_error].
        - f_equal. lia.
        - rewrite IH by lia. f_equal. lia. }
      rewrite G by assumption. reflexivity. }
    erewrite nth_error_nth; [reflexivity|]. rewrite nth_error_map, Hn. reflexivity. }
  rewrite E, fold_weights. unfold smooth_row. cbn [one mul div zero Rops]. rewrite sumK_const.
  set (a := nth i va 0) in *. set (nb := nbrs adj i) in *.
  assert (Hd : INR (length nb) <> 0).
  { apply not_0_INR. destruct nb; [contradiction|discriminate]. }
  rewrite Rsum_map. cbn [fst snd].
  rewrite (Rsum_ext _ (fun j => / INR (length nb) * nth j f 0)).
  - rewrite Rsum_scal. field. exact Hd.
  - intros j _. field. split; assumption.
Qed.

Lemma Rsum_bounds {X} (h : X -> R) lo hi (l : list X) : (forall x, In x l -> lo <= h x <= hi) ->
  INR (length l) * lo <= Rsum h l <= INR (length l) * hi.
Proof.
  induction l as [|x l IH]; intros H; [cbn; lra|]. cbn [Rsum length]. rewrite S_INR.
  assert (A : lo <= h x <= hi) by (apply H; left; reflexivity).
  assert (B : INR (length l) * lo <= Rsum h l <= INR (length l) * hi) by (apply IH; intros; apply H; right; assumption).
  lra.
Qed.

(* weights non-negative, sum to one, supported on edge neighbours: the step never leaves [lo, hi] *)
Theorem smooth_once_range va adj n f i lo hi : (i < n)%nat -> nth i va 0 <> 0 -> nbrs adj i <> [] ->
  (forall j, In j (nbrs adj i) -> lo <= nth j f 0 <= hi) ->
  lo <= nth i (smooth_once Rops va adj n f) 0 <= hi.
Proof.
  intros Hi Ha Hnb Hb. rewrite smooth_once_is_neighbour_mean by assumption.
  assert (Hd : 0 < INR (length (nbrs adj i))).
  { apply lt_0_INR. destruct (nbrs adj i); [contradiction|cbn; lia]. }
  destruct (Rsum_bounds (fun j => nth j f 0) lo hi (nbrs adj i) Hb) as [L U].
  split.
  - apply (Rmult_le_reg_r (INR (length (nbrs adj i)))); [exact Hd|].
    replace (Rsum (fun j => nth j f 0) (nbrs adj i) / INR (length (nbrs adj i)) * INR (length (nbrs adj i)))
      with (Rsum (fun j => nth j f 0) (nbrs adj i)) by (field; lra). lra.
  - apply (Rmult_le_reg_r (INR (length (nbrs adj i)))); [exact Hd|].
    replace (Rsum (fun j => nth j f 0) (nbrs adj i) / INR (length (nbrs adj i)) * INR (length (nbrs adj i)))
      with (Rsum (fun j => nth j f 0) (nbrs adj i)) by (field; lra). lra.
Qed.

(* constants are fixed *)
Theorem smooth_once_constant va adj n c i : (i < n)%nat -> nth i va 0 <> 0 -> nbrs adj i <> [] ->
  (forall j, In j (nbrs adj i) -> (j < n)%nat) ->
  nth i (smooth_once Rops va adj n (repeat c n)) 0 = c.
Proof.
  intros Hi Ha Hnb Hr.
  assert (R := smooth_once_range va adj n (repeat c n) i c c Hi Ha Hnb).
  assert (lo : c <= nth i (smooth_once Rops va adj n (repeat c n)) 0 <= c).
  { apply R. intros j Hj. rewrite nth_repeat_lt by (apply Hr; assumption). lra. }
  lra.
Qed.

(* linearity of one step *)
Theorem smooth_once_linear va adj n f g a b i : (i < n)%nat -> nth i va 0 <> 0 -> nbrs adj i <> [] ->
  length f = length g ->
  nth i (smooth_once Rops va adj n (map (fun '(x, y) => a * x + b * y) (combine f g))) 0 =
  a * nth i (smooth_once Rops va adj n f) 0 + b * nth i (smooth_once Rops va adj n g) 0.
Proof.
  intros Hi Ha Hnb Hl. rewrite !smooth_once_is_neighbour_mean by assumption.
  assert (E : forall j, nth j (map (fun '(x, y) => a * x + b * y) (combine f g)) 0 = a * nth j f 0 + b * nth j g 0).
  { intros j. revert g j Hl. induction f as [|x f IH]; intros [|y g] j Hl; try discriminate.
    - destruct j; cbn; ring.
    - destruct j as [|j]; cbn [combine map nth]; [reflexivity|]. apply IH. cbn in Hl. lia. }
  rewrite (Rsum_ext _ (fun j => a * nth j f 0 + b * nth j g 0)) by (intros; apply E).
  rewrite Rsum_plus, !Rsum_scal.
  assert (Hd : INR (length (nbrs adj i)) <> 0) by (apply not_0_INR; destruct (nbrs adj i); [contradiction|discriminate]).
  field. exact Hd.
Qed.

(* n applications stay in range: induction over the iteration *)
Definition smooth_good (va : list R) (adj : list tri) (n : nat) : Prop :=
  forall i, (i < n)%nat -> nth i va 0 <> 0 /\ nbrs adj i <> [] /\ forall j, In j (nbrs adj i) -> (j < n)%nat.

Lemma smooth_once_length va adj n f : length (smooth_once Rops va adj n f) = n.
Proof. unfold smooth_once. rewrite map_length. apply iota_length. Qed.

Theorem smooth_iter_range va adj n k f lo hi : smooth_good va adj n ->
  (forall j, (j < n)%nat -> lo <= nth j f 0 <= hi) ->
  forall i, (i < n)%nat -> lo <= nth i (iter_n k (smooth_once Rops va adj n) f) 0 <= hi.
Proof.
  intros G. revert f. induction k as [|k IH]; intros f Hb i Hi; cbn [iter_n]; [apply Hb; assumption|].
  apply IH; [|assumption]. intros j Hj. destruct (G j Hj) as (Ha & Hnb & Hr).
  apply smooth_once_range; try assumption. intros j' Hj'. apply Hb. apply Hr. assumption.
Qed.
Theorem smooth_col_range va adj n k f lo hi : smooth_good va adj n ->
  (forall j, (j < n)%nat -> lo <= nth j f 0 <= hi) ->
  forall i, (i < n)%nat -> lo <= nth i (smooth_col Rops va adj n k f) 0 <= hi.
Proof. intros. unfold smooth_col. apply smooth_iter_range; assumption. Qed.
