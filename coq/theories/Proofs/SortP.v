(* Proofs/SortP.v -- facts about the sorting / grouping helpers of Base/ListAux.v. *)
From Coq Require Import List Arith Bool PeanoNat Permutation Sorted Lia.
From LaPyV Require Import Base.ListAux.
Import ListNotations.

Section InsSortP.
  Context {A : Type} (le : A -> A -> bool).
  Context (le_total : forall a b, le a b = true \/ le b a = true).
  Context (le_trans : forall a b c, le a b = true -> le b c = true -> le a c = true).
  Notation LE := (fun a b => le a b = true).

  Lemma insert_by_perm x l : Permutation (insert_by le x l) (x :: l).
  Proof.
    induction l as [|y tl IH]; cbn [insert_by]; [reflexivity|].
    destruct (le y x); [|reflexivity].
    rewrite IH. apply perm_swap.
  Qed.

  Lemma sort_by_perm_acc l : forall acc, Permutation (fold_left (fun a x => insert_by le x a) l acc) (l ++ acc).
  Proof.
    induction l as [|x tl IH]; intros acc; cbn [fold_left app]; [reflexivity|].
    rewrite IH. rewrite insert_by_perm. symmetry. apply Permutation_middle.
  Qed.

  Lemma sort_by_perm l : Permutation (sort_by le l) l.
  Proof. unfold sort_by. rewrite sort_by_perm_acc. rewrite app_nil_r. reflexivity. Qed.

  Lemma insert_by_sorted x l : StronglySorted LE l -> StronglySorted LE (insert_by le x l).
  Proof.
    induction l as [|y tl IH]; intros Hs; cbn [insert_by].
    - constructor; constructor.
    - inversion Hs as [|? ? Hs' Hall]; subst.
      destruct (le y x) eqn:E.
      + constructor; [apply IH; assumption|].
        assert (P : Permutation (insert_by le x tl) (x :: tl)) by apply insert_by_perm.
        apply Forall_forall. intros z Hz.
        apply (Permutation_in _ P) in Hz. destruct Hz as [->|Hz]; [assumption|].
        rewrite Forall_forall in Hall. apply Hall; assumption.
      + destruct (le_total y x) as [C|C]; [congruence|].
        constructor; [assumption|]. constructor; [assumption|].
        rewrite Forall_forall in Hall |- *. intros z Hz. eapply le_trans; [exact C|]. apply Hall; assumption.
  Qed.

  Lemma sort_by_sorted_acc l : forall acc, StronglySorted LE acc ->
    StronglySorted LE (fold_left (fun a x => insert_by le x a) l acc).
  Proof.
    induction l as [|x tl IH]; intros acc Hs; cbn [fold_left]; [assumption|].
    apply IH. apply insert_by_sorted; assumption.
  Qed.

  Lemma sort_by_sorted l : StronglySorted LE (sort_by le l).
  Proof. apply sort_by_sorted_acc. constructor. Qed.
End InsSortP.

Section GroupsP.
  Context {A : Type} (eqA : A -> A -> bool) (le : A -> A -> bool).
  Context (eqA_spec : forall a b, eqA a b = true <-> a = b).
  Context (le_antisym : forall a b, le a b = true -> le b a = true -> a = b).
  Notation LEK := (fun (p q : A * nat) => le (fst p) (fst q) = true).

  Definition keycount (k : A) (l : list (A * nat)) : nat :=
    length (filter (fun p => eqA (fst p) k) l).

  Lemma eqA_refl a : eqA a a = true.
  Proof. apply eqA_spec; reflexivity. Qed.
  Lemma eqA_neq a b : a <> b -> eqA a b = false.
  Proof. intros H. destruct (eqA a b) eqn:E; [apply eqA_spec in E; contradiction|reflexivity]. Qed.

  Lemma keycount_cons_eq k i l : keycount k ((k, i) :: l) = S (keycount k l).
  Proof. unfold keycount. cbn [filter fst]. rewrite eqA_refl. reflexivity. Qed.
  Lemma keycount_cons_neq k k' i l : k' <> k -> keycount k ((k', i) :: l) = keycount k l.
  Proof. intros H. unfold keycount. cbn [filter fst]. rewrite (eqA_neq _ _ H). reflexivity. Qed.
  Lemma keycount_zero k l : (forall i, ~ In (k, i) l) -> keycount k l = 0.
  Proof.
    induction l as [|[k' i'] tl IH]; intros H; [reflexivity|].
    destruct (eqA k' k) eqn:E.
    - apply eqA_spec in E. subst. exfalso. apply (H i'). left; reflexivity.
    - unfold keycount in *. cbn [filter fst]. rewrite E. apply IH. intros i Hi. apply (H i). right; assumption.
  Qed.
  Lemma keycount_pos k i l : In (k, i) l -> keycount k l >= 1.
  Proof.
    induction l as [|[k' i'] tl IH]; intros H; [destruct H|].
    destruct H as [H|H].
    - inversion H; subst. rewrite keycount_cons_eq. lia.
    - destruct (eqA k' k) eqn:E.
      + apply eqA_spec in E; subst. rewrite keycount_cons_eq. lia.
      + unfold keycount in *. cbn [filter fst]. rewrite E. apply IH; assumption.
  Qed.

  Lemma group_head k i tl : exists i' c rest, group_sorted eqA ((k, i) :: tl) = (k, i', c) :: rest.
  Proof.
    cbn [group_sorted]. destruct (group_sorted eqA tl) as [|[[k' i'] c'] rest].
    - eauto.
    - destruct (eqA k k'); eauto.
  Qed.

  Lemma group_sorted_spec l : StronglySorted LEK l ->
    NoDup (map (fun g => fst (fst g)) (group_sorted eqA l)) /\
    (forall k i c, In (k, i, c) (group_sorted eqA l) -> c = keycount k l /\ In (k, i) l) /\
    (forall k i, In (k, i) l -> exists i' c, In (k, i', c) (group_sorted eqA l)).
  Proof.
    induction l as [|[k i] tl IH]; intros Hs.
    - cbn. split; [constructor|]. split; [intros ? ? ? []|intros ? ? []].
    - inversion Hs as [|? ? Hs' Hall]; subst. specialize (IH Hs'). destruct IH as (ND & IHa & IHb).
      rewrite Forall_forall in Hall.
      cbn [group_sorted].
      destruct (group_sorted eqA tl) as [|[[k' i'] c'] rest] eqn:G.
      + (* tl has no groups: tl = [] *)
        assert (tl = []) as ->.
        { destruct tl as [|[k2 i2] tl2]; [reflexivity|].
          destruct (IHb k2 i2 (or_introl eq_refl)) as (? & ? & []). }
        cbn [map fst]. split; [constructor; [intros []|constructor]|]. split.
        * intros k0 i0 c0 [H|[]]. inversion H; subst. rewrite keycount_cons_eq. split; [reflexivity|left; reflexivity].
        * intros k0 i0 [H|[]]. inversion H; subst. exists i0, 1. left; reflexivity.
      + destruct (eqA k k') eqn:E.
        * apply eqA_spec in E. subst k'.
          cbn [map fst] in *. split; [assumption|]. split.
          -- intros k0 i0 c0 [H|H].
             ++ inversion H; subst. destruct (IHa k0 i' c' (or_introl eq_refl)) as (-> & _).
                rewrite keycount_cons_eq. split; [reflexivity|left; reflexivity].
             ++ destruct (IHa k0 i0 c0 (or_intror H)) as (-> & Hin).
                inversion ND as [|? ? Hnot _]; subst.
                assert (k <> k0).
                { intros ->. apply Hnot. apply in_map_iff. exists (k0, i0, keycount k0 tl). auto. }
                rewrite keycount_cons_neq by assumption. split; [reflexivity|right; assumption].
          -- intros k0 i0 [H|H].
             ++ inversion H; subst. exists i0, (S c'). left; reflexivity.
             ++ destruct (IHb k0 i0 H) as (i2 & c2 & [H2|H2]).
                ** inversion H2; subst. exists i, (S c2). left; reflexivity.
                ** exists i2, c2. right; assumption.
        * assert (Hk : k <> k') by (intros ->; rewrite eqA_refl in E; discriminate).
          (* k does not occur in tl *)
          assert (Hno : forall j, ~ In (k, j) tl).
          { intros j Hj.
            (* head key of tl is k' *)
            destruct tl as [|[k2 i2] tl2]; [destruct Hj|].
            destruct (group_head k2 i2 tl2) as (i3 & c3 & rest3 & G3). rewrite G in G3. inversion G3; subst.
            assert (L1 : le k k2 = true) by (apply (Hall (k2, i2)); left; reflexivity).
            inversion Hs' as [|? ? _ Hall2]; subst. rewrite Forall_forall in Hall2.
            destruct Hj as [Hj|Hj]; [inversion Hj; subst; contradiction|].
            assert (L2 : le k2 k = true) by (apply (Hall2 (k, j)); assumption).
            apply Hk. apply le_antisym; assumption. }
          assert (Hnk : ~ In k (map (fun g : A * nat * nat => fst (fst g)) ((k', i', c') :: rest))).
          { intros Hin. apply in_map_iff in Hin. destruct Hin as ([[k3 i3] c3] & Hk3 & Hin3). cbn in Hk3. subst k3.
            destruct (IHa k i3 c3 Hin3) as (_ & Hin'). apply (Hno _ Hin'). }
          split.
          -- change (NoDup (k :: map (fun g : A * nat * nat => fst (fst g)) ((k', i', c') :: rest))).
             constructor; assumption.
          -- split.
             ++ intros k0 i0 c0 [H|H].
                ** inversion H; subst. rewrite keycount_cons_eq, keycount_zero by assumption. split; [reflexivity|left; reflexivity].
                ** destruct (IHa k0 i0 c0 H) as (-> & Hin). split; [|right; assumption].
                   rewrite keycount_cons_neq; [reflexivity|]. intros ->. apply (Hno _ Hin).
             ++ intros k0 i0 [H|H].
                ** inversion H; subst. exists i0, 1. left; reflexivity.
                ** destruct (IHb k0 i0 H) as (i2 & c2 & H2). exists i2, c2. right; assumption.
  Qed.
End GroupsP.

(* the lexicographic order on triples *)
Lemma tri_eqb_spec a b : tri_eqb a b = true <-> a = b.
Proof.
  destruct a as [[a0 a1] a2], b as [[b0 b1] b2]. unfold tri_eqb.
  rewrite !andb_true_iff, !Nat.eqb_eq. split; [intros [[-> ->] ->]; reflexivity|intros H; inversion H; auto].
Qed.
Lemma pair_eqb_spec a b : pair_eqb a b = true <-> a = b.
Proof.
  destruct a as [a0 a1], b as [b0 b1]. unfold pair_eqb. cbn [fst snd].
  rewrite andb_true_iff, !Nat.eqb_eq. split; [intros [-> ->]; reflexivity|intros H; inversion H; auto].
Qed.
Lemma pair_leb_spec a b : pair_leb a b = true <-> (fst a < fst b \/ (fst a = fst b /\ snd a <= snd b)).
Proof.
  unfold pair_leb. destruct (Nat.ltb_spec (fst a) (fst b)); [split; auto|].
  destruct (Nat.eqb_spec (fst a) (fst b)).
  - rewrite Nat.leb_le. split; [auto|]. intros [?|[_ ?]]; [lia|assumption].
  - split; [discriminate|]. intros [?|[? _]]; lia.
Qed.
Lemma tri_leb_spec a0 a1 a2 b0 b1 b2 : tri_leb (a0, a1, a2) (b0, b1, b2) = true <->
  (a0 < b0 \/ (a0 = b0 /\ (a1 < b1 \/ (a1 = b1 /\ a2 <= b2)))).
Proof.
  unfold tri_leb. destruct (Nat.ltb_spec a0 b0); [split; auto|].
  destruct (Nat.eqb_spec a0 b0).
  - rewrite pair_leb_spec. cbn [fst snd]. split; [auto|]. intros [?|[_ ?]]; [lia|assumption].
  - split; [discriminate|]. intros [?|[? _]]; lia.
Qed.
Lemma tri_leb_total a b : tri_leb a b = true \/ tri_leb b a = true.
Proof. destruct a as [[a0 a1] a2], b as [[b0 b1] b2]. rewrite !tri_leb_spec. lia. Qed.
Lemma tri_leb_trans a b c : tri_leb a b = true -> tri_leb b c = true -> tri_leb a c = true.
Proof. destruct a as [[a0 a1] a2], b as [[b0 b1] b2], c as [[c0 c1] c2]. rewrite !tri_leb_spec. lia. Qed.
Lemma tri_leb_antisym a b : tri_leb a b = true -> tri_leb b a = true -> a = b.
Proof.
  destruct a as [[a0 a1] a2], b as [[b0 b1] b2]. rewrite !tri_leb_spec. intros H1 H2.
  assert (a0 = b0 /\ a1 = b1 /\ a2 = b2) as (-> & -> & ->) by lia. reflexivity.
Qed.
Lemma pair_leb_total a b : pair_leb a b = true \/ pair_leb b a = true.
Proof. rewrite !pair_leb_spec. lia. Qed.
Lemma pair_leb_trans a b c : pair_leb a b = true -> pair_leb b c = true -> pair_leb a c = true.
Proof. rewrite !pair_leb_spec. lia. Qed.
Lemma pair_leb_antisym a b : pair_leb a b = true -> pair_leb b a = true -> a = b.
Proof.
  destruct a, b. rewrite !pair_leb_spec. cbn [fst snd]. intros H1 H2.
  assert (n = n1 /\ n0 = n2) as (-> & ->) by lia. reflexivity.
Qed.
