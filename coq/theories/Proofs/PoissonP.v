(* Proofs/PoissonP.v -- Solver.poisson honours the equation and its boundary data for EVERY solve routine
   that returns a solution of the system it is given (C05). *)
From Coq Require Import List Arith Bool PeanoNat Lia Reals Lra.
From LaPyV Require Import Base.Scalar Base.ListAux Base.Sparse Model.TriaAdj Model.Poisson
  Proofs.SparseP Proofs.TriaAdjP Proofs.ObjStateP Proofs.DiffGeoP.
Import ListNotations.
Open Scope R_scope.

Notation mv := (mulvec_at Rops).

(* ------------------------------------------------------------------ positions in index lists *)
Lemma pos_of_spec x l : forall s i, pos_of x l s = Some i -> (s <= i)%nat /\ nth_error l (i - s) = Some x.
Proof.
  induction l as [|y l IH]; intros s i H; cbn [pos_of] in H; [discriminate|].
  destruct (Nat.eqb_spec x y) as [->|Hne].
  - inversion H; subst. rewrite Nat.sub_diag. split; [lia|reflexivity].
  - apply IH in H. destruct H as [H1 H2]. split; [lia|]. replace (i - s)%nat with (S (i - S s)) by lia. exact H2.
Qed.
Lemma pos_of_in x l s : In x l -> exists i, pos_of x l s = Some i.
Proof.
  revert s. induction l as [|y l IH]; intros s H; [destruct H|]. cbn [pos_of].
  destruct (Nat.eqb_spec x y); [eauto|]. destruct H as [->|H]; [contradiction|]. apply IH. exact H.
Qed.
Lemma pos_of_none x l s : ~ In x l -> pos_of x l s = None.
Proof.
  revert s. induction l as [|y l IH]; intros s H; [reflexivity|]. cbn [pos_of].
  destruct (Nat.eqb_spec x y) as [->|Hne]; [exfalso; apply H; left; reflexivity|]. apply IH. intros Hc. apply H. right. exact Hc.
Qed.
Lemma pos_of_inj x y l s i : pos_of x l s = Some i -> pos_of y l s = Some i -> x = y.
Proof. intros Hx Hy. apply pos_of_spec in Hx, Hy. destruct Hx as [_ Hx], Hy as [_ Hy]. congruence. Qed.
Lemma pos_of_lt x l s i : pos_of x l s = Some i -> (i < s + length l)%nat.
Proof. intros H. apply pos_of_spec in H. destruct H as [H1 H2]. assert (i - s < length l)%nat by (apply nth_error_Some; congruence). lia. Qed.

Lemma has_dup_false_nodup l : has_dup l = false -> NoDup l.
Proof.
  induction l as [|x l IH]; intros H; [constructor|]. cbn [has_dup] in H. apply orb_false_iff in H. destruct H as [H1 H2].
  constructor; [|apply IH; exact H2]. intros Hin. apply memn_in in Hin. congruence.
Qed.
Lemma pos_of_nth_nodup l p d : NoDup l -> (p < length l)%nat -> pos_of (nth p l d) l 0 = Some p.
Proof.
  intros ND Hp. destruct (pos_of_in (nth p l d) l 0 (nth_In l d Hp)) as (i & Hi). rewrite Hi. f_equal.
  assert (S := pos_of_spec _ _ _ _ Hi). destruct S as [_ S]. rewrite Nat.sub_0_r in S.
  assert (Hil : (i < length l)%nat) by (apply nth_error_Some; congruence).
  apply (proj1 (NoDup_nth l d) ND i p Hil Hp). apply nth_error_nth with (d := d) in S. exact S.
Qed.

(* ------------------------------------------------------------------ matrix-vector lemmas *)
Lemma mv_cons i j a M x k : mv ((i, j, a) :: M) x k = (if Nat.eqb i k then a * x j else 0) + mv M x k.
Proof. cbn [mulvec_at fold_right]. fold (mv M x k). cbn [add mul Rops]. destruct (Nat.eqb i k); ring. Qed.
Lemma mv_plus M u w k : mv M (fun j => u j + w j) k = mv M u k + mv M w k.
Proof. induction M as [|[[i j] a] M IH]; [cbn; ring|]. rewrite !mv_cons, IH. destruct (Nat.eqb i k); ring. Qed.
Lemma mv_ext M u w k : (forall i j a, In (i, j, a) M -> u j = w j) -> mv M u k = mv M w k.
Proof.
  induction M as [|[[i j] a] M IH]; intros H; [reflexivity|]. rewrite !mv_cons.
  rewrite (H i j a) by (left; reflexivity). rewrite IH; [reflexivity|]. intros. eapply H. right. eassumption.
Qed.

Lemma mv_restrict M free y k pk : pos_of k free 0 = Some pk ->
  mv (restrict M free) y pk = mv M (fun j => match pos_of j free 0 with Some q => y q | None => 0 end) k.
Proof.
  intros Hk. induction M as [|[[i j] a] M IH]; [reflexivity|].
  cbn [restrict flat_map]. fold (restrict M free). rewrite mv_cons.
  destruct (pos_of i free 0) as [pi|] eqn:Ei.
  - destruct (pos_of j free 0) as [pj|] eqn:Ej.
    + cbn [app]. rewrite mv_cons, IH.
      destruct (Nat.eqb_spec pi pk) as [->|Hne].
      * assert (i = k) by (eapply pos_of_inj; eassumption). subst. rewrite Nat.eqb_refl. reflexivity.
      * destruct (Nat.eqb_spec i k) as [->|_]; [congruence|reflexivity].
    + cbn [app]. rewrite IH. destruct (Nat.eqb i k); ring.
  - cbn [app]. rewrite IH. destruct (Nat.eqb_spec i k) as [->|_]; [congruence|ring].
Qed.

Lemma scatter_at_nodup (didx : list nat) (ddat : list R) k : NoDup didx -> length didx = length ddat ->
  scatter_at Rops (combine didx ddat) k = match pos_of k didx 0 with Some p => nth p ddat 0 | None => 0 end.
Proof.
  intros ND Hl.
  assert (G : forall s ddat, NoDup didx -> length didx = length ddat ->
              scatter_at Rops (combine didx ddat) k = match pos_of k didx s with Some p => nth (p - s) ddat 0 | None => 0 end).
  { clear. induction didx as [|x l IH]; intros s [|d ddat] ND Hl; try discriminate; [reflexivity|].
    inversion ND as [|? ? Hnin ND']; subst. cbn [combine scatter_at fold_right pos_of]. fold (scatter_at Rops (combine l ddat) k).
    cbn [add Rops]. destruct (Nat.eqb_spec x k) as [->|Hne].
    - rewrite Nat.eqb_refl. rewrite Nat.sub_diag. cbn [nth].
      rewrite (IH (S s) ddat ND') by (cbn in Hl; lia). rewrite pos_of_none by assumption. ring.
    - destruct (Nat.eqb_spec k x) as [->|_]; [contradiction|].
      rewrite (IH (S s) ddat ND') by (cbn in Hl; lia).
      destruct (pos_of k l (S s)) as [p|] eqn:E; [|reflexivity].
      assert (S s <= p)%nat by (apply pos_of_spec in E; lia).
      replace (p - s)%nat with (S (p - S s)) by lia. reflexivity. }
  rewrite (G 0%nat ddat ND Hl). destruct (pos_of k didx 0); [rewrite Nat.sub_0_r|]; reflexivity.
Qed.

(* ------------------------------------------------------------------ the contract of the solver oracle *)
Definition solve_contract (solve : nat -> coo R -> list R -> result (list R)) : Prop :=
  forall n M r x, solve n M r = Ok x -> length x = n /\ forall i, (i < n)%nat -> mv M (vfun Rops x) i = nth i r 0.
Definition in_range (dim : nat) (M : coo R) : Prop := Forall (fun '(i, j, _) => (i < dim /\ j < dim)%nat) M.

Section Thm.
  Context (solve : nat -> coo R -> list R -> result (list R)) (HC : solve_contract solve).

  (* malformed input is rejected with ValueError before any solve, whatever the solver does *)
  Theorem poisson_rejects_duplicates dim A B h didx ddat ntup : has_dup didx = true ->
    (match h with HVector l => length l = dim | HScalar _ => True end) ->
    poisson Rops solve dim A B h (Some (didx, ddat)) ntup = Err ValueError.
  Proof.
    intros Hd Hh. unfold poisson. destruct h as [c|l]; [|rewrite Hh, Nat.eqb_refl; cbn [negb]]; rewrite Hd; reflexivity.
  Qed.
  Theorem poisson_rejects_length_mismatch dim A B h didx ddat ntup : length didx <> length ddat ->
    poisson Rops solve dim A B h (Some (didx, ddat)) ntup = Err ValueError.
  Proof.
    intros Hl. unfold poisson.
    assert (E : negb (Nat.ltb 0 (length didx) && Nat.eqb (length didx) (length ddat)) = true).
    { apply negb_true_iff. apply andb_false_iff. right. apply Nat.eqb_neq. exact Hl. }
    destruct h as [c|l]; [|destruct (negb (Nat.eqb (length l) dim)); [reflexivity|]];
      (destruct (has_dup didx); [reflexivity|]; rewrite E; reflexivity).
  Qed.
  Theorem poisson_rejects_wrong_size_h dim A B l dtup ntup : length l <> dim ->
    poisson Rops solve dim A B (HVector l) dtup ntup = Err ValueError.
  Proof. intros Hl. unfold poisson. apply Nat.eqb_neq in Hl. rewrite Hl. reflexivity. Qed.

  (* structure of a successful call with Dirichlet data *)
  Lemma poisson_ok_inv dim A B h didx ddat ntup X :
    poisson Rops solve dim A B h (Some (didx, ddat)) ntup = Ok X ->
    has_dup didx = false /\ (0 < length didx)%nat /\ length didx = length ddat /\
    exists n x, n = match ntup with Some (i, d) => combine i d | None => [] end /\
      solve (length (free_list dim didx)) (restrict A (free_list dim didx))
            (map (poisson_rhs Rops A B (hfun Rops dim h) (combine didx ddat) n) (free_list dim didx)) = Ok x /\
      X = map (fun k => match pos_of k didx 0 with
                        | Some p => nth p ddat 0
                        | None => match pos_of k (free_list dim didx) 0 with Some q => nth q x 0 | None => 0 end
                        end) (iota dim).
  Proof.
    unfold poisson. intros H.
    destruct (match h with HVector l => if negb (Nat.eqb (length l) dim) then Err ValueError else Ok tt | HScalar _ => Ok tt end); [|discriminate].
    destruct (has_dup didx) eqn:Hd; [discriminate|].
    destruct (Nat.ltb 0 (length didx) && Nat.eqb (length didx) (length ddat)) eqn:Hl; cbn [negb] in H; [|discriminate].
    apply andb_true_iff in Hl. destruct Hl as [L1 L2]. apply Nat.ltb_lt in L1. apply Nat.eqb_eq in L2.
    split; [reflexivity|]. split; [exact L1|]. split; [exact L2|].
    destruct ntup as [[nidx ndat]|].
    - destruct (negb (Nat.ltb 0 (length nidx) && Nat.eqb (length nidx) (length ndat))); [discriminate|].
      destruct didx as [|d0 dl]; [cbn in L1; lia|].
      destruct (solve _ _ _) as [x|e] eqn:S; [|discriminate]. inversion H; subst. exists (combine nidx ndat), x. repeat split; assumption.
    - destruct didx as [|d0 dl]; [cbn in L1; lia|].
      destruct (solve _ _ _) as [x|e] eqn:S; [|discriminate]. inversion H; subst. exists [], x. repeat split; assumption.
  Qed.

  (* C05: prescribed values are taken exactly at the Dirichlet vertices *)
  Theorem poisson_dirichlet_exact dim A B h didx ddat ntup X p :
    poisson Rops solve dim A B h (Some (didx, ddat)) ntup = Ok X ->
    Forall (fun i => (i < dim)%nat) didx -> (p < length didx)%nat ->
    nth (nth p didx 0%nat) X 0 = nth p ddat 0.
  Proof.
    intros H Hr Hp. destruct (poisson_ok_inv _ _ _ _ _ _ _ _ H) as (Hd & _ & Hl & n & x & _ & _ & ->).
    assert (Hk : (nth p didx 0 < dim)%nat) by (rewrite Forall_forall in Hr; apply Hr; apply nth_In; exact Hp).
    rewrite (nth_map_iota _ 0 dim _ Hk).
    rewrite pos_of_nth_nodup by (try apply has_dup_false_nodup; assumption). reflexivity.
  Qed.

  (* C05: at every other vertex the equation A x = B (h - n) holds *)
  Theorem poisson_equation_at_free_vertices dim A B h didx ddat ntup X k :
    poisson Rops solve dim A B h (Some (didx, ddat)) ntup = Ok X ->
    in_range dim A -> (k < dim)%nat -> ~ In k didx ->
    mv A (vfun Rops X) k =
    mv B (fun j => hfun Rops dim h j - scatter_at Rops (match ntup with Some (i, d) => combine i d | None => [] end) j) k.
  Proof.
    intros H HA Hk Hnd. destruct (poisson_ok_inv _ _ _ _ _ _ _ _ H) as (Hd & _ & Hl & n & x & -> & S & ->).
    set (free := free_list dim didx) in *.
    set (nn := match ntup with Some (i, d) => combine i d | None => [] end) in *.
    assert (ND := has_dup_false_nodup _ Hd).
    assert (Hfree : In k free).
    { unfold free, free_list. apply filter_In. split; [apply iota_from_in; lia|]. apply negb_true_iff.
      destruct (memn k didx) eqn:M; [apply memn_in in M; contradiction|reflexivity]. }
    destruct (pos_of_in k free 0 Hfree) as (pk & Hpk).
    destruct (HC _ _ _ _ S) as (Lx & Eq).
    assert (Hpk_lt : (pk < length free)%nat) by (apply pos_of_lt in Hpk; lia).
    specialize (Eq pk Hpk_lt).
    rewrite (mv_restrict A free (vfun Rops x) k pk Hpk) in Eq.
    assert (Er : nth pk (map (poisson_rhs Rops A B (hfun Rops dim h) (combine didx ddat) nn) free) 0
                 = poisson_rhs Rops A B (hfun Rops dim h) (combine didx ddat) nn k).
    { apply pos_of_spec in Hpk. destruct Hpk as [_ Hn]. rewrite Nat.sub_0_r in Hn.
      erewrite nth_error_nth; [reflexivity|]. rewrite nth_error_map, Hn. reflexivity. }
    rewrite Er in Eq. unfold poisson_rhs in Eq. cbn [sub Rops] in Eq.
    (* split the solution into its free part and its Dirichlet part *)
    rewrite (mv_ext A _ (fun j => (match pos_of j free 0 with Some q => vfun Rops x q | None => 0 end)
                                  + scatter_at Rops (combine didx ddat) j) k).
    - rewrite mv_plus, Eq. cbn [sub Rops]. ring.
    - intros i j a Hin. unfold in_range in HA. rewrite Forall_forall in HA. specialize (HA _ Hin). cbn in HA. destruct HA as [_ Hj].
      unfold vfun at 1. cbn [zero Rops]. rewrite (nth_map_iota _ 0 dim j Hj).
      rewrite scatter_at_nodup by assumption.
      destruct (pos_of j didx 0) as [p|] eqn:Ed.
      + (* Dirichlet vertex: not free *)
        assert (~ In j free).
        { unfold free, free_list. rewrite filter_In. intros [_ Hm]. apply negb_true_iff in Hm.
          assert (In j didx) by (apply pos_of_spec in Ed; destruct Ed as [_ Ed]; eapply nth_error_In; eassumption).
          apply memn_in in H0. congruence. }
        rewrite pos_of_none by assumption. ring.
      + destruct (pos_of j free 0); unfold vfun; cbn [zero Rops]; ring.
  Qed.
End Thm.
