(* Proofs/TfuncLinearP.v -- C15: map_vfunc_to_tfunc is linear in the vertex function (per triangle, any mesh). *)
From Coq Require Import List Arith Bool PeanoNat Lia Reals Lra.
From LaPyV Require Import Base.Scalar Base.Vec3 Base.ListAux Base.Sparse Model.TetMesh Model.TriaAdj Model.TriaOrient
  Model.Fem Model.TriaGeom Model.TriaFunc Proofs.SparseP Proofs.TriaGeomP Proofs.TriaFuncP.
Import ListNotations.
Open Scope R_scope.

Theorem vfunc_to_tfunc_linear ts (f g h : list R) al be k a b c : nth_error ts k = Some (a, b, c) ->
  (forall i, nth i h 0 = al * nth i f 0 + be * nth i g 0) ->
  nth k (vfunc_to_tfunc_col Rops ts h) 0 = al * nth k (vfunc_to_tfunc_col Rops ts f) 0 + be * nth k (vfunc_to_tfunc_col Rops ts g) 0.
Proof.
  intros Hk H.
  rewrite (nth_error_nth _ _ 0 (vfunc_to_tfunc_mean ts h k a b c Hk)).
  rewrite (nth_error_nth _ _ 0 (vfunc_to_tfunc_mean ts f k a b c Hk)).
  rewrite (nth_error_nth _ _ 0 (vfunc_to_tfunc_mean ts g k a b c Hk)).
  rewrite !H. field.
Qed.
