(* Proofs/TetRigidP.v -- C12: the signed volume of every tetrahedron is multiplied by det Q under p -> Q p + b and by s^3 under
   p -> s p; hence is_oriented and orient_ (which tets are swapped, how many) are unchanged by every proper rigid motion and by
   every positive scaling, and a second orient_ changes nothing and returns 0. *)
From Coq Require Import List Arith Bool PeanoNat Lia Reals Lra.
From LaPyV Require Import Base.Scalar Base.Vec3 Base.ListAux Base.Sparse Model.TetMesh Model.TriaAdj Model.TriaOrient
  Proofs.SparseP Proofs.TetMeshP Proofs.TriaAdjP Proofs.InvarianceP Proofs.TriaGeomP Proofs.VolumeTransP Proofs.VolumeScaleP.
Import ListNotations.
Open Scope R_scope.
Local Notation V3 := (vec3 R).

Definition tets_in_range (n : nat) (ts : list tet) : Prop := Forall (fun '(a, b, c, d) => (a < n /\ b < n /\ c < n /\ d < n)%nat) ts.

Lemma tet_vol6_rigid Q b v a b0 c d : (a < length v /\ b0 < length v /\ c < length v /\ d < length v)%nat ->
  tet_vol6 Rops (map (rigid Q b) v) (a, b0, c, d) = det3 Q * tet_vol6 Rops v (a, b0, c, d).
Proof.
  intros (Ha & Hb & Hc & Hd). unfold tet_vol6. rewrite !getv_map by assumption.
  generalize (getv Rops v a) (getv Rops v b0) (getv Rops v c) (getv Rops v d). intros p0 p1 p2 p3.
  destruct Q as [[r1 r2] r3]. r3 r1; r3 r2; r3 r3; r3 b; r3 p0; r3 p1; r3 p2; r3 p3.
  unfold det3, rigid, mapply, dot, cross, vsub, vadd, vx, vy, vz. cbn. ring.
Qed.
Lemma tet_vol6_scale s v a b0 c d : (a < length v /\ b0 < length v /\ c < length v /\ d < length v)%nat ->
  tet_vol6 Rops (map (vscaleR s) v) (a, b0, c, d) = s * s * s * tet_vol6 Rops v (a, b0, c, d).
Proof.
  intros (Ha & Hb & Hc & Hd). unfold tet_vol6. rewrite !getv_map by assumption.
  generalize (getv Rops v a) (getv Rops v b0) (getv Rops v c) (getv Rops v d). intros p0 p1 p2 p3.
  r3 p0; r3 p1; r3 p2; r3 p3. unfold vscaleR, vscale, dot, cross, vsub, vx, vy, vz. cbn. ring.
Qed.

(* whatever multiplies every signed volume by a positive factor keeps is_oriented and orient_ *)
Lemma Rltb_pos_scal_l c x : 0 < c -> Rltb (c * x) 0 = Rltb x 0.
Proof.
  intros Hc. destruct (Rltb x 0) eqn:E.
  - apply Rltb_true in E. apply Rltb_true. nra.
  - apply Rltb_false in E. apply Rltb_false. nra.
Qed.
Lemma Rltb_pos_scal_r c x : 0 < c -> Rltb 0 (c * x) = Rltb 0 x.
Proof.
  intros Hc. destruct (Rltb 0 x) eqn:E.
  - apply Rltb_true in E. apply Rltb_true. nra.
  - apply Rltb_false in E. apply Rltb_false. nra.
Qed.

Lemma forallb_map' {A B} (h : A -> B) (p : B -> bool) l : forallb p (map h l) = forallb (fun x => p (h x)) l.
Proof. induction l as [|x l IH]; [reflexivity|]. cbn [map forallb]. rewrite IH. reflexivity. Qed.
Lemma forallb_ext_in' {A} (p q : A -> bool) l : (forall x, In x l -> p x = q x) -> forallb p l = forallb q l.
Proof. induction l as [|x l IH]; intros H; [reflexivity|]. cbn [forallb]. rewrite (H x (or_introl eq_refl)), IH; [reflexivity|]. intros y Hy; apply H; right; exact Hy. Qed.

Section Factor.
  Context (c : R) (Hc : 0 < c) (v v' : list V3) (ts : list tet).
  Context (H : forall t, In t ts -> tet_vol6 Rops v' t = c * tet_vol6 Rops v t).

  Lemma factor_is_oriented : tet_is_oriented Rops v' ts = tet_is_oriented Rops v ts.
  Proof.
    unfold tet_is_oriented. rewrite !forallb_map'.
    assert (E1 : forallb (fun t => ltb Rops (tet_vol6 Rops v' t) (zero Rops)) ts = forallb (fun t => ltb Rops (tet_vol6 Rops v t) (zero Rops)) ts).
    { apply forallb_ext_in'. intros t Ht. rewrite (H t Ht). cbn [ltb zero Rops]. apply Rltb_pos_scal_l; exact Hc. }
    assert (E2 : forallb (fun t => ltb Rops (zero Rops) (tet_vol6 Rops v' t)) ts = forallb (fun t => ltb Rops (zero Rops) (tet_vol6 Rops v t)) ts).
    { apply forallb_ext_in'. intros t Ht. rewrite (H t Ht). cbn [ltb zero Rops]. apply Rltb_pos_scal_r; exact Hc. }
    rewrite E1, E2. reflexivity.
  Qed.
  Lemma factor_orient : tet_orient Rops v' ts = tet_orient Rops v ts.
  Proof.
    assert (E : forall t, In t ts -> tet_neg Rops v' t = tet_neg Rops v t).
    { intros t Ht. unfold tet_neg. rewrite (H t Ht). cbn [ltb zero Rops]. apply Rltb_pos_scal_l; exact Hc. }
    unfold tet_orient. f_equal.
    - apply map_ext_in. intros t Ht. rewrite (E t Ht). reflexivity.
    - unfold count_if. f_equal. apply filter_ext_in. exact E.
  Qed.
End Factor.

Theorem tet_orientation_rigid_invariant Q b v ts : det3 Q = 1 -> tets_in_range (length v) ts ->
  tet_is_oriented Rops (map (rigid Q b) v) ts = tet_is_oriented Rops v ts /\
  tet_orient Rops (map (rigid Q b) v) ts = tet_orient Rops v ts.
Proof.
  intros HQ Hr.
  assert (H : forall t, In t ts -> tet_vol6 Rops (map (rigid Q b) v) t = 1 * tet_vol6 Rops v t).
  { intros [[[a b0] c] d] Hin. unfold tets_in_range in Hr. rewrite Forall_forall in Hr. rewrite <- HQ. apply tet_vol6_rigid. exact (Hr _ Hin). }
  split; [apply (factor_is_oriented 1 Rlt_0_1 _ _ _ H)|apply (factor_orient 1 Rlt_0_1 _ _ _ H)].
Qed.
Theorem tet_orientation_scale_invariant s v ts : 0 < s -> tets_in_range (length v) ts ->
  tet_is_oriented Rops (map (vscaleR s) v) ts = tet_is_oriented Rops v ts /\
  tet_orient Rops (map (vscaleR s) v) ts = tet_orient Rops v ts.
Proof.
  intros Hs Hr.
  assert (Hc : 0 < s * s * s) by (assert (0 < s * s) by nra; nra).
  assert (H : forall t, In t ts -> tet_vol6 Rops (map (vscaleR s) v) t = s * s * s * tet_vol6 Rops v t).
  { intros [[[a b0] c] d] Hin. unfold tets_in_range in Hr. rewrite Forall_forall in Hr. apply tet_vol6_scale. exact (Hr _ Hin). }
  split; [apply (factor_is_oriented _ Hc _ _ _ H)|apply (factor_orient _ Hc _ _ _ H)].
Qed.

(* a reflection (det Q = -1) negates every signed volume: an oriented mesh becomes one that is not *)
Theorem tet_reflection_negates Q b v ts : det3 Q = -1 -> tets_in_range (length v) ts ->
  forall t, In t ts -> tet_vol6 Rops (map (rigid Q b) v) t = - tet_vol6 Rops v t.
Proof.
  intros HQ Hr [[[a b0] c] d] Hin. unfold tets_in_range in Hr. rewrite Forall_forall in Hr.
  rewrite tet_vol6_rigid by exact (Hr _ Hin). rewrite HQ. ring.
Qed.

(* idempotence: after orient_ no tetrahedron is negative, so a second call changes nothing and returns 0 (any mesh, degenerate
   tetrahedra included) *)
Theorem tet_orient_idempotent v ts :
  tet_orient Rops v (fst (tet_orient Rops v ts)) = (fst (tet_orient Rops v ts), 0%nat).
Proof.
  unfold tet_orient. cbn [fst].
  assert (E : forall t, tet_neg Rops v (if tet_neg Rops v t then tet_swap12 t else t) = false).
  { intros t. destruct (tet_neg Rops v t) eqn:Ht; [|exact Ht].
    unfold tet_neg in *. rewrite vol6_swap12. cbn [ltb zero Rops] in *. apply Rltb_true in Ht. apply Rltb_false. lra. }
  f_equal.
  - rewrite map_map. apply map_ext. intros t. rewrite E. reflexivity.
  - unfold count_if. induction ts as [|t ts IH]; [reflexivity|]. cbn [map filter]. rewrite E. exact IH.
Qed.

(* a reflected oriented mesh is not oriented (and orient_ then swaps every tetrahedron) *)
Theorem tet_reflection_unorients Q b v ts : det3 Q = -1 -> tets_in_range (length v) ts ->
  tet_is_oriented Rops v ts = true ->
  tet_is_oriented Rops (map (rigid Q b) v) ts = false /\ snd (tet_orient Rops (map (rigid Q b) v) ts) = length ts.
Proof.
  intros HQ Hr Ho. apply tet_is_oriented_iff in Ho. destruct Ho as (Hne & Hpos). rewrite Forall_forall in Hpos.
  pose proof (tet_reflection_negates Q b v ts HQ Hr) as Hneg. split.
  - destruct (tet_is_oriented Rops (map (rigid Q b) v) ts) eqn:E; [|reflexivity].
    apply tet_is_oriented_iff in E. destruct E as (_ & Hpos'). rewrite Forall_forall in Hpos'.
    destruct ts as [|t ts]; [contradiction|]. specialize (Hpos t (or_introl eq_refl)). specialize (Hpos' t (or_introl eq_refl)).
    rewrite (Hneg t (or_introl eq_refl)) in Hpos'. lra.
  - rewrite tet_orient_count. f_equal. clear Hne Hr. induction ts as [|t ts IH]; [reflexivity|]. cbn [filter].
    assert (E : Rltb (tet_vol6 Rops (map (rigid Q b) v) t) 0 = true).
    { apply Rltb_true. rewrite (Hneg t (or_introl eq_refl)). specialize (Hpos t (or_introl eq_refl)). lra. }
    rewrite E. f_equal. apply IH; intros u Hu; [apply Hpos|apply Hneg]; right; exact Hu.
Qed.
