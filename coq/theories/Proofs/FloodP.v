(* Proofs/FloodP.v -- the sign flood of orient_: for every sign-consistent (orientable) symmetric neighbour table the flood
   terminates within its fuel and returns, for every triangle, a positive multiple of sg(a) * kappa(a) with kappa constant
   along every neighbour entry (C10). *)
From Coq Require Import List Arith Bool PeanoNat Lia ZArith.
From LaPyV Require Import Base.ListAux Model.TetMesh Model.TriaAdj Model.TriaOrient Proofs.TriaAdjP Proofs.TriaOrientP.
Import ListNotations.

Definition val (v : svec) (a : nat) : option Z := nth a v None.
Definition is_some (x : option Z) : bool := match x with Some _ => true | None => false end.

Lemma nstored_count v : nstored v = count_if is_some v.
Proof. reflexivity. Qed.
Lemma nstored_cons x v : nstored (x :: v) = (if is_some x then 1 else 0) + nstored v.
Proof. rewrite !nstored_count. apply count_if_cons. Qed.

Lemma in_enumerate_gen {A} (l : list A) : forall s b x, In (b, x) (combine (iota_from s (length l)) l) <-> (s <= b /\ nth_error l (b - s) = Some x).
Proof.
  induction l as [|y l IH]; intros s b x; cbn [length iota_from combine In].
  - split; [contradiction|]. intros [_ H]. destruct (b - s); discriminate.
  - rewrite IH. split.
    + intros [E|[H1 H2]].
      * inversion E; subst. split; [lia|]. rewrite Nat.sub_diag. reflexivity.
      * split; [lia|]. replace (b - s) with (S (b - S s)) by lia. exact H2.
    + intros [H1 H2]. destruct (Nat.eq_dec s b) as [->|Hne].
      * left. rewrite Nat.sub_diag in H2. cbn in H2. congruence.
      * right. split; [lia|]. replace (b - s) with (S (b - S s)) in H2 by lia. exact H2.
Qed.
Lemma in_enumerate {A} (l : list A) b x : In (b, x) (enumerate l) <-> nth_error l b = Some x.
Proof. unfold enumerate, iota. rewrite in_enumerate_gen, Nat.sub_0_r. split; [intros [_ H]; exact H|intros H; split; [lia|exact H]]. Qed.

Lemma nth_error_val (v : svec) b x : nth_error v b = Some x -> val v b = x /\ b < length v.
Proof. intros H. split; [unfold val; apply nth_error_nth; exact H|]. apply nth_error_Some. congruence. Qed.
Lemma val_nth_error (v : svec) b : b < length v -> nth_error v b = Some (val v b).
Proof. intros H. unfold val. apply nth_error_nth'. exact H. Qed.
Lemma val_out (v : svec) b : length v <= b -> val v b = None.
Proof. intros H. unfold val. apply nth_overflow. exact H. Qed.

Section Flood.
  Context (e : list (nat * nat * Z)).
  Context (n : nat).
  Context (sg : nat -> Z).
  Context (sg_pm : forall a, sg a = 1%Z \/ sg a = (-1)%Z).
  Context (e_sym : forall a b s, In (a, b, s) e -> In (b, a, s) e).
  Context (e_cons : forall a b s, In (a, b, s) e -> a <> b /\ a < n /\ b < n /\ s = (sg a * sg b)%Z).

  Lemma sg_sq a : (sg a * sg a = 1)%Z.
  Proof. destruct (sg_pm a) as [->| ->]; reflexivity. Qed.

  (* ---------------------------------------------------------------- the matrix tmat = entries + identity *)
  Lemma tm_stored_iff a b : tm_stored e a b = true <-> a = b \/ exists s, In (a, b, s) e.
  Proof.
    unfold tm_stored. rewrite orb_true_iff, Nat.eqb_eq, existsb_exists. split.
    - intros [H|([[a' b'] s] & Hin & H)]; [left; exact H|right].
      apply andb_true_iff in H. destruct H as [H1 H2]. apply Nat.eqb_eq in H1, H2. subst. exists s. exact Hin.
    - intros [H|(s & Hin)]; [left; exact H|right]. exists (a, b, s). split; [exact Hin|]. rewrite !Nat.eqb_refl. reflexivity.
  Qed.
  Lemma tm_stored_sym a b : tm_stored e a b = true -> tm_stored e b a = true.
  Proof. rewrite !tm_stored_iff. intros [->|(s & H)]; [left; reflexivity|right; exists s; apply e_sym; exact H]. Qed.
  Lemma tm_stored_lt a b : tm_stored e a b = true -> b < n -> a < n.
  Proof. rewrite tm_stored_iff. intros [->|(s & H)] Hb; [exact Hb|]. apply e_cons in H. tauto. Qed.

  Definition ecount (e' : list (nat * nat * Z)) (a b : nat) : nat :=
    count_if (fun '(a', b', _) => Nat.eqb a a' && Nat.eqb b b') e'.
  Lemma fold_val a b : forall e', (forall s, In (a, b, s) e' -> s = (sg a * sg b)%Z) ->
    fold_right (fun '(a', b', s) acc => if Nat.eqb a a' && Nat.eqb b b' then (s + acc)%Z else acc) 0%Z e'
    = (Z.of_nat (ecount e' a b) * (sg a * sg b))%Z.
  Proof.
    induction e' as [|[[a' b'] s] l IH]; intros H; [reflexivity|].
    cbn [fold_right]. unfold ecount. rewrite count_if_cons. fold (ecount l a b).
    rewrite IH by (intros s' Hs'; apply H; right; exact Hs').
    destruct (Nat.eqb_spec a a') as [<-|Ha]; cbn [andb]; [|lia].
    destruct (Nat.eqb_spec b b') as [<-|Hb]; [|lia].
    rewrite (H s) by (left; reflexivity). lia.
  Qed.
  Lemma ecount_pos a b : (exists s, In (a, b, s) e) -> ecount e a b >= 1.
  Proof.
    intros (s & H). unfold ecount. apply count_if_pos_iff. exists (a, b, s). split; [exact H|]. rewrite !Nat.eqb_refl. reflexivity.
  Qed.
  Lemma ecount_zero_diag a : ecount e a a = 0.
  Proof.
    destruct (ecount e a a) as [|k] eqn:E; [reflexivity|]. exfalso.
    assert (H : ecount e a a >= 1) by lia. unfold ecount in H. apply count_if_pos_iff in H.
    destruct H as ([[a' b'] s] & Hin & H). apply andb_true_iff in H. destruct H as [H1 H2]. apply Nat.eqb_eq in H1, H2. subst.
    apply e_cons in Hin. tauto.
  Qed.
  (* a stored entry of tmat is a positive multiple of sg a * sg b *)
  Lemma tm_val_pos a b : tm_stored e a b = true -> exists m, (m > 0)%Z /\ tm_val e a b = (m * (sg a * sg b))%Z.
  Proof.
    intros H. unfold tm_val. rewrite fold_val by (intros s Hs; apply e_cons in Hs; tauto).
    apply tm_stored_iff in H. destruct (Nat.eqb_spec a b) as [<-|Hne].
    - rewrite ecount_zero_diag, sg_sq. exists 1%Z. split; lia.
    - destruct H as [H|H]; [contradiction|]. apply ecount_pos in H.
      exists (Z.of_nat (ecount e a b)). split; lia.
  Qed.

  (* ---------------------------------------------------------------- one multiplication tmat * v followed by sign *)
  Definition terms_of (a : nat) (v : svec) : list (nat * option Z) :=
    filter (fun '(b, x) => match x with Some _ => tm_stored e a b | None => false end) (enumerate v).
  Definition sum_terms (a : nat) (terms : list (nat * option Z)) : Z :=
    fold_right (fun '(b, x) acc => match x with Some y => (tm_val e a b * y + acc)%Z | None => acc end) 0%Z terms.

  Lemma step_nth a v : a < n -> val (step_flood e n v) a =
    match terms_of a v with [] => None | _ => Some (Z.sgn (sum_terms a (terms_of a v))) end.
  Proof.
    intros Ha. unfold val, step_flood, iota.
    rewrite (nth_map_iota_gen _ None n 0 a Ha). cbn [Nat.add]. reflexivity.
  Qed.
  Lemma in_terms a v b x : In (b, x) (terms_of a v) <-> exists y, x = Some y /\ nth_error v b = Some (Some y) /\ tm_stored e a b = true.
  Proof.
    unfold terms_of. rewrite filter_In, in_enumerate. split.
    - intros [H1 H2]. destruct x as [y|]; [|discriminate]. exists y. auto.
    - intros (y & -> & H1 & H2). auto.
  Qed.

  Lemma sum_terms_sign a rho : forall terms,
    (forall b x, In (b, x) terms -> exists y m, x = Some y /\ (m > 0)%Z /\ (tm_val e a b * y = m * rho)%Z) ->
    exists M, (M >= 0)%Z /\ (terms <> [] -> (M > 0)%Z) /\ sum_terms a terms = (M * rho)%Z.
  Proof.
    induction terms as [|[b x] l IH]; intros H.
    - exists 0%Z. split; [lia|]. split; [congruence|reflexivity].
    - destruct IH as (M & HM & _ & E); [intros b' x' Hin; apply H; right; exact Hin|].
      destruct (H b x (or_introl eq_refl)) as (y & m & -> & Hm & Ey).
      exists (m + M)%Z. split; [lia|]. split; [lia|]. cbn [sum_terms fold_right]. fold (sum_terms a l). rewrite E, Ey. lia.
  Qed.

  (* ---------------------------------------------------------------- invariant *)
  Definition kconst (kap : nat -> Z) : Prop :=
    (forall a, kap a = 1%Z \/ kap a = (-1)%Z) /\ (forall a b s, In (a, b, s) e -> kap a = kap b).
  Definition good (kap : nat -> Z) (v : svec) : Prop :=
    forall a x, val v a = Some x -> exists m, (m > 0)%Z /\ x = (m * (sg a * kap a))%Z.
  Definition stored (v : svec) (a : nat) : Prop := val v a <> None.

  Lemma step_stored v a : length v = n -> (stored (step_flood e n v) a <-> a < n /\ exists b, stored v b /\ tm_stored e a b = true).
  Proof.
    intros Hl. unfold stored. split.
    - intros H. assert (Ha : a < n).
      { destruct (Nat.lt_ge_cases a n) as [L|L]; [exact L|]. rewrite val_out in H by (rewrite step_flood_length; exact L). congruence. }
      split; [exact Ha|]. rewrite step_nth in H by exact Ha.
      destruct (terms_of a v) as [|[b x] l] eqn:E; [congruence|].
      assert (Hin : In (b, x) (terms_of a v)) by (rewrite E; left; reflexivity).
      apply in_terms in Hin. destruct Hin as (y & -> & H1 & H2). exists b. split; [|exact H2].
      apply nth_error_val in H1. destruct H1 as [H1 _]. rewrite H1. congruence.
    - intros (Ha & b & Hb & Hs). rewrite step_nth by exact Ha.
      destruct (val v b) as [y|] eqn:Ev; [|congruence].
      assert (Hlt : b < length v).
      { destruct (Nat.lt_ge_cases b (length v)) as [L|L]; [exact L|]. rewrite val_out in Ev by exact L. discriminate. }
      assert (Hin : In (b, Some y) (terms_of a v)).
      { apply in_terms. exists y. split; [reflexivity|]. split; [|exact Hs]. rewrite val_nth_error by exact Hlt. rewrite Ev. reflexivity. }
      destruct (terms_of a v); [contradiction|congruence].
  Qed.
  Lemma step_mono v a : length v = n -> stored v a -> stored (step_flood e n v) a.
  Proof.
    intros Hl H. apply step_stored; [exact Hl|]. split.
    - destruct (Nat.lt_ge_cases a n) as [L|L]; [exact L|]. unfold stored in H. rewrite val_out in H by lia. congruence.
    - exists a. split; [exact H|]. apply tm_stored_iff. left. reflexivity.
  Qed.

  Lemma step_good kap v : length v = n -> kconst kap -> good kap v -> good kap (step_flood e n v).
  Proof.
    intros Hl [Hk1 Hk2] Hg a x Hx.
    assert (Ha : a < n).
    { destruct (Nat.lt_ge_cases a n) as [L|L]; [exact L|]. rewrite val_out in Hx by (rewrite step_flood_length; exact L). discriminate. }
    rewrite step_nth in Hx by exact Ha.
    assert (Hrho : (sg a * kap a = 1 \/ sg a * kap a = -1)%Z) by (destruct (sg_pm a) as [->| ->], (Hk1 a) as [->| ->]; auto).
    destruct (sum_terms_sign a (sg a * kap a)%Z (terms_of a v)) as (M & HM0 & HM & E).
    { intros b y Hin. apply in_terms in Hin. destruct Hin as (y0 & -> & H1 & H2).
      apply nth_error_val in H1. destruct H1 as [H1 _].
      destruct (Hg b y0 H1) as (m & Hm & ->).
      destruct (tm_val_pos a b H2) as (k & Hkp & ->).
      exists (m * (sg b * kap b))%Z, (k * m)%Z. split; [reflexivity|]. split; [lia|].
      assert (Ek : kap a = kap b).
      { apply tm_stored_iff in H2. destruct H2 as [->|(s & Hs)]; [reflexivity|]. apply (Hk2 _ _ _ Hs). }
      rewrite Ek. transitivity (k * m * (sg a * kap b) * (sg b * sg b))%Z; [ring|]. rewrite sg_sq. ring. }
    destruct (terms_of a v) as [|t l] eqn:Et; [discriminate|].
    rewrite E in Hx. injection Hx as Ex. subst x. assert (HMp : (M > 0)%Z) by (apply HM; congruence).
    exists 1%Z. split; [lia|].
    destruct Hrho as [R|R]; rewrite R; rewrite ?Z.mul_1_r; [rewrite Z.sgn_pos by lia|replace (M * -1)%Z with (- M)%Z by lia; rewrite Z.sgn_neg by lia]; reflexivity.
  Qed.

  (* ---------------------------------------------------------------- counting stored entries *)
  Lemma count_mono : forall (u w : svec), length u = length w -> (forall a, stored u a -> stored w a) ->
    nstored u <= nstored w /\ (nstored u = nstored w -> forall a, stored w a -> stored u a).
  Proof.
    induction u as [|x u IH]; intros [|y w] Hl H; cbn [length] in Hl; try discriminate.
    - split; [lia|]. intros _ a Ha. exact Ha.
    - rewrite !nstored_cons.
      destruct (IH w) as [I1 I2]; [lia|intros a Ha; apply (H (S a)); exact Ha|].
      assert (H0 : is_some x = true -> is_some y = true).
      { intros Hx. specialize (H 0). unfold stored, val in H. cbn [nth] in H. destruct x; [|discriminate]. destruct y; [reflexivity|]. exfalso. apply H; congruence. }
      split.
      + destruct (is_some x); [rewrite H0 by reflexivity; lia|destruct (is_some y); lia].
      + intros E a Ha. destruct a as [|a].
        * unfold stored, val in *. cbn [nth] in *. destruct x; [congruence|]. destruct y; [|congruence]. cbn [is_some] in E. lia.
        * apply (I2) with (a := a); [|exact Ha]. destruct (is_some x) eqn:Ex; [rewrite H0 in E by reflexivity; lia|].
          destruct (is_some y); lia.
  Qed.
  Lemma nstored_le (v : svec) : nstored v <= length v.
  Proof. rewrite nstored_count. unfold count_if. induction v as [|x v IH]; [cbn; lia|]. cbn [filter]. destruct (is_some x); cbn [length]; lia. Qed.
  Lemma nstored_full : forall (v : svec), nstored v >= length v -> forall a, a < length v -> stored v a.
  Proof.
    induction v as [|x v IH]; intros H a Ha; [cbn in Ha; lia|].
    rewrite nstored_cons in H. cbn [length] in *. pose proof (nstored_le v).
    destruct x as [z|]; cbn [is_some] in H; [|lia].
    destruct a as [|a]; [unfold stored, val; cbn; congruence|]. apply (IH ltac:(lia) a ltac:(lia)).
  Qed.
  Lemma first_none_spec : forall (v : svec) i, nstored v < length v ->
    exists s, first_none v i = Some (i + s) /\ s < length v /\ val v s = None.
  Proof.
    induction v as [|x v IH]; intros i H; [cbn in H; lia|].
    rewrite nstored_cons in H. cbn [length] in H.
    destruct x as [z|]; cbn [first_none is_some] in *.
    - destruct (IH (S i)) as (s & E & Hs & Hv); [lia|]. exists (S s). split; [rewrite E; f_equal; lia|]. split; [cbn; lia|exact Hv].
    - exists 0. split; [f_equal; lia|]. split; [cbn; lia|reflexivity].
  Qed.

  Lemma column_nth a s : a < n -> val (column e n s) a = if tm_stored e a s then Some (tm_val e a s) else None.
  Proof. intros Ha. unfold val, column, iota. rewrite (nth_map_iota_gen _ None n 0 a Ha). reflexivity. Qed.
  Lemma svec_add_nth (u w : svec) a : length u = length w ->
    val (svec_add u w) a = match val u a, val w a with
                           | Some x, Some y => Some (x + y)%Z | Some x, None => Some x | None, Some y => Some y | None, None => None end.
  Proof.
    intros Hl. unfold val, svec_add.
    set (f := fun '(x, y) => match x, y with Some a0, Some b => Some (a0 + b)%Z | Some a0, None => Some a0 | None, Some b => Some b | None, None => None end).
    change (@None Z) with (f (None, None)) at 1. rewrite map_nth. rewrite combine_nth by exact Hl. reflexivity.
  Qed.

  (* ---------------------------------------------------------------- seeding the next component *)
  Lemma reseed kap vn s0 : length vn = n -> kconst kap -> good kap vn ->
    (forall a b, stored vn b -> tm_stored e a b = true -> stored vn a) -> s0 < n -> val vn s0 = None ->
    exists kap', kconst kap' /\ good kap' (svec_add vn (column e n s0)) /\
                 (forall a, stored vn a -> stored (svec_add vn (column e n s0)) a) /\ stored (svec_add vn (column e n s0)) s0.
  Proof.
    intros Hl [Hk1 Hk2] Hg Hclosed Hs0 Hnone.
    assert (Hlc : length vn = length (column e n s0)) by (rewrite column_length; exact Hl).
    exists (fun a => if is_some (val vn a) then kap a else sg s0). split; [split|split; [|split]].
    - intros a. destruct (is_some (val vn a)); [apply Hk1|apply sg_pm].
    - intros a b s Hin. assert (Hab : tm_stored e a b = true) by (apply tm_stored_iff; right; exists s; exact Hin).
      assert (Hba := tm_stored_sym _ _ Hab).
      destruct (val vn a) as [x|] eqn:Ea, (val vn b) as [y|] eqn:Eb; cbn [is_some].
      + apply (Hk2 _ _ _ Hin).
      + exfalso. assert (S : stored vn b) by (apply (Hclosed b a); [unfold stored; congruence|exact Hba]). apply S. exact Eb.
      + exfalso. assert (S : stored vn a) by (apply (Hclosed a b); [unfold stored; congruence|exact Hab]). apply S. exact Ea.
      + reflexivity.
    - intros a x Hx. rewrite svec_add_nth in Hx by exact Hlc.
      assert (Ha : a < n).
      { destruct (Nat.lt_ge_cases a n) as [L|L]; [exact L|]. rewrite !val_out in Hx by (rewrite ?column_length; lia). discriminate. }
      rewrite column_nth in Hx by exact Ha.
      destruct (val vn a) as [x1|] eqn:Ea; cbn [is_some].
      + destruct (tm_stored e a s0) eqn:Es.
        * exfalso. assert (S : stored vn s0) by (apply (Hclosed s0 a); [unfold stored; congruence|apply tm_stored_sym; exact Es]). apply S. exact Hnone.
        * injection Hx as Ex; subst x. apply Hg. exact Ea.
      + destruct (tm_stored e a s0) eqn:Es; [|discriminate]. injection Hx as Ex; subst x.
        destruct (tm_val_pos a s0 Es) as (m & Hm & ->). exists m. split; [exact Hm|reflexivity].
    - intros a Ha. unfold stored in *. rewrite svec_add_nth by exact Hlc. destruct (val vn a); [|congruence].
      destruct (val (column e n s0) a); congruence.
    - unfold stored. rewrite svec_add_nth by exact Hlc. rewrite Hnone, column_nth by exact Hs0.
      assert (E : tm_stored e s0 s0 = true) by (apply tm_stored_iff; left; reflexivity). rewrite E. congruence.
  Qed.

  (* ---------------------------------------------------------------- the loop *)
  Lemma flood_inv : forall fuel v kap, length v = n -> kconst kap -> good kap v -> n - nstored v < fuel ->
    exists v' kap', flood fuel e n v = Ok v' /\ length v' = n /\ kconst kap' /\ good kap' v' /\ nstored v' >= n.
  Proof.
    induction fuel as [|f IH]; intros v kap Hl Hk Hg Hf; [lia|].
    cbn [flood]. destruct (Nat.ltb_spec (nstored v) n) as [Hlt|Hge].
    - set (vn := step_flood e n v).
      assert (Hln : length vn = n) by apply step_flood_length.
      assert (Hgn : good kap vn) by (apply step_good; assumption).
      destruct (count_mono v vn) as [M1 M2]; [congruence|intros a Ha; apply step_mono; assumption|].
      destruct (Nat.eqb_spec (nstored vn) (nstored v)) as [Eq|Ne].
      + (* stalled: seed the first unreached triangle *)
        destruct (first_none_spec vn 0) as (s0 & E0 & Hs0 & Hv0); [lia|]. cbn [Nat.add] in E0. rewrite E0.
        assert (Hclosed : forall a b, stored vn b -> tm_stored e a b = true -> stored vn a).
        { intros a b Hb Hab. assert (Hbv : stored v b) by (apply M2; [congruence|exact Hb]).
          apply step_stored; [exact Hl|]. split; [|exists b; split; assumption].
          apply (tm_stored_lt a b Hab). destruct (Nat.lt_ge_cases b n) as [L|L]; [exact L|].
          unfold stored in Hbv. rewrite val_out in Hbv by lia. congruence. }
        destruct (reseed kap vn s0 Hln Hk Hgn Hclosed ltac:(lia) Hv0) as (kap' & Hk' & Hg' & Hsub & Hnew).
        set (vs := svec_add vn (column e n s0)) in *.
        assert (Hls : length vs = n) by (unfold vs; rewrite svec_add_length; [exact Hln|rewrite column_length; exact Hln]).
        destruct (count_mono vn vs) as [N1 N2]; [congruence|exact Hsub|].
        assert (Hgt : nstored vn < nstored vs).
        { destruct (Nat.eq_dec (nstored vn) (nstored vs)) as [Eq'|Ne']; [|lia]. exfalso.
          apply (N2 Eq' s0 Hnew). exact Hv0. }
        apply (IH vs kap' Hls Hk' Hg'). lia.
      + apply (IH vn kap Hln Hk Hgn). lia.
    - exists v, kap. repeat split; try assumption; try apply Hk.
  Qed.

  Theorem flood_correct : 0 < n -> exists v kap, flood (S n) e n (column e n 0) = Ok v /\ length v = n /\ kconst kap /\
    forall a, a < n -> exists x m, val v a = Some x /\ (m > 0)%Z /\ x = (m * (sg a * kap a))%Z.
  Proof.
    intros Hn.
    destruct (flood_inv (S n) (column e n 0) (fun _ => sg 0)) as (v & kap & F & Hl & Hk & Hg & Hfull).
    - apply column_length.
    - split; [intros _; apply sg_pm|reflexivity].
    - intros a x Hx.
      assert (Ha : a < n).
      { destruct (Nat.lt_ge_cases a n) as [L|L]; [exact L|]. rewrite val_out in Hx by (rewrite column_length; exact L). discriminate. }
      rewrite column_nth in Hx by exact Ha. destruct (tm_stored e a 0) eqn:Es; [|discriminate]. injection Hx as Ex; subst x.
      destruct (tm_val_pos a 0 Es) as (m & Hm & ->). exists m. split; [exact Hm|reflexivity].
    - lia.
    - exists v, kap. split; [exact F|]. split; [exact Hl|]. split; [exact Hk|].
      intros a Ha. assert (S : stored v a) by (apply nstored_full; lia).
      unfold stored in S. destruct (val v a) as [x|] eqn:Ev; [|congruence].
      destruct (Hg a x Ev) as (m & Hm & ->). exists (m * (sg a * kap a))%Z, m. auto.
  Qed.
End Flood.
