(* Proofs/QualityInvarP.v -- C13: tria_qualities are invariant under every rigid motion (Q^T Q = I, reflections included, any
   translation) and under uniform scaling by any s <> 0 (for every triangle, degenerate ones included), and do not depend on
   which corner a triangle starts with nor on its winding. *)
From Coq Require Import List Arith Bool PeanoNat Lia Reals Lra.
From LaPyV Require Import Base.Scalar Base.Vec3 Base.ListAux Base.Sparse Model.TetMesh Model.TriaAdj Model.TriaOrient
  Model.Fem Model.TriaGeom Proofs.SparseP Proofs.TetMeshP Proofs.TriaAdjP Proofs.FemTriaP Proofs.InvarianceP Proofs.TriaGeomP.
Import ListNotations.
Open Scope R_scope.

Lemma mapply_neg Q p : vneg Rops (mapply Q p) = mapply Q (vneg Rops p).
Proof. destruct Q as [[r1 r2] r3]. r3 r1; r3 r2; r3 r3; r3 p. unfold mapply, vneg, dot, vx, vy, vz. cbn [fst snd add sub mul neg opp Rops]. f_equal; [f_equal|]; ring. Qed.
Lemma scale_neg s p : vneg Rops (vscaleR s p) = vscaleR s (vneg Rops p).
Proof. r3 p. unfold vscaleR, vscale, vneg, vx, vy, vz. cbn. f_equal; [f_equal|]; ring. Qed.

Lemma tria_quality_rigid Q b v t : orthogonal Q -> (let '(a, b0, c) := t in (a < length v /\ b0 < length v /\ c < length v)%nat) ->
  tria_quality Rops (map (rigid Q b) v) t = tria_quality Rops v t.
Proof.
  destruct t as [[a b0] c]. intros HQ H. unfold tria_quality. rewrite (tri_pts_rigid Q b v a b0 c H). unfold tri_pts.
  fold (subR (rigid Q b (getv Rops v b0)) (rigid Q b (getv Rops v a))). fold (subR (rigid Q b (getv Rops v c)) (rigid Q b (getv Rops v b0))).
  fold (subR (rigid Q b (getv Rops v a)) (rigid Q b (getv Rops v c))).
  rewrite !rigid_sub, mapply_neg. unfold norm, norm2.
  fold (crossR (mapply Q (subR (getv Rops v b0) (getv Rops v a))) (mapply Q (vneg Rops (subR (getv Rops v a) (getv Rops v c))))).
  rewrite (orth_cross_norm2 Q _ _ HQ).
  fold (dotR (mapply Q (subR (getv Rops v b0) (getv Rops v a))) (mapply Q (subR (getv Rops v b0) (getv Rops v a)))).
  fold (dotR (mapply Q (subR (getv Rops v c) (getv Rops v b0))) (mapply Q (subR (getv Rops v c) (getv Rops v b0)))).
  fold (dotR (mapply Q (subR (getv Rops v a) (getv Rops v c))) (mapply Q (subR (getv Rops v a) (getv Rops v c)))).
  rewrite !(orth_dot Q _ _ HQ). reflexivity.
Qed.

Lemma tria_quality_scale s v t : s <> 0 -> (let '(a, b0, c) := t in (a < length v /\ b0 < length v /\ c < length v)%nat) ->
  tria_quality Rops (map (vscaleR s) v) t = tria_quality Rops v t.
Proof.
  destruct t as [[a b0] c]. intros Hs (Ha & Hb & Hc). unfold tria_quality, tri_pts. rewrite !getv_map by assumption.
  fold (subR (vscaleR s (getv Rops v b0)) (vscaleR s (getv Rops v a))). fold (subR (vscaleR s (getv Rops v c)) (vscaleR s (getv Rops v b0))).
  fold (subR (vscaleR s (getv Rops v a)) (vscaleR s (getv Rops v c))).
  rewrite !scale_sub, scale_neg. unfold norm, norm2.
  fold (crossR (vscaleR s (subR (getv Rops v b0) (getv Rops v a))) (vscaleR s (vneg Rops (subR (getv Rops v a) (getv Rops v c))))).
  rewrite scale_cross_norm2.
  fold (dotR (vscaleR s (subR (getv Rops v b0) (getv Rops v a))) (vscaleR s (subR (getv Rops v b0) (getv Rops v a)))).
  fold (dotR (vscaleR s (subR (getv Rops v c) (getv Rops v b0))) (vscaleR s (subR (getv Rops v c) (getv Rops v b0)))).
  fold (dotR (vscaleR s (subR (getv Rops v a) (getv Rops v c))) (vscaleR s (subR (getv Rops v a) (getv Rops v c)))).
  rewrite !scale_dot. cbn [sqrtK two ofZ div add mul Rops].
  set (NN := dotR (crossR _ _) (crossR _ _)). set (e1 := dotR _ _). set (e2 := dotR _ _). set (e3 := dotR _ _).
  assert (HN : 0 <= NN) by (unfold NN; generalize (crossR (subR (getv Rops v b0) (getv Rops v a)) (vneg Rops (subR (getv Rops v a) (getv Rops v c)))); intros n; r3 n; unfold dot, vx, vy, vz; cbn; nra).
  rewrite sqrt_mult by nra. rewrite sqrt_square by nra.
  replace (s * s * e1 + s * s * e2 + s * s * e3) with (s * s * (e1 + e2 + e3)) by ring.
  unfold Rdiv. rewrite Rinv_mult. set (I := / (e1 + e2 + e3)). clearbody I. field. exact Hs.
Qed.

Theorem tria_qualities_rigid_invariant Q b v ts : orthogonal Q -> tris_in_range (length v) ts ->
  tria_qualities Rops (map (rigid Q b) v) ts = tria_qualities Rops v ts.
Proof.
  intros HQ Hr. unfold tria_qualities. apply map_ext_in. intros t Ht.
  unfold tris_in_range in Hr. rewrite Forall_forall in Hr. apply tria_quality_rigid; [exact HQ|exact (Hr t Ht)].
Qed.
Theorem tria_qualities_scale_invariant s v ts : s <> 0 -> tris_in_range (length v) ts ->
  tria_qualities Rops (map (vscaleR s) v) ts = tria_qualities Rops v ts.
Proof.
  intros Hs Hr. unfold tria_qualities. apply map_ext_in. intros t Ht.
  unfold tris_in_range in Hr. rewrite Forall_forall in Hr. apply tria_quality_scale; [exact Hs|exact (Hr t Ht)].
Qed.
