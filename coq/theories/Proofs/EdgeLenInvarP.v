(* Proofs/EdgeLenInvarP.v -- C13: avg_edge_length (triangle and tetra meshes) is unchanged by every rigid motion (Q^T Q = I,
   reflections included, any translation) and multiplied by s under uniform scaling with s >= 0. *)
From Coq Require Import List Arith Bool PeanoNat Lia ZArith Reals Lra.
From LaPyV Require Import Base.Scalar Base.Vec3 Base.ListAux Base.Sparse Model.TetMesh Model.TriaAdj Model.TriaOrient
  Model.Fem Model.TriaGeom Proofs.SparseP Proofs.TetMeshP Proofs.TriaAdjP Proofs.FemTriaP Proofs.InvarianceP Proofs.TriaGeomP Proofs.TetRigidP.
Import ListNotations.
Open Scope R_scope.
Local Notation V3 := (vec3 R).

Definition keys_in_range (n : nat) (keys : list (nat * nat)) : Prop := Forall (fun k => (fst k < n /\ snd k < n)%nat) keys.

Lemma edge_len_rigid Q b v k : orthogonal Q -> (fst k < length v /\ snd k < length v)%nat ->
  edge_len Rops (map (rigid Q b) v) k = edge_len Rops v k.
Proof.
  intros HQ (H1 & H2). unfold edge_len. rewrite !getv_map by assumption.
  fold (subR (rigid Q b (getv Rops v (fst k))) (rigid Q b (getv Rops v (snd k)))). rewrite rigid_sub. unfold norm, norm2.
  fold (dotR (mapply Q (subR (getv Rops v (fst k)) (getv Rops v (snd k)))) (mapply Q (subR (getv Rops v (fst k)) (getv Rops v (snd k))))).
  rewrite (orth_dot Q _ _ HQ). reflexivity.
Qed.
Lemma edge_len_scale s v k : 0 <= s -> (fst k < length v /\ snd k < length v)%nat ->
  edge_len Rops (map (vscaleR s) v) k = s * edge_len Rops v k.
Proof.
  intros Hs (H1 & H2). unfold edge_len. rewrite !getv_map by assumption.
  fold (subR (vscaleR s (getv Rops v (fst k))) (vscaleR s (getv Rops v (snd k)))). rewrite scale_sub. unfold norm, norm2.
  fold (dotR (vscaleR s (subR (getv Rops v (fst k)) (getv Rops v (snd k)))) (vscaleR s (subR (getv Rops v (fst k)) (getv Rops v (snd k))))).
  rewrite scale_dot. cbn [sqrtK Rops]. set (d := dotR _ _).
  assert (Hd : 0 <= d) by (unfold d; generalize (subR (getv Rops v (fst k)) (getv Rops v (snd k))); intros n; r3 n; unfold dot, vx, vy, vz; cbn; nra).
  rewrite sqrt_mult by nra. rewrite sqrt_square by exact Hs. reflexivity.
Qed.

Section Keys.
  Context (v v' : list V3) (c : R) (keys : list (nat * nat)).
  Context (H : forall k, In k keys -> edge_len Rops v' k = c * edge_len Rops v k).
  Lemma avg_keys_factor : avg_edge_length_keys Rops v' keys = c * avg_edge_length_keys Rops v keys.
  Proof.
    unfold avg_edge_length_keys, meanK. rewrite !map_length. rewrite !sumK_Rsum, !Rsum_map.
    set (E := filter _ _).
    assert (HS : Rsum (fun x => edge_len Rops v' x) E = c * Rsum (fun x => edge_len Rops v x) E).
    { rewrite <- Rsum_scal. apply Rsum_ext. intros k Hk. apply H. unfold E in Hk. apply filter_In in Hk. apply (unique_pairs_in keys k), (proj1 Hk). }
    rewrite HS. cbn [div Rops]. unfold Rdiv. ring.
  Qed.
End Keys.

Theorem avg_edge_length_keys_rigid Q b v keys : orthogonal Q -> keys_in_range (length v) keys ->
  avg_edge_length_keys Rops (map (rigid Q b) v) keys = avg_edge_length_keys Rops v keys.
Proof.
  intros HQ Hr. rewrite (avg_keys_factor v _ 1 keys); [ring|]. intros k Hk. unfold keys_in_range in Hr. rewrite Forall_forall in Hr.
  rewrite edge_len_rigid by (exact HQ || exact (Hr k Hk)). ring.
Qed.
Theorem avg_edge_length_keys_scale s v keys : 0 <= s -> keys_in_range (length v) keys ->
  avg_edge_length_keys Rops (map (vscaleR s) v) keys = s * avg_edge_length_keys Rops v keys.
Proof.
  intros Hs Hr. apply avg_keys_factor. intros k Hk. unfold keys_in_range in Hr. rewrite Forall_forall in Hr.
  apply edge_len_scale; [exact Hs|exact (Hr k Hk)].
Qed.

Lemma sym_keys_in_range n ts : tris_in_range n ts -> keys_in_range n (sym_keys ts).
Proof.
  intros Hr. unfold keys_in_range. apply Forall_forall. intros k Hk. unfold sym_keys in Hk. apply in_flat_map in Hk.
  destruct Hk as ([[a b] c] & Ht & Hk). unfold tris_in_range in Hr. rewrite Forall_forall in Hr. specialize (Hr _ Ht). cbn in Hr.
  cbn in Hk. repeat (destruct Hk as [<-|Hk]; [cbn [fst snd]; lia|]). destruct Hk.
Qed.

Theorem tria_avg_edge_length_rigid_scale Q b s v ts : orthogonal Q -> 0 <= s -> tris_in_range (length v) ts ->
  tria_avg_edge_length Rops (map (rigid Q b) v) ts = tria_avg_edge_length Rops v ts /\
  tria_avg_edge_length Rops (map (vscaleR s) v) ts = s * tria_avg_edge_length Rops v ts.
Proof.
  intros HQ Hs Hr. unfold tria_avg_edge_length. split.
  - apply avg_edge_length_keys_rigid; [exact HQ|apply sym_keys_in_range; exact Hr].
  - apply avg_edge_length_keys_scale; [exact Hs|apply sym_keys_in_range; exact Hr].
Qed.

Lemma tet_keys_in_range n ts : tets_in_range n ts -> keys_in_range n (flat_map tet_sym1 ts).
Proof.
  intros Hr. unfold keys_in_range. apply Forall_forall. intros k Hk. apply in_flat_map in Hk.
  destruct Hk as ([[[a b] c] d] & Ht & Hk). unfold tets_in_range in Hr. rewrite Forall_forall in Hr. specialize (Hr _ Ht). cbn in Hr.
  cbn in Hk. repeat (destruct Hk as [<-|Hk]; [cbn [fst snd]; lia|]). destruct Hk.
Qed.
Theorem tet_avg_edge_length_rigid_scale Q b s v ts : orthogonal Q -> 0 <= s -> tets_in_range (length v) ts ->
  tet_avg_edge_length Rops (map (rigid Q b) v) ts = tet_avg_edge_length Rops v ts /\
  tet_avg_edge_length Rops (map (vscaleR s) v) ts = s * tet_avg_edge_length Rops v ts.
Proof.
  intros HQ Hs Hr. unfold tet_avg_edge_length. split.
  - apply avg_edge_length_keys_rigid; [exact HQ|apply tet_keys_in_range; exact Hr].
  - apply avg_edge_length_keys_scale; [exact Hs|apply tet_keys_in_range; exact Hr].
Qed.
