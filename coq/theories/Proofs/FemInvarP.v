(* Proofs/FemInvarP.v -- the assembled stiffness form does not depend on the order of the triangles nor on the order / winding of
   the three indices inside a triangle (C01). *)
From Coq Require Import List Arith Bool Reals Lra Permutation.
From LaPyV Require Import Base.Scalar Base.Vec3 Base.ListAux Base.Sparse Model.TetMesh Model.TriaAdj Model.Fem Proofs.SparseP
  Proofs.TetMeshP Proofs.FemTriaP.
Import ListNotations.
Open Scope R_scope.

Lemma tri_NN_rot p1 p2 p3 : tri_NN p2 p3 p1 = tri_NN p1 p2 p3.
Proof. r3 p1; r3 p2; r3 p3. unf. ring. Qed.
Lemma tri_NN_flip p1 p2 p3 : tri_NN p2 p1 p3 = tri_NN p1 p2 p3.
Proof. r3 p1; r3 p2; r3 p3. unf. ring. Qed.
Lemma tri_grad_rot p1 p2 p3 f1 f2 f3 : tri_NN p1 p2 p3 <> 0 -> tri_grad p2 p3 p1 f2 f3 f1 = tri_grad p1 p2 p3 f1 f2 f3.
Proof.
  intros H. unfold tri_grad. rewrite tri_NN_rot. revert H. generalize (tri_NN p1 p2 p3). intros D H.
  r3 p1; r3 p2; r3 p3. unfold tri_gradnum, tri_N, dot, cross, vsub, vadd, vscale, vdivs, vx, vy, vz. cbn [fst snd add sub mul div opp Rops].
  f_equal; [f_equal|]; field; exact H.
Qed.
Lemma tri_grad_flip p1 p2 p3 f1 f2 f3 : tri_NN p1 p2 p3 <> 0 -> tri_grad p2 p1 p3 f2 f1 f3 = tri_grad p1 p2 p3 f1 f2 f3.
Proof.
  intros H. unfold tri_grad. rewrite tri_NN_flip. revert H. generalize (tri_NN p1 p2 p3). intros D H.
  r3 p1; r3 p2; r3 p3. unfold tri_gradnum, tri_N, dot, cross, vsub, vadd, vscale, vdivs, vx, vy, vz. cbn [fst snd add sub mul div opp Rops].
  f_equal; [f_equal|]; field; exact H.
Qed.

Definition tri_NN_of (v : list V3) (t : tri) : R := let '(p1, p2, p3) := tri_pts Rops v t in tri_NN p1 p2 p3.
Definition rot_tri (t : tri) : tri := let '(a, b, c) := t in (b, c, a).
Definition flip_tri (t : tri) : tri := let '(a, b, c) := t in (b, a, c).

Lemma energy_rot v f g t : tri_NN_of v t <> 0 -> tria_energy v f g (rot_tri t) = tria_energy v f g t.
Proof.
  destruct t as [[a b] c]. unfold tri_NN_of, tria_energy, rot_tri, tri_pts. intros H.
  unfold tri_area. rewrite tri_NN_rot, (tri_grad_rot _ _ _ (f a) (f b) (f c) H), (tri_grad_rot _ _ _ (g a) (g b) (g c) H). reflexivity.
Qed.
Lemma energy_flip v f g t : tri_NN_of v t <> 0 -> tria_energy v f g (flip_tri t) = tria_energy v f g t.
Proof.
  destruct t as [[a b] c]. unfold tri_NN_of, tria_energy, flip_tri, tri_pts. intros H.
  unfold tri_area. rewrite tri_NN_flip, (tri_grad_flip _ _ _ (f a) (f b) (f c) H), (tri_grad_flip _ _ _ (g a) (g b) (g c) H). reflexivity.
Qed.
Lemma vol4_rot v t : tria_vol4_raw Rops v (rot_tri t) = tria_vol4_raw Rops v t.
Proof.
  destruct t as [[a b] c]. unfold tria_vol4_raw, rot_tri, tri_pts. cbn [two one add mul sqrtK Rops].
  fold (tri_N (getv Rops v b) (getv Rops v c) (getv Rops v a)). fold (tri_N (getv Rops v a) (getv Rops v b) (getv Rops v c)).
  fold (tri_NN (getv Rops v b) (getv Rops v c) (getv Rops v a)). fold (tri_NN (getv Rops v a) (getv Rops v b) (getv Rops v c)).
  rewrite tri_NN_rot. reflexivity.
Qed.
Lemma vol4_flip v t : tria_vol4_raw Rops v (flip_tri t) = tria_vol4_raw Rops v t.
Proof.
  destruct t as [[a b] c]. unfold tria_vol4_raw, flip_tri, tri_pts. cbn [two one add mul sqrtK Rops].
  fold (tri_N (getv Rops v b) (getv Rops v a) (getv Rops v c)). fold (tri_N (getv Rops v a) (getv Rops v b) (getv Rops v c)).
  fold (tri_NN (getv Rops v b) (getv Rops v a) (getv Rops v c)). fold (tri_NN (getv Rops v a) (getv Rops v b) (getv Rops v c)).
  rewrite tri_NN_flip. reflexivity.
Qed.

(* t' is t with its three indices in another order (any of the six) *)
Inductive variant : tri -> tri -> Prop :=
| var_refl t : variant t t
| var_rot t t' : variant t t' -> variant t (rot_tri t')
| var_flip t t' : variant t t' -> variant t (flip_tri t').

Lemma variant_vol4 v t t' : variant t t' -> tria_vol4_raw Rops v t' = tria_vol4_raw Rops v t.
Proof. induction 1; [reflexivity|rewrite vol4_rot; assumption|rewrite vol4_flip; assumption]. Qed.
Lemma nondeg_NN v t : 0 < tria_vol4_raw Rops v t -> tri_NN_of v t <> 0.
Proof. destruct t as [[a b] c]. intros H. pose proof (tria_nondeg_NN v a b c H) as P. unfold tri_NN_of. cbn [tri_pts] in *. unfold tri_pts in *. lra. Qed.
Lemma variant_energy v f g t t' : 0 < tria_vol4_raw Rops v t -> variant t t' ->
  tria_energy v f g t' = tria_energy v f g t.
Proof.
  intros H V. induction V as [t|t t' V IH|t t' V IH]; [reflexivity| |].
  - rewrite energy_rot; [exact (IH H)|]. apply nondeg_NN. rewrite (variant_vol4 v t t' V). exact H.
  - rewrite energy_flip; [exact (IH H)|]. apply nondeg_NN. rewrite (variant_vol4 v t t' V). exact H.
Qed.

Theorem stiffness_form_invariant_under_index_order v ts ts' f g : tria_nondeg v ts -> Forall2 variant ts ts' ->
  tria_nondeg v ts' /\ bil f (fem_tria_A Rops v ts') g = bil f (fem_tria_A Rops v ts) g.
Proof.
  intros Hn HV.
  assert (Hn' : tria_nondeg v ts').
  { unfold tria_nondeg in *. induction HV as [|t t' l l' Vt Vl IH]; [constructor|]. inversion Hn as [|? ? Ht Hl]; subst.
    constructor; [rewrite (variant_vol4 v t t' Vt); exact Ht|apply IH; exact Hl]. }
  split; [exact Hn'|]. rewrite !fem_tria_A_energy by assumption.
  unfold tria_nondeg in Hn. induction HV as [|t t' l l' Vt Vl IH]; [reflexivity|]. inversion Hn as [|? ? Ht Hl]; subst.
  inversion Hn' as [|? ? Ht' Hl']; subst. cbn [Rsum]. rewrite (variant_energy v f g t t' Ht Vt), (IH Hl Hl'). reflexivity.
Qed.
Theorem stiffness_form_invariant_under_element_order v ts ts' f g : tria_nondeg v ts -> Permutation ts ts' ->
  tria_nondeg v ts' /\ bil f (fem_tria_A Rops v ts') g = bil f (fem_tria_A Rops v ts) g.
Proof.
  intros Hn P. assert (Hn' : tria_nondeg v ts') by (unfold tria_nondeg in *; apply (Permutation_Forall P); exact Hn).
  split; [exact Hn'|]. rewrite !fem_tria_A_energy by assumption. symmetry. apply Rsum_perm. exact P.
Qed.
