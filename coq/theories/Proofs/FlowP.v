(* Proofs/FlowP.v -- theorems about normalize_, tria_mean_curvature_flow and the projection step of
   tria_spherical_project (C19) over R, for every sparse solver meeting its contract. *)
From Coq Require Import List Arith Bool PeanoNat Lia Reals Lra.
From LaPyV Require Import Base.Scalar Base.Vec3 Base.ListAux Base.Sparse Model.TetMesh Model.TriaAdj Model.TriaOrient Model.Fem
  Model.TriaGeom Model.TriaFunc Model.Flow
  Proofs.SparseP Proofs.TetMeshP Proofs.FemTriaP Proofs.TriaAdjP Proofs.TriaGeomP Proofs.DiffGeoP Proofs.PoissonP Proofs.InvarianceP.
Import ListNotations.
Open Scope R_scope.

(* ------------------------------------------------------------------ normalize: unit area, centroid at the origin *)
Definition aff (s : R) (c : V3) (p : V3) : V3 := vscale Rops s (subR p c).

Lemma aff_sub s c p q : subR (aff s c p) (aff s c q) = vscaleR s (subR p q).
Proof. r3 p; r3 q; r3 c. unfold aff, vscaleR, vscale, vsub, vx, vy, vz. cbn [fst snd sub mul Rops]. f_equal; [f_equal|]; ring. Qed.

Lemma cen_area_aff s c v a b d : 0 <= s -> (a < length v /\ b < length v /\ d < length v)%nat ->
  cen_area Rops (map (aff s c) v) (a, b, d) = s * s * cen_area Rops v (a, b, d).
Proof.
  intros Hs (Ha & Hb & Hd). unfold cen_area, tri_pts. rewrite !getv_map by assumption. rewrite !aff_sub.
  unfold norm, norm2. cbn [sqrtK mul Rops]. unfold frac. cbn [div ofZ Rops]. rewrite scale_cross_norm2.
  rewrite sqrt_mult; [| nra | apply dot_self_nonneg].
  replace (s * s * (s * s)) with ((s * s) * (s * s)) by ring. rewrite sqrt_square by nra. ring.
Qed.

Lemma tri_centre_aff s c v a b d : (a < length v /\ b < length v /\ d < length v)%nat ->
  tri_centre Rops (map (aff s c) v) (a, b, d) = aff s c (tri_centre Rops v (a, b, d)).
Proof.
  intros (Ha & Hb & Hd). unfold tri_centre, tri_pts. rewrite !getv_map by assumption.
  generalize (getv Rops v a) (getv Rops v b) (getv Rops v d). intros p q r. r3 p; r3 q; r3 r; r3 c.
  unfold aff, vscale, vadd, vsub, vx, vy, vz, frac. cbn [fst snd add sub mul div ofZ Rops]. f_equal; [f_equal|]; field.
Qed.

(* components of a vector sum *)
Lemma vsum_acc (l : list V3) (acc : V3) :
  fold_left (vadd Rops) l acc = (vx acc + Rsum (fun p => vx p) l, vy acc + Rsum (fun p => vy p) l, vz acc + Rsum (fun p => vz p) l).
Proof.
  revert acc. induction l as [|p l IH]; intros acc.
  - cbn [fold_left Rsum]. r3 acc. unfold vx, vy, vz. cbn [fst snd]. f_equal; [f_equal|]; ring.
  - cbn [fold_left Rsum]. rewrite IH. r3 acc; r3 p. unfold vadd, vx, vy, vz. cbn [fst snd add Rops]. f_equal; [f_equal|]; ring.
Qed.
Lemma vsum_components (l : list V3) :
  vsum Rops l = (Rsum (fun p => vx p) l, Rsum (fun p => vy p) l, Rsum (fun p => vz p) l).
Proof. unfold vsum. rewrite vsum_acc. unfold zero3, vx, vy, vz. cbn [fst snd zero Rops]. f_equal; [f_equal|]; ring. Qed.

Lemma combine_map_r {A B} (h : A -> B) l : combine l (map h l) = map (fun x => (x, h x)) l.
Proof. induction l as [|x l IH]; [reflexivity|]. cbn [map combine]. rewrite IH. reflexivity. Qed.

Definition total_area (v : list V3) (ts : list tri) : R := Rsum (cen_area Rops v) ts.
Lemma centroid_snd v ts : snd (centroid Rops v ts) = total_area v ts.
Proof. unfold centroid, total_area. cbn [snd]. rewrite sumK_Rsum, Rsum_map. reflexivity. Qed.
Lemma centroid_fst v ts : fst (centroid Rops v ts) =
  (Rsum (fun t => cen_area Rops v t / total_area v ts * vx (tri_centre Rops v t)) ts,
   Rsum (fun t => cen_area Rops v t / total_area v ts * vy (tri_centre Rops v t)) ts,
   Rsum (fun t => cen_area Rops v t / total_area v ts * vz (tri_centre Rops v t)) ts).
Proof.
  unfold centroid. cbn [fst]. rewrite vsum_components, combine_map_r, map_map, !Rsum_map.
  fold (total_area v ts). rewrite sumK_Rsum, Rsum_map. fold (total_area v ts).
  reflexivity.
Qed.

Lemma Rsum_in_range (h k : tri -> R) n ts : tris_in_range n ts ->
  (forall a b c, (a < n /\ b < n /\ c < n)%nat -> h (a, b, c) = k (a, b, c)) -> Rsum h ts = Rsum k ts.
Proof.
  intros Hr H. apply Rsum_ext. intros [[a b] c] Hin. apply H. unfold tris_in_range in Hr. rewrite Forall_forall in Hr.
  apply (Hr _ Hin).
Qed.

Lemma Rsum_plus_minus {X} (h k : X -> R) xs : Rsum (fun x => h x - k x) xs = Rsum h xs - Rsum k xs.
Proof. induction xs as [|x xs IH]; cbn [Rsum]; [ring|]. rewrite IH. ring. Qed.

Theorem normalize_unit_area_zero_centroid v ts : tris_in_range (length v) ts -> 0 < total_area v ts ->
  snd (centroid Rops (normalize Rops v ts) ts) = 1 /\ fst (centroid Rops (normalize Rops v ts) ts) = (0, 0, 0).
Proof.
  intros Hr HA. unfold normalize. destruct (centroid Rops v ts) as [c A0] eqn:EC.
  assert (EA : A0 = total_area v ts) by (rewrite <- centroid_snd, EC; reflexivity).
  assert (Ec : c = fst (centroid Rops v ts)) by (rewrite EC; reflexivity).
  set (A := total_area v ts) in *. subst A0.
  set (s := 1 / sqrt A). cbn [one div sqrtK Rops]. fold s.
  assert (Hsq : 0 < sqrt A) by (apply sqrt_lt_R0; exact HA).
  assert (Hs : 0 <= s) by (unfold s; apply Rlt_le, Rdiv_lt_0_compat; lra).
  assert (Hss : s * s = / A).
  { unfold s. replace (1 / sqrt A * (1 / sqrt A)) with (/ (sqrt A * sqrt A)) by (field; lra). rewrite sqrt_sqrt by lra. reflexivity. }
  change (map (fun p : vec3 R => vscale Rops s (vsub Rops p c)) v) with (map (aff s c) v).
  assert (TA : total_area (map (aff s c) v) ts = 1).
  { unfold total_area. rewrite (Rsum_in_range _ (fun t => s * s * cen_area Rops v t) (length v) ts Hr).
    - rewrite Rsum_scal. fold (total_area v ts). fold A. rewrite Hss. field. lra.
    - intros a b d H. apply cen_area_aff; assumption. }
  split; [rewrite centroid_snd; exact TA|].
  rewrite centroid_fst, TA.
  (* each component: sum_t s^2 a_t * s (centre_t - c) = s^3 (sum a_t centre_t - c A) = 0 *)
  rewrite Ec, centroid_fst. fold A.
  assert (G : forall (pr : V3 -> R) (cc : R),
             (forall s0 c0 p, pr (aff s0 c0 p) = s0 * (pr p - pr c0)) ->
             cc = Rsum (fun t => cen_area Rops v t / A * pr (tri_centre Rops v t)) ts ->
             forall c0, pr c0 = cc ->
             Rsum (fun t => cen_area Rops (map (aff s c0) v) t / 1 * pr (tri_centre Rops (map (aff s c0) v) t)) ts = 0).
  { intros pr cc Hpr Hcc c0 Hc0.
    rewrite (Rsum_in_range _ (fun t => (s * s * s) * (cen_area Rops v t * pr (tri_centre Rops v t)) - (s * s * s * cc) * cen_area Rops v t)
                           (length v) ts Hr).
    - rewrite Rsum_plus_minus. rewrite !Rsum_scal. fold (total_area v ts). fold A.
      assert (E : Rsum (fun t => cen_area Rops v t * pr (tri_centre Rops v t)) ts = A * cc).
      { rewrite Hcc, <- Rsum_scal. apply Rsum_ext. intros t _. field. lra. }
      rewrite E. ring.
    - intros a b d H. rewrite cen_area_aff, tri_centre_aff by assumption. rewrite Hpr, Hc0. field. }
  set (cx := Rsum (fun t => cen_area Rops v t / A * vx (tri_centre Rops v t)) ts).
  set (cy := Rsum (fun t => cen_area Rops v t / A * vy (tri_centre Rops v t)) ts).
  set (cz := Rsum (fun t => cen_area Rops v t / A * vz (tri_centre Rops v t)) ts).
  assert (Px : forall s0 c0 p, vx (aff s0 c0 p) = s0 * (vx p - vx c0)) by (intros s0 c0 p; r3 p; r3 c0; reflexivity).
  assert (Py : forall s0 c0 p, vy (aff s0 c0 p) = s0 * (vy p - vy c0)) by (intros s0 c0 p; r3 p; r3 c0; reflexivity).
  assert (Pz : forall s0 c0 p, vz (aff s0 c0 p) = s0 * (vz p - vz c0)) by (intros s0 c0 p; r3 p; r3 c0; reflexivity).
  rewrite (G (fun p => vx p) cx Px eq_refl (cx, cy, cz) eq_refl).
  rewrite (G (fun p => vy p) cy Py eq_refl (cx, cy, cz) eq_refl).
  rewrite (G (fun p => vz p) cz Pz eq_refl (cx, cy, cz) eq_refl).
  reflexivity.
Qed.

(* area() of the normalised mesh is 1 as well (area, centroid and the mass matrix use the same number, C13) *)
Theorem normalize_area_one v ts : tris_in_range (length v) ts -> 0 < total_area v ts -> area Rops (normalize Rops v ts) ts = 1.
Proof.
  intros Hr HA. rewrite area_is_sum_of_cross_areas.
  destruct (normalize_unit_area_zero_centroid v ts Hr HA) as [H _]. rewrite centroid_snd in H. unfold total_area in H.
  rewrite <- H. apply Rsum_ext. intros t _. symmetry. apply cen_area_is_cross_area.
Qed.

(* ------------------------------------------------------------------ the flow *)
Section FlowThm.
  Context (solve : nat -> coo R -> list R -> result (list R)) (HC : solve_contract solve).

  Theorem flow_step_equation step A0 ts v X v' d : flow_step Rops solve step A0 ts v = Ok (X, v', d) ->
    v' = normalize Rops X ts /\
    forall c, (c < 3)%nat -> forall i, (i < length v)%nat ->
      mv (flow_matrix Rops step A0 (fem_tria_mass Rops true v ts)) (vfun Rops (col c X)) i
      = mv (fem_tria_mass Rops true v ts) (vfun Rops (col c v)) i.
  Proof.
    unfold flow_step. set (M := fem_tria_mass Rops true v ts). set (S := flow_matrix Rops step A0 M).
    destruct (solve (length v) S (flow_rhs Rops M v 0)) as [xs|e] eqn:E0; [|discriminate].
    destruct (solve (length v) S (flow_rhs Rops M v 1)) as [ys|e] eqn:E1; [|discriminate].
    destruct (solve (length v) S (flow_rhs Rops M v 2)) as [zs|e] eqn:E2; [|discriminate].
    intros H. inversion H; subst X v' d. clear H. split; [reflexivity|].
    destruct (HC _ _ _ _ E0) as [L0 R0]. destruct (HC _ _ _ _ E1) as [L1 R1]. destruct (HC _ _ _ _ E2) as [L2 R2].
    assert (Lc : length (combine xs (combine ys zs)) = length v) by (rewrite !combine_length; lia).
    assert (C0 : col 0 (v_of_cols [xs; ys; zs]) = xs).
    { unfold col, v_of_cols. rewrite map_map. clear -L0 L1 L2. revert ys zs L1 L2 L0. generalize (length v) as n.
      induction xs as [|x xs IH]; intros n ys zs L1 L2 L0; [reflexivity|].
      destruct ys as [|y ys]; [cbn in *; lia|]. destruct zs as [|z zs]; [cbn in *; lia|].
      cbn [combine map]. f_equal. destruct n; [cbn in L0; lia|]. apply (IH n); cbn in *; lia. }
    assert (C1 : col 1 (v_of_cols [xs; ys; zs]) = ys).
    { unfold col, v_of_cols. rewrite map_map. clear -L0 L1 L2. revert xs zs L0 L2 L1. generalize (length v) as n.
      induction ys as [|y ys IH]; intros n xs zs L0 L2 L1; [destruct xs; reflexivity|].
      destruct xs as [|x xs]; [cbn in *; lia|]. destruct zs as [|z zs]; [cbn in *; lia|].
      cbn [combine map]. f_equal. destruct n; [cbn in L1; lia|]. apply (IH n); cbn in *; lia. }
    assert (C2 : col 2 (v_of_cols [xs; ys; zs]) = zs).
    { unfold col, v_of_cols. rewrite map_map. clear -L0 L1 L2. revert xs ys L0 L1 L2. generalize (length v) as n.
      induction zs as [|z zs IH]; intros n xs ys L0 L1 L2; [destruct xs; [reflexivity|destruct ys; reflexivity]|].
      destruct xs as [|x xs]; [cbn in *; lia|]. destruct ys as [|y ys]; [cbn in *; lia|].
      cbn [combine map]. f_equal. destruct n; [cbn in L2; lia|]. apply (IH n); cbn in *; lia. }
    assert (RH : forall c i, (i < length v)%nat -> nth i (flow_rhs Rops M v c) 0 = mv M (vfun Rops (col c v)) i).
    { intros c i Hi. unfold flow_rhs, mulvec. apply nth_map_iota. exact Hi. }
    unfold v_of_cols in C0, C1, C2.
    intros c Hc i Hi. destruct c as [|[|[|c]]]; try lia.
    - rewrite C0, R0 by exact Hi. apply RH. exact Hi.
    - rewrite C1, R1 by exact Hi. apply RH. exact Hi.
    - rewrite C2, R2 by exact Hi. apply RH. exact Hi.
  Qed.

  (* every result of the loop is the start or a normalised solver answer *)
  Lemma flow_loop_shape iters stop_eps step A0 ts : forall v w, flow_loop Rops solve iters stop_eps step A0 ts v = Ok w ->
    w = v \/ exists X, w = normalize Rops X ts.
  Proof.
    induction iters as [|m IH]; intros v w H; cbn [flow_loop] in H.
    - inversion H. left; reflexivity.
    - destruct (flow_step Rops solve step A0 ts v) as [[[X v'] d]|e] eqn:E; [|discriminate].
      apply flow_step_equation in E. destruct E as [-> _].
      destruct (ltb Rops d stop_eps).
      + inversion H. right. exists X. reflexivity.
      + apply IH in H. destruct H as [->|H]; [right; exists X; reflexivity|right; exact H].
  Qed.

  Theorem flow_result v ts max_iter stop_eps step w ts' :
    mean_curvature_flow Rops solve v ts max_iter stop_eps step = Ok (w, ts') ->
    ts' = ts /\ exists X, w = normalize Rops X ts.
  Proof.
    unfold mean_curvature_flow. destruct (flow_loop _ _ _ _ _ _ _ _) as [w'|e] eqn:E; [|discriminate].
    intros H. inversion H; subst. split; [reflexivity|].
    apply flow_loop_shape in E. destruct E as [->|E]; [exists v; reflexivity|exact E].
  Qed.

  Theorem flow_zero_iterations v ts stop_eps step :
    mean_curvature_flow Rops solve v ts 0 stop_eps step = Ok (normalize Rops v ts, ts).
  Proof. reflexivity. Qed.

  (* lengths are kept along the loop, so the normalisation theorem applies to the result *)
  Lemma normalize_length (x : list V3) ts : length (normalize Rops x ts) = length x.
  Proof. unfold normalize. destruct (centroid Rops x ts). apply map_length. Qed.
  Lemma flow_step_lengths step A0 ts v X v' d : flow_step Rops solve step A0 ts v = Ok (X, v', d) ->
    length X = length v /\ length v' = length v.
  Proof.
    unfold flow_step. set (M := fem_tria_mass Rops true v ts). set (S := flow_matrix Rops step A0 M).
    destruct (solve (length v) S (flow_rhs Rops M v 0)) as [xs|e] eqn:E0; [|discriminate].
    destruct (solve (length v) S (flow_rhs Rops M v 1)) as [ys|e] eqn:E1; [|discriminate].
    destruct (solve (length v) S (flow_rhs Rops M v 2)) as [zs|e] eqn:E2; [|discriminate].
    intros H. injection H as EX Ev Ed. subst X v'.
    destruct (HC _ _ _ _ E0) as [L0 _]. destruct (HC _ _ _ _ E1) as [L1 _]. destruct (HC _ _ _ _ E2) as [L2 _].
    assert (L : length (v_of_cols [xs; ys; zs]) = length v) by (unfold v_of_cols; rewrite map_length, !combine_length; lia).
    split; [exact L|]. rewrite normalize_length. exact L.
  Qed.
  Lemma flow_loop_shape_len iters stop_eps step A0 ts : forall v w, flow_loop Rops solve iters stop_eps step A0 ts v = Ok w ->
    w = v \/ exists X, w = normalize Rops X ts /\ length X = length v.
  Proof.
    induction iters as [|m IH]; intros v w H; cbn [flow_loop] in H.
    - inversion H. left; reflexivity.
    - destruct (flow_step Rops solve step A0 ts v) as [[[X v'] d]|e] eqn:E; [|discriminate].
      pose proof (flow_step_lengths _ _ _ _ _ _ _ E) as [LX Lv'].
      apply flow_step_equation in E. destruct E as [-> _].
      destruct (ltb Rops d stop_eps).
      + inversion H. right. exists X. split; [reflexivity|exact LX].
      + apply IH in H. destruct H as [->|(X' & -> & LX')]; [right; exists X; split; [reflexivity|exact LX]|].
        right. exists X'. split; [reflexivity|]. rewrite LX', Lv'. reflexivity.
  Qed.

  (* the returned mesh has unit area and its centroid at the origin, as soon as the last solver answer has positive area *)
  Theorem flow_result_unit_area v ts max_iter stop_eps step w ts' : tris_in_range (length v) ts ->
    mean_curvature_flow Rops solve v ts max_iter stop_eps step = Ok (w, ts') ->
    exists X, w = normalize Rops X ts /\ length X = length v /\
      (0 < total_area X ts -> area Rops w ts = 1 /\ centroid Rops w ts = ((0, 0, 0), 1)).
  Proof.
    intros Hr. unfold mean_curvature_flow. destruct (flow_loop _ _ _ _ _ _ _ _) as [w'|e] eqn:E; [|discriminate].
    intros H. inversion H; subst w' ts'. clear H.
    apply flow_loop_shape_len in E. rewrite normalize_length in E.
    assert (G : forall X, length X = length v -> w = normalize Rops X ts ->
              0 < total_area X ts -> area Rops w ts = 1 /\ centroid Rops w ts = ((0, 0, 0), 1)).
    { intros X LX -> HA. assert (Hr' : tris_in_range (length X) ts) by (rewrite LX; exact Hr).
      split; [apply normalize_area_one; assumption|].
      destruct (normalize_unit_area_zero_centroid X ts Hr' HA) as [H1 H2].
      destruct (centroid Rops (normalize Rops X ts) ts) as [c a]. cbn [fst snd] in *. subst. reflexivity. }
    destruct E as [->|(X & -> & LX)].
    - exists v. split; [reflexivity|]. split; [reflexivity|]. apply G; reflexivity.
    - exists X. split; [reflexivity|]. split; [exact LX|]. apply G; [exact LX|reflexivity].
  Qed.
End FlowThm.

(* ------------------------------------------------------------------ projection to radius 100 and the gates *)
Lemma project100_norm p : dotR p p <> 0 ->
  norm Rops (vscale Rops 100 (vdivs Rops p (norm Rops p))) = 100.
Proof.
  intros H. unfold norm at 1, norm2.
  set (N := norm Rops p). assert (HN : N * N = dotR p p) by (unfold N, norm, norm2; cbn [sqrtK Rops]; apply sqrt_sqrt, dot_self_nonneg).
  assert (N0 : N <> 0) by (intros E; rewrite E in HN; apply H; lra).
  assert (E : dotR (vscale Rops 100 (vdivs Rops p N)) (vscale Rops 100 (vdivs Rops p N)) = 100 * 100).
  { transitivity (100 * 100 * (dotR p p / (N * N))).
    - r3 p. unfold dot, vscale, vdivs, vx, vy, vz. cbn [fst snd add mul div Rops]. field. exact N0.
    - rewrite <- HN. field. exact N0. }
  cbn [sqrtK Rops]. rewrite E. apply sqrt_square. lra.
Qed.

Theorem project_gates_ok sph spatvol vn ts w ts' : project_gates Rops sph spatvol vn ts = Ok (w, ts') ->
  ts' = ts /\ w = project100 Rops vn /\
  99 / 100 <= area Rops w ts / sph /\ flipped_area Rops w ts / sph <= 8 / 10000 /\ 6 / 10 <= spatvol /\
  ((forall p, In p vn -> dotR p p <> 0) -> Forall (fun q => norm Rops q = 100) w).
Proof.
  unfold project_gates. cbn [ltb Rops]. unfold frac. cbn [div ofZ Rops].
  destruct (Rltb (95 / 100) _) eqn:G1; [discriminate|].
  destruct (Rltb _ (99 / 100)) eqn:G2; [discriminate|].
  destruct (Rltb (8 / 10000) _) eqn:G3; [discriminate|].
  destruct (Rltb spatvol (6 / 10)) eqn:G4; [discriminate|].
  intros H. inversion H; subst. apply Rltb_false in G2, G3, G4.
  split; [reflexivity|]. split; [reflexivity|]. split; [lra|]. split; [lra|]. split; [lra|].
  intros Hp. apply Forall_forall. intros q Hq. unfold project100 in Hq.
  apply in_map_iff in Hq. destruct Hq as (p & <- & Hin). cbn [ofZ Rops]. apply project100_norm. apply Hp. exact Hin.
Qed.
(* ---- spectral embedding: coordinates in [-1, 1] *)
Lemma maxl1_ge (l : list R) x : In x l -> x <= maxl1 Rops l.
Proof.
  destruct l as [|a l]; [intros []|]. unfold maxl1.
  assert (G : forall l m x, (x <= m \/ In x l) -> x <= fold_left (fun m y => if ltb Rops m y then y else m) l m).
  { clear. induction l as [|b l IH]; intros m x H; cbn [fold_left].
    - destruct H as [H|[]]; exact H.
    - apply IH. cbn [ltb Rops]. destruct (Rltb m b) eqn:E.
      + apply Rltb_true in E. destruct H as [H|[H|H]]; [left; lra|left; lra|right; exact H].
      + apply Rltb_false in E. destruct H as [H|[H|H]]; [left; lra|left; lra|right; exact H]. }
  intros [H|H]; apply G; [left; lra|right; exact H].
Qed.
Lemma minl1_le (l : list R) x : In x l -> minl1 Rops l <= x.
Proof.
  destruct l as [|a l]; [intros []|]. unfold minl1.
  assert (G : forall l m x, (m <= x \/ In x l) -> fold_left (fun m y => if ltb Rops y m then y else m) l m <= x).
  { clear. induction l as [|b l IH]; intros m x H; cbn [fold_left].
    - destruct H as [H|[]]; exact H.
    - apply IH. cbn [ltb Rops]. destruct (Rltb b m) eqn:E.
      + apply Rltb_true in E. destruct H as [H|[H|H]]; [left; lra|left; lra|right; exact H].
      + apply Rltb_false in E. destruct H as [H|[H|H]]; [left; lra|left; lra|right; exact H]. }
  intros [H|H]; apply G; [left; lra|right; exact H].
Qed.

Theorem rescale_in_unit_interval (ev : list R) y : In y (rescale_pm1 Rops ev) -> -1 <= y <= 1.
Proof.
  unfold rescale_pm1. intros H. apply in_map_iff in H. destruct H as (x & <- & Hx).
  pose proof (maxl1_ge ev x Hx) as Hmax. pose proof (minl1_le ev x Hx) as Hmin.
  set (mn := minl1 Rops ev) in *. set (mx := maxl1 Rops ev) in *.
  cbn [ltb zero opp div Rops].
  destruct (Rltb x 0) eqn:E1.
  - apply Rltb_true in E1. assert (Hm : mn < 0) by lra.
    assert (B : -1 <= x / - mn < 0).
    { split.
      - apply (Rmult_le_reg_r (- mn)); [lra|]. unfold Rdiv. rewrite Rmult_assoc, Rinv_l by lra. lra.
      - assert (0 < / - mn) by (apply Rinv_0_lt_compat; lra). unfold Rdiv. nra. }
    destruct (Rltb 0 (x / - mn)) eqn:E2; [apply Rltb_true in E2; lra|]. lra.
  - apply Rltb_false in E1. destruct (Rltb 0 x) eqn:E2.
    + apply Rltb_true in E2. assert (Hm : 0 < mx) by lra. split.
      * apply Rle_trans with 0; [lra|]. apply Rlt_le, Rdiv_lt_0_compat; lra.
      * apply (Rmult_le_reg_r mx); [lra|]. unfold Rdiv. rewrite Rmult_assoc, Rinv_l by lra. lra.
    + apply Rltb_false in E2. lra.
Qed.

Theorem embedding_in_cube v ev1 ev2 ev3 e : spectral_embedding Rops v ev1 ev2 ev3 = Ok e ->
  Forall (fun p => -1 <= vx p <= 1 /\ -1 <= vy p <= 1 /\ -1 <= vz p <= 1) (em_vn e).
Proof.
  unfold spectral_embedding.
  destruct (ltb Rops _ _ || ltb Rops _ _); [discriminate|].
  match goal with |- context [if ?b then (ev3, ev2) else _] => destruct b end;
  intros H; inversion H; subst; cbn [em_vn]; clear H;
  apply Forall_forall; intros p Hp; apply in_map_iff in Hp; destruct Hp as ([x [y z]] & <- & Hin);
  apply in_combine_l in Hin as Hx; apply in_combine_r in Hin; apply in_combine_l in Hin as Hy; apply in_combine_r in Hin;
  unfold vx, vy, vz; cbn [fst snd];
  (split; [|split]); eapply rescale_in_unit_interval; eassumption.
Qed.

(* ---- axis alignment: after the sign choices, the region where an eigenfunction is large lies, on average, further along its
        axis (y for the first, z for the second, x for the third) than the region where it is small *)
Lemma Rltb_neg a b : Rltb (- a) (- b) = Rltb b a.
Proof.
  destruct (Rltb b a) eqn:E.
  - apply Rltb_true in E. apply Rltb_true. lra.
  - apply Rltb_false in E. apply Rltb_false. lra.
Qed.
Lemma negl_is_opp l : negl Rops l = map Ropp l.
Proof. unfold negl. apply map_ext. intros x. cbn [opp one mul Rops]. ring. Qed.
Lemma fold_max_neg : forall l m, fold_left (fun m y => if ltb Rops m y then y else m) (map Ropp l) (- m)
                                 = - fold_left (fun m y => if ltb Rops y m then y else m) l m.
Proof.
  induction l as [|y l IH]; intros m; [reflexivity|]. cbn [map fold_left]. cbn [ltb Rops]. rewrite Rltb_neg.
  destruct (Rltb y m); apply IH.
Qed.
Lemma fold_min_neg : forall l m, fold_left (fun m y => if ltb Rops y m then y else m) (map Ropp l) (- m)
                                 = - fold_left (fun m y => if ltb Rops m y then y else m) l m.
Proof.
  induction l as [|y l IH]; intros m; [reflexivity|]. cbn [map fold_left]. cbn [ltb Rops]. rewrite Rltb_neg.
  destruct (Rltb m y); apply IH.
Qed.
Lemma maxl1_negl l : l <> [] -> maxl1 Rops (negl Rops l) = - minl1 Rops l.
Proof. rewrite negl_is_opp. destruct l as [|a l]; [contradiction|]. intros _. cbn [map maxl1 minl1]. apply fold_max_neg. Qed.
Lemma minl1_negl l : l <> [] -> minl1 Rops (negl Rops l) = - maxl1 Rops l.
Proof. rewrite negl_is_opp. destruct l as [|a l]; [contradiction|]. intros _. cbn [map maxl1 minl1]. apply fold_min_neg. Qed.

Lemma combine_map_snd {A B C} (g : B -> C) (a : list A) (b : list B) : combine a (map g b) = map (fun p => (fst p, g (snd p))) (combine a b).
Proof. revert b. induction a as [|x a IH]; intros b; [reflexivity|]. destruct b as [|y b]; [reflexivity|]. cbn [map combine fst snd]. rewrite IH. reflexivity. Qed.
Lemma filter_map_comm {A B} (h : A -> B) (f : B -> bool) l : filter f (map h l) = map h (filter (fun x => f (h x)) l).
Proof. induction l as [|x l IH]; [reflexivity|]. cbn [map filter]. destruct (f (h x)); cbn [map]; rewrite IH; reflexivity. Qed.

Lemma cmax_negl v ev : ev <> [] -> cmax_of Rops v (negl Rops ev) = cmin_of Rops v ev.
Proof.
  intros H. unfold cmax_of, cmin_of. rewrite maxl1_negl by exact H. rewrite negl_is_opp, combine_map_snd, filter_map_comm, map_map.
  f_equal. cbn [fst]. rewrite map_ext with (g := fst) by reflexivity. f_equal. apply filter_ext. intros [p e]. cbn [fst snd ltb mul Rops].
  replace (half_ Rops * - minl1 Rops ev) with (- (half_ Rops * minl1 Rops ev)) by ring. apply Rltb_neg.
Qed.
Lemma cmin_negl v ev : ev <> [] -> cmin_of Rops v (negl Rops ev) = cmax_of Rops v ev.
Proof.
  intros H. unfold cmax_of, cmin_of. rewrite minl1_negl by exact H. rewrite negl_is_opp, combine_map_snd, filter_map_comm, map_map.
  f_equal. cbn [fst]. rewrite map_ext with (g := fst) by reflexivity. f_equal. apply filter_ext. intros [p e]. cbn [fst snd ltb mul Rops].
  replace (half_ Rops * - maxl1 Rops ev) with (- (half_ Rops * maxl1 Rops ev)) by ring. apply Rltb_neg.
Qed.

Definition aligned (v : list V3) (ev : list R) (k : nat) : Prop := coord k (cmin_of Rops v ev) <= coord k (cmax_of Rops v ev).
Lemma aligned_after_sign v ev k : ev <> [] ->
  aligned v (if ltb Rops (coord k (cmax_of Rops v ev)) (coord k (cmin_of Rops v ev)) then negl Rops ev else ev) k.
Proof.
  intros H. unfold aligned. cbn [ltb Rops]. destruct (Rltb _ _) eqn:E.
  - apply Rltb_true in E. rewrite cmax_negl, cmin_negl by exact H. lra.
  - apply Rltb_false in E. lra.
Qed.

Theorem embedding_axes_aligned v ev1 ev2 ev3 e : ev1 <> [] -> ev2 <> [] -> ev3 <> [] ->
  spectral_embedding Rops v ev1 ev2 ev3 = Ok e ->
  let '(a, b, c) := em_ev e in aligned v a 1 /\ aligned v b 2 /\ aligned v c 0.
Proof.
  intros H1 H2 H3. unfold spectral_embedding.
  destruct (ltb Rops _ _ || ltb Rops _ _); [discriminate|].
  match goal with |- context [if ?b then (ev3, ev2) else _] => destruct b end;
  intros H; inversion H; subst; cbn [em_ev]; clear H;
  (split; [|split]); first [exact (aligned_after_sign v _ _ H1) | exact (aligned_after_sign v _ _ H2) | exact (aligned_after_sign v _ _ H3)].
Qed.
