(* Proofs/EigsP.v -- facts about the generalized eigenproblem A x = lambda B x of the FEM pencil (C03). *)
From Coq Require Import List Arith Bool PeanoNat Lia Reals Lra.
From LaPyV Require Import Base.Scalar Base.Vec3 Base.ListAux Base.Sparse Model.TetMesh Model.TriaAdj Model.Fem Model.Heat Model.Poisson
  Proofs.SparseP Proofs.TetMeshP Proofs.FemTriaP Proofs.TriaAdjP Proofs.PoissonP Proofs.HeatP.
Import ListNotations.
Open Scope R_scope.

Lemma mv_nil (y : nat -> R) k : mv [] y k = 0.
Proof. reflexivity. Qed.

Definition eigpair (n : nat) (A B : coo R) (lam : R) (x : nat -> R) : Prop :=
  forall k, (k < n)%nat -> mv A x k = lam * mv B x k.

Lemma bilin_rows_range n M f g : in_range n M -> bil f M g = Rsum (fun i => f i * mv M g i) (iota n).
Proof. intros H. apply bilin_rows. apply in_range_rows. exact H. Qed.

Lemma eigpair_forms n A B lam x y : in_range n A -> in_range n B -> eigpair n A B lam x ->
  bil y A x = lam * bil y B x.
Proof.
  intros HA HB He. rewrite (bilin_rows_range n A) by assumption. rewrite (bilin_rows_range n B) by assumption.
  rewrite <- Rsum_scal. apply Rsum_ext. intros k Hk. apply iota_from_in in Hk. rewrite He by lia. ring.
Qed.

(* Rayleigh quotient: eigenvalues of a pencil with A >= 0 and x.B.x > 0 are non-negative *)
Theorem eigenvalue_nonneg n A B lam x : in_range n A -> in_range n B -> eigpair n A B lam x ->
  0 <= bil x A x -> 0 < bil x B x -> 0 <= lam.
Proof.
  intros HA HB He Ha Hb. rewrite (eigpair_forms n A B lam x x HA HB He) in Ha.
  destruct (Rle_or_lt 0 lam) as [?|Hn]; [assumption|]. exfalso. assert (lam * bil x B x < 0) by nra. lra.
Qed.

(* eigenvectors of distinct eigenvalues are B-orthogonal (A, B symmetric) *)
Theorem eigenvectors_B_orthogonal n A B l1 l2 x y : in_range n A -> in_range n B ->
  (forall f g, bil f A g = bil g A f) -> (forall f g, bil f B g = bil g B f) ->
  eigpair n A B l1 x -> eigpair n A B l2 y -> l1 <> l2 -> bil x B y = 0.
Proof.
  intros HA HB SA SB E1 E2 Hne.
  assert (P1 := eigpair_forms n A B l1 x y HA HB E1). assert (P2 := eigpair_forms n A B l2 y x HA HB E2).
  rewrite (SA y x) in P1. rewrite (SB y x) in P1.
  assert ((l1 - l2) * bil x B y = 0) by lra.
  apply Rmult_integral in H. destruct H; [lra|assumption].
Qed.

(* the shifted operator A - sigma B is positive definite for sigma < 0: the LU factorisation meets no zero pivot in exact arithmetic *)
Theorem shifted_operator_positive_definite A B sigma x : sigma < 0 -> 0 <= bil x A x -> 0 < bil x B x ->
  0 < bil x (A ++ coo_scale Rops (- sigma) B) x.
Proof. intros Hs Ha Hb. rewrite bilin_app, bilin_scale. nra. Qed.

(* spectral transformation used by eigsh(sigma, OPinv): (A - sigma B) y = B x and y = nu x  ==>  A x = (sigma + 1/nu) B x *)
Theorem shift_invert_relation n A B sigma nu (x : nat -> R) : nu <> 0 ->
  (forall k, (k < n)%nat -> mv (A ++ coo_scale Rops (- sigma) B) (fun j => nu * x j) k = mv B x k) ->
  eigpair n A B (sigma + 1 / nu) x.
Proof.
  intros Hnu H k Hk. specialize (H k Hk).
  assert (L : forall M, mv M (fun j => nu * x j) k = nu * mv M x k).
  { intros M. induction M as [|[[i j] a] M IH]; [cbn [app coo_scale map]; rewrite ?mv_nil; lra|]. rewrite !mv_cons, IH. destruct (Nat.eqb i k); ring. }
  assert (Sp : forall M N y, mv (M ++ N) y k = mv M y k + mv N y k).
  { intros M N y. induction M as [|[[i j] a] M IH]; [cbn [app coo_scale map]; rewrite ?mv_nil; lra|]. rewrite <- app_comm_cons, !mv_cons, IH. ring. }
  assert (Sc : forall c M y, mv (coo_scale Rops c M) y k = c * mv M y k).
  { intros c M y. induction M as [|[[i j] a] M IH]; [cbn [app coo_scale map]; rewrite ?mv_nil; lra|]. cbn [coo_scale map]. fold (coo_scale Rops c M). rewrite !mv_cons, IH. cbn [mul Rops]. destruct (Nat.eqb i k); ring. }
  rewrite Sp, Sc, !L in H.
  assert (nu * mv A x k = (1 + sigma * nu) * mv B x k) by lra.
  apply (Rmult_eq_reg_l nu); [|exact Hnu]. rewrite H0. field. exact Hnu.
Qed.

(* ---- instantiation for the triangle pencil *)
Lemma full_mass_form_pos v ts (u : nat -> R) : tria_nondeg v ts ->
  (exists a b c, In (a, b, c) ts /\ (u a <> 0 \/ u b <> 0 \/ u c <> 0)) ->
  0 < bil u (fem_tria_B Rops false v ts) u.
Proof.
  intros Hn (a & b & c & Hin & Hu). rewrite fem_tria_B_full_form.
  assert (Hpos : forall t, In t ts -> 0 < tria_vol4_fn v ts t / 4).
  { intros t Ht. rewrite tria_vol4_fn_nondeg by assumption. unfold tria_nondeg in Hn. rewrite Forall_forall in Hn.
    specialize (Hn t Ht). cbv beta in Hn. lra. }
  assert (G : forall l, (forall t, In t l -> In t ts) -> 0 <= Rsum (fun t => tria_mass_form u u (tria_vol4_fn v ts t / 4) t) l).
  { intros l Hl. apply Rsum_nonneg. intros t Ht. apply tria_mass_form_pos. apply Hpos. apply Hl. exact Ht. }
  apply in_split in Hin. destruct Hin as (l1 & l2 & ->). rewrite Rsum_app. cbn [Rsum].
  assert (G1 := G l1 (fun t Ht => in_or_app _ _ _ (or_introl Ht))).
  assert (G2 := G l2 (fun t Ht => in_or_app _ _ _ (or_intror (in_cons _ _ _ Ht)))).
  assert (P := Hpos (a, b, c) (in_or_app _ _ _ (or_intror (in_eq _ _)))).
  assert (S : 0 < (u a * u a + u b * u b + u c * u c) + (u a + u b + u c) * (u a + u b + u c)).
  { pose proof (Rle_0_sqr (u a + u b + u c)) as Q0. pose proof (Rle_0_sqr (u a)) as Qa.
    pose proof (Rle_0_sqr (u b)) as Qb. pose proof (Rle_0_sqr (u c)) as Qc. unfold Rsqr in *.
    destruct Hu as [H0|[H0|H0]]; apply Rsqr_pos_lt in H0; unfold Rsqr in H0; lra. }
  assert (Q : 0 < tria_mass_form u u (tria_vol4_fn v (l1 ++ (a, b, c) :: l2) (a, b, c) / 4) (a, b, c)).
  { unfold tria_mass_form. apply Rmult_lt_0_compat; [lra|exact S]. }
  lra.
Qed.

Theorem tria_mass_positive_definite lump v ts (u : nat -> R) : tria_nondeg v ts ->
  (exists a b c, In (a, b, c) ts /\ (u a <> 0 \/ u b <> 0 \/ u c <> 0)) ->
  0 < bil u (fem_tria_B Rops lump v ts) u.
Proof. destruct lump; [apply lumped_form_pos|apply full_mass_form_pos]. Qed.

Theorem tria_eigenvalues_nonneg lump n v ts lam x : tria_nondeg v ts ->
  in_range n (fem_tria_A Rops v ts) -> in_range n (fem_tria_B Rops lump v ts) ->
  eigpair n (fem_tria_A Rops v ts) (fem_tria_B Rops lump v ts) lam x ->
  (exists a b c, In (a, b, c) ts /\ (x a <> 0 \/ x b <> 0 \/ x c <> 0)) -> 0 <= lam.
Proof.
  intros Hn HA HB He Hx. apply (eigenvalue_nonneg n (fem_tria_A Rops v ts) (fem_tria_B Rops lump v ts) lam x HA HB He).
  - apply fem_tria_A_psd. exact Hn.
  - apply tria_mass_positive_definite; assumption.
Qed.

Theorem tria_eigenvectors_B_orthogonal lump n v ts l1 l2 x y :
  in_range n (fem_tria_A Rops v ts) -> in_range n (fem_tria_B Rops lump v ts) ->
  eigpair n (fem_tria_A Rops v ts) (fem_tria_B Rops lump v ts) l1 x ->
  eigpair n (fem_tria_A Rops v ts) (fem_tria_B Rops lump v ts) l2 y -> l1 <> l2 ->
  bil x (fem_tria_B Rops lump v ts) y = 0.
Proof.
  intros HA HB E1 E2 Hne. apply (eigenvectors_B_orthogonal n (fem_tria_A Rops v ts) (fem_tria_B Rops lump v ts) l1 l2 x y HA HB); try assumption.
  - intros; apply fem_tria_A_bilin_sym.
  - intros; apply fem_tria_B_bilin_sym.
Qed.

(* constants are in the kernel: (0, const) is an eigenpair *)
Theorem tria_constant_is_zero_eigenvector lump n v ts c :
  eigpair n (fem_tria_A Rops v ts) (fem_tria_B Rops lump v ts) 0 (fun _ => c).
Proof. intros k _. rewrite fem_tria_A_rowsum. ring. Qed.
