(* Proofs/IOTextP.v -- token-level codec theorems: what write_vtk writes, read_vtk reads back (C14). *)
From Coq Require Import List Arith Bool PeanoNat ZArith String Lia.
From LaPyV Require Import Base.ListAux Model.TetMesh Model.TriaAdj Model.IOText.
Import ListNotations.
Open Scope list_scope.

Section P.
  Context {K : Type} (round32 : K -> K) (zK : Z -> K).
  Notation tok := (tok (K:=K)).
  Notation file := (file (K:=K)).

  Lemma readline_line (l : list tok) (rest : file) : readline (line_of l ++ rest) = Some (l, rest).
  Proof.
    unfold line_of. induction l as [|t l IH]; cbn [map app readline]; [reflexivity|].
    rewrite <- app_assoc in *. cbn [app] in *. rewrite IH. reflexivity.
  Qed.

  Definition starts_tok (s : file) : Prop := s = [] \/ exists t r, s = Tok t :: r.
  Lemma drop_eols_starts s : starts_tok s -> drop_eols s = s.
  Proof. intros [->|(t & r & ->)]; reflexivity. Qed.

  Lemma take_nums_0 (s : file) : take_nums s 0 = ([], drop_eols s).
  Proof. destruct s as [|[t|] s]; reflexivity. Qed.

  (* reading exactly the numbers of a block of all-numeric lines *)
  Lemma take_nums_line (l : list tok) (rest : file) n : forallb is_num l = true ->
    take_nums (line_of l ++ rest) (List.length l + n) =
      (l ++ fst (take_nums (EOL :: rest) n), snd (take_nums (EOL :: rest) n)).
  Proof.
    unfold line_of. induction l as [|t l IH]; intros H.
    - cbn [map app List.length Nat.add]. destruct (take_nums (EOL :: rest) n). reflexivity.
    - cbn [forallb] in H. apply andb_true_iff in H. destruct H as [Ht Hl].
      cbn [map app List.length Nat.add]. change (take_nums (Tok t :: (map Tok l ++ [EOL]) ++ rest) (S (List.length l + n)))
        with (if is_num t then let '(l', r) := take_nums ((map Tok l ++ [EOL]) ++ rest) (List.length l + n) in (t :: l', r)
              else ([], Tok t :: (map Tok l ++ [EOL]) ++ rest)).
      rewrite Ht, (IH Hl). reflexivity.
  Qed.

  Lemma take_nums_lines (ls : list (list tok)) (rest : file) : Forall (fun l => forallb is_num l = true) ls -> starts_tok rest ->
    take_nums (lines_of ls ++ rest) (List.length (List.concat ls)) = (List.concat ls, rest).
  Proof.
    intros H Hr. induction H as [|l ls Hl _ IH].
    - simpl. rewrite take_nums_0, drop_eols_starts by assumption. reflexivity.
    - unfold lines_of in *. cbn [flat_map List.concat]. rewrite app_length, <- app_assoc.
      rewrite (take_nums_line l _ _ Hl).
      (* after the line: an EOL, then the remaining lines *)
      destruct (List.length (List.concat ls)) as [|m] eqn:E.
      + (* nothing more to read: the rest of the block consists of empty lines only *)
        rewrite take_nums_0. cbn [fst snd].
        assert (Hc : List.concat ls = []) by (destruct (List.concat ls); [reflexivity|discriminate]).
        assert (Hall : Forall (fun l0 => l0 = []) ls).
        { clear - Hc. induction ls as [|x xs IHx]; constructor; cbn in Hc; apply app_eq_nil in Hc; [apply Hc|apply IHx; apply Hc]. }
        assert (D : drop_eols (flat_map line_of ls ++ rest) = rest).
        { clear - Hall Hr. induction Hall as [|x xs Hx _ IHx]; [cbn; apply drop_eols_starts; exact Hr|]. subst x. cbn. exact IHx. }
        cbn [drop_eols]. rewrite D, Hc, app_nil_r. reflexivity.
      + cbn [take_nums]. rewrite IH. reflexivity.
  Qed.

  Lemma all_some_map {A B} (f : A -> option B) (g : A -> B) l : (forall x, In x l -> f x = Some (g x)) -> all_some (map f l) = Some (map g l).
  Proof. induction l as [|x l IH]; intros H; [reflexivity|]. cbn [map all_some]. rewrite H by (left; reflexivity). rewrite IH; [reflexivity|]. intros; apply H; right; assumption. Qed.

  Definition r3 (p : K * K * K) : K * K * K := let '(x, y, z) := p in (round32 x, round32 y, round32 z).
  Definition vline (p : K * K * K) : list tok := let '(x, y, z) := p in [TF x; TF y; TF z].

  Lemma vlines_num (v : list (K * K * K)) : Forall (fun l => forallb is_num l = true) (map vline v).
  Proof. apply Forall_forall. intros l Hl. apply in_map_iff in Hl. destruct Hl as ([[x y] z] & <- & _). reflexivity. Qed.
  Lemma vlines_len (v : list (K * K * K)) : List.length (List.concat (map vline v)) = 3 * List.length v.
  Proof. induction v as [|[[x y] z] v IH]; [reflexivity|]. cbn [map List.concat vline app List.length]. rewrite IH. lia. Qed.
  Lemma vlines_decode (v : list (K * K * K)) :
    match all_some (map (numK round32 zK) (List.concat (map vline v))) with Some ks => chunk3 ks | None => None end = Some (map r3 v).
  Proof.
    induction v as [|[[x y] z] v IH]; [reflexivity|]. cbn [map List.concat vline app all_some numK].
    destruct (all_some (map (numK round32 zK) (List.concat (map vline v)))) as [ks|]; [|discriminate].
    cbn [chunk3]. rewrite IH. reflexivity.
  Qed.

  (* the POINTS section written by write_vtk is read back as the rounded coordinates, leaving the rest of the file *)
  Lemma read_points_written (v : list (K * K * K)) (rest : file) : starts_tok rest ->
    read_points round32 zK (lines_of ([TW "POINTS"; TZ (Z.of_nat (List.length v)); TW "float"] :: map vline v) ++ rest) = Some (map r3 v, rest).
  Proof.
    intros Hr. unfold read_points, lines_of. cbn [flat_map]. rewrite <- app_assoc, readline_line.
    cbn [String.eqb Ascii.eqb Bool.eqb orb negb]. rewrite Nat2Z.id.
    fold (lines_of (map vline v)). rewrite <- vlines_len, (take_nums_lines _ _ (vlines_num v) Hr).
    rewrite Nat.eqb_refl. cbn [negb].
    assert (D := vlines_decode v). destruct (all_some (map (numK round32 zK) (List.concat (map vline v)))) as [ks|]; [|discriminate].
    rewrite D. reflexivity.
  Qed.

  (* ---- element sections *)
  Lemma chunkn_concat {A} n (rows : list (list A)) : (n > 0)%nat -> Forall (fun r => List.length r = n) rows ->
    forall fuel, (fuel >= List.length rows)%nat -> chunkn n fuel (List.concat rows) = Some rows.
  Proof.
    intros Hn H. induction H as [|r rs Hr _ IH]; intros fuel Hf.
    - destruct fuel; reflexivity.
    - destruct fuel as [|f]; [cbn in Hf; lia|]. cbn [List.concat chunkn].
      destruct (r ++ List.concat rs) as [|x xs] eqn:E.
      + destruct r; [cbn in Hr; lia|discriminate].
      + rewrite <- E. assert (L : (List.length (r ++ List.concat rs) <? n)%nat = false) by (apply Nat.ltb_ge; rewrite app_length; lia).
        rewrite L.
        assert (S1 : skipn n (r ++ List.concat rs) = List.concat rs).
        { rewrite skipn_app. rewrite <- Hr. rewrite skipn_all, Nat.sub_diag. reflexivity. }
        assert (F1 : firstn n (r ++ List.concat rs) = r).
        { rewrite firstn_app. rewrite <- Hr. rewrite firstn_all, Nat.sub_diag. cbn [firstn]. apply app_nil_r. }
        rewrite S1, F1, IH by (cbn in Hf; lia). reflexivity.
  Qed.

  Definition tline (t : tri) : list tok := let '(a, b, c) := t in [TZ 3; TZ (Z.of_nat a); TZ (Z.of_nat b); TZ (Z.of_nat c)].
  Definition trow (t : tri) : list Z := let '(a, b, c) := t in [3%Z; Z.of_nat a; Z.of_nat b; Z.of_nat c].
  Definition qline (t : tet) : list tok := let '(a, b, c, d) := t in [TZ 4; TZ (Z.of_nat a); TZ (Z.of_nat b); TZ (Z.of_nat c); TZ (Z.of_nat d)].
  Definition qrow (t : tet) : list Z := let '(a, b, c, d) := t in [4%Z; Z.of_nat a; Z.of_nat b; Z.of_nat c; Z.of_nat d].

  Lemma tlines_num (t : list tri) : Forall (fun l => forallb is_num l = true) (map tline t).
  Proof. apply Forall_forall. intros l Hl. apply in_map_iff in Hl. destruct Hl as ([[a b] c] & <- & _). reflexivity. Qed.
  Lemma qlines_num (t : list tet) : Forall (fun l => forallb is_num l = true) (map qline t).
  Proof. apply Forall_forall. intros l Hl. apply in_map_iff in Hl. destruct Hl as ([[[a b] c] d] & <- & _). reflexivity. Qed.
  Lemma tlines_len (t : list tri) : List.length (List.concat (map tline t)) = (4 * List.length t)%nat.
  Proof. induction t as [|[[a b] c] t IH]; [reflexivity|]. cbn [map List.concat tline app List.length]. rewrite IH. lia. Qed.
  Lemma qlines_len (t : list tet) : List.length (List.concat (map qline t)) = (5 * List.length t)%nat.
  Proof. induction t as [|[[[a b] c] d] t IH]; [reflexivity|]. cbn [map List.concat qline app List.length]. rewrite IH. lia. Qed.
  Lemma tlines_tokZ (t : list tri) : all_some (map (tokZ (K:=K)) (List.concat (map tline t))) = Some (List.concat (map trow t)).
  Proof. induction t as [|[[a b] c] t IH]; [reflexivity|]. cbn [map List.concat tline trow app all_some tokZ]. rewrite IH. reflexivity. Qed.
  Lemma qlines_tokZ (t : list tet) : all_some (map (tokZ (K:=K)) (List.concat (map qline t))) = Some (List.concat (map qrow t)).
  Proof. induction t as [|[[[a b] c] d] t IH]; [reflexivity|]. cbn [map List.concat qline qrow app all_some tokZ]. rewrite IH. reflexivity. Qed.

  Lemma rows3_back (t : list tri) : rows3 (map (fun row => map Z.to_nat (tl row)) (map trow t)) = Some t.
  Proof.
    unfold rows3. induction t as [|[[a b] c] t IH]; [reflexivity|]. cbn [map trow tl all_some]. rewrite !Nat2Z.id.
    cbn [map] in IH. rewrite IH. reflexivity.
  Qed.
  Lemma rows4_back (t : list tet) : rows4 (map (fun row => map Z.to_nat (tl row)) (map qrow t)) = Some t.
  Proof.
    unfold rows4. induction t as [|[[[a b] c] d] t IH]; [reflexivity|]. cbn [map qrow tl all_some]. rewrite !Nat2Z.id.
    cbn [map] in IH. rewrite IH. reflexivity.
  Qed.
  Lemma lines_of_cons (l : list tok) ls : lines_of (l :: ls) = line_of l ++ lines_of ls.
  Proof. reflexivity. Qed.
  Lemma lines_of_app (a b : list (list tok)) : lines_of (a ++ b) = lines_of a ++ lines_of b.
  Proof. unfold lines_of. apply flat_map_app. Qed.
  Lemma line_of_starts (l : list tok) rest : l <> [] -> starts_tok (line_of l ++ rest).
  Proof. intros H. destruct l as [|t l]; [contradiction|]. right. unfold line_of. cbn [map app]. eauto. Qed.

  Lemma skip_two (F : nat) (l1 l2 : list tok) rest : (F >= 2)%nat ->
    starts_with_word l1 "#" = true -> starts_with_word l2 "#" = false ->
    skip_comments F (line_of l1 ++ line_of l2 ++ rest) = Some (l2, rest).
  Proof.
    intros HF H1 H2. destruct F as [|[|f]]; try lia.
    cbn [skip_comments]. rewrite readline_line, H1. cbn [skip_comments]. rewrite readline_line, H2. reflexivity.
  Qed.

  Lemma last_trow (t : list tri) : t <> [] -> hd 0%Z (last (map trow t) []) = 3%Z.
  Proof. induction t as [|[[a b] c] t IH]; [contradiction|]. intros _. destruct t as [|t' ts]; [reflexivity|]. cbn [map last] in *. apply IH. discriminate. Qed.
  Lemma last_qrow (t : list tet) : t <> [] -> hd 0%Z (last (map qrow t) []) = 4%Z.
  Proof. induction t as [|[[[a b] c] d] t IH]; [contradiction|]. intros _. destruct t as [|t' ts]; [reflexivity|]. cbn [map last] in *. apply IH. discriminate. Qed.

  (* ---- truncation: every proper line-prefix of a written VTK file is rejected (no mesh) *)
  Fixpoint ntoks (s : file) : nat := match s with [] => 0 | Tok _ :: tl => S (ntoks tl) | EOL :: tl => ntoks tl end.
  Lemma take_nums_le (s : file) : forall cnt, (List.length (fst (take_nums s cnt)) <= ntoks s)%nat.
  Proof.
    induction s as [|[t|] s IH]; intros cnt; destruct cnt as [|c]; cbn [take_nums ntoks fst List.length]; try lia.
    - destruct (is_num t); [|cbn [fst List.length]; lia].
      specialize (IH c). destruct (take_nums s c) as [l r]. cbn [fst List.length] in *. lia.
    - apply IH.
  Qed.
  Lemma ntoks_app (a b : file) : ntoks (a ++ b) = (ntoks a + ntoks b)%nat.
  Proof. induction a as [|[t|] a IH]; cbn [app ntoks]; lia. Qed.
  Lemma ntoks_line (l : list tok) : ntoks (line_of l) = List.length l.
  Proof. unfold line_of. induction l as [|t l IH]; cbn [map app ntoks List.length]; [reflexivity|]. rewrite IH. reflexivity. Qed.
  Lemma ntoks_lines (ls : list (list tok)) : ntoks (lines_of ls) = List.length (List.concat ls).
  Proof. induction ls as [|l ls IH]; [reflexivity|]. rewrite lines_of_cons, ntoks_app, ntoks_line. cbn [List.concat]. rewrite app_length, IH. reflexivity. Qed.

  Lemma take_nums_short (ls : list (list tok)) cnt : (List.length (List.concat ls) < cnt)%nat ->
    Nat.eqb (List.length (fst (take_nums (lines_of ls) cnt))) cnt = false.
  Proof. intros H. apply Nat.eqb_neq. pose proof (take_nums_le (lines_of ls) cnt) as L. rewrite ntoks_lines in L. lia. Qed.

  Lemma read_points_truncated (v : list (K * K * K)) m : (m < List.length v)%nat ->
    read_points round32 zK (lines_of ([TW "POINTS"; TZ (Z.of_nat (List.length v)); TW "float"] :: map vline (firstn m v))) = None.
  Proof.
    intros Hm. unfold read_points. rewrite lines_of_cons, readline_line.
    cbn [String.eqb Ascii.eqb Bool.eqb orb negb]. rewrite Nat2Z.id.
    pose proof (take_nums_short (map vline (firstn m v)) (3 * List.length v)) as HS.
    rewrite vlines_len, firstn_length_le in HS by lia. specialize (HS ltac:(lia)).
    destruct (take_nums (lines_of (map vline (firstn m v))) (3 * List.length v)) as [nums r']. cbn [fst] in HS. rewrite HS. reflexivity.
  Qed.

  Lemma starts_tok_nil : starts_tok []. Proof. left; reflexivity. Qed.


  (* ---- the part of a written VTK file up to the cells line, generic in the kind of cell *)
  Section Gen.
    Context {C : Type} (cline : C -> list tok) (w : nat) (cline_len : forall c, List.length (cline c) = S w).
    Definition vtk_lines (v : list (K * K * K)) (t : list C) : list (list tok) :=
      vtk_header ++ [[TW "POINTS"; TZ (Z.of_nat (List.length v)); TW "float"]] ++ map vline v
        ++ [[TW "POLYGONS"; TZ (Z.of_nat (List.length t)); TZ (Z.of_nat (S w * List.length t))]] ++ map cline t.
    Definition cells_line (t : list C) : list tok := [TW "POLYGONS"; TZ (Z.of_nat (List.length t)); TZ (Z.of_nat (S w * List.length t))].
    Lemma clines_len (t : list C) : List.length (List.concat (map cline t)) = (S w * List.length t)%nat.
    Proof. induction t as [|c t IH]; [cbn; lia|]. cbn [map List.concat List.length]. rewrite app_length, cline_len, IH. lia. Qed.

    (* header + POINTS section + one more line + rest: the pre-part succeeds and hands over that line and what follows *)
    Lemma pre_ok_gen (v : list (K * K * K)) (cl : list tok) (rest : list (list tok)) : cl <> [] ->
      read_vtk_pre round32 zK (lines_of (vtk_header ++ [[TW "POINTS"; TZ (Z.of_nat (List.length v)); TW "float"]] ++ map vline v
                                         ++ [cl] ++ rest))
      = Some (map r3 v, cl, lines_of rest).
    Proof.
      intros Hcl. unfold vtk_header, read_vtk_pre. cbn [app]. rewrite !lines_of_cons.
      rewrite skip_two; [| unfold line_of; rewrite !app_length; cbn [List.length map]; lia | reflexivity | reflexivity].
      cbn [find_ascii starts_with_word String.eqb Ascii.eqb Bool.eqb]. rewrite readline_line.
      cbn [find_ascii starts_with_word String.eqb Ascii.eqb Bool.eqb]. rewrite readline_line.
      cbn [String.eqb Ascii.eqb Bool.eqb orb negb].
      rewrite lines_of_app, app_assoc, <- lines_of_cons.
      rewrite (read_points_written v); [| cbn [app]; rewrite lines_of_cons; apply line_of_starts; exact Hcl].
      cbn [app]. rewrite lines_of_cons, readline_line. reflexivity.
    Qed.
    Lemma pre_ok (v : list (K * K * K)) (t : list C) (rest : list (list tok)) :
      read_vtk_pre round32 zK (lines_of (vtk_header ++ [[TW "POINTS"; TZ (Z.of_nat (List.length v)); TW "float"]] ++ map vline v
                                         ++ [cells_line t] ++ rest))
      = Some (map r3 v, cells_line t, lines_of rest).
    Proof. apply pre_ok_gen. discriminate. Qed.
    (* fewer lines than header + POINTS section + cells line: no pre-part *)
    Lemma pre_truncated (v : list (K * K * K)) (t : list C) n : (n < 6 + List.length v)%nat ->
      read_vtk_pre round32 zK (lines_of (firstn n (vtk_lines v t))) = None.
    Proof.
      intros Hn. unfold vtk_lines, vtk_header, read_vtk_pre.
      set (LP := [TW "POINTS"; TZ (Z.of_nat (List.length v)); TW "float"] : list tok) in *.
      destruct n as [|[|[|[|[|m]]]]]; cbn [app firstn].
      - reflexivity.
      - rewrite lines_of_cons. cbn [lines_of flat_map]. rewrite app_nil_r.
        cbn [List.length line_of map app skip_comments readline starts_with_word String.eqb Ascii.eqb Bool.eqb]. reflexivity.
      - rewrite !lines_of_cons. cbn [lines_of flat_map]. rewrite skip_two; [| unfold line_of; rewrite !app_length; cbn [List.length map]; lia | reflexivity | reflexivity].
        cbn [find_ascii starts_with_word String.eqb Ascii.eqb Bool.eqb readline]. reflexivity.
      - rewrite !lines_of_cons. cbn [lines_of flat_map]. rewrite skip_two; [| unfold line_of; rewrite !app_length; cbn [List.length map]; lia | reflexivity | reflexivity].
        cbn [find_ascii starts_with_word String.eqb Ascii.eqb Bool.eqb]. rewrite readline_line.
        cbn [find_ascii starts_with_word String.eqb Ascii.eqb Bool.eqb readline]. reflexivity.
      - rewrite !lines_of_cons. cbn [lines_of flat_map]. rewrite skip_two; [| unfold line_of; rewrite !app_length; cbn [List.length map]; lia | reflexivity | reflexivity].
        cbn [find_ascii starts_with_word String.eqb Ascii.eqb Bool.eqb]. rewrite readline_line.
        cbn [find_ascii starts_with_word String.eqb Ascii.eqb Bool.eqb]. rewrite readline_line.
        cbn [String.eqb Ascii.eqb Bool.eqb orb negb]. unfold read_points. cbn [readline]. reflexivity.
      - rewrite !lines_of_cons. rewrite skip_two; [| unfold line_of; rewrite !app_length; cbn [List.length map]; lia | reflexivity | reflexivity].
        cbn [find_ascii starts_with_word String.eqb Ascii.eqb Bool.eqb]. rewrite readline_line.
        cbn [find_ascii starts_with_word String.eqb Ascii.eqb Bool.eqb]. rewrite readline_line.
        cbn [String.eqb Ascii.eqb Bool.eqb orb negb].
        rewrite firstn_app, map_length.
        destruct (Nat.lt_ge_cases m (List.length v)) as [Hlt|Hge].
        + replace (m - List.length v)%nat with 0%nat by lia. cbn [firstn]. rewrite app_nil_r, firstn_map.
          rewrite <- lines_of_cons. unfold LP. rewrite (read_points_truncated v m Hlt). reflexivity.
        + assert (m = List.length v) by lia. subst m. rewrite firstn_all2 by (rewrite map_length; lia).
          rewrite Nat.sub_diag. cbn [firstn]. rewrite app_nil_r, <- lines_of_cons, <- (app_nil_r (lines_of _)). unfold LP.
          rewrite (read_points_written v [] starts_tok_nil). cbn [readline]. reflexivity.
    Qed.
    Lemma vtk_lines_split (v : list (K * K * K)) (t : list C) j :
      firstn (6 + List.length v + j) (vtk_lines v t)
      = vtk_header ++ [[TW "POINTS"; TZ (Z.of_nat (List.length v)); TW "float"]] ++ map vline v ++ [cells_line t] ++ firstn j (map cline t).
    Proof.
      unfold vtk_lines, vtk_header. cbn [app]. replace (6 + List.length v + j)%nat with (S (S (S (S (S (List.length v + S j)))))) by lia.
      cbn [firstn]. do 5 f_equal. rewrite firstn_app, map_length, firstn_all2 by (rewrite map_length; lia). f_equal.
      replace (List.length v + S j - List.length v)%nat with (S j) by lia. reflexivity.
    Qed.
    (* the cells section cut short *)
    Lemma body_truncated (t : list C) j : (j < List.length t)%nat ->
      read_cells_body w (cells_line t) (lines_of (firstn j (map cline t))) = None.
    Proof.
      intros Hj. unfold read_cells_body, cells_line. cbn [String.eqb Ascii.eqb Bool.eqb orb negb].
      replace (Z.of_nat (S w * List.length t) =? Z.of_nat (S w) * Z.of_nat (List.length t))%Z with true by (symmetry; apply Z.eqb_eq; lia).
      cbn [negb]. rewrite Nat2Z.id, firstn_map.
      pose proof (take_nums_short (map cline (firstn j t)) (S w * List.length t)) as HS.
      rewrite clines_len, firstn_length_le in HS by lia. specialize (HS ltac:(nia)).
      destruct (take_nums (lines_of (map cline (firstn j t))) (S w * List.length t)) as [nums r']. cbn [fst] in HS. rewrite HS. reflexivity.
    Qed.
    Lemma body_wrong_width (w' : nat) (t : list C) rest : t <> [] -> w' <> w -> read_cells_body w' (cells_line t) rest = None.
    Proof.
      intros Ht Hw. unfold read_cells_body, cells_line. cbn [String.eqb Ascii.eqb Bool.eqb orb negb].
      replace (Z.of_nat (S w * List.length t) =? Z.of_nat (S w') * Z.of_nat (List.length t))%Z with false; [reflexivity|].
      symmetry. apply Z.eqb_neq. destruct t as [|c t]; [contradiction|]. cbn [List.length]. nia.
    Qed.
    Lemma vtk_lines_full (v : list (K * K * K)) (t : list C) :
      vtk_lines v t = vtk_header ++ [[TW "POINTS"; TZ (Z.of_nat (List.length v)); TW "float"]] ++ map vline v ++ [cells_line t] ++ map cline t.
    Proof. reflexivity. Qed.
    Lemma vtk_lines_length (v : list (K * K * K)) (t : list C) : List.length (vtk_lines v t) = (6 + List.length v + List.length t)%nat.
    Proof. unfold vtk_lines, vtk_header. rewrite !app_length, !map_length. cbn [List.length]. lia. Qed.

    Lemma vtk_cells_truncated (v : list (K * K * K)) (t : list C) n : (n < List.length (vtk_lines v t))%nat ->
      read_vtk_cells round32 zK w (lines_of (firstn n (vtk_lines v t))) = None.
    Proof.
      intros Hn. rewrite vtk_lines_length in Hn. unfold read_vtk_cells.
      destruct (Nat.lt_ge_cases n (6 + List.length v)) as [Hlt|Hge].
      - rewrite pre_truncated by exact Hlt. reflexivity.
      - replace n with (6 + List.length v + (n - 6 - List.length v))%nat by lia. rewrite vtk_lines_split, pre_ok.
        rewrite body_truncated by lia. reflexivity.
    Qed.
    Lemma vtk_cells_wrong_width (w' : nat) (v : list (K * K * K)) (t : list C) : t <> [] -> w' <> w ->
      read_vtk_cells round32 zK w' (lines_of (vtk_lines v t)) = None.
    Proof. intros Ht Hw. unfold read_vtk_cells. rewrite vtk_lines_full, pre_ok, body_wrong_width by assumption. reflexivity. Qed.
  End Gen.

  Lemma write_vtk_tria_lines v t : write_vtk_tria v t = lines_of (vtk_lines tline 3 v t).
  Proof. reflexivity. Qed.
  Lemma write_vtk_tet_lines v t : write_vtk_tet v t = lines_of (vtk_lines qline 4 v t).
  Proof. reflexivity. Qed.
  Lemma tline_len c : List.length (tline c) = 4%nat. Proof. destruct c as [[a b] c]; reflexivity. Qed.
  Lemma qline_len c : List.length (qline c) = 5%nat. Proof. destruct c as [[[a b] c] d]; reflexivity. Qed.

  (* the cells section as written *)
  Lemma body_tria (t : list tri) : t <> [] ->
    read_cells_body 3 (cells_line 3 t) (lines_of (map tline t)) = Some (map (fun row => map Z.to_nat (tl row)) (map trow t)).
  Proof.
    intros Ht. unfold read_cells_body, cells_line. cbn [String.eqb Ascii.eqb Bool.eqb orb negb].
    replace (Z.of_nat (4 * List.length t) =? Z.of_nat 4 * Z.of_nat (List.length t))%Z with true by (symmetry; apply Z.eqb_eq; lia).
    cbn [negb]. rewrite Nat2Z.id.
    rewrite <- (app_nil_r (lines_of (map tline t))), <- tlines_len.
    rewrite (take_nums_lines _ _ (tlines_num t) (or_introl eq_refl)). rewrite Nat.eqb_refl. cbn [negb].
    rewrite tlines_tokZ.
    rewrite (chunkn_concat 4 (map trow t)).
    - destruct (map trow t) as [|r0 rs] eqn:Em; [destruct t; [contradiction|discriminate]|]. rewrite <- Em.
      rewrite last_trow by assumption. cbn [Z.of_nat Z.eqb Pos.eqb negb Pos.of_succ_nat Pos.succ]. reflexivity.
    - lia.
    - apply Forall_forall. intros r Hr. apply in_map_iff in Hr. destruct Hr as ([[a b] c] & <- & _). reflexivity.
    - assert (L : List.length (List.concat (map trow t)) = (4 * List.length t)%nat).
      { clear. induction t as [|[[a b] c] t IH]; [reflexivity|]. cbn [map List.concat trow app List.length]. rewrite IH. lia. }
      rewrite L, map_length. lia.
  Qed.
  Lemma body_tet (t : list tet) : t <> [] ->
    read_cells_body 4 (cells_line 4 t) (lines_of (map qline t)) = Some (map (fun row => map Z.to_nat (tl row)) (map qrow t)).
  Proof.
    intros Ht. unfold read_cells_body, cells_line. cbn [String.eqb Ascii.eqb Bool.eqb orb negb].
    replace (Z.of_nat (5 * List.length t) =? Z.of_nat 5 * Z.of_nat (List.length t))%Z with true by (symmetry; apply Z.eqb_eq; lia).
    cbn [negb]. rewrite Nat2Z.id.
    rewrite <- (app_nil_r (lines_of (map qline t))), <- qlines_len.
    rewrite (take_nums_lines _ _ (qlines_num t) (or_introl eq_refl)). rewrite Nat.eqb_refl. cbn [negb].
    rewrite qlines_tokZ.
    rewrite (chunkn_concat 5 (map qrow t)).
    - destruct (map qrow t) as [|r0 rs] eqn:Em; [destruct t; [contradiction|discriminate]|]. rewrite <- Em.
      rewrite last_qrow by assumption. cbn [Z.of_nat Z.eqb Pos.eqb negb Pos.of_succ_nat Pos.succ]. reflexivity.
    - lia.
    - apply Forall_forall. intros r Hr. apply in_map_iff in Hr. destruct Hr as ([[[a b] c] d] & <- & _). reflexivity.
    - assert (L : List.length (List.concat (map qrow t)) = (5 * List.length t)%nat).
      { clear. induction t as [|[[[a b] c] d] t IH]; [reflexivity|]. cbn [map List.concat qrow app List.length]. rewrite IH. lia. }
      rewrite L, map_length. lia.
  Qed.

  (* the triangle reader on a file whose cells line is a POLYGONS line: the strips branch is not taken *)
  Lemma tria_reader_polygons {C} (cline : C -> list tok) w (v : list (K * K * K)) (t : list C) rest :
    read_vtk_tria round32 zK (lines_of (vtk_header ++ [[TW "POINTS"; TZ (Z.of_nat (List.length v)); TW "float"]] ++ map vline v
                                         ++ [cells_line w t] ++ rest))
    = match read_cells_body 3 (cells_line w t) (lines_of rest) with
      | Some rows => match rows3 rows with Some t' => Some (map r3 v, t') | None => None end
      | None => None
      end.
  Proof. unfold read_vtk_tria. rewrite (pre_ok w v t rest). unfold cells_line at 1. cbn [String.eqb Ascii.eqb Bool.eqb]. reflexivity. Qed.

  (* ---- C14: what write_vtk writes, read_vtk reads back: identical connectivity, coordinates rounded to single precision *)
  Theorem vtk_tria_round_trip (v : list (K * K * K)) (t : list tri) : t <> [] ->
    read_vtk_tria round32 zK (write_vtk_tria v t) = Some (map r3 v, t).
  Proof.
    intros Ht. rewrite write_vtk_tria_lines, (vtk_lines_full tline 3), (tria_reader_polygons tline 3), body_tria, rows3_back by exact Ht. reflexivity.
  Qed.
  Theorem vtk_tet_round_trip (v : list (K * K * K)) (t : list tet) : t <> [] ->
    read_vtk_tet round32 zK (write_vtk_tet v t) = Some (map r3 v, t).
  Proof.
    intros Ht. rewrite write_vtk_tet_lines, (vtk_lines_full qline 4). unfold read_vtk_tet, read_vtk_cells.
    rewrite (pre_ok 4 v t), body_tet, rows4_back by exact Ht. reflexivity.
  Qed.

  (* ---- truncation: every proper line-prefix of a written VTK file is rejected (no mesh) *)
  Theorem vtk_tria_truncated (v : list (K * K * K)) (t : list tri) n : (n < List.length (vtk_lines tline 3 v t))%nat ->
    read_vtk_tria round32 zK (lines_of (firstn n (vtk_lines tline 3 v t))) = None.
  Proof.
    intros Hn. rewrite vtk_lines_length in Hn.
    destruct (Nat.lt_ge_cases n (6 + List.length v)) as [Hlt|Hge].
    - unfold read_vtk_tria. rewrite pre_truncated by exact Hlt. reflexivity.
    - replace n with (6 + List.length v + (n - 6 - List.length v))%nat by lia. rewrite vtk_lines_split.
      rewrite (tria_reader_polygons tline 3), (body_truncated tline 3 tline_len) by lia. reflexivity.
  Qed.
  Theorem vtk_tet_truncated (v : list (K * K * K)) (t : list tet) n : (n < List.length (vtk_lines qline 4 v t))%nat ->
    read_vtk_tet round32 zK (lines_of (firstn n (vtk_lines qline 4 v t))) = None.
  Proof. intros H. unfold read_vtk_tet. rewrite (vtk_cells_truncated qline 4 qline_len v t n H). reflexivity. Qed.


  (* ---- VTK files with TRIANGLE_STRIPS written by other tools: a strip p0 .. p(n-1) stands for the n-2 triangles
          (pj, pj+1, pj+2), every second one with its first two corners exchanged *)
  Definition strip_line (l : list nat) : list tok := TZ (Z.of_nat (List.length l)) :: map (fun i => TZ (Z.of_nat i)) l.
  Definition strips_line (ss : list (list nat)) (total : Z) : list tok := [TW "TRIANGLE_STRIPS"; TZ (Z.of_nat (List.length ss)); TZ total].
  (* the format definition, by position in the strip *)
  Definition strip_spec (l : list nat) : list tri :=
    map (fun j => if Nat.even j then (nth j l 0, nth (S j) l 0, nth (S (S j)) l 0)%nat else (nth (S j) l 0, nth j l 0, nth (S (S j)) l 0)%nat)
        (iota (List.length l - 2)).

  Lemma map_iota_from_S {A} (h : nat -> A) n : forall s, map h (iota_from (S s) n) = map (fun j => h (S j)) (iota_from s n).
  Proof. induction n as [|n IH]; intros s; [reflexivity|]. cbn [iota_from map]. rewrite IH. reflexivity. Qed.
  Lemma strip_trias_step ev a b c l :
    strip_trias ev (a :: b :: c :: l) = (if ev then (a, b, c) else (b, a, c)) :: strip_trias (negb ev) (b :: c :: l).
  Proof. reflexivity. Qed.
  Lemma strip_trias_by_position : forall l k,
    strip_trias (Nat.even k) l
    = map (fun j => if Nat.even (k + j) then (nth j l 0, nth (S j) l 0, nth (S (S j)) l 0)%nat else (nth (S j) l 0, nth j l 0, nth (S (S j)) l 0)%nat)
          (iota_from 0 (List.length l - 2)).
  Proof.
    induction l as [|a l IH]; intros k; [reflexivity|].
    destruct l as [|b [|c l']]; [reflexivity|reflexivity|].
    rewrite strip_trias_step. cbn [List.length]. replace (S (S (S (List.length l'))) - 2)%nat with (S (List.length l')) by lia.
    cbn [iota_from map]. rewrite Nat.add_0_r. cbn [nth]. f_equal.
    rewrite map_iota_from_S.
    replace (negb (Nat.even k)) with (Nat.even (S k)) by (rewrite Nat.even_succ, <- Nat.negb_even; reflexivity).
    rewrite (IH (S k)). cbn [List.length]. replace (S (S (List.length l')) - 2)%nat with (List.length l') by lia.
    apply map_ext. intros j. replace (k + S j)%nat with (S k + j)%nat by lia. reflexivity.
  Qed.
  Theorem strip_trias_is_spec l : strip_trias true l = strip_spec l.
  Proof. unfold strip_spec, iota. change true with (Nat.even 0). rewrite (strip_trias_by_position l 0). reflexivity. Qed.

  Lemma read_strips_written (ss : list (list nat)) :
    read_strips (List.length ss) (lines_of (map strip_line ss)) = Some (List.concat (map (strip_trias true) ss)).
  Proof.
    induction ss as [|l ss IH]; [reflexivity|]. cbn [List.length map read_strips]. rewrite lines_of_cons, readline_line.
    unfold strip_line at 1. rewrite map_length, Nat2Z.id, Nat.eqb_refl.
    replace (Z.of_nat (List.length l) <? 0)%Z with false by (symmetry; apply Z.ltb_ge; lia). cbn [negb orb].
    assert (E : all_some (map (tokZ (K:=K)) (map (fun i => TZ (Z.of_nat i)) l)) = Some (map Z.of_nat l)).
    { clear. induction l as [|x l IH]; [reflexivity|]. cbn [map all_some tokZ]. rewrite IH. reflexivity. }
    rewrite E, IH. cbn [List.concat]. rewrite map_map. rewrite (map_ext _ (fun x => x)) by (intros; apply Nat2Z.id). rewrite map_id. reflexivity.
  Qed.

  Definition strips_file (v : list (K * K * K)) (ss : list (list nat)) (total : Z) : list (list tok) :=
    vtk_header ++ [[TW "POINTS"; TZ (Z.of_nat (List.length v)); TW "float"]] ++ map vline v ++ [strips_line ss total] ++ map strip_line ss.
  Theorem vtk_strips_file_loads (v : list (K * K * K)) (ss : list (list nat)) total :
    List.concat (map strip_spec ss) <> [] ->
    read_vtk_tria round32 zK (lines_of (strips_file v ss total)) = Some (map r3 v, List.concat (map strip_spec ss)).
  Proof.
    intros Hne. unfold strips_file, read_vtk_tria. rewrite (pre_ok_gen v (strips_line ss total)) by discriminate.
    unfold strips_line. cbn [String.eqb Ascii.eqb Bool.eqb]. rewrite Nat2Z.id, read_strips_written.
    rewrite (map_ext _ _ strip_trias_is_spec).
    destruct (List.concat (map strip_spec ss)) as [|t0 ts]; [contradiction|].
    replace (Z.of_nat (List.length ss) <? 0)%Z with false by (symmetry; apply Z.ltb_ge; lia). reflexivity.
  Qed.

  (* ---- OFF files written by other tools according to the format definition: OFF / counts / vertices / faces "3 a b c",
          with any number of leading comment lines *)
  Definition off_lines (comments : list (list tok)) (v : list (K * K * K)) (t : list tri) : list (list tok) :=
    map (fun c => TW "#" :: c) comments ++
    [[TW "OFF"]; [TZ (Z.of_nat (List.length v)); TZ (Z.of_nat (List.length t)); TZ 0]] ++ map vline v ++ map tline t.

  Lemma skip_comment_lines (cs : list (list tok)) (l : list tok) rest : forall F, (F > List.length cs)%nat ->
    starts_with_word l "#" = false ->
    skip_comments F (lines_of (map (fun c => TW "#" :: c) cs) ++ line_of l ++ rest) = Some (l, rest).
  Proof.
    induction cs as [|c cs IH]; intros F HF Hl.
    - destruct F as [|f]; [cbn in HF; lia|]. cbn [map lines_of flat_map app skip_comments]. rewrite readline_line, Hl. reflexivity.
    - destruct F as [|f]; [cbn in HF; lia|]. cbn [map]. rewrite lines_of_cons, <- app_assoc. cbn [skip_comments].
      rewrite readline_line. cbn [starts_with_word String.eqb Ascii.eqb Bool.eqb]. apply IH; [cbn in HF; lia|exact Hl].
  Qed.
  Lemma max_first_col (t : list tri) : t <> [] -> fold_right Z.max 0%Z (map (hd 0%Z) (map trow t)) = 3%Z.
  Proof.
    induction t as [|[[a b] c] t IH]; [contradiction|]. intros _. cbn [map trow hd fold_right].
    destruct t as [|t' ts]; [reflexivity|]. rewrite IH by discriminate. reflexivity.
  Qed.

  Theorem off_file_loads (comments : list (list tok)) (v : list (K * K * K)) (t : list tri) : t <> [] ->
    read_off round32 zK (lines_of (off_lines comments v t)) = Some (map r3 v, t).
  Proof.
    intros Ht. unfold read_off, off_lines.
    set (LO := [TW "OFF"] : list tok).
    set (LN := [TZ (Z.of_nat (List.length v)); TZ (Z.of_nat (List.length t)); TZ 0] : list tok).
    rewrite lines_of_app. cbn [app]. rewrite !lines_of_cons, lines_of_app.
    set (Body := lines_of (map vline v) ++ lines_of (map tline t)).
    rewrite skip_comment_lines; [| rewrite !app_length | reflexivity].
    2:{ assert (L : forall cs : list (list tok), (List.length (lines_of (map (fun c => TW "#" :: c) cs)) >= List.length cs)%nat).
        { induction cs as [|c cs IH]; [cbn; lia|]. cbn [map]. rewrite lines_of_cons, app_length. unfold line_of at 1.
          rewrite app_length. cbn [List.length map]. lia. }
        specialize (L comments). lia. }
    cbn [starts_with_word LO String.eqb Ascii.eqb Bool.eqb negb].
    rewrite readline_line. unfold LN. rewrite !Nat2Z.id. unfold Body.
    rewrite <- vlines_len.
    rewrite (take_nums_lines _ _ (vlines_num v)).
    2:{ destruct t as [|[[a b] c] t]; [contradiction|]. cbn [map]. rewrite lines_of_cons. apply line_of_starts. discriminate. }
    rewrite Nat.eqb_refl. cbn [negb].
    assert (D := vlines_decode v). destruct (all_some (map (numK round32 zK) (List.concat (map vline v)))) as [ks|]; [|discriminate].
    rewrite D.
    rewrite <- (app_nil_r (lines_of (map tline t))), <- tlines_len.
    rewrite (take_nums_lines _ _ (tlines_num t) (or_introl eq_refl)). rewrite Nat.eqb_refl. cbn [negb].
    rewrite tlines_tokZ.
    rewrite (chunkn_concat 4 (map trow t)).
    - rewrite max_first_col by assumption. cbn [Z.eqb Pos.eqb negb]. rewrite rows3_back. reflexivity.
    - lia.
    - apply Forall_forall. intros r Hr. apply in_map_iff in Hr. destruct Hr as ([[a b] c] & <- & _). reflexivity.
    - assert (L : List.length (List.concat (map trow t)) = (4 * List.length t)%nat).
      { clear. induction t as [|[[a b] c] t IH]; [reflexivity|]. cbn [map List.concat trow app List.length]. rewrite IH. lia. }
      rewrite L, map_length. lia.
  Qed.

  (* wrong kind of file: a tetrahedral VTK file is rejected by the triangle reader and vice versa; a VTK file is not an OFF file *)
  Theorem vtk_tet_file_rejected_by_tria_reader (v : list (K * K * K)) (t : list tet) : t <> [] ->
    read_vtk_tria round32 zK (write_vtk_tet v t) = None.
  Proof.
    intros H. rewrite write_vtk_tet_lines, (vtk_lines_full qline 4), (tria_reader_polygons qline 4).
    rewrite (body_wrong_width 4 3 t _ H) by lia. reflexivity.
  Qed.
  Theorem vtk_tria_file_rejected_by_tet_reader (v : list (K * K * K)) (t : list tri) : t <> [] ->
    read_vtk_tet round32 zK (write_vtk_tria v t) = None.
  Proof. intros H. rewrite write_vtk_tria_lines. unfold read_vtk_tet. rewrite (vtk_cells_wrong_width tline 3 4 v t H); [reflexivity|lia]. Qed.
  Theorem vtk_file_rejected_by_off_reader (v : list (K * K * K)) (t : list tri) : read_off round32 zK (write_vtk_tria v t) = None.
  Proof.
    unfold write_vtk_tria, vtk_header, read_off. cbn [app]. rewrite !lines_of_cons.
    rewrite skip_two; [| unfold line_of; rewrite !app_length; cbn [List.length map]; lia | reflexivity | reflexivity].
    reflexivity.
  Qed.

  (* ---- Gmsh 2 ASCII files written by other tools: $MeshFormat / $Nodes (id x y z) / $Elements (id 4 ntags tags.. n1 n2 n3 n4),
          node numbers 1-based: loaded with zero-based indices; node and element ids and tag values are arbitrary *)
  Definition gnode (n : Z * (K * K * K)) : list tok := let '(i, (x, y, z)) := n in [TZ i; TF x; TF y; TF z].
  Definition gnrow (n : Z * (K * K * K)) : list K :=
    let '(i, (x, y, z)) := n in [round32 (zK i); round32 x; round32 y; round32 z].
  Definition gelem (e : Z * list Z * tet) : list tok :=
    let '(i, tg, (a, b, c, d)) := e in
    [TZ i; TZ 4; TZ (Z.of_nat (List.length tg))] ++ map (TZ (K:=K)) tg ++
    [TZ (Z.of_nat a + 1); TZ (Z.of_nat b + 1); TZ (Z.of_nat c + 1); TZ (Z.of_nat d + 1)].
  Definition gerow (e : Z * list Z * tet) : list Z :=
    let '(i, tg, (a, b, c, d)) := e in
    [i; 4%Z; Z.of_nat (List.length tg)] ++ tg ++ [Z.of_nat a + 1; Z.of_nat b + 1; Z.of_nat c + 1; Z.of_nat d + 1]%Z.
  Definition gmsh_lines (ver : K) (dsize : Z) (ns : list (Z * (K * K * K))) (es : list (Z * list Z * tet)) : list (list tok) :=
    [[TW "$MeshFormat"]; [TF ver; TZ 0; TZ dsize]; [TW "$EndMeshFormat"]; [TW "$Nodes"]; [TZ (Z.of_nat (List.length ns))]]
    ++ map gnode ns
    ++ [[TW "$EndNodes"]; [TW "$Elements"]; [TZ (Z.of_nat (List.length es))]]
    ++ map gelem es ++ [[TW "$EndElements"]].

  Lemma gnodes_num ns : Forall (fun l => forallb is_num l = true) (map gnode ns).
  Proof. apply Forall_forall. intros l Hl. apply in_map_iff in Hl. destruct Hl as ([i [[x y] z]] & <- & _). reflexivity. Qed.
  Lemma gnodes_len ns : List.length (List.concat (map gnode ns)) = (4 * List.length ns)%nat.
  Proof. induction ns as [|[i [[x y] z]] ns IH]; [reflexivity|]. cbn [map List.concat gnode app List.length]. rewrite IH. lia. Qed.
  Lemma gnodes_numK ns : all_some (map (numK round32 zK) (List.concat (map gnode ns))) = Some (List.concat (map gnrow ns)).
  Proof.
    induction ns as [|[i [[x y] z]] ns IH]; [reflexivity|]. cbn [map List.concat gnode gnrow app all_some numK].
    rewrite IH. reflexivity.
  Qed.
  Lemma gnrows_back ns :
    all_some (map (fun r : list K => match r with [_; x; y; z] => Some (x, y, z) | _ => None end) (map gnrow ns)) = Some (map (fun n => r3 (snd n)) ns).
  Proof. induction ns as [|[i [[x y] z]] ns IH]; [reflexivity|]. cbn [map gnrow all_some snd r3]. rewrite IH. reflexivity. Qed.
  Lemma concat_len_const {A} (rows : list (list A)) w : Forall (fun r => List.length r = w) rows -> List.length (List.concat rows) = (List.length rows * w)%nat.
  Proof. induction 1 as [|r rs Hr _ IH]; [reflexivity|]. cbn [List.concat List.length]. rewrite app_length, IH, Hr. lia. Qed.

  Lemma gelems_num es : Forall (fun l => forallb is_num l = true) (map gelem es).
  Proof.
    apply Forall_forall. intros l Hl. apply in_map_iff in Hl. destruct Hl as ([[i tg] [[[a b] c] d]] & <- & _).
    unfold gelem. rewrite !forallb_app. cbn [forallb is_num andb]. rewrite andb_true_r.
    apply forallb_forall. intros x Hx. apply in_map_iff in Hx. destruct Hx as (z & <- & _). reflexivity.
  Qed.
  Lemma gelem_len e : List.length (gelem e) = (7 + List.length (snd (fst e)))%nat.
  Proof. destruct e as [[i tg] [[[a b] c] d]]. unfold gelem. rewrite !app_length, map_length. cbn [List.length fst snd]. lia. Qed.
  Lemma gerow_len e : List.length (gerow e) = (7 + List.length (snd (fst e)))%nat.
  Proof. destruct e as [[i tg] [[[a b] c] d]]. unfold gerow. rewrite !app_length. cbn [List.length fst snd]. lia. Qed.
  Lemma gelems_tokZ es : all_some (map (tokZ (K:=K)) (List.concat (map gelem es))) = Some (List.concat (map gerow es)).
  Proof.
    induction es as [|[[i tg] [[[a b] c] d]] es IH]; [reflexivity|]. cbn [map List.concat]. rewrite map_app.
    assert (E : forall l1 l2 r1 r2, all_some (map (tokZ (K:=K)) l1) = Some r1 -> all_some (map (tokZ (K:=K)) l2) = Some r2 ->
                all_some (map (tokZ (K:=K)) l1 ++ map (tokZ (K:=K)) l2) = Some (r1 ++ r2)).
    { induction l1 as [|x l1 IH1]; intros l2 r1 r2 H1 H2.
      - cbn in H1. inversion H1. exact H2.
      - cbn [map all_some app] in *. destruct (tokZ x) as [z|]; [|discriminate].
        destruct (all_some (map (tokZ (K:=K)) l1)) as [r1'|] eqn:E1; [|discriminate]. inversion H1; subst.
        rewrite (IH1 l2 r1' r2 eq_refl H2). reflexivity. }
    apply E; [|exact IH]. unfold gelem, gerow. clear.
    cbn [app map all_some tokZ]. rewrite map_app. cbn [map].
    assert (T : forall tl rest, all_some (map (tokZ (K:=K)) (map (TZ (K:=K)) tl) ++ rest) =
                                match all_some rest with Some r => Some (tl ++ r) | None => None end).
    { induction tl as [|z tl IHt]; intros rest; cbn [map app all_some tokZ]; [destruct (all_some rest); reflexivity|].
      rewrite IHt. destruct (all_some rest); reflexivity. }
    rewrite T. cbn [all_some tokZ]. reflexivity.
  Qed.
  Definition glast4 (e : Z * list Z * tet) : list Z :=
    let '(_, _, (a, b, c, d)) := e in [Z.of_nat a + 1; Z.of_nat b + 1; Z.of_nat c + 1; Z.of_nat d + 1]%Z.
  Lemma gerow_last4 e : skipn (List.length (gerow e) - 4) (gerow e) = glast4 e.
  Proof.
    rewrite gerow_len. destruct e as [[i tg] [[[a b] c] d]]. cbn [fst snd]. unfold gerow, glast4.
    replace (7 + List.length tg - 4)%nat with (List.length ([i; 4%Z; Z.of_nat (List.length tg)] ++ tg)) by (rewrite app_length; cbn [List.length]; lia).
    rewrite app_assoc. rewrite skipn_app, Nat.sub_diag, skipn_all. reflexivity.
  Qed.
  Lemma glast4_back e : map (fun z => Z.to_nat (z - 1)) (glast4 e) = let '(a, b, c, d) := snd e in [a; b; c; d].
  Proof.
    destruct e as [[i tg] [[[a b] c] d]]. cbn [glast4 snd map].
    replace (Z.of_nat a + 1 - 1)%Z with (Z.of_nat a) by lia. replace (Z.of_nat b + 1 - 1)%Z with (Z.of_nat b) by lia.
    replace (Z.of_nat c + 1 - 1)%Z with (Z.of_nat c) by lia. replace (Z.of_nat d + 1 - 1)%Z with (Z.of_nat d) by lia.
    rewrite !Nat2Z.id. reflexivity.
  Qed.
  Lemma gerows_back es :
    rows4 (map (fun row => map (fun z => Z.to_nat (z - 1)) (skipn (List.length row - 4) row)) (map gerow es)) = Some (map snd es).
  Proof.
    unfold rows4. induction es as [|e es IH]; [reflexivity|]. cbn [map].
    rewrite gerow_last4, glast4_back. destruct e as [[i tg] [[[a b] c] d]]. cbn [snd all_some]. cbn [map] in IH. rewrite IH. reflexivity.
  Qed.

  Theorem gmsh_file_loads ver dsize (ns : list (Z * (K * K * K))) (es : list (Z * list Z * tet)) ntags :
    es <> [] -> Forall (fun e => List.length (snd (fst e)) = ntags) es ->
    read_gmsh round32 zK (lines_of (gmsh_lines ver dsize ns es)) = Some (map (fun n => r3 (snd n)) ns, map snd es).
  Proof.
    intros Hne Htg. unfold gmsh_lines, read_gmsh. cbn [app]. rewrite !lines_of_cons.
    rewrite readline_line. cbn [String.eqb Ascii.eqb Bool.eqb negb].
    rewrite readline_line. cbn [Z.eqb negb].
    rewrite readline_line. cbn [String.eqb Ascii.eqb Bool.eqb negb].
    rewrite readline_line. cbn [String.eqb Ascii.eqb Bool.eqb negb].
    rewrite readline_line. rewrite Nat2Z.id.
    rewrite lines_of_app.
    rewrite <- gnodes_len. rewrite (take_nums_lines _ _ (gnodes_num ns)); [| cbn [app]; rewrite lines_of_cons; apply line_of_starts; discriminate].
    rewrite Nat.eqb_refl. cbn [negb]. rewrite gnodes_numK.
    assert (Lr : Forall (fun r : list K => List.length r = 4%nat) (map gnrow ns)).
    { apply Forall_forall. intros r Hr. apply in_map_iff in Hr. destruct Hr as ([i [[x y] z]] & <- & _). reflexivity. }
    rewrite (chunkn_concat 4 (map gnrow ns)); [| lia | exact Lr | rewrite (concat_len_const _ 4 Lr), map_length; lia].
    rewrite gnrows_back.
    cbn [app]. rewrite !lines_of_cons.
    rewrite readline_line. cbn [String.eqb Ascii.eqb Bool.eqb negb].
    rewrite readline_line. cbn [String.eqb Ascii.eqb Bool.eqb negb].
    rewrite readline_line. rewrite Nat2Z.id.
    (* first element line *)
    destruct es as [|e0 es']; [contradiction|]. set (es := e0 :: es') in *.
    assert (Hw : forall e, In e es -> List.length (gelem e) = (7 + ntags)%nat).
    { intros e He. rewrite gelem_len. rewrite Forall_forall in Htg. rewrite (Htg e He). reflexivity. }
    assert (Hw' : forall e, In e es -> List.length (gerow e) = (7 + ntags)%nat).
    { intros e He. rewrite gerow_len. rewrite Forall_forall in Htg. rewrite (Htg e He). reflexivity. }
    rewrite lines_of_app.
    assert (R0 : readline (lines_of (map gelem es) ++ lines_of [[TW "$EndElements"]]) = Some (gelem e0, lines_of (map gelem es') ++ lines_of [[TW "$EndElements"]])).
    { unfold es. cbn [map]. rewrite lines_of_cons, <- app_assoc. apply readline_line. }
    rewrite R0. rewrite (Hw e0 (or_introl eq_refl)).
    assert (F0 : exists i0 tl0, gelem e0 = TZ i0 :: TZ 4 :: tl0).
    { destruct e0 as [[i tg] [[[a b] c] d]]. unfold gelem. cbn [app]. eauto. }
    destruct F0 as (i0 & tl0 & F0). rewrite F0. cbn [Z.eqb Pos.eqb negb].
    assert (Lc : List.length (List.concat (map gelem es)) = (List.length (map gelem es) * (7 + ntags))%nat).
    { apply concat_len_const. apply Forall_forall. intros r Hr. apply in_map_iff in Hr. destruct Hr as (e & <- & He). apply Hw. exact He. }
    rewrite map_length in Lc.
    rewrite <- Lc. rewrite (take_nums_lines _ _ (gelems_num es)); [| right; cbn; eauto].
    rewrite Nat.eqb_refl. cbn [negb]. rewrite gelems_tokZ.
    assert (Lz : Forall (fun r : list Z => List.length r = (7 + ntags)%nat) (map gerow es)).
    { apply Forall_forall. intros r Hr. apply in_map_iff in Hr. destruct Hr as (e & <- & He). apply Hw'. exact He. }
    rewrite (chunkn_concat (7 + ntags) (map gerow es)); [| lia | exact Lz | rewrite (concat_len_const _ _ Lz), map_length; nia].
    rewrite lines_of_cons, readline_line. cbn [String.eqb Ascii.eqb Bool.eqb negb].
    assert (Sk : map (fun row : list Z => map (fun z => Z.to_nat (z - 1)) (skipn (7 + ntags - 4) row)) (map gerow es)
                 = map (fun row => map (fun z => Z.to_nat (z - 1)) (skipn (List.length row - 4) row)) (map gerow es)).
    { apply map_ext_in. intros r Hr. rewrite Forall_forall in Lz. rewrite (Lz r Hr). reflexivity. }
    rewrite Sk, gerows_back. reflexivity.
  Qed.
End P.
