(* Proofs/NormalsTransP.v -- C13: tria_normals (the whole list, degenerate triangles included) does not change under translation. *)
From Coq Require Import List Arith Bool PeanoNat Lia Reals Lra.
From LaPyV Require Import Base.Scalar Base.Vec3 Base.ListAux Base.Sparse Model.TetMesh Model.TriaAdj Model.TriaOrient
  Model.Fem Model.TriaGeom Proofs.SparseP Proofs.TetMeshP Proofs.TriaAdjP Proofs.FemTriaP Proofs.InvarianceP Proofs.TriaGeomP Proofs.VolumeTransP.
Import ListNotations.
Open Scope R_scope.
Local Notation V3 := (vec3 R).

Lemma translate_sub (c p q : V3) : vsub Rops (vadd Rops p c) (vadd Rops q c) = vsub Rops p q.
Proof. r3 c; r3 p; r3 q. unfold vsub, vadd, vx, vy, vz. cbn [fst snd add sub Rops]. f_equal; [f_equal|]; ring. Qed.

Theorem tria_normals_translation_invariant c v ts : tris_in_range (length v) ts ->
  tria_normals Rops (translate c v) ts = tria_normals Rops v ts.
Proof.
  intros Hr. unfold tria_normals. apply map_ext_in. intros [[a b] d] Ht.
  unfold tris_in_range in Hr. rewrite Forall_forall in Hr. specialize (Hr _ Ht). cbn in Hr. destruct Hr as (Ha & Hb & Hd).
  unfold tria_normal, tri_pts, translate. rewrite !getv_map by assumption. rewrite !translate_sub. reflexivity.
Qed.
