(* Proofs/FemTetP.v -- theorems about the tetrahedral FEM assembly (C01, C02) over R. *)
From Coq Require Import List Arith Bool PeanoNat Permutation Lia Reals Lra.
From LaPyV Require Import Base.Scalar Base.Vec3 Base.ListAux Base.Sparse Model.TetMesh Model.Fem
  Proofs.SparseP Proofs.TetMeshP Proofs.FemTriaP.
Import ListNotations.
Open Scope R_scope.

Lemma block16_bilin f g t1 t2 t3 t4 a12 a23 a13 a14 a24 a34 a11 a22 a33 a44 :
  bil f (block16 (t1, t2, t3, t4) a12 a23 a13 a14 a24 a34 a11 a22 a33 a44) g =
    a12 * (f t1 * g t2 + f t2 * g t1) + a23 * (f t2 * g t3 + f t3 * g t2) + a13 * (f t3 * g t1 + f t1 * g t3)
    + a14 * (f t1 * g t4 + f t4 * g t1) + a24 * (f t2 * g t4 + f t4 * g t2) + a34 * (f t3 * g t4 + f t4 * g t3)
    + a11 * f t1 * g t1 + a22 * f t2 * g t2 + a33 * f t3 * g t3 + a44 * f t4 * g t4.
Proof. unfold block16. rewrite !bilin_cons, bilin_nil. ring. Qed.

Lemma tet_stiff_block_bilin f g t1 t2 t3 t4 a12 a13 a14 a23 a24 a34 :
  bil f (tet_stiff_block Rops (t1, t2, t3, t4) (a12, a13, a14, a23, a24, a34)) g =
    - (a12 * (f t1 - f t2) * (g t1 - g t2) + a13 * (f t1 - f t3) * (g t1 - g t3) + a14 * (f t1 - f t4) * (g t1 - g t4)
       + a23 * (f t2 - f t3) * (g t2 - g t3) + a24 * (f t2 - f t4) * (g t2 - g t4) + a34 * (f t3 - f t4) * (g t3 - g t4)) / 6.
Proof. unfold tet_stiff_block. rewrite block16_bilin. cbn [opp sub div ofZ Rops]. field. Qed.

Lemma diag4_bilin f g t1 t2 t3 t4 b :
  bil f (diag4 (t1, t2, t3, t4) b) g = b * (f t1 * g t1 + f t2 * g t2 + f t3 * g t3 + f t4 * g t4).
Proof. unfold diag4. rewrite !bilin_cons, bilin_nil. ring. Qed.

Theorem fem_tet_A_bilin_sym v ts f g : bil f (fem_tet_A Rops v ts) g = bil g (fem_tet_A Rops v ts) f.
Proof.
  unfold fem_tet_A. rewrite !bilin_flat_map. apply Rsum_ext. intros [[[[t1 t2] t3] t4] vol] _.
  destruct (tetra_offdiag Rops v (t1, t2, t3, t4) vol) as [[[[[a12 a13] a14] a23] a24] a34].
  rewrite !tet_stiff_block_bilin. field.
Qed.
Theorem fem_tet_A_sym v ts i j : ent (fem_tet_A Rops v ts) i j = ent (fem_tet_A Rops v ts) j i.
Proof. apply entry_sym_of_bilin_sym. intros; apply fem_tet_A_bilin_sym. Qed.
Theorem fem_tet_A_const v ts f c : bil f (fem_tet_A Rops v ts) (fun _ => c) = 0.
Proof.
  unfold fem_tet_A. rewrite bilin_flat_map. apply Rsum_zero. intros [[[[t1 t2] t3] t4] vol] _.
  destruct (tetra_offdiag Rops v (t1, t2, t3, t4) vol) as [[[[[a12 a13] a14] a23] a24] a34].
  rewrite tet_stiff_block_bilin. field.
Qed.
Theorem fem_tet_A_rowsum v ts c i : mulvec_at Rops (fem_tet_A Rops v ts) (fun _ => c) i = 0.
Proof. rewrite mulvec_bilin. apply fem_tet_A_const. Qed.

(* ------------------------------------------------------------------ geometry of one tetrahedron *)
Definition tet_det (p1 p2 p3 p4 : V3) : R := dotR (subR p2 p1) (crossR (subR p3 p1) (subR p4 p1)).
Definition tet_volume (p1 p2 p3 p4 : V3) : R := Rabs (tet_det p1 p2 p3 p4) / 6.
Definition tet_gradnum (p1 p2 p3 p4 : V3) (f1 f2 f3 f4 : R) : V3 :=
  let a := subR p2 p1 in let b := subR p3 p1 in let c := subR p4 p1 in
  vadd Rops (vadd Rops (vscale Rops (f2 - f1) (crossR b c)) (vscale Rops (f3 - f1) (crossR c a)))
            (vscale Rops (f4 - f1) (crossR a b)).
Definition tet_grad (p1 p2 p3 p4 : V3) (f1 f2 f3 f4 : R) : V3 :=
  vdivs Rops (tet_gradnum p1 p2 p3 p4 f1 f2 f3 f4) (tet_det p1 p2 p3 p4).

Ltac unft := unfold tet_grad, tet_gradnum, tet_det, dot, cross, vsub, vadd, vscale, vdivs, vx, vy, vz;
             cbn [fst snd add sub mul div opp Rops].

Theorem tet_grad_char p1 p2 p3 p4 f1 f2 f3 f4 : tet_det p1 p2 p3 p4 <> 0 ->
  dotR (tet_grad p1 p2 p3 p4 f1 f2 f3 f4) (subR p2 p1) = f2 - f1 /\
  dotR (tet_grad p1 p2 p3 p4 f1 f2 f3 f4) (subR p3 p1) = f3 - f1 /\
  dotR (tet_grad p1 p2 p3 p4 f1 f2 f3 f4) (subR p4 p1) = f4 - f1.
Proof.
  intros H. r3 p1; r3 p2; r3 p3; r3 p4. revert H. unft. intros H. repeat split; field; exact H.
Qed.

(* the code's 6V is |det| *)
Lemma tetra_vol6_raw_det v t1 t2 t3 t4 :
  let '(p1, p2, p3, p4) := tet_pts Rops v (t1, t2, t3, t4) in
  tetra_vol6_raw Rops v (t1, t2, t3, t4) = Rabs (tet_det p1 p2 p3 p4).
Proof.
  unfold tetra_vol6_raw, tet_edges, tet_pts.
  generalize (getv Rops v t1) (getv Rops v t2) (getv Rops v t3) (getv Rops v t4). intros p1 p2 p3 p4.
  cbn [absK Rops]. rewrite <- (Rabs_Ropp (tet_det p1 p2 p3 p4)). f_equal.
  r3 p1; r3 p2; r3 p3; r3 p4. unft. ring.
Qed.

(* numerators of solver.py:419-424 in terms of the edge vectors *)
Definition tet_nums (p1 p2 p3 p4 : V3) : R * R * R * R * R * R :=
  let e1 := subR p2 p1 in let e2 := subR p3 p2 in let e3 := subR p1 p3 in
  let e4 := subR p4 p1 in let e5 := subR p4 p2 in let e6 := subR p4 p3 in
  ( - dotR e3 e6 * dotR e2 e6 + dotR e2 e3 * dotR e6 e6,
    - dotR e1 e5 * dotR e2 e5 + dotR e1 e2 * dotR e5 e5,
    dotR e2 e3 * dotR e2 e6 - dotR e3 e6 * dotR e2 e2,
    - dotR e1 e4 * dotR e3 e4 + dotR e1 e3 * dotR e4 e4,
    dotR e1 e3 * dotR e3 e4 - dotR e1 e4 * dotR e3 e3,
    - dotR e1 e4 * dotR e1 e3 + dotR e1 e1 * dotR e3 e4 ).

Definition tet_P (p1 p2 p3 p4 : V3) (f1 f2 f3 f4 g1 g2 g3 g4 : R) : R :=
  let '(n12, n13, n14, n23, n24, n34) := tet_nums p1 p2 p3 p4 in
  - (n12 * (f1 - f2) * (g1 - g2) + n13 * (f1 - f3) * (g1 - g3) + n14 * (f1 - f4) * (g1 - g4)
     + n23 * (f2 - f3) * (g2 - g3) + n24 * (f2 - f4) * (g2 - g4) + n34 * (f3 - f4) * (g3 - g4)).

Lemma tet_poly_id p1 p2 p3 p4 f1 f2 f3 f4 g1 g2 g3 g4 :
  tet_P p1 p2 p3 p4 f1 f2 f3 f4 g1 g2 g3 g4 =
  dotR (tet_gradnum p1 p2 p3 p4 f1 f2 f3 f4) (tet_gradnum p1 p2 p3 p4 g1 g2 g3 g4).
Proof. r3 p1; r3 p2; r3 p3; r3 p4. unfold tet_P, tet_nums. unft. ring. Qed.

(* element energy: the code's block (vol = |det|, division by 6) is V * grad f . grad g *)
Theorem tetra_elem_energy v t1 t2 t3 t4 f g :
  let '(p1, p2, p3, p4) := tet_pts Rops v (t1, t2, t3, t4) in
  tet_det p1 p2 p3 p4 <> 0 ->
  bil f (tet_stiff_block Rops (t1, t2, t3, t4)
           (tetra_offdiag Rops v (t1, t2, t3, t4) (tetra_vol6_raw Rops v (t1, t2, t3, t4)))) g
  = tet_volume p1 p2 p3 p4 *
    dotR (tet_grad p1 p2 p3 p4 (f t1) (f t2) (f t3) (f t4)) (tet_grad p1 p2 p3 p4 (g t1) (g t2) (g t3) (g t4)).
Proof.
  assert (Hv := tetra_vol6_raw_det v t1 t2 t3 t4).
  unfold tet_pts in *. set (p1 := getv Rops v t1) in *. set (p2 := getv Rops v t2) in *.
  set (p3 := getv Rops v t3) in *. set (p4 := getv Rops v t4) in *.
  intros Hd. rewrite Hv. unfold tetra_offdiag, tet_edges, tet_pts. fold p1 p2 p3 p4.
  rewrite tet_stiff_block_bilin.
  set (A := Rabs (tet_det p1 p2 p3 p4)).
  assert (HA : A * A = tet_det p1 p2 p3 p4 * tet_det p1 p2 p3 p4).
  { unfold A. rewrite <- Rabs_mult. apply Rabs_pos_eq. nra. }
  assert (HAp : 0 < A) by (apply Rabs_pos_lt; assumption).
  unfold tet_volume. fold A.
  assert (Hdot : dotR (tet_grad p1 p2 p3 p4 (f t1) (f t2) (f t3) (f t4)) (tet_grad p1 p2 p3 p4 (g t1) (g t2) (g t3) (g t4))
                 = dotR (tet_gradnum p1 p2 p3 p4 (f t1) (f t2) (f t3) (f t4)) (tet_gradnum p1 p2 p3 p4 (g t1) (g t2) (g t3) (g t4))
                   / (A * A)).
  { rewrite HA. unfold tet_grad.
    generalize (tet_gradnum p1 p2 p3 p4 (f t1) (f t2) (f t3) (f t4)) (tet_gradnum p1 p2 p3 p4 (g t1) (g t2) (g t3) (g t4)).
    intros a b. r3 a; r3 b. unfold dot, vdivs, vx, vy, vz. cbn [fst snd add mul div Rops]. field. exact Hd. }
  rewrite Hdot, <- tet_poly_id. unfold tet_P, tet_nums.
  cbn [add sub mul div opp Rops].
  generalize (dotR (subR p1 p3) (subR p4 p3)) (dotR (subR p3 p2) (subR p4 p3)) (dotR (subR p3 p2) (subR p1 p3))
             (dotR (subR p4 p3) (subR p4 p3)) (dotR (subR p2 p1) (subR p4 p2)) (dotR (subR p3 p2) (subR p4 p2))
             (dotR (subR p2 p1) (subR p3 p2)) (dotR (subR p4 p2) (subR p4 p2)) (dotR (subR p3 p2) (subR p3 p2))
             (dotR (subR p2 p1) (subR p4 p1)) (dotR (subR p1 p3) (subR p4 p1)) (dotR (subR p2 p1) (subR p1 p3))
             (dotR (subR p4 p1) (subR p4 p1)) (dotR (subR p1 p3) (subR p1 p3)) (dotR (subR p2 p1) (subR p2 p1)).
  intros. field. lra.
Qed.

Definition tet_nondeg (v : list V3) (ts : list tet) : Prop :=
  Forall (fun t => Reqb (tetra_vol6_raw Rops v t) 0 = false) ts.

Lemma tetra_vols6_nondeg v ts : tet_nondeg v ts -> tetra_vols6 Rops v ts = map (tetra_vol6_raw Rops v) ts.
Proof.
  intros H. unfold tetra_vols6. rewrite map_map. apply map_ext_in. intros t Ht.
  unfold tet_nondeg in H. rewrite Forall_forall in H. cbn [eqb zero Rops]. rewrite (H t Ht). reflexivity.
Qed.

Lemma Reqb_false a b : Reqb a b = false <-> a <> b.
Proof. unfold Reqb. destruct (Req_EM_T a b); split; intros; try assumption; try reflexivity; try discriminate; contradiction. Qed.

Definition tet_energy (v : list V3) (f g : nat -> R) (t : tet) : R :=
  let '(t1, t2, t3, t4) := t in
  let '(p1, p2, p3, p4) := tet_pts Rops v t in
  tet_volume p1 p2 p3 p4 *
  dotR (tet_grad p1 p2 p3 p4 (f t1) (f t2) (f t3) (f t4)) (tet_grad p1 p2 p3 p4 (g t1) (g t2) (g t3) (g t4)).

Theorem fem_tet_A_energy v ts f g : tet_nondeg v ts ->
  bil f (fem_tet_A Rops v ts) g = Rsum (tet_energy v f g) ts.
Proof.
  intros H. unfold fem_tet_A. rewrite (tetra_vols6_nondeg v ts H), flat_map_combine_map, bilin_flat_map.
  apply Rsum_ext. intros [[[t1 t2] t3] t4] Ht. unfold tet_nondeg in H. rewrite Forall_forall in H.
  specialize (H _ Ht). apply Reqb_false in H.
  assert (Hv := tetra_vol6_raw_det v t1 t2 t3 t4). assert (He := tetra_elem_energy v t1 t2 t3 t4 f g).
  unfold tet_energy. destruct (tet_pts Rops v (t1, t2, t3, t4)) as [[[p1 p2] p3] p4]. apply He.
  intros Hz. apply H. rewrite Hv, Hz. apply Rabs_R0.
Qed.

Theorem fem_tet_A_psd v ts f : tet_nondeg v ts -> 0 <= bil f (fem_tet_A Rops v ts) f.
Proof.
  intros H. rewrite fem_tet_A_energy by assumption. apply Rsum_nonneg. intros [[[t1 t2] t3] t4] _.
  unfold tet_energy. destruct (tet_pts Rops v (t1, t2, t3, t4)) as [[[p1 p2] p3] p4].
  apply Rmult_le_pos.
  - unfold tet_volume. assert (0 <= Rabs (tet_det p1 p2 p3 p4)) by apply Rabs_pos. lra.
  - generalize (tet_grad p1 p2 p3 p4 (f t1) (f t2) (f t3) (f t4)). intros a. r3 a. unfold dot, vx, vy, vz. cbn. nra.
Qed.

Theorem fem_tet_A_denominators v ts : tet_nondeg v ts -> Forall (fun vol => vol <> 0) (tetra_vols6 Rops v ts).
Proof.
  intros H. rewrite tetra_vols6_nondeg by assumption. apply Forall_forall. intros x Hx.
  apply in_map_iff in Hx. destruct Hx as (t & <- & Ht). unfold tet_nondeg in H. rewrite Forall_forall in H.
  specialize (H t Ht). apply Reqb_false in H. exact H.
Qed.

(* ------------------------------------------------------------------ tet mass matrix *)
Definition tetra_vol6_fn (v : list V3) (ts : list tet) : tet -> R :=
  fun t => let x := tetra_vol6_raw Rops v t in
           if Reqb x 0 then frac Rops 1 10000 * meanK Rops (map (tetra_vol6_raw Rops v) ts) else x.
Lemma tetra_vols6_map v ts : tetra_vols6 Rops v ts = map (tetra_vol6_fn v ts) ts.
Proof. unfold tetra_vols6, tetra_vol6_fn. rewrite map_map. reflexivity. Qed.

Definition tet_mass_form (f g : nat -> R) (vol : R) (t : tet) : R :=
  let '(t1, t2, t3, t4) := t in
  vol / 20 * ((f t1 * g t1 + f t2 * g t2 + f t3 * g t3 + f t4 * g t4)
              + (f t1 + f t2 + f t3 + f t4) * (g t1 + g t2 + g t3 + g t4)).

Theorem fem_tet_B_bilin_sym lump v ts f g : bil f (fem_tet_B Rops lump v ts) g = bil g (fem_tet_B Rops lump v ts) f.
Proof.
  unfold fem_tet_B. rewrite !bilin_flat_map. apply Rsum_ext. intros [[[[t1 t2] t3] t4] vol] _.
  destruct lump; [rewrite !diag4_bilin|rewrite !block16_bilin]; ring.
Qed.
Theorem fem_tet_B_sym lump v ts i j : ent (fem_tet_B Rops lump v ts) i j = ent (fem_tet_B Rops lump v ts) j i.
Proof. apply entry_sym_of_bilin_sym. intros; apply fem_tet_B_bilin_sym. Qed.

Theorem fem_tet_B_full_form v ts f g :
  bil f (fem_tet_B Rops false v ts) g = Rsum (fun t => tet_mass_form f g (tetra_vol6_fn v ts t / 6) t) ts.
Proof.
  unfold fem_tet_B. rewrite tetra_vols6_map, flat_map_combine_map, bilin_flat_map. apply Rsum_ext.
  intros [[[t1 t2] t3] t4] _. rewrite block16_bilin. unfold tet_mass_form. cbn [div ofZ Rops]. field.
Qed.
Theorem fem_tet_B_lumped_form v ts f g :
  bil f (fem_tet_B Rops true v ts) g =
  Rsum (fun t => let '(t1, t2, t3, t4) := t in
                 tetra_vol6_fn v ts t / 6 / 4 * (f t1 * g t1 + f t2 * g t2 + f t3 * g t3 + f t4 * g t4)) ts.
Proof.
  unfold fem_tet_B. rewrite tetra_vols6_map, flat_map_combine_map, bilin_flat_map. apply Rsum_ext.
  intros [[[t1 t2] t3] t4] _. rewrite diag4_bilin. cbn [div ofZ Rops]. field.
Qed.
Theorem fem_tet_B_total lump v ts :
  coo_sum_all Rops (fem_tet_B Rops lump v ts) = Rsum (fun t => tetra_vol6_fn v ts t / 6) ts.
Proof.
  rewrite coo_sum_all_bilin. destruct lump; [rewrite fem_tet_B_lumped_form|rewrite fem_tet_B_full_form];
    apply Rsum_ext; intros [[[t1 t2] t3] t4] _; unfold tet_mass_form; field.
Qed.
Theorem fem_tet_B_lumped_is_rowsum v ts f :
  bil f (fem_tet_B Rops true v ts) (fun _ => 1) = bil f (fem_tet_B Rops false v ts) (fun _ => 1).
Proof.
  rewrite fem_tet_B_lumped_form, fem_tet_B_full_form. apply Rsum_ext; intros [[[t1 t2] t3] t4] _; unfold tet_mass_form; field.
Qed.
Theorem fem_tet_B_stored_positive lump v ts : Forall (fun x => 0 < x) (tetra_vols6 Rops v ts) ->
  Forall (fun '(_, _, a) => 0 < a) (fem_tet_B Rops lump v ts).
Proof.
  unfold fem_tet_B. intros H. apply Forall_forall. intros [[i j] a] Hin.
  apply in_flat_map in Hin. destruct Hin as ([[[[t1 t2] t3] t4] vol] & Hc & Hin).
  apply in_combine_r in Hc. rewrite Forall_forall in H. specialize (H vol Hc).
  cbn [div ofZ Rops] in Hin.
  assert (0 < vol / 24 /\ 0 < vol / 120 /\ 0 < vol / 60) as (A & B & C) by (repeat split; lra).
  destruct lump; cbn [diag4 block16 In] in Hin;
    repeat (destruct Hin as [Hin|Hin]; [inversion Hin; subst; assumption|]); destruct Hin.
Qed.
Lemma tet_nondeg_vols_pos v ts : tet_nondeg v ts -> Forall (fun x => 0 < x) (tetra_vols6 Rops v ts).
Proof.
  intros H. rewrite tetra_vols6_nondeg by assumption. apply Forall_forall. intros x Hx.
  apply in_map_iff in Hx. destruct Hx as (t & <- & Ht). unfold tet_nondeg in H. rewrite Forall_forall in H.
  specialize (H t Ht). apply Reqb_false in H. unfold tetra_vol6_raw in *. destruct (tet_edges Rops v t) as [[[[[e1 e2] e3] e4] e5] e6].
  cbn [absK Rops] in *. assert (0 <= Rabs (dotR e4 (crossR e1 e3))) by apply Rabs_pos. lra.
Qed.
