(* Proofs/TetDivP.v -- assembled adjointness of the tetrahedral divergence, div(grad g) = -A g on tetrahedral meshes (C06), and
   the geodesic right-hand side of an affine function on any tetrahedral mesh (C08). *)
From Coq Require Import List Arith Bool PeanoNat Lia Reals Lra.
From LaPyV Require Import Base.Scalar Base.Vec3 Base.ListAux Base.Sparse Model.TetMesh Model.TriaAdj Model.Fem Model.TriaGeom
  Model.DiffGeo Model.Poisson Model.Geodesic Proofs.SparseP Proofs.TetMeshP Proofs.FemTriaP Proofs.FemTetP Proofs.TriaAdjP
  Proofs.TriaGeomP Proofs.DiffGeoP Proofs.GeodesicAffineP.
Import ListNotations.
Open Scope R_scope.

Lemma corner_quads_range ts (xs : list (R * R * R * R)) :
  Forall (fun p => (fst p < div_len (tet_flat ts))%nat) (corner_quads ts xs).
Proof.
  apply Forall_forall. intros [i x] Hin. unfold corner_quads in Hin. apply in_flat_map in Hin.
  destruct Hin as ([[[[a b] c] d] [[[x0 x1] x2] x3]] & Hc & Hin). apply in_combine_l in Hc. cbn [fst]. unfold div_len.
  assert (In i (tet_flat ts)).
  { unfold tet_flat. apply in_flat_map. exists (a, b, c, d). split; [assumption|]. cbn in Hin. cbn.
    destruct Hin as [H|[H|[H|[H|[]]]]]; inversion H; subst; tauto. }
  apply maxn_ge in H. lia.
Qed.

Definition tet_pairing_rhs (v : list V3) (f : nat -> R) (p : tet * V3) : R :=
  let '(t, X) := p in let '(a, b, c, d) := t in
  let '(p0, p1, p2, p3) := tet_pts Rops v t in
  tet_volume p0 p1 p2 p3 * dotR X (tet_grad p0 p1 p2 p3 (f a) (f b) (f c) (f d)).

(* sum_i f_i div(X)_i = - sum_t vol_t X_t . grad_t f, for all f and all X, whatever the orientation of the tetrahedra *)
Theorem tet_divergence_adjoint v ts (f : nat -> R) (X : list V3) :
  Forall (tet_guard_off v) ts ->
  Rsum (fun k => f k * nth k (tet_compute_divergence Rops v ts X) 0) (iota (div_len (tet_flat ts)))
  = - Rsum (tet_pairing_rhs v f) (combine ts X).
Proof.
  intros Hg. unfold tet_compute_divergence.
  set (n := div_len (tet_flat ts)).
  set (l := corner_quads ts (map (fun '(t, x) => tet_div1 Rops v t x) (combine ts X))).
  rewrite (Rsum_ext _ (fun k => - / 6 * (f k * scatter_at Rops l k))).
  2:{ intros k Hk. apply iota_from_in in Hk. unfold scatter. rewrite map_map.
      rewrite (nth_map_iota (fun x => opp Rops (mul Rops (frac Rops 1 6) (scatter_at Rops l x))) 0 n k) by lia.
      unfold frac. cbn [opp mul div ofZ Rops]. field. }
  rewrite Rsum_scal, (scatter_pairing f n l) by apply corner_quads_range.
  unfold l, corner_quads. rewrite Rsum_flat_map.
  assert (E : forall (h : tet * V3 -> R * R * R * R) (g : tet * (R * R * R * R) -> R) L,
              Rsum g (combine (map fst L) (map h L)) = Rsum (fun p => g (fst p, h p)) L).
  { intros h g L. induction L as [|p L IH]; [reflexivity|]. cbn [map combine Rsum]. rewrite IH. reflexivity. }
  assert (C : combine ts (map (fun '(t, x) => tet_div1 Rops v t x) (combine ts X))
              = combine (map fst (combine ts X)) (map (fun '(t, x) => tet_div1 Rops v t x) (combine ts X))).
  { clear. revert X. induction ts as [|t ts IH]; intros [|x X]; cbn [combine map fst]; try reflexivity. rewrite IH. reflexivity. }
  rewrite C, E. rewrite <- Rsum_scal.
  assert (Ropp_sum : forall (h : tet * V3 -> R) L, - Rsum h L = Rsum (fun p => - h p) L).
  { intros h L. induction L as [|q L IH]; cbn [Rsum]; [ring|]. rewrite <- IH. ring. }
  rewrite Ropp_sum.
  apply Rsum_ext. intros [[[[a b] c] d] x] Hin. apply in_combine_l in Hin. rewrite Forall_forall in Hg. specialize (Hg _ Hin).
  assert (A := tet_div1_adjoint v f a b c d x Hg). cbn [fst]. unfold tet_pairing_rhs.
  destruct (tet_pts Rops v (a, b, c, d)) as [[[p0 p1] p2] p3]. destruct (tet_div1 Rops v (a, b, c, d) x) as [[[x0 x1] x2] x3].
  cbn [Rsum fst snd]. lra.
Qed.

(* div(grad g) = - A g on tetrahedral meshes, tested against every f *)
Theorem tet_div_grad_is_minus_A v ts (f g : nat -> R) :
  Forall (tet_guard_off v) ts -> tet_nondeg v ts ->
  Rsum (fun k => f k * nth k (tet_compute_divergence Rops v ts (map (tet_grad1 Rops v g) ts)) 0) (iota (div_len (tet_flat ts)))
  = - bil f (fem_tet_A Rops v ts) g.
Proof.
  intros Hg Hn. rewrite tet_divergence_adjoint by assumption. f_equal.
  rewrite fem_tet_A_energy by assumption.
  assert (C : combine ts (map (tet_grad1 Rops v g) ts) = map (fun t => (t, tet_grad1 Rops v g t)) ts).
  { clear. induction ts as [|t l IH]; [reflexivity|]. cbn [map combine]. rewrite IH. reflexivity. }
  rewrite C, Rsum_map. apply Rsum_ext. intros [[[a b] c] d] Hin.
  rewrite Forall_forall in Hg. specialize (Hg _ Hin).
  assert (S := tet_grad1_is_spec v g a b c d Hg).
  unfold tet_pairing_rhs, tet_energy. destruct (tet_pts Rops v (a, b, c, d)) as [[[p0 p1] p2] p3]. rewrite S.
  generalize (tet_grad p0 p1 p2 p3 (g a) (g b) (g c) (g d)) (tet_grad p0 p1 p2 p3 (f a) (f b) (f c) (f d)). intros x y.
  destruct x as [[x0 x1] x2]. destruct y as [[y0 y1] y2]. unfv. ring.
Qed.

(* ---- geodesic function of an affine function on any tetrahedral mesh *)
Definition affine_on_tet (v : list V3) (a : V3) (b0 : R) (f : nat -> R) (t : tet) : Prop :=
  let '(i, j, k, l) := t in f i = dotR a (getv Rops v i) + b0 /\ f j = dotR a (getv Rops v j) + b0 /\
                            f k = dotR a (getv Rops v k) + b0 /\ f l = dotR a (getv Rops v l) + b0.
Lemma tet_guard_det v i j k l : tet_guard_off v (i, j, k, l) ->
  let '(p0, p1, p2, p3) := tet_pts Rops v (i, j, k, l) in tet_det p0 p1 p2 p3 <> 0.
Proof.
  unfold tet_guard_off, tet_pts. generalize (getv Rops v i) (getv Rops v j) (getv Rops v k) (getv Rops v l). intros p0 p1 p2 p3 Hg.
  rewrite code_det in Hg. intros Z. apply Hg. rewrite Z. ring.
Qed.
Lemma tet_grad_of_affine v a b0 f t : tet_guard_off v t -> affine_on_tet v a b0 f t -> tet_grad1 Rops v f t = a.
Proof.
  destruct t as [[[i j] k] l]. intros Hg (Ei & Ej & Ek & El).
  pose proof (tet_grad1_is_spec v f i j k l Hg) as S. pose proof (tet_guard_det v i j k l Hg) as D.
  unfold tet_pts in *. rewrite S, Ei, Ej, Ek, El. apply tet_grad_affine. exact D.
Qed.

Theorem tet_geodesic_field_is_gradient_of_unit_slope v ts a b0 (f : nat -> R) : a <> (0, 0, 0) ->
  Forall (tet_guard_off v) ts -> Forall (affine_on_tet v a b0 f) ts ->
  map (unit_or_zero Rops) (map (tet_grad1 Rops v f) ts)
  = map (tet_grad1 Rops v (fun i => dotR (unit_dir a) (getv Rops v i))) ts.
Proof.
  intros Ha Hg Hf. rewrite map_map. apply map_ext_in. intros t Ht. rewrite Forall_forall in Hg, Hf.
  rewrite (tet_grad_of_affine v a b0 f t (Hg t Ht) (Hf t Ht)), (unit_or_zero_nonzero a Ha).
  symmetry. apply (tet_grad_of_affine v (unit_dir a) 0 _ t (Hg t Ht)).
  destruct t as [[[i j] k] l]. cbn. repeat split; ring.
Qed.

Theorem tet_geodesic_rhs_of_affine v ts a b0 (fl : list R) (phi : nat -> R) : a <> (0, 0, 0) ->
  Forall (tet_guard_off v) ts -> tet_nondeg v ts -> Forall (affine_on_tet v a b0 (vfun Rops fl)) ts ->
  Rsum (fun k => phi k * nth k (geodesic_rhs_tet Rops v ts fl) 0) (iota (div_len (tet_flat ts)))
  = - bil phi (fem_tet_A Rops v ts) (fun i => dotR (unit_dir a) (getv Rops v i)).
Proof.
  intros Ha Hg Hn Hf. unfold geodesic_rhs_tet, tet_compute_gradient.
  rewrite (tet_geodesic_field_is_gradient_of_unit_slope v ts a b0 (vfun Rops fl) Ha Hg Hf).
  apply tet_div_grad_is_minus_A; assumption.
Qed.

(* ---- the hypotheses of the tetrahedral theorems hold for a concrete mesh: the unit tetrahedron, f = x *)
Definition ex_v : list V3 := [(0, 0, 0); (1, 0, 0); (0, 1, 0); (0, 0, 1)].
Definition ex_ts : list tet := [(0, 1, 2, 3)%nat].
Lemma ex_guard : Forall (tet_guard_off ex_v) ex_ts.
Proof.
  repeat constructor. unfold tet_guard_off, tet_pts, ex_v, getv. cbn [nth].
  replace (dotR (subR (0, 0, 1) (0, 0, 0)) (crossR (subR (1, 0, 0) (0, 0, 0)) (subR (0, 0, 0) (0, 1, 0)))) with (-(1)) by (unfv; ring).
  lra.
Qed.
Lemma ex_nondeg : tet_nondeg ex_v ex_ts.
Proof.
  repeat constructor. apply Reqb_false. unfold tetra_vol6_raw, tet_edges, tet_pts, ex_v, getv. cbn [nth absK Rops].
  replace (dot Rops (vsub Rops (0, 0, 1) (0, 0, 0)) (cross Rops (vsub Rops (1, 0, 0) (0, 0, 0)) (vsub Rops (0, 0, 0) (0, 1, 0)))) with (-(1)) by (unfv; ring).
  rewrite Rabs_Ropp, Rabs_R1. lra.
Qed.
Lemma ex_affine : Forall (affine_on_tet ex_v (1, 0, 0) 0 (vfun Rops [0; 1; 0; 0])) ex_ts.
Proof. repeat constructor; unfold vfun, ex_v, getv; cbn [nth zero Rops]; unfv; ring. Qed.
Lemma ex_dir : (1, 0, 0) <> ((0, 0, 0) : V3).
Proof. intros H. inversion H. lra. Qed.
Theorem tet_affine_hypotheses_satisfiable :
  (1, 0, 0) <> ((0, 0, 0) : V3) /\ Forall (tet_guard_off ex_v) ex_ts /\ tet_nondeg ex_v ex_ts /\
  Forall (affine_on_tet ex_v (1, 0, 0) 0 (vfun Rops [0; 1; 0; 0])) ex_ts.
Proof. split; [exact ex_dir|]. split; [exact ex_guard|]. split; [exact ex_nondeg|exact ex_affine]. Qed.

