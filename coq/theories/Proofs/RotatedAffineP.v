(* Proofs/RotatedAffineP.v -- rotated function of an affine function on a flat triangle mesh (C08): on a mesh whose triangles all
   have the unit normal n, the field n x grad f the divergence is taken of is the gradient of the affine function u = (n x a).x,
   whose slope n x a is orthogonal to a and as long as a; the right-hand side handed to the solver is exactly -A u. *)
From Coq Require Import List Arith Bool PeanoNat Lia Reals Lra.
From LaPyV Require Import Base.Scalar Base.Vec3 Base.ListAux Base.Sparse Model.TetMesh Model.TriaAdj Model.Fem Model.TriaGeom
  Model.DiffGeo Model.Poisson Model.Geodesic Proofs.SparseP Proofs.TetMeshP Proofs.FemTriaP Proofs.TriaAdjP Proofs.TriaGeomP Proofs.DiffGeoP
  Proofs.GeodesicAffineP.
Import ListNotations.
Open Scope R_scope.

(* triangle t has the unit normal n (as tria_normals computes it) *)
Definition has_normal (v : list V3) (n : V3) (t : tri) : Prop := tria_normal Rops v t = n.

Lemma code_cross_is_tri_N (p0 p1 p2 : V3) : crossR (subR p1 p0) (subR p2 p0) = tri_N p0 p1 p2.
Proof. unfold tri_N. r3 p0; r3 p1; r3 p2. unfv. f_equal; [f_equal|]; ring. Qed.

Lemma normal_scaled v t n : tri_guard_off v t -> has_normal v n t ->
  let '(p0, p1, p2) := tri_pts Rops v t in
  exists L, 0 < L /\ tri_N p0 p1 p2 = vscale Rops L n /\ dotR n n = 1.
Proof.
  destruct t as [[i j] k]. intros Hg Hn. pose proof (guard_off_NN v i j k Hg) as NN.
  unfold has_normal, tria_normal in Hn. unfold tri_pts in *. 
  set (p0 := getv Rops v i) in *. set (p1 := getv Rops v j) in *. set (p2 := getv Rops v k) in *. cbv zeta in Hn.
  fold (subR p1 p0) in Hn. fold (subR p2 p0) in Hn. fold (crossR (subR p1 p0) (subR p2 p0)) in Hn.
  rewrite code_cross_is_tri_N in Hn.
  unfold norm, norm2 in Hn. cbn [sqrtK Rops] in Hn. fold (tri_NN p0 p1 p2) in Hn.
  assert (HL : 0 < sqrt (tri_NN p0 p1 p2)) by (apply sqrt_lt_R0; exact NN).
  unfold guard_zero_len in Hn. cbn [eqb zero one Rops] in Hn.
  destruct (Reqb (sqrt (tri_NN p0 p1 p2)) 0) eqn:E; [apply Reqb_true in E; lra|]. clear E.
  exists (sqrt (tri_NN p0 p1 p2)). split; [exact HL|].
  pose proof (sqrt_sqrt (tri_NN p0 p1 p2) (Rlt_le _ _ NN)) as SS.
  unfold tri_NN in SS at 3. generalize dependent (sqrt (tri_NN p0 p1 p2)). intros L Hn HL SS.
  generalize dependent (tri_N p0 p1 p2). intros N Hn SS. subst n. destruct N as [[n0 n1] n2]. unfv. unfv. split.
  - f_equal; [f_equal|]; field; lra.
  - unfold dot, vx, vy, vz in SS. cbn [fst snd add mul Rops] in SS.
    transitivity ((n0 * n0 + n1 * n1 + n2 * n2) / (L * L)); [field; lra|]. rewrite <- SS. field. lra.
Qed.

Definition quarter_turn (n a : V3) : V3 := crossR n a.

(* the slope of the rotated function: orthogonal to a and to n, and as long as a (a in the plane, n unit) *)
Lemma quarter_turn_facts (n a : V3) : dotR n n = 1 -> dotR a n = 0 ->
  dotR (quarter_turn n a) a = 0 /\ dotR (quarter_turn n a) n = 0 /\ dotR (quarter_turn n a) (quarter_turn n a) = dotR a a.
Proof.
  unfold quarter_turn. r3 n; r3 a. unfv. intros H1 H2. split; [ring|]. split; [ring|].
  transitivity ((x * x + y * y + z * z) * (x0 * x0 + y0 * y0 + z0 * z0) - (x0 * x + y0 * y + z0 * z) * (x0 * x + y0 * y + z0 * z)); [ring|].
  rewrite H1, H2. ring.
Qed.

Lemma combine_map_map {X Y Z W} (F : X -> Y) (G : X -> Z) (h : Y * Z -> W) l :
  map h (combine (map F l) (map G l)) = map (fun x => h (F x, G x)) l.
Proof. induction l as [|x l IH]; [reflexivity|]. cbn [map combine]. rewrite IH. reflexivity. Qed.

Section Flat.
  Context (v : list V3) (ts : list tri) (n a : V3) (b0 : R) (f : nat -> R).
  Context (Hg : Forall (tri_guard_off v) ts) (Hf : Forall (affine_on v a b0 f) ts) (Hp : Forall (in_plane v a) ts)
          (Hn : Forall (has_normal v n) ts).
  Definition rot_u : nat -> R := fun i => dotR (quarter_turn n a) (getv Rops v i).

  (* n x grad f = grad u, triangle by triangle *)
  Lemma rotated_field_is_gradient :
    map (fun '(m, g) => cross Rops m g) (combine (tria_normals Rops v ts) (map (tria_grad1 Rops v f) ts))
    = map (tria_grad1 Rops v rot_u) ts.
  Proof.
    unfold tria_normals. rewrite (combine_map_map (tria_normal Rops v) (tria_grad1 Rops v f) (fun '(m, g) => cross Rops m g)).
    apply map_ext_in. intros t Ht. rewrite Forall_forall in Hg, Hf, Hp, Hn.
    rewrite (grad_affine_in_plane v a b0 f t (Hg t Ht) (Hf t Ht) (Hp t Ht)). rewrite (Hn t Ht).
    symmetry. apply (grad_affine_in_plane v (quarter_turn n a) 0 rot_u t (Hg t Ht)).
    - destruct t as [[i j] k]. unfold rot_u. cbn. repeat split; ring.
    - pose proof (normal_scaled v t n (Hg t Ht) (Hn t Ht)) as S. unfold in_plane. destruct (tri_pts Rops v t) as [[p0 p1] p2].
      destruct S as (L & HL & EN & _). rewrite EN. unfold quarter_turn. r3 n; r3 a. unfv. ring.
  Qed.

  (* on a non-empty mesh the slope of u is a quarter turn of a in the plane of the mesh *)
  Lemma rotated_slope_quarter_turn : ts <> [] ->
    dotR (quarter_turn n a) a = 0 /\ dotR (quarter_turn n a) n = 0 /\ dotR (quarter_turn n a) (quarter_turn n a) = dotR a a.
  Proof.
    intros Hne. destruct ts as [|t l]; [congruence|]. rewrite Forall_forall in Hg, Hp, Hn.
    assert (Ht : In t (t :: l)) by (left; reflexivity).
    pose proof (normal_scaled v t n (Hg t Ht) (Hn t Ht)) as S. pose proof (Hp t Ht) as P. unfold in_plane in P.
    destruct (tri_pts Rops v t) as [[p0 p1] p2]. destruct S as (L & HL & EN & U). rewrite EN in P.
    apply quarter_turn_facts; [exact U|].
    assert (E : dotR a (vscale Rops L n) = L * dotR a n) by (r3 a; r3 n; unfv; ring).
    rewrite E in P. destruct (Rmult_integral _ _ P); [lra|assumption].
  Qed.
End Flat.

(* hence the right-hand side handed to the solver is -A u, tested against every phi: r = -u + u(vertex 0) solves the pinned system *)
Theorem rotated_rhs_of_affine_on_flat_mesh v ts n a b0 (fl : list R) (phi : nat -> R) :
  Forall (tri_guard_off v) ts -> tria_nondeg v ts -> Forall (affine_on v a b0 (vfun Rops fl)) ts -> Forall (in_plane v a) ts ->
  Forall (has_normal v n) ts ->
  Rsum (fun k => phi k * nth k (rotated_rhs Rops v ts fl) 0) (iota (div_len (tri_flat ts)))
  = - bil phi (fem_tria_A Rops v ts) (rot_u v n a).
Proof.
  intros Hg Hnd Hf Hp Hn. unfold rotated_rhs, tria_compute_gradient.
  rewrite (rotated_field_is_gradient v ts n a b0 (vfun Rops fl) Hg Hf Hp Hn).
  apply tria_div_grad_is_minus_A; assumption.
Qed.

(* the hypotheses hold for a concrete flat mesh: the unit square in the plane z = 0, f = x, n = e_z; the rotated slope is e_y *)
Definition sq_v : list V3 := [(0, 0, 0); (1, 0, 0); (0, 1, 0); (1, 1, 0)].
Definition sq_ts : list tri := [(0, 1, 2); (1, 3, 2)]%nat.
Lemma sqrt_sq1 (x : R) : x = 1 -> sqrt x = 1.
Proof. intros ->. apply sqrt_1. Qed.
Lemma rotated_hypotheses_satisfiable :
  Forall (tri_guard_off sq_v) sq_ts /\ tria_nondeg sq_v sq_ts /\ Forall (affine_on sq_v (1, 0, 0) 0 (vfun Rops [0; 1; 0; 1])) sq_ts /\
  Forall (in_plane sq_v (1, 0, 0)) sq_ts /\ Forall (has_normal sq_v (0, 0, 1)) sq_ts /\ quarter_turn (0, 0, 1) (1, 0, 0) = (0, 1, 0).
Proof.
  split; [|split; [|split; [|split; [|split]]]].
  - repeat constructor; unfold tri_guard_off, tri_edges, tri_pts, sq_v, getv; cbn [nth]; unfold norm, norm2; cbn [sqrtK Rops];
      apply sqrt_lt_R0; unfv; lra.
  - repeat constructor; unfold tria_vol4_raw, tri_pts, sq_v, getv; cbn [nth]; unfold two; cbn [sqrtK add one mul Rops];
      (apply Rmult_lt_0_compat; [lra|apply sqrt_lt_R0; unfv; lra]).
  - repeat constructor; unfold vfun, sq_v, getv; cbn [nth]; unfv; lra.
  - repeat constructor; unfold in_plane, tri_pts, sq_v, getv; cbn [nth]; unfold tri_N; unfv; lra.
  - unfold sq_ts; apply Forall_cons; [|apply Forall_cons; [|apply Forall_nil]]; unfold has_normal, tria_normal, tri_pts, sq_v, getv; cbn [nth]; cbv zeta;
      unfold norm, norm2, guard_zero_len; cbn [sqrtK eqb zero one Rops];
      match goal with |- context [sqrt ?x] => rewrite (sqrt_sq1 x) by (unfv; lra) end;
      (destruct (Reqb 1 0) eqn:E; [apply Reqb_true in E; lra|]); (unfv; f_equal; [f_equal|]; field).
  - unfold quarter_turn. unfv. f_equal; [f_equal|]; lra.
Qed.
