(* Proofs/GeodesicP.v -- geodesic / rotated functions solve their systems for every solver meeting the contract (C08). *)
From Coq Require Import List Arith Bool PeanoNat Lia Reals Lra.
From LaPyV Require Import Base.Scalar Base.Vec3 Base.ListAux Base.Sparse Model.TetMesh Model.TriaAdj Model.Fem Model.TriaGeom
  Model.DiffGeo Model.Poisson Model.Geodesic Proofs.SparseP Proofs.TetMeshP Proofs.FemTriaP Proofs.FemTetP Proofs.TriaAdjP
  Proofs.TriaGeomP Proofs.DiffGeoP Proofs.PoissonP.
Import ListNotations.
Open Scope R_scope.

(* ---- poisson without Dirichlet data: the whole system is handed to the solver *)
Theorem poisson_equation_no_dirichlet solve (HC : solve_contract solve) dim A B h X k :
  poisson Rops solve dim A B h None None = Ok X -> (k < dim)%nat ->
  length X = dim /\ mv A (vfun Rops X) k = mv B (hfun Rops dim h) k.
Proof.
  unfold poisson. intros H Hk.
  destruct (match h with HVector l => if negb (Nat.eqb (length l) dim) then Err ValueError else Ok tt | HScalar _ => Ok tt end); [|discriminate].
  destruct (HC _ _ _ _ H) as (Lx & Eq). split; [exact Lx|]. rewrite (Eq k Hk).
  rewrite (nth_map_iota _ 0 dim k Hk). unfold poisson_rhs. cbn [sub Rops].
  assert (Z : forall M, mv M (scatter_at Rops []) k = 0).
  { intros M. induction M as [|[[i0 j0] a0] M IH]; [reflexivity|]. rewrite mv_cons, IH. cbn [scatter_at fold_right zero Rops]. destruct (Nat.eqb i0 k); ring. }
  rewrite Z. transitivity (mv B (hfun Rops dim h) k - 0); [|ring]. f_equal. apply mv_ext. intros i0 j0 a0 _. cbn [combine scatter_at fold_right zero Rops]. ring.
Qed.

Lemma mv_eye n (h : nat -> R) k : (k < n)%nat -> mv (eye Rops n) h k = h k.
Proof.
  intros Hk. unfold eye, iota.
  assert (G : forall s m, mv (map (fun i => (i, i, one Rops)) (iota_from s m)) h k = if (Nat.leb s k && Nat.ltb k (s + m))%bool then h k else 0).
  { intros s m. revert s. induction m as [|m IH]; intros s; cbn [iota_from map].
    - replace (s + 0)%nat with s by lia. destruct (Nat.leb_spec s k), (Nat.ltb_spec k s); cbn; try reflexivity; lia.
    - rewrite mv_cons, IH. cbn [one Rops]. destruct (Nat.eqb_spec s k) as [->|Hne].
      + destruct (Nat.leb_spec (S k) k); [lia|]. cbn [andb]. destruct (Nat.leb_spec k k); [|lia]. destruct (Nat.ltb_spec k (k + S m)); [|lia]. cbn. ring.
      + destruct (Nat.leb_spec (S s) k), (Nat.leb_spec s k), (Nat.ltb_spec k (S s + m)), (Nat.ltb_spec k (s + S m)); cbn [andb]; try ring; lia. }
  rewrite G. destruct (Nat.leb_spec 0 k); [|lia]. destruct (Nat.ltb_spec k (0 + n)); [reflexivity|lia].
Qed.

(* ---- the min shift *)
Lemma minK_R a b : minK Rops a b = Rmin a b.
Proof. unfold minK. cbn [ltb Rops]. unfold Rmin. destruct (Rltb b a) eqn:E.
  - apply Rltb_true in E. destruct (Rle_dec a b); [lra|reflexivity].
  - apply Rltb_false in E. destruct (Rle_dec a b); [reflexivity|lra].
Qed.
Lemma fold_min_spec l : forall x, (fold_left (minK Rops) l x <= x /\ forall y, In y l -> fold_left (minK Rops) l x <= y)
                                  /\ (fold_left (minK Rops) l x = x \/ In (fold_left (minK Rops) l x) l).
Proof.
  induction l as [|y l IH]; intros x; cbn [fold_left].
  - split; [split; [lra|intros ? []]|left; reflexivity].
  - destruct (IH (minK Rops x y)) as ((L1 & L2) & M). rewrite minK_R in *.
    assert (Rmin x y <= x) by apply Rmin_l. assert (Rmin x y <= y) by apply Rmin_r.
    split; [split; [lra|]|].
    + intros z [->|Hz]; [lra|apply L2; exact Hz].
    + destruct M as [M|M]; [|right; right; exact M].
      destruct (Rle_dec x y) as [r|r].
      * left. rewrite M. unfold Rmin. destruct (Rle_dec x y); [reflexivity|contradiction].
      * right. left. rewrite M. unfold Rmin. destruct (Rle_dec x y); [contradiction|reflexivity].
Qed.
Theorem shift_min_spec l : l <> [] -> Forall (fun x => 0 <= x) (shift_min Rops l) /\ In 0 (shift_min Rops l).
Proof.
  intros Hne. destruct l as [|x l]; [contradiction|]. unfold shift_min, min_list.
  destruct (fold_min_spec l x) as ((L1 & L2) & M). set (m := fold_left (minK Rops) l x) in *.
  split.
  - apply Forall_forall. intros z Hz. apply in_map_iff in Hz. destruct Hz as (y & <- & Hy). cbn [sub Rops].
    destruct Hy as [->|Hy]; [lra|]. specialize (L2 y Hy). lra.
  - apply in_map_iff. exists m. split; [cbn [sub Rops]; ring|]. destruct M as [->|M]; [left; reflexivity|right; exact M].
Qed.

Lemma mv_shift M (x : nat -> R) c k : mv M (fun _ => c) k = 0 -> mv M (fun j => x j - c) k = mv M x k.
Proof.
  intros Hc. rewrite (mv_ext M _ (fun j => x j + (fun _ => - c) j) k) by (intros; ring). rewrite mv_plus.
  assert (N : mv M (fun _ => - c) k = - mv M (fun _ => c) k).
  { clear. induction M as [|[[i j] a] M IH]; [cbn; ring|]. rewrite !mv_cons, IH. destruct (Nat.eqb i k); ring. }
  rewrite N, Hc. ring.
Qed.

Lemma vfun_map_sub l c j : (j < length l)%nat -> vfun Rops (map (fun x => sub Rops x c) l) j = vfun Rops l j - c.
Proof. intros H. unfold vfun. cbn [zero sub Rops]. rewrite (nth_indep _ 0 (0 - c)) by (rewrite map_length; exact H). exact (map_nth (fun x => x - c) l 0 j). Qed.

Section Thm.
  Context (solve : nat -> coo R -> list R -> result (list R)) (HC : solve_contract solve).

  (* C08: whenever the solver returns, the geodesic function g solves A g = div(grad f / |grad f|) (same system for
     the generic and the triangle-specific entry point: the mass is replaced by the identity) and has minimum 0 *)
  Theorem geodesic_tria_spec v ts f g : geodesic_tria Rops solve v ts f = Ok g -> v <> [] ->
    in_range (length v) (fem_tria_A Rops v ts) ->
    (forall k, (k < length v)%nat ->
       mv (fem_tria_A Rops v ts) (vfun Rops g) k = nth k (geodesic_rhs_tria Rops v ts f) 0) /\
    Forall (fun x => 0 <= x) g /\ In 0 g.
  Proof.
    unfold geodesic_tria. destruct (poisson Rops solve (length v) (fem_tria_A Rops v ts) (eye Rops (length v)) _ None None) as [x|e] eqn:P; [|discriminate].
    intros H Hne Hr. inversion H; subst; clear H.
    assert (Lx : length x = length v).
    { destruct v as [|p v']; [contradiction|]. apply (poisson_equation_no_dirichlet solve HC _ _ _ _ _ 0%nat P). cbn; lia. }
    split.
    - intros k Hk. destruct (poisson_equation_no_dirichlet solve HC _ _ _ _ _ k P Hk) as (_ & Eq).
      rewrite mv_eye in Eq by assumption. cbn [hfun] in Eq. unfold vfun at 2 in Eq. cbn [zero Rops] in Eq. rewrite <- Eq.
      unfold shift_min.
      rewrite (mv_ext _ (vfun Rops (map (fun x0 => sub Rops x0 (min_list Rops x)) x)) (fun j => vfun Rops x j - min_list Rops x) k).
      + apply mv_shift. apply fem_tria_A_rowsum.
      + intros i j a Hin. unfold in_range in Hr. rewrite Forall_forall in Hr. specialize (Hr _ Hin). cbn in Hr.
        apply vfun_map_sub. lia.
    - apply shift_min_spec. destruct x; [destruct v; [contradiction|discriminate]|discriminate].
  Qed.

  Theorem geodesic_tet_spec v ts f g : geodesic_tet Rops solve v ts f = Ok g -> v <> [] ->
    in_range (length v) (fem_tet_A Rops v ts) ->
    (forall k, (k < length v)%nat ->
       mv (fem_tet_A Rops v ts) (vfun Rops g) k = nth k (geodesic_rhs_tet Rops v ts f) 0) /\
    Forall (fun x => 0 <= x) g /\ In 0 g.
  Proof.
    unfold geodesic_tet. destruct (poisson Rops solve (length v) (fem_tet_A Rops v ts) (eye Rops (length v)) _ None None) as [x|e] eqn:P; [|discriminate].
    intros H Hne Hr. inversion H; subst; clear H.
    assert (Lx : length x = length v).
    { destruct v as [|p v']; [contradiction|]. apply (poisson_equation_no_dirichlet solve HC _ _ _ _ _ 0%nat P). cbn; lia. }
    split.
    - intros k Hk. destruct (poisson_equation_no_dirichlet solve HC _ _ _ _ _ k P Hk) as (_ & Eq).
      rewrite mv_eye in Eq by assumption. cbn [hfun] in Eq. unfold vfun at 2 in Eq. cbn [zero Rops] in Eq. rewrite <- Eq.
      unfold shift_min.
      rewrite (mv_ext _ (vfun Rops (map (fun x0 => sub Rops x0 (min_list Rops x)) x)) (fun j => vfun Rops x j - min_list Rops x) k).
      + apply mv_shift. apply fem_tet_A_rowsum.
      + intros i j a Hin. unfold in_range in Hr. rewrite Forall_forall in Hr. specialize (Hr _ Hin). cbn in Hr.
        apply vfun_map_sub. lia.
    - apply shift_min_spec. destruct x; [destruct v; [contradiction|discriminate]|discriminate].
  Qed.

  (* the rotated function is 0 at vertex 0 and solves A r = div(n x grad f) at every other vertex *)
  Theorem rotated_tria_spec v ts f r : rotated_tria Rops solve v ts f = Ok r -> (0 < length v)%nat ->
    in_range (length v) (fem_tria_A Rops v ts) ->
    nth 0 r 0 = 0 /\
    forall k, (0 < k < length v)%nat ->
      mv (fem_tria_A Rops v ts) (vfun Rops r) k = nth k (rotated_rhs Rops v ts f) 0.
  Proof.
    unfold rotated_tria. intros P Hn Hr. split.
    - assert (D := poisson_dirichlet_exact solve _ _ _ _ _ _ _ _ 0%nat P). cbn [nth length zero Rops] in D. apply D; [constructor; [exact Hn|constructor]|lia].
    - intros k Hk.
      assert (E := poisson_equation_at_free_vertices solve HC _ _ _ _ _ _ _ _ k P Hr (proj2 Hk)).
      rewrite E by (intros [H0|[]]; lia).
      rewrite (mv_ext _ _ (hfun Rops (length v) (HVector (rotated_rhs Rops v ts f))) k).
      + rewrite mv_eye by lia. reflexivity.
      + intros i j a _. cbn [scatter_at fold_right zero sub Rops]. ring.
  Qed.
End Thm.
