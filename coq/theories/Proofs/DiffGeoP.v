(* Proofs/DiffGeoP.v -- gradient / divergence theorems (C06) over R. *)
From Coq Require Import List Arith Bool PeanoNat Lia Reals Lra.
From LaPyV Require Import Base.Scalar Base.Vec3 Base.ListAux Base.Sparse Model.TetMesh Model.TriaAdj Model.Fem Model.TriaGeom
  Model.DiffGeo Proofs.SparseP Proofs.TetMeshP Proofs.FemTriaP Proofs.FemTetP Proofs.TriaAdjP Proofs.TriaGeomP.
Import ListNotations.
Open Scope R_scope.

Ltac unfv := unfold dot, cross, vsub, vadd, vneg, vscale, vdivs, vx, vy, vz; cbn [fst snd add sub mul div opp Rops].

(* the guards replace only an exactly vanishing measure *)
Lemma guard_zero_off x : 0 < x -> guard_zero Rops x = x.
Proof.
  intros H. unfold guard_zero. cbn [eqb zero Rops].
  destruct (Reqb x 0) eqn:E; [apply Reqb_true in E; lra|reflexivity].
Qed.
Lemma guard_abs_off x : x <> 0 -> guard_abs Rops x = x.
Proof.
  intros H. unfold guard_abs, guard_zero. cbn [eqb zero Rops].
  destruct (Reqb x 0) eqn:E; [apply Reqb_true in E; contradiction|reflexivity].
Qed.

(* ------------------------------------------------------------------ triangles: gradient *)
Definition tri_guard_off (v : list V3) (t : tri) : Prop :=
  let '(e0, e1, e2) := tri_edges Rops v t in
  0 < norm Rops (crossR e2 (vneg Rops e1)).

Lemma code_normal_is_tri_N p0 p1 p2 :
  crossR (subR p1 p0) (vneg Rops (subR p0 p2)) = tri_N p0 p1 p2.
Proof. r3 p0; r3 p1; r3 p2. unfold tri_N. unfv. f_equal; [f_equal|]; ring. Qed.

(* the code's gradient IS the gradient of the linear interpolant (spec gradient of C01) *)
Theorem tria_grad1_is_spec v f a b c : tri_guard_off v (a, b, c) ->
  let '(p0, p1, p2) := tri_pts Rops v (a, b, c) in
  tria_grad1 Rops v f (a, b, c) = tri_grad p0 p1 p2 (f a) (f b) (f c).
Proof.
  unfold tri_guard_off, tria_grad1, tri_edges, tri_pts.
  generalize (getv Rops v a) (getv Rops v b) (getv Rops v c). intros p0 p1 p2.
  rewrite code_normal_is_tri_N. intros Hg. rewrite (guard_zero_off _ Hg). cbn [one Rops].
  assert (E := eps52_pos).
  unfold norm, norm2 in *. cbn [sqrtK Rops] in *. fold (tri_NN p0 p1 p2) in *.
  set (L := sqrt (tri_NN p0 p1 p2)) in *.
  assert (HN := tri_NN_nonneg p0 p1 p2).
  assert (HL : L * L = tri_NN p0 p1 p2) by (apply sqrt_sqrt; assumption).
  assert (HLp : 0 < L) by lra.
  unfold tri_grad, tri_gradnum. rewrite <- HL.
  generalize (tri_N p0 p1 p2). intros n.
  r3 n; r3 p0; r3 p1; r3 p2. unfv. f_equal; [f_equal|]; field; lra.
Qed.

(* exact on affine data: the projection of a onto the triangle plane *)
Theorem tri_grad_affine p0 p1 p2 (a : V3) (b0 : R) : tri_NN p0 p1 p2 <> 0 ->
  tri_grad p0 p1 p2 (dotR a p0 + b0) (dotR a p1 + b0) (dotR a p2 + b0)
  = subR a (vscale Rops (dotR a (tri_N p0 p1 p2) / tri_NN p0 p1 p2) (tri_N p0 p1 p2)).
Proof.
  intros H. r3 a; r3 p0; r3 p1; r3 p2. revert H. unfold tri_grad, tri_gradnum, tri_NN, tri_N. unfv. intros H.
  f_equal; [f_equal|]; field; exact H.
Qed.

(* ------------------------------------------------------------------ triangles: element adjointness *)
Lemma dot_vdivs (X g : V3) s : s <> 0 -> dotR X (vdivs Rops g s) = dotR X g / s.
Proof. intros H. r3 X; r3 g. unfv. field. exact H. Qed.

(* numerator of the cotangent divergence, paired with f *)
Definition div_P (p0 p1 p2 X : V3) (f0 f1 f2 : R) : R :=
  let e0 := subR p2 p1 in let e1 := subR p0 p2 in let e2 := subR p1 p0 in
  let d0 := dotR e2 (vneg Rops e1) in let d1 := dotR e0 (vneg Rops e2) in let d2 := dotR e1 (vneg Rops e0) in
  f0 * dotR (subR (vscale Rops d2 e2) (vscale Rops d1 e1)) X
  + f1 * dotR (subR (vscale Rops d0 e0) (vscale Rops d2 e2)) X
  + f2 * dotR (subR (vscale Rops d1 e1) (vscale Rops d0 e0)) X.
Lemma div_P_is_minus_Q p0 p1 p2 X f0 f1 f2 :
  div_P p0 p1 p2 X f0 f1 f2 = - dotR X (tri_gradnum p0 p1 p2 f0 f1 f2).
Proof. r3 p0; r3 p1; r3 p2; r3 X. unfold div_P, tri_gradnum, tri_N. unfv. ring. Qed.

Theorem tria_div1_adjoint v f a b c X : tri_guard_off v (a, b, c) ->
  let '(p0, p1, p2) := tri_pts Rops v (a, b, c) in
  let '(x0, x1, x2) := tria_div1 Rops v (a, b, c) X in
  1 / 2 * (f a * x0 + f b * x1 + f c * x2) =
  - (tri_area p0 p1 p2 * dotR X (tri_grad p0 p1 p2 (f a) (f b) (f c))).
Proof.
  unfold tri_guard_off, tria_div1, tri_edges, tri_pts.
  generalize (getv Rops v a) (getv Rops v b) (getv Rops v c). intros p0 p1 p2.
  rewrite code_normal_is_tri_N. intros Hg. rewrite (guard_zero_off _ Hg). cbn [one Rops].
  assert (E := eps52_pos).
  unfold norm, norm2 in *. cbn [sqrtK Rops] in *. fold (tri_NN p0 p1 p2) in *.
  unfold tri_area. set (L := sqrt (tri_NN p0 p1 p2)) in *.
  assert (HN := tri_NN_nonneg p0 p1 p2).
  assert (HL : L * L = tri_NN p0 p1 p2) by (apply sqrt_sqrt; assumption).
  assert (HLp : 0 < L) by lra.
  assert (HNz : tri_NN p0 p1 p2 <> 0) by (rewrite <- HL; nra).
  unfold tri_grad. rewrite dot_vdivs by assumption.
  rewrite <- (Ropp_involutive (dotR X (tri_gradnum p0 p1 p2 (f a) (f b) (f c)))), <- div_P_is_minus_Q.
  rewrite <- HL. unfold div_P. cbn [div mul sub add Rops].
  set (e0 := subR p2 p1). set (e1 := subR p0 p2). set (e2 := subR p1 p0).
  generalize (dotR e2 (vneg Rops e1)) (dotR e0 (vneg Rops e2)) (dotR e1 (vneg Rops e0)). intros d0 d1 d2.
  r3 e0; r3 e1; r3 e2; r3 X. unfv. field. lra.
Qed.

(* the second implementation is the negative adjoint as well, for every field X (tangential or not) *)
Theorem tria_div2_adjoint v f a b c X : tri_guard_off v (a, b, c) ->
  let '(p0, p1, p2) := tri_pts Rops v (a, b, c) in
  let '(x0, x1, x2) := tria_div2_1 Rops v (a, b, c) X in
  1 / 2 * (f a * x0 + f b * x1 + f c * x2) =
  - (tri_area p0 p1 p2 * dotR X (tri_grad p0 p1 p2 (f a) (f b) (f c))).
Proof.
  unfold tri_guard_off, tria_div2_1, tri_edges, tri_pts.
  generalize (getv Rops v a) (getv Rops v b) (getv Rops v c). intros p0 p1 p2.
  rewrite code_normal_is_tri_N. intros Hg. rewrite (guard_zero_off _ Hg). cbn [one Rops].
  assert (E := eps52_pos).
  unfold norm, norm2 in *. cbn [sqrtK Rops] in *. fold (tri_NN p0 p1 p2) in *.
  unfold tri_area. set (L := sqrt (tri_NN p0 p1 p2)) in *.
  assert (HN := tri_NN_nonneg p0 p1 p2).
  assert (HL : L * L = tri_NN p0 p1 p2) by (apply sqrt_sqrt; assumption).
  assert (HLp : 0 < L) by lra.
  assert (HNz : tri_NN p0 p1 p2 <> 0) by (rewrite <- HL; nra).
  unfold tri_grad. rewrite dot_vdivs by assumption. rewrite <- HL.
  unfold tri_gradnum. generalize (tri_N p0 p1 p2). intros n.
  r3 n; r3 p0; r3 p1; r3 p2; r3 X. unfv. field. lra.
Qed.

(* ------------------------------------------------------------------ assembled adjointness (triangles) *)
Lemma nth_map_iota {A} (g : nat -> A) d n k : (k < n)%nat -> nth k (map g (iota n)) d = g k.
Proof.
  intros Hk. unfold iota.
  assert (G : forall s m j, (j < m)%nat -> nth j (map g (iota_from s m)) d = g (s + j)%nat).
  { intros s m. revert s. induction m as [|m IH]; intros s j Hj; [lia|]. destruct j as [|j]; cbn [iota_from map nth].
    - f_equal. lia.
    - rewrite IH by lia. f_equal. lia. }
  rewrite G by assumption. reflexivity.
Qed.

(* pairing a vertex function with a scatter-add = pairing it with the scattered items *)
Lemma scatter_pairing (f : nat -> R) n (l : list (nat * R)) : Forall (fun p => (fst p < n)%nat) l ->
  Rsum (fun k => f k * scatter_at Rops l k) (iota n) = Rsum (fun p => f (fst p) * snd p) l.
Proof.
  intros H.
  rewrite (Rsum_ext _ (fun k => Rsum (fun p => if Nat.eqb (fst p) k then f (fst p) * snd p else 0) l)).
  - rewrite Rsum_swap. apply Rsum_ext. intros [i a] Hin. rewrite Forall_forall in H. specialize (H _ Hin). cbn [fst snd] in *.
    apply Rsum_indicator. exact H.
  - intros k _. rewrite scatter_at_Rsum. rewrite <- Rsum_scal. apply Rsum_ext. intros [i a] _. cbn [fst snd].
    destruct (Nat.eqb_spec i k); [subst; ring|ring].
Qed.

Lemma corner_triples_range ts (xs : list (R * R * R)) :
  Forall (fun p => (fst p < div_len (tri_flat ts))%nat) (corner_triples ts xs).
Proof.
  apply Forall_forall. intros [i x] Hin. unfold corner_triples in Hin. apply in_flat_map in Hin.
  destruct Hin as ([[[a b] c] [[x0 x1] x2]] & Hc & Hin). apply in_combine_l in Hc. cbn [fst]. unfold div_len.
  assert (In i (tri_flat ts)).
  { unfold tri_flat. apply in_flat_map. exists (a, b, c). split; [assumption|]. cbn in Hin. cbn.
    destruct Hin as [H|[H|[H|[]]]]; inversion H; subst; tauto. }
  apply maxn_ge in H. lia.
Qed.

Definition tria_pairing_rhs (v : list V3) (f : nat -> R) (p : tri * V3) : R :=
  let '(t, X) := p in let '(a, b, c) := t in
  let '(p0, p1, p2) := tri_pts Rops v t in
  tri_area p0 p1 p2 * dotR X (tri_grad p0 p1 p2 (f a) (f b) (f c)).

(* C06: sum_i f_i div(X)_i = - sum_t area_t X_t . grad_t f, for all f and all X *)
Theorem tria_divergence_adjoint v ts (f : nat -> R) (X : list V3) :
  Forall (tri_guard_off v) ts ->
  Rsum (fun k => f k * nth k (tria_compute_divergence Rops v ts X) 0) (iota (div_len (tri_flat ts)))
  = - Rsum (tria_pairing_rhs v f) (combine ts X).
Proof.
  intros Hg. unfold tria_compute_divergence.
  set (n := div_len (tri_flat ts)).
  set (l := corner_triples ts (map (fun '(t, x) => tria_div1 Rops v t x) (combine ts X))).
  rewrite (Rsum_ext _ (fun k => / 2 * (f k * scatter_at Rops l k))).
  2:{ intros k Hk. apply iota_from_in in Hk. unfold scatter. rewrite map_map.
      rewrite (nth_map_iota (fun x => mul Rops (frac Rops 1 2) (scatter_at Rops l x)) 0 n k) by lia.
      unfold frac. cbn [mul div ofZ Rops]. field. }
  rewrite Rsum_scal, (scatter_pairing f n l) by apply corner_triples_range.
  unfold l, corner_triples. rewrite Rsum_flat_map.
  (* reindex over (combine ts X) *)
  assert (E : forall (h : tri * V3 -> R * R * R) (g : tri * (R * R * R) -> R) L,
              Rsum g (combine (map fst L) (map h L)) = Rsum (fun p => g (fst p, h p)) L).
  { intros h g L. induction L as [|p L IH]; [reflexivity|]. cbn [map combine Rsum]. rewrite IH. reflexivity. }
  assert (Hts : forall L : list (tri * V3), map fst L = firstn (length L) (map fst L)) by (intros; rewrite <- (map_length fst), firstn_all; reflexivity).
  (* combine ts (map h (combine ts X)) = combine (map fst C) (map h C) with C = combine ts X *)
  assert (C : combine ts (map (fun '(t, x) => tria_div1 Rops v t x) (combine ts X))
              = combine (map fst (combine ts X)) (map (fun '(t, x) => tria_div1 Rops v t x) (combine ts X))).
  { clear. revert X. induction ts as [|t ts IH]; intros [|x X]; cbn [combine map fst]; try reflexivity. rewrite IH. reflexivity. }
  rewrite C, E. rewrite <- Rsum_scal.
  assert (Ropp_sum : forall (h : tri * V3 -> R) L, - Rsum h L = Rsum (fun p => - h p) L).
  { intros h L. induction L as [|q L IH]; cbn [Rsum]; [ring|]. rewrite <- IH. ring. }
  rewrite Ropp_sum.
  apply Rsum_ext. intros [[[a b] c] x] Hin. apply in_combine_l in Hin. rewrite Forall_forall in Hg. specialize (Hg _ Hin).
  assert (A := tria_div1_adjoint v f a b c x Hg). cbn [fst]. unfold tria_pairing_rhs.
  destruct (tri_pts Rops v (a, b, c)) as [[p0 p1] p2]. destruct (tria_div1 Rops v (a, b, c) x) as [[x0 x1] x2].
  cbn [Rsum fst snd]. lra.
Qed.

(* ------------------------------------------------------------------ tetrahedra *)
Definition tet_guard_off (v : list V3) (t : tet) : Prop :=
  let '(p0, p1, p2, p3) := tet_pts Rops v t in
  dotR (subR p3 p0) (crossR (subR p1 p0) (subR p0 p2)) <> 0.

Lemma code_det p0 p1 p2 p3 : dotR (subR p3 p0) (crossR (subR p1 p0) (subR p0 p2)) = - tet_det p0 p1 p2 p3.
Proof. r3 p0; r3 p1; r3 p2; r3 p3. unfold tet_det. unfv. ring. Qed.

(* the code's tetra gradient (after fix e9245f1) is the gradient of the linear interpolant, whatever the orientation *)
Theorem tet_grad1_is_spec v f a b c d : tet_guard_off v (a, b, c, d) ->
  let '(p0, p1, p2, p3) := tet_pts Rops v (a, b, c, d) in
  tet_grad1 Rops v f (a, b, c, d) = tet_grad p0 p1 p2 p3 (f a) (f b) (f c) (f d).
Proof.
  unfold tet_guard_off, tet_grad1, tet_pts.
  generalize (getv Rops v a) (getv Rops v b) (getv Rops v c) (getv Rops v d). intros p0 p1 p2 p3.
  intros Hg. rewrite (guard_abs_off _ Hg). cbn [one Rops].
  rewrite code_det in *.
  assert (Hd : tet_det p0 p1 p2 p3 <> 0).
  { intros Z. apply Hg. rewrite Z. ring. }
  unfold tet_grad, tet_gradnum. revert Hd. generalize (tet_det p0 p1 p2 p3). intros D Hd.
  r3 p0; r3 p1; r3 p2; r3 p3. unfv. f_equal; [f_equal|]; field; lra.
Qed.

(* exact on affine data *)
Theorem tet_grad_affine p0 p1 p2 p3 (a : V3) (b0 : R) : tet_det p0 p1 p2 p3 <> 0 ->
  tet_grad p0 p1 p2 p3 (dotR a p0 + b0) (dotR a p1 + b0) (dotR a p2 + b0) (dotR a p3 + b0) = a.
Proof.
  intros H. r3 a; r3 p0; r3 p1; r3 p2; r3 p3. revert H. unfold tet_grad, tet_gradnum, tet_det. unfv. intros H.
  f_equal; [f_equal|]; field; exact H.
Qed.

Lemma signK_R x : x <> 0 -> signK Rops x = x / Rabs x.
Proof.
  intros H. unfold signK. cbn [ltb zero one opp Rops].
  destruct (Rltb 0 x) eqn:P.
  - apply Rltb_true in P. rewrite Rabs_pos_eq by lra. field. lra.
  - apply Rltb_false in P. destruct (Rltb x 0) eqn:N.
    + apply Rltb_true in N. rewrite Rabs_left by assumption. field. lra.
    + apply Rltb_false in N. lra.
Qed.

(* element adjointness: -(1/6) sum_i f_i x_i = - V X . grad f, for either orientation *)
Theorem tet_div1_adjoint v f a b c d X : tet_guard_off v (a, b, c, d) ->
  let '(p0, p1, p2, p3) := tet_pts Rops v (a, b, c, d) in
  let '(x0, x1, x2, x3) := tet_div1 Rops v (a, b, c, d) X in
  - (1 / 6 * (f a * x0 + f b * x1 + f c * x2 + f d * x3)) =
  - (tet_volume p0 p1 p2 p3 * dotR X (tet_grad p0 p1 p2 p3 (f a) (f b) (f c) (f d))).
Proof.
  unfold tet_guard_off, tet_div1, tet_pts.
  generalize (getv Rops v a) (getv Rops v b) (getv Rops v c) (getv Rops v d). intros p0 p1 p2 p3.
  intros Hg. rewrite code_det in Hg.
  assert (Hd : tet_det p0 p1 p2 p3 <> 0).
  { intros Z. apply Hg. rewrite Z. ring. }
  assert (Ed : dotR (subR p3 p0) (crossR (subR p1 p0) (subR p2 p0)) = tet_det p0 p1 p2 p3).
  { r3 p0; r3 p1; r3 p2; r3 p3. unfold tet_det. unfv. ring. }
  rewrite Ed. rewrite signK_R by assumption.
  unfold tet_volume, tet_grad. rewrite (dot_vdivs X _ _ Hd).
  set (A := Rabs (tet_det p0 p1 p2 p3)). assert (HA : 0 < A) by (apply Rabs_pos_lt; assumption).
  assert (Hnum : f a * dotR (crossR (subR p2 p1) (subR p3 p1)) X + f b * dotR (crossR (subR p3 p0) (subR p2 p0)) X
                 + f c * dotR (crossR (subR p1 p0) (subR p3 p0)) X + f d * dotR (crossR (subR p2 p0) (subR p1 p0)) X
                 = - dotR X (tet_gradnum p0 p1 p2 p3 (f a) (f b) (f c) (f d))).
  { r3 p0; r3 p1; r3 p2; r3 p3; r3 X. unfold tet_gradnum. unfv. ring. }
  cbn [opp mul Rops].
  transitivity (- (1 / 6 * (- (tet_det p0 p1 p2 p3 / A)
                  * (f a * dotR (crossR (subR p2 p1) (subR p3 p1)) X + f b * dotR (crossR (subR p3 p0) (subR p2 p0)) X
                     + f c * dotR (crossR (subR p1 p0) (subR p3 p0)) X + f d * dotR (crossR (subR p2 p0) (subR p1 p0)) X)))); [ring|].
  rewrite Hnum.
  assert (HAA : A * A = tet_det p0 p1 p2 p3 * tet_det p0 p1 p2 p3).
  { unfold A. rewrite <- Rabs_mult. apply Rabs_pos_eq. nra. }
  generalize (dotR X (tet_gradnum p0 p1 p2 p3 (f a) (f b) (f c) (f d))). intros Q.
  (* -(1/6)( -(D/A)(-Q)) = -(A/6)(Q/D)  <=>  D/A = A/D  <=>  D^2 = A^2 *)
  apply (Rmult_eq_reg_r (A * tet_det p0 p1 p2 p3)); [|nra].
  transitivity (- (1 / 6) * Q * (tet_det p0 p1 p2 p3 * tet_det p0 p1 p2 p3)); [field; lra|].
  rewrite <- HAA. field. exact Hd.
Qed.

(* ------------------------------------------------------------------ corollaries *)
Lemma tri_grad_const p0 p1 p2 c : tri_NN p0 p1 p2 <> 0 -> tri_grad p0 p1 p2 c c c = (0, 0, 0).
Proof.
  intros H. r3 p0; r3 p1; r3 p2. revert H. unfold tri_grad, tri_gradnum, tri_NN, tri_N. unfv. intros H.
  f_equal; [f_equal|]; field; exact H.
Qed.

Lemma guard_off_NN v a b c : tri_guard_off v (a, b, c) ->
  let '(p0, p1, p2) := tri_pts Rops v (a, b, c) in 0 < tri_NN p0 p1 p2.
Proof.
  unfold tri_guard_off, tri_edges, tri_pts. generalize (getv Rops v a) (getv Rops v b) (getv Rops v c). intros p0 p1 p2.
  rewrite code_normal_is_tri_N. intros Hg.
  unfold norm, norm2 in Hg. cbn [sqrtK Rops] in Hg. fold (tri_NN p0 p1 p2) in Hg.
  destruct (Rle_lt_or_eq_dec _ _ (tri_NN_nonneg p0 p1 p2)) as [Hp|Hz]; [exact Hp|].
  exfalso. rewrite <- Hz, sqrt_0 in Hg. lra.
Qed.

(* the entries of div(X) sum to zero *)
Theorem tria_divergence_sums_to_zero v ts (X : list V3) : Forall (tri_guard_off v) ts ->
  Rsum (fun k => nth k (tria_compute_divergence Rops v ts X) 0) (iota (div_len (tri_flat ts))) = 0.
Proof.
  intros Hg. assert (A := tria_divergence_adjoint v ts (fun _ => 1) X Hg).
  rewrite (Rsum_ext _ (fun k => 1 * nth k (tria_compute_divergence Rops v ts X) 0)) by (intros; ring).
  rewrite A. rewrite (Rsum_zero (tria_pairing_rhs v (fun _ => 1))); [ring|].
  intros [[[a b] c] x] Hin. apply in_combine_l in Hin. rewrite Forall_forall in Hg. specialize (Hg _ Hin).
  assert (N := guard_off_NN v a b c Hg). unfold tria_pairing_rhs. destruct (tri_pts Rops v (a, b, c)) as [[p0 p1] p2].
  rewrite tri_grad_const by lra. r3 x. unfv. ring.
Qed.

(* div(grad g) = - A g, tested against every f *)
Theorem tria_div_grad_is_minus_A v ts (f g : nat -> R) :
  Forall (tri_guard_off v) ts -> tria_nondeg v ts ->
  Rsum (fun k => f k * nth k (tria_compute_divergence Rops v ts (map (tria_grad1 Rops v g) ts)) 0) (iota (div_len (tri_flat ts)))
  = - bil f (fem_tria_A Rops v ts) g.
Proof.
  intros Hg Hn. rewrite tria_divergence_adjoint by assumption. f_equal.
  rewrite fem_tria_A_energy by assumption.
  assert (C : combine ts (map (tria_grad1 Rops v g) ts) = map (fun t => (t, tria_grad1 Rops v g t)) ts).
  { clear. induction ts as [|t l IH]; [reflexivity|]. cbn [map combine]. rewrite IH. reflexivity. }
  rewrite C, Rsum_map. apply Rsum_ext. intros [[a b] c] Hin.
  rewrite Forall_forall in Hg. specialize (Hg _ Hin).
  assert (S := tria_grad1_is_spec v g a b c Hg).
  unfold tria_pairing_rhs, tria_energy. destruct (tri_pts Rops v (a, b, c)) as [[p0 p1] p2]. rewrite S.
  generalize (tri_grad p0 p1 p2 (g a) (g b) (g c)) (tri_grad p0 p1 p2 (f a) (f b) (f c)). intros x y. r3 x; r3 y. unfv. ring.
Qed.
