(* Proofs/InvarianceP.v -- the FEM matrices depend on the vertices only through edge Gram data: invariance under
   rigid motions and reflections, scaling laws (C04, also used by C07/C13). *)
From Coq Require Import List Arith Bool PeanoNat Lia Reals Lra Nsatz.
From LaPyV Require Import Base.Scalar Base.Vec3 Base.ListAux Base.Sparse Model.TetMesh Model.TriaAdj Model.Fem
  Proofs.SparseP Proofs.TetMeshP Proofs.FemTriaP Proofs.FemTetP.
Import ListNotations.
Open Scope R_scope.

(* an orthogonal matrix given by its rows; orthogonality as Q^T Q = I (columns orthonormal), so reflections are included *)
Definition mat3 := (V3 * V3 * V3)%type.
Definition mapply (Q : mat3) (p : V3) : V3 := let '(r1, r2, r3) := Q in (dotR r1 p, dotR r2 p, dotR r3 p).
Definition orthogonal (Q : mat3) : Prop :=
  let '(r1, r2, r3) := Q in
  vx r1 * vx r1 + vx r2 * vx r2 + vx r3 * vx r3 = 1 /\ vy r1 * vy r1 + vy r2 * vy r2 + vy r3 * vy r3 = 1 /\
  vz r1 * vz r1 + vz r2 * vz r2 + vz r3 * vz r3 = 1 /\ vx r1 * vy r1 + vx r2 * vy r2 + vx r3 * vy r3 = 0 /\
  vx r1 * vz r1 + vx r2 * vz r2 + vx r3 * vz r3 = 0 /\ vy r1 * vz r1 + vy r2 * vz r2 + vy r3 * vz r3 = 0.
Definition rigid (Q : mat3) (b : V3) (p : V3) : V3 := vadd Rops (mapply Q p) b.

Lemma rigid_sub Q b p q : subR (rigid Q b p) (rigid Q b q) = mapply Q (subR p q).
Proof. destruct Q as [[r1 r2] r3]. r3 r1; r3 r2; r3 r3; r3 b; r3 p; r3 q. unfold rigid, mapply, dot, vsub, vadd, vx, vy, vz. cbn [fst snd add sub mul Rops]. f_equal; [f_equal|]; ring. Qed.

Lemma orth_dot Q a b : orthogonal Q -> dotR (mapply Q a) (mapply Q b) = dotR a b.
Proof.
  destruct Q as [[r1 r2] r3]. r3 r1; r3 r2; r3 r3; r3 a; r3 b.
  unfold orthogonal, mapply, dot, vx, vy, vz. cbn [fst snd add mul Rops]. intros (H1 & H2 & H3 & H4 & H5 & H6). nsatz.
Qed.

(* Lagrange: |a x b|^2 is a function of the Gram data *)
Lemma lagrange a b : dotR (crossR a b) (crossR a b) = dotR a a * dotR b b - dotR a b * dotR a b.
Proof. r3 a; r3 b. unfold dot, cross, vx, vy, vz. cbn [fst snd add sub mul Rops]. ring. Qed.

Lemma orth_cross_norm2 Q a b : orthogonal Q ->
  dotR (crossR (mapply Q a) (mapply Q b)) (crossR (mapply Q a) (mapply Q b)) = dotR (crossR a b) (crossR a b).
Proof. intros H. rewrite !lagrange, !orth_dot by assumption. reflexivity. Qed.

Definition tris_in_range (n : nat) (ts : list tri) : Prop := Forall (fun '(a, b, c) => (a < n /\ b < n /\ c < n)%nat) ts.

Lemma getv_map (f : V3 -> V3) v i : (i < length v)%nat -> getv Rops (map f v) i = f (getv Rops v i).
Proof. intros H. unfold getv. rewrite (nth_indep _ (zero3 Rops) (f (zero3 Rops))) by (rewrite map_length; exact H). apply map_nth. Qed.

Section Rigid.
  Context (Q : mat3) (b : V3) (HQ : orthogonal Q).
  Notation mv_ := (map (rigid Q b)).

  Lemma tri_pts_rigid v a b0 c : (a < length v /\ b0 < length v /\ c < length v)%nat ->
    tri_pts Rops (mv_ v) (a, b0, c) = (rigid Q b (getv Rops v a), rigid Q b (getv Rops v b0), rigid Q b (getv Rops v c)).
  Proof. intros (Ha & Hb & Hc). unfold tri_pts. rewrite !getv_map by assumption. reflexivity. Qed.

  Lemma tria_vol4_raw_rigid v t : (let '(a, b0, c) := t in (a < length v /\ b0 < length v /\ c < length v)%nat) ->
    tria_vol4_raw Rops (mv_ v) t = tria_vol4_raw Rops v t.
  Proof.
    destruct t as [[a b0] c]. intros H. unfold tria_vol4_raw. rewrite tri_pts_rigid by assumption. unfold tri_pts.
    rewrite !rigid_sub, orth_cross_norm2 by assumption. reflexivity.
  Qed.
  Lemma tria_area_raw_rigid v t : (let '(a, b0, c) := t in (a < length v /\ b0 < length v /\ c < length v)%nat) ->
    tria_area_raw Rops (mv_ v) t = tria_area_raw Rops v t.
  Proof.
    destruct t as [[a b0] c]. intros H. unfold tria_area_raw. rewrite tri_pts_rigid by assumption. unfold tri_pts.
    rewrite !rigid_sub, orth_cross_norm2 by assumption. reflexivity.
  Qed.
  Lemma tria_cots_rigid v t vol : (let '(a, b0, c) := t in (a < length v /\ b0 < length v /\ c < length v)%nat) ->
    tria_cots Rops (mv_ v) t vol = tria_cots Rops v t vol.
  Proof.
    destruct t as [[a b0] c]. intros H. unfold tria_cots. rewrite tri_pts_rigid by assumption. unfold tri_pts.
    rewrite !rigid_sub, !orth_dot by assumption. reflexivity.
  Qed.

  Lemma tria_vols4_rigid v ts : tris_in_range (length v) ts -> tria_vols4 Rops (mv_ v) ts = tria_vols4 Rops v ts.
  Proof.
    intros H. unfold tria_vols4.
    assert (E : map (tria_vol4_raw Rops (mv_ v)) ts = map (tria_vol4_raw Rops v) ts).
    { apply map_ext_in. intros t Ht. unfold tris_in_range in H. rewrite Forall_forall in H. apply tria_vol4_raw_rigid.
      specialize (H t Ht). destruct t as [[a b0] c]. exact H. }
    rewrite E. reflexivity.
  Qed.

  Lemma flat_map_ext_in {X Y} (f g : X -> list Y) l : (forall x, In x l -> f x = g x) -> flat_map f l = flat_map g l.
  Proof. induction l as [|x l IH]; intros H; [reflexivity|]. cbn [flat_map]. rewrite H by (left; reflexivity). rewrite IH; [reflexivity|]. intros; apply H; right; assumption. Qed.

  (* C04: the stiffness and mass matrices of a rigidly moved / reflected triangle mesh are the SAME triplet lists *)
  Theorem fem_tria_A_rigid v ts : tris_in_range (length v) ts -> fem_tria_A Rops (mv_ v) ts = fem_tria_A Rops v ts.
  Proof.
    intros H. unfold fem_tria_A. rewrite tria_vols4_rigid by assumption. apply flat_map_ext_in.
    intros [t vol] Hin. apply in_combine_l in Hin. unfold tris_in_range in H. rewrite Forall_forall in H. specialize (H t Hin).
    rewrite tria_cots_rigid; [reflexivity|]. destruct t as [[a b0] c]. exact H.
  Qed.
  Theorem fem_tria_B_rigid lump v ts : tris_in_range (length v) ts -> fem_tria_B Rops lump (mv_ v) ts = fem_tria_B Rops lump v ts.
  Proof. intros H. unfold fem_tria_B. rewrite tria_vols4_rigid by assumption. reflexivity. Qed.
End Rigid.

(* ---- scaling *)
Definition vscaleR (s : R) (p : V3) : V3 := vscale Rops s p.
Lemma scale_sub s p q : subR (vscaleR s p) (vscaleR s q) = vscaleR s (subR p q).
Proof. r3 p; r3 q. unfold vscaleR, vscale, vsub, vx, vy, vz. cbn [fst snd sub mul Rops]. f_equal; [f_equal|]; ring. Qed.
Lemma scale_dot s a b : dotR (vscaleR s a) (vscaleR s b) = s * s * dotR a b.
Proof. r3 a; r3 b. unfold vscaleR, vscale, dot, vx, vy, vz. cbn [fst snd add mul Rops]. ring. Qed.
Lemma scale_cross_norm2 s a b :
  dotR (crossR (vscaleR s a) (vscaleR s b)) (crossR (vscaleR s a) (vscaleR s b)) = (s * s) * (s * s) * dotR (crossR a b) (crossR a b).
Proof. rewrite !lagrange, !scale_dot. ring. Qed.

Lemma tria_vol4_raw_scale s v a b c : (a < length v /\ b < length v /\ c < length v)%nat ->
  tria_vol4_raw Rops (map (vscaleR s) v) (a, b, c) = s * s * tria_vol4_raw Rops v (a, b, c).
Proof.
  intros (Ha & Hb & Hc). unfold tria_vol4_raw, tri_pts. rewrite !getv_map by assumption. rewrite !scale_sub, scale_cross_norm2.
  cbn [two one add mul sqrtK Rops].
  set (NN := dotR _ _).
  assert (HN : 0 <= NN) by (unfold NN; generalize (crossR (subR (getv Rops v c) (getv Rops v b)) (subR (getv Rops v a) (getv Rops v c))); intros n; r3 n; unfold dot, vx, vy, vz; cbn; nra).
  rewrite sqrt_mult by nra. rewrite sqrt_square by nra. ring.
Qed.

(* scaling by s leaves the cotangent entries unchanged and multiplies the mass entries by s^2 (non-degenerate meshes) *)
Theorem tria_cots_scale s v a b c vol : s <> 0 -> vol <> 0 -> (a < length v /\ b < length v /\ c < length v)%nat ->
  tria_cots Rops (map (vscaleR s) v) (a, b, c) (s * s * vol) = tria_cots Rops v (a, b, c) vol.
Proof.
  intros Hs Hv (Ha & Hb & Hc). unfold tria_cots, tri_pts. rewrite !getv_map by assumption. rewrite !scale_sub, !scale_dot.
  cbn [div Rops]. f_equal; [f_equal|]; field; split; assumption.
Qed.

(* hence A x = lambda B x  <->  A_s x = (lambda / s^2) B_s x : eigenvalues scale as 1/s^2 (algebraic core) *)
Theorem scaled_pencil_eigenvalue (Ax Bx lam s : R) : s <> 0 -> (Ax = lam * Bx <-> Ax = (lam / (s * s)) * (s * s * Bx)).
Proof. intros Hs. split; intros H; rewrite H; field; exact Hs. Qed.
