(* Proofs/HeatAddP.v -- heat diffusion is additive over seed sets (C07): the system matrix is positive definite, so the solution
   for the sum of two right-hand sides is the sum of the solutions, whatever solver produced them. *)
From Coq Require Import List Arith Reals Lra.
From LaPyV Require Import Base.Scalar Base.Vec3 Base.ListAux Base.Sparse Model.TetMesh Model.TriaAdj Model.Fem Model.Poisson Model.Heat
  Proofs.SparseP Proofs.FemTriaP Proofs.PoissonP Proofs.HeatP.
Import ListNotations.
Open Scope R_scope.

Theorem tria_heat_additive v ts t n (u1 u2 u12 b1 b2 : nat -> R) : tria_nondeg v ts -> 0 <= t ->
  let H := heat_matrix Rops t (fem_tria_A Rops v ts) (fem_tria_B Rops true v ts) in
  in_range n H ->
  (forall k, (k < n)%nat -> mv H u1 k = b1 k) -> (forall k, (k < n)%nat -> mv H u2 k = b2 k) ->
  (forall k, (k < n)%nat -> mv H u12 k = b1 k + b2 k) ->
  forall a b c, In (a, b, c) ts -> u12 a = u1 a + u2 a /\ u12 b = u1 b + u2 b /\ u12 c = u1 c + u2 c.
Proof.
  intros Hn Ht H Hr H1 H2 H12 a b c Hin.
  apply (tria_heat_solution_unique v ts t n u12 (fun k => u1 k + u2 k) (fun k => b1 k + b2 k) Hn Ht Hr H12); [|exact Hin].
  intros k Hk. fold H. rewrite mv_plus, H1, H2 by exact Hk. reflexivity.
Qed.
