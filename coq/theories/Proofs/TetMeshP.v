(* Proofs/TetMeshP.v -- theorems about Model/TetMesh.v at exact real arithmetic (C12). *)
From Coq Require Import List Arith Bool PeanoNat Permutation Sorted Lia Reals Lra.
From LaPyV Require Import Base.Scalar Base.Vec3 Base.ListAux Model.TetMesh Proofs.SortP.
Import ListNotations.
Open Scope R_scope.

Lemma Rltb_true a b : Rltb a b = true <-> a < b.
Proof. unfold Rltb. destruct (Rlt_dec a b); split; intros; try assumption; try reflexivity; try discriminate; contradiction. Qed.
Lemma Rltb_false a b : Rltb a b = false <-> ~ a < b.
Proof. unfold Rltb. destruct (Rlt_dec a b); split; intros; try assumption; try reflexivity; try discriminate; contradiction. Qed.
Lemma Rleb_true a b : Rleb a b = true <-> a <= b.
Proof. unfold Rleb. destruct (Rle_dec a b); split; intros; try assumption; try reflexivity; try discriminate; contradiction. Qed.
Lemma Reqb_true a b : Reqb a b = true <-> a = b.
Proof. unfold Reqb. destruct (Req_EM_T a b); split; intros; try assumption; try reflexivity; try discriminate; contradiction. Qed.

Ltac r3 p := let x := fresh "x" in let y := fresh "y" in let z := fresh "z" in destruct p as [[x y] z].

Lemma vol6_swap v a b c d : tet_vol6 Rops v (a, c, b, d) = - tet_vol6 Rops v (a, b, c, d).
Proof.
  unfold tet_vol6.
  generalize (getv Rops v a) (getv Rops v b) (getv Rops v c) (getv Rops v d). intros p0 p1 p2 p3.
  r3 p0; r3 p1; r3 p2; r3 p3. unfold dot, cross, vsub, vx, vy, vz. cbn. ring.
Qed.

Lemma vol6_swap12 v t : tet_vol6 Rops v (tet_swap12 t) = - tet_vol6 Rops v t.
Proof. destruct t as [[[a b] c] d]. apply vol6_swap. Qed.

(* ---- is_oriented  <->  every signed volume is positive (on a non-empty mesh) *)
Theorem tet_is_oriented_iff v ts :
  tet_is_oriented Rops v ts = true <-> ts <> [] /\ Forall (fun t => 0 < tet_vol6 Rops v t) ts.
Proof.
  unfold tet_is_oriented. cbn [ltb zero Rops].
  destruct (forallb (fun x => Rltb x 0) (map (tet_vol6 Rops v) ts)) eqn:E1.
  - split; [discriminate|]. intros [Hne Hall]. exfalso.
    destruct ts as [|t tl]; [apply Hne; reflexivity|].
    cbn in E1. apply andb_true_iff in E1. destruct E1 as [E1 _]. apply Rltb_true in E1.
    inversion Hall; subst. lra.
  - assert (Hne : ts <> []) by (intros ->; cbn in E1; discriminate).
    destruct (forallb (fun x => Rltb 0 x) (map (tet_vol6 Rops v) ts)) eqn:E2.
    + split; [intros _|reflexivity]. split; [assumption|].
      rewrite forallb_forall in E2. apply Forall_forall. intros t Ht.
      apply Rltb_true. apply E2. apply in_map. assumption.
    + split; [discriminate|]. intros [_ Hall]. exfalso.
      assert (forallb (fun x => Rltb 0 x) (map (tet_vol6 Rops v) ts) = true); [|congruence].
      apply forallb_forall. intros x Hx. apply in_map_iff in Hx. destruct Hx as (t & <- & Ht).
      apply Rltb_true. rewrite Forall_forall in Hall. apply Hall. assumption.
Qed.

(* ---- orient_ *)
Definition tet_verts (t : tet) : list nat := let '(a, b, c, d) := t in [a; b; c; d].

Lemma swap12_verts t : Permutation (tet_verts (tet_swap12 t)) (tet_verts t).
Proof. destruct t as [[[a b] c] d]. cbn. apply perm_skip. apply perm_swap. Qed.

Theorem tet_orient_pointwise v ts :
  length (fst (tet_orient Rops v ts)) = length ts /\
  snd (tet_orient Rops v ts) = count_if (tet_neg Rops v) ts /\
  forall i t, nth_error ts i = Some t ->
    nth_error (fst (tet_orient Rops v ts)) i =
      Some (if Rltb (tet_vol6 Rops v t) 0 then tet_swap12 t else t).
Proof.
  unfold tet_orient. cbn [fst snd]. split; [apply map_length|]. split; [reflexivity|].
  intros i t H. rewrite nth_error_map, H. reflexivity.
Qed.

Theorem tet_orient_sets v ts :
  Forall2 (fun t t' => Permutation (tet_verts t') (tet_verts t)) ts (fst (tet_orient Rops v ts)).
Proof.
  unfold tet_orient. cbn [fst]. induction ts as [|t tl IH]; cbn [map]; constructor; [|assumption].
  destruct (tet_neg Rops v t); [apply swap12_verts|reflexivity].
Qed.

Theorem tet_orient_changes_exactly_negative v ts i t :
  nth_error ts i = Some t ->
  (tet_vol6 Rops v t < 0 -> nth_error (fst (tet_orient Rops v ts)) i = Some (tet_swap12 t)) /\
  (~ tet_vol6 Rops v t < 0 -> nth_error (fst (tet_orient Rops v ts)) i = Some t).
Proof.
  intros H. destruct (tet_orient_pointwise v ts) as (_ & _ & Hp). rewrite (Hp i t H).
  split; intros Hv.
  - apply Rltb_true in Hv. rewrite Hv. reflexivity.
  - apply Rltb_false in Hv. rewrite Hv. reflexivity.
Qed.

Theorem tet_orient_result_oriented v ts :
  ts <> [] -> Forall (fun t => tet_vol6 Rops v t <> 0) ts ->
  tet_is_oriented Rops v (fst (tet_orient Rops v ts)) = true.
Proof.
  intros Hne Hnz. apply tet_is_oriented_iff. unfold tet_orient. cbn [fst]. split.
  - destruct ts; [contradiction|discriminate].
  - apply Forall_forall. intros t' Ht'. apply in_map_iff in Ht'. destruct Ht' as (t & <- & Ht).
    rewrite Forall_forall in Hnz. specialize (Hnz t Ht).
    unfold tet_neg. cbn [ltb zero Rops]. destruct (Rltb (tet_vol6 Rops v t) 0) eqn:E.
    + apply Rltb_true in E. rewrite vol6_swap12. lra.
    + apply Rltb_false in E. lra.
Qed.

Theorem tet_orient_count v ts :
  snd (tet_orient Rops v ts) = length (filter (fun t => Rltb (tet_vol6 Rops v t) 0) ts).
Proof. reflexivity. Qed.

(* ---- boundary_tria *)
Definition facekey_count (k : tri) (F : list tri) : nat :=
  length (filter (fun g => tri_eqb (sort3 g) k) F).

Lemma enumerate_in {A} (l : list A) i x : In (i, x) (enumerate l) <-> nth_error l i = Some x.
Proof.
  unfold enumerate, iota.
  assert (G : forall s (l : list A) i x, In (i, x) (combine (iota_from s (length l)) l) <-> (s <= i)%nat /\ nth_error l (i - s) = Some x).
  { clear. intros s l. revert s. induction l as [|y tl IH]; intros s i x; cbn [length iota_from combine].
    - split; [intros []|]. intros [_ H]. destruct (i - s)%nat; discriminate.
    - cbn [In]. rewrite IH. split.
      + intros [H|[H1 H2]].
        * inversion H; subst. split; [lia|]. rewrite Nat.sub_diag. reflexivity.
        * split; [lia|]. replace (i - s)%nat with (S (i - S s)) by lia. exact H2.
      + intros [H1 H2]. destruct (Nat.eq_dec s i) as [->|Hn].
        * rewrite Nat.sub_diag in H2. cbn in H2. inversion H2; subst. left; reflexivity.
        * right. split; [lia|]. replace (i - s)%nat with (S (i - S s)) in H2 by lia. exact H2. }
  rewrite G. rewrite Nat.sub_0_r. split; [intros [_ H]; exact H|intros H; split; [lia|exact H]].
Qed.

Lemma keycount_keyed F k :
  keycount tri_eqb k (map (fun '(i, f) => (sort3 f, i)) (enumerate F)) = facekey_count k F.
Proof.
  unfold keycount, facekey_count, enumerate, iota. generalize 0%nat.
  induction F as [|f tl IH]; intros s; cbn [length iota_from combine map filter fst]; [reflexivity|].
  destruct (tri_eqb (sort3 f) k); cbn [length]; rewrite IH; reflexivity.
Qed.

Lemma keycount_perm {A} (eqA : A -> A -> bool) k l l' :
  Permutation l l' -> keycount eqA k l = keycount eqA k l'.
Proof.
  intros P. unfold keycount. induction P; cbn [filter].
  - reflexivity.
  - destruct (eqA (fst x) k); cbn [length]; rewrite IHP; reflexivity.
  - destruct (eqA (fst y) k), (eqA (fst x) k); reflexivity.
  - congruence.
Qed.

(* boundary_tria returns exactly the faces whose vertex set occurs once among all
   4T faces, each once *)
Theorem tet_boundary_spec ts f :
  In f (tet_boundary_tria ts) <->
  In f (all_faces ts) /\ facekey_count (sort3 f) (all_faces ts) = 1%nat.
Proof.
  unfold tet_boundary_tria, boundary_face_idx, face_groups.
  set (F := all_faces ts).
  set (KF := keyed_faces ts).
  set (S := sort_by (fun a b : tri * nat => tri_leb (fst a) (fst b)) KF).
  assert (PS : Permutation S KF).
  { apply sort_by_perm. }
  assert (SS : StronglySorted (fun p q : tri * nat => tri_leb (fst p) (fst q) = true) S).
  { apply sort_by_sorted; intros; [apply tri_leb_total|eapply tri_leb_trans; eassumption]. }
  destruct (group_sorted_spec tri_eqb tri_leb tri_eqb_spec tri_leb_antisym S SS) as (ND & Ga & Gb).
  assert (KFin : forall k i, In (k, i) KF <-> exists g, nth_error F i = Some g /\ k = sort3 g).
  { intros k i. unfold KF, keyed_faces. fold F. rewrite in_map_iff. split.
    - intros ([i' g] & Heq & Hin). inversion Heq; subst. apply enumerate_in in Hin. eauto.
    - intros (g & Hn & ->). exists (i, g). split; [reflexivity|]. apply enumerate_in. assumption. }
  assert (KC : forall k, keycount tri_eqb k S = facekey_count k F).
  { intros k. rewrite (keycount_perm tri_eqb k S KF PS). apply keycount_keyed. }
  split.
  - intros Hin. apply in_map_iff in Hin. destruct Hin as (i & Hnth & Hi).
    apply in_map_iff in Hi. destruct Hi as ([[k i'] c] & Hfst & Hg). cbn in Hfst. subst i'.
    apply filter_In in Hg. destruct Hg as [Hg Hc]. cbn in Hc. apply Nat.eqb_eq in Hc. subst c.
    destruct (Ga k i 1%nat Hg) as (Hcount & HinS).
    apply (Permutation_in _ PS) in HinS. apply KFin in HinS. destruct HinS as (g & Hn & ->).
    rewrite (nth_error_nth _ _ _ Hn) in Hnth. subst g.
    split; [eapply nth_error_In; eassumption|]. rewrite <- KC. symmetry. assumption.
  - intros [HinF Hc]. apply In_nth_error in HinF. destruct HinF as (i & Hn).
    assert (HinKF : In (sort3 f, i) KF) by (apply KFin; eauto).
    apply (Permutation_in _ (Permutation_sym PS)) in HinKF.
    destruct (Gb _ _ HinKF) as (i' & c & Hg).
    destruct (Ga _ _ _ Hg) as (Hcnt & HinS').
    rewrite KC, Hc in Hcnt. subst c.
    (* i' = i because the key occurs once *)
    apply (Permutation_in _ PS) in HinS'. apply KFin in HinS'. destruct HinS' as (g & Hn' & Hk).
    assert (i' = i).
    { (* two positions with the same key would give count >= 2 *)
      destruct (Nat.eq_dec i' i) as [E|E]; [assumption|exfalso].
      clear - Hn Hn' Hk Hc E. unfold facekey_count in Hc.
      revert i i' Hn Hn' E Hc. induction F as [|h tl IH]; intros i i' Hn Hn' E Hc; [destruct i; discriminate|].
      cbn [filter] in Hc. destruct i as [|i], i' as [|i']; cbn in Hn, Hn'.
      - contradiction.
      - inversion Hn; subst h. rewrite (proj2 (tri_eqb_spec _ _) eq_refl) in Hc. cbn in Hc.
        apply nth_error_In in Hn'.
        assert (length (filter (fun g0 => tri_eqb (sort3 g0) (sort3 f)) tl) >= 1)%nat; [|lia].
        clear - Hn' Hk. induction tl as [|h tl IH]; [destruct Hn'|]. cbn [filter]. destruct Hn' as [->|H].
        + rewrite <- Hk. rewrite (proj2 (tri_eqb_spec _ _) eq_refl). cbn. lia.
        + destruct (tri_eqb (sort3 h) (sort3 f)); cbn [length]; [lia|apply IH; assumption].
      - inversion Hn'; subst h. rewrite <- Hk in Hc. rewrite (proj2 (tri_eqb_spec _ _) eq_refl) in Hc. cbn in Hc.
        apply nth_error_In in Hn.
        assert (length (filter (fun g0 => tri_eqb (sort3 g0) (sort3 f)) tl) >= 1)%nat; [|lia].
        clear - Hn. induction tl as [|h tl IH]; [destruct Hn|]. cbn [filter]. destruct Hn as [->|H].
        + rewrite (proj2 (tri_eqb_spec _ _) eq_refl). cbn. lia.
        + destruct (tri_eqb (sort3 h) (sort3 f)); cbn [length]; [lia|apply IH; assumption].
      - destruct (tri_eqb (sort3 h) (sort3 f)); cbn [length] in Hc.
        + exfalso. apply nth_error_In in Hn.
          assert (length (filter (fun g0 => tri_eqb (sort3 g0) (sort3 f)) tl) >= 1)%nat; [|lia].
          clear - Hn. induction tl as [|h tl IH]; [destruct Hn|]. cbn [filter]. destruct Hn as [->|H].
          * rewrite (proj2 (tri_eqb_spec _ _) eq_refl). cbn. lia.
          * destruct (tri_eqb (sort3 h) (sort3 f)); cbn [length]; [lia|apply IH; assumption].
        + apply (IH i i'); try assumption. intros ->. apply E. reflexivity. }
    subst i'.
    apply in_map_iff. exists i. split; [apply nth_error_nth; assumption|].
    apply in_map_iff. exists (sort3 f, i, 1%nat). split; [reflexivity|].
    apply filter_In. split; [assumption|reflexivity].
Qed.

Theorem tet_boundary_each_once ts : NoDup (map sort3 (tet_boundary_tria ts)).
Proof.
  unfold tet_boundary_tria, boundary_face_idx, face_groups.
  set (F := all_faces ts).
  match goal with |- context [group_sorted tri_eqb ?s] => set (S := s) end.
  assert (PS : Permutation S (keyed_faces ts)) by apply sort_by_perm.
  assert (SS : StronglySorted (fun p q : tri * nat => tri_leb (fst p) (fst q) = true) S).
  { apply sort_by_sorted; intros; [apply tri_leb_total|eapply tri_leb_trans; eassumption]. }
  destruct (group_sorted_spec tri_eqb tri_leb tri_eqb_spec tri_leb_antisym S SS) as (ND & Ga & _).
  (* the key of the face at the recorded index is the group key *)
  assert (E : map sort3 (map (fun i => nth i F (0, 0, 0)%nat)
                (map (fun g : tri * nat * nat => snd (fst g)) (filter (fun g => Nat.eqb (snd g) 1) (group_sorted tri_eqb S))))
            = map (fun g : tri * nat * nat => fst (fst g)) (filter (fun g => Nat.eqb (snd g) 1) (group_sorted tri_eqb S))).
  { rewrite !map_map. apply map_ext_in. intros [[k i] c] Hin. cbn [fst snd].
    apply filter_In in Hin. destruct Hin as [Hin _].
    destruct (Ga k i c Hin) as (_ & HinS). apply (Permutation_in _ PS) in HinS.
    unfold keyed_faces in HinS. apply in_map_iff in HinS. destruct HinS as ([i' g] & Heq & Hen).
    inversion Heq; subst. apply enumerate_in in Hen. fold F in Hen. rewrite (nth_error_nth _ _ _ Hen). reflexivity. }
  refine (eq_ind_r (@NoDup _) _ E).
  clear E. revert ND. generalize (group_sorted tri_eqb S). intros G ND.
  induction G as [|g tl IH]; cbn [filter map]; [constructor|].
  inversion ND as [|? ? Hnot ND']; subst.
  destruct (Nat.eqb (snd g) 1); [|apply IH; assumption].
  cbn [map]. constructor; [|apply IH; assumption].
  intros Hin. apply Hnot. apply in_map_iff in Hin. destruct Hin as (x & Hx & Hin).
  apply filter_In in Hin. apply in_map_iff. exists x. split; [assumption|apply Hin].
Qed.

(* the owner handed to boundary face k is a tetrahedron that contains it *)
Lemma all_faces_length ts : length (all_faces ts) = (4 * length ts)%nat.
Proof. unfold all_faces. rewrite !app_length, !map_length. lia. Qed.

Definition face_of (t : tet) (f : tri) : Prop := f = face0 t \/ f = face1 t \/ f = face2 t \/ f = face3 t.

Lemma all_faces_nth ts i f : nth_error (all_faces ts) i = Some f ->
  exists t, nth_error ts (i mod length ts) = Some t /\ face_of t f.
Proof.
  intros H. assert (Hlt : (i < 4 * length ts)%nat).
  { rewrite <- all_faces_length. apply nth_error_Some. congruence. }
  set (n := length ts) in *. assert (Hn : (n > 0)%nat) by lia.
  unfold all_faces in H.
  assert (M : forall (g : tet -> tri) j, (j < n)%nat -> forall x, nth_error (map g ts) j = Some x -> exists t, nth_error ts j = Some t /\ x = g t).
  { intros g j Hj x Hx. rewrite nth_error_map in Hx. destruct (nth_error ts j) as [t|]; [|discriminate].
    inversion Hx. eauto. }
  destruct (Nat.lt_ge_cases i n) as [C0|C0].
  - rewrite nth_error_app1 in H by (rewrite map_length; exact C0).
    rewrite Nat.mod_small by assumption. destruct (M face0 i C0 f H) as (t & Ht & ->). exists t. split; [assumption|left; reflexivity].
  - rewrite nth_error_app2 in H by (rewrite map_length; exact C0). rewrite map_length in H. fold n in H.
    destruct (Nat.lt_ge_cases (i - n) n) as [C1|C1].
    + rewrite nth_error_app1 in H by (rewrite map_length; exact C1).
      assert (Em : (i mod n = i - n)%nat).
      { replace i with ((i - n) + 1 * n)%nat at 1 by lia. rewrite Nat.mod_add by lia. apply Nat.mod_small; assumption. }
      rewrite Em. destruct (M face1 _ C1 f H) as (t & Ht & ->). exists t. split; [assumption|right; left; reflexivity].
    + rewrite nth_error_app2 in H by (rewrite map_length; exact C1). rewrite map_length in H. fold n in H.
      destruct (Nat.lt_ge_cases (i - n - n) n) as [C2|C2].
      * rewrite nth_error_app1 in H by (rewrite map_length; exact C2).
        assert (Em : (i mod n = i - n - n)%nat).
        { replace i with ((i - n - n) + 2 * n)%nat at 1 by lia. rewrite Nat.mod_add by lia. apply Nat.mod_small; assumption. }
        rewrite Em. destruct (M face2 _ C2 f H) as (t & Ht & ->). exists t. split; [assumption|right; right; left; reflexivity].
      * rewrite nth_error_app2 in H by (rewrite map_length; exact C2). rewrite map_length in H. fold n in H.
        assert (C3 : (i - n - n - n < n)%nat) by lia.
        assert (Em : (i mod n = i - n - n - n)%nat).
        { replace i with ((i - n - n - n) + 3 * n)%nat at 1 by lia. rewrite Nat.mod_add by lia. apply Nat.mod_small; assumption. }
        rewrite Em. destruct (M face3 _ C3 f H) as (t & Ht & ->). exists t. split; [assumption|right; right; right; reflexivity].
Qed.

Theorem tet_boundary_owner_contains ts :
  Forall2 (fun f k => exists t, nth_error ts k = Some t /\ face_of t f)
          (tet_boundary_tria ts) (tet_boundary_owner ts).
Proof.
  unfold tet_boundary_tria, tet_boundary_owner.
  assert (H : Forall (fun i => (i < length (all_faces ts))%nat) (boundary_face_idx ts)).
  { unfold boundary_face_idx, face_groups.
    set (S := sort_by (fun a b : tri * nat => tri_leb (fst a) (fst b)) (keyed_faces ts)).
    assert (PS : Permutation S (keyed_faces ts)) by apply sort_by_perm.
    assert (SS : StronglySorted (fun p q : tri * nat => tri_leb (fst p) (fst q) = true) S).
    { apply sort_by_sorted; intros; [apply tri_leb_total|eapply tri_leb_trans; eassumption]. }
    destruct (group_sorted_spec tri_eqb tri_leb tri_eqb_spec tri_leb_antisym S SS) as (_ & Ga & _).
    apply Forall_forall. intros i Hi. apply in_map_iff in Hi. destruct Hi as ([[k i'] c] & <- & Hg). cbn [fst snd].
    apply filter_In in Hg. destruct Hg as [Hg _]. destruct (Ga _ _ _ Hg) as (_ & HinS).
    apply (Permutation_in _ PS) in HinS. unfold keyed_faces in HinS. apply in_map_iff in HinS.
    destruct HinS as ([i2 g] & Heq & Hen). inversion Heq; subst. apply enumerate_in in Hen.
    apply nth_error_Some. congruence. }
  induction (boundary_face_idx ts) as [|i tl IH]; cbn [map]; constructor.
  - inversion H; subst. destruct (nth_error (all_faces ts) i) as [f|] eqn:E.
    + rewrite (nth_error_nth _ _ _ E). apply all_faces_nth. assumption.
    + apply nth_error_None in E. lia.
  - apply IH. inversion H; assumption.
Qed.

(* ---- per-tet divergence identity: 6*volume = sum of the four face cones *)
Definition cone6 (v : list (vec3 R)) (f : tri) : R :=
  let '(a, b, c) := f in dot Rops (getv Rops v a) (cross Rops (getv Rops v b) (getv Rops v c)).

Theorem tet_vol6_faces v t :
  tet_vol6 Rops v t = cone6 v (face0 t) + cone6 v (face1 t) + cone6 v (face2 t) + cone6 v (face3 t).
Proof.
  destruct t as [[[a b] c] d]. unfold tet_vol6, cone6, face0, face1, face2, face3.
  generalize (getv Rops v a) (getv Rops v b) (getv Rops v c) (getv Rops v d). intros p0 p1 p2 p3.
  r3 p0; r3 p1; r3 p2; r3 p3. unfold dot, cross, vsub, vx, vy, vz. cbn. ring.
Qed.

(* reversing a face negates its cone; cyclic rotation keeps it *)
Lemma cone6_flip v a b c : cone6 v (b, a, c) = - cone6 v (a, b, c).
Proof.
  unfold cone6. generalize (getv Rops v a) (getv Rops v b) (getv Rops v c). intros p0 p1 p2.
  r3 p0; r3 p1; r3 p2. unfold dot, cross, vx, vy, vz. cbn. ring.
Qed.
Lemma cone6_rot v a b c : cone6 v (b, c, a) = cone6 v (a, b, c).
Proof.
  unfold cone6. generalize (getv Rops v a) (getv Rops v b) (getv Rops v c). intros p0 p1 p2.
  r3 p0; r3 p1; r3 p2. unfold dot, cross, vx, vy, vz. cbn. ring.
Qed.
