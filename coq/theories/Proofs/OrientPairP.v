(* Proofs/OrientPairP.v -- the triangle-neighbour table of orient_: which entries the lexsort / reshape pairing produces (C10). *)
From Coq Require Import List Arith Bool PeanoNat Lia ZArith Permutation Sorted.
From LaPyV Require Import Base.ListAux Model.TetMesh Model.TriaAdj Model.TriaOrient Proofs.SortP Proofs.TriaAdjP Proofs.TriaOrientP.
From LaPyV Require Import Proofs.FloodP.
Import ListNotations.

Notation row := (nat * nat * nat * bool)%type.
Lemma row_eq_dec (x y : row) : {x = y} + {x <> y}.
Proof. repeat decide equality. Qed.

Lemma count_if_perm {A} (p : A -> bool) l l' : Permutation l l' -> count_if p l = count_if p l'.
Proof.
  intros H. induction H as [|x l l' H IH|x y l|l l' l'' H1 IH1 H2 IH2]; [reflexivity| | |congruence].
  - rewrite !count_if_cons, IH. reflexivity.
  - rewrite !count_if_cons. lia.
Qed.
Lemma count_if_filter_sub {A} (p q : A -> bool) l : (forall x, p x = true -> q x = true) -> count_if p (filter q l) = count_if p l.
Proof.
  intros H. induction l as [|x l IH]; [reflexivity|]. cbn [filter]. destruct (q x) eqn:Q.
  - rewrite !count_if_cons, IH. reflexivity.
  - rewrite count_if_cons, IH. destruct (p x) eqn:P; [rewrite H in Q by exact P; discriminate|reflexivity].
Qed.
Lemma count_if_two {A} (p : A -> bool) l x y : NoDup l -> In x l -> In y l -> x <> y -> p x = true -> p y = true -> count_if p l >= 2.
Proof.
  intros Hnd. induction l as [|z l IH]; intros Hx Hy Hne Px Py; [contradiction|].
  inversion Hnd as [|? ? Hz Hnd']; subst. rewrite count_if_cons.
  destruct Hx as [->|Hx], Hy as [->|Hy].
  - congruence.
  - rewrite Px. assert (count_if p l >= 1) by (apply count_if_pos_iff; exists y; auto). lia.
  - rewrite Py. assert (count_if p l >= 1) by (apply count_if_pos_iff; exists x; auto). lia.
  - specialize (IH Hnd' Hx Hy Hne Px Py). lia.
Qed.
Lemma count_if_three {A} (p : A -> bool) l x y z : NoDup l -> In x l -> In y l -> In z l -> x <> y -> x <> z -> y <> z ->
  p x = true -> p y = true -> p z = true -> count_if p l >= 3.
Proof.
  intros Hnd. induction l as [|w l IH]; intros Hx Hy Hz Hxy Hxz Hyz Px Py Pz; [contradiction|].
  inversion Hnd as [|? ? Hw Hnd']; subst. rewrite count_if_cons.
  destruct Hx as [->|Hx], Hy as [->|Hy], Hz as [->|Hz]; try congruence.
  - rewrite Px. assert (count_if p l >= 2) by (apply (count_if_two p l y z); auto). lia.
  - rewrite Py. assert (count_if p l >= 2) by (apply (count_if_two p l x z); auto). lia.
  - rewrite Pz. assert (count_if p l >= 2) by (apply (count_if_two p l x y); auto). lia.
  - specialize (IH Hnd' Hx Hy Hz Hxy Hxz Hyz Px Py Pz). lia.
Qed.

(* ------------------------------------------------------------------ the order used by np.lexsort((col0, col1)) *)
Definition kswap (r : row) : nat * nat := (snd (he_key r), fst (he_key r)).
Lemma lex_le_eq x y : lex_le x y = pair_leb (kswap x) (kswap y).
Proof. unfold lex_le, kswap. destruct (he_key x) as [a b], (he_key y) as [c d]. reflexivity. Qed.
Lemma lex_le_total x y : lex_le x y = true \/ lex_le y x = true.
Proof. rewrite !lex_le_eq. apply pair_leb_total. Qed.
Lemma lex_le_trans x y z : lex_le x y = true -> lex_le y z = true -> lex_le x z = true.
Proof. rewrite !lex_le_eq. apply pair_leb_trans. Qed.
Lemma lex_le_antisym x y : lex_le x y = true -> lex_le y x = true -> he_key x = he_key y.
Proof.
  rewrite !lex_le_eq. intros H1 H2. pose proof (pair_leb_antisym _ _ H1 H2) as E. unfold kswap in E.
  destruct (he_key x) as [a b], (he_key y) as [c d]. cbn [fst snd] in E. congruence.
Qed.

Definition same_key (r r' : row) : bool := pair_eqb (he_key r') (he_key r).
Lemma same_key_iff r r' : same_key r r' = true <-> he_key r' = he_key r.
Proof. unfold same_key. apply pair_eqb_spec. Qed.
Lemma key_count_same rows r : key_count rows (he_key r) = count_if (same_key r) rows.
Proof. reflexivity. Qed.

(* ------------------------------------------------------------------ reshape((-1, 8)): consecutive rows of the sorted table *)
Lemma pair_up_spec : forall m (l : list row), length l <= m ->
  StronglySorted (fun x y => lex_le x y = true) l -> NoDup l -> (forall r, In r l -> count_if (same_key r) l = 2) ->
  (forall x y, In (x, y) (pair_up l) -> In x l /\ In y l /\ x <> y /\ he_key x = he_key y) /\
  (forall r, In r l -> exists x y, In (x, y) (pair_up l) /\ (r = x \/ r = y)).
Proof.
  induction m as [|m IH]; intros l Hm Hs Hnd Hc.
  - destruct l; [|cbn in Hm; lia]. split; [intros x y []|intros r []].
  - destruct l as [|x [|y tl]].
    + split; [intros x y []|intros r []].
    + exfalso. specialize (Hc x (or_introl eq_refl)). rewrite count_if_cons in Hc. unfold count_if in Hc. cbn in Hc. destruct (same_key x x); lia.
    + inversion Hs as [|? ? Hs1 Hall1]; subst. inversion Hs1 as [|? ? Hs2 Hall2]; subst.
      inversion Hnd as [|? ? Hx Hnd1]; subst. inversion Hnd1 as [|? ? Hy Hnd2]; subst.
      rewrite Forall_forall in Hall1, Hall2.
      assert (Sxx : same_key x x = true) by (apply same_key_iff; reflexivity).
      (* the second row with x's key is y *)
      assert (Kxy : he_key y = he_key x).
      { pose proof (Hc x (or_introl eq_refl)) as C. rewrite count_if_cons, Sxx in C.
        assert (C1 : count_if (same_key x) (y :: tl) >= 1) by lia. apply count_if_pos_iff in C1.
        destruct C1 as (z & Hz & Sz). apply same_key_iff in Sz.
        assert (Lxy : lex_le x y = true) by (apply Hall1; left; reflexivity).
        destruct Hz as [<-|Hz]; [exact Sz|].
        assert (Lyz : lex_le y z = true) by (apply Hall2; exact Hz).
        assert (Lzx : lex_le z x = true).
        { assert (Ez : kswap z = kswap x) by (unfold kswap; rewrite Sz; reflexivity). rewrite lex_le_eq, Ez, <- lex_le_eq. destruct (lex_le_total x x); assumption. }
        apply lex_le_antisym; [|exact Lxy]. apply (lex_le_trans y z x); assumption. }
      assert (Sxy : same_key x y = true) by (apply same_key_iff; exact Kxy).
      assert (Htl : forall r, In r tl -> same_key x r = false /\ same_key r x = false /\ same_key r y = false).
      { intros r Hr. pose proof (Hc x (or_introl eq_refl)) as C. rewrite !count_if_cons, Sxx, Sxy in C.
        assert (E : same_key x r = false).
        { destruct (same_key x r) eqn:E; [|reflexivity]. assert (count_if (same_key x) tl >= 1) by (apply count_if_pos_iff; exists r; auto). lia. }
        split; [exact E|]. unfold same_key in *. split.
        - destruct (pair_eqb (he_key x) (he_key r)) eqn:E2; [|reflexivity]. apply pair_eqb_spec in E2. rewrite <- E2, pair_eqb_refl in E. discriminate.
        - destruct (pair_eqb (he_key y) (he_key r)) eqn:E2; [|reflexivity]. apply pair_eqb_spec in E2. rewrite <- E2, Kxy, pair_eqb_refl in E. discriminate. }
      destruct (IH tl) as [I1 I2]; [cbn [length] in Hm; lia|exact Hs2|exact Hnd2| |].
      { intros r Hr. pose proof (Hc r (or_intror (or_intror Hr))) as C. rewrite !count_if_cons in C.
        destruct (Htl r Hr) as (_ & E1 & E2). rewrite E1, E2 in C. exact C. }
      cbn [pair_up]. split.
      * intros a b [E|Hin].
        -- inversion E; subst. split; [left; reflexivity|]. split; [right; left; reflexivity|]. split; [|symmetry; exact Kxy].
           intros ->. apply Hx. left. reflexivity.
        -- destruct (I1 a b Hin) as (Ha & Hb & Hab & Hk). repeat split; auto; right; right; assumption.
      * intros r [<-|[<-|Hr]].
        -- exists x, y. split; [left; reflexivity|left; reflexivity].
        -- exists x, y. split; [left; reflexivity|right; reflexivity].
        -- destruct (I2 r Hr) as (a & b & Hin & Hab). exists a, b. split; [right; exact Hin|exact Hab].
Qed.

(* ------------------------------------------------------------------ the half-edge table *)
Definition rows_of (k : nat) (t : tri) : list row := let '(a, b, c) := t in [he_row a b k; he_row b c k; he_row c a k].
Lemma he_rows_flat ts : he_rows ts = flat_map (fun p => rows_of (fst p) (snd p)) (enumerate ts).
Proof. unfold he_rows. apply flat_map_ext. intros [k [[a b] c]]. reflexivity. Qed.
Lemma in_he_rows ts r : In r (he_rows ts) <-> exists k t, nth_error ts k = Some t /\ In r (rows_of k t).
Proof.
  rewrite he_rows_flat, in_flat_map. split.
  - intros ([k t] & Hin & Hr). exists k, t. split; [|exact Hr]. apply in_enumerate. exact Hin.
  - intros (k & t & Hn & Hr). exists (k, t). split; [|exact Hr]. apply in_enumerate. exact Hn.
Qed.

Lemma he_row_iff a b k i j k' d : a <> b ->
  ((i, j, k', d) = he_row a b k <-> k' = k /\ i < j /\ (if d then i else j) = a /\ (if d then j else i) = b).
Proof.
  intros Hab. unfold he_row. destruct (Nat.ltb_spec a b) as [L|L]; split.
  - intros E. inversion E; subst. repeat split; auto.
  - intros (-> & Hij & H1 & H2). destruct d; subst; [reflexivity|lia].
  - intros E. inversion E; subst. repeat split; auto. lia.
  - intros (-> & Hij & H1 & H2). destruct d; subst; [lia|reflexivity].
Qed.
Lemma tri_hedge_iff a b c x y : tri_hedge (a, b, c) x y = true <-> (a = x /\ b = y) \/ (b = x /\ c = y) \/ (c = x /\ a = y).
Proof. unfold tri_hedge. rewrite !orb_true_iff, !andb_true_iff, !Nat.eqb_eq. tauto. Qed.
Lemma rows_of_iff t k i j k' d : distinct_tri t ->
  (In (i, j, k', d) (rows_of k t) <-> k' = k /\ i < j /\ tri_hedge t (if d then i else j) (if d then j else i) = true).
Proof.
  destruct t as [[a b] c]. intros (Hab & Hbc & Hca). unfold rows_of. cbn [In]. rewrite tri_hedge_iff.
  assert (R : forall u w, u <> w -> (he_row u w k = (i, j, k', d) <-> k' = k /\ i < j /\ (if d then i else j) = u /\ (if d then j else i) = w)).
  { intros u w Huw. rewrite <- (he_row_iff u w k i j k' d Huw). split; intros E; symmetry; exact E. }
  rewrite (R a b Hab), (R b c Hbc), (R c a Hca). clear R. split.
  - intros [H|[H|[H|[]]]]; destruct H as (-> & Hij & <- & <-); auto 10.
  - intros (-> & Hij & [[<- <-]|[[<- <-]|[<- <-]]]); auto 10.
Qed.

Lemma rows_of_nodup k t : distinct_tri t -> NoDup (rows_of k t).
Proof.
  destruct t as [[a b] c]. intros (Hab & Hbc & Hca). unfold rows_of, he_row.
  apply NoDup_cons; [|apply NoDup_cons; [|apply NoDup_cons; [intros []|apply NoDup_nil]]]; cbn [In];
    destruct (Nat.ltb_spec a b), (Nat.ltb_spec b c), (Nat.ltb_spec c a);
    intros G; repeat (destruct G as [G|G]; [inversion G; lia|]); exact G.
Qed.
Lemma rows_of_tri k t r : In r (rows_of k t) -> he_tri r = k.
Proof.
  destruct t as [[a b] c]. unfold rows_of, he_row. cbn [In].
  destruct (Nat.ltb a b), (Nat.ltb b c), (Nat.ltb c a); intros [<-|[<-|[<-|[]]]]; reflexivity.
Qed.

Lemma NoDup_app_intro {A} (l m : list A) : NoDup l -> NoDup m -> (forall x, In x l -> In x m -> False) -> NoDup (l ++ m).
Proof.
  induction l as [|x l IH]; intros Hl Hm Hd; [exact Hm|]. inversion Hl as [|? ? Hx Hl']; subst. cbn [app]. constructor.
  - intros Hin. apply in_app_or in Hin. destruct Hin as [Hin|Hin]; [contradiction|]. apply (Hd x); [left; reflexivity|exact Hin].
  - apply IH; [exact Hl'|exact Hm|]. intros y Hy. apply Hd. right. exact Hy.
Qed.
Definition rows_from (s : nat) (ts : list tri) : list row :=
  flat_map (fun p => rows_of (fst p) (snd p)) (combine (iota_from s (length ts)) ts).
Lemma rows_from_nodup : forall ts s, Forall distinct_tri ts -> NoDup (rows_from s ts) /\ forall r, In r (rows_from s ts) -> s <= he_tri r.
Proof.
  induction ts as [|t ts IH]; intros s H; [split; [constructor|intros r []]|].
  inversion H as [|? ? Ht H']; subst. destruct (IH (S s) H') as [N1 N2].
  unfold rows_from. cbn [length iota_from combine flat_map fst snd]. fold (rows_from (S s) ts). split.
  - apply NoDup_app_intro; [apply rows_of_nodup; exact Ht|exact N1|].
    intros r H1 H2. apply rows_of_tri in H1. apply N2 in H2. lia.
  - intros r Hr. apply in_app_or in Hr. destruct Hr as [Hr|Hr]; [apply rows_of_tri in Hr; lia|apply N2 in Hr; lia].
Qed.
Lemma he_rows_nodup ts : Forall distinct_tri ts -> NoDup (he_rows ts).
Proof. intros H. rewrite he_rows_flat. apply (rows_from_nodup ts 0 H). Qed.

(* ------------------------------------------------------------------ the entries of the triangle-neighbour table *)
Definition sgn_of (rx ry : row) : Z := if xorb (he_dir rx) (he_dir ry) then 1%Z else (-1)%Z.
Definition inner_rows (ts : list tri) : list row :=
  filter (fun r => Nat.eqb (key_count (he_rows ts) (he_key r)) 2) (he_rows ts).
Definition sorted_rows (ts : list tri) : list row := sort_by lex_le (inner_rows ts).

Lemma nb_entries_iff ts x y s : In (x, y, s) (nb_entries ts) <->
  exists rx ry, In (rx, ry) (pair_up (sorted_rows ts)) /\ x = he_tri rx /\ y = he_tri ry /\ s = sgn_of rx ry.
Proof.
  unfold nb_entries. fold (inner_rows ts). fold (sorted_rows ts). rewrite in_flat_map. split.
  - intros ([rx ry] & Hin & H). cbn [In] in H. destruct H as [H|[]]. inversion H; subst. exists rx, ry. auto.
  - intros (rx & ry & Hin & -> & -> & ->). exists (rx, ry). split; [exact Hin|]. left. reflexivity.
Qed.

Section Entries.
  Context (ts : list tri).
  Context (Hd : Forall distinct_tri ts).

  Lemma sorted_perm : Permutation (sorted_rows ts) (inner_rows ts).
  Proof. apply sort_by_perm. Qed.
  Lemma in_sorted r : In r (sorted_rows ts) <-> In r (he_rows ts) /\ key_count (he_rows ts) (he_key r) = 2.
  Proof.
    split.
    - intros H. apply (Permutation_in _ sorted_perm) in H. unfold inner_rows in H. apply filter_In in H.
      destruct H as [H1 H2]. apply Nat.eqb_eq in H2. auto.
    - intros [H1 H2]. apply (Permutation_in _ (Permutation_sym sorted_perm)). unfold inner_rows. apply filter_In.
      split; [exact H1|apply Nat.eqb_eq; exact H2].
  Qed.
  Lemma sorted_nodup : NoDup (sorted_rows ts).
  Proof. apply (Permutation_NoDup (Permutation_sym sorted_perm)). unfold inner_rows. apply NoDup_filter. apply he_rows_nodup. exact Hd. Qed.
  Lemma sorted_count r : In r (sorted_rows ts) -> count_if (same_key r) (sorted_rows ts) = 2.
  Proof.
    intros H. apply in_sorted in H. destruct H as [H1 H2].
    rewrite (count_if_perm _ _ _ sorted_perm). unfold inner_rows. rewrite count_if_filter_sub.
    - rewrite <- key_count_same. exact H2.
    - intros x Sx. apply same_key_iff in Sx. rewrite Sx. apply Nat.eqb_eq. exact H2.
  Qed.
  Lemma sorted_spec :
    (forall x y, In (x, y) (pair_up (sorted_rows ts)) -> In x (sorted_rows ts) /\ In y (sorted_rows ts) /\ x <> y /\ he_key x = he_key y) /\
    (forall r, In r (sorted_rows ts) -> exists x y, In (x, y) (pair_up (sorted_rows ts)) /\ (r = x \/ r = y)).
  Proof.
    apply (pair_up_spec (length (sorted_rows ts))); [lia| |apply sorted_nodup|apply sorted_count].
    apply sort_by_sorted; [apply lex_le_total|apply lex_le_trans].
  Qed.

  (* every entry comes from two different rows with the same key, an edge of exactly two triangles *)
  Lemma entry_rows x y s : In (x, y, s) (nb_entries ts) ->
    exists rx ry, In rx (he_rows ts) /\ In ry (he_rows ts) /\ rx <> ry /\ he_key rx = he_key ry /\
                  key_count (he_rows ts) (he_key rx) = 2 /\ x = he_tri rx /\ y = he_tri ry /\ s = sgn_of rx ry.
  Proof.
    intros H. apply nb_entries_iff in H. destruct H as (rx & ry & Hin & -> & -> & ->).
    destruct (proj1 sorted_spec rx ry Hin) as (Hx & Hy & Hne & Hk).
    apply in_sorted in Hx. apply in_sorted in Hy. exists rx, ry. tauto.
  Qed.
  (* and every such pair of rows yields an entry, in one of the two orders *)
  Lemma rows_entry rx ry : In rx (he_rows ts) -> In ry (he_rows ts) -> rx <> ry -> he_key rx = he_key ry ->
    key_count (he_rows ts) (he_key rx) = 2 ->
    In (he_tri rx, he_tri ry, sgn_of rx ry) (nb_entries ts) \/ In (he_tri ry, he_tri rx, sgn_of rx ry) (nb_entries ts).
  Proof.
    intros Hx Hy Hne Hk Hc.
    assert (Sx : In rx (sorted_rows ts)) by (apply in_sorted; auto).
    assert (Sy : In ry (sorted_rows ts)) by (apply in_sorted; split; [exact Hy|rewrite <- Hk; exact Hc]).
    destruct (proj2 sorted_spec rx Sx) as (a & b & Hin & Hab).
    destruct (proj1 sorted_spec a b Hin) as (Ha & Hb & Hneab & Hkab).
    assert (Third : forall p, In p (sorted_rows ts) -> p <> rx -> he_key p = he_key rx -> p = ry).
    { intros p Hp Hprx Hkp. destruct (row_eq_dec p ry) as [E|E]; [exact E|]. exfalso.
      assert (C : count_if (same_key rx) (sorted_rows ts) >= 3).
      { apply (count_if_three _ _ rx ry p); auto using sorted_nodup; apply same_key_iff; auto. }
      rewrite sorted_count in C by exact Sx. lia. }
    destruct Hab as [-> | ->].
    - assert (E : b = ry) by (apply Third; [exact Hb|congruence|congruence]). subst b.
      left. apply nb_entries_iff. exists a, ry. auto.
    - assert (E : a = ry) by (apply Third; [exact Ha|congruence|congruence]). subst a.
      right. apply nb_entries_iff. exists ry, b. repeat split; auto. unfold sgn_of. rewrite xorb_comm. reflexivity.
  Qed.
End Entries.
