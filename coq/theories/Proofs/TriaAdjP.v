(* Proofs/TriaAdjP.v -- the connectivity predicates agree with brute-force counting (C09). *)
From Coq Require Import List Arith Bool PeanoNat Permutation Sorted Lia ZArith.
From LaPyV Require Import Base.ListAux Model.TetMesh Model.TriaAdj Proofs.SortP.
Import ListNotations.

(* ---- brute-force specification *)
Definition tri_has (t : tri) (i : nat) : bool := let '(a, b, c) := t in Nat.eqb a i || Nat.eqb b i || Nat.eqb c i.
(* number of triangles containing both i and j *)
Definition tri_count (ts : list tri) (i j : nat) : nat := count_if (fun t => tri_has t i && tri_has t j) ts.
(* number of triangles traversing the directed edge i -> j *)
Definition tri_hedge (t : tri) (i j : nat) : bool :=
  let '(a, b, c) := t in (Nat.eqb a i && Nat.eqb b j) || (Nat.eqb b i && Nat.eqb c j) || (Nat.eqb c i && Nat.eqb a j).
Definition hedge_count (ts : list tri) (i j : nat) : nat := count_if (fun t => tri_hedge t i j) ts.
Definition distinct_tri (t : tri) : Prop := let '(a, b, c) := t in a <> b /\ b <> c /\ c <> a.

Lemma count_if_app {A} (p : A -> bool) l m : count_if p (l ++ m) = count_if p l + count_if p m.
Proof. unfold count_if. rewrite filter_app, app_length. reflexivity. Qed.
Lemma count_if_cons {A} (p : A -> bool) x l : count_if p (x :: l) = (if p x then 1 else 0) + count_if p l.
Proof. unfold count_if. cbn [filter]. destruct (p x); reflexivity. Qed.
Lemma count_if_flat_map {A B} (p : B -> bool) (f : A -> list B) l :
  count_if p (flat_map f l) = fold_right (fun x acc => count_if p (f x) + acc) 0 l.
Proof. induction l as [|x l IH]; [reflexivity|]. cbn [flat_map fold_right]. rewrite count_if_app, IH. reflexivity. Qed.
Lemma count_if_pos_iff {A} (p : A -> bool) l : count_if p l >= 1 <-> exists x, In x l /\ p x = true.
Proof.
  induction l as [|y l IH].
  - cbn. split; [lia|intros (x & [] & _)].
  - rewrite count_if_cons. split.
    + destruct (p y) eqn:E; [intros _; exists y; split; [left; reflexivity|assumption]|].
      intros H. apply IH in H. destruct H as (x & Hx & Hp). exists x. split; [right; assumption|assumption].
    + intros (x & [->|Hx] & Hp); [rewrite Hp; lia|].
      assert (count_if p l >= 1) by (apply IH; eauto). lia.
Qed.

Lemma pair_eqb_refl k : pair_eqb k k = true.
Proof. apply pair_eqb_spec; reflexivity. Qed.
Lemma count_pair_pos_iff k l : count_pair k l >= 1 <-> In k l.
Proof.
  unfold count_pair. rewrite count_if_pos_iff. split.
  - intros (x & Hx & Hp). apply pair_eqb_spec in Hp. subst. assumption.
  - intros H. exists k. split; [assumption|apply pair_eqb_refl].
Qed.

Lemma pair_eqb_pair a b c d : pair_eqb (a, b) (c, d) = Nat.eqb a c && Nat.eqb b d.
Proof. reflexivity. Qed.

(* per-triangle: the symmetric key list counts (i,j) once iff both are corners *)
Lemma sym1_count t i j : distinct_tri t -> i <> j ->
  count_pair (i, j) (sym1 t) = if tri_has t i && tri_has t j then 1 else 0.
Proof.
  destruct t as [[a b] c]. intros (Hab & Hbc & Hca) Hij.
  unfold count_pair, sym1, tri_has. rewrite !count_if_cons. unfold count_if. cbn [filter length]. rewrite !pair_eqb_pair.
  destruct (Nat.eqb_spec a i), (Nat.eqb_spec b i), (Nat.eqb_spec c i),
           (Nat.eqb_spec a j), (Nat.eqb_spec b j), (Nat.eqb_spec c j); subst; cbn;
    try reflexivity; try contradiction; try congruence;
    repeat match goal with
           | |- context [Nat.eqb ?x ?y] => destruct (Nat.eqb_spec x y); subst; cbn; try contradiction; try congruence
           end; try reflexivity.
Qed.
Lemma hedges1_count t i j : distinct_tri t ->
  count_pair (i, j) (hedges1 t) = if tri_hedge t i j then 1 else 0.
Proof.
  destruct t as [[a b] c]. intros (Hab & Hbc & Hca).
  unfold count_pair, hedges1, tri_hedge. rewrite !count_if_cons. unfold count_if. cbn [filter length]. rewrite !pair_eqb_pair.
  destruct (Nat.eqb_spec a i), (Nat.eqb_spec b i), (Nat.eqb_spec c i),
           (Nat.eqb_spec a j), (Nat.eqb_spec b j), (Nat.eqb_spec c j); subst; cbn;
    try reflexivity; try contradiction; try congruence;
    repeat match goal with
           | |- context [Nat.eqb ?x ?y] => destruct (Nat.eqb_spec x y); subst; cbn; try contradiction; try congruence
           end; try reflexivity.
Qed.

Theorem sym_count_is_tri_count ts i j : Forall distinct_tri ts -> i <> j -> sym_count ts i j = tri_count ts i j.
Proof.
  intros H Hij. unfold sym_count, tri_count, count_pair, sym_keys. rewrite count_if_flat_map.
  induction ts as [|t ts IH]; [reflexivity|]. inversion H; subst.
  cbn [fold_right]. rewrite count_if_cons, <- IH by assumption. f_equal.
  apply (sym1_count t i j); assumption.
Qed.
Theorem dir_count_is_hedge_count ts i j : Forall distinct_tri ts -> dir_count ts i j = hedge_count ts i j.
Proof.
  intros H. unfold dir_count, hedge_count, count_pair, hedges. rewrite count_if_flat_map.
  induction ts as [|t ts IH]; [reflexivity|]. inversion H; subst.
  cbn [fold_right]. rewrite count_if_cons, <- IH by assumption. f_equal.
  apply (hedges1_count t i j); assumption.
Qed.

Lemma sym_keys_distinct ts i j : Forall distinct_tri ts -> In (i, j) (sym_keys ts) -> i <> j.
Proof.
  intros H Hin. unfold sym_keys in Hin. apply in_flat_map in Hin. destruct Hin as ([[a b] c] & Ht & Hin).
  rewrite Forall_forall in H. destruct (H _ Ht) as (Hab & Hbc & Hca).
  cbn in Hin. repeat (destruct Hin as [Hin|Hin]; [inversion Hin; subst; congruence|]). destruct Hin.
Qed.

(* is_closed <-> no edge lies in exactly one triangle *)
Theorem is_closed_iff ts : Forall distinct_tri ts ->
  (is_closed ts = true <-> forall i j, i <> j -> tri_count ts i j <> 1).
Proof.
  intros H. unfold is_closed. rewrite negb_true_iff. split.
  - intros E i j Hij Hc. rewrite <- sym_count_is_tri_count in Hc by assumption.
    assert (In (i, j) (sym_keys ts)) by (apply count_pair_pos_iff; unfold sym_count in Hc; lia).
    assert (existsb (fun k => Nat.eqb (count_pair k (sym_keys ts)) 1) (sym_keys ts) = true); [|congruence].
    apply existsb_exists. exists (i, j). split; [assumption|]. apply Nat.eqb_eq. exact Hc.
  - intros Hs. destruct (existsb _ _) eqn:E; [|reflexivity]. exfalso.
    apply existsb_exists in E. destruct E as ([i j] & Hin & Hc). apply Nat.eqb_eq in Hc.
    assert (Hij := sym_keys_distinct ts i j H Hin).
    apply (Hs i j Hij). rewrite <- sym_count_is_tri_count by assumption. exact Hc.
Qed.

(* is_manifold <-> no edge lies in more than two triangles *)
Theorem is_manifold_iff ts : Forall distinct_tri ts ->
  (is_manifold ts = true <-> forall i j, i <> j -> tri_count ts i j <= 2).
Proof.
  intros H. unfold is_manifold. rewrite forallb_forall. split.
  - intros Hall i j Hij. rewrite <- sym_count_is_tri_count by assumption. unfold sym_count.
    destruct (count_pair (i, j) (sym_keys ts)) as [|n] eqn:E; [lia|].
    assert (In (i, j) (sym_keys ts)) by (apply count_pair_pos_iff; lia).
    specialize (Hall _ H0). apply Nat.leb_le in Hall. lia.
  - intros Hs [i j] Hin. apply Nat.leb_le.
    assert (Hij := sym_keys_distinct ts i j H Hin). specialize (Hs i j Hij).
    rewrite <- sym_count_is_tri_count in Hs by assumption. exact Hs.
Qed.

(* is_oriented <-> no directed half-edge occurs twice *)
Theorem is_oriented_iff ts : Forall distinct_tri ts -> ts <> [] ->
  (is_oriented ts = true <-> forall i j, hedge_count ts i j <= 1).
Proof.
  intros H Hne. unfold is_oriented. destruct ts as [|t0 ts0]; [contradiction|]. set (ts := t0 :: ts0) in *.
  rewrite forallb_forall. split.
  - intros Hall i j. rewrite <- dir_count_is_hedge_count by assumption. unfold dir_count.
    destruct (count_pair (i, j) (hedges ts)) as [|n] eqn:E; [lia|].
    assert (In (i, j) (hedges ts)) by (apply count_pair_pos_iff; lia).
    specialize (Hall _ H0). apply Nat.eqb_eq in Hall. lia.
  - intros Hs [i j] Hin. apply Nat.eqb_eq.
    assert (count_pair (i, j) (hedges ts) >= 1) by (apply count_pair_pos_iff; assumption).
    specialize (Hs i j). rewrite <- dir_count_is_hedge_count in Hs by assumption. unfold dir_count in Hs. lia.
Qed.

(* ---- unique_nat: sorted, duplicate-free, same elements *)
Lemma dedup_sorted_in l x : In x (dedup_sorted l) <-> In x l.
Proof.
  induction l as [|a l IH]; [reflexivity|].
  cbn [dedup_sorted]. destruct l as [|b l'].
  - reflexivity.
  - destruct (Nat.eqb_spec a b) as [->|Hne].
    + rewrite IH. split; [intros Hi; right; exact Hi|intros [->|Hi]; [left; reflexivity|exact Hi]].
    + cbn [In]. rewrite IH. reflexivity.
Qed.
Lemma dedup_sorted_nodup l : Sorted le l -> NoDup (dedup_sorted l).
Proof.
  intros Hs. apply Sorted_StronglySorted in Hs; [|intros a b c; apply Nat.le_trans].
  induction l as [|a l IH]; [constructor|].
  inversion Hs as [|? ? Hs' Hall]; subst. cbn [dedup_sorted]. destruct l as [|b l'].
  - constructor; [intros []|constructor].
  - destruct (Nat.eqb_spec a b) as [->|Hne]; [apply IH; assumption|].
    constructor; [|apply IH; assumption].
    rewrite dedup_sorted_in. intros Hin. rewrite Forall_forall in Hall.
    inversion Hs' as [|? ? _ Hall']; subst. rewrite Forall_forall in Hall'.
    assert (a <= b) by (apply Hall; left; reflexivity).
    destruct Hin as [->|Hin]; [congruence|]. assert (b <= a) by (apply Hall'; assumption). lia.
Qed.
Lemma natsort_sorted l : Sorted le (NatSort.sort l).
Proof.
  assert (H := NatSort.Sorted_sort l).
  induction H as [|a l' Hs IH Hhd]; constructor; [assumption|].
  destruct Hhd; constructor. unfold is_true in H. apply Nat.leb_le. exact H.
Qed.
Lemma unique_nat_in l x : In x (unique_nat l) <-> In x l.
Proof.
  unfold unique_nat. rewrite dedup_sorted_in. split; intros H.
  - eapply Permutation_in; [apply Permutation_sym, NatSort.Permuted_sort|exact H].
  - eapply Permutation_in; [apply NatSort.Permuted_sort|exact H].
Qed.
Lemma unique_nat_nodup l : NoDup (unique_nat l).
Proof. apply dedup_sorted_nodup, natsort_sorted. Qed.

Lemma iota_from_in s n x : In x (iota_from s n) <-> s <= x < s + n.
Proof. revert s. induction n as [|n IH]; intros s; cbn [iota_from In]; [lia|]. rewrite IH. lia. Qed.
Lemma iota_from_nodup s n : NoDup (iota_from s n).
Proof. revert s. induction n as [|n IH]; intros s; cbn [iota_from]; constructor; [rewrite iota_from_in; lia|apply IH]. Qed.
Lemma iota_length n : length (iota n) = n.
Proof. unfold iota. generalize 0. induction n; intros s; cbn; [reflexivity|rewrite IHn; reflexivity]. Qed.

(* has_free_vertices <-> some vertex index below n is unused (indices in range) *)
Theorem has_free_vertices_iff n flat : Forall (fun i => i < n) flat ->
  (has_free_vertices n flat = true <-> exists k, k < n /\ ~ In k flat).
Proof.
  intros Hr. unfold has_free_vertices. rewrite negb_true_iff, Nat.eqb_neq.
  set (u := unique_nat flat).
  assert (Hu : NoDup u) by apply unique_nat_nodup.
  assert (Hincl : incl u (iota n)).
  { intros x Hx. apply (proj1 (unique_nat_in flat x)) in Hx. rewrite Forall_forall in Hr. apply iota_from_in. specialize (Hr x Hx). lia. }
  assert (Hlen : length u <= n) by (rewrite <- (iota_length n); apply NoDup_incl_length; assumption).
  split.
  - intros Hne. assert (Hlt : length u < n) by lia.
    (* some element of iota n is not in u *)
    destruct (existsb (fun k => negb (memn k u)) (iota n)) eqn:E.
    + apply existsb_exists in E. destruct E as (k & Hk & Hm). exists k. split; [apply iota_from_in in Hk; lia|].
      intros Hin. apply negb_true_iff in Hm. unfold memn in Hm.
      assert (existsb (Nat.eqb k) u = true); [|congruence].
      apply existsb_exists. exists k. split; [apply (proj2 (unique_nat_in flat k)); assumption|apply Nat.eqb_refl].
    + exfalso. assert (incl (iota n) u).
      { intros k Hk. destruct (memn k u) eqn:M.
        - unfold memn in M. apply existsb_exists in M. destruct M as (y & Hy & Hey). apply Nat.eqb_eq in Hey. subst. assumption.
        - assert (existsb (fun k => negb (memn k u)) (iota n) = true); [|congruence].
          apply existsb_exists. exists k. split; [assumption|rewrite M; reflexivity]. }
      assert (length (iota n) <= length u) by (apply NoDup_incl_length; [apply iota_from_nodup|assumption]).
      rewrite iota_length in H0. lia.
  - intros (k & Hk & Hnin) Heq.
    assert (incl (iota n) u).
    { apply NoDup_length_incl; [assumption|rewrite iota_length; lia|assumption]. }
    apply Hnin. apply (proj1 (unique_nat_in flat k)). apply H. apply iota_from_in. lia.
Qed.

(* ---- unique_pairs: duplicate-free, same elements *)
Lemma dedup_pairs_in l x : In x (dedup_pairs l) <-> In x l.
Proof.
  induction l as [|a l IH]; [reflexivity|].
  cbn [dedup_pairs]. destruct l as [|b l'].
  - reflexivity.
  - destruct (pair_eqb a b) eqn:E.
    + apply pair_eqb_spec in E. subst b. rewrite IH. split; [intros Hi; right; exact Hi|intros [->|Hi]; [left; reflexivity|exact Hi]].
    + cbn [In]. rewrite IH. reflexivity.
Qed.
Lemma pairsort_sorted l : StronglySorted (fun a b => pair_leb a b = true) (PairSort.sort l).
Proof.
  apply Sorted_StronglySorted; [intros a b c; apply pair_leb_trans|].
  assert (H := PairSort.Sorted_sort l).
  induction H as [|a l' Hs IH Hhd]; constructor; [assumption|].
  destruct Hhd; constructor. exact H.
Qed.
Lemma dedup_pairs_nodup l : StronglySorted (fun a b => pair_leb a b = true) l -> NoDup (dedup_pairs l).
Proof.
  intros Hs. induction l as [|a l IH]; [constructor|].
  inversion Hs as [|? ? Hs' Hall]; subst. cbn [dedup_pairs]. destruct l as [|b l'].
  - constructor; [intros []|constructor].
  - destruct (pair_eqb a b) eqn:E; [apply IH; assumption|].
    constructor; [|apply IH; assumption].
    rewrite dedup_pairs_in. intros Hin. rewrite Forall_forall in Hall.
    inversion Hs' as [|? ? _ Hall']; subst. rewrite Forall_forall in Hall'.
    assert (pair_leb a b = true) by (apply Hall; left; reflexivity).
    destruct Hin as [->|Hin]; [rewrite pair_eqb_refl in E; discriminate|].
    assert (pair_leb b a = true) by (apply Hall'; assumption).
    assert (a = b) by (apply pair_leb_antisym; assumption). subst. rewrite pair_eqb_refl in E. discriminate.
Qed.
Lemma unique_pairs_in l x : In x (unique_pairs l) <-> In x l.
Proof.
  unfold unique_pairs. rewrite dedup_pairs_in. split; intros H.
  - eapply Permutation_in; [apply Permutation_sym, PairSort.Permuted_sort|exact H].
  - eapply Permutation_in; [apply PairSort.Permuted_sort|exact H].
Qed.
Lemma unique_pairs_nodup l : NoDup (unique_pairs l).
Proof. apply dedup_pairs_nodup, pairsort_sorted. Qed.

(* ---- vertex_degrees: number of distinct neighbours *)
Lemma sym_keys_swap ts i j : In (i, j) (sym_keys ts) -> In (j, i) (sym_keys ts).
Proof.
  unfold sym_keys. rewrite !in_flat_map. intros ([[a b] c] & Ht & H). exists (a, b, c). split; [exact Ht|].
  cbn [sym1 In] in *. repeat (destruct H as [H|H]; [inversion H; subst; tauto|]). destruct H.
Qed.

Lemma nth_map_iota_gen {A} (g : nat -> A) d : forall m s k, (k < m)%nat -> nth k (map g (iota_from s m)) d = g (s + k)%nat.
Proof.
  induction m as [|m IH]; intros s k Hk; [lia|]. cbn [iota_from map]. destruct k as [|k]; [cbn [nth]; f_equal; lia|].
  cbn [nth]. rewrite IH by lia. f_equal. lia.
Qed.

Theorem vertex_degrees_count_neighbours n ts j : (j < n)%nat ->
  exists nb, NoDup nb /\ (forall i, In i nb <-> In (i, j) (sym_keys ts)) /\ nth j (vertex_degrees n ts) 0 = length nb.
Proof.
  intros Hj. unfold vertex_degrees. set (keys := unique_pairs (sym_keys ts)).
  exists (map fst (filter (fun k => Nat.eqb (snd k) j) keys)). split; [|split].
  - assert (ND : NoDup keys) by apply unique_pairs_nodup.
    induction keys as [|[a b] keys IH]; [constructor|]. inversion ND as [|? ? Hn ND']; subst. cbn [filter snd].
    destruct (Nat.eqb b j) eqn:E; [|apply IH; exact ND'].
    cbn [map fst]. constructor; [|apply IH; exact ND'].
    intros Hin. apply in_map_iff in Hin. destruct Hin as ([a' b'] & Ha & Hf). cbn [fst] in Ha. subst a'.
    apply filter_In in Hf. destruct Hf as [Hf1 Hf2]. cbn [snd] in Hf2. apply Nat.eqb_eq in E, Hf2. subst. apply Hn. exact Hf1.
  - intros i. rewrite in_map_iff. split.
    + intros ([a b] & Ha & Hf). cbn [fst] in Ha. subst a. apply filter_In in Hf. destruct Hf as [Hf1 Hf2].
      cbn [snd] in Hf2. apply Nat.eqb_eq in Hf2. subst b. unfold keys in Hf1. apply (proj1 (unique_pairs_in _ _)) in Hf1. exact Hf1.
    + intros H. exists (i, j). split; [reflexivity|]. apply filter_In. split; [apply (proj2 (unique_pairs_in _ _)); exact H|cbn [snd]; apply Nat.eqb_refl].
  - unfold iota. rewrite (nth_map_iota_gen _ 0%nat n 0 j Hj). cbn [Nat.add]. unfold count_if. rewrite map_length. reflexivity.
Qed.

(* ---- euler: V - E + F, E the number of undirected edges *)
Lemma nodup_incl_len {A} (l m : list A) : NoDup l -> incl l m -> (length l <= length m)%nat.
Proof. intros. apply NoDup_incl_length; assumption. Qed.

Lemma sym_half (l : list (nat * nat)) : NoDup l -> (forall i j, In (i, j) l -> In (j, i) l) -> (forall i j, In (i, j) l -> i <> j) ->
  length l = 2 * length (filter (fun k => Nat.ltb (fst k) (snd k)) l).
Proof.
  intros ND Hs Hd.
  set (lo := filter (fun k => Nat.ltb (fst k) (snd k)) l). set (hi := filter (fun k => Nat.ltb (snd k) (fst k)) l).
  assert (L : length l = length lo + length hi).
  { unfold lo, hi. clear ND Hs. induction l as [|[a b] l IH]; [reflexivity|]. cbn [filter fst snd].
    assert (a <> b) by (apply Hd; left; reflexivity).
    assert (IH' : length l = length (filter (fun k => fst k <? snd k) l) + length (filter (fun k => snd k <? fst k) l))
      by (apply IH; intros i j Hin; apply Hd; right; exact Hin).
    destruct (Nat.ltb_spec a b), (Nat.ltb_spec b a); cbn [length]; lia. }
  assert (E : length hi = length lo).
  { apply Nat.le_antisymm.
    - rewrite <- (map_length (fun k : nat * nat => (snd k, fst k)) hi).
      apply NoDup_incl_length.
      + apply FinFun.Injective_map_NoDup; [intros [a b] [c d] H; cbn in H; inversion H; reflexivity|apply NoDup_filter; exact ND].
      + intros [a b] Hin. apply in_map_iff in Hin. destruct Hin as ([c d] & H & Hf). cbn [fst snd] in H. inversion H; subst.
        apply filter_In in Hf. destruct Hf as [Hf1 Hf2]. apply filter_In. split; [apply Hs; exact Hf1|exact Hf2].
    - rewrite <- (map_length (fun k : nat * nat => (snd k, fst k)) lo).
      apply NoDup_incl_length.
      + apply FinFun.Injective_map_NoDup; [intros [a b] [c d] H; cbn in H; inversion H; reflexivity|apply NoDup_filter; exact ND].
      + intros [a b] Hin. apply in_map_iff in Hin. destruct Hin as ([c d] & H & Hf). cbn [fst snd] in H. inversion H; subst.
        apply filter_In in Hf. destruct Hf as [Hf1 Hf2]. apply filter_In. split; [apply Hs; exact Hf1|exact Hf2]. }
  lia.
Qed.

Theorem euler_is_V_minus_E_plus_F ts : Forall distinct_tri ts ->
  euler ts = (Z.of_nat (length (unique_nat (tri_flat ts)))
              - Z.of_nat (length (filter (fun k => Nat.ltb (fst k) (snd k)) (unique_pairs (sym_keys ts))))
              + Z.of_nat (length ts))%Z.
Proof.
  intros Hd. unfold euler.
  rewrite (sym_half (unique_pairs (sym_keys ts))).
  - rewrite Nat.mul_comm, Nat.div_mul by lia. reflexivity.
  - apply unique_pairs_nodup.
  - intros i j H. apply (proj2 (unique_pairs_in _ _)). apply sym_keys_swap. apply (proj1 (unique_pairs_in _ _)) in H. exact H.
  - intros i j H. apply (proj1 (unique_pairs_in _ _)) in H. eapply sym_keys_distinct; eassumption.
Qed.

Lemma combine_map_r' {A B} (h : A -> B) l : combine l (map h l) = map (fun x => (x, h x)) l.
Proof. induction l as [|x l IH]; [reflexivity|]. cbn [map combine]. rewrite IH. reflexivity. Qed.

(* ---- edges() on oriented meshes: every inner edge once, with the two triangles that carry its two half-edges *)
Lemma find_tri_spec k ts : forall s a, find_tri k ts s = Some a ->
  (s <= a)%nat /\ exists t, nth_error ts (a - s) = Some t /\ In k (hedges1 t).
Proof.
  induction ts as [|t ts IH]; intros s a H; cbn [find_tri] in H; [discriminate|].
  destruct (existsb (pair_eqb k) (hedges1 t)) eqn:E.
  - inversion H; subst. split; [lia|]. exists t. rewrite Nat.sub_diag. split; [reflexivity|].
    apply existsb_exists in E. destruct E as (x & Hx & Hk). apply pair_eqb_spec in Hk. subst. exact Hx.
  - apply IH in H. destruct H as (H1 & t' & H2 & H3). split; [lia|]. exists t'. replace (a - s)%nat with (S (a - S s)) by lia. split; assumption.
Qed.
Lemma find_tri_some k ts s : In k (hedges ts) -> exists a, find_tri k ts s = Some a.
Proof.
  revert s. induction ts as [|t ts IH]; intros s H; [destruct H|]. cbn [find_tri].
  destruct (existsb (pair_eqb k) (hedges1 t)) eqn:E; [eauto|].
  apply IH. unfold hedges in H. cbn [flat_map] in H. apply in_app_or in H. destruct H as [H|H]; [|exact H].
  exfalso. assert (E' : existsb (pair_eqb k) (hedges1 t) = true) by (apply existsb_exists; exists k; split; [exact H|apply pair_eqb_refl]).
  rewrite E in E'. discriminate.
Qed.

Theorem edges_inner_spec ts keys tids : edges_inner ts = Ok (keys, tids) ->
  NoDup keys /\
  (forall i j, In (i, j) keys <-> (i < j)%nat /\ In (i, j) (hedges ts) /\ count_pair (i, j) (sym_keys ts) = 2%nat) /\
  length tids = length keys /\
  Forall (fun '((i, j), (a, b)) =>
            (In (i, j) (hedges ts) -> exists t, nth_error ts a = Some t /\ In (i, j) (hedges1 t)) /\
            (In (j, i) (hedges ts) -> exists t, nth_error ts b = Some t /\ In (j, i) (hedges1 t))) (combine keys tids).
Proof.
  unfold edges_inner. destruct (negb (is_oriented ts)); [discriminate|]. intros H. inversion H; subst keys tids. clear H.
  set (F := fun k : nat * nat => Nat.ltb (fst k) (snd k) && Nat.eqb (count_pair k (sym_keys ts)) 2).
  split; [apply NoDup_filter, unique_pairs_nodup|]. split; [|split].
  - intros i j. rewrite filter_In. unfold F. cbn [fst snd]. rewrite andb_true_iff, Nat.ltb_lt, Nat.eqb_eq.
    split.
    + intros (Hin & Hlt & Hc). apply (proj1 (unique_pairs_in _ _)) in Hin. tauto.
    + intros (Hlt & Hin & Hc). split; [apply (proj2 (unique_pairs_in _ _)); exact Hin|tauto].
  - rewrite map_length. reflexivity.
  - rewrite combine_map_r'. apply Forall_forall. intros [[i j] [a b]] Hin. apply in_map_iff in Hin.
    destruct Hin as ([i' j'] & E & _). inversion E; subst. clear E. unfold swap_pair. cbn [fst snd]. split; intros Hh.
    + destruct (find_tri_some (i, j) ts 0 Hh) as (a & Ha). rewrite Ha. apply find_tri_spec in Ha. rewrite Nat.sub_0_r in Ha. apply Ha.
    + destruct (find_tri_some (j, i) ts 0 Hh) as (a & Ha). rewrite Ha. apply find_tri_spec in Ha. rewrite Nat.sub_0_r in Ha. apply Ha.
Qed.
