(* Proofs/LevelSetP.v -- theorems about level_length / level_path (C16) over R. *)
From Coq Require Import List Arith Bool PeanoNat Lia Reals Lra.
From LaPyV Require Import Base.Scalar Base.Vec3 Base.ListAux Model.TetMesh Model.TriaAdj Model.TriaRefine Model.LevelSet
  Proofs.SparseP Proofs.TetMeshP Proofs.FemTriaP Proofs.TriaAdjP Proofs.TriaRefineP Proofs.TriaGeomP.
Import ListNotations.
Open Scope R_scope.

Notation fv := (fval Rops).
Notation ab := (above Rops).
Notation ept := (edge_point Rops).
Notation distR := (dist Rops).

Lemma above_true f lvl i : ab f lvl i = true <-> lvl < fv f i.
Proof. unfold above. cbn [ltb Rops]. apply Rltb_true. Qed.
Lemma above_false f lvl i : ab f lvl i = false <-> ~ lvl < fv f i.
Proof. unfold above. cbn [ltb Rops]. apply Rltb_false. Qed.

(* two corners on different sides have different values *)
Lemma sides_differ f lvl i j : ab f lvl i <> ab f lvl j -> fv f i <> fv f j.
Proof. intros H E. apply H. unfold above. rewrite E. reflexivity. Qed.

(* ---- 1. which corner is chosen *)
Definition rotation_of (g t : nat * nat * nat) : Prop :=
  let '(a, b, c) := t in g = (a, b, c) \/ g = (b, c, a) \/ g = (c, a, b).

Theorem crossing_some f lvl t g0 g1 g2 : crossing Rops f lvl t = Some (g0, g1, g2) ->
  rotation_of (g0, g1, g2) t /\ ab f lvl g1 = ab f lvl g2 /\ ab f lvl g0 <> ab f lvl g1.
Proof.
  destruct t as [[a b] c]. unfold crossing, rotation_of.
  destruct (ab f lvl a) eqn:Ea, (ab f lvl b) eqn:Eb, (ab f lvl c) eqn:Ec; cbn -[above]; intros H; inversion H; subst;
    rewrite ?Ea, ?Eb, ?Ec; repeat split; auto; discriminate.
Qed.
Theorem crossing_none f lvl a b c : crossing Rops f lvl (a, b, c) = None ->
  ab f lvl a = ab f lvl b /\ ab f lvl b = ab f lvl c.
Proof.
  unfold crossing. destruct (ab f lvl a), (ab f lvl b), (ab f lvl c); cbn -[above]; intros H; try discriminate; split; reflexivity.
Qed.

(* ---- 2. the point on a crossed edge: interpolated value = level, strictly inside the edge *)
Definition xl (f : list R) (lvl : R) (g0 g1 : nat) : R := (lvl - fv f g0) / (fv f g1 - fv f g0).
Lemma edge_point_is_convex_combination v f lvl g0 g1 :
  ept v f lvl g0 g1 = vadd Rops (vscale Rops (1 - xl f lvl g0 g1) (getv Rops v g0)) (vscale Rops (xl f lvl g0 g1) (getv Rops v g1)).
Proof. reflexivity. Qed.
Theorem edge_point_value f lvl g0 g1 : fv f g0 <> fv f g1 ->
  (1 - xl f lvl g0 g1) * fv f g0 + xl f lvl g0 g1 * fv f g1 = lvl.
Proof. intros H. unfold xl. field. lra. Qed.
Theorem edge_point_inside f lvl g0 g1 : ab f lvl g0 <> ab f lvl g1 -> fv f g0 <> lvl -> fv f g1 <> lvl ->
  0 < xl f lvl g0 g1 < 1.
Proof.
  intros H H0 H1. unfold xl.
  destruct (ab f lvl g0) eqn:E0, (ab f lvl g1) eqn:E1; try (exfalso; apply H; reflexivity).
  - apply above_true in E0. apply above_false in E1. assert (D : fv f g1 - fv f g0 < 0) by lra.
    split.
    + replace ((lvl - fv f g0) / (fv f g1 - fv f g0)) with ((fv f g0 - lvl) / (fv f g0 - fv f g1)) by (field; lra).
      apply Rdiv_lt_0_compat; lra.
    + replace ((lvl - fv f g0) / (fv f g1 - fv f g0)) with ((fv f g0 - lvl) / (fv f g0 - fv f g1)) by (field; lra).
      apply (Rmult_lt_reg_r (fv f g0 - fv f g1)); [lra|]. unfold Rdiv. rewrite Rmult_assoc, Rinv_l by lra. lra.
  - apply above_false in E0. apply above_true in E1. split.
    + apply Rdiv_lt_0_compat; lra.
    + apply (Rmult_lt_reg_r (fv f g1 - fv f g0)); [lra|]. unfold Rdiv. rewrite Rmult_assoc, Rinv_l by lra. lra.
Qed.

(* ---- 3. the point does not depend on the direction of the edge *)
Theorem edge_point_sym v f lvl g0 g1 : fv f g0 <> fv f g1 -> ept v f lvl g0 g1 = ept v f lvl g1 g0.
Proof.
  intros H. unfold edge_point. generalize (getv Rops v g0) (getv Rops v g1). intros p q. r3 p; r3 q.
  unfold vadd, vscale, vx, vy, vz. cbn [fst snd add sub mul div one Rops].
  f_equal; [f_equal|]; field; lra.
Qed.
Lemma dist_sym p q : distR p q = distR q p.
Proof.
  unfold dist, norm, norm2. cbn [sqrtK Rops]. f_equal. r3 p; r3 q.
  unfold dot, vsub, vx, vy, vz. cbn [fst snd add sub mul Rops]. ring.
Qed.

(* ---- 4. level_length = total length of the level set of the piecewise-linear interpolant *)
Definition crossed (f : list R) (lvl : R) (e : nat * nat) : bool := xorb (ab f lvl (fst e)) (ab f lvl (snd e)).
Definition seg_spec (v : list V3) (f : list R) (lvl : R) (t : tri) : R :=
  let '(a, b, c) := t in
  match filter (crossed f lvl) [(a, b); (b, c); (c, a)] with
  | [e1; e2] => distR (ept v f lvl (fst e1) (snd e1)) (ept v f lvl (fst e2) (snd e2))
  | _ => 0
  end.

Lemma seg_len_is_spec v f lvl t :
  match crossing Rops f lvl t with Some g => seg_len Rops v f lvl g | None => 0 end = seg_spec v f lvl t.
Proof.
  destruct t as [[a b] c]. unfold crossing, seg_spec, crossed. cbn [filter fst snd].
  destruct (ab f lvl a) eqn:Ea, (ab f lvl b) eqn:Eb, (ab f lvl c) eqn:Ec; cbn [b2n Nat.add Nat.eqb orb Nat.ltb Nat.leb xorb negb seg_len fst snd];
    try reflexivity.
  all: try (rewrite (edge_point_sym v f lvl c a) by (apply (sides_differ f lvl c a); congruence)).
  all: try (rewrite (edge_point_sym v f lvl b a) by (apply (sides_differ f lvl b a); congruence)).
  all: try (rewrite (edge_point_sym v f lvl c b) by (apply (sides_differ f lvl c b); congruence)).
  all: try reflexivity.
  all: try (rewrite dist_sym; reflexivity).
Qed.

Lemma Rsum_crossings v f lvl ts :
  Rsum (seg_len Rops v f lvl) (crossings Rops f lvl ts) = Rsum (seg_spec v f lvl) ts.
Proof.
  induction ts as [|t ts IH]; [reflexivity|]. cbn [crossings Rsum]. rewrite <- seg_len_is_spec.
  destruct (crossing Rops f lvl t); cbn [Rsum]; rewrite IH; ring.
Qed.
Theorem level_length_one_is_pl_length v ts f lvl : level_length_one Rops v ts f lvl = Rsum (seg_spec v f lvl) ts.
Proof. unfold level_length_one. rewrite sumK_Rsum, Rsum_map. apply Rsum_crossings. Qed.

Theorem level_length_levels v ts ncols f lvls :
  level_length Rops v ts ncols f lvls =
    if Nat.eqb ncols 1 then Ok (map (fun lvl => Rsum (seg_spec v f lvl) ts) lvls) else Err ValueError.
Proof.
  unfold level_length. destruct (Nat.eqb ncols 1); cbn [negb]; [|reflexivity]. f_equal. apply map_ext. intros l.
  apply level_length_one_is_pl_length.
Qed.

(* ---- 5. level_path reports the same length *)
Lemma crossings_idx_snd f lvl ts : forall i, map snd (crossings_idx Rops f lvl ts i) = crossings Rops f lvl ts.
Proof. induction ts as [|t ts IH]; intros i; [reflexivity|]. cbn [crossings_idx crossings]. destruct (crossing Rops f lvl t); cbn [map snd]; rewrite IH; reflexivity. Qed.
Lemma crossings_in f lvl ts g : In g (crossings Rops f lvl ts) -> exists t, In t ts /\ crossing Rops f lvl t = Some g.
Proof.
  induction ts as [|t ts IH]; [intros []|]. cbn [crossings]. destruct (crossing Rops f lvl t) as [g'|] eqn:E.
  - intros [->|H]; [exists t; split; [left; reflexivity|exact E]|]. destruct (IH H) as (t' & Ht & Hc). exists t'. split; [right; exact Ht|exact Hc].
  - intros H. destruct (IH H) as (t' & Ht & Hc). exists t'. split; [right; exact Ht|exact Hc].
Qed.

Lemma skey_point v f lvl a b : fv f a <> fv f b ->
  (let '(x, y) := skey a b in ept v f lvl x y) = ept v f lvl a b.
Proof. intros H. unfold skey. destruct (Nat.leb a b); [reflexivity|]. apply edge_point_sym. intros E; apply H; symmetry; exact E. Qed.

Lemma lookup_point (pt : nat * nat -> V3) uniq k : In k uniq -> getv Rops (map pt uniq) (idx_or0 k uniq) = pt k.
Proof.
  intros Hin. unfold idx_or0. destruct (index_of_in k uniq 0 Hin) as (i & Hi). rewrite Hi.
  apply index_of_spec in Hi. destruct Hi as [_ Hn]. rewrite Nat.sub_0_r in Hn.
  unfold getv. apply nth_error_nth. rewrite nth_error_map, Hn. reflexivity.
Qed.

Lemma combine_map_same {A B C} (h : A -> B) (k : A -> C) l : combine (map h l) (map k l) = map (fun x => (h x, k x)) l.
Proof. induction l as [|x l IH]; [reflexivity|]. cbn [map combine]. rewrite IH. reflexivity. Qed.

Theorem level_path_length eps v ts ncols f lvl gt np m :
  level_path Rops eps v ts ncols f lvl gt np = Ok m -> lp_length m = level_length_one Rops v ts f lvl.
Proof.
  unfold level_path. destruct (negb (Nat.eqb ncols 1)); [discriminate|].
  set (cr := crossings_idx Rops f lvl ts 0).
  set (gg1 := map (fun '(_, (g0, g1, _)) => skey g0 g1) cr).
  set (gg2 := map (fun '(_, (g0, _, g2)) => skey g0 g2) cr).
  set (uniq := unique_pairs (gg1 ++ gg2)).
  set (pt := fun '(a, b) => ept v f lvl a b).
  set (edges := map (fun '(k1, k2) => (idx_or0 k1 uniq, idx_or0 k2 uniq)) (combine gg1 gg2)).
  set (LL := sumK Rops (map (fun '(i, j) => distR (getv Rops (map pt uniq) i) (getv Rops (map pt uniq) j)) edges)).
  assert (HL : LL = level_length_one Rops v ts f lvl).
  { unfold LL, level_length_one. rewrite !sumK_Rsum, !Rsum_map. unfold edges. rewrite Rsum_map.
    rewrite <- (crossings_idx_snd f lvl ts 0). fold cr. rewrite Rsum_map.
    unfold gg1, gg2. rewrite combine_map_same. rewrite Rsum_map. apply Rsum_ext. intros [i [[g0 g1] g2]] Hin.
    cbn [snd seg_len].
    assert (Hc : In (g0, g1, g2) (crossings Rops f lvl ts)).
    { rewrite <- (crossings_idx_snd f lvl ts 0). fold cr. apply (in_map snd) in Hin. exact Hin. }
    destruct (crossings_in _ _ _ _ Hc) as (t & _ & Ht). apply crossing_some in Ht. destruct Ht as (_ & H12 & H01).
    assert (H02 : ab f lvl g0 <> ab f lvl g2) by (rewrite <- H12; exact H01).
    rewrite !lookup_point.
    - unfold pt. rewrite (skey_point v f lvl g0 g1) by (apply (sides_differ f lvl); exact H01).
      rewrite (skey_point v f lvl g0 g2) by (apply (sides_differ f lvl); exact H02). reflexivity.
    - apply unique_pairs_in. apply in_or_app. right. unfold gg2. apply in_map_iff. exists (i, (g0, g1, g2)). split; [reflexivity|exact Hin].
    - apply unique_pairs_in. apply in_or_app. left. unfold gg1. apply in_map_iff. exists (i, (g0, g1, g2)). split; [reflexivity|exact Hin]. }
  destruct (reduce_edges_to_path edges) as [[path eidx]|e]; [|discriminate].
  destruct gt.
  - destruct (Nat.eqb np 0); [|discriminate]. intros H. inversion H. cbn [lp_length]. exact HL.
  - intros H. inversion H. cbn [lp_length]. exact HL.
Qed.

(* non-scalar input *)
Theorem level_path_non_scalar eps v ts ncols f lvl gt np : ncols <> 1%nat -> level_path Rops eps v ts ncols f lvl gt np = Err ValueError.
Proof. intros H. unfold level_path. apply Nat.eqb_neq in H. rewrite H. reflexivity. Qed.
Theorem level_length_non_scalar v ts ncols f lvls : ncols <> 1%nat -> level_length Rops v ts ncols f lvls = Err ValueError.
Proof. intros H. unfold level_length. apply Nat.eqb_neq in H. rewrite H. reflexivity. Qed.
