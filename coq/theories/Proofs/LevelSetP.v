(* Proofs/LevelSetP.v -- theorems about level_length / level_path (C16) over R. *)
From Coq Require Import List Arith Bool PeanoNat Lia Reals Lra.
From LaPyV Require Import Base.Scalar Base.Vec3 Base.ListAux Model.TetMesh Model.TriaAdj Model.TriaRefine Model.LevelSet
  Proofs.SparseP Proofs.TetMeshP Proofs.FemTriaP Proofs.TriaAdjP Proofs.TriaRefineP Proofs.TriaGeomP.
Import ListNotations.
Open Scope R_scope.

Notation fv := (fval Rops).
Notation ab := (above Rops).
Notation ept := (edge_point Rops).
Notation distR := (dist Rops).

Lemma above_true f lvl i : ab f lvl i = true <-> lvl < fv f i.
Proof. unfold above. cbn [ltb Rops]. apply Rltb_true. Qed.
Lemma above_false f lvl i : ab f lvl i = false <-> ~ lvl < fv f i.
Proof. unfold above. cbn [ltb Rops]. apply Rltb_false. Qed.

(* two corners on different sides have different values *)
Lemma sides_differ f lvl i j : ab f lvl i <> ab f lvl j -> fv f i <> fv f j.
Proof. intros H E. apply H. unfold above. rewrite E. reflexivity. Qed.

(* ---- 1. which corner is chosen *)
Definition rotation_of (g t : nat * nat * nat) : Prop :=
  let '(a, b, c) := t in g = (a, b, c) \/ g = (b, c, a) \/ g = (c, a, b).

Theorem crossing_some f lvl t g0 g1 g2 : crossing Rops f lvl t = Some (g0, g1, g2) ->
  rotation_of (g0, g1, g2) t /\ ab f lvl g1 = ab f lvl g2 /\ ab f lvl g0 <> ab f lvl g1.
Proof.
  destruct t as [[a b] c]. unfold crossing, rotation_of.
  destruct (ab f lvl a) eqn:Ea, (ab f lvl b) eqn:Eb, (ab f lvl c) eqn:Ec; cbn -[above]; intros H; inversion H; subst;
    rewrite ?Ea, ?Eb, ?Ec; repeat split; auto; discriminate.
Qed.
Theorem crossing_none f lvl a b c : crossing Rops f lvl (a, b, c) = None ->
  ab f lvl a = ab f lvl b /\ ab f lvl b = ab f lvl c.
Proof.
  unfold crossing. destruct (ab f lvl a), (ab f lvl b), (ab f lvl c); cbn -[above]; intros H; try discriminate; split; reflexivity.
Qed.

(* ---- 2. the point on a crossed edge: interpolated value = level, strictly inside the edge *)
Definition xl (f : list R) (lvl : R) (g0 g1 : nat) : R := (lvl - fv f g0) / (fv f g1 - fv f g0).
Lemma edge_point_is_convex_combination v f lvl g0 g1 :
  ept v f lvl g0 g1 = vadd Rops (vscale Rops (1 - xl f lvl g0 g1) (getv Rops v g0)) (vscale Rops (xl f lvl g0 g1) (getv Rops v g1)).
Proof. reflexivity. Qed.
Theorem edge_point_value f lvl g0 g1 : fv f g0 <> fv f g1 ->
  (1 - xl f lvl g0 g1) * fv f g0 + xl f lvl g0 g1 * fv f g1 = lvl.
Proof. intros H. unfold xl. field. lra. Qed.
Theorem edge_point_inside f lvl g0 g1 : ab f lvl g0 <> ab f lvl g1 -> fv f g0 <> lvl -> fv f g1 <> lvl ->
  0 < xl f lvl g0 g1 < 1.
Proof.
  intros H H0 H1. unfold xl.
  destruct (ab f lvl g0) eqn:E0, (ab f lvl g1) eqn:E1; try (exfalso; apply H; reflexivity).
  - apply above_true in E0. apply above_false in E1. assert (D : fv f g1 - fv f g0 < 0) by lra.
    split.
    + replace ((lvl - fv f g0) / (fv f g1 - fv f g0)) with ((fv f g0 - lvl) / (fv f g0 - fv f g1)) by (field; lra).
      apply Rdiv_lt_0_compat; lra.
    + replace ((lvl - fv f g0) / (fv f g1 - fv f g0)) with ((fv f g0 - lvl) / (fv f g0 - fv f g1)) by (field; lra).
      apply (Rmult_lt_reg_r (fv f g0 - fv f g1)); [lra|]. unfold Rdiv. rewrite Rmult_assoc, Rinv_l by lra. lra.
  - apply above_false in E0. apply above_true in E1. split.
    + apply Rdiv_lt_0_compat; lra.
    + apply (Rmult_lt_reg_r (fv f g1 - fv f g0)); [lra|]. unfold Rdiv. rewrite Rmult_assoc, Rinv_l by lra. lra.
Qed.

(* ---- 3. the point does not depend on the direction of the edge *)
Theorem edge_point_sym v f lvl g0 g1 : fv f g0 <> fv f g1 -> ept v f lvl g0 g1 = ept v f lvl g1 g0.
Proof.
  intros H. unfold edge_point. generalize (getv Rops v g0) (getv Rops v g1). intros p q. r3 p; r3 q.
  unfold vadd, vscale, vx, vy, vz. cbn [fst snd add sub mul div one Rops].
  f_equal; [f_equal|]; field; lra.
Qed.
Lemma dist_sym p q : distR p q = distR q p.
Proof.
  unfold dist, norm, norm2. cbn [sqrtK Rops]. f_equal. r3 p; r3 q.
  unfold dot, vsub, vx, vy, vz. cbn [fst snd add sub mul Rops]. ring.
Qed.

(* ---- 4. level_length = total length of the level set of the piecewise-linear interpolant *)
Definition crossed (f : list R) (lvl : R) (e : nat * nat) : bool := xorb (ab f lvl (fst e)) (ab f lvl (snd e)).
Definition seg_spec (v : list V3) (f : list R) (lvl : R) (t : tri) : R :=
  let '(a, b, c) := t in
  match filter (crossed f lvl) [(a, b); (b, c); (c, a)] with
  | [e1; e2] => distR (ept v f lvl (fst e1) (snd e1)) (ept v f lvl (fst e2) (snd e2))
  | _ => 0
  end.

Lemma seg_len_is_spec v f lvl t :
  match crossing Rops f lvl t with Some g => seg_len Rops v f lvl g | None => 0 end = seg_spec v f lvl t.
Proof.
  destruct t as [[a b] c]. unfold crossing, seg_spec, crossed. cbn [filter fst snd].
  destruct (ab f lvl a) eqn:Ea, (ab f lvl b) eqn:Eb, (ab f lvl c) eqn:Ec; cbn [b2n Nat.add Nat.eqb orb Nat.ltb Nat.leb xorb negb seg_len fst snd];
    try reflexivity.
  all: try (rewrite (edge_point_sym v f lvl c a) by (apply (sides_differ f lvl c a); congruence)).
  all: try (rewrite (edge_point_sym v f lvl b a) by (apply (sides_differ f lvl b a); congruence)).
  all: try (rewrite (edge_point_sym v f lvl c b) by (apply (sides_differ f lvl c b); congruence)).
  all: try reflexivity.
  all: try (rewrite dist_sym; reflexivity).
Qed.

Lemma Rsum_crossings v f lvl ts :
  Rsum (seg_len Rops v f lvl) (crossings Rops f lvl ts) = Rsum (seg_spec v f lvl) ts.
Proof.
  induction ts as [|t ts IH]; [reflexivity|]. cbn [crossings Rsum]. rewrite <- seg_len_is_spec.
  destruct (crossing Rops f lvl t); cbn [Rsum]; rewrite IH; ring.
Qed.
Theorem level_length_one_is_pl_length v ts f lvl : level_length_one Rops v ts f lvl = Rsum (seg_spec v f lvl) ts.
Proof. unfold level_length_one. rewrite sumK_Rsum, Rsum_map. apply Rsum_crossings. Qed.

Theorem level_length_levels v ts ncols f lvls :
  level_length Rops v ts ncols f lvls =
    if Nat.eqb ncols 1 then Ok (map (fun lvl => Rsum (seg_spec v f lvl) ts) lvls) else Err ValueError.
Proof.
  unfold level_length. destruct (Nat.eqb ncols 1); cbn [negb]; [|reflexivity]. f_equal. apply map_ext. intros l.
  apply level_length_one_is_pl_length.
Qed.

(* ---- 5. level_path reports the same length *)
Lemma crossings_idx_snd f lvl ts : forall i, map snd (crossings_idx Rops f lvl ts i) = crossings Rops f lvl ts.
Proof. induction ts as [|t ts IH]; intros i; [reflexivity|]. cbn [crossings_idx crossings]. destruct (crossing Rops f lvl t); cbn [map snd]; rewrite IH; reflexivity. Qed.
Lemma crossings_in f lvl ts g : In g (crossings Rops f lvl ts) -> exists t, In t ts /\ crossing Rops f lvl t = Some g.
Proof.
  induction ts as [|t ts IH]; [intros []|]. cbn [crossings]. destruct (crossing Rops f lvl t) as [g'|] eqn:E.
  - intros [->|H]; [exists t; split; [left; reflexivity|exact E]|]. destruct (IH H) as (t' & Ht & Hc). exists t'. split; [right; exact Ht|exact Hc].
  - intros H. destruct (IH H) as (t' & Ht & Hc). exists t'. split; [right; exact Ht|exact Hc].
Qed.

Lemma skey_point v f lvl a b : fv f a <> fv f b ->
  (let '(x, y) := skey a b in ept v f lvl x y) = ept v f lvl a b.
Proof. intros H. unfold skey. destruct (Nat.leb a b); [reflexivity|]. apply edge_point_sym. intros E; apply H; symmetry; exact E. Qed.

Lemma lookup_point (pt : nat * nat -> V3) uniq k : In k uniq -> getv Rops (map pt uniq) (idx_or0 k uniq) = pt k.
Proof.
  intros Hin. unfold idx_or0. destruct (index_of_in k uniq 0 Hin) as (i & Hi). rewrite Hi.
  apply index_of_spec in Hi. destruct Hi as [_ Hn]. rewrite Nat.sub_0_r in Hn.
  unfold getv. apply nth_error_nth. rewrite nth_error_map, Hn. reflexivity.
Qed.

Lemma combine_map_same {A B C} (h : A -> B) (k : A -> C) l : combine (map h l) (map k l) = map (fun x => (h x, k x)) l.
Proof. induction l as [|x l IH]; [reflexivity|]. cbn [map combine]. rewrite IH. reflexivity. Qed.

Lemma raw_length v ts f lvl r : level_path_raw Rops v ts f lvl = Ok r -> lr_length r = level_length_one Rops v ts f lvl.
Proof.
  unfold level_path_raw.
  set (cr := crossings_idx Rops f lvl ts 0).
  set (gg1 := map (fun '(_, (g0, g1, _)) => skey g0 g1) cr).
  set (gg2 := map (fun '(_, (g0, _, g2)) => skey g0 g2) cr).
  set (uniq := unique_pairs (gg1 ++ gg2)).
  set (pt := fun '(a, b) => ept v f lvl a b).
  set (edges := map (fun '(k1, k2) => (idx_or0 k1 uniq, idx_or0 k2 uniq)) (combine gg1 gg2)).
  set (LL := sumK Rops (map (fun '(i, j) => distR (getv Rops (map pt uniq) i) (getv Rops (map pt uniq) j)) edges)).
  assert (HL : LL = level_length_one Rops v ts f lvl).
  { unfold LL, level_length_one. rewrite !sumK_Rsum, !Rsum_map. unfold edges. rewrite Rsum_map.
    rewrite <- (crossings_idx_snd f lvl ts 0). fold cr. rewrite Rsum_map.
    unfold gg1, gg2. rewrite combine_map_same. rewrite Rsum_map. apply Rsum_ext. intros [i [[g0 g1] g2]] Hin.
    cbn [snd seg_len].
    assert (Hc : In (g0, g1, g2) (crossings Rops f lvl ts)).
    { rewrite <- (crossings_idx_snd f lvl ts 0). fold cr. apply (in_map snd) in Hin. exact Hin. }
    destruct (crossings_in _ _ _ _ Hc) as (t & _ & Ht). apply crossing_some in Ht. destruct Ht as (_ & H12 & H01).
    assert (H02 : ab f lvl g0 <> ab f lvl g2) by (rewrite <- H12; exact H01).
    rewrite !lookup_point.
    - unfold pt. rewrite (skey_point v f lvl g0 g1) by (apply (sides_differ f lvl); exact H01).
      rewrite (skey_point v f lvl g0 g2) by (apply (sides_differ f lvl); exact H02). reflexivity.
    - apply unique_pairs_in. apply in_or_app. right. unfold gg2. apply in_map_iff. exists (i, (g0, g1, g2)). split; [reflexivity|exact Hin].
    - apply unique_pairs_in. apply in_or_app. left. unfold gg1. apply in_map_iff. exists (i, (g0, g1, g2)). split; [reflexivity|exact Hin]. }
  destruct (reduce_edges_to_path edges) as [[path eidx]|e]; [|discriminate].
  intros H. inversion H. cbn [lr_length]. exact HL.
Qed.

Theorem level_path_length eps v ts ncols f lvl gt np m :
  level_path Rops eps v ts ncols f lvl gt np = Ok m -> lp_length m = level_length_one Rops v ts f lvl.
Proof.
  unfold level_path. destruct (negb (Nat.eqb ncols 1)); [discriminate|].
  destruct (level_path_raw Rops v ts f lvl) as [r|e] eqn:E; [|discriminate]. apply raw_length in E.
  destruct gt.
  - destruct (Nat.eqb np 0); [|discriminate]. intros H. inversion H. cbn [lp_length]. exact E.
  - intros H. inversion H. cbn [lp_length]. exact E.
Qed.

(* non-scalar input *)
Theorem level_path_non_scalar eps v ts ncols f lvl gt np : ncols <> 1%nat -> level_path Rops eps v ts ncols f lvl gt np = Err ValueError.
Proof. intros H. unfold level_path. apply Nat.eqb_neq in H. rewrite H. reflexivity. Qed.
Theorem level_length_non_scalar v ts ncols f lvls : ncols <> 1%nat -> level_length Rops v ts ncols f lvls = Err ValueError.
Proof. intros H. unfold level_length. apply Nat.eqb_neq in H. rewrite H. reflexivity. Qed.

(* ---- 6. path order: the walk visits pairwise distinct nodes, consecutive nodes are joined by an edge, and the edge index
        reported for a segment is an edge joining its two nodes *)
Lemma memn_false_notin x l : memn x l = false -> ~ In x l.
Proof.
  unfold memn. intros H Hin. assert (E : existsb (Nat.eqb x) l = true) by (apply existsb_exists; exists x; split; [exact Hin|apply Nat.eqb_refl]).
  rewrite E in H. discriminate.
Qed.

Lemma walk_props edges : forall fuel cur visited, In cur visited ->
  let w := walk edges fuel cur visited in
  NoDup w /\ (forall y, In y w -> ~ In y visited) /\
  Forall (fun '(x, y) => In y (nbr_edges edges x)) (consecutive (cur :: w)).
Proof.
  induction fuel as [|fu IH]; intros cur visited Hcur; cbn [walk].
  - cbn. split; [constructor|]. split; [intros y []|constructor].
  - destruct (filter (fun y => negb (memn y visited)) (nbr_edges edges cur)) as [|y rest] eqn:F.
    + cbn. split; [constructor|]. split; [intros y []|constructor].
    + assert (Hy : In y (filter (fun y => negb (memn y visited)) (nbr_edges edges cur))) by (rewrite F; left; reflexivity).
      apply filter_In in Hy. destruct Hy as [Hnb Hnv]. apply negb_true_iff in Hnv. apply memn_false_notin in Hnv.
      specialize (IH y (y :: visited) (or_introl eq_refl)). cbv zeta in IH. destruct IH as (ND & Hvis & Hadj).
      cbv zeta. split; [|split].
      * constructor; [|exact ND]. intros Hin. apply (Hvis y Hin). left; reflexivity.
      * intros z [<-|Hz]; [exact Hnv|]. intros Hzv. apply (Hvis z Hz). right. exact Hzv.
      * cbn [consecutive]. constructor; [exact Hnb|exact Hadj].
Qed.

Lemma edge_between_spec edges x y : forall s i, edge_between edges x y s = Some i ->
  (s <= i)%nat /\ (nth_error edges (i - s) = Some (x, y) \/ nth_error edges (i - s) = Some (y, x)).
Proof.
  induction edges as [|[a b] tl IH]; intros s i H; cbn [edge_between] in H; [discriminate|].
  destruct ((Nat.eqb a x && Nat.eqb b y) || (Nat.eqb a y && Nat.eqb b x)) eqn:E.
  - inversion H; subst. rewrite Nat.sub_diag. split; [lia|]. cbn [nth_error].
    apply orb_true_iff in E. destruct E as [E|E]; apply andb_true_iff in E; destruct E as [E1 E2];
      apply Nat.eqb_eq in E1, E2; subst; [left|right]; reflexivity.
  - apply IH in H. destruct H as [H1 H2]. split; [lia|]. replace (i - s)%nat with (S (i - S s)) by lia. exact H2.
Qed.
Lemma edge_between_exists edges x y s : In y (nbr_edges edges x) -> exists i, edge_between edges x y s = Some i.
Proof.
  revert s. induction edges as [|[a b] tl IH]; intros s H; [destruct H|]. cbn [edge_between].
  destruct ((Nat.eqb a x && Nat.eqb b y) || (Nat.eqb a y && Nat.eqb b x)) eqn:E; [eauto|].
  apply IH. unfold nbr_edges in H. cbn [flat_map] in H. apply in_app_or in H. destruct H as [H|H]; [|exact H].
  exfalso. apply orb_false_iff in E. destruct E as [E1 E2]. apply in_app_or in H. destruct H as [H|H].
  - destruct (Nat.eqb a x) eqn:Ea; [|destruct H]. destruct H as [<-|[]]. rewrite Nat.eqb_refl in E1. discriminate.
  - destruct (Nat.eqb b x) eqn:Eb; [|destruct H]. destruct H as [<-|[]]. apply Nat.eqb_eq in Eb. subst b.
    rewrite !Nat.eqb_refl in E2. discriminate.
Qed.

Theorem reduce_path_spec edges path eidx : reduce_edges_to_path edges = Ok (path, eidx) ->
  NoDup path /\ length path = n_nodes edges /\
  Forall (fun '(x, y) => In y (nbr_edges edges x)) (consecutive path) /\
  length eidx = length (consecutive path) /\
  Forall (fun '((x, y), e) => nth_error edges e = Some (x, y) \/ nth_error edges e = Some (y, x)) (combine (consecutive path) eidx).
Proof.
  unfold reduce_edges_to_path.
  destruct (filter (fun x => Nat.eqb (degree edges x) 1) (iota (n_nodes edges))) as [|s [|s2 [|s3 rest]]]; try discriminate.
  pose proof (walk_props edges (n_nodes edges) s [s] (or_introl eq_refl)) as W. cbv zeta in W. destruct W as (ND & Hvis & Hadj).
  remember (walk edges (n_nodes edges) s [s]) as w eqn:Ew. clear Ew.
  remember (n_nodes edges) as n eqn:En. clear En.
  remember (consecutive (s :: w)) as P eqn:EP.
  destruct (negb (Nat.eqb (length (s :: w)) n)) eqn:EL; [discriminate|].
  intros H. injection H as E1 E2. subst path eidx. rewrite <- !EP. clear EP.
  apply negb_false_iff, Nat.eqb_eq in EL.
  split; [constructor; [intros Hin; apply (Hvis s Hin); left; reflexivity|exact ND]|].
  split; [exact EL|]. split; [exact Hadj|]. split; [rewrite map_length; reflexivity|].
  induction P as [|[x y] P IH]; [constructor|].
  inversion Hadj as [|? ? Hxy Hrest]; subst. cbn [map combine]. constructor; [|apply IH; exact Hrest].
  destruct (edge_between_exists edges x y 0 Hxy) as (i & Hi). rewrite Hi.
  apply edge_between_spec in Hi. rewrite Nat.sub_0_r in Hi. apply Hi.
Qed.

Lemma consecutive_map {A B} (h : A -> B) l : consecutive (map h l) = map (fun '(x, y) => (h x, h y)) (consecutive l).
Proof.
  induction l as [|a l IH]; [reflexivity|]. destruct l as [|b l]; [reflexivity|].
  cbn [map consecutive] in *. rewrite IH. reflexivity.
Qed.
Lemma crossings_idx_in f lvl ts : forall s T g, In (T, g) (crossings_idx Rops f lvl ts s) ->
  (s <= T)%nat /\ exists t, nth_error ts (T - s) = Some t /\ crossing Rops f lvl t = Some g.
Proof.
  induction ts as [|t ts IH]; intros s T g H; [destruct H|]. cbn [crossings_idx] in H.
  destruct (crossing Rops f lvl t) as [g'|] eqn:E.
  - destruct H as [H|H].
    + inversion H; subst. split; [lia|]. exists t. rewrite Nat.sub_diag. split; [reflexivity|exact E].
    + apply IH in H. destruct H as (H1 & t' & H2 & H3). split; [lia|]. exists t'. replace (T - s)%nat with (S (T - S s)) by lia. split; assumption.
  - apply IH in H. destruct H as (H1 & t' & H2 & H3). split; [lia|]. exists t'. replace (T - s)%nat with (S (T - S s)) by lia. split; assumption.
Qed.

(* in path order, every segment joins the two crossing points of one crossed mesh triangle, and that triangle is the reported one *)
Theorem raw_segments v ts f lvl r : level_path_raw Rops v ts f lvl = Ok r ->
  length (lr_tria r) = length (consecutive (lr_points r)) /\
  Forall (fun '((a, b), T) => exists t g0 g1 g2,
            nth_error ts T = Some t /\ crossing Rops f lvl t = Some (g0, g1, g2) /\
            ((a = ept v f lvl g0 g1 /\ b = ept v f lvl g0 g2) \/ (a = ept v f lvl g0 g2 /\ b = ept v f lvl g0 g1)))
         (combine (consecutive (lr_points r)) (lr_tria r)).
Proof.
  unfold level_path_raw.
  set (cr := crossings_idx Rops f lvl ts 0).
  set (gg1 := map (fun '(_, (g0, g1, _)) => skey g0 g1) cr).
  set (gg2 := map (fun '(_, (g0, _, g2)) => skey g0 g2) cr).
  set (uniq := unique_pairs (gg1 ++ gg2)).
  set (pt := fun '(a, b) => ept v f lvl a b).
  set (edges := map (fun '(k1, k2) => (idx_or0 k1 uniq, idx_or0 k2 uniq)) (combine gg1 gg2)).
  destruct (reduce_edges_to_path edges) as [[path eidx]|e] eqn:ER; [|discriminate].
  apply reduce_path_spec in ER. destruct ER as (_ & _ & _ & Hlen & Hfor).
  intros H. inversion H; subst r. clear H. cbn [lr_points lr_tria].
  rewrite consecutive_map, !map_length. split; [exact Hlen|].
  (* edges as a map over the crossings *)
  assert (EE : edges = map (fun c : nat * (nat * nat * nat) => let '(_, (g0, g1, g2)) := c in
                             (idx_or0 (skey g0 g1) uniq, idx_or0 (skey g0 g2) uniq)) cr).
  { unfold edges, gg1, gg2. rewrite combine_map_same, map_map. apply map_ext. intros [i [[g0 g1] g2]]. reflexivity. }
  remember (consecutive path) as P eqn:EP. clear EP. revert eidx Hlen Hfor.
  induction P as [|[x y] P IH]; intros eidx Hlen Hfor; [constructor|].
  destruct eidx as [|e eidx]; [discriminate|]. cbn [map combine] in *. inversion Hfor as [|? ? Hxy Hrest]; subst.
  constructor; [|apply IH; [cbn in Hlen; lia|exact Hrest]].
  assert (Hcase : exists i g0 g1 g2, nth_error cr e = Some (i, (g0, g1, g2)) /\
            ((x = idx_or0 (skey g0 g1) uniq /\ y = idx_or0 (skey g0 g2) uniq) \/ (y = idx_or0 (skey g0 g1) uniq /\ x = idx_or0 (skey g0 g2) uniq))).
  { rewrite EE in Hxy. rewrite !nth_error_map in Hxy. destruct (nth_error cr e) as [[i [[g0 g1] g2]]|] eqn:En.
    - exists i, g0, g1, g2. split; [reflexivity|]. cbn [option_map] in Hxy. destruct Hxy as [Hq|Hq]; inversion Hq; subst; [left|right]; split; reflexivity.
    - cbn in Hxy. destruct Hxy; discriminate. }
  destruct Hcase as (i & g0 & g1 & g2 & En & Hxy').
  assert (Hin : In (i, (g0, g1, g2)) cr) by (eapply nth_error_In; exact En).
  destruct (crossings_idx_in f lvl ts 0 i (g0, g1, g2) Hin) as (_ & t & Ht & Hc). rewrite Nat.sub_0_r in Ht.
  pose proof (crossing_some _ _ _ _ _ _ Hc) as (_ & H12 & H01).
  assert (H02 : ab f lvl g0 <> ab f lvl g2) by (rewrite <- H12; exact H01).
  assert (P1 : getv Rops (map pt uniq) (idx_or0 (skey g0 g1) uniq) = ept v f lvl g0 g1).
  { rewrite lookup_point.
    - unfold pt. apply skey_point. apply (sides_differ f lvl). exact H01.
    - apply unique_pairs_in. apply in_or_app. left. unfold gg1. apply in_map_iff. exists (i, (g0, g1, g2)). split; [reflexivity|exact Hin]. }
  assert (P2 : getv Rops (map pt uniq) (idx_or0 (skey g0 g2) uniq) = ept v f lvl g0 g2).
  { rewrite lookup_point.
    - unfold pt. apply skey_point. apply (sides_differ f lvl). exact H02.
    - apply unique_pairs_in. apply in_or_app. right. unfold gg2. apply in_map_iff. exists (i, (g0, g1, g2)). split; [reflexivity|exact Hin]. }
  assert (Hn : fst (nth e cr (0, (0, 0, 0)))%nat = i) by (rewrite (nth_error_nth cr e _ En); reflexivity).
  rewrite Hn. exists t, g0, g1, g2. split; [exact Ht|]. split; [exact Hc|].
  destruct Hxy' as [[-> ->]|[-> ->]]; [left|right]; split; assumption.
Qed.
(* ---- 7. resampling keeps the end points and returns n points *)
Definition seglen (a b : V3) : R := sqrt (norm2 Rops (subR b a)).
Fixpoint dl (a : R) (q : V3) (rest : list V3) : list R :=
  match rest with [] => [] | q1 :: r => (a + seglen q q1) :: dl (a + seglen q q1) q1 r end.
Lemma cumsum_dl a q rest :
  cumsum Rops a (map (fun '(x, y) => sqrtK Rops (norm2 Rops (vsub Rops y x))) (consecutive (q :: rest))) = dl a q rest.
Proof.
  revert a q. induction rest as [|q1 r IH]; intros a q; [reflexivity|].
  cbn [consecutive map cumsum dl]. cbn [add sqrtK Rops]. fold (seglen q q1). f_equal. apply IH.
Qed.
Lemma seglen_nonneg a b : 0 <= seglen a b. Proof. apply sqrt_pos. Qed.
Lemma seglen_zero a b : seglen a b = 0 -> b = a.
Proof.
  unfold seglen. intros H. apply sqrt_eq_0 in H; [|apply dot_self_nonneg]. r3 a; r3 b.
  unfold norm2, dot, vsub, vx, vy, vz in H. cbn [fst snd add sub mul Rops] in H.
  pose proof (Rle_0_sqr (x0 - x)) as S1. pose proof (Rle_0_sqr (y0 - y)) as S2. pose proof (Rle_0_sqr (z0 - z)) as S3. unfold Rsqr in *.
  assert (E1 : (x0 - x) * (x0 - x) = 0) by lra. assert (E2 : (y0 - y) * (y0 - y) = 0) by lra. assert (E3 : (z0 - z) * (z0 - z) = 0) by lra.
  apply Rmult_integral in E1, E2, E3.
  f_equal; [f_equal|]; [destruct E1|destruct E2|destruct E3]; lra.
Qed.

Lemma interp1_cons2 x0 x1 xt f0 f1 ft x :
  interp1 Rops (x0 :: x1 :: xt) (f0 :: f1 :: ft) x =
  if Rltb x x1 then (if Rleb x x0 then f0 else (f1 - f0) / (x1 - x0) * (x - x0) + f0) else interp1 Rops (x1 :: xt) (f1 :: ft) x.
Proof. reflexivity. Qed.

(* first point: interpolation at the start of the parameter range gives the first vertex *)
Lemma interp_first (c : V3 -> R) : forall rest q a, interp1 Rops (a :: dl a q rest) (map c (q :: rest)) a = c q.
Proof.
  induction rest as [|q1 r IH]; intros q a; [reflexivity|].
  cbn [dl map]. rewrite interp1_cons2.
  destruct (Rltb a (a + seglen q q1)) eqn:E.
  - unfold Rleb. destruct (Rle_dec a a) as [_|n]; [reflexivity|exfalso; apply n; lra].
  - apply Rltb_false in E. pose proof (seglen_nonneg q q1) as Hp.
    assert (Hz : seglen q q1 = 0) by lra. rewrite Hz, Rplus_0_r.
    specialize (IH q1 a). cbn [map] in IH. rewrite IH. apply seglen_zero in Hz. rewrite Hz. reflexivity.
Qed.

(* last point: interpolation at the end of a non-decreasing parameter list gives the last value *)
Fixpoint nondec (l : list R) : Prop := match l with x :: ((y :: _) as tl) => x <= y /\ nondec tl | _ => True end.
Lemma nondec_last_ge l x : nondec (x :: l) -> x <= last (x :: l) 0.
Proof.
  revert x. induction l as [|y l IH]; intros x H; [cbn; lra|]. cbn [nondec] in H. destruct H as [H1 H2].
  specialize (IH y H2). change (last (x :: y :: l) 0) with (last (y :: l) 0). lra.
Qed.
Lemma interp_last : forall d fp, nondec d -> length fp = length d -> d <> [] -> interp1 Rops d fp (last d 0) = last fp 0.
Proof.
  induction d as [|x0 d IH]; intros fp Hn Hl Hne; [contradiction|].
  destruct fp as [|f0 fp]; [discriminate|]. destruct d as [|x1 d].
  - destruct fp; [reflexivity|discriminate].
  - destruct fp as [|f1 fp]; [discriminate|].
    change (last (x0 :: x1 :: d) 0) with (last (x1 :: d) 0). change (last (f0 :: f1 :: fp) 0) with (last (f1 :: fp) 0).
    cbn [nondec] in Hn. destruct Hn as [_ Hn].
    rewrite interp1_cons2. pose proof (nondec_last_ge d x1 Hn) as Hge.
    destruct (Rltb (last (x1 :: d) 0) x1) eqn:E; [apply Rltb_true in E; lra|].
    apply IH; [exact Hn|cbn in *; lia|discriminate].
Qed.
Lemma dl_nondec : forall rest q a, nondec (a :: dl a q rest).
Proof.
  induction rest as [|q1 r IH]; intros q a; [exact I|]. cbn [dl nondec]. split; [pose proof (seglen_nonneg q q1); lra|apply IH].
Qed.
Lemma dl_length rest : forall q a, length (dl a q rest) = length rest.
Proof. induction rest as [|q1 r IH]; intros q a; [reflexivity|]. cbn [dl length]. rewrite IH. reflexivity. Qed.

Lemma linspace0_shape stop m : exists mid, linspace0 Rops stop (S (S m)) = 0 :: mid ++ [stop] /\ length mid = m.
Proof.
  unfold linspace0. set (step := div Rops stop (ofZ Rops (Z.of_nat (S m)))).
  unfold iota. cbn [iota_from map app]. exists (map (fun i => add Rops (mul Rops (ofZ Rops (Z.of_nat i)) step) (zero Rops)) (iota_from 1 m)).
  split.
  - cbn [ofZ add mul zero Rops Z.of_nat]. f_equal. ring.
  - rewrite map_length. clear. generalize 1%nat. induction m as [|m IH]; intros s; [reflexivity|]. cbn [iota_from length]. rewrite IH. reflexivity.
Qed.

Lemma last_map_ne {A B} (h : A -> B) (l : list A) a (da : A) (db : B) : last (map h (a :: l)) db = h (last (a :: l) da).
Proof. revert a. induction l as [|b l IH]; intros a; [reflexivity|]. change (last (map h (a :: b :: l)) db) with (last (map h (b :: l)) db). change (last (a :: b :: l) da) with (last (b :: l) da). apply IH. Qed.
Lemma last_snoc {A} (l : list A) x d : last (l ++ [x]) d = x.
Proof. induction l as [|a l IH]; [reflexivity|]. cbn [app]. destruct (l ++ [x]) eqn:E; [destruct l; discriminate|]. exact IH. Qed.

Theorem resample_endpoints q rest n : (2 <= n)%nat ->
  let r := resample_polygon Rops (q :: rest) n in
  length r = n /\ hd (zero3 Rops) r = q /\ last r (zero3 Rops) = last (q :: rest) (zero3 Rops).
Proof.
  intros Hn. destruct n as [|[|m]]; try lia. cbv zeta.
  unfold resample_polygon. cbn [cumsum]. cbn [add zero Rops]. rewrite Rplus_0_l, cumsum_dl.
  set (d := 0 :: dl 0 q rest).
  destruct (linspace0_shape (last d 0) m) as (mid & E & L). cbn [zero Rops]. rewrite E. clear E.
  set (F := fun x : R => (interp1 Rops d (map (vx (K:=R)) (q :: rest)) x, interp1 Rops d (map (vy (K:=R)) (q :: rest)) x,
                          interp1 Rops d (map (vz (K:=R)) (q :: rest)) x)).
  assert (Hd : nondec d) by apply dl_nondec.
  assert (Hl : forall c : V3 -> R, length (map c (q :: rest)) = length d).
  { intros c. unfold d. cbn [length map]. rewrite map_length, dl_length. reflexivity. }
  split; [|split].
  - cbn [map length]. rewrite map_length, app_length, L. cbn [length]. lia.
  - cbn [map hd]. unfold F, d. rewrite !interp_first. destruct q as [[x y] z]. reflexivity.
  - change (map F (0 :: mid ++ [last d 0])) with (F 0 :: map F (mid ++ [last d 0])).
    rewrite map_app. cbn [map].
    assert (LL : forall (a : V3) l x, last (a :: l ++ [x]) (zero3 Rops) = x).
    { intros a l x. change (a :: l ++ [x]) with ((a :: l) ++ [x]). apply last_snoc. }
    rewrite LL. unfold F.
    rewrite !interp_last by (try exact Hd; try apply Hl; try discriminate).
    rewrite (last_map_ne (vx (K:=R)) rest q (zero3 Rops) 0), (last_map_ne (vy (K:=R)) rest q (zero3 Rops) 0),
            (last_map_ne (vz (K:=R)) rest q (zero3 Rops) 0).
    destruct (last (q :: rest) (zero3 Rops)) as [[x y] z]. reflexivity.
Qed.

(* three rounds, as in __iterative_resample_polygon *)
Theorem iterative_resample_endpoints q rest n : (2 <= n)%nat ->
  let r := iterative_resample Rops (q :: rest) n in
  length r = n /\ hd (zero3 Rops) r = q /\ last r (zero3 Rops) = last (q :: rest) (zero3 Rops).
Proof.
  intros Hn. unfold iterative_resample. cbv zeta.
  destruct (resample_endpoints q rest n Hn) as (L1 & H1 & T1). cbv zeta in *.
  destruct (resample_polygon Rops (q :: rest) n) as [|q1 r1] eqn:E1; [cbn in L1; lia|].
  destruct (resample_endpoints q1 r1 n Hn) as (L2 & H2 & T2). cbv zeta in *.
  destruct (resample_polygon Rops (q1 :: r1) n) as [|q2 r2] eqn:E2; [cbn in L2; lia|].
  destruct (resample_endpoints q2 r2 n Hn) as (L3 & H3 & T3). cbv zeta in *.
  cbn [hd] in *. subst. split; [exact L3|]. split; [exact H3|]. rewrite T3, T2, T1. reflexivity.
Qed.
