(* Proofs/TriaOrientP.v -- theorems about the orient_ model (C10). *)
From Coq Require Import List Arith Bool PeanoNat Permutation Lia ZArith Reals Lra.
From LaPyV Require Import Base.Scalar Base.Vec3 Base.ListAux Model.TetMesh Model.TriaAdj Model.TriaOrient
  Proofs.SortP Proofs.TetMeshP Proofs.TriaAdjP.
Import ListNotations.
Close Scope R_scope.

(* ------------------------------------------------------------------ structure of the result *)
(* every output triangle is the input triangle with flip01 applied iff its flag is set,
   followed by flip12 on all triangles iff the global flag is set *)
Definition apply_flags (gl : bool) (ts : list tri) (flags : list bool) : list tri :=
  map (fun '(t, f) => (if gl then flip12 else fun x => x) (if (f : bool) then flip01 t else t)) (combine ts flags).

Lemma step_flood_length e n v : length (step_flood e n v) = n.
Proof. unfold step_flood. rewrite map_length. apply iota_length. Qed.
Lemma column_length e n b : length (column e n b) = n.
Proof. unfold column. rewrite map_length. apply iota_length. Qed.
Lemma svec_add_length u w : length u = length w -> length (svec_add u w) = length u.
Proof. intros H. unfold svec_add. rewrite map_length, combine_length, H. apply Nat.min_id. Qed.

Lemma flood_length fuel e n : forall v v', length v = n -> flood fuel e n v = Ok v' -> length v' = n.
Proof.
  induction fuel as [|f IH]; intros v v' Hl H; cbn [flood] in H; [discriminate|].
  destruct (Nat.ltb (nstored v) n).
  - apply IH in H; [exact H|].
    destruct (Nat.eqb (nstored (step_flood e n v)) (nstored v)).
    + destruct (first_none (step_flood e n v) 0).
      * rewrite svec_add_length; [apply step_flood_length|]. rewrite step_flood_length, column_length. reflexivity.
      * apply step_flood_length.
    + apply step_flood_length.
  - inversion H as [E]. rewrite <- E. exact Hl.
Qed.

Lemma apply_flags_none ts : apply_flags false ts (map (fun _ => false) ts) = ts.
Proof. unfold apply_flags. induction ts as [|t l IH]; [reflexivity|]. cbn. rewrite IH. reflexivity. Qed.
Lemma count_false {A} (l : list A) : count_if (fun f : bool => f) (map (fun _ => false) l) = 0.
Proof. induction l; [reflexivity|]. cbn. assumption. Qed.

Lemma stage1_structure ts ts1 fl : orient_stage1 ts = Ok (ts1, fl) ->
  exists flags, length flags = length ts /\ ts1 = apply_flags false ts flags /\ fl = count_if (fun f => f) flags.
Proof.
  unfold orient_stage1. destruct (is_oriented ts).
  - intros H. inversion H; subst. exists (map (fun _ => false) ts1). split; [apply map_length|]. split.
    + symmetry. apply apply_flags_none.
    + symmetry. apply count_false.
  - destruct (negb (counts_ok (he_rows ts))); [discriminate|].
    destruct (flood _ _ _ _) as [v|e] eqn:F; [|discriminate].
    destruct (Nat.eqb_spec (tdim_of (nb_sym ts)) (length ts)) as [E|E]; cbn [negb]; [|discriminate].
    intros H. inversion H; subst. clear H.
    apply flood_length in F; [|apply column_length].
    eexists. split; [|split; reflexivity]. rewrite map_length. congruence.
Qed.

Lemma apply_flags_flip12 ts flags : map flip12 (apply_flags false ts flags) = apply_flags true ts flags.
Proof. unfold apply_flags. rewrite map_map. apply map_ext. intros [t f]. reflexivity. Qed.
Lemma apply_flags_length gl ts flags : length flags = length ts -> length (apply_flags gl ts flags) = length ts.
Proof. intros H. unfold apply_flags. rewrite map_length, combine_length, H. apply Nat.min_id. Qed.

Lemma count_negb flags : count_if negb flags = length flags - count_if (fun f : bool => f) flags.
Proof.
  induction flags as [|f l IH]; [reflexivity|]. rewrite !count_if_cons. cbn [length].
  assert (count_if (fun f : bool => f) l <= length l).
  { clear. unfold count_if. induction l as [|x l IH]; [cbn; lia|]. cbn [filter]. destruct x; cbn [length]; lia. }
  destruct f; cbn [negb]; lia.
Qed.

(* C10: triangle order and vertex sets are unchanged; the return value is the number of
   triangles that received an odd number of transpositions (whose winding changed) *)
Theorem orient_structure {K} (o : Ops K) v ts ts' n : orient o v ts = Ok (ts', n) ->
  exists gl flags, length flags = length ts /\ ts' = apply_flags gl ts flags /\
                   n = count_if (fun f => xorb f gl) flags.
Proof.
  unfold orient. destruct (orient_stage1 ts) as [[ts1 fl]|e] eqn:S; [|discriminate].
  destruct (stage1_structure ts ts1 fl S) as (flags & Hl & -> & ->).
  destruct (tria_volume o v (apply_flags false ts flags)) as [vol|e]; [|discriminate].
  destruct (ltb o vol (zero o)); intros H; inversion H; subst; clear H.
  - exists true, flags. split; [assumption|]. split; [apply apply_flags_flip12|].
    rewrite apply_flags_length by assumption. rewrite <- Hl.
    rewrite <- count_negb. unfold count_if; f_equal; try (apply filter_ext; intros []; reflexivity).
  - exists false, flags. split; [assumption|]. split; [reflexivity|].
    unfold count_if; f_equal; try (apply filter_ext; intros []; reflexivity).
Qed.

Lemma apply_flags_sets gl ts flags : length flags = length ts ->
  Forall2 (fun t t' => Permutation (tri_verts t') (tri_verts t)) ts (apply_flags gl ts flags).
Proof.
  revert flags. induction ts as [|[[a b] c] l IH]; intros [|f fl] H; cbn in H; try discriminate; [constructor|].
  unfold apply_flags. cbn [combine map]. constructor; [|apply IH; lia].
  destruct gl, f; cbn; try reflexivity.
  - (* flip12 (flip01) : (b,c,a)?? *) apply Permutation_sym. eapply perm_trans; [apply perm_swap|]. apply perm_skip. apply perm_swap.
  - apply perm_skip. apply perm_swap.
  - apply perm_swap.
Qed.

Theorem orient_keeps_order_and_sets {K} (o : Ops K) v ts ts' n : orient o v ts = Ok (ts', n) ->
  Forall2 (fun t t' => Permutation (tri_verts t') (tri_verts t)) ts ts'.
Proof.
  intros H. destruct (orient_structure o v ts ts' n H) as (gl & flags & Hl & -> & _).
  apply apply_flags_sets. assumption.
Qed.

(* ------------------------------------------------------------------ volume sign *)
Open Scope R_scope.
Lemma tri_spat_flip12 v a b c : tri_spat Rops v (a, c, b) = - tri_spat Rops v (a, b, c).
Proof.
  unfold tri_spat. generalize (getv Rops v a) (getv Rops v b) (getv Rops v c). intros p0 p1 p2.
  r3 p0; r3 p1; r3 p2. unfold dot, cross, vsub, vx, vy, vz. cbn. ring.
Qed.
Lemma sumK_map_neg {X} (h k : X -> R) l : (forall x, h x = - k x) -> sumK Rops (map h l) = - sumK Rops (map k l).
Proof.
  intros H. unfold sumK. cbn [add zero Rops].
  assert (G : forall acc acc', acc = - acc' -> fold_left Rplus (map h l) acc = - fold_left Rplus (map k l) acc').
  { induction l as [|x l IH]; intros acc acc' E; cbn [map fold_left]; [exact E|]. apply IH. rewrite H, E. ring. }
  apply G. ring.
Qed.
Theorem volume_sum_flip_all v ts :
  sumK Rops (map (tri_spat Rops v) (map flip12 ts)) = - sumK Rops (map (tri_spat Rops v) ts).
Proof. rewrite map_map. apply sumK_map_neg. intros [[a b] c]. apply tri_spat_flip12. Qed.

(* whenever orient_ had to evaluate the enclosed volume (closed, oriented stage-1 result),
   the returned mesh has non-negative signed volume sum *)
Theorem orient_volume_nonneg v ts ts' n : orient Rops v ts = Ok (ts', n) ->
  exists ts1, (ts' = ts1 \/ ts' = map flip12 ts1) /\
              (is_closed ts1 = true -> is_oriented ts1 = true -> 0 <= sumK Rops (map (tri_spat Rops v) ts') / 6).
Proof.
  intros H. unfold orient in H. destruct (orient_stage1 ts) as [[ts1 fl]|e]; [|discriminate].
  unfold tria_volume in H. exists ts1.
  destruct (is_closed ts1) eqn:C; cbn [negb] in H.
  - destruct (is_oriented ts1) eqn:O; cbn [negb] in H; [|discriminate].
    cbn [ltb zero div ofZ Rops] in H.
    destruct (Rltb (sumK Rops (map (tri_spat Rops v) ts1) / 6) 0) eqn:L; inversion H; subst; clear H.
    + split; [right; reflexivity|]. intros _ _. rewrite volume_sum_flip_all. apply Rltb_true in L. lra.
    + split; [left; reflexivity|]. intros _ _. apply Rltb_false in L. lra.
  - cbn [ltb zero Rops] in H. destruct (Rltb 0 0) eqn:L; [apply Rltb_true in L; lra|].
    inversion H; subst. split; [left; reflexivity|]. intros; discriminate.
Qed.
Close Scope R_scope.

(* ------------------------------------------------------------------ an edge in more than two triangles is rejected *)
Lemma he_rows_count ts i j : Forall distinct_tri ts -> i < j ->
  key_count (he_rows ts) (i, j) = tri_count ts i j.
Proof.
  intros H Hij. unfold key_count, he_rows, tri_count, enumerate, iota. generalize 0.
  induction ts as [|[[a b] c] l IH]; intros s; [reflexivity|].
  inversion H as [|? ? Hd H']; subst. cbn in Hd. destruct Hd as (Hab & Hbc & Hca).
  cbn [length iota_from combine flat_map]. rewrite count_if_app, IH by assumption. rewrite (count_if_cons _ (a, b, c)). f_equal.
  unfold he_row, tri_has. rewrite !count_if_cons. unfold count_if. cbn [filter length].
  destruct (Nat.ltb_spec a b), (Nat.ltb_spec b c), (Nat.ltb_spec c a); cbn [he_key]; rewrite !pair_eqb_pair;
    destruct (Nat.eqb_spec a i), (Nat.eqb_spec b i), (Nat.eqb_spec c i),
             (Nat.eqb_spec a j), (Nat.eqb_spec b j), (Nat.eqb_spec c j); subst; cbn; try reflexivity; try lia.
Qed.

Lemma tri_count_split ts i j : Forall distinct_tri ts -> i <> j ->
  tri_count ts i j = hedge_count ts i j + hedge_count ts j i.
Proof.
  intros H Hij. unfold tri_count, hedge_count.
  induction ts as [|[[a b] c] l IH]; [reflexivity|]. inversion H as [|? ? Hd H']; subst. cbn in Hd. destruct Hd as (Hab & Hbc & Hca).
  rewrite !count_if_cons, IH by assumption.
  assert ((if tri_has (a, b, c) i && tri_has (a, b, c) j then 1 else 0) =
          (if tri_hedge (a, b, c) i j then 1 else 0) + (if tri_hedge (a, b, c) j i then 1 else 0)); [|lia].
  unfold tri_has, tri_hedge.
  destruct (Nat.eqb_spec a i), (Nat.eqb_spec b i), (Nat.eqb_spec c i),
           (Nat.eqb_spec a j), (Nat.eqb_spec b j), (Nat.eqb_spec c j); subst; cbn; try reflexivity; try lia; congruence.
Qed.

Theorem orient_rejects_nonmanifold {K} (o : Ops K) v ts i j : Forall distinct_tri ts -> i < j ->
  tri_count ts i j >= 3 -> orient o v ts = Err ValueError.
Proof.
  intros H Hij Hc. assert (Hne : ts <> []) by (intros ->; cbn in Hc; lia).
  unfold orient, orient_stage1.
  assert (O : is_oriented ts = false).
  { destruct (is_oriented ts) eqn:E; [|reflexivity]. exfalso.
    apply (proj1 (is_oriented_iff ts H Hne)) with (i := i) (j := j) in E as E1.
    apply (proj1 (is_oriented_iff ts H Hne)) with (i := j) (j := i) in E as E2.
    rewrite (tri_count_split ts i j H) in Hc by lia. lia. }
  rewrite O.
  assert (C : counts_ok (he_rows ts) = false).
  { unfold counts_ok. apply andb_false_iff. left.
    destruct (forallb _ _) eqn:E; [|reflexivity]. exfalso. rewrite forallb_forall in E.
    (* a row with key (i,j) exists since its count is >= 3 *)
    assert (Hk : key_count (he_rows ts) (i, j) >= 3) by (rewrite he_rows_count by assumption; exact Hc).
    assert (exists r, In r (he_rows ts) /\ pair_eqb (he_key r) (i, j) = true) as (r & Hr & Hp).
    { apply count_if_pos_iff. unfold key_count in Hk. lia. }
    apply pair_eqb_spec in Hp. specialize (E r Hr). rewrite Hp in E. apply Nat.leb_le in E. lia. }
  rewrite C. reflexivity.
Qed.

Open Scope R_scope.
(* an oriented mesh (open, or closed with non-negative enclosed volume) is a fixed point: nothing changes, 0 is returned;
   together with the correspondence-checked fact that the result of orient_ is oriented this is idempotence *)
Theorem orient_fixed_point v ts : is_oriented ts = true ->
  (is_closed ts = false \/ 0 <= sumK Rops (map (tri_spat Rops v) ts) / 6) ->
  orient Rops v ts = Ok (ts, 0%nat).
Proof.
  intros Ho Hv. unfold orient, orient_stage1. rewrite Ho. unfold tria_volume. rewrite Ho. cbn [negb].
  destruct (is_closed ts) eqn:Ec; cbn [negb].
  - destruct Hv as [Hv|Hv]; [discriminate|]. cbn [ltb div ofZ zero Rops].
    destruct (Rltb (sumK Rops (map (tri_spat Rops v) ts) / 6) 0) eqn:E; [apply Rltb_true in E; lra|reflexivity].
  - cbn [ltb zero Rops]. destruct (Rltb 0 0) eqn:E; [apply Rltb_true in E; lra|reflexivity].
Qed.
Close Scope R_scope.
