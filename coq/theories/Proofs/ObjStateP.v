(* Proofs/ObjStateP.v -- invariants of the mesh objects over arbitrary operation histories (C20). *)
From Coq Require Import List Arith Bool PeanoNat Lia ZArith.
From LaPyV Require Import Base.Scalar Base.Vec3 Base.ListAux Base.Sparse Model.TetMesh Model.TriaAdj Model.TriaOrient
  Model.TriaRefine Model.Fem Model.TriaGeom Model.TriaFunc Model.ObjState Proofs.TetMeshP Proofs.TriaAdjP Proofs.TriaGeomP.
Import ListNotations.

Section Inv.
  Context {K : Type} (o : Ops K).

  (* the derived adjacency is the one of the current elements and vertex count *)
  Definition TInv (s : tstate (K:=K)) : Prop := adj_t s = st s /\ adj_n s = length (sv s).

  Lemma tfresh_inv v t : TInv (tfresh v t).
  Proof. split; reflexivity. Qed.

  Lemma iter_n_length {A} (g : list A -> list A) n k f : (forall x, length (g x) = n) -> length f = n -> length (iter_n k g f) = n.
  Proof. intros Hg. revert f. induction k as [|k IH]; intros f Hf; cbn [iter_n]; [exact Hf|]. apply IH. apply Hg. Qed.

  Lemma smooth_once_len va adj n f : length (smooth_once o va adj n f) = n.
  Proof. unfold smooth_once. rewrite map_length. apply iota_length. Qed.

  Lemma smooth_mesh_length v ts adj k v' : smooth_mesh o v ts adj k = Ok v' -> length v' = length v.
  Proof.
    unfold smooth_mesh, smooth_vfunc. destruct (existsb _ _); [discriminate|]. destruct (negb _); [discriminate|].
    intros H. inversion H; subst. clear H. unfold cols_of. cbn [map v_of_cols].
    rewrite map_length, !combine_length.
    assert (L : forall f, length f = length v -> length (smooth_col o (vertex_areas o v ts) adj (length v) k f) = length v).
    { intros f Hf. unfold smooth_col.
      destruct (Nat.max k 1) as [|m] eqn:E; [lia|]. cbn [iter_n].
      apply iter_n_length; [intros; apply smooth_once_len|apply smooth_once_len]. }
    rewrite !L by (rewrite map_length; reflexivity). lia.
  Qed.

  Lemma normal_offset_length d v ts v' : normal_offset o d v ts = Ok v' -> length v' = length v.
  Proof.
    unfold normal_offset, vertex_normals. destruct (negb (is_oriented ts)); [discriminate|].
    intros H. inversion H; subst. rewrite map_length, combine_length, map_length.
    unfold vertex_normal_sums. rewrite map_length, iota_length. lia.
  Qed.

  Lemma orient_no_reinit_keeps_t v ts t' n : orient o v ts = Ok (t', n) ->
    is_oriented ts = true -> n = 0 -> ts <> [] -> t' = ts.
  Proof.
    unfold orient, orient_stage1. intros H O N Hne. rewrite O in H.
    destruct (tria_volume o v ts) as [vol|e]; [|discriminate].
    destruct (ltb o vol (zero o)); inversion H; subst; [|reflexivity].
    destruct ts; [contradiction|]. cbn [length] in *. lia.
  Qed.

  Theorem tstep_inv s op s' r : TInv s -> tstep o s op = Ok (s', r) -> TInv s'.
  Proof.
    intros [Ia In]. destruct op; cbn [tstep].
    - (* orient_ *)
      destruct (orient o (sv s) (st s)) as [[t' n]|e] eqn:E; [|discriminate].
      intros H. inversion H; subst; clear H. unfold TInv. cbn [adj_t st adj_n sv].
      destruct (negb (is_oriented (st s)) || negb (Nat.eqb n 0)) eqn:R; [split; reflexivity|].
      apply orb_false_iff in R. destruct R as [R1 R2]. apply negb_false_iff in R1, R2. apply Nat.eqb_eq in R2.
      split; [|exact In]. rewrite Ia. symmetry.
      destruct (st s) as [|t0 tl] eqn:Est.
      + (* no triangles: is_oriented [] = false contradicts R1 *) cbn in R1. discriminate.
      + rewrite <- Est in *. eapply orient_no_reinit_keeps_t; eauto. rewrite Est. discriminate.
    - (* refine_ *)
      destruct k as [|k]; [intros H; inversion H; subst; split; assumption|].
      destruct (refine o (S k) (sv s, st s)) as [v' t'] eqn:E. intros H. inversion H; subst. split; reflexivity.
    - (* rm_free_vertices_ *)
      destruct (rm_free_plan (length (sv s)) (tri_flat (st s))) as [[[[[mask vkeep] vdel] look]|]|e]; [| |discriminate];
        intros H; inversion H; subst; [split; reflexivity|split; assumption].
    - (* normalize_ *)
      intros H. inversion H; subst. split; [exact Ia|]. cbn [adj_n sv]. rewrite In.
      unfold normalize. destruct (centroid o (sv s) (st s)). rewrite map_length. reflexivity.
    - (* smooth_ *)
      destruct (smooth_mesh o (sv s) (st s) (adj_t s) k) as [v'|e] eqn:E; [|discriminate].
      intros H. inversion H; subst. split; [exact Ia|]. cbn [adj_n sv]. rewrite In. symmetry. eapply smooth_mesh_length; eauto.
    - (* normal_offset_ *)
      destruct (negb (is_oriented (adj_t s))); [discriminate|].
      destruct (normal_offset o d (sv s) (st s)) as [v'|e] eqn:E; [|discriminate].
      intros H. inversion H; subst. split; [exact Ia|]. cbn [adj_n sv]. rewrite In. symmetry. eapply normal_offset_length; eauto.
  Qed.

  (* every state reachable by any history of operations (failing ones included) satisfies the invariant *)
  Theorem trun_inv ops : forall s, TInv s -> TInv (fst (trun o s ops)).
  Proof.
    induction ops as [|op tl IH]; intros s I; cbn [trun fst]; [exact I|].
    destruct (tstep o s op) as [[s1 r]|e] eqn:E.
    - specialize (IH s1 (tstep_inv _ _ _ _ I E)). destruct (trun o s1 tl). exact IH.
    - specialize (IH s I). destruct (trun o s tl). exact IH.
  Qed.

  (* hence every query on the live object equals the query on a freshly constructed one *)
  Theorem queries_equal_fresh s : TInv s ->
    q_closed s = q_closed (tfresh (sv s) (st s)) /\ q_manifold s = q_manifold (tfresh (sv s) (st s)) /\
    q_oriented s = q_oriented (tfresh (sv s) (st s)) /\ q_euler s = q_euler (tfresh (sv s) (st s)) /\
    q_vdeg s = q_vdeg (tfresh (sv s) (st s)) /\ q_loops s = q_loops (tfresh (sv s) (st s)).
  Proof.
    intros [Ia In]. unfold q_closed, q_manifold, q_oriented, q_euler, q_vdeg, q_loops, tfresh. cbn [adj_t adj_n st sv].
    rewrite Ia, In. repeat split; reflexivity.
  Qed.

  Theorem history_queries_equal_fresh v t ops :
    let s := fst (trun o (tfresh v t) ops) in
    q_closed s = q_closed (tfresh (sv s) (st s)) /\ q_manifold s = q_manifold (tfresh (sv s) (st s)) /\
    q_oriented s = q_oriented (tfresh (sv s) (st s)) /\ q_euler s = q_euler (tfresh (sv s) (st s)) /\
    q_vdeg s = q_vdeg (tfresh (sv s) (st s)) /\ q_loops s = q_loops (tfresh (sv s) (st s)).
  Proof. apply queries_equal_fresh. apply trun_inv. apply tfresh_inv. Qed.

  (* ---- tetra object *)
  Definition TTInv (s : ttstate (K:=K)) : Prop := tadj_t s = tt s /\ tadj_n s = length (tv s).
  Theorem ttstep_inv s op s' r : TTInv s -> ttstep o s op = Ok (s', r) -> TTInv s'.
  Proof.
    intros [Ia In]. destruct op; cbn [ttstep].
    - destruct (tet_orient o (tv s) (tt s)) as [t' n]. destruct n; intros H; inversion H; subst; [split; assumption|split; reflexivity].
    - destruct (rm_free_plan (length (tv s)) (tet_flat (tt s))) as [[[[[mask vkeep] vdel] look]|]|e]; [| |discriminate];
        intros H; inversion H; subst; [split; reflexivity|split; assumption].
  Qed.
End Inv.

(* ------------------------------------------------------------------ rm_free_vertices_ : index bookkeeping *)
Definition count_true (l : list bool) : nat := count_if (fun b => b) l.

Lemma cumsum_mask_nth pre b post acc :
  nth (length pre) (cumsum_mask (pre ++ b :: post) acc) 0 = acc + count_true pre + (if b then 1 else 0) - 1.
Proof.
  revert acc. induction pre as [|x pre IH]; intros acc; cbn [app length cumsum_mask nth].
  - unfold count_true, count_if. cbn. destruct b; lia.
  - rewrite IH. unfold count_true. rewrite count_if_cons. destruct x; lia.
Qed.

Lemma keep_by_mask_nth {A} (d : A) pre post (vpre vpost : list A) x : length vpre = length pre ->
  nth (count_true pre) (keep_by_mask (pre ++ true :: post) (vpre ++ x :: vpost)) d = x.
Proof.
  revert vpre. induction pre as [|b pre IH]; intros vpre Hl.
  - destruct vpre; [|discriminate]. reflexivity.
  - destruct vpre as [|y vpre]; [discriminate|]. cbn in Hl.
    unfold keep_by_mask in *. cbn [app combine filter fst]. unfold count_true. rewrite count_if_cons.
    destruct b; cbn [map snd nth Nat.add]; apply IH; lia.
Qed.

(* geometry is unchanged: the renumbered index of a used vertex points at the same coordinates *)
Theorem rm_free_lookup_preserves {A} (d : A) (mask : list bool) (v : list A) i :
  length v = length mask -> nth i mask false = true -> i < length mask ->
  nth (nth i (cumsum_mask mask 0) 0) (keep_by_mask mask v) d = nth i v d.
Proof.
  intros Hl Hm Hi.
  destruct (nth_split mask false Hi) as (pre & post & E & Lp). rewrite Hm in E.
  assert (Hiv : i < length v) by lia.
  destruct (nth_split v d Hiv) as (vpre & vpost & Ev & Lvp).
  remember (nth i v d) as x eqn:Hx. clear Hx.
  subst v mask. rewrite <- Lp. rewrite cumsum_mask_nth.
  replace (0 + count_true pre + 1 - 1) with (count_true pre) by lia.
  apply keep_by_mask_nth. lia.
Qed.

(* used_mask marks exactly the indices occurring in the elements *)
Lemma used_mask_nth vnum flat i : i < vnum -> nth i (used_mask vnum flat) false = memn i flat.
Proof.
  intros Hi. unfold used_mask, iota.
  assert (G : forall s n k, k < n -> nth k (map (fun i => memn i flat) (iota_from s n)) false = memn (s + k) flat).
  { intros s n. revert s. induction n as [|n IH]; intros s k Hk; [lia|]. destruct k as [|k]; cbn [iota_from map nth].
    - f_equal. lia.
    - rewrite IH by lia. f_equal. lia. }
  rewrite G by assumption. reflexivity.
Qed.
Lemma used_mask_length vnum flat : length (used_mask vnum flat) = vnum.
Proof. unfold used_mask. rewrite map_length. apply iota_length. Qed.
Lemma memn_in x l : memn x l = true <-> In x l.
Proof.
  unfold memn. rewrite existsb_exists. split.
  - intros (y & Hy & E). apply Nat.eqb_eq in E. subst. exact Hy.
  - intros H. exists x. split; [exact H|apply Nat.eqb_refl].
Qed.

Lemma maxn_lt l n : Forall (fun x => x < n) l -> n > 0 -> maxn l < n.
Proof. intros H Hn. induction H as [|x l Hx _ IH]; cbn [maxn fold_right]; [exact Hn|]. unfold maxn in IH. lia. Qed.

(* the plan deletes exactly the unused vertices and keeps the others in increasing order *)
Theorem rm_free_plan_spec vnum flat mask vkeep vdel look :
  rm_free_plan vnum flat = Ok (Some (mask, vkeep, vdel, look)) ->
  (forall i, In i vkeep <-> (i < vnum /\ In i flat)) /\
  (forall i, In i vdel <-> (i < vnum /\ ~ In i flat)) /\
  vdel <> [] /\ Forall (fun i => i < vnum) flat.
Proof.
  unfold rm_free_plan. destruct (Nat.leb_spec vnum (maxn flat)) as [Hle|Hlt]; [discriminate|].
  destruct (vdel_of (used_mask vnum flat)) as [|d0 dl] eqn:Ed; [discriminate|].
  intros H. inversion H; subst; clear H.
  assert (EN : forall i b, In (i, b) (enumerate (used_mask vnum flat)) <-> (i < vnum /\ b = memn i flat)).
  { intros i b. rewrite enumerate_in. split.
    - intros Hn. assert (i < vnum) by (rewrite <- (used_mask_length vnum flat); apply nth_error_Some; congruence).
      split; [assumption|]. rewrite <- (used_mask_nth vnum flat i) by assumption. symmetry. apply nth_error_nth with (d := false) in Hn. exact Hn.
    - intros [Hi ->]. rewrite <- (used_mask_nth vnum flat i Hi). apply nth_error_nth'. rewrite used_mask_length. exact Hi. }
  split; [|split; [|split]].
  - intros i. unfold vkeep_of. rewrite in_map_iff. split.
    + intros ([i' b] & E & Hin). cbn in E. subst i'. apply filter_In in Hin. destruct Hin as [Hin Hb]. cbn in Hb. subst b.
      apply EN in Hin. destruct Hin as [Hi Hm]. split; [assumption|]. apply memn_in. congruence.
    + intros [Hi Hin]. exists (i, true). split; [reflexivity|]. apply filter_In. split; [|reflexivity].
      apply EN. split; [assumption|]. symmetry. apply memn_in. assumption.
  - intros i. rewrite <- Ed. unfold vdel_of. rewrite in_map_iff. split.
    + intros ([i' b] & E & Hin). cbn in E. subst i'. apply filter_In in Hin. destruct Hin as [Hin Hb]. cbn in Hb.
      apply negb_true_iff in Hb. subst b. apply EN in Hin. destruct Hin as [Hi Hm]. split; [assumption|].
      intros Hc. apply memn_in in Hc. congruence.
    + intros [Hi Hin]. exists (i, false). split; [reflexivity|]. apply filter_In. split; [|reflexivity].
      apply EN. split; [assumption|]. destruct (memn i flat) eqn:M; [|reflexivity]. apply memn_in in M. contradiction.
  - discriminate.
  - apply Forall_forall. intros x Hx. apply maxn_ge in Hx. lia.
Qed.
