(* Proofs/HeatP.v -- heat diffusion is a conservative, uniquely solvable implicit Euler step; kernel symmetry (C07). *)
From Coq Require Import List Arith Bool PeanoNat Lia Reals Lra.
From LaPyV Require Import Base.Scalar Base.Vec3 Base.ListAux Base.Sparse Model.TetMesh Model.TriaAdj Model.Fem Model.TriaGeom
  Model.Heat Model.Poisson Proofs.SparseP Proofs.TetMeshP Proofs.FemTriaP Proofs.FemTetP Proofs.TriaAdjP Proofs.TriaGeomP
  Proofs.DiffGeoP Proofs.PoissonP.
Import ListNotations.
Open Scope R_scope.

Lemma bilin_scale f g t M : bil f (coo_scale Rops t M) g = t * bil f M g.
Proof. induction M as [|[[i j] a] M IH]; [cbn; ring|]. cbn [coo_scale map]. fold (coo_scale Rops t M). rewrite !bilin_cons, IH. cbn [mul Rops]. ring. Qed.

Lemma heat_matrix_bilin f g t A B : bil f (heat_matrix Rops t A B) g = bil f B g + t * bil f A g.
Proof. unfold heat_matrix. rewrite bilin_app, bilin_scale. reflexivity. Qed.

Lemma in_range_rows n M : in_range n M -> forall i j a, In (i, j, a) M -> (i < n)%nat.
Proof. intros H i j a Hin. unfold in_range in H. rewrite Forall_forall in H. specialize (H _ Hin). cbn in H. apply H. Qed.

(* C07: total heat.  If u solves (B + tA) u = b and A is symmetric and annihilates constants, then
   sum_ij B_ij u_j = sum_k b_k; for the indicator right-hand side that is the number of distinct seeds. *)
Theorem heat_conservation n t A B (u b : nat -> R) :
  (forall f g, bil f A g = bil g A f) -> (forall f c, bil f A (fun _ => c) = 0) ->
  in_range n (heat_matrix Rops t A B) ->
  (forall k, (k < n)%nat -> mv (heat_matrix Rops t A B) u k = b k) ->
  bil (fun _ => 1) B u = Rsum b (iota n).
Proof.
  intros Hs Hc Hr Hu.
  assert (E : bil (fun _ => 1) (heat_matrix Rops t A B) u = Rsum b (iota n)).
  { rewrite (bilin_rows _ _ _ n (in_range_rows n _ Hr)). apply Rsum_ext. intros k Hk. apply iota_from_in in Hk. rewrite Hu by lia. ring. }
  rewrite heat_matrix_bilin in E. rewrite (Hs (fun _ => 1) u), Hc in E. lra.
Qed.

Lemma heat_rhs_total n vids :
  Rsum (fun k => nth k (heat_rhs Rops n vids) 0) (iota n) = INR (length (filter (fun k => memn k vids) (iota n))).
Proof.
  unfold heat_rhs.
  rewrite (Rsum_ext _ (fun k => if memn k vids then 1 else 0)).
  - generalize (iota n). intros l. induction l as [|x l IH]; [reflexivity|]. cbn [Rsum filter].
    destruct (memn x vids); [cbn [length]; rewrite S_INR, IH; ring|rewrite IH; ring].
  - intros k Hk. apply iota_from_in in Hk. rewrite (nth_map_iota _ 0 n k) by lia. reflexivity.
Qed.

(* ---- positive definiteness of the triangle system for t >= 0: the solution is unique *)
Lemma lumped_form_pos v ts (u : nat -> R) : tria_nondeg v ts ->
  (exists a b c, In (a, b, c) ts /\ (u a <> 0 \/ u b <> 0 \/ u c <> 0)) ->
  0 < bil u (fem_tria_B Rops true v ts) u.
Proof.
  intros Hn (a & b & c & Hin & Hu). rewrite fem_tria_B_lumped_form.
  assert (Hpos : forall t, In t ts -> 0 < tria_vol4_fn v ts t).
  { intros t Ht. rewrite tria_vol4_fn_nondeg by assumption. unfold tria_nondeg in Hn. rewrite Forall_forall in Hn.
    specialize (Hn t Ht). cbv beta in Hn. lra. }
  (* every term is >= 0 and the term of (a,b,c) is > 0 *)
  assert (G : forall l, (forall t, In t l -> In t ts) ->
              0 <= Rsum (fun t => let '(t1, t2, t3) := t in tria_vol4_fn v ts t / 4 / 3 * (u t1 * u t1 + u t2 * u t2 + u t3 * u t3)) l).
  { intros l Hl. apply Rsum_nonneg. intros [[t1 t2] t3] Ht. assert (P := Hpos _ (Hl _ Ht)).
    apply Rmult_le_pos; [lra|]. nra. }
  apply in_split in Hin. destruct Hin as (l1 & l2 & ->). rewrite Rsum_app. cbn [Rsum].
  assert (P := Hpos (a, b, c) (in_or_app _ _ _ (or_intror (in_eq _ _)))).
  assert (G1 := G l1 (fun t Ht => in_or_app _ _ _ (or_introl Ht))).
  assert (G2 := G l2 (fun t Ht => in_or_app _ _ _ (or_intror (in_cons _ _ _ Ht)))).
  assert (0 < u a * u a + u b * u b + u c * u c).
  { destruct Hu as [H|[H|H]]; [assert (0 < u a * u a) by nra|assert (0 < u b * u b) by nra|assert (0 < u c * u c) by nra]; nra. }
  assert (X : 0 < tria_vol4_fn v (l1 ++ (a, b, c) :: l2) (a, b, c) / 4 / 3) by lra.
  pose proof (Rmult_lt_0_compat _ _ X H). lra.
Qed.

Theorem tria_heat_system_positive_definite v ts t (u : nat -> R) : tria_nondeg v ts -> 0 <= t ->
  (exists a b c, In (a, b, c) ts /\ (u a <> 0 \/ u b <> 0 \/ u c <> 0)) ->
  0 < bil u (heat_matrix Rops t (fem_tria_A Rops v ts) (fem_tria_B Rops true v ts)) u.
Proof.
  intros Hn Ht Hu. rewrite heat_matrix_bilin.
  assert (0 < bil u (fem_tria_B Rops true v ts) u) by (apply lumped_form_pos; assumption).
  assert (0 <= bil u (fem_tria_A Rops v ts) u) by (apply fem_tria_A_psd; assumption).
  nra.
Qed.

(* two solutions of the same system agree on every used vertex *)
Theorem tria_heat_solution_unique v ts t n (u w b : nat -> R) : tria_nondeg v ts -> 0 <= t ->
  let H := heat_matrix Rops t (fem_tria_A Rops v ts) (fem_tria_B Rops true v ts) in
  in_range n H ->
  (forall k, (k < n)%nat -> mv H u k = b k) -> (forall k, (k < n)%nat -> mv H w k = b k) ->
  forall a b' c, In (a, b', c) ts -> u a = w a /\ u b' = w b' /\ u c = w c.
Proof.
  intros Hn Ht H Hr Hu Hw a b' c Hin.
  set (d := fun k => u k - w k).
  assert (Z : bil d H d = 0).
  { rewrite (bilin_rows _ _ _ n (in_range_rows n _ Hr)). apply Rsum_zero. intros k Hk. apply iota_from_in in Hk.
    assert (E : mv H d k = mv H u k - mv H w k).
    { unfold d. rewrite (mv_ext H _ (fun j => u j + (- w j)) k) by (intros; ring). rewrite mv_plus.
      assert (N : mv H (fun j => - w j) k = - mv H w k).
      { clear. induction H as [|[[i j] a0] M IH]; [cbn; ring|]. rewrite !mv_cons, IH. destruct (Nat.eqb i k); ring. }
      rewrite N. ring. }
    rewrite E, Hu, Hw by lia. ring. }
  destruct (Req_dec (d a) 0) as [Ea|Na]; destruct (Req_dec (d b') 0) as [Eb|Nb]; destruct (Req_dec (d c) 0) as [Ec|Nc];
    try (unfold d in *; repeat split; lra);
    exfalso; assert (P : 0 < bil d H d) by (apply tria_heat_system_positive_definite; try assumption; exists a, b', c; split; [assumption|tauto]); lra.
Qed.

(* ---- kernel *)
Lemma fold_left_ext {A B} (f g : A -> B -> A) l a : (forall x y, f x y = g x y) -> fold_left f l a = fold_left g l a.
Proof. intros H. revert a. induction l as [|y l IH]; intros a; cbn [fold_left]; [reflexivity|]. rewrite H. apply IH. Qed.
Lemma kernel_at_sym t evals rp rq n : kernel_at Rops t evals rp rq n = kernel_at Rops t evals rq rp n.
Proof. unfold kernel_at. apply fold_left_ext. intros acc j. cbn [add mul Rops]. ring. Qed.

(* K_t(p, q) = K_t(q, p) *)
Theorem heat_kernel_symmetric ts evecs evals n p q d :
  nth p (heat_kernel Rops ts q evecs evals n) d = map (fun t => kernel_at Rops t evals (nth p evecs []) (nth q evecs []) n) ts \/ (length evecs <= p)%nat.
Proof.
  destruct (Nat.lt_ge_cases p (length evecs)) as [H|H]; [left|right; exact H].
  unfold heat_kernel. rewrite (nth_indep _ d (map (fun t => kernel_at Rops t evals [] (nth q evecs []) n) ts)) by (rewrite map_length; exact H).
  change (map (fun t => kernel_at Rops t evals [] (nth q evecs []) n) ts)
    with ((fun rp => map (fun t => kernel_at Rops t evals rp (nth q evecs []) n) ts) []).
  rewrite map_nth. reflexivity.
Qed.
Theorem heat_kernel_value_symmetric t evals (evecs : list (list R)) n p q :
  kernel_at Rops t evals (nth p evecs []) (nth q evecs []) n = kernel_at Rops t evals (nth q evecs []) (nth p evecs []) n.
Proof. apply kernel_at_sym. Qed.

(* diagonal(t, x) is the kernel at p = q = x *)
Theorem heat_diagonal_is_kernel_diagonal ts xs evecs evals n :
  heat_diagonal Rops ts xs evecs evals n = map (fun x => map (fun t => kernel_at Rops t evals (nth x evecs []) (nth x evecs []) n) ts) xs.
Proof. reflexivity. Qed.
