(* Proofs/MassInvarP.v -- the assembled mass forms (triangles and tetrahedra, full and lumped) do not depend on the order of the
   elements nor on the order of the indices inside an element (C02). *)
From Coq Require Import List Arith Bool Reals Lra Permutation.
From LaPyV Require Import Base.Scalar Base.Vec3 Base.ListAux Base.Sparse Model.TetMesh Model.TriaAdj Model.Fem Proofs.SparseP
  Proofs.TetMeshP Proofs.FemTriaP Proofs.FemTetP Proofs.FemInvarP Proofs.FemTetInvarP.
Import ListNotations.
Open Scope R_scope.

(* ---- triangles *)
Definition tria_mform (lump : bool) (f g : nat -> R) (a : R) (t : tri) : R :=
  if lump then let '(t1, t2, t3) := t in a / 3 * (f t1 * g t1 + f t2 * g t2 + f t3 * g t3) else tria_mass_form f g a t.

Lemma tria_B_raw lump v ts f g : tria_nondeg v ts ->
  bil f (fem_tria_B Rops lump v ts) g = Rsum (fun t => tria_mform lump f g (tria_vol4_raw Rops v t / 4) t) ts.
Proof.
  intros Hn. unfold tria_nondeg in Hn. rewrite Forall_forall in Hn.
  destruct lump; [rewrite fem_tria_B_lumped_form|rewrite fem_tria_B_full_form]; apply Rsum_ext; intros t Ht;
    unfold tria_vol4_fn; rewrite (fix_small_off _ _ _ (Hn t Ht)); unfold tria_mform; [destruct t as [[t1 t2] t3]|]; reflexivity.
Qed.
Lemma mform_rot lump f g a t : tria_mform lump f g a (rot_tri t) = tria_mform lump f g a t.
Proof. destruct t as [[t1 t2] t3]. destruct lump; unfold tria_mform, tria_mass_form, rot_tri; ring. Qed.
Lemma mform_flip lump f g a t : tria_mform lump f g a (flip_tri t) = tria_mform lump f g a t.
Proof. destruct t as [[t1 t2] t3]. destruct lump; unfold tria_mform, tria_mass_form, flip_tri; ring. Qed.
Lemma variant_mform lump f g a t t' : variant t t' -> tria_mform lump f g a t' = tria_mform lump f g a t.
Proof. induction 1; [reflexivity|rewrite mform_rot; assumption|rewrite mform_flip; assumption]. Qed.

Lemma variant_nondeg v ts ts' : tria_nondeg v ts -> Forall2 variant ts ts' -> tria_nondeg v ts'.
Proof.
  intros Hn HV. unfold tria_nondeg in *. induction HV as [|t t' l l' Vt Vl IH]; [constructor|]. inversion Hn as [|? ? Ht Hl]; subst.
  constructor; [rewrite (variant_vol4 v t t' Vt); exact Ht|apply IH; exact Hl].
Qed.

Theorem tria_mass_invariant_under_index_order lump v ts ts' f g : tria_nondeg v ts -> Forall2 variant ts ts' ->
  tria_nondeg v ts' /\ bil f (fem_tria_B Rops lump v ts') g = bil f (fem_tria_B Rops lump v ts) g.
Proof.
  intros Hn HV. pose proof (variant_nondeg v ts ts' Hn HV) as Hn'. split; [exact Hn'|].
  rewrite !tria_B_raw by assumption. clear Hn Hn'.
  induction HV as [|t t' l l' Vt Vl IH]; [reflexivity|]. cbn [Rsum].
  rewrite (variant_vol4 v t t' Vt), (variant_mform lump f g _ t t' Vt), IH. reflexivity.
Qed.
Theorem tria_mass_invariant_under_element_order lump v ts ts' f g : tria_nondeg v ts -> Permutation ts ts' ->
  tria_nondeg v ts' /\ bil f (fem_tria_B Rops lump v ts') g = bil f (fem_tria_B Rops lump v ts) g.
Proof.
  intros Hn P. assert (Hn' : tria_nondeg v ts') by (unfold tria_nondeg in *; apply (Permutation_Forall P); exact Hn).
  split; [exact Hn'|]. rewrite !tria_B_raw by assumption. symmetry. apply Rsum_perm. exact P.
Qed.

(* ---- tetrahedra *)
Definition tet_mform (lump : bool) (f g : nat -> R) (a : R) (t : tet) : R :=
  if lump then let '(t1, t2, t3, t4) := t in a / 4 * (f t1 * g t1 + f t2 * g t2 + f t3 * g t3 + f t4 * g t4) else tet_mass_form f g a t.

Lemma tet_B_raw lump v ts f g : tet_nondeg v ts ->
  bil f (fem_tet_B Rops lump v ts) g = Rsum (fun t => tet_mform lump f g (tetra_vol6_raw Rops v t / 6) t) ts.
Proof.
  intros Hn. unfold tet_nondeg in Hn. rewrite Forall_forall in Hn.
  destruct lump; [rewrite fem_tet_B_lumped_form|rewrite fem_tet_B_full_form]; apply Rsum_ext; intros t Ht;
    unfold tetra_vol6_fn; rewrite (Hn t Ht); unfold tet_mform; [destruct t as [[[t1 t2] t3] t4]|]; reflexivity.
Qed.
Lemma tmform_01 lump f g a t : tet_mform lump f g a (sw01 t) = tet_mform lump f g a t.
Proof. destruct t as [[[t1 t2] t3] t4]. destruct lump; unfold tet_mform, tet_mass_form, sw01; ring. Qed.
Lemma tmform_12 lump f g a t : tet_mform lump f g a (sw12 t) = tet_mform lump f g a t.
Proof. destruct t as [[[t1 t2] t3] t4]. destruct lump; unfold tet_mform, tet_mass_form, sw12; ring. Qed.
Lemma tmform_23 lump f g a t : tet_mform lump f g a (sw23 t) = tet_mform lump f g a t.
Proof. destruct t as [[[t1 t2] t3] t4]. destruct lump; unfold tet_mform, tet_mass_form, sw23; ring. Qed.
Lemma tvariant_mform lump f g a t t' : tvariant t t' -> tet_mform lump f g a t' = tet_mform lump f g a t.
Proof. induction 1; [reflexivity|rewrite tmform_01; assumption|rewrite tmform_12; assumption|rewrite tmform_23; assumption]. Qed.
Lemma tvariant_vol6 v t t' : tvariant t t' -> tetra_vol6_raw Rops v t' = tetra_vol6_raw Rops v t.
Proof. intros V. rewrite !vol6_is_abs_det. apply tvariant_absdet. exact V. Qed.
Lemma tvariant_nondeg v ts ts' : tet_nondeg v ts -> Forall2 tvariant ts ts' -> tet_nondeg v ts'.
Proof.
  intros Hn HV. unfold tet_nondeg in *. induction HV as [|t t' l l' Vt Vl IH]; [constructor|]. inversion Hn as [|? ? Ht Hl]; subst.
  constructor; [rewrite (tvariant_vol6 v t t' Vt); exact Ht|apply IH; exact Hl].
Qed.

Theorem tet_mass_invariant_under_index_order lump v ts ts' f g : tet_nondeg v ts -> Forall2 tvariant ts ts' ->
  tet_nondeg v ts' /\ bil f (fem_tet_B Rops lump v ts') g = bil f (fem_tet_B Rops lump v ts) g.
Proof.
  intros Hn HV. pose proof (tvariant_nondeg v ts ts' Hn HV) as Hn'. split; [exact Hn'|].
  rewrite !tet_B_raw by assumption. clear Hn Hn'.
  induction HV as [|t t' l l' Vt Vl IH]; [reflexivity|]. cbn [Rsum].
  rewrite (tvariant_vol6 v t t' Vt), (tvariant_mform lump f g _ t t' Vt), IH. reflexivity.
Qed.
Theorem tet_mass_invariant_under_element_order lump v ts ts' f g : tet_nondeg v ts -> Permutation ts ts' ->
  tet_nondeg v ts' /\ bil f (fem_tet_B Rops lump v ts') g = bil f (fem_tet_B Rops lump v ts) g.
Proof.
  intros Hn P. assert (Hn' : tet_nondeg v ts') by (unfold tet_nondeg in *; apply (Permutation_Forall P); exact Hn).
  split; [exact Hn'|]. rewrite !tet_B_raw by assumption. symmetry. apply Rsum_perm. exact P.
Qed.
