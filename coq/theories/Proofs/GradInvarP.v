(* Proofs/GradInvarP.v -- the per-element gradient does not depend on the order (winding / orientation) in which the indices of a
   non-degenerate element are listed (C06). *)
From Coq Require Import List Arith Bool Reals Lra.
From LaPyV Require Import Base.Scalar Base.Vec3 Base.ListAux Base.Sparse Model.TetMesh Model.TriaAdj Model.Fem Model.DiffGeo
  Proofs.SparseP Proofs.TetMeshP Proofs.FemTriaP Proofs.FemTetP Proofs.DiffGeoP Proofs.FemInvarP Proofs.FemTetInvarP.
Import ListNotations.
Open Scope R_scope.

(* ---- triangles *)
Lemma tri_guard_iff v t : tri_guard_off v t <-> 0 < tri_NN_of v t.
Proof.
  destruct t as [[a b] c]. split; [intros H; exact (guard_off_NN v a b c H)|].
  unfold tri_guard_off, tri_NN_of, tri_edges, tri_pts. generalize (getv Rops v a) (getv Rops v b) (getv Rops v c). intros p0 p1 p2.
  rewrite code_normal_is_tri_N. intros H. unfold norm, norm2. cbn [sqrtK Rops]. fold (tri_NN p0 p1 p2). apply sqrt_lt_R0. exact H.
Qed.
Lemma NN_of_rot v t : tri_NN_of v (rot_tri t) = tri_NN_of v t.
Proof. destruct t as [[a b] c]. unfold tri_NN_of, rot_tri, tri_pts. apply tri_NN_rot. Qed.
Lemma NN_of_flip v t : tri_NN_of v (flip_tri t) = tri_NN_of v t.
Proof. destruct t as [[a b] c]. unfold tri_NN_of, flip_tri, tri_pts. apply tri_NN_flip. Qed.
Lemma grad1_rot v f t : tri_guard_off v t -> tria_grad1 Rops v f (rot_tri t) = tria_grad1 Rops v f t.
Proof.
  intros H. assert (H' : tri_guard_off v (rot_tri t)) by (apply tri_guard_iff; rewrite NN_of_rot; apply tri_guard_iff; exact H).
  apply tri_guard_iff in H as P. destruct t as [[a b] c]. unfold rot_tri in *.
  pose proof (tria_grad1_is_spec v f a b c H) as S. pose proof (tria_grad1_is_spec v f b c a H') as S'.
  unfold tri_NN_of in P. unfold tri_pts in *. rewrite S, S'. apply tri_grad_rot. lra.
Qed.
Lemma grad1_flip v f t : tri_guard_off v t -> tria_grad1 Rops v f (flip_tri t) = tria_grad1 Rops v f t.
Proof.
  intros H. assert (H' : tri_guard_off v (flip_tri t)) by (apply tri_guard_iff; rewrite NN_of_flip; apply tri_guard_iff; exact H).
  apply tri_guard_iff in H as P. destruct t as [[a b] c]. unfold flip_tri in *.
  pose proof (tria_grad1_is_spec v f a b c H) as S. pose proof (tria_grad1_is_spec v f b a c H') as S'.
  unfold tri_NN_of in P. unfold tri_pts in *. rewrite S, S'. apply tri_grad_flip. lra.
Qed.
Theorem tria_gradient_invariant_under_index_order v f t t' : tri_guard_off v t -> variant t t' ->
  tri_guard_off v t' /\ tria_grad1 Rops v f t' = tria_grad1 Rops v f t.
Proof.
  intros H V. induction V as [t|t t' V IH|t t' V IH]; [split; [exact H|reflexivity]| |]; destruct (IH H) as [G E]; split.
  - apply tri_guard_iff. rewrite NN_of_rot. apply tri_guard_iff. exact G.
  - rewrite grad1_rot; assumption.
  - apply tri_guard_iff. rewrite NN_of_flip. apply tri_guard_iff. exact G.
  - rewrite grad1_flip; assumption.
Qed.

(* ---- tetrahedra *)
Lemma tet_guard_iff v t : tet_guard_off v t <-> tet_det_of v t <> 0.
Proof.
  destruct t as [[[a b] c] d]. unfold tet_guard_off, tet_det_of, tet_pts. rewrite code_det. split; intros H E; apply H; lra.
Qed.
Lemma tgrad1_sw v f t : tet_guard_off v t ->
  tet_grad1 Rops v f (sw01 t) = tet_grad1 Rops v f t /\ tet_grad1 Rops v f (sw12 t) = tet_grad1 Rops v f t /\
  tet_grad1 Rops v f (sw23 t) = tet_grad1 Rops v f t.
Proof.
  intros H. apply tet_guard_iff in H as D.
  assert (H01 : tet_guard_off v (sw01 t)) by (apply tet_guard_iff; rewrite det_of_sw01; lra).
  assert (H12 : tet_guard_off v (sw12 t)) by (apply tet_guard_iff; rewrite det_of_sw12; lra).
  assert (H23 : tet_guard_off v (sw23 t)) by (apply tet_guard_iff; rewrite det_of_sw23; lra).
  destruct t as [[[a b] c] d]. unfold sw01, sw12, sw23 in *.
  pose proof (tet_grad1_is_spec v f a b c d H) as S. pose proof (tet_grad1_is_spec v f b a c d H01) as S01.
  pose proof (tet_grad1_is_spec v f a c b d H12) as S12. pose proof (tet_grad1_is_spec v f a b d c H23) as S23.
  unfold tet_det_of in D. unfold tet_pts in *. rewrite S, S01, S12, S23.
  split; [apply grad_sw01; exact D|]. split; [apply grad_sw12; exact D|apply grad_sw23; exact D].
Qed.
Theorem tet_gradient_invariant_under_index_order v f t t' : tet_guard_off v t -> tvariant t t' ->
  tet_guard_off v t' /\ tet_grad1 Rops v f t' = tet_grad1 Rops v f t.
Proof.
  intros H V. induction V as [t|t t' V IH|t t' V IH|t t' V IH]; [split; [exact H|reflexivity]| | |]; destruct (IH H) as [G E];
    apply tet_guard_iff in G as D; destruct (tgrad1_sw v f t' G) as (E1 & E2 & E3); split.
  - apply tet_guard_iff. rewrite det_of_sw01. lra.
  - rewrite E1. exact E.
  - apply tet_guard_iff. rewrite det_of_sw12. lra.
  - rewrite E2. exact E.
  - apply tet_guard_iff. rewrite det_of_sw23. lra.
  - rewrite E3. exact E.
Qed.
