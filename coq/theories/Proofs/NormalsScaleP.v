(* Proofs/NormalsScaleP.v -- C13: tria_normals (whole list, degenerate triangles included) is unchanged by positive uniform scaling. *)
From Coq Require Import List Arith Bool PeanoNat Lia Reals Lra.
From LaPyV Require Import Base.Scalar Base.Vec3 Base.ListAux Base.Sparse Model.TetMesh Model.TriaAdj Model.TriaOrient
  Model.Fem Model.TriaGeom Proofs.SparseP Proofs.TetMeshP Proofs.TriaAdjP Proofs.FemTriaP Proofs.InvarianceP Proofs.TriaGeomP.
Import ListNotations.
Open Scope R_scope.
Local Notation V3 := (vec3 R).

Lemma scale_cross s (a b : V3) : cross Rops (vscaleR s a) (vscaleR s b) = vscaleR (s * s) (cross Rops a b).
Proof. r3 a; r3 b. unfold vscaleR, vscale, cross, vx, vy, vz. cbn [fst snd sub mul Rops]. f_equal; [f_equal|]; ring. Qed.

Lemma norm_scale_nonneg c (n : V3) : 0 <= c -> norm Rops (vscaleR c n) = c * norm Rops n.
Proof.
  intros Hc. unfold norm, norm2. fold (dotR (vscaleR c n) (vscaleR c n)). rewrite scale_dot. cbn [sqrtK Rops].
  assert (Hd : 0 <= dotR n n) by (r3 n; unfold dot, vx, vy, vz; cbn; nra).
  rewrite sqrt_mult by nra. rewrite sqrt_square by exact Hc. reflexivity.
Qed.

Theorem tria_normals_scale_invariant s v ts : 0 < s -> tris_in_range (length v) ts ->
  tria_normals Rops (map (vscaleR s) v) ts = tria_normals Rops v ts.
Proof.
  intros Hs Hr. unfold tria_normals. apply map_ext_in. intros [[a b] d] Ht.
  unfold tris_in_range in Hr. rewrite Forall_forall in Hr. specialize (Hr _ Ht). cbn in Hr. destruct Hr as (Ha & Hb & Hd).
  unfold tria_normal, tri_pts. rewrite !getv_map by assumption.
  fold (subR (vscaleR s (getv Rops v b)) (vscaleR s (getv Rops v a))). fold (subR (vscaleR s (getv Rops v d)) (vscaleR s (getv Rops v a))).
  rewrite !scale_sub, scale_cross. set (n := cross Rops _ _).
  assert (Hc : 0 < s * s) by nra.
  rewrite norm_scale_nonneg by lra. set (L := norm Rops n).
  unfold guard_zero_len. cbn [eqb zero one Rops].
  destruct (Reqb L 0) eqn:E.
  - apply Reqb_true in E. rewrite E. replace (s * s * 0) with 0 by ring.
    assert (E0 : Reqb 0 0 = true) by (apply Reqb_true; reflexivity). rewrite E0.
    (* a zero-length cross product is the zero vector *)
    assert (Hn : n = (0, 0, 0)).
    { unfold L, norm, norm2 in E. cbn [sqrtK Rops] in E. r3 n. unfold dot, vx, vy, vz in E. cbn [fst snd add mul Rops] in E.
      assert (H0 : x * x + y * y + z * z = 0) by (apply sqrt_eq_0; [nra|exact E]).
      assert (x = 0) by nra. assert (y = 0) by nra. assert (z = 0) by nra. subst. reflexivity. }
    rewrite Hn. unfold vscaleR, vscale, vdivs, vx, vy, vz. cbn [fst snd mul div Rops]. f_equal; [f_equal|]; field.
  - assert (E' : Reqb (s * s * L) 0 = false).
    { destruct (Reqb (s * s * L) 0) eqn:E2; [|reflexivity]. apply Reqb_true in E2.
      assert (L = 0) by nra. subst. assert (Reqb 0 0 = true) by (apply Reqb_true; reflexivity). congruence. }
    rewrite E'. assert (HL : L <> 0) by (intros H0; rewrite H0 in E; assert (Reqb 0 0 = true) by (apply Reqb_true; reflexivity); congruence).
    r3 n. unfold vscaleR, vscale, vdivs, vx, vy, vz. cbn [fst snd mul div Rops]. f_equal; [f_equal|]; field; split; lra.
Qed.
