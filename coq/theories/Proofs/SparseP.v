(* Proofs/SparseP.v -- assembly lemmas for triplet-list matrices over R. *)
From Coq Require Import List Arith Bool PeanoNat Permutation Lia Reals Lra.
From LaPyV Require Import Base.Scalar Base.ListAux Base.Sparse.
Import ListNotations.
Open Scope R_scope.

Notation bil := (bilin Rops).
Notation ent := (entry Rops).

Fixpoint Rsum {X} (h : X -> R) (xs : list X) : R := match xs with [] => 0 | x :: tl => h x + Rsum h tl end.

Lemma Rsum_app {X} (h : X -> R) a b : Rsum h (a ++ b) = Rsum h a + Rsum h b.
Proof. induction a as [|x a IH]; cbn; [ring|rewrite IH; ring]. Qed.
Lemma Rsum_ext {X} (h k : X -> R) xs : (forall x, In x xs -> h x = k x) -> Rsum h xs = Rsum k xs.
Proof. induction xs as [|x xs IH]; intros H; cbn; [reflexivity|]. rewrite H by (left; reflexivity). rewrite IH; [reflexivity|]. intros; apply H; right; assumption. Qed.
Lemma Rsum_nonneg {X} (h : X -> R) xs : (forall x, In x xs -> 0 <= h x) -> 0 <= Rsum h xs.
Proof. induction xs as [|x xs IH]; intros H; cbn; [lra|]. assert (0 <= h x) by (apply H; left; reflexivity). assert (0 <= Rsum h xs) by (apply IH; intros; apply H; right; assumption). lra. Qed.
Lemma Rsum_pos {X} (h : X -> R) xs : xs <> [] -> (forall x, In x xs -> 0 < h x) -> 0 < Rsum h xs.
Proof.
  destruct xs as [|x xs]; [contradiction|]. intros _ H. cbn.
  assert (0 < h x) by (apply H; left; reflexivity).
  assert (0 <= Rsum h xs) by (apply Rsum_nonneg; intros; apply Rlt_le, H; right; assumption). lra.
Qed.
Lemma Rsum_zero {X} (h : X -> R) xs : (forall x, In x xs -> h x = 0) -> Rsum h xs = 0.
Proof. induction xs as [|x xs IH]; intros H; cbn; [reflexivity|]. rewrite H by (left; reflexivity). rewrite IH; [ring|]. intros; apply H; right; assumption. Qed.
Lemma Rsum_plus {X} (h k : X -> R) xs : Rsum (fun x => h x + k x) xs = Rsum h xs + Rsum k xs.
Proof. induction xs as [|x xs IH]; cbn; [ring|rewrite IH; ring]. Qed.
Lemma Rsum_scal {X} c (h : X -> R) xs : Rsum (fun x => c * h x) xs = c * Rsum h xs.
Proof. induction xs as [|x xs IH]; cbn; [ring|rewrite IH; ring]. Qed.
Lemma Rsum_perm {X} (h : X -> R) xs ys : Permutation xs ys -> Rsum h xs = Rsum h ys.
Proof. intros P. induction P; cbn; try lra. Qed.
Lemma Rsum_map {X Y} (h : Y -> R) (m : X -> Y) xs : Rsum h (map m xs) = Rsum (fun x => h (m x)) xs.
Proof. induction xs as [|x xs IH]; cbn; [reflexivity|rewrite IH; reflexivity]. Qed.
Lemma Rsum_le {X} (h k : X -> R) xs : (forall x, In x xs -> h x <= k x) -> Rsum h xs <= Rsum k xs.
Proof. induction xs as [|x xs IH]; intros H; cbn; [lra|]. assert (h x <= k x) by (apply H; left; reflexivity). assert (Rsum h xs <= Rsum k xs) by (apply IH; intros; apply H; right; assumption). lra. Qed.

Lemma bilin_nil f g : bil f [] g = 0.
Proof. reflexivity. Qed.
Lemma bilin_cons f g i j a M : bil f ((i, j, a) :: M) g = f i * a * g j + bil f M g.
Proof. reflexivity. Qed.
Lemma bilin_app f g M N : bil f (M ++ N) g = bil f M g + bil f N g.
Proof. induction M as [|[[i j] a] M IH]; [cbn [app]; rewrite bilin_nil; ring|]. rewrite <- app_comm_cons, !bilin_cons, IH. ring. Qed.
Lemma bilin_flat_map {X} f g (blk : X -> coo R) xs :
  bil f (flat_map blk xs) g = Rsum (fun x => bil f (blk x) g) xs.
Proof. induction xs as [|x xs IH]; [reflexivity|]. cbn [flat_map Rsum]. rewrite bilin_app, IH. reflexivity. Qed.
Lemma bilin_perm f g M N : Permutation M N -> bil f M g = bil f N g.
Proof. intros P. induction P as [|[[i j] a]|[[i j] a] [[i' j'] a']|]; rewrite ?bilin_cons; lra. Qed.

Lemma entry_bilin M i j : ent M i j = bil (delta Rops i) M (delta Rops j).
Proof.
  induction M as [|[[i' j'] a] M IH]; [reflexivity|].
  rewrite bilin_cons, <- IH. cbn [entry fold_right]. fold (ent M i j).
  unfold delta. cbn [one zero Rops add].
  destruct (Nat.eqb i' i), (Nat.eqb j' j); cbn [andb]; ring.
Qed.
Lemma mulvec_bilin M x i : mulvec_at Rops M x i = bil (delta Rops i) M x.
Proof.
  induction M as [|[[i' j'] a] M IH]; [reflexivity|].
  rewrite bilin_cons, <- IH. cbn [mulvec_at fold_right]. fold (mulvec_at Rops M x i).
  unfold delta. cbn [one zero Rops add mul]. destruct (Nat.eqb i' i); ring.
Qed.
(* bilinear form as the pairing of f with M g *)
Lemma bilin_rows f g M n : (forall i j a, In (i, j, a) M -> (i < n)%nat) ->
  bil f M g = Rsum (fun i => f i * mulvec_at Rops M g i) (iota n).
Proof.
  intros H. induction M as [|[[i j] a] M IH].
  - cbn. symmetry. apply Rsum_zero. intros; ring.
  - rewrite bilin_cons, IH by (intros; eapply H; right; eassumption).
    assert (Hi : (i < n)%nat) by (eapply H; left; reflexivity).
    cbn [mulvec_at fold_right]. fold (mulvec_at Rops M g).
    cbn [add mul Rops].
    rewrite (Rsum_ext (fun i0 => f i0 * (if Nat.eqb i i0 then a * g j + mulvec_at Rops M g i0 else mulvec_at Rops M g i0))
                      (fun i0 => (if Nat.eqb i i0 then f i0 * a * g j else 0) + f i0 * mulvec_at Rops M g i0)).
    2:{ intros k _. destruct (Nat.eqb i k); ring. }
    rewrite Rsum_plus. f_equal.
    (* the indicator sum picks out k = i exactly once *)
    unfold iota. clear - Hi. assert (G : forall s m, Rsum (fun i0 => if Nat.eqb i i0 then f i0 * a * g j else 0) (iota_from s m)
                                    = if (Nat.leb s i && Nat.ltb i (s + m))%bool then f i * a * g j else 0).
    { intros s m. revert s. induction m as [|m IHm]; intros s; cbn [iota_from Rsum].
      - replace (s + 0)%nat with s by lia. destruct (Nat.leb_spec s i), (Nat.ltb_spec i s); cbn; try reflexivity; lia.
      - rewrite IHm.
        destruct (Nat.eqb_spec i s) as [->|Hne].
        + destruct (Nat.leb_spec (S s) s); [lia|]. cbn [andb].
          destruct (Nat.leb_spec s s); [|lia]. destruct (Nat.ltb_spec s (s + S m)); [|lia]. cbn. ring.
        + destruct (Nat.leb_spec (S s) i), (Nat.leb_spec s i), (Nat.ltb_spec i (S s + m)), (Nat.ltb_spec i (s + S m)); cbn [andb]; try ring; lia. }
    rewrite G. destruct (Nat.leb_spec 0 i); [|lia]. destruct (Nat.ltb_spec i (0 + n)); [reflexivity|lia].
Qed.

Lemma entry_sym_of_bilin_sym M : (forall f g, bil f M g = bil g M f) -> forall i j, ent M i j = ent M j i.
Proof. intros H i j. rewrite !entry_bilin. apply H. Qed.

Lemma entry_flat_map {X} (blk : X -> coo R) xs i j :
  ent (flat_map blk xs) i j = Rsum (fun x => ent (blk x) i j) xs.
Proof. rewrite entry_bilin, bilin_flat_map. apply Rsum_ext. intros; rewrite entry_bilin; reflexivity. Qed.
Lemma entry_perm M N i j : Permutation M N -> ent M i j = ent N i j.
Proof. intros P. rewrite !entry_bilin. apply bilin_perm; assumption. Qed.

Lemma coo_sum_all_bilin M : coo_sum_all Rops M = bil (fun _ => 1) M (fun _ => 1).
Proof. induction M as [|[[i j] a] M IH]; [reflexivity|]. rewrite bilin_cons, <- IH. unfold coo_sum_all. cbn [fold_right add Rops]. ring. Qed.

Lemma flat_map_combine_map {X Y Z} (h : X -> Y) (blk : X * Y -> list Z) xs :
  flat_map blk (combine xs (map h xs)) = flat_map (fun x => blk (x, h x)) xs.
Proof. induction xs as [|x xs IH]; [reflexivity|]. cbn. rewrite IH. reflexivity. Qed.
