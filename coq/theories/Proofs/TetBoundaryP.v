(* Proofs/TetBoundaryP.v -- the boundary surface of a face-manifold tetrahedral mesh is closed: every edge of it lies in an even
   number of boundary faces (C12). *)
From Coq Require Import List Arith Bool PeanoNat Lia Permutation.
From LaPyV Require Import Base.ListAux Model.TetMesh Model.TriaAdj Proofs.SortP Proofs.TetMeshP Proofs.TriaAdjP Proofs.OrientPairP.
Import ListNotations.

Definition distinct_tet (t : tet) : Prop :=
  let '(a, b, c, d) := t in a <> b /\ a <> c /\ a <> d /\ b <> c /\ b <> d /\ c <> d.
Definition tet_has (t : tet) (i : nat) : bool := let '(a, b, c, d) := t in Nat.eqb a i || Nat.eqb b i || Nat.eqb c i || Nat.eqb d i.
Definition has2 (i j : nat) (f : tri) : bool := tri_has f i && tri_has f j.
(* every face (as a vertex set) belongs to at most two tetrahedra *)
Definition face_manifold (ts : list tet) : Prop := forall f, In f (all_faces ts) -> facekey_count (sort3 f) (all_faces ts) <= 2.

Lemma tri_count_has2 F i j : tri_count F i j = count_if (has2 i j) F.
Proof. reflexivity. Qed.

(* ---- each tetrahedron containing the edge contributes exactly two of its faces *)
Lemma four_faces_count t i j : distinct_tet t -> i <> j ->
  (if has2 i j (face0 t) then 1 else 0) + (if has2 i j (face1 t) then 1 else 0) + (if has2 i j (face2 t) then 1 else 0)
  + (if has2 i j (face3 t) then 1 else 0) = if tet_has t i && tet_has t j then 2 else 0.
Proof.
  destruct t as [[[a b] c] d]. intros (H1 & H2 & H3 & H4 & H5 & H6) Hij. unfold has2, tri_has, tet_has, face0, face1, face2, face3.
  destruct (Nat.eqb_spec a i), (Nat.eqb_spec b i), (Nat.eqb_spec c i), (Nat.eqb_spec d i),
           (Nat.eqb_spec a j), (Nat.eqb_spec b j), (Nat.eqb_spec c j), (Nat.eqb_spec d j); subst; cbn; try reflexivity; congruence.
Qed.
Lemma all_faces_count ts i j : Forall distinct_tet ts -> i <> j ->
  count_if (has2 i j) (all_faces ts) = 2 * count_if (fun t => tet_has t i && tet_has t j) ts.
Proof.
  intros Hd Hij. unfold all_faces. rewrite !count_if_app.
  induction ts as [|t ts IH]; [reflexivity|]. inversion Hd as [|? ? Ht Hd']; subst.
  cbn [map]. rewrite !count_if_cons. specialize (IH Hd'). pose proof (four_faces_count t i j Ht Hij) as Q.
  destruct (tet_has t i && tet_has t j); lia.
Qed.

(* ---- a list in which every key occurs exactly twice: any key-invariant predicate holds on an even number of elements *)
Section Pairs.
  Context (p : tri -> bool).
  Context (p_key : forall f g, sort3 f = sort3 g -> p f = p g).
  Lemma facekey_count_cons k f F : facekey_count k (f :: F) = (if tri_eqb (sort3 f) k then 1 else 0) + facekey_count k F.
  Proof. unfold facekey_count. cbn [filter]. destruct (tri_eqb (sort3 f) k); reflexivity. Qed.
  Lemma facekey_count_app k F G : facekey_count k (F ++ G) = facekey_count k F + facekey_count k G.
  Proof. unfold facekey_count. rewrite filter_app, app_length. reflexivity. Qed.
  Lemma facekey_pos k F : facekey_count k F >= 1 -> exists F1 g F2, F = F1 ++ g :: F2 /\ sort3 g = k.
  Proof.
    induction F as [|f F IH]; intros H; [cbn in H; lia|]. rewrite facekey_count_cons in H.
    destruct (tri_eqb (sort3 f) k) eqn:E.
    - apply tri_eqb_spec in E. exists [], f, F. auto.
    - destruct (IH ltac:(lia)) as (F1 & g & F2 & -> & Hg). exists (f :: F1), g, F2. auto.
  Qed.
  Lemma pairs_even : forall n F, length F <= n -> (forall f, In f F -> facekey_count (sort3 f) F = 2) ->
    exists m, count_if p F = 2 * m.
  Proof.
    induction n as [|n IH]; intros F Hn H.
    - destruct F; [exists 0; reflexivity|cbn in Hn; lia].
    - destruct F as [|f F]; [exists 0; reflexivity|].
      pose proof (H f (or_introl eq_refl)) as Hf. rewrite facekey_count_cons in Hf.
      assert (Eff : tri_eqb (sort3 f) (sort3 f) = true) by (apply tri_eqb_spec; reflexivity). rewrite Eff in Hf.
      destruct (facekey_pos (sort3 f) F ltac:(lia)) as (F1 & g & F2 & -> & Hg).
      assert (Hrest : forall h, In h (F1 ++ F2) -> facekey_count (sort3 h) (F1 ++ F2) = 2).
      { intros h Hh. assert (Hin : In h (f :: F1 ++ g :: F2)).
        { right. apply in_app_iff. apply in_app_iff in Hh. destruct Hh; [left|right; right]; assumption. }
        pose proof (H h Hin) as Hc. rewrite facekey_count_cons, facekey_count_app, facekey_count_cons in Hc.
        rewrite facekey_count_app.
        (* h's key differs from f's key: otherwise f, g, h would be three occurrences *)
        destruct (tri_eqb (sort3 f) (sort3 h)) eqn:E1.
        - exfalso. apply tri_eqb_spec in E1. rewrite facekey_count_app, facekey_count_cons in Hf.
          rewrite Hg, Eff in Hf.
          assert (facekey_count (sort3 f) (F1 ++ F2) >= 1).
          { rewrite E1. unfold facekey_count. change (count_if (fun g0 => tri_eqb (sort3 g0) (sort3 h)) (F1 ++ F2) >= 1).
            apply count_if_pos_iff. exists h. split; [exact Hh|apply tri_eqb_spec; reflexivity]. }
          rewrite facekey_count_app in H0. lia.
        - destruct (tri_eqb (sort3 g) (sort3 h)) eqn:E2; [|lia].
          apply tri_eqb_spec in E2. rewrite Hg in E2. rewrite E2 in E1.
          assert (tri_eqb (sort3 h) (sort3 h) = true) by (apply tri_eqb_spec; reflexivity). congruence. }
      destruct (IH (F1 ++ F2)) as (m & Hm); [cbn [length] in Hn; rewrite app_length in *; cbn [length] in Hn; lia|exact Hrest|].
      rewrite count_if_cons, count_if_app, count_if_cons. rewrite count_if_app in Hm.
      rewrite (p_key g f Hg). exists ((if p f then 1 else 0) + m). destruct (p f); lia.
  Qed.
End Pairs.

Ltac try6 := first [ left; repeat f_equal; lia | right; try6 ].
Lemma sort3_cases a b c : In (sort3 (a, b, c)) [(a, b, c); (a, c, b); (b, a, c); (b, c, a); (c, a, b); (c, b, a)].
Proof.
  unfold sort3. cbn [In].
  destruct (Nat.le_ge_cases a b), (Nat.le_ge_cases b c), (Nat.le_ge_cases a c); try6.
Qed.
Lemma tri_has_sort3 f i : tri_has (sort3 f) i = tri_has f i.
Proof.
  destruct f as [[a b] c]. pose proof (sort3_cases a b c) as H. cbn [In] in H.
  destruct H as [H|[H|[H|[H|[H|[H|[]]]]]]]; rewrite <- H; unfold tri_has;
    destruct (Nat.eqb a i), (Nat.eqb b i), (Nat.eqb c i); reflexivity.
Qed.
Lemma has2_key i j f g : sort3 f = sort3 g -> has2 i j f = has2 i j g.
Proof. intros H. unfold has2. rewrite <- (tri_has_sort3 f i), <- (tri_has_sort3 f j), H, !tri_has_sort3. reflexivity. Qed.

Lemma count_if_partition {A} (p q : A -> bool) l : count_if p l = count_if p (filter q l) + count_if p (filter (fun x => negb (q x)) l).
Proof.
  induction l as [|x l IH]; [reflexivity|]. cbn [filter]. destruct (q x); cbn [negb]; rewrite !count_if_cons, IH; lia.
Qed.
Lemma facekey_filter_sub k (q : tri -> bool) F : (forall f, sort3 f = k -> q f = true) -> facekey_count k (filter q F) = facekey_count k F.
Proof.
  intros H. induction F as [|f F IH]; [reflexivity|]. cbn [filter]. destruct (q f) eqn:Q.
  - rewrite !facekey_count_cons, IH. reflexivity.
  - rewrite facekey_count_cons, IH. destruct (tri_eqb (sort3 f) k) eqn:E; [|reflexivity].
    apply tri_eqb_spec in E. rewrite (H f E) in Q. discriminate.
Qed.
Lemma facekey_in f F : In f F -> facekey_count (sort3 f) F >= 1.
Proof.
  intros H. unfold facekey_count. change (count_if (fun g => tri_eqb (sort3 g) (sort3 f)) F >= 1).
  apply count_if_pos_iff. exists f. split; [exact H|apply tri_eqb_spec; reflexivity].
Qed.
Lemma single_keys_nodup : forall l, (forall f, In f l -> facekey_count (sort3 f) l = 1) -> NoDup l.
Proof.
  induction l as [|f l IH]; intros H; [constructor|].
  assert (Eff : tri_eqb (sort3 f) (sort3 f) = true) by (apply tri_eqb_spec; reflexivity).
  pose proof (H f (or_introl eq_refl)) as Hf. rewrite facekey_count_cons, Eff in Hf.
  constructor.
  - intros Hin. apply facekey_in in Hin. lia.
  - apply IH. intros h Hh. pose proof (H h (or_intror Hh)) as Hc. rewrite facekey_count_cons in Hc.
    pose proof (facekey_in h l Hh). destruct (tri_eqb (sort3 f) (sort3 h)); lia.
Qed.

Theorem tet_boundary_even ts i j : Forall distinct_tet ts -> face_manifold ts -> i <> j ->
  exists m, tri_count (tet_boundary_tria ts) i j = 2 * m.
Proof.
  intros Hd Hm Hij. set (F := all_faces ts). set (B := tet_boundary_tria ts).
  set (q := fun f => Nat.eqb (facekey_count (sort3 f) F) 1).
  assert (Hq_key : forall f g, sort3 f = sort3 g -> q f = q g) by (intros f g E; unfold q; rewrite E; reflexivity).
  (* the boundary is the sub-list of faces whose key occurs once *)
  assert (PB : Permutation B (filter q F)).
  { apply NoDup_Permutation.
    - apply (NoDup_map_inv sort3). apply tet_boundary_each_once.
    - apply single_keys_nodup. intros f Hf. apply filter_In in Hf. destruct Hf as [Hf Hqf].
      rewrite facekey_filter_sub; [apply Nat.eqb_eq; exact Hqf|].
      intros g Eg. rewrite (Hq_key g f Eg). exact Hqf.
    - intros f. unfold B. rewrite tet_boundary_spec, filter_In. unfold q. fold F. rewrite Nat.eqb_eq. reflexivity. }
  (* the other faces come in pairs *)
  destruct (pairs_even (has2 i j) (has2_key i j) (length (filter (fun x => negb (q x)) F)) (filter (fun x => negb (q x)) F) (le_n _))
    as (m2 & Hm2).
  { intros f Hf. apply filter_In in Hf. destruct Hf as [Hf Hqf]. apply negb_true_iff in Hqf.
    rewrite facekey_filter_sub.
    - unfold q in Hqf. apply Nat.eqb_neq in Hqf. pose proof (Hm f Hf). pose proof (facekey_in f F Hf). fold F in H. lia.
    - intros g Eg. rewrite (Hq_key g f Eg), Hqf. reflexivity. }
  pose proof (all_faces_count ts i j Hd Hij) as HF. fold F in HF.
  rewrite (count_if_partition (has2 i j) q F) in HF.
  rewrite tri_count_has2, (count_if_perm _ _ _ PB).
  exists (count_if (fun t => tet_has t i && tet_has t j) ts - m2). lia.
Qed.

Lemma face_distinct t f : distinct_tet t -> In f [face0 t; face1 t; face2 t; face3 t] -> distinct_tri f.
Proof.
  destruct t as [[[a b] c] d]. intros (H1 & H2 & H3 & H4 & H5 & H6). cbn [In face0 face1 face2 face3].
  intros [<-|[<-|[<-|[<-|[]]]]]; cbn; repeat split; congruence.
Qed.
Lemma all_faces_in ts f : In f (all_faces ts) <-> exists t, In t ts /\ In f [face0 t; face1 t; face2 t; face3 t].
Proof.
  unfold all_faces. rewrite !in_app_iff, !in_map_iff. cbn [In]. split.
  - intros [(t & <- & H)|[(t & <- & H)|[(t & <- & H)|(t & <- & H)]]]; exists t; auto 8.
  - intros (t & Ht & [<-|[<-|[<-|[<-|[]]]]]); [left|right; left|right; right; left|right; right; right]; exists t; auto.
Qed.

(* is_closed of the boundary surface *)
Theorem tet_boundary_closed ts : Forall distinct_tet ts -> face_manifold ts -> is_closed (tet_boundary_tria ts) = true.
Proof.
  intros Hd Hm. apply is_closed_iff.
  - rewrite Forall_forall. intros f Hf. apply tet_boundary_spec in Hf. destruct Hf as [Hf _].
    apply all_faces_in in Hf. destruct Hf as (t & Ht & Hin). rewrite Forall_forall in Hd. apply (face_distinct t f (Hd t Ht) Hin).
  - intros i j Hij Hc. destruct (tet_boundary_even ts i j Hd Hm Hij) as (m & E). lia.
Qed.

(* ---- boolean forms of the hypotheses *)
Definition distinct_tet_b (ts : list tet) : bool :=
  forallb (fun '(a, b, c, d) => negb (Nat.eqb a b) && negb (Nat.eqb a c) && negb (Nat.eqb a d) && negb (Nat.eqb b c)
                                && negb (Nat.eqb b d) && negb (Nat.eqb c d)) ts.
Lemma distinct_tet_b_ok ts : distinct_tet_b ts = true -> Forall distinct_tet ts.
Proof.
  unfold distinct_tet_b. rewrite forallb_forall, Forall_forall. intros H [[[a b] c] d] Hin. specialize (H _ Hin). cbn in H.
  repeat (apply andb_true_iff in H; destruct H as [H ?]).
  repeat match goal with G : negb (Nat.eqb _ _) = true |- _ => apply negb_true_iff, Nat.eqb_neq in G end. cbn. auto 10.
Qed.
Definition face_manifold_b (ts : list tet) : bool :=
  forallb (fun f => Nat.leb (facekey_count (sort3 f) (all_faces ts)) 2) (all_faces ts).
Lemma face_manifold_b_ok ts : face_manifold_b ts = true -> face_manifold ts.
Proof. unfold face_manifold_b, face_manifold. rewrite forallb_forall. intros H f Hf. apply Nat.leb_le. apply H. exact Hf. Qed.
