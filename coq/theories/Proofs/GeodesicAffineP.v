(* Proofs/GeodesicAffineP.v -- geodesic function of an affine function on a flat triangle mesh (C08): the right-hand side the
   solver receives is exactly -A u for the unit-slope affine function u = (a/|a|).x, so -u + const solves the system. *)
From Coq Require Import List Arith Bool PeanoNat Lia Reals Lra.
From LaPyV Require Import Base.Scalar Base.Vec3 Base.ListAux Base.Sparse Model.TetMesh Model.TriaAdj Model.Fem Model.TriaGeom
  Model.DiffGeo Model.Poisson Model.Geodesic Proofs.SparseP Proofs.TetMeshP Proofs.FemTriaP Proofs.TriaAdjP Proofs.TriaGeomP Proofs.DiffGeoP.
Import ListNotations.
Open Scope R_scope.

Definition affine_on (v : list V3) (a : V3) (b0 : R) (f : nat -> R) (t : tri) : Prop :=
  let '(i, j, k) := t in f i = dotR a (getv Rops v i) + b0 /\ f j = dotR a (getv Rops v j) + b0 /\ f k = dotR a (getv Rops v k) + b0.
(* the direction a lies in the plane of triangle t *)
Definition in_plane (v : list V3) (a : V3) (t : tri) : Prop :=
  let '(p0, p1, p2) := tri_pts Rops v t in dotR a (tri_N p0 p1 p2) = 0.

Lemma grad_affine_in_plane v a b0 f t : tri_guard_off v t -> affine_on v a b0 f t -> in_plane v a t -> tria_grad1 Rops v f t = a.
Proof.
  destruct t as [[i j] k]. intros Hg (Ei & Ej & Ek) Hp.
  pose proof (tria_grad1_is_spec v f i j k Hg) as S. pose proof (guard_off_NN v i j k Hg) as N.
  unfold in_plane in Hp. unfold tri_pts in *. cbn [tri_pts] in *.
  set (p0 := getv Rops v i) in *. set (p1 := getv Rops v j) in *. set (p2 := getv Rops v k) in *.
  rewrite S, Ei, Ej, Ek, tri_grad_affine by lra. rewrite Hp.
  destruct a as [[a0 a1] a2]. generalize (tri_N p0 p1 p2). intros n. destruct n as [[n0 n1] n2]. unfv. f_equal; [f_equal|]; field; lra.
Qed.

Definition unit_dir (a : V3) : V3 := vdivs Rops a (norm Rops a).
Lemma norm_pos a : a <> (0, 0, 0) -> 0 < norm Rops a.
Proof.
  intros H. unfold norm, norm2. cbn [sqrtK Rops]. apply sqrt_lt_R0. destruct a as [[a0 a1] a2]. unfv.
  destruct (Req_dec a0 0) as [->|H0]; [destruct (Req_dec a1 0) as [->|H1]; [destruct (Req_dec a2 0) as [->|H2]; [congruence|]|]|]; nra.
Qed.
Lemma unit_or_zero_nonzero a : a <> (0, 0, 0) -> unit_or_zero Rops a = unit_dir a.
Proof.
  intros H. unfold unit_or_zero, unit_dir. cbn [eqb zero Rops]. pose proof (norm_pos a H) as P.
  destruct (Reqb (norm Rops a) 0) eqn:E; [apply Reqb_true in E; lra|reflexivity].
Qed.
Lemma in_plane_unit v a t : a <> (0, 0, 0) -> in_plane v a t -> in_plane v (unit_dir a) t.
Proof.
  intros Ha. unfold in_plane. destruct (tri_pts Rops v t) as [[p0 p1] p2]. intros H. unfold unit_dir.
  pose proof (norm_pos a Ha) as P. generalize dependent (norm Rops a). intros L P.
  generalize dependent (tri_N p0 p1 p2). intros n. destruct a as [[a0 a1] a2]. destruct n as [[n0 n1] n2]. unfv. intros H.

  transitivity ((a0 * n0 + a1 * n1 + a2 * n2) / L); [field; lra|]. rewrite H. field. lra.
Qed.

(* unit(grad f) = grad u triangle by triangle *)
Theorem geodesic_field_is_gradient_of_unit_slope v ts a b0 (f : nat -> R) : a <> (0, 0, 0) ->
  Forall (tri_guard_off v) ts -> Forall (affine_on v a b0 f) ts -> Forall (in_plane v a) ts ->
  map (unit_or_zero Rops) (map (tria_grad1 Rops v f) ts)
  = map (tria_grad1 Rops v (fun i => dotR (unit_dir a) (getv Rops v i))) ts.
Proof.
  intros Ha Hg Hf Hp. rewrite map_map. apply map_ext_in. intros t Ht. rewrite Forall_forall in Hg, Hf, Hp.
  rewrite (grad_affine_in_plane v a b0 f t (Hg t Ht) (Hf t Ht) (Hp t Ht)), (unit_or_zero_nonzero a Ha).
  symmetry. apply (grad_affine_in_plane v (unit_dir a) 0 _ t (Hg t Ht)); [|apply in_plane_unit; auto].
  destruct t as [[i j] k]. cbn. repeat split; ring.
Qed.

(* hence the right-hand side handed to the solver is -A u, tested against every phi: g = -u + const solves A g = rhs *)
Theorem geodesic_rhs_of_affine_on_flat_mesh v ts a b0 (fl : list R) (phi : nat -> R) : a <> (0, 0, 0) ->
  Forall (tri_guard_off v) ts -> tria_nondeg v ts -> Forall (affine_on v a b0 (vfun Rops fl)) ts -> Forall (in_plane v a) ts ->
  Rsum (fun k => phi k * nth k (geodesic_rhs_tria Rops v ts fl) 0) (iota (div_len (tri_flat ts)))
  = - bil phi (fem_tria_A Rops v ts) (fun i => dotR (unit_dir a) (getv Rops v i)).
Proof.
  intros Ha Hg Hn Hf Hp. unfold geodesic_rhs_tria, tria_compute_gradient.
  rewrite (geodesic_field_is_gradient_of_unit_slope v ts a b0 (vfun Rops fl) Ha Hg Hf Hp).
  apply tria_div_grad_is_minus_A; assumption.
Qed.
