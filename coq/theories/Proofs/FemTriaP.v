(* Proofs/FemTriaP.v -- theorems about the triangle FEM assembly (C01, C02) over R. *)
From Coq Require Import List Arith Bool PeanoNat Permutation Lia Reals Lra.
From LaPyV Require Import Base.Scalar Base.Vec3 Base.ListAux Base.Sparse Model.TetMesh Model.Fem
  Proofs.SparseP Proofs.TetMeshP.
Import ListNotations.
Open Scope R_scope.

Notation V3 := (vec3 R).
Notation dotR := (dot Rops).
Notation crossR := (cross Rops).
Notation subR := (vsub Rops).

(* ------------------------------------------------------------------ element blocks *)
Lemma block9_bilin f g t1 t2 t3 a12 a23 a31 a11 a22 a33 :
  bil f (block9 (t1, t2, t3) a12 a23 a31 a11 a22 a33) g =
    a12 * (f t1 * g t2 + f t2 * g t1) + a23 * (f t2 * g t3 + f t3 * g t2) + a31 * (f t3 * g t1 + f t1 * g t3)
    + a11 * f t1 * g t1 + a22 * f t2 * g t2 + a33 * f t3 * g t3.
Proof. unfold block9. rewrite !bilin_cons, bilin_nil. ring. Qed.

Lemma stiff_block_bilin f g t1 t2 t3 a12 a23 a31 :
  bil f (stiff_block Rops (t1, t2, t3) (a12, a23, a31)) g =
    - (a12 * (f t1 - f t2) * (g t1 - g t2) + a23 * (f t2 - f t3) * (g t2 - g t3)
       + a31 * (f t3 - f t1) * (g t3 - g t1)).
Proof. unfold stiff_block. rewrite block9_bilin. cbn [opp sub Rops]. ring. Qed.

Lemma diag3_bilin f g t1 t2 t3 b :
  bil f (diag3 (t1, t2, t3) b) g = b * (f t1 * g t1 + f t2 * g t2 + f t3 * g t3).
Proof. unfold diag3. rewrite !bilin_cons, bilin_nil. ring. Qed.

(* ------------------------------------------------------------------ C01 (1),(2): any volumes *)
Theorem fem_tria_A_bilin_sym v ts f g : bil f (fem_tria_A Rops v ts) g = bil g (fem_tria_A Rops v ts) f.
Proof.
  unfold fem_tria_A. rewrite !bilin_flat_map. apply Rsum_ext. intros [[[t1 t2] t3] vol] _.
  destruct (tria_cots Rops v (t1, t2, t3) vol) as [[a12 a23] a31]. rewrite !stiff_block_bilin. ring.
Qed.
Theorem fem_tria_A_sym v ts i j : ent (fem_tria_A Rops v ts) i j = ent (fem_tria_A Rops v ts) j i.
Proof. apply entry_sym_of_bilin_sym. intros; apply fem_tria_A_bilin_sym. Qed.

Theorem fem_tria_A_const v ts f c : bil f (fem_tria_A Rops v ts) (fun _ => c) = 0.
Proof.
  unfold fem_tria_A. rewrite bilin_flat_map. apply Rsum_zero. intros [[[t1 t2] t3] vol] _.
  destruct (tria_cots Rops v (t1, t2, t3) vol) as [[a12 a23] a31]. rewrite stiff_block_bilin. ring.
Qed.
Theorem fem_tria_A_rowsum v ts c i : mulvec_at Rops (fem_tria_A Rops v ts) (fun _ => c) i = 0.
Proof. rewrite mulvec_bilin. apply fem_tria_A_const. Qed.

(* ------------------------------------------------------------------ geometry of one triangle *)
Definition tri_N (p1 p2 p3 : V3) : V3 := crossR (subR p3 p2) (subR p1 p3).
Definition tri_NN (p1 p2 p3 : V3) : R := dotR (tri_N p1 p2 p3) (tri_N p1 p2 p3).
Definition tri_area (p1 p2 p3 : V3) : R := sqrt (tri_NN p1 p2 p3) / 2.
(* spec gradient of the linear interpolant: N x (f1 e1 + f2 e2 + f3 e3) / |N|^2,
   e_i the edge opposite vertex i *)
Definition tri_gradnum (p1 p2 p3 : V3) (f1 f2 f3 : R) : V3 :=
  crossR (tri_N p1 p2 p3)
    (vadd Rops (vadd Rops (vscale Rops f1 (subR p3 p2)) (vscale Rops f2 (subR p1 p3))) (vscale Rops f3 (subR p2 p1))).
Definition tri_grad (p1 p2 p3 : V3) (f1 f2 f3 : R) : V3 :=
  vdivs Rops (tri_gradnum p1 p2 p3 f1 f2 f3) (tri_NN p1 p2 p3).

Ltac r3 p := let x := fresh "x" in let y := fresh "y" in let z := fresh "z" in destruct p as [[x y] z].
Ltac unf := unfold tri_grad, tri_gradnum, tri_NN, tri_N, dot, cross, vsub, vadd, vscale, vdivs, vx, vy, vz;
            cbn [fst snd add sub mul div opp Rops].

Lemma tri_NN_nonneg p1 p2 p3 : 0 <= tri_NN p1 p2 p3.
Proof. unfold tri_NN. generalize (tri_N p1 p2 p3). intros n. r3 n. unfold dot, vx, vy, vz. cbn. nra. Qed.

(* the spec gradient is characterised by: correct increments along two edges, tangent *)
Theorem tri_grad_char p1 p2 p3 f1 f2 f3 : tri_NN p1 p2 p3 <> 0 ->
  dotR (tri_grad p1 p2 p3 f1 f2 f3) (subR p2 p1) = f2 - f1 /\
  dotR (tri_grad p1 p2 p3 f1 f2 f3) (subR p3 p1) = f3 - f1 /\
  dotR (tri_grad p1 p2 p3 f1 f2 f3) (tri_N p1 p2 p3) = 0.
Proof.
  intros H. r3 p1; r3 p2; r3 p3. revert H. unf. intros H. repeat split; field; exact H.
Qed.

(* numerator identity behind the cotangent formula *)
Definition tri_P (p1 p2 p3 : V3) (f1 f2 f3 g1 g2 g3 : R) : R :=
  - (dotR (subR p3 p2) (subR p1 p3) * (f1 - f2) * (g1 - g2)
     + dotR (subR p1 p3) (subR p2 p1) * (f2 - f3) * (g2 - g3)
     + dotR (subR p2 p1) (subR p3 p2) * (f3 - f1) * (g3 - g1)).
Lemma tri_poly_id p1 p2 p3 f1 f2 f3 g1 g2 g3 :
  tri_P p1 p2 p3 f1 f2 f3 g1 g2 g3 * tri_NN p1 p2 p3 =
  dotR (tri_gradnum p1 p2 p3 f1 f2 f3) (tri_gradnum p1 p2 p3 g1 g2 g3).
Proof. r3 p1; r3 p2; r3 p3. unfold tri_P. unf. ring. Qed.

(* element energy: the code's block (vol = 2 sqrt(N.N)) is area * grad f . grad g *)
Theorem tria_elem_energy v t1 t2 t3 f g :
  let '(p1, p2, p3) := tri_pts Rops v (t1, t2, t3) in
  0 < tri_NN p1 p2 p3 ->
  bil f (stiff_block Rops (t1, t2, t3) (tria_cots Rops v (t1, t2, t3) (tria_vol4_raw Rops v (t1, t2, t3)))) g
  = tri_area p1 p2 p3 * dotR (tri_grad p1 p2 p3 (f t1) (f t2) (f t3)) (tri_grad p1 p2 p3 (g t1) (g t2) (g t3)).
Proof.
  unfold tri_pts. set (p1 := getv Rops v t1). set (p2 := getv Rops v t2). set (p3 := getv Rops v t3).
  intros Hpos.
  unfold tria_cots, tria_vol4_raw, tri_pts. fold p1 p2 p3. rewrite stiff_block_bilin.
  fold (tri_N p1 p2 p3). fold (tri_NN p1 p2 p3).
  cbn [two one add sub mul div opp sqrtK Rops].
  set (L := sqrt (tri_NN p1 p2 p3)).
  assert (HL : L * L = tri_NN p1 p2 p3) by (apply sqrt_sqrt; lra).
  assert (HLp : 0 < L) by (apply sqrt_lt_R0; assumption).
  unfold tri_area. fold L.
  (* grad f . grad g = (gradnum f . gradnum g) / NN^2 *)
  assert (Hdot : dotR (tri_grad p1 p2 p3 (f t1) (f t2) (f t3)) (tri_grad p1 p2 p3 (g t1) (g t2) (g t3))
                 = dotR (tri_gradnum p1 p2 p3 (f t1) (f t2) (f t3)) (tri_gradnum p1 p2 p3 (g t1) (g t2) (g t3))
                   / (tri_NN p1 p2 p3 * tri_NN p1 p2 p3)).
  { unfold tri_grad. generalize (tri_gradnum p1 p2 p3 (f t1) (f t2) (f t3)) (tri_gradnum p1 p2 p3 (g t1) (g t2) (g t3)).
    intros a b. r3 a; r3 b. unfold dot, vdivs, vx, vy, vz. cbn [fst snd add mul div Rops]. field. lra. }
  rewrite Hdot, <- tri_poly_id. unfold tri_P. rewrite <- HL.
  generalize (dotR (subR p3 p2) (subR p1 p3)) (dotR (subR p1 p3) (subR p2 p1)) (dotR (subR p2 p1) (subR p3 p2)).
  intros d12 d23 d31. field. lra.
Qed.

(* ------------------------------------------------------------------ non-degenerate meshes *)
Definition tria_nondeg (v : list V3) (ts : list tri) : Prop :=
  Forall (fun t => 0 < tria_vol4_raw Rops v t) ts.

Lemma eps52_pos : 0 < eps52 Rops.
Proof. unfold eps52, frac. cbn [div ofZ Rops]. lra. Qed.

(* the guard replaces only an exactly vanishing value *)
Lemma fix_small_off thr repl x : 0 < x -> fix_small Rops thr repl x = x.
Proof.
  intros H. unfold fix_small. cbn [eqb zero Rops].
  destruct (Reqb x 0) eqn:E; [|reflexivity]. exfalso. revert E. unfold Reqb. destruct (Req_EM_T x 0); [lra|discriminate].
Qed.
Lemma tria_vols4_nondeg v ts : tria_nondeg v ts -> tria_vols4 Rops v ts = map (tria_vol4_raw Rops v) ts.
Proof.
  intros H. unfold tria_vols4. rewrite map_map. apply map_ext_in. intros t Ht.
  unfold tria_nondeg in H. rewrite Forall_forall in H. rewrite (fix_small_off _ _ _ (H t Ht)). reflexivity.
Qed.

Lemma tria_nondeg_NN v t1 t2 t3 : 0 < tria_vol4_raw Rops v (t1, t2, t3) ->
  let '(p1, p2, p3) := tri_pts Rops v (t1, t2, t3) in 0 < tri_NN p1 p2 p3.
Proof.
  unfold tria_vol4_raw, tri_pts. set (p1 := getv Rops v t1). set (p2 := getv Rops v t2). set (p3 := getv Rops v t3).
  fold (tri_N p1 p2 p3). fold (tri_NN p1 p2 p3). intros H.
  cbn [two one add mul sqrtK Rops] in H.
  destruct (Rle_lt_or_eq_dec _ _ (tri_NN_nonneg p1 p2 p3)) as [Hp|Hz]; [exact Hp|].
  exfalso. rewrite <- Hz, sqrt_0 in H. lra.
Qed.

Definition tria_energy (v : list V3) (f g : nat -> R) (t : tri) : R :=
  let '(t1, t2, t3) := t in
  let '(p1, p2, p3) := tri_pts Rops v t in
  tri_area p1 p2 p3 * dotR (tri_grad p1 p2 p3 (f t1) (f t2) (f t3)) (tri_grad p1 p2 p3 (g t1) (g t2) (g t3)).

(* C01 (3): the bilinear form of the assembled matrix is the PL Dirichlet form *)
Theorem fem_tria_A_energy v ts f g : tria_nondeg v ts ->
  bil f (fem_tria_A Rops v ts) g = Rsum (tria_energy v f g) ts.
Proof.
  intros H. unfold fem_tria_A. rewrite (tria_vols4_nondeg v ts H), flat_map_combine_map, bilin_flat_map.
  apply Rsum_ext. intros [[t1 t2] t3] Ht. unfold tria_nondeg in H. rewrite Forall_forall in H.
  assert (Hn := tria_nondeg_NN v t1 t2 t3 (H _ Ht)). assert (He := tria_elem_energy v t1 t2 t3 f g).
  unfold tria_energy. destruct (tri_pts Rops v (t1, t2, t3)) as [[p1 p2] p3]. apply He. exact Hn.
Qed.

(* C01 (4): positive semi-definite *)
Theorem fem_tria_A_psd v ts f : tria_nondeg v ts -> 0 <= bil f (fem_tria_A Rops v ts) f.
Proof.
  intros H. rewrite fem_tria_A_energy by assumption. apply Rsum_nonneg. intros [[t1 t2] t3] _.
  unfold tria_energy. destruct (tri_pts Rops v (t1, t2, t3)) as [[p1 p2] p3].
  apply Rmult_le_pos.
  - unfold tri_area. assert (0 <= sqrt (tri_NN p1 p2 p3)) by apply sqrt_pos. lra.
  - generalize (tri_grad p1 p2 p3 (f t1) (f t2) (f t3)). intros a. r3 a. unfold dot, vx, vy, vz. cbn. nra.
Qed.

(* C01 (5): every denominator used by the assembly is non-zero *)
Theorem fem_tria_A_denominators v ts : tria_nondeg v ts -> Forall (fun vol => vol <> 0) (tria_vols4 Rops v ts).
Proof.
  intros H. rewrite tria_vols4_nondeg by assumption. apply Forall_forall. intros x Hx.
  apply in_map_iff in Hx. destruct Hx as (t & <- & Ht). unfold tria_nondeg in H. rewrite Forall_forall in H.
  specialize (H t Ht). lra.
Qed.

(* ------------------------------------------------------------------ C02: mass matrix *)
Definition tria_vol4_pos (v : list V3) (ts : list tri) : Prop := Forall (fun x => 0 < x) (tria_vols4 Rops v ts).

Lemma tria_nondeg_vol4_pos v ts : tria_nondeg v ts -> tria_vol4_pos v ts.
Proof.
  intros H. unfold tria_vol4_pos. rewrite tria_vols4_nondeg by assumption. apply Forall_forall. intros x Hx.
  apply in_map_iff in Hx. destruct Hx as (t & <- & Ht). unfold tria_nondeg in H. rewrite Forall_forall in H.
  specialize (H t Ht). lra.
Qed.

Theorem fem_tria_B_bilin_sym lump v ts f g : bil f (fem_tria_B Rops lump v ts) g = bil g (fem_tria_B Rops lump v ts) f.
Proof.
  unfold fem_tria_B. rewrite !bilin_flat_map. apply Rsum_ext. intros [[[t1 t2] t3] vol] _.
  destruct lump; [rewrite !diag3_bilin|rewrite !block9_bilin]; ring.
Qed.
Theorem fem_tria_B_sym lump v ts i j : ent (fem_tria_B Rops lump v ts) i j = ent (fem_tria_B Rops lump v ts) j i.
Proof. apply entry_sym_of_bilin_sym. intros; apply fem_tria_B_bilin_sym. Qed.

(* every stored triplet is strictly positive *)
Theorem fem_tria_B_stored_positive lump v ts : tria_vol4_pos v ts ->
  Forall (fun '(_, _, a) => 0 < a) (fem_tria_B Rops lump v ts).
Proof.
  unfold tria_vol4_pos, fem_tria_B. intros H. apply Forall_forall. intros [[i j] a] Hin.
  apply in_flat_map in Hin. destruct Hin as ([[[t1 t2] t3] vol] & Hc & Hin).
  apply in_combine_r in Hc. rewrite Forall_forall in H. specialize (H vol Hc).
  cbn [div ofZ Rops] in Hin.
  assert (0 < vol / 12 /\ 0 < vol / 48 /\ 0 < vol / 24) as (A & B & C) by (repeat split; lra).
  destruct lump; cbn [diag3 block9 In] in Hin;
    repeat (destruct Hin as [Hin|Hin]; [inversion Hin; subst; assumption|]); destruct Hin.
Qed.

(* closed form of the element mass form *)
Definition tria_mass_form (f g : nat -> R) (a : R) (t : tri) : R :=
  let '(t1, t2, t3) := t in
  a / 12 * ((f t1 * g t1 + f t2 * g t2 + f t3 * g t3) + (f t1 + f t2 + f t3) * (g t1 + g t2 + g t3)).
(* edge-midpoint quadrature (exact for quadratics) of the product of the interpolants *)
Definition tria_mass_midpoint (f g : nat -> R) (a : R) (t : tri) : R :=
  let '(t1, t2, t3) := t in
  a / 3 * ((f t1 + f t2) / 2 * ((g t1 + g t2) / 2) + (f t2 + f t3) / 2 * ((g t2 + g t3) / 2)
           + (f t3 + f t1) / 2 * ((g t3 + g t1) / 2)).
Lemma tria_mass_form_midpoint f g a t : tria_mass_form f g a t = tria_mass_midpoint f g a t.
Proof. destruct t as [[t1 t2] t3]. unfold tria_mass_form, tria_mass_midpoint. field. Qed.

Definition tria_vol4_fn (v : list V3) (ts : list tri) : tri -> R :=
  fun t => fix_small Rops (eps52 Rops) (frac Rops 1 10000 * meanK Rops (map (tria_vol4_raw Rops v) ts)) (tria_vol4_raw Rops v t).
Lemma tria_vols4_map v ts : tria_vols4 Rops v ts = map (tria_vol4_fn v ts) ts.
Proof. unfold tria_vols4, tria_vol4_fn. rewrite map_map. reflexivity. Qed.

Theorem fem_tria_B_full_form v ts f g :
  bil f (fem_tria_B Rops false v ts) g = Rsum (fun t => tria_mass_form f g (tria_vol4_fn v ts t / 4) t) ts.
Proof.
  unfold fem_tria_B. rewrite tria_vols4_map, flat_map_combine_map, bilin_flat_map. apply Rsum_ext. intros [[t1 t2] t3] _.
  rewrite block9_bilin. unfold tria_mass_form. cbn [div ofZ Rops]. field.
Qed.
Theorem fem_tria_B_lumped_form v ts f g :
  bil f (fem_tria_B Rops true v ts) g =
  Rsum (fun t => let '(t1, t2, t3) := t in tria_vol4_fn v ts t / 4 / 3 * (f t1 * g t1 + f t2 * g t2 + f t3 * g t3)) ts.
Proof.
  unfold fem_tria_B. rewrite tria_vols4_map, flat_map_combine_map, bilin_flat_map. apply Rsum_ext. intros [[t1 t2] t3] _.
  rewrite diag3_bilin. cbn [div ofZ Rops]. field.
Qed.

(* entries sum to the total area (vol/4), both variants *)
Theorem fem_tria_B_total lump v ts :
  coo_sum_all Rops (fem_tria_B Rops lump v ts) = Rsum (fun t => tria_vol4_fn v ts t / 4) ts.
Proof.
  rewrite coo_sum_all_bilin. destruct lump; [rewrite fem_tria_B_lumped_form|rewrite fem_tria_B_full_form];
    apply Rsum_ext; intros [[t1 t2] t3] _; unfold tria_mass_form; field.
Qed.

(* the lumped matrix is the diagonal of the row sums of the full one *)
Theorem fem_tria_B_lumped_is_rowsum v ts f :
  bil f (fem_tria_B Rops true v ts) (fun _ => 1) = bil f (fem_tria_B Rops false v ts) (fun _ => 1).
Proof.
  rewrite fem_tria_B_lumped_form, fem_tria_B_full_form. apply Rsum_ext; intros [[t1 t2] t3] _; unfold tria_mass_form; field.
Qed.
Theorem fem_tria_B_lumped_diagonal v ts i j : i <> j -> ent (fem_tria_B Rops true v ts) i j = 0.
Proof.
  intros Hij. rewrite entry_bilin, fem_tria_B_lumped_form. apply Rsum_zero. intros [[t1 t2] t3] _.
  unfold delta. cbn [one zero Rops].
  destruct (Nat.eqb_spec t1 i), (Nat.eqb_spec t1 j), (Nat.eqb_spec t2 i), (Nat.eqb_spec t2 j),
           (Nat.eqb_spec t3 i), (Nat.eqb_spec t3 j); subst; try contradiction; try ring; congruence.
Qed.

(* on a non-degenerate mesh the volumes are the true 4*areas *)
Lemma tria_vol4_fn_nondeg v ts t : tria_nondeg v ts -> In t ts -> tria_vol4_fn v ts t = tria_vol4_raw Rops v t.
Proof.
  intros H Ht. unfold tria_nondeg in H. rewrite Forall_forall in H. unfold tria_vol4_fn.
  rewrite (fix_small_off _ _ _ (H t Ht)). reflexivity.
Qed.
Lemma tria_vol4_raw_area v t1 t2 t3 :
  let '(p1, p2, p3) := tri_pts Rops v (t1, t2, t3) in tria_vol4_raw Rops v (t1, t2, t3) / 4 = tri_area p1 p2 p3.
Proof.
  unfold tria_vol4_raw, tri_pts, tri_area. set (p1 := getv Rops v t1). set (p2 := getv Rops v t2). set (p3 := getv Rops v t3).
  fold (tri_N p1 p2 p3). fold (tri_NN p1 p2 p3). cbn [two one add mul sqrtK Rops]. field.
Qed.

(* positive definiteness of the full mass form on each element *)
Lemma tria_mass_form_pos f a t : 0 < a -> 0 <= tria_mass_form f f a t.
Proof. destruct t as [[t1 t2] t3]. intros Ha. unfold tria_mass_form.
  assert (H : 0 <= (f t1 * f t1 + f t2 * f t2 + f t3 * f t3) + (f t1 + f t2 + f t3) * (f t1 + f t2 + f t3)).
  { generalize (f t1) (f t2) (f t3). intros x y z.
    pose proof (Rle_0_sqr x). pose proof (Rle_0_sqr y). pose proof (Rle_0_sqr z). pose proof (Rle_0_sqr (x + y + z)).
    unfold Rsqr in *. lra. }
  apply Rmult_le_pos; [lra|exact H].
Qed.

(* non-vacuity: the unit right triangle is non-degenerate in the sense of the guard *)
Example tria_nondeg_example : tria_nondeg [(0, 0, 0); (1, 0, 0); (0, 1, 0)] [(0, 1, 2)%nat].
Proof.
  constructor; [|constructor].
  unfold tria_vol4_raw, tri_pts, getv. cbn [nth]. unfold dot, cross, vsub, vx, vy, vz. cbn [fst snd two one add sub mul sqrtK Rops].
  match goal with |- context [sqrt ?x] => replace x with 1 by ring end. rewrite sqrt_1. lra.
Qed.
