(* Chk/EffectsRules.v -- the rules the regenerated effects table (gen/C20/Effects.v) must satisfy,
   as a boolean decision procedure with its specification.  The table is produced from /repo's
   source on every run by harness/effects_extract.py. *)
From Coq Require Import List Bool String Ascii Arith.
Import ListNotations.
Open Scope string_scope.

Inductive eff :=
| AssignAttr (obj attr : string)
| StoreInto (root : string)
| CallMutator (root meth : string)
| CallInit
| CopyFrom (attr param : string)
| Unknown (what : string).
Record fentry := mkF { f_module : string; f_class : string; f_name : string; f_effects : list eff }.

Fixpoint last_char (s : string) : option ascii :=
  match s with
  | EmptyString => None
  | String c EmptyString => Some c
  | String _ tl => last_char tl
  end.
Definition ends_underscore (s : string) : bool :=
  match last_char s with Some c => Ascii.eqb c "_"%char | None => false end.
Definition is_ctor (f : fentry) : bool := String.eqb (f_name f) "__init__".
Definition is_mesh_class (f : fentry) : bool := String.eqb (f_class f) "TriaMesh" || String.eqb (f_class f) "TetMesh".
Definition starts_with (p s : string) : bool := String.eqb (substring 0 (String.length p) s) p.

(* an effect that modifies the vertices / elements of a mesh handed to the function, or a caller-owned array *)
Definition writes_mesh_or_caller (e : eff) : bool :=
  match e with
  | AssignAttr obj attr => (String.eqb attr "v" || String.eqb attr "t")
  | StoreInto root => true
  | CallMutator _ _ => true
  | Unknown _ => true
  | _ => false
  end.
(* R2: writes into an array reachable from a parameter other than self *)
Definition writes_param_array (e : eff) : bool :=
  match e with
  | StoreInto root => starts_with "param:" root
  | Unknown _ => true
  | _ => false
  end.
Definition writes_t (e : eff) : bool :=
  match e with
  | AssignAttr obj attr => String.eqb obj "self" && String.eqb attr "t"
  | StoreInto root => String.eqb root "self.t"
  | _ => false
  end.
(* R3: after the last write to self.t there is a CallInit *)
Fixpoint init_after_last_t_write (l : list eff) (pending : bool) : bool :=
  match l with
  | [] => negb pending
  | e :: tl => if writes_t e then init_after_last_t_write tl true
               else match e with CallInit => init_after_last_t_write tl false | _ => init_after_last_t_write tl pending end
  end.
Definition copies (attr : string) (l : list eff) : bool :=
  existsb (fun e => match e with CopyFrom a _ => String.eqb a attr | _ => false end) l.

(* R4: a mesh object carries no derived state besides what the constructor (re)builds: outside __init__ the only attributes of
   self that are assigned are the vertices and the elements (a cache filled by a query would survive the in-place operations) *)
Definition hidden_state (e : eff) : bool :=
  match e with
  | AssignAttr obj attr => String.eqb obj "self" && negb (String.eqb attr "v" || String.eqb attr "t")
  | _ => false
  end.

Definition entry_ok (f : fentry) : bool :=
  (if is_mesh_class f && negb (is_ctor f) then forallb (fun e => negb (hidden_state e)) (f_effects f) else true) &&
  if is_ctor f then
    forallb (fun e => negb (writes_param_array e)) (f_effects f) &&
    (if is_mesh_class f then copies "v" (f_effects f) && copies "t" (f_effects f) else true)
  else if ends_underscore (f_name f) then
    forallb (fun e => negb (writes_param_array e)) (f_effects f) &&
    (if is_mesh_class f then init_after_last_t_write (f_effects f) false else true)
  else
    forallb (fun e => negb (writes_mesh_or_caller e)) (f_effects f).
Definition effects_ok (tbl : list fentry) : bool := forallb entry_ok tbl.

(* ---- specification (what effects_ok = true means) *)
Definition entry_spec (f : fentry) : Prop :=
  (* functions whose name does not end in "_" (and that are not constructors) perform no write on the vertices /
     elements of any mesh they can reach, no store into caller-visible arrays, no call of an in-place method *)
  (is_ctor f = false -> ends_underscore (f_name f) = false ->
     Forall (fun e => writes_mesh_or_caller e = false) (f_effects f)) /\
  (* no function at all stores into an array reachable from one of its parameters *)
  Forall (fun e => writes_param_array e = false) (f_effects f) /\
  (* in-place mesh methods end their last modification of the elements with a re-initialisation *)
  (is_ctor f = false -> ends_underscore (f_name f) = true -> is_mesh_class f = true ->
     init_after_last_t_write (f_effects f) false = true) /\
  (* mesh constructors copy their inputs *)
  (is_ctor f = true -> is_mesh_class f = true -> copies "v" (f_effects f) = true /\ copies "t" (f_effects f) = true) /\
  (* outside the constructor, methods of the mesh classes assign no attribute of self other than v and t (no hidden caches) *)
  (is_mesh_class f = true -> is_ctor f = false -> Forall (fun e => hidden_state e = false) (f_effects f)).

Lemma no_write_no_param_write e : writes_mesh_or_caller e = false -> writes_param_array e = false.
Proof. destruct e; cbn; intros H; try reflexivity; discriminate. Qed.

Lemma forallb_negb_Forall {A} (p : A -> bool) l : forallb (fun e => negb (p e)) l = true -> Forall (fun e => p e = false) l.
Proof. intros H. rewrite forallb_forall in H. apply Forall_forall. intros e He. apply negb_true_iff. apply H. exact He. Qed.

Lemma entry_ok_sound f : entry_ok f = true -> entry_spec f.
Proof.
  unfold entry_ok, entry_spec. intros H0. apply andb_true_iff in H0. destruct H0 as [H4 H].
  assert (R4 : is_mesh_class f = true -> is_ctor f = false -> Forall (fun e => hidden_state e = false) (f_effects f)).
  { intros M C. rewrite M, C in H4. cbn [andb negb] in H4. apply forallb_negb_Forall in H4. exact H4. }
  rewrite <- !and_assoc. split; [|exact R4]. rewrite !and_assoc. clear H4 R4.
  destruct (is_ctor f) eqn:C.
  - apply andb_true_iff in H. destruct H as [H1 H2]. apply forallb_negb_Forall in H1.
    split; [intros; discriminate|]. split; [assumption|]. split; [intros; discriminate|].
    intros _ M. rewrite M in H2. apply andb_true_iff in H2. exact H2.
  - destruct (ends_underscore (f_name f)) eqn:U.
    + apply andb_true_iff in H. destruct H as [H1 H2]. apply forallb_negb_Forall in H1.
      split; [intros; discriminate|]. split; [assumption|]. split; [|intros; discriminate].
      intros _ _ M. rewrite M in H2. exact H2.
    + apply forallb_negb_Forall in H.
      split; [intros; assumption|]. split; [|split; intros; discriminate].
      eapply Forall_impl; [|exact H]. intros e. apply no_write_no_param_write.
Qed.

Theorem effects_ok_sound tbl : effects_ok tbl = true -> Forall entry_spec tbl.
Proof.
  unfold effects_ok. intros H. rewrite forallb_forall in H. apply Forall_forall. intros f Hf.
  apply entry_ok_sound. apply H. exact Hf.
Qed.
