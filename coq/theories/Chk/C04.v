(* Chk/C04.v -- correspondence check for the non-solver parts of shapedna.py.  The power vol ** (2/3) is certified:
   the implementation's factor c = out_i / in_i must satisfy c^3 = vol^2 with the model's volume. *)
From Coq Require Import List Arith Bool PrimFloat String.
From LaPyV Require Import Base.Scalar Base.Vec3 Base.ListAux Base.Sparse Model.TetMesh Model.TriaAdj Model.TriaOrient Model.Fem
  Model.TriaGeom Model.ShapeDNA Chk.Cmp Chk.C09 Chk.C05.
Import ListNotations.

Definition cube (x : float) : float := PrimFloat.mul x (PrimFloat.mul x x).
(* the factor the implementation applied: out = evals * c *)
Definition factor_ok (tol : float) (evals out : list float) (c : float) : bool :=
  list_eqb (fun e r => PrimFloat.leb (PrimFloat.abs (PrimFloat.sub (PrimFloat.mul e c) r))
                                     (PrimFloat.mul tol (PrimFloat.abs (PrimFloat.mul e c)))) evals out.

Definition check_c04 (c : float * mesh * list float * (nat * nat * nat * nat)
                          * (result (list float) * float) * (result (list float) * float) * (result (list float) * float)
                          * list float * (list float * float)) : list bool :=
  let '(tol, m, evals, fields, (rs, cs), (rv, cv), (rg, cg), rw, (other, dist)) := c in
  let vol_res := match m with
                 | MTria v t => oriented_volume Fops v t
                 | MTet v t => oriented_volume Fops v (tet_boundary_tria t)
                 end in
  let area_res := match m with MTria v t => Ok (area Fops v t) | MTet _ _ => Err OtherError end in
  let vol_ok (r : result (list float)) (cf : float) :=
    match vol_res, r with
    | Ok vol, Ok out => factor_ok tol evals out cf
                        && PrimFloat.leb (PrimFloat.abs (PrimFloat.sub (cube cf) (PrimFloat.mul vol vol))) (PrimFloat.mul tol (PrimFloat.mul vol vol))
    | Err e, Err e' => err_eqb e e'
    | _, _ => false
    end in
  let area_ok (r : result (list float)) (cf : float) :=
    match area_res, r with
    | Ok a, Ok out => factor_ok tol evals out cf && fclose tol a cf
    | Err _, Err _ => true
    | _, _ => false
    end in
  [ match m with
    | MTria v t => let '(d, e, f, k) := dna_fields_tria v t (snd fields) in
                   let '(d', e', f', _) := fields in Nat.eqb d d' && Nat.eqb e e' && Nat.eqb f f'
    | MTet v t => let '(d, e, f, k) := dna_fields_tet v t (snd fields) in
                  let '(d', e', f', _) := fields in Nat.eqb d d' && Nat.eqb e e' && Nat.eqb f f'
    end;
    area_ok rs cs;
    vol_ok rv cv;
    match m with MTria _ _ => area_ok rg cg | MTet _ _ => vol_ok rg cg end;
    flist_close_scaled tol (reweight_ev Fops evals) rw;
    fclose tol (compute_distance Fops evals other) dist ].
