(* Chk/C20.v -- correspondence check for operation histories on mesh objects. *)
From Coq Require Import List Arith Bool ZArith PrimFloat String.
From LaPyV Require Import Base.Scalar Base.Vec3 Base.ListAux Base.Sparse Model.TetMesh Model.TriaAdj Model.TriaOrient
  Model.TriaRefine Model.TriaGeom Model.TriaFunc Model.ObjState Chk.Cmp Chk.C09.
Import ListNotations.

Definition tout_eqb (a b : tout) : bool :=
  match a, b with
  | RNat x, RNat y => Nat.eqb x y
  | RKeep k d, RKeep k' d' => nat_list_eqb k k' && nat_list_eqb d d'
  | RNone, RNone => true
  | _, _ => false
  end.

Inductive c20case :=
| TriaHist (tol : float) (v : list (vec3 float)) (t : list tri) (ops : list (top (K:=float)))
           (outs : list (result tout)) (v' : list (vec3 float)) (t' : list tri)
           (q : bool * bool * bool * Z * list nat)
| TetHist (v : list (vec3 float)) (t : list tet) (ops : list ttop) (outs : list (result tout))
          (v' : list (vec3 float)) (t' : list tet)
| CtorCase (vrows : list (list float)) (trows : list (list nat)) (r : result (list (vec3 float) * list tri)).

Fixpoint ttrun (s : ttstate (K:=float)) (ops : list ttop) : ttstate * list (result tout) :=
  match ops with
  | [] => (s, [])
  | op :: tl =>
      match ttstep Fops s op with
      | Err e => let '(s', outs) := ttrun s tl in (s', Err e :: outs)
      | Ok (s1, r) => let '(s', outs) := ttrun s1 tl in (s', Ok r :: outs)
      end
  end.

Definition check_c20 (c : c20case) : list bool :=
  match c with
  | TriaHist tol v t ops outs v' t' (qc, qm, qo, qe, qd) =>
      let '(s, mo) := trun Fops (tfresh v t) ops in
      [ list_eqb (res_eqb tout_eqb) mo outs;
        tri_list_eqb (st s) t';
        v3list_close_scaled tol (sv s) v';
        Bool.eqb (q_closed s) qc && Bool.eqb (q_manifold s) qm && Bool.eqb (q_oriented s) qo && Z.eqb (q_euler s) qe
          && nat_list_eqb (q_vdeg s) qd ]
  | TetHist v t ops outs v' t' =>
      let '(s, mo) := ttrun (ttfresh v t) ops in
      [ list_eqb (res_eqb tout_eqb) mo outs; quad_list_eqb (tt s) t'; v3list_close_scaled 0x1p-40%float (tv s) v'; true ]
  | CtorCase vrows trows r =>
      [ res_eqb (fun a b => v3list_close_scaled 0x1p-40%float (fst a) (fst b) && tri_list_eqb (snd a) (snd b))
                (tria_ctor Fops vrows trows) r; true; true; true ]
  end.
