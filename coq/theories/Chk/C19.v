(* Chk/C19.v -- certificate check for tria_mean_curvature_flow (spsolve is an oracle whose answers X_i are recorded) and
   correspondence for the projection/gates of tria_spherical_project. *)
From Coq Require Import List Arith Bool PrimFloat String.
From LaPyV Require Import Base.Scalar Base.Vec3 Base.ListAux Base.Sparse Model.TetMesh Model.TriaAdj Model.Fem Model.TriaGeom
  Model.TriaFunc Model.Flow Chk.Cmp Chk.C09 Chk.C05.
Import ListNotations.
Open Scope float_scope.

(* residual of (M + step A0) X = M v, row-wise and per coordinate, relative to the magnitude of the terms *)
Definition flow_residual_ok (tol step : float) (A0 M : coo float) (v X : list (vec3 float)) : bool :=
  let S := flow_matrix Fops step A0 M in
  let Sabs := coo_absf S in let Mabs := coo_absf M in
  forallb (fun c =>
    let x := vfun Fops (col c X) in let w := vfun Fops (col c v) in
    forallb (fun k =>
      let lhs := mulvec_at Fops S x k in let rhs := mulvec_at Fops M w k in
      let sc := mulvec_at Fops Sabs (fun j => abs (x j)) k + mulvec_at Fops Mabs (fun j => abs (w j)) k in
      abs (lhs - rhs) <=? tol * sc) (iota (List.length v))) [0; 1; 2]%nat.

(* replay of the loop with the recorded solver answers: (all residuals ok, stopping rule consistent, final vertices) *)
Fixpoint flow_replay (tol stop_eps step : float) (A0 : coo float) (ts : list tri) (v : list (vec3 float))
         (Xs : list (list (vec3 float))) (remaining : nat) : bool * bool * list (vec3 float) :=
  match Xs with
  | [] => (true, Nat.eqb remaining 0, v)        (* no further solve: only legitimate when max_iter is exhausted (or stopped before) *)
  | X :: rest =>
      match remaining with
      | O => (true, false, v)                    (* more solves than max_iter *)
      | S m =>
          let M := fem_tria_mass Fops true v ts in
          let ok := flow_residual_ok tol step A0 M v X in
          let v' := normalize Fops X ts in
          let dv := map (fun '(a, b) => vsub Fops a b) (combine v' v) in
          let d := flow_diff Fops M dv in
          match rest with
          | [] => (* last recorded iteration: either converged or max_iter reached *)
              (ok, (d <? stop_eps * 0x1.000010c6f7a0bp+0) || Nat.eqb m 0, v')
          | _ => let '(ok', st', vf) := flow_replay tol stop_eps step A0 ts v' rest m in
                 (ok && ok', negb (d <? stop_eps * 0x1.ffffde7210be9p-1) && st', vf)
          end
      end
  end.

Inductive c19case :=
| CFlow (tol : float) (v : list (vec3 float)) (ts : list tri) (max_iter : nat) (stop_eps step : float)
        (Xs : list (list (vec3 float))) (outv : list (vec3 float)) (outt : list tri)
| CProj (tol : float) (ts : list tri) (sph spatvol : float) (vn : list (vec3 float)) (obs : result (list (vec3 float)))
(* eigenfunctions 1..3 as returned by the eigen-solver, observed embedding handed to the flow (or Err) and printed "spat vol" *)
| CEmbed (tol : float) (v : list (vec3 float)) (ev1 ev2 ev3 : list float) (obs : result (list (vec3 float) * float)).

Definition check_c19 (c : c19case) : list bool :=
  match c with
  | CFlow tol v ts max_iter stop_eps step Xs outv outt =>
      let v0 := normalize Fops v ts in
      let A0 := fem_tria_A Fops v0 ts in
      let '(ok, st, vf) := flow_replay tol stop_eps step A0 ts v0 Xs max_iter in
      [ ok; st; v3list_close_fl tol 1 vf outv; tri_list_eqb ts outt; true ]
  | CProj tol ts sph spatvol vn obs =>
      [ true; true; true; true;
        match project_gates Fops sph spatvol vn ts, obs with
        | Ok (w, _), Ok w' => v3list_close_fl tol 1 w w'
        | Err e, Err e' => err_eqb e e'
        | _, _ => false
        end ]
  | CEmbed tol v ev1 ev2 ev3 obs =>
      [ true; true; true; true;
        match spectral_embedding Fops v ev1 ev2 ev3, obs with
        | Ok e, Ok (vn, sv) => v3list_close_fl tol 1 (em_vn e) vn && flist_close_fl tol 1 [em_spatvol e] [sv]
        | Err e, Err e' => err_eqb e e'
        | _, _ => false
        end ]
  end.

Definition and5b (a b : list bool) : list bool := map (fun '(x, y) => x && y) (combine a b).
Definition check_c19_multi (cs : list c19case) : list bool :=
  fold_left (fun acc c => and5b acc (check_c19 c)) cs [true; true; true; true; true].
