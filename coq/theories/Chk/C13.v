(* Chk/C13.v -- correspondence check for the geometric measures. *)
From Coq Require Import List Arith Bool PrimFloat String.
From LaPyV Require Import Base.Scalar Base.Vec3 Base.ListAux Base.Sparse Model.TetMesh Model.TriaAdj Model.TriaOrient
  Model.TriaGeom Chk.Cmp Chk.C09.
Import ListNotations.

Record c13_obs := mkC13 {
  g_areas : list float; g_area : float; g_vareas : list float; g_volume : result float;
  g_centroid : vec3 float; g_cen_area : float; g_tnormals : list (vec3 float);
  g_vnormals : result (list (vec3 float)); g_quals : list float; g_avg_edge : float;
  g_normalized : list (vec3 float); g_offset : result (list (vec3 float))
}.

Definition fres_close (tol : float) (a b : result float) : bool := res_eqb (fclose tol) a b.

Definition check_c13_tria (c : float * float * list (vec3 float) * list tri * c13_obs) : list bool :=
  let '(tol, d, v, ts, ob) := c in
  let s := PrimFloat.add 1 (fmaxabs (flat3 v)) in
  [ flist_close_scaled tol (tria_areas Fops v ts) (g_areas ob);
    fclose tol (area Fops v ts) (g_area ob);
    flist_close_scaled tol (vertex_areas Fops v ts) (g_vareas ob);
    res_eqb (fun a b => PrimFloat.leb (PrimFloat.abs (PrimFloat.sub a b))
                          (PrimFloat.mul tol (PrimFloat.add (PrimFloat.abs b) (PrimFloat.mul s (PrimFloat.mul s s)))))
            (tria_volume Fops v ts) (g_volume ob);
    v3list_close_fl tol (fmaxabs (flat3 v)) [fst (centroid Fops v ts)] [g_centroid ob];
    fclose tol (snd (centroid Fops v ts)) (g_cen_area ob);
    v3list_close_scaled tol (tria_normals Fops v ts) (g_tnormals ob);
    res_eqb (v3list_close_scaled tol) (vertex_normals Fops (List.length v) v ts) (g_vnormals ob);
    flist_close_scaled tol (tria_qualities Fops v ts) (g_quals ob);
    fclose tol (tria_avg_edge_length Fops v ts) (g_avg_edge ob);
    v3list_close_scaled tol (normalize Fops v ts) (g_normalized ob);
    res_eqb (v3list_close_scaled tol) (normal_offset Fops d v ts) (g_offset ob) ].

Definition check_c13_tet (c : float * list (vec3 float) * list tet * float) : list bool :=
  let '(tol, v, ts, ae) := c in [ fclose tol (tet_avg_edge_length Fops v ts) ae ].

Inductive c13case :=
| TriaG (c : float * float * list (vec3 float) * list tri * c13_obs)
| TetG (c : float * list (vec3 float) * list tet * float).
Definition check_c13 (c : c13case) : list bool :=
  match c with
  | TriaG x => check_c13_tria x
  | TetG x => check_c13_tet x ++ repeat true 11
  end.
