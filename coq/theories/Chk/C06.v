(* Chk/C06.v -- correspondence check for gradient / divergence. *)
From Coq Require Import List Arith Bool PrimFloat String.
From LaPyV Require Import Base.Scalar Base.Vec3 Base.ListAux Base.Sparse Model.TetMesh Model.TriaAdj Model.Fem Model.TriaGeom Model.DiffGeo Chk.Cmp.
Import ListNotations.

Inductive c06case :=
| TriaD (tol : float) (v : list (vec3 float)) (ts : list tri) (f : list float) (X : list (vec3 float))
        (g : list (vec3 float)) (d d2 : list float)
| TetD (tol : float) (v : list (vec3 float)) (ts : list tet) (f : list float) (X : list (vec3 float))
       (g : list (vec3 float)) (d : list float).

Definition check_c06 (c : c06case) : list bool :=
  match c with
  | TriaD tol v ts f X g d d2 =>
      [ v3list_close_scaled tol (tria_compute_gradient Fops v ts f) g;
        flist_close_scaled tol (tria_compute_divergence Fops v ts X) d;
        flist_close_scaled tol (tria_compute_divergence2 Fops v ts X) d2 ]
  | TetD tol v ts f X g d =>
      [ v3list_close_scaled tol (tet_compute_gradient Fops v ts f) g;
        flist_close_scaled tol (tet_compute_divergence Fops v ts X) d; true ]
  end.
