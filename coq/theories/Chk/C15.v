(* Chk/C15.v -- correspondence check for function transfer and smoothing. *)
From Coq Require Import List Arith Bool PrimFloat String.
From LaPyV Require Import Base.Scalar Base.Vec3 Base.ListAux Base.Sparse Model.TetMesh Model.TriaAdj Model.TriaOrient
  Model.TriaGeom Model.TriaFunc Chk.Cmp Chk.C09.
Import ListNotations.

Definition cols_close (tol : float) (a b : list (list float)) : bool := list_eqb (flist_close_scaled tol) a b.

Definition check_c15 (c : float * list (vec3 float) * list tri * bool * nat * list (list float) * list (list float)
                          * (result (list (list float)) * result (list (list float)) * result (list (list float))
                             * result (list (vec3 float)))) : list bool :=
  let '(tol, v, ts, weighted, k, tcols, vcols, (o1, o2, o3, o4)) := c in
  let n := List.length v in
  [ res_eqb (cols_close tol) (map_tfunc_to_vfunc Fops n v ts weighted tcols) o1;
    res_eqb (cols_close tol) (map_vfunc_to_tfunc Fops n ts vcols) o2;
    res_eqb (cols_close tol) (smooth_vfunc Fops n v ts ts k vcols) o3;
    res_eqb (v3list_close_scaled tol) (smooth_mesh Fops v ts ts k) o4 ].
