(* Chk/C18.v -- correspondence / certificate checks for lapy/conformal.py. *)
From Coq Require Import List Arith Bool ZArith PrimFloat String.
From LaPyV Require Import Base.Scalar Base.Vec3 Base.ListAux Base.Sparse Model.TetMesh Model.TriaAdj Model.Fem Model.TriaGeom Model.Conformal Chk.Cmp Chk.C09 Chk.C05.
Import ListNotations.
Open Scope float_scope.

Definition CF := (float * float)%type.
Definition cflat (l : list CF) : list float := flat_map (fun p => [fst p; snd p]) l.
Definition clist_close (tol fl : float) (a b : list CF) : bool :=
  Nat.eqb (List.length a) (List.length b) && flist_close_fl tol fl (cflat a) (cflat b).

Inductive c18case :=
| CStereo (tol : float) (us : list (vec3 float)) (ws : list CF) (o_st : list CF) (o_inv : list (vec3 float))
| CBeltrami (tol : float) (v : list (vec3 float)) (ts : list tri) (m : list (vec3 float)) (obs : result (list CF))
| CLbs (tol : float) (v : list (vec3 float)) (ts : list tri) (mus : list CF) (lm : list (nat * CF)) (obs : result (list CF))
| CGate (ts : list tri) (raised : bool)
| CFinal (tol : float) (mapping : list CF) (obs : list (vec3 float))
(* north-pole stage: recorded answer z0 of the first solve, observed planar points P handed to the south-pole stage,
   observed landmark indices *)
(* Moebius correction: parameters found by the optimiser (oracle), input map, returned map *)
| CMobius (tol : float) (ca cb cc cd : CF) (mapping : list (vec3 float)) (obs : list (vec3 float))
| CNorth (tol : float) (v : list (vec3 float)) (ts : list tri) (z0 : list CF) (P : list (vec3 float)) (lm : list nat).

(* the solver's answer x is checked against the model's system: residual row by row, both components *)
Definition lbs_certificate (tol : float) (n : nat) (S : coo float) (b : list CF) (x : list CF) : bool :=
  let xr := vfun Fops (map fst x) in let xi := vfun Fops (map snd x) in
  let Sabs := coo_absf S in
  (* floor: the magnitude of the whole right-hand side (a unit row with right-hand side 0 is answered with 1e-17, not with 0) *)
  let gfl := fmaxabs (cflat b) in
  forallb (fun i =>
    let bi := nth i b (0, 0) in
    let sc := mulvec_at Fops Sabs (fun j => abs (xr j) + abs (xi j)) i + abs (fst bi) + abs (snd bi) + gfl in
    (abs (mulvec_at Fops S xr i - fst bi) <=? tol * sc) && (abs (mulvec_at Fops S xi i - snd bi) <=? tol * sc)) (iota n).

Definition dummy_csolve (n : nat) (_ : coo float) (_ : list CF) : result (list CF) := Ok (repeat (0, 0) n).

Definition check_c18 (c : c18case) : list bool :=
  match c with
  | CStereo tol us ws o_st o_inv =>
      [ clist_close tol 1 (map (stereographic1 Fops) us) o_st && v3list_close_fl tol 1 (map (inverse_stereographic1 Fops) ws) o_inv; true; true; true; true ]
  | CBeltrami tol v ts m obs =>
      [ true; res_eqb (clist_close tol 0x1p-20) (beltrami_coefficient Fops v ts m) obs; true; true; true ]
  | CLbs tol v ts mus lm obs =>
      [ true; true; match linear_beltrami_solver Fops dummy_csolve v ts mus lm, obs with
        | Err e, Err e' => err_eqb e e'
        | Ok _, Ok x =>
            let A := lbs_matrix Fops v ts mus in
            let n := List.length v in
            Nat.eqb (List.length x) n &&
            lbs_certificate tol n (lbs_system Fops A lm) (map (lbs_rhs Fops A lm) (iota n)) x &&
            forallb (fun '(l, tg) => clist_close 0x1p-40 1 [nth l x (0, 0)] [tg]) lm
        | _, _ => false
        end; true; true ]
  | CGate ts raised =>
      [ true; true; true; match scm_gate ts with Ok _ => negb raised | Err _ => raised end; true ]
  | CFinal tol mapping obs =>
      [ true; true; true; true; v3list_close_fl tol 1 (scm_final Fops mapping) obs ]
  | CMobius tol ca cb cc cd mapping obs =>
      [ true; true; true; true; v3list_close_fl tol 1 (mobius_result Fops ca cb cc cd mapping) obs ]
  | CNorth tol v ts z0 P lm =>
      let n := List.length v in
      let big := argmax_first Fops (tria_qualities Fops v ts) in
      let '(p0, p1, p2) := nth big ts (0, 0, 0)%nat in
      let A := fem_tria_A Fops v ts in
      let third := bigtri_third Fops (getv Fops v p0) (getv Fops v p1) (getv Fops v p2) in
      let cert := lbs_certificate tol n (north_system Fops A [p0; p1; p2]) (north_rhs Fops n p0 p1 p2 third) z0 in
      let '(_, S2) := north_rescale Fops ts big z0 in
      let Pm := south_points Fops S2 in
      let keys := map (vz (K:=float)) S2 in
      (* the landmarks are the fixnum vertices with the smallest third coordinate (as a set: no key of a landmark exceeds a key
         of a non-landmark by more than the tolerance) *)
      let in_lm i := existsb (Nat.eqb i) lm in
      let kmax := fold_left (fun m i => let k := nth i keys 0 in if m <? k then k else m) lm neg_infinity in
      let lm_ok := Nat.eqb (List.length lm) (fixnum n) &&
                   forallb (fun i => in_lm i || (kmax <=? nth i keys 0 + tol)) (iota n) in
      [ true; true; cert && Nat.eqb (List.length z0) n; lm_ok; v3list_close_fl tol 1 Pm P ]
  end.

(* a harness case may consist of several recorded sub-calls: conjunction per label *)
Definition and5 (a b : list bool) : list bool := map (fun '(x, y) => x && y) (combine a b).
Definition check_c18_multi (cs : list c18case) : list bool :=
  fold_left (fun acc c => and5 acc (check_c18 c)) cs [true; true; true; true; true].
