(* Chk/C18.v -- correspondence / certificate checks for lapy/conformal.py. *)
From Coq Require Import List Arith Bool ZArith PrimFloat String.
From LaPyV Require Import Base.Scalar Base.Vec3 Base.ListAux Base.Sparse Model.TetMesh Model.TriaAdj Model.Conformal Chk.Cmp Chk.C09 Chk.C05.
Import ListNotations.
Open Scope float_scope.

Definition CF := (float * float)%type.
Definition cflat (l : list CF) : list float := flat_map (fun p => [fst p; snd p]) l.
Definition clist_close (tol fl : float) (a b : list CF) : bool :=
  Nat.eqb (List.length a) (List.length b) && flist_close_fl tol fl (cflat a) (cflat b).

Inductive c18case :=
| CStereo (tol : float) (us : list (vec3 float)) (ws : list CF) (o_st : list CF) (o_inv : list (vec3 float))
| CBeltrami (tol : float) (v : list (vec3 float)) (ts : list tri) (m : list (vec3 float)) (obs : result (list CF))
| CLbs (tol : float) (v : list (vec3 float)) (ts : list tri) (mus : list CF) (lm : list (nat * CF)) (obs : result (list CF))
| CGate (ts : list tri) (raised : bool)
| CFinal (tol : float) (mapping : list CF) (obs : list (vec3 float)).

(* the solver's answer x is checked against the model's system: residual row by row, both components *)
Definition lbs_certificate (tol : float) (n : nat) (S : coo float) (b : list CF) (x : list CF) : bool :=
  let xr := vfun Fops (map fst x) in let xi := vfun Fops (map snd x) in
  let Sabs := coo_absf S in
  forallb (fun i =>
    let bi := nth i b (0, 0) in
    let sc := mulvec_at Fops Sabs (fun j => abs (xr j) + abs (xi j)) i + abs (fst bi) + abs (snd bi) in
    (abs (mulvec_at Fops S xr i - fst bi) <=? tol * sc) && (abs (mulvec_at Fops S xi i - snd bi) <=? tol * sc)) (iota n).

Definition dummy_csolve (n : nat) (_ : coo float) (_ : list CF) : result (list CF) := Ok (repeat (0, 0) n).

Definition check_c18 (c : c18case) : list bool :=
  match c with
  | CStereo tol us ws o_st o_inv =>
      [ clist_close tol 1 (map (stereographic1 Fops) us) o_st && v3list_close_fl tol 1 (map (inverse_stereographic1 Fops) ws) o_inv; true; true; true; true ]
  | CBeltrami tol v ts m obs =>
      [ true; res_eqb (clist_close tol 0x1p-20) (beltrami_coefficient Fops v ts m) obs; true; true; true ]
  | CLbs tol v ts mus lm obs =>
      [ true; true; match linear_beltrami_solver Fops dummy_csolve v ts mus lm, obs with
        | Err e, Err e' => err_eqb e e'
        | Ok _, Ok x =>
            let A := lbs_matrix Fops v ts mus in
            let n := List.length v in
            Nat.eqb (List.length x) n &&
            lbs_certificate tol n (lbs_system Fops A lm) (map (lbs_rhs Fops A lm) (iota n)) x &&
            forallb (fun '(l, tg) => clist_close 0x1p-40 1 [nth l x (0, 0)] [tg]) lm
        | _, _ => false
        end; true; true ]
  | CGate ts raised =>
      [ true; true; true; match scm_gate ts with Ok _ => negb raised | Err _ => raised end; true ]
  | CFinal tol mapping obs =>
      [ true; true; true; true; v3list_close_fl tol 1 (scm_final Fops mapping) obs ]
  end.

(* a harness case may consist of several recorded sub-calls: conjunction per label *)
Definition and5 (a b : list bool) : list bool := map (fun '(x, y) => x && y) (combine a b).
Definition check_c18_multi (cs : list c18case) : list bool :=
  fold_left (fun acc c => and5 acc (check_c18 c)) cs [true; true; true; true; true].
