(* Chk/C08.v -- certificate check for the geodesic / rotated functions: the implementation's output must solve the
   model's system A g = rhs (free rows), have minimum exactly 0 (geodesic) or value exactly 0 at vertex 0 (rotated). *)
From Coq Require Import List Arith Bool PrimFloat String.
From LaPyV Require Import Base.Scalar Base.Vec3 Base.ListAux Base.Sparse Model.TetMesh Model.TriaAdj Model.Fem Model.TriaGeom
  Model.DiffGeo Model.Poisson Model.Geodesic Chk.Cmp Chk.C09 Chk.C05.
Import ListNotations.

Definition coo_maxabsf (M : coo float) : float := fmaxabs (map snd M).
Definition residual_ok (tol fl : float) (A : coo float) (g rhs : list float) (rows : list nat) : bool :=
  let gf := vfun Fops g in
  let gs := fmaxabs g in
  forallb (fun k =>
    let lhs := mulvec_at Fops A gf k in
    let r := nth k rhs 0%float in
    (* scale: |A| |g - g_k| (constants are in the kernel) + |rhs| over the row, relative *)
    let sc := PrimFloat.add (mulvec_at Fops (coo_absf A) (fun j => PrimFloat.abs (PrimFloat.sub (gf j) (gf k))) k)
                            (PrimFloat.add (PrimFloat.add (PrimFloat.abs r) (fmaxabs rhs)) fl) in
    PrimFloat.leb (PrimFloat.abs (PrimFloat.sub lhs r)) (PrimFloat.mul tol sc)) rows.

Inductive c08case :=
| GeoTria (tol : float) (v : list (vec3 float)) (t : list tri) (f g g2 r : list float)
| GeoTet (tol : float) (v : list (vec3 float)) (t : list tet) (f g : list float)
| RotTria (tol : float) (v : list (vec3 float)) (t : list tri) (f g : list float).

Definition min_is_zero (g : list float) : bool :=
  forallb (fun x => PrimFloat.leb 0 x) g && existsb (fun x => PrimFloat.eqb x 0) g.

Definition check_c08 (c : c08case) : list bool :=
  match c with
  | GeoTria tol v t f g g2 r =>
      let n := List.length v in
      let rhs := pad Fops n (geodesic_rhs_tria Fops v t f) in
      let rrhs := pad Fops n (rotated_rhs Fops v t f) in
      let A := fem_tria_A Fops v t in
      (* floors: natural magnitude of A applied to a distance function / to f (a right-hand side that is pure
         cancellation noise cannot be compared relatively) *)
      let flg := PrimFloat.mul (coo_maxabsf A) (fmaxabs (flat3 v)) in
      let flr := PrimFloat.mul (coo_maxabsf A) (fmaxabs f) in
      [ residual_ok tol flg A g rhs (iota n) && residual_ok tol flg A g2 rhs (iota n)
        && residual_ok tol flr A r rrhs (tl (iota n));
        min_is_zero g && min_is_zero g2 && PrimFloat.eqb (nth 0 r 1%float) 0;
        Nat.eqb (List.length g) n && Nat.eqb (List.length g2) n && Nat.eqb (List.length r) n ]
  | GeoTet tol v t f g =>
      let n := List.length v in
      let rhs := pad Fops n (geodesic_rhs_tet Fops v t f) in
      let A := fem_tet_A Fops v t in
      [ residual_ok tol (PrimFloat.mul (coo_maxabsf A) (fmaxabs (flat3 v))) A g rhs (iota n); min_is_zero g; Nat.eqb (List.length g) n ]
  | RotTria tol v t f g =>
      let n := List.length v in
      let rhs := pad Fops n (rotated_rhs Fops v t f) in
      let A := fem_tria_A Fops v t in
      [ residual_ok tol (PrimFloat.mul (coo_maxabsf A) (fmaxabs f)) A g rhs (tl (iota n)); PrimFloat.eqb (nth 0 g 1%float) 0; Nat.eqb (List.length g) n ]
  end.
