(* Chk/C14.v -- correspondence check for the text mesh formats at token level. *)
From Coq Require Import List Arith Bool ZArith PrimFloat String.
From LaPyV Require Import Base.Scalar Base.Vec3 Base.ListAux Model.TetMesh Model.TriaAdj Model.IOText Chk.Cmp.
Import ListNotations.

Definition tok_eqb (a b : tok (K:=float)) : bool :=
  match a, b with
  | TZ x, TZ y => Z.eqb x y
  | TF x, TF y => PrimFloat.eqb x y || (is_nan x && is_nan y)
  | TW x, TW y => String.eqb x y
  | _, _ => false
  end.
Definition stok_eqb (a b : stok (K:=float)) : bool :=
  match a, b with
  | Tok x, Tok y => tok_eqb x y
  | EOL, EOL => true
  | _, _ => false
  end.
Definition id32 (x : float) : float := x.   (* the harness hands over point tokens already rounded by numpy *)
Definition v3_eqb (a b : vec3 float) : bool := PrimFloat.eqb (vx a) (vx b) && PrimFloat.eqb (vy a) (vy b) && PrimFloat.eqb (vz a) (vz b).

Inductive rkind := RVtkTria | RVtkTet | ROff.
Inductive meshres := NoMesh | TriaRes (v : list (vec3 float)) (t : list tri) | TetRes (v : list (vec3 float)) (t : list tet).

Definition read_with (k : rkind) (f : file (K:=float)) : meshres :=
  match k with
  | RVtkTria => match read_vtk_tria id32 float_of_Z f with Some (v, t) => TriaRes v t | None => NoMesh end
  | RVtkTet => match read_vtk_tet id32 float_of_Z f with Some (v, t) => TetRes v t | None => NoMesh end
  | ROff => match read_off id32 float_of_Z f with Some (v, t) => TriaRes v t | None => NoMesh end
  end.
Definition meshres_eqb (a b : meshres) : bool :=
  match a, b with
  | NoMesh, NoMesh => true
  | TriaRes v t, TriaRes v' t' => list_eqb v3_eqb v v' && tri_list_eqb t t'
  | TetRes v t, TetRes v' t' => list_eqb v3_eqb v v' && quad_list_eqb t t'
  | _, _ => false
  end.

Inductive c14case :=
| MeshFiles (written : meshres) (actual : file (K:=float)) (reads : list (rkind * file (K:=float) * meshres)).

Definition check_c14 (c : c14case) : list bool :=
  match c with
  | MeshFiles written actual reads =>
      [ match written with
        | TriaRes v t => list_eqb stok_eqb (write_vtk_tria v t) actual
        | TetRes v t => list_eqb stok_eqb (write_vtk_tet v t) actual
        | NoMesh => true
        end;
        forallb (fun '(k, f, r) => meshres_eqb (read_with k f) r) reads ]
  end.
