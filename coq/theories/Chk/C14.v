(* Chk/C14.v -- correspondence check for the text mesh formats at token level. *)
From Coq Require Import List Arith Bool ZArith PrimFloat String.
From LaPyV Require Import Base.Scalar Base.Vec3 Base.ListAux Model.TetMesh Model.TriaAdj Model.IOText Model.IOFs Chk.Cmp.
Import ListNotations.

Definition tok_eqb (a b : tok (K:=float)) : bool :=
  match a, b with
  | TZ x, TZ y => Z.eqb x y
  | TF x, TF y => PrimFloat.eqb x y || (is_nan x && is_nan y)
  | TW x, TW y => String.eqb x y
  | _, _ => false
  end.
Definition stok_eqb (a b : stok (K:=float)) : bool :=
  match a, b with
  | Tok x, Tok y => tok_eqb x y
  | EOL, EOL => true
  | _, _ => false
  end.
Definition id32 (x : float) : float := x.   (* the harness hands over point tokens already rounded by numpy *)
Definition v3_eqb (a b : vec3 float) : bool := PrimFloat.eqb (vx a) (vx b) && PrimFloat.eqb (vy a) (vy b) && PrimFloat.eqb (vz a) (vz b).

Inductive rkind := RVtkTria | RVtkTet | ROff | RGmsh.
Inductive meshres := NoMesh | TriaRes (v : list (vec3 float)) (t : list tri) | TetRes (v : list (vec3 float)) (t : list tet).

Definition read_with (k : rkind) (f : file (K:=float)) : meshres :=
  match k with
  | RVtkTria => match read_vtk_tria id32 float_of_Z f with Some (v, t) => TriaRes v t | None => NoMesh end
  | RVtkTet => match read_vtk_tet id32 float_of_Z f with Some (v, t) => TetRes v t | None => NoMesh end
  | ROff => match read_off id32 float_of_Z f with Some (v, t) => TriaRes v t | None => NoMesh end
  | RGmsh => match read_gmsh id32 float_of_Z f with Some (v, t) => TetRes v t | None => NoMesh end
  end.
Definition meshres_eqb (a b : meshres) : bool :=
  match a, b with
  | NoMesh, NoMesh => true
  | TriaRes v t, TriaRes v' t' => list_eqb v3_eqb v v' && tri_list_eqb t t'
  | TetRes v t, TetRes v' t' => list_eqb v3_eqb v v' && quad_list_eqb t t'
  | _, _ => false
  end.

(* ---- FreeSurfer surfaces at field level *)
Definition fl_eqb (a b : list float) : bool := list_eqb (fun x y => PrimFloat.eqb x y || (is_nan x && is_nan y)) a b.
Definition zl_eqb' (a b : list Z) : bool := list_eqb Z.eqb a b.
Definition payload_eqb (a b : payload (K:=float)) : bool :=
  match a, b with
  | PStr x, PStr y => String.eqb x y
  | PInts x, PInts y => zl_eqb' x y
  | PFloats x, PFloats y => fl_eqb x y
  | _, _ => false
  end.
Definition field_eqb (a b : field (K:=float)) : bool :=
  match a, b with
  | FMagic x y z, FMagic x' y' z' => Nat.eqb x x' && Nat.eqb y y' && Nat.eqb z z'
  | FLine x, FLine y => String.eqb x y
  | FI32 x, FI32 y => Z.eqb x y
  | FF32 x, FF32 y => PrimFloat.eqb x y || (is_nan x && is_nan y)
  | FKey k p, FKey k' p' => String.eqb k k' && payload_eqb p p'
  | _, _ => false
  end.
Definition fsinfo_eqb (a b : fsinfo (K:=float)) : bool :=
  zl_eqb' (fs_head a) (fs_head b) && String.eqb (fs_valid a) (fs_valid b) && String.eqb (fs_filename a) (fs_filename b) &&
  zl_eqb' (fs_volume a) (fs_volume b) && fl_eqb (fs_voxelsize a) (fs_voxelsize b) && fl_eqb (fs_xras a) (fs_xras b) &&
  fl_eqb (fs_yras a) (fs_yras b) && fl_eqb (fs_zras a) (fs_zras b) && fl_eqb (fs_cras a) (fs_cras b).
Definition v3tuple (p : float * float * float) : vec3 float := p.
(* observed result of read_fssurf: no mesh (any exception), or vertices, triangles, header *)
Inductive fsobs := FsNone | FsMesh (v : list (vec3 float)) (t : list tri) (info : option (fsinfo (K:=float))).
Definition fs_read_ok (f : fsfile (K:=float)) (o : fsobs) : bool :=
  match read_fs f, o with
  | FsErr _, FsNone => true
  | FsOk (v, t, info, _), FsMesh v' t' info' =>
      list_eqb v3_eqb v v' && tri_list_eqb t t' && opt_eqb fsinfo_eqb info info'
  | _, _ => false
  end.

Inductive c14case :=
| MeshFiles (written : meshres) (actual : file (K:=float)) (reads : list (rkind * file (K:=float) * meshres))
(* the mesh and header handed to write_fssurf (coordinates as float32, header floats as formatted), the fields of the file it wrote,
   and files (complete, truncated, wrong magic) with what read_fssurf made of them *)
| FsFiles (stamp : string) (v : list (vec3 float)) (t : list tri) (info : option (fsinfo (K:=float))) (actual : fsfile (K:=float))
          (reads : list (fsfile (K:=float) * fsobs)).
Definition check_c14 (c : c14case) : list bool :=
  match c with
  | MeshFiles written actual reads =>
      [ match written with
        | TriaRes v t => list_eqb stok_eqb (write_vtk_tria v t) actual
        | TetRes v t => list_eqb stok_eqb (write_vtk_tet v t) actual
        | NoMesh => true
        end;
        forallb (fun '(k, f, r) => meshres_eqb (read_with k f) r) reads ]
  | FsFiles stamp v t info actual reads =>
      [ list_eqb field_eqb (write_fs id32 id32 stamp v t info) actual;
        forallb (fun '(f, o) => fs_read_ok f o) reads ]
  end.

Definition and2 (a b : list bool) : list bool := map (fun '(x, y) => x && y) (combine a b).
Definition check_c14_multi (cs : list c14case) : list bool := fold_left (fun acc c => and2 acc (check_c14 c)) cs [true; true].
