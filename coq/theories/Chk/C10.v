(* Chk/C10.v -- correspondence check for orient_ (first and second call). *)
From Coq Require Import List Arith Bool ZArith PrimFloat String.
From LaPyV Require Import Base.Scalar Base.Vec3 Base.ListAux Model.TetMesh Model.TriaAdj Model.TriaOrient Chk.Cmp Chk.C09.
Import ListNotations.

Definition orient_res_eqb (a b : result (list tri * nat)) : bool :=
  res_eqb (fun x y => tri_list_eqb (fst x) (fst y) && Nat.eqb (snd x) (snd y)) a b.

Definition check_c10 (c : list (vec3 float) * list tri * result (list tri * nat) * result (list tri * nat)) : list bool :=
  let '(v, ts, r1, r2) := c in
  let m1 := orient Fops v ts in
  [ orient_res_eqb m1 r1;
    match m1 with
    | Ok (ts1, _) => orient_res_eqb (orient Fops v ts1) r2
    | Err _ => true
    end ].
