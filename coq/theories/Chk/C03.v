(* Chk/C03.v -- certificate check for Solver.eigs: with the model's A and B (binary64) every returned pair must
   satisfy A v = w B v, the vectors must be B-orthonormal and the values ascending. *)
From Coq Require Import List Arith Bool PrimFloat String.
From LaPyV Require Import Base.Scalar Base.Vec3 Base.ListAux Base.Sparse Model.TetMesh Model.TriaAdj Model.Fem Chk.Cmp Chk.C09 Chk.C05.
Import ListNotations.

Definition fdot (a b : list float) : float :=
  fold_left (fun acc '(x, y) => PrimFloat.add acc (PrimFloat.mul x y)) (combine a b) 0%float.
Definition mulvec_list (n : nat) (M : coo float) (x : list float) : list float := map (mulvec_at Fops M (vfun Fops x)) (iota n).
Fixpoint ascending (tol : float) (l : list float) : bool :=
  match l with
  | a :: ((b :: _) as tl) => PrimFloat.leb a (PrimFloat.add b tol) && ascending tol tl
  | _ => true
  end.

(* evecs given as a list of columns *)
Definition check_c03 (c : float * mesh * bool * list float * list (list float)) : list bool :=
  let '(tol, m, lump, w, cols) := c in
  let A := mesh_A m in let B := mesh_B lump m in let n := mesh_n m in
  let Bcols := map (mulvec_list n B) cols in
  let wscale := PrimFloat.add 1%float (fmaxabs w) in
  [ Nat.eqb (List.length w) (List.length cols) && forallb (fun col => Nat.eqb (List.length col) n) cols;
    (* residuals |A v - w B v| relative to |A||v| + |w||B||v| *)
    forallb (fun '(lam, (col, bcol)) =>
       let av := mulvec_list n A col in
       let sc := PrimFloat.add (fmaxabs (mulvec_list n (coo_absf A) (map PrimFloat.abs col)))
                               (PrimFloat.mul (PrimFloat.abs lam) (fmaxabs (mulvec_list n (coo_absf B) (map PrimFloat.abs col)))) in
       forallb (fun '(x, y) => PrimFloat.leb (PrimFloat.abs (PrimFloat.sub x (PrimFloat.mul lam y))) (PrimFloat.mul tol sc))
               (combine av bcol)) (combine w (combine cols Bcols));
    (* V^T B V = I *)
    forallb (fun '(i, ci) =>
       forallb (fun '(j, bj) =>
          let d := fdot ci bj in
          PrimFloat.leb (PrimFloat.abs (PrimFloat.sub d (if Nat.eqb i j then 1%float else 0%float))) tol)
          (enumerate Bcols)) (enumerate cols);
    ascending (PrimFloat.mul tol wscale) w ].
