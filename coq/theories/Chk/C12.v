(* Chk/C12.v -- correspondence check for C12: model (binary64) vs implementation outputs. *)
From Coq Require Import List Arith Bool PrimFloat String.
From LaPyV Require Import Base.Scalar Base.Vec3 Base.ListAux Model.TetMesh Chk.Cmp.
Import ListNotations.

Definition c12_case : Type :=
  (list (vec3 float) * list tet * (bool * list tet * nat * bool) * (list tri * list nat * list tri))%type.

Definition check_c12 (c : c12_case) : list bool :=
  let '(v, ts, (io, ot, oc, ioa), (bt, bown, bot)) := c in
  let '(mt, mc) := tet_orient Fops v ts in
  [ Bool.eqb (tet_is_oriented Fops v ts) io;
    quad_list_eqb mt ot;
    Nat.eqb mc oc;
    Bool.eqb (tet_is_oriented Fops v mt) ioa;
    tri_list_eqb (tet_boundary_tria ts) bt;
    nat_list_eqb (tet_boundary_owner ts) bown;
    tri_list_eqb (tet_boundary_tria mt) bot ].
