(* Chk/C11.v -- correspondence check for refine_. *)
From Coq Require Import List Arith Bool PrimFloat String.
From LaPyV Require Import Base.Scalar Base.Vec3 Base.ListAux Model.TetMesh Model.TriaAdj Model.TriaRefine Chk.Cmp.
Import ListNotations.

Definition check_c11 (c : float * list (vec3 float) * list tri * nat * (list (vec3 float) * list tri)) : list bool :=
  let '(tol, v, ts, it, (v', ts')) := c in
  let '(mv, mt) := refine Fops it (v, ts) in
  [ v3list_close tol mv v'; tri_list_eqb mt ts' ].
