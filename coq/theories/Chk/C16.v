(* Chk/C16.v -- correspondence check for level_length / level_path. *)
From Coq Require Import List Arith Bool PrimFloat String.
From LaPyV Require Import Base.Scalar Base.Vec3 Base.ListAux Model.TetMesh Model.TriaAdj Model.LevelSet Chk.Cmp Chk.C09.
Import ListNotations.

(* one level_path call: level, get_tria_idx, n_points, observed (points, length, tria idx) *)
Definition pcase := (float * bool * nat * result (list (vec3 float) * float * list nat))%type.

Definition path_ok (tol fl : float) (v : list (vec3 float)) (ts : list tri) (ncols : nat) (f : list float) (pc : pcase) : bool :=
  let '(lvl, gt, np, obs) := pc in
  match level_path Fops 0x1.0c6f7a0b5ed8dp-20%float v ts ncols f lvl gt np, obs with
  | Err e, Err e' => err_eqb e e'
  | Ok m, Ok (pts, len, tri) =>
      (* graphs with a node of more than two neighbours are outside the modelled domain (argsort of tied distances) *)
      Nat.ltb 2 (lp_maxdeg m) ||
      (v3list_close_fl tol fl (lp_points m) pts && flist_close_fl tol fl [lp_length m] [len] && nat_list_eqb (lp_tria m) tri)
  | Err _, Ok _ => false
  | Ok m, Err _ => Nat.ltb 2 (lp_maxdeg m)
  end.

Definition check_c16 (c : float * float * list (vec3 float) * list tri * nat * list float * list float * result (list float) * list pcase) : list bool :=
  let '(tol, fl, v, ts, ncols, f, lvls, olen, pcs) := c in
  [ res_eqb (flist_close_fl tol fl) (level_length Fops v ts ncols f lvls) olen;
    forallb (path_ok tol fl v ts ncols f) pcs ].
