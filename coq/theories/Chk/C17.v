(* Chk/C17.v -- correspondence check for curvature / curvature_tria.  np.linalg.eig is an oracle: the harness records its
   argument and its result; the model must reproduce the argument, and, fed with the result, the outputs. *)
From Coq Require Import List Arith Bool PrimFloat String.
From LaPyV Require Import Base.Scalar Base.Vec3 Base.ListAux Base.FloatFun Model.TetMesh Model.TriaAdj Model.TriaGeom Model.TriaFunc
  Model.Curvature Chk.Cmp Chk.C09 Chk.C15.
Import ListNotations.

Definition mk_eig (ev : vec3 float) (c0 c1 c2 : vec3 float) : eig3 (K:=float) :=
  {| ev0 := vx ev; ev1 := vy ev; ev2 := vz ev; ec0 := c0; ec1 := c1; ec2 := c2 |}.
Definition mk_curv (umin umax : vec3 float) (cmin cmax mean gauss : float) (n : vec3 float) : curv1 (K:=float) :=
  {| u_min := umin; u_max := umax; c_min := cmin; c_max := cmax; c_mean := mean; c_gauss := gauss; nrm := n |}.

Definition curv_flat (c : curv1 (K:=float)) : list float :=
  [vx (u_min c); vy (u_min c); vz (u_min c); vx (u_max c); vy (u_max c); vz (u_max c);
   vx (nrm c); vy (nrm c); vz (nrm c)].
Definition curv_vals (c : curv1 (K:=float)) : list float := [c_min c; c_max c; c_mean c; c_gauss c].
Definition curv_close (tol : float) (a b : list (curv1 (K:=float))) : bool :=
  list_eqb (fun x y => flist_close_fl tol 1 (curv_flat x) (curv_flat y)) a b &&
  flist_close_scaled tol (flat_map curv_vals a) (flat_map curv_vals b).

(* a triangle whose projected direction is (nearly) lost is not compared: normalising it amplifies rounding *)
Definition frame_close (tol : float) (v : list (vec3 float)) (cs : list (curv1 (K:=float))) (t : tri)
  (m o : vec3 float * vec3 float * float * float) : bool :=
  let '(u, w, a, b) := m in let '(u', w', a', b') := o in
  flist_close_fl tol 1 [vx u; vy u; vz u; vx w; vy w; vz w] [vx u'; vy u'; vz u'; vx w'; vy w'; vz w'].

Definition check_c17 (c : float * list (vec3 float) * list tri * nat
                          * result (list (list float))            (* six columns handed to eig *)
                          * list (eig3 (K:=float)) * list (vec3 float)   (* eig result, vertex normals *)
                          * list (curv1 (K:=float))               (* curvature() *)
                          * list (vec3 float * vec3 float * float * float) * list bool) : list bool :=
  let '(tol, v, ts, k, omats, eigs, vns, ocurv, otria, tria_cmp) := c in
  let n := List.length v in
  [ res_eqb (cols_close tol) (curv_cols Fops float_acos n v ts k) omats;
    curv_close 0x1p-40%float (curv_post Fops eigs vns) ocurv;
    let m := curvature_tria Fops v ts ocurv in
    Nat.eqb (List.length m) (List.length otria) &&
    forallb (fun '(x, y, cmp) => negb cmp || (frame_close tol v ocurv (0, 0, 0)%nat x y
                                              && flist_close_scaled tol [snd (fst x); snd x] [snd (fst y); snd y]))
            (combine (combine m otria) tria_cmp) ].
