(* Chk/C07.v -- certificate check for heat.diffusion (residual of (B + tA) u = indicator with the model's system)
   and correspondence for kernel / diagonal. *)
From Coq Require Import List Arith Bool PrimFloat String.
From LaPyV Require Import Base.Scalar Base.Vec3 Base.ListAux Base.Sparse Model.TetMesh Model.TriaAdj Model.Fem Model.TriaGeom Model.Heat
  Chk.Cmp Chk.C09 Chk.C05.
Import ListNotations.

Inductive c07case :=
| Diffusion (tol : float) (m : mesh) (vids : list nat) (mfac : float) (u : list float)
| KernelCase (tol : float) (ts : list float) (vfix : nat) (xs : list nat) (evecs : list (list float)) (evals : list float) (n : nat)
             (k : list (list float)) (d : list (list float)).

Definition check_c07 (c : c07case) : list bool :=
  match c with
  | Diffusion tol m vids mfac u =>
      let H := match m with MTria v t => tria_heat_system Fops v t mfac | MTet v t => tet_heat_system Fops v t mfac end in
      let n := mesh_n m in
      let b := heat_rhs Fops n vids in
      let uf := vfun Fops u in
      [ Nat.eqb (List.length u) n;
        forallb (fun k =>
          let lhs := mulvec_at Fops H uf k in
          let rhs := nth k b 0%float in
          let sc := PrimFloat.add (mulvec_at Fops (coo_absf H) (fun j => PrimFloat.abs (uf j)) k) (PrimFloat.abs rhs) in
          PrimFloat.leb (PrimFloat.abs (PrimFloat.sub lhs rhs)) (PrimFloat.mul tol sc)) (iota n) ]
  | KernelCase tol ts vfix xs evecs evals n k d =>
      [ list_eqb (flist_close_scaled tol) (heat_kernel Fops ts vfix evecs evals n) k;
        list_eqb (flist_close_scaled tol) (heat_diagonal Fops ts xs evecs evals n) d ]
  end.
