(* Chk/C09.v -- correspondence check for the connectivity queries. *)
From Coq Require Import List Arith Bool ZArith String.
From LaPyV Require Import Base.ListAux Model.TetMesh Model.TriaAdj Chk.Cmp.
Import ListNotations.

Definition err_eqb (a b : err) : bool :=
  match a, b with
  | ValueError, ValueError | IndexError, IndexError | OutOfFuel, OutOfFuel | OtherError, OtherError => true
  | _, _ => false
  end.
Definition res_eqb {A} (eqA : A -> A -> bool) (a b : result A) : bool :=
  match a, b with
  | Ok x, Ok y => eqA x y
  | Err e, Err f => err_eqb e f
  | _, _ => false
  end.

Record c09_obs := mkC09 {
  o_closed : bool; o_manifold : bool; o_oriented : bool; o_euler : Z; o_free : bool;
  o_vdeg : list nat;
  o_loops : result (list (list nat));
  o_edges : result (list (nat * nat) * list (nat * nat));
  o_bedges : result (list (nat * nat) * list nat)
}.

Definition check_c09 (c : nat * list tri * c09_obs) : list bool :=
  let '(n, ts, o) := c in
  [ Bool.eqb (is_closed ts) (o_closed o);
    Bool.eqb (is_manifold ts) (o_manifold o);
    Bool.eqb (is_oriented ts) (o_oriented o);
    Z.eqb (euler ts) (o_euler o);
    Bool.eqb (tria_has_free_vertices n ts) (o_free o);
    nat_list_eqb (vertex_degrees n ts) (o_vdeg o);
    res_eqb (list_eqb nat_list_eqb) (boundary_loops ts) (o_loops o);
    res_eqb (fun a b => pair_list_eqb (fst a) (fst b) && pair_list_eqb (snd a) (snd b)) (edges_inner ts) (o_edges o);
    res_eqb (fun a b => pair_list_eqb (fst a) (fst b) && nat_list_eqb (snd a) (snd b))
            (if is_oriented ts then Ok (edges_boundary ts) else Err ValueError) (o_bedges o) ].
