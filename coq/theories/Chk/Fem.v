(* Chk/Fem.v -- correspondence checks for C01 / C02: assembled matrices of the
   binary64 model vs the implementation's matrices (as value maps). *)
From Coq Require Import List Arith Bool PrimFloat String.
From LaPyV Require Import Base.Scalar Base.Vec3 Base.ListAux Base.Sparse Model.TetMesh Model.Fem Chk.Cmp.
Import ListNotations.

Definition coo_maxabs (M : coo float) : float := fmaxabs (map snd M).
(* impl lists every stored key once (duplicates already summed) *)
Definition coo_close (tol : float) (model impl : coo float) (dim : nat) : list bool :=
  let s := PrimFloat.add (coo_maxabs impl) 0x1p-1000%float in
  [ forallb (fun '(i, j, a) =>
       PrimFloat.leb (PrimFloat.abs (PrimFloat.sub (entry Fops model i j) a)) (PrimFloat.mul tol s)) impl;
    forallb (fun '(i, j, _) => existsb (fun '(i', j', _) => Nat.eqb i i' && Nat.eqb j j') impl) model;
    Nat.eqb (coo_dim model) dim ].

Inductive femcase :=
| TriaCase (tol : float) (v : list (vec3 float)) (ts : list tri) (lump : bool) (A B : coo float) (dim : nat)
| TetCase (tol : float) (v : list (vec3 float)) (ts : list tet) (lump : bool) (A B : coo float) (dim : nat)
| AnisoCase (tol : float) (v : list (vec3 float)) (ts : list tri) (lump : bool)
            (u1 u2 : list (vec3 float)) (c1 c2 : list float) (a0 a1 : float) (A B : coo float) (dim : nat)
| MassCase (tol : float) (v : list (vec3 float)) (ts : list tri) (lump : bool) (B : coo float) (dim : nat).

(* 6 sub-checks: A values, A support, A dim, B values, B support, B dim *)
Definition check_fem (c : femcase) : list bool :=
  match c with
  | TriaCase tol v ts lump A B dim =>
      coo_close tol (fem_tria_A Fops v ts) A dim ++ coo_close tol (fem_tria_B Fops lump v ts) B dim
  | TetCase tol v ts lump A B dim =>
      coo_close tol (fem_tet_A Fops v ts) A dim ++ coo_close tol (fem_tet_B Fops lump v ts) B dim
  | AnisoCase tol v ts lump u1 u2 c1 c2 a0 a1 A B dim =>
      coo_close tol (fem_aniso_A Fops v ts u1 u2 (aniso_weights Fops a0 a1 c1 c2)) A dim
      ++ coo_close tol (fem_tria_B Fops lump v ts) B dim
  | MassCase tol v ts lump B dim =>
      [true; true; true] ++ coo_close tol (fem_tria_mass Fops lump v ts) B dim
  end.
