(* Chk/C05.v -- certificate check for Solver.poisson: validation outcome, Dirichlet values, residual of
   A x = B (h - n) at the free vertices, with the model's A, B (binary64) and the implementation's x. *)
From Coq Require Import List Arith Bool PrimFloat String.
From LaPyV Require Import Base.Scalar Base.Vec3 Base.ListAux Base.Sparse Model.TetMesh Model.TriaAdj Model.Fem Model.Poisson Chk.Cmp Chk.C09.
Import ListNotations.

Inductive mesh := MTria (v : list (vec3 float)) (t : list tri) | MTet (v : list (vec3 float)) (t : list tet).
Definition mesh_A (m : mesh) : coo float := match m with MTria v t => fem_tria_A Fops v t | MTet v t => fem_tet_A Fops v t end.
Definition mesh_B (lump : bool) (m : mesh) : coo float :=
  match m with MTria v t => fem_tria_B Fops lump v t | MTet v t => fem_tet_B Fops lump v t end.
Definition mesh_n (m : mesh) : nat := match m with MTria v _ => List.length v | MTet v _ => List.length v end.
Definition coo_absf (M : coo float) : coo float := map (fun '(i, j, a) => (i, j, PrimFloat.abs a)) M.
Definition dummy_solve (n : nat) (_ : coo float) (_ : list float) : result (list float) := Ok (repeat 0%float n).

Definition check_c05 (c : float * mesh * bool * hspec float * option (list nat * list float) * option (list nat * list float)
                          * result (list float)) : list bool :=
  let '(tol, m, lump, h, dtup, ntup, obs) := c in
  let A := mesh_A m in let B := mesh_B lump m in let dim := mesh_n m in
  let model := poisson Fops dummy_solve dim A B h dtup ntup in
  match obs with
  | Err e => [ match model with Err e' => err_eqb e e' | Ok _ => false end; true; true ]
  | Ok x =>
      let didx := match dtup with Some (i, _) => i | None => [] end in
      let ddat := match dtup with Some (_, d) => d | None => [] end in
      let n := match ntup with Some (i, d) => combine i d | None => [] end in
      let hf := hfun Fops dim h in
      let xf := vfun Fops x in
      [ match model with Ok _ => Nat.eqb (List.length x) dim | Err _ => false end;
        forallb (fun '(i, d) => PrimFloat.eqb (xf i) d) (combine didx ddat);
        forallb (fun k =>
          let lhs := mulvec_at Fops A xf k in
          let rhs := mulvec_at Fops B (fun j => PrimFloat.sub (hf j) (scatter_at Fops n j)) k in
          let sc := PrimFloat.add (PrimFloat.add (mulvec_at Fops (coo_absf A) (fun j => PrimFloat.abs (xf j)) k) (PrimFloat.abs rhs))
                                  (mulvec_at Fops (coo_absf B) (fun j => PrimFloat.abs (PrimFloat.sub (hf j) (scatter_at Fops n j))) k) in
          PrimFloat.leb (PrimFloat.abs (PrimFloat.sub lhs rhs)) (PrimFloat.mul tol sc))
          (free_list dim didx) ]
  end.
