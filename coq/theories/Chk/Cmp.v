(* Chk/Cmp.v -- comparators used by the generated correspondence files.
   Every generated cases_*.v ends with one [Eval vm_compute in render (map check cases)],
   which prints a single string: one character per sub-check ('1' agree, '0' differ),
   cases separated by ';'. *)
From Coq Require Import List Arith Bool PeanoNat ZArith String Ascii PrimFloat.
From LaPyV Require Import Base.Scalar Base.Vec3 Base.ListAux.
Import ListNotations.
Open Scope string_scope.

Definition fclose (tol a b : float) : bool :=
  PrimFloat.leb (PrimFloat.abs (PrimFloat.sub a b))
                (PrimFloat.mul tol (PrimFloat.add 1 (PrimFloat.abs b))).
Definition fclose_abs (tol a b : float) : bool :=
  PrimFloat.leb (PrimFloat.abs (PrimFloat.sub a b)) tol.
Fixpoint list_eqb {A} (eqA : A -> A -> bool) (a b : list A) : bool :=
  match a, b with
  | [], [] => true
  | x :: a', y :: b' => eqA x y && list_eqb eqA a' b'
  | _, _ => false
  end.
Definition flist_close (tol : float) (a b : list float) : bool := list_eqb (fclose tol) a b.
Definition v3close (tol : float) (a b : vec3 float) : bool :=
  fclose tol (vx a) (vx b) && fclose tol (vy a) (vy b) && fclose tol (vz a) (vz b).
(* closeness of a vector relative to the scale of the whole vector *)
Definition fmaxabs (l : list float) : float :=
  fold_left (fun m x => if PrimFloat.ltb m (PrimFloat.abs x) then PrimFloat.abs x else m) l 0%float.
Definition is_nan (x : float) : bool := negb (PrimFloat.eqb x x).
(* NaN agrees with NaN (model and implementation degenerate in the same place); the property oracles,
   not the correspondence, decide whether a NaN is acceptable *)
(* |x - y| <= tol * (fl + max|a| + max|b|): purely relative to the magnitude of the compared vectors plus a floor
   [fl] that the caller derives from the magnitude of the inputs (0 where the output cannot be pure cancellation noise) *)
Definition flist_close_fl (tol fl : float) (a b : list float) : bool :=
  let s := PrimFloat.add fl (PrimFloat.add (fmaxabs a) (fmaxabs b)) in
  list_eqb (fun x y => PrimFloat.leb (PrimFloat.abs (PrimFloat.sub x y)) (PrimFloat.mul tol s) || (is_nan x && is_nan y)) a b.
Definition flist_close_scaled (tol : float) (a b : list float) : bool := flist_close_fl tol 0x1p-1000%float a b.
Definition v3list_close (tol : float) (a b : list (vec3 float)) : bool := list_eqb (v3close tol) a b.
Definition flat3 (l : list (vec3 float)) : list float :=
  flat_map (fun p => [vx p; vy p; vz p]) l.
Definition v3list_close_scaled (tol : float) (a b : list (vec3 float)) : bool :=
  flist_close_scaled tol (flat3 a) (flat3 b).
Definition v3list_close_fl (tol fl : float) (a b : list (vec3 float)) : bool :=
  flist_close_fl tol fl (flat3 a) (flat3 b).
Definition nat_list_eqb := list_eqb Nat.eqb.
Definition tri_list_eqb := list_eqb tri_eqb.
Definition quad_eqb (a b : nat * nat * nat * nat) : bool :=
  let '(a0, a1, a2, a3) := a in let '(b0, b1, b2, b3) := b in
  Nat.eqb a0 b0 && Nat.eqb a1 b1 && Nat.eqb a2 b2 && Nat.eqb a3 b3.
Definition quad_list_eqb := list_eqb quad_eqb.
Definition pair_list_eqb := list_eqb pair_eqb.
Definition opt_eqb {A} (eqA : A -> A -> bool) (a b : option A) : bool :=
  match a, b with
  | None, None => true
  | Some x, Some y => eqA x y
  | _, _ => false
  end.

Definition bit (b : bool) : string := if b then "1" else "0".
Fixpoint bits (l : list bool) : string :=
  match l with [] => "" | b :: tl => bit b ++ bits tl end.
Fixpoint render (l : list (list bool)) : string :=
  match l with
  | [] => ""
  | c :: tl => bits c ++ ";" ++ render tl
  end.
