#!/bin/bash
# usage: harness/seedtest.sh <seed dir name> <property> [tier]   -- apply seeded patch to /repo, run check, revert
cd /verif
if ! git -C /repo apply --check /verif/seeded/$1/patch.diff 2>/dev/null; then echo "$1: patch does not apply"; exit 2; fi
git -C /repo apply /verif/seeded/$1/patch.diff
cp evidence/$2.json /tmp/evidence_$2.keep 2>/dev/null     # evidence files must describe runs on the unchanged tree only
./check $2 --tier ${3:-quick} | grep -E "VIOLATION|KNOWN|tier=" | cut -c1-220 | tail -4
git -C /repo checkout -- lapy
cp /tmp/evidence_$2.keep evidence/$2.json 2>/dev/null; rm -f /tmp/evidence_$2.keep
