#!/bin/bash
# usage: harness/seedtest.sh <seed dir name> <property> [tier]   -- apply seeded patch to /repo, run check, revert
cd /verif
if ! git -C /repo apply --check /verif/seeded/$1/patch.diff 2>/dev/null; then echo "$1: patch does not apply"; exit 2; fi
git -C /repo apply /verif/seeded/$1/patch.diff
./check $2 --tier ${3:-quick} | grep -E "VIOLATION|KNOWN|tier=" | cut -c1-220 | tail -4
git -C /repo checkout -- lapy
