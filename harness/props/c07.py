"""C07  Heat diffusion is a conservative implicit Euler step; kernel is the spectral sum."""
import numpy as np

from .. import core, femcommon as fc, gen_mesh as gm

ID = "C07"
LIMIT = 40.0
RULE = ("diffusion: meshes as in C01 (tria + tet, float64, all vertices used, several components, scales) x seed sets (1..4 vertices, "
        "with repeats) x m in {0.3, 1, 4} x (triangles) aniso in {None, 0, 2, 0.5, 2.5}; each followed by a second call on the SAME object after an "
        "in-place change (normalize_ / scaling of v) and by calls on rigidly moved + relabelled and on scaled copies; kernel/diagonal: "
        "random eigen-decompositions (ascending, descending and shuffled eigenvalue order) x time rows T in 1..4 x n in 1..N x vertex "
        "ids. distinct = hash of the case; non-trivial = >= 2 distinct seeds or T >= 2")
TRUSTED = ["SuperLU (splu) is an oracle: its output is verified against the model's system (B + tA) u = indicator inside Coq"]
ASSUMPTIONS = ["residuals compared at 2e-5 relative (solve in float32 right-hand side precision)",
               "kernel/diagonal are modelled at formula level (numpy broadcasting rules are checked by the oracle on shapes/values)"]
EXHAUSTIVE = {"quick": False, "thorough": False}
SHARD_BYTES = 100_000

COQ_HEADER = """From Coq Require Import List PrimFloat String.
From LaPyV Require Import Base.Scalar Base.Vec3 Base.ListAux Base.Sparse Model.TetMesh Model.TriaAdj Model.Fem Model.TriaGeom Model.Heat Chk.Cmp Chk.C09 Chk.C05 Chk.C07.
Import ListNotations. Open Scope float_scope."""
COQ_CHECK = "check_c07"
COQ_LABELS = ["shape_or_kernel", "residual_or_diagonal"]


def generate(rng, tier):
    nt, nq = (50, 25) if tier == "quick" else (400, 200)
    base = fc.fem_mesh_cases(rng, tier, nt, nq, allow_f32=False)
    cases = []
    for c in base:
        n = len(c["v"])
        k = rng.randint(1, 4)
        vids = [rng.randrange(n) for _ in range(k)]
        if rng.random() < 0.2:
            vids.append(vids[0])
        c.update({"ctype": "diffusion", "vids": vids, "m": rng.choice([0.3, 1.0, 4.0]), "aniso": None,
                  "tseed": rng.randrange(1 << 30), "inplace": rng.choice(["normalize", "scale"])})
        cases.append(c)
    for k in range(8 if tier == "quick" else 60):
        v, t = gm.tria_family(rng.choice(["ico", "ellipsoid", "torus", "gridh"]), rng)
        v, t = gm.compact(v, t)
        if len(t) < 4 or fc.min_tria_quality(v, t) < 0.1:
            continue
        n = len(v)
        cases.append({"kind": "tria", "family": "aniso", "v": v, "t": t, "lump": True, "vdtype": "float64", "tdtype": "int64",
                      "ctype": "diffusion", "vids": [rng.randrange(n), rng.randrange(n)], "m": 1.0, "aniso": rng.choice([0, 2, 0.5, 2.5]),
                      "tseed": rng.randrange(1 << 30), "inplace": "normalize"})
    for k in range(40 if tier == "quick" else 400):
        M, N = rng.randint(3, 9), rng.randint(2, 6)
        evecs = [[rng.uniform(-1, 1) for _ in range(N)] for _ in range(M)]
        evals = sorted(abs(rng.gauss(0, 2)) for _ in range(N))
        order = rng.choice(["asc", "asc", "desc", "shuffled"])
        if order == "desc":
            evals = evals[::-1]
        elif order == "shuffled":
            rng.shuffle(evals)
        T = rng.randint(1, 4)
        ts = [rng.uniform(0.05, 3) for _ in range(T)]
        if k % 4 == 0:
            # time vectors spanning several orders of magnitude and large eigenvalues: a term that is negligible at the largest
            # time dominates at the smallest one
            evals = sorted(abs(rng.gauss(0, 2)) * rng.choice([1.0, 30.0, 300.0]) for _ in range(N))
            ts = sorted({rng.choice([1e-4, 1e-3, 1e-2]), rng.choice([0.5, 5.0, 50.0]), rng.uniform(0.05, 3)})
            if rng.random() < 0.5:
                ts = ts[::-1]
            order = "asc_widetimes"
        cases.append({"ctype": "kernel", "family": "kernel_" + order, "evecs": evecs, "evals": evals,
                      "t": ts, "n": rng.randint(1, N), "vfix": rng.randrange(M),
                      "xs": [rng.randrange(M) for _ in range(rng.randint(1, 4))]})
    return cases


def _diffuse(mesh, case, vids=None):
    from lapy import heat
    return np.asarray(heat.diffusion(mesh, np.array(case["vids"] if vids is None else vids), m=case["m"], aniso=case["aniso"]), dtype=float)


def run_impl(case):
    import random
    from lapy import Solver, heat
    out = {}
    if case["ctype"] == "kernel":
        ev = np.array(case["evecs"])
        el = np.array(case["evals"])[:, None]
        t = np.array(case["t"])[None, :]
        for name, fn in (("k", lambda: heat.kernel(t, case["vfix"], ev, el, case["n"])),
                         ("d", lambda: heat.diagonal(t, np.array(case["xs"]), ev, el, case["n"]))):
            try:
                r = np.asarray(fn(), dtype=float)
                out[name] = r.tolist()
                out[name + "_shape"] = list(r.shape)
            except Exception as e:
                out[name] = core.errkind(e)
        # symmetry in (p, q): kernel from q evaluated at p
        try:
            out["kT"] = [np.asarray(heat.kernel(t, p, ev, el, case["n"]), dtype=float)[case["vfix"]].tolist() for p in range(len(ev))]
        except Exception as e:
            out["kT"] = core.errkind(e)
        return out
    try:
        mesh = fc.build_mesh(case)
        v0, t0 = np.array(mesh.v).copy(), np.array(mesh.t).copy()
        u = _diffuse(mesh, case)
        out["u"] = u.tolist()
        out["mesh_untouched"] = bool(np.array_equal(np.array(mesh.v), v0) and np.array_equal(np.array(mesh.t), t0))
        s = Solver(mesh, lump=True, aniso=case["aniso"])
        out["B"] = [float(x) for x in s.mass.diagonal()]
        out["A"] = fc.coo_of(s.stiffness)
        out["avg"] = float(mesh.avg_edge_length())
        # additivity over disjoint seed sets
        dist = sorted(set(case["vids"]))
        if len(dist) >= 2:
            a, b = dist[: len(dist) // 2], dist[len(dist) // 2:]
            out["add_err"] = float(np.abs(_diffuse(mesh, case, a) + _diffuse(mesh, case, b) - u).max())
        # same object after an in-place change, vs a fresh object with the same data
        if case["kind"] == "tria" and case["inplace"] == "normalize":
            mesh.normalize_()
        else:
            mesh.v = 2.5 * mesh.v
        fresh = type(mesh)(np.array(mesh.v), np.array(mesh.t))
        out["hist_err"] = float(np.abs(_diffuse(mesh, case) - _diffuse(fresh, case)).max())
        out["hist_scale"] = float(np.abs(_diffuse(fresh, case)).max())
        # rigid motion + relabelling, scaling
        r = random.Random(case["tseed"])
        c64 = dict(case)
        vt, q, _s, b = gm.similarity(case["v"], r, reflect=r.random() < 0.5, scale=1.0)
        vr, tr, perm = gm.relabel(vt, case["t"], r)
        c64.update({"v": vr, "t": tr})
        ur = _diffuse(fc.build_mesh(c64), case, [perm[i] for i in case["vids"]])
        out["rigid_err"] = float(np.abs(ur[np.array(perm)] - u).max())
        sc = r.choice([0.4, 3.0])
        c64.update({"v": (np.array(case["v"]) * sc).tolist(), "t": case["t"]})
        us = _diffuse(fc.build_mesh(c64), case)
        d = 2 if case["kind"] == "tria" else 3
        out["scale_err"] = float(np.abs(us * sc ** d - u).max())
    except Exception as e:
        out["error"] = core.errkind(e)
        out["error_msg"] = str(e)[:300]
    return out


def coq_case(case, out):
    if case["ctype"] == "kernel":
        if isinstance(out["k"], str) or isinstance(out["d"], str):
            return None
        rows = lambda M: "[" + "; ".join(core.cflist(r) for r in M) + "]"
        return "(KernelCase %s %s %d%%nat %s %s %s %d%%nat %s %s)" % (
            "0x1.12e0be826d695p-30", core.cflist(case["t"]), case["vfix"], core.cnlist(case["xs"]), rows(case["evecs"]),
            core.cflist(case["evals"]), case["n"], rows(out["k"]), rows(out["d"]))
    if "error" in out or case["aniso"] is not None:
        return None
    mesh = ("(MTria %s %s)" if case["kind"] == "tria" else "(MTet %s %s)") % (core.cv3list(case["v"]), core.ctuples(case["t"]))
    return "(Diffusion %s %s %s %s %s)" % ("0x1.4f8b588e368f1p-16", mesh, core.cnlist(case["vids"]), core.cfloat(case["m"]), core.cflist(out["u"]))


def oracle(case, out):
    V = []
    def bad(clause, detail, wc=None):
        V.append({"clause": clause, "detail": detail, "witness_class": wc})
    if case["ctype"] == "kernel":
        ev, el, t, n = np.array(case["evecs"]), np.array(case["evals"]), np.array(case["t"]), case["n"]
        M = len(ev)
        ref = np.array([[sum(np.exp(-el[j] * tt) * ev[p, j] * ev[case["vfix"], j] for j in range(n)) for tt in t] for p in range(M)])
        if isinstance(out["k"], str):
            bad("kernel_no_exception", out["k"], f"T={len(t)}")
        else:
            k = np.array(out["k"])
            if list(k.shape) != [M, len(t)] or np.abs(k - ref).max() > 1e-9 * (np.abs(ref).max() + 1e-300):
                bad("kernel_is_spectral_sum", f"shape {k.shape} max diff {np.abs(k - ref).max() if list(k.shape) == [M, len(t)] else 'n/a'}",
                    case["family"])
            if not isinstance(out["kT"], str) and np.abs(np.array(out["kT"]) - ref).max() > 1e-9 * (np.abs(ref).max() + 1e-300):
                bad("kernel_symmetric_in_p_q", "K(p,q) != K(q,p)")
        refd = np.array([[sum(np.exp(-el[j] * tt) * ev[x, j] ** 2 for j in range(n)) for tt in t] for x in case["xs"]])
        if isinstance(out["d"], str):
            bad("diagonal_no_exception", out["d"])
        else:
            d = np.array(out["d"])
            if d.shape != refd.shape or np.abs(d - refd).max() > 1e-9 * (np.abs(refd).max() + 1e-300):
                bad("diagonal_is_kernel_at_p_eq_q", f"max diff {np.abs(d - refd).max() if d.shape == refd.shape else d.shape}", case["family"])
        return V
    if "error" in out:
        bad("diffusion_no_exception", out["error"] + ": " + out.get("error_msg", ""))
        return V
    u = np.array(out["u"])
    n = len(case["v"])
    B = np.array(out["B"])
    A = fc.dense(out["A"])
    tt = case["m"] * out["avg"] ** 2
    b0 = np.zeros(n)
    b0[np.array(case["vids"])] = 1.0
    H = np.diag(B) + tt * A
    res = H @ u - b0
    sc = np.abs(H) @ np.abs(u) + b0 + 1e-300
    if (np.abs(res) / sc).max() > 5e-5:
        bad("solves_backward_euler_system", f"max relative residual {(np.abs(res) / sc).max()}")
    heat_total = float(B @ u)
    nseed = len(set(case["vids"]))
    if abs(heat_total - nseed) > 1e-4 * nseed:
        bad("total_heat_equals_number_of_seeds", f"{heat_total} vs {nseed}")
    if not out["mesh_untouched"]:
        bad("diffusion_keeps_mesh", "v/t changed")
    us = np.abs(u).max() + 1e-300
    if "add_err" in out and out["add_err"] > 1e-4 * us:
        bad("additive_over_disjoint_seed_sets", f"{out['add_err']} (scale {us})")
    if out["hist_err"] > 1e-4 * (out["hist_scale"] + 1e-300):
        bad("same_result_on_reused_object_after_inplace_change", f"{out['hist_err']} (scale {out['hist_scale']})", "history")
    if case["aniso"] is None:
        if out["rigid_err"] > 2e-4 * us:
            bad("invariant_under_rigid_motion_and_relabelling", f"{out['rigid_err']} (scale {us})")
        if out["scale_err"] > 2e-4 * us:
            bad("scales_with_s_to_minus_d", f"{out['scale_err']} (scale {us})")
    return V


def nontrivial(case, out):
    if case["ctype"] == "kernel":
        return len(case["t"]) >= 2
    return "error" not in out and len(set(case["vids"])) >= 2
